//go:build verif

package bitstream

// Verification-only accessors (injected with go build -overlay; never part of the repository).

type VerifKanjiTables struct {
	Low, High [5]rune
	Enc       [5][]int16
	Dec       []uint16
}

func VerifKanji() VerifKanjiTables {
	return VerifKanjiTables{
		Low:  [5]rune{encode0Low, encode1Low, encode2Low, encode3Low, encode4Low},
		High: [5]rune{encode0High, encode1High, encode2High, encode3High, encode4High},
		Enc:  [5][]int16{encode0[:], encode1[:], encode2[:], encode3[:], encode4[:]},
		Dec:  decode[:],
	}
}

func VerifAlnum() (toChar []byte, toIdx [256]int) { return bitToAlphanumeric, alphabets }

func VerifEncodeKanjiRune(r rune) (uint64, bool) { return encodeKanji(r) }

// VerifState exposes the private fields of a Buffer.
func (b *Buffer) VerifState() (buf []byte, offset, read, wrote int) {
	return b.buf, b.offset, b.read, b.wrote
}
