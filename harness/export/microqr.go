//go:build verif

package microqr

import (
	"github.com/shogo82148/qrcode/internal/bitmap"
	"github.com/shogo82148/qrcode/internal/bitstream"
)

// Verification-only accessors (injected with go build -overlay; never part of the repository).

type VerifCap struct{ Total, Data, DataBits, Correction, MaxError, Reserved int }

func VerifCapacity() [][]VerifCap {
	out := make([][]VerifCap, len(capacityTable))
	for v := range capacityTable {
		out[v] = make([]VerifCap, len(capacityTable[v]))
		for l, c := range capacityTable[v] {
			out[v][l] = VerifCap{c.Total, c.Data, c.DataBits, c.Correction, c.MaxError, c.Reserved}
		}
	}
	return out
}
func VerifFormatTable() [][]int {
	out := make([][]int, len(formatTable))
	for v := range formatTable {
		out[v] = append([]int(nil), formatTable[v][:]...)
	}
	return out
}
func VerifRawFormatTable() [][2]int {
	out := make([][2]int, len(rawFormatTable))
	for i, e := range rawFormatTable {
		out[i] = [2]int{int(e.version), int(e.level)}
	}
	return out
}
func VerifFormat() []uint            { return encodedFormat[:] }
func VerifMaskList() []*bitmap.Image { return maskList }
func VerifBaseList() []*bitmap.Image { return baseList }
func VerifUsedList() []*bitmap.Image { return usedList }
func VerifConsts() map[string]int {
	return map[string]int{
		"levelMin": int(levelMin), "levelMax": int(levelMax), "maskMax": int(maskMax), "maskAuto": int(MaskAuto),
		"modeNumeric": int(ModeNumeric), "modeAlphanumeric": int(ModeAlphanumeric),
		"modeBytes": int(ModeBytes), "modeKanji": int(ModeKanji), "modeTerminated": int(ModeTerminated),
		"levelCheck": int(LevelCheck), "levelL": int(LevelL), "levelM": int(LevelM), "levelQ": int(LevelQ),
	}
}

func VerifCalcVersion(level Level, segs []Segment) Version    { return calcVersion(level, segs) }
func VerifSegLength(s *Segment, v Version) (int, bool)        { return s.length(v) }
func VerifNewQR(level Level, data []byte) (*QRCode, error)    { return newQR(level, data) }
func VerifNewFromKanji(level Level, data []byte) (*QRCode, error) {
	return newFromKanji(level, data)
}
func VerifEncodeSegments(qr *QRCode) ([]byte, int, error) {
	var buf bitstream.Buffer
	err := qr.encodeSegments(&buf)
	return buf.Bytes(), buf.Len(), err
}
