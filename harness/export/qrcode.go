//go:build verif

package qrcode

import (
	"github.com/shogo82148/qrcode/internal/bitmap"
	"github.com/shogo82148/qrcode/internal/bitstream"
)

// Verification-only accessors (injected with go build -overlay; never part of the repository).

type VerifBlockCap struct{ Num, Total, Data, MaxError, Reserved int }
type VerifCap struct {
	Total, Data, Correction int
	Blocks                  []VerifBlockCap
}

func VerifCapacity() [][]VerifCap {
	out := make([][]VerifCap, len(capacityTable))
	for v := range capacityTable {
		out[v] = make([]VerifCap, len(capacityTable[v]))
		for l, c := range capacityTable[v] {
			vc := VerifCap{Total: c.Total, Data: c.Data, Correction: c.Correction}
			for _, b := range c.Blocks {
				vc.Blocks = append(vc.Blocks, VerifBlockCap{b.Num, b.Total, b.Data, b.MaxError, b.Reserved})
			}
			out[v][l] = vc
		}
	}
	return out
}

func VerifFormat() []uint           { return encodedFormat[:] }
func VerifVersionInfo() []uint      { return encodedVersion[:] }
func VerifMaskList() []*bitmap.Image { return maskList }
func VerifBaseList() []*bitmap.Image { return baseList }
func VerifUsedList() []*bitmap.Image { return usedList }
func VerifConsts() map[string]int {
	return map[string]int{
		"versionMin": int(versionMin), "versionMax": int(versionMax),
		"levelMin": int(levelMin), "levelMax": int(levelMax),
		"maskMin": int(maskMin), "maskMax": int(maskMax), "maskAuto": int(MaskAuto),
		"timingPatternOffset": timingPatternOffset,
		"modeNumeric": int(ModeNumeric), "modeAlphanumeric": int(ModeAlphanumeric),
		"modeBytes": int(ModeBytes), "modeKanji": int(ModeKanji), "modeTerminated": int(ModeTerminated),
		"levelL": int(LevelL), "levelM": int(LevelM), "levelQ": int(LevelQ), "levelH": int(LevelH),
	}
}

func VerifCalcVersion(level Level, segs []Segment) Version { return calcVersion(level, segs) }
func VerifSegLength(s *Segment, v Version) int            { return s.length(v) }
func VerifNewQR(level Level, data []byte) (*QRCode, error) { return newQR(level, data) }
func VerifNewFromKanji(level Level, data []byte) (*QRCode, error) {
	return newFromKanji(level, data)
}
func VerifEncodeSegments(qr *QRCode) ([]byte, int, error) {
	var buf bitstream.Buffer
	err := qr.encodeSegments(&buf)
	return buf.Bytes(), buf.Len(), err
}
func VerifEncodeToBits(qr *QRCode) ([]byte, int, error) {
	var buf bitstream.Buffer
	err := qr.encodeToBits(&buf)
	return buf.Bytes(), buf.Len(), err
}
