//go:build verif

package rmqr

import (
	"github.com/shogo82148/qrcode/internal/bitmap"
	"github.com/shogo82148/qrcode/internal/bitstream"
)

// Verification-only accessors (injected with go build -overlay; never part of the repository).

type VerifBlockCap struct{ Num, Total, Data, MaxError, Reserved int }
type VerifCap struct {
	Total, Data, Correction int
	BitLength               [5]int
	Blocks                  []VerifBlockCap
}

func VerifCapacity() [][]VerifCap {
	out := make([][]VerifCap, len(capacityTable))
	for v := range capacityTable {
		out[v] = make([]VerifCap, len(capacityTable[v]))
		for l, c := range capacityTable[v] {
			vc := VerifCap{Total: c.Total, Data: c.Data, Correction: c.Correction, BitLength: c.BitLength}
			for _, b := range c.Blocks {
				vc.Blocks = append(vc.Blocks, VerifBlockCap{b.Num, b.Total, b.Data, b.MaxError, b.Reserved})
			}
			out[v][l] = vc
		}
	}
	return out
}
func VerifOrders() (area, height, width []Version) {
	return capacityOrderArea, capacityOrderHeight, capacityOrderWidth
}
func VerifVersionInfo() []uint       { return encodedVersion[:] }
func VerifMask() *bitmap.Image       { return precomputedMask }
func VerifBaseList() []*bitmap.Image { return baseList }
func VerifUsedList() []*bitmap.Image { return usedList }
func VerifConsts() map[string]int {
	return map[string]int{
		"minVersion": int(minVersion), "maxVersion": int(maxVersion), "levelMax": int(levelMax),
		"modeNumeric": int(ModeNumeric), "modeAlphanumeric": int(ModeAlphanumeric),
		"modeBytes": int(ModeBytes), "modeKanji": int(ModeKanji), "modeTerminated": int(ModeTerminated),
		"levelM": int(LevelM), "levelH": int(LevelH),
		"priorityArea": int(PriorityArea), "priorityWidth": int(PriorityWidth), "priorityHeight": int(PriorityHeight),
	}
}

func VerifCalcVersion(level Level, p Priority, segs []Segment) (Version, bool) {
	return calcVersion(level, p, segs)
}
func VerifSegLength(s *Segment, v Version, l Level) (int, bool) { return s.length(v, l) }
func VerifNewQR(level Level, p Priority, data []byte) (*QRCode, error) {
	return newQR(level, p, data)
}
func VerifNewFromKanji(level Level, p Priority, data []byte) (*QRCode, error) {
	return newFromKanji(level, p, data)
}
func VerifEncodeSegments(qr *QRCode) ([]byte, int, error) {
	var buf bitstream.Buffer
	err := qr.encodeSegments(&buf)
	return buf.Bytes(), buf.Len(), err
}
func VerifEncodeToBits(qr *QRCode) ([]byte, int, error) {
	var buf bitstream.Buffer
	err := qr.encodeToBits(&buf)
	return buf.Bytes(), buf.Len(), err
}
