//go:build verif && verif_fmt

package rmqr

import "github.com/shogo82148/qrcode/internal/bitmap"

// format-information readers (optional group: dropped by bin/buildgo if their signatures change)
func VerifDecodeFormat0(raw uint) (Version, Level, bool) { return decodeFormat0(raw) }
func VerifDecodeFormat(img *bitmap.Image) (Version, Level, error) { return decodeFormat(img) }
