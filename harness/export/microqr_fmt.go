//go:build verif && verif_fmt

package microqr

// format-information readers (optional group: dropped by bin/buildgo if their signatures change)
func VerifDecodeFormat(raw uint) (Version, Level, Mask, bool) { return decodeFormat(raw) }
