//go:build verif

package element

// VerifTables exposes the exp/log tables to the verification harness.
func VerifTables() (exp []Element, log []int) { return expTable[:], logTable[:] }
