//go:build verif

package element

// VerifTables exposes the exp/log tables to the verification harness.
func VerifTables() (exp [256]Element, log [256]int) { return expTable, logTable }
