//go:build verif

package bitmap

// VerifPointParts exposes the four terms of Point separately (verification only).
func (img *Image) VerifPointParts() (finder, longRun, block, ones int) {
	return img.finderPattern(), img.longRunLengthCount(), img.blockCount(), img.pointOnesCount()
}
