//go:build verif && verif_fmt

package qrcode

import "github.com/shogo82148/qrcode/internal/bitmap"

// format-information readers (optional group: dropped by bin/buildgo if their signatures change)
func VerifDecodeFormat0(raw uint) (Level, Mask, bool) { return decodeFormat0(raw) }
func VerifDecodeFormat(img *bitmap.Image) (Level, Mask, error) { return decodeFormat(img) }
