//go:build verif && verif_fmt

package main

import (
	"fmt"

	qrcode "github.com/shogo82148/qrcode"
	"github.com/shogo82148/qrcode/microqr"
	"github.com/shogo82148/qrcode/rmqr"
)

// format-information readers through the unexported functions (optional group)
func init() {
	ops["qr.fmt0"] = func(a []string) string {
		l, m, ok := qrcode.VerifDecodeFormat0(uint(atou64(a[0])))
		if !ok {
			return "ok none"
		}
		return fmt.Sprintf("ok %d %d", l, m)
	}
	ops["qr.fmt"] = func(a []string) string {
		l, m, err := qrcode.VerifDecodeFormat(parseImage(a[0]))
		return errOr(err, fmt.Sprintf("%d %d", l, m))
	}
	ops["mq.fmt"] = func(a []string) string {
		v, l, m, ok := microqr.VerifDecodeFormat(uint(atou64(a[0])))
		if !ok {
			return "ok none"
		}
		return fmt.Sprintf("ok %d %d %d", v, l, m)
	}
	ops["rm.fmt0"] = func(a []string) string {
		v, l, ok := rmqr.VerifDecodeFormat0(uint(atou64(a[0])))
		if !ok {
			return "ok none"
		}
		return fmt.Sprintf("ok %d %d", v, l)
	}
	ops["rm.fmt"] = func(a []string) string {
		v, l, err := rmqr.VerifDecodeFormat(parseImage(a[0]))
		return errOr(err, fmt.Sprintf("%d %d", v, l))
	}
}
