//go:build verif

package main

import (
	"fmt"
	"strconv"
	"strings"

	gbitmap "github.com/shogo82148/go-imaging/bitmap"
	qrcode "github.com/shogo82148/qrcode"
	"github.com/shogo82148/qrcode/internal/bitmap"
	"github.com/shogo82148/qrcode/microqr"
	"github.com/shogo82148/qrcode/rmqr"
)

type seg struct {
	mode int
	data []byte
}

func parseSegs(a []string) []seg {
	n := atoi(a[0])
	out := make([]seg, 0, n)
	for i := 0; i < n; i++ {
		out = append(out, seg{atoi(a[1+2*i]), parseHex(a[2+2*i])})
	}
	return out
}

func showSegs(s []seg) string {
	var sb strings.Builder
	sb.WriteString(strconv.Itoa(len(s)))
	for _, x := range s {
		fmt.Fprintf(&sb, " %d %s", x.mode, hexOf(x.data))
	}
	return sb.String()
}

func qrSegs(s []seg) []qrcode.Segment {
	out := make([]qrcode.Segment, len(s))
	for i, x := range s {
		out[i] = qrcode.Segment{Mode: qrcode.Mode(x.mode), Data: x.data}
	}
	return out
}
func mqSegs(s []seg) []microqr.Segment {
	out := make([]microqr.Segment, len(s))
	for i, x := range s {
		out[i] = microqr.Segment{Mode: microqr.Mode(x.mode), Data: x.data}
	}
	return out
}
func rmSegs(s []seg) []rmqr.Segment {
	out := make([]rmqr.Segment, len(s))
	for i, x := range s {
		out[i] = rmqr.Segment{Mode: rmqr.Mode(x.mode), Data: x.data}
	}
	return out
}

func showQR(q *qrcode.QRCode) string {
	s := make([]seg, len(q.Segments))
	for i, x := range q.Segments {
		s[i] = seg{int(x.Mode), x.Data}
	}
	return fmt.Sprintf("%d %d %d %s", q.Version, q.Level, q.Mask, showSegs(s))
}
func showMQ(q *microqr.QRCode) string {
	s := make([]seg, len(q.Segments))
	for i, x := range q.Segments {
		s[i] = seg{int(x.Mode), x.Data}
	}
	return fmt.Sprintf("%d %d %d %s", q.Version, q.Level, q.Mask, showSegs(s))
}
func showRM(q *rmqr.QRCode) string {
	s := make([]seg, len(q.Segments))
	for i, x := range q.Segments {
		s[i] = seg{int(x.Mode), x.Data}
	}
	return fmt.Sprintf("%d %d 0 %s", q.Version, q.Level, showSegs(s))
}

func errOr(err error, ok string) string {
	if err != nil {
		return "err " + err.Error()
	}
	return "ok " + ok
}

// emitted renders a bitmap returned by EncodeToBitmap, after looking once more at the bitmap the PREVIOUS call returned:
// a bitmap handed to the caller belongs to the caller, a later call must not change it.
var lastEmitted *gbitmap.Image
var lastEmittedStr string

func emitted(img *gbitmap.Image) string {
	s := showGImage(img)
	if lastEmitted != nil && showGImage(lastEmitted) != lastEmittedStr {
		lastEmitted, lastEmittedStr = img, s
		return "aliased the bitmap returned by the previous EncodeToBitmap call was changed by this call"
	}
	lastEmitted, lastEmittedStr = img, s
	return "ok " + s
}

// guarded hands New a payload that lives in the middle of a larger array filled with a sentinel; after the call the
// payload bytes and the sentinel bytes around them (reachable through the slice's spare capacity) must be unchanged:
// "New does not alter the caller's payload slice".
func guarded(p []byte) (data []byte, check func() string) {
	const pad = 24
	full := make([]byte, len(p)+2*pad)
	for i := range full {
		full[i] = 0xA5
	}
	copy(full[pad:], p)
	data = full[pad : pad+len(p)] // capacity reaches into the trailing sentinel
	check = func() string {
		for i := range full {
			want := byte(0xA5)
			if i >= pad && i < pad+len(p) {
				want = p[i-pad]
			}
			if full[i] != want {
				if i >= pad && i < pad+len(p) {
					return fmt.Sprintf("altered-payload New changed byte %d of the caller's payload from %02x to %02x", i-pad, want, full[i])
				}
				return fmt.Sprintf("altered-payload New wrote %02x at offset %d relative to the payload (spare capacity of the caller's slice)", full[i], i-pad)
			}
		}
		return ""
	}
	return
}

func init() {
	// ---------------- QR
	ops["qr.enc"] = func(a []string) string {
		q := &qrcode.QRCode{Version: qrcode.Version(atoi(a[0])), Level: qrcode.Level(atoi(a[1])), Mask: qrcode.Mask(atoi(a[2])), Segments: qrSegs(parseSegs(a[3:]))}
		img, err := q.EncodeToBitmap()
		if err != nil {
			return "err " + err.Error()
		}
		return emitted(img)
	}
	ops["qr.segs"] = func(a []string) string {
		q := &qrcode.QRCode{Version: qrcode.Version(atoi(a[0])), Level: qrcode.Level(atoi(a[1])), Segments: qrSegs(parseSegs(a[2:]))}
		b, n, err := qrcode.VerifEncodeSegments(q)
		return errOr(err, strconv.Itoa(n)+" "+hexOf(b))
	}
	ops["qr.bits"] = func(a []string) string {
		q := &qrcode.QRCode{Version: qrcode.Version(atoi(a[0])), Level: qrcode.Level(atoi(a[1])), Segments: qrSegs(parseSegs(a[2:]))}
		b, n, err := qrcode.VerifEncodeToBits(q)
		return errOr(err, strconv.Itoa(n)+" "+hexOf(b))
	}
	ops["qr.dec"] = func(a []string) string {
		q, err := qrcode.DecodeBitmap(parseGImage(a[0]))
		if err != nil {
			return "err " + err.Error()
		}
		return "ok " + showQR(q)
	}
	ops["qr.decfull"] = func(a []string) string {
		img := parseGImage(a[0])
		q, err := qrcode.DecodeBitmap(img)
		if err != nil {
			return "err " + err.Error()
		}
		return "ok " + showQR(q) + " | " + showGImage(img)
	}
	ops["qr.new"] = func(a []string) string {
		var q *qrcode.QRCode
		var err error
		lv := qrcode.Level(atoi(a[0]))
		if !lv.IsValid() { // New: `if !lv.IsValid()` (WithLevel itself panics on an invalid level)
			return "err invalid level"
		}
		// through the PUBLIC entry point, so that the option handling of New is part of what is compared
		data, unchanged := guarded(parseHex(a[2]))
		q, err = qrcode.New(data, qrcode.WithLevel(lv), qrcode.WithKanji(a[1] == "1"))
		if bad := unchanged(); bad != "" {
			return bad
		}
		if err != nil {
			return "err " + err.Error()
		}
		return "ok " + showQR(q)
	}
	ops["qr.calcver"] = func(a []string) string {
		return "ok " + strconv.Itoa(int(qrcode.VerifCalcVersion(qrcode.Level(atoi(a[0])), qrSegs(parseSegs(a[1:])))))
	}
	ops["qr.seglen"] = func(a []string) string {
		s := &qrcode.Segment{Mode: qrcode.Mode(atoi(a[1])), Data: parseHex(a[2])}
		return "ok " + strconv.Itoa(qrcode.VerifSegLength(s, qrcode.Version(atoi(a[0]))))
	}

	// ---------------- Micro QR
	ops["mq.enc"] = func(a []string) string {
		q := &microqr.QRCode{Version: microqr.Version(atoi(a[0])), Level: microqr.Level(atoi(a[1])), Mask: microqr.Mask(atoi(a[2])), Segments: mqSegs(parseSegs(a[3:]))}
		img, err := q.EncodeToBitmap()
		if err != nil {
			return "err " + err.Error()
		}
		return emitted(img)
	}
	ops["mq.segs"] = func(a []string) string {
		q := &microqr.QRCode{Version: microqr.Version(atoi(a[0])), Level: microqr.Level(atoi(a[1])), Segments: mqSegs(parseSegs(a[2:]))}
		b, n, err := microqr.VerifEncodeSegments(q)
		return errOr(err, strconv.Itoa(n)+" "+hexOf(b))
	}
	ops["mq.dec"] = func(a []string) string {
		q, err := microqr.DecodeBitmap(parseGImage(a[0]))
		if err != nil {
			return "err " + err.Error()
		}
		return "ok " + showMQ(q)
	}
	ops["mq.decfull"] = func(a []string) string {
		img := parseGImage(a[0])
		q, err := microqr.DecodeBitmap(img)
		if err != nil {
			return "err " + err.Error()
		}
		return "ok " + showMQ(q) + " | " + showGImage(img)
	}
	ops["mq.new"] = func(a []string) string {
		var q *microqr.QRCode
		var err error
		lv := microqr.Level(atoi(a[0]))
		if lv < 0 || lv >= 4 {
			return "err invalid level"
		}
		data, unchanged := guarded(parseHex(a[2]))
		q, err = microqr.New(data, microqr.WithLevel(lv), microqr.WithKanji(a[1] == "1"))
		if bad := unchanged(); bad != "" {
			return bad
		}
		if err != nil {
			return "err " + err.Error()
		}
		return "ok " + showMQ(q)
	}
	ops["mq.calcver"] = func(a []string) string {
		return "ok " + strconv.Itoa(int(microqr.VerifCalcVersion(microqr.Level(atoi(a[0])), mqSegs(parseSegs(a[1:])))))
	}
	ops["mq.seglen"] = func(a []string) string {
		s := &microqr.Segment{Mode: microqr.Mode(atoi(a[1])), Data: parseHex(a[2])}
		n, ok := microqr.VerifSegLength(s, microqr.Version(atoi(a[0])))
		if !ok {
			return "ok none"
		}
		return "ok " + strconv.Itoa(n)
	}

	// ---------------- rMQR
	ops["rm.enc"] = func(a []string) string {
		q := &rmqr.QRCode{Version: rmqr.Version(atoi(a[0])), Level: rmqr.Level(atoi(a[1])), Segments: rmSegs(parseSegs(a[2:]))}
		img, err := q.EncodeToBitmap()
		if err != nil {
			return "err " + err.Error()
		}
		return emitted(img)
	}
	ops["rm.segs"] = func(a []string) string {
		q := &rmqr.QRCode{Version: rmqr.Version(atoi(a[0])), Level: rmqr.Level(atoi(a[1])), Segments: rmSegs(parseSegs(a[2:]))}
		b, n, err := rmqr.VerifEncodeSegments(q)
		return errOr(err, strconv.Itoa(n)+" "+hexOf(b))
	}
	ops["rm.bits"] = func(a []string) string {
		q := &rmqr.QRCode{Version: rmqr.Version(atoi(a[0])), Level: rmqr.Level(atoi(a[1])), Segments: rmSegs(parseSegs(a[2:]))}
		b, n, err := rmqr.VerifEncodeToBits(q)
		return errOr(err, strconv.Itoa(n)+" "+hexOf(b))
	}
	ops["rm.dec"] = func(a []string) string {
		q, err := rmqr.DecodeBitmap(parseGImage(a[0]))
		if err != nil {
			return "err " + err.Error()
		}
		return "ok " + showRM(q)
	}
	ops["rm.decfull"] = func(a []string) string {
		img := parseGImage(a[0])
		q, err := rmqr.DecodeBitmap(img)
		if err != nil {
			return "err " + err.Error()
		}
		return "ok " + showRM(q) + " | " + showGImage(img)
	}
	ops["rm.new"] = func(a []string) string {
		var q *rmqr.QRCode
		var err error
		lv := rmqr.Level(atoi(a[0]))
		if !lv.IsValid() {
			return "err invalid level"
		}
		p := rmqr.Priority(atoi(a[1]))
		data, unchanged := guarded(parseHex(a[3]))
		q, err = rmqr.New(data, rmqr.WithLevel(lv), rmqr.WithKanji(a[2] == "1"), rmqr.WithPriority(p))
		if bad := unchanged(); bad != "" {
			return bad
		}
		if err != nil {
			return "err " + err.Error()
		}
		return "ok " + showRM(q)
	}
	ops["rm.calcver"] = func(a []string) string {
		v, ok := rmqr.VerifCalcVersion(rmqr.Level(atoi(a[0])), rmqr.Priority(atoi(a[1])), rmSegs(parseSegs(a[2:])))
		if !ok {
			return "ok none"
		}
		return "ok " + strconv.Itoa(int(v))
	}
	ops["rm.seglen"] = func(a []string) string {
		s := &rmqr.Segment{Mode: rmqr.Mode(atoi(a[2])), Data: parseHex(a[3])}
		n, ok := rmqr.VerifSegLength(s, rmqr.Version(atoi(a[0])), rmqr.Level(atoi(a[1])))
		if !ok {
			return "ok none"
		}
		return "ok " + strconv.Itoa(n)
	}
	_ = bitmap.White
}
