//go:build verif

// verifharness: line-protocol harness calling /repo's real code in-process.
// One operation per input line, one canonical result line per output line
// (`ok <value>` / `err` / `panic`); see /verif/lean/Driver.lean for the model side.
package main

import (
	"bufio"
	"fmt"
	"os"
	"strconv"
	"strings"
	"time"
)

type opFunc func(a []string) string

var ops = map[string]opFunc{}

func atoi(s string) int {
	n, err := strconv.Atoi(s)
	if err != nil {
		panic("harness: bad integer " + s)
	}
	return n
}

func atou64(s string) uint64 {
	n, err := strconv.ParseUint(s, 10, 64)
	if err != nil {
		panic("harness: bad uint64 " + s)
	}
	return n
}

// PanicMsg is filled by run when the real code panicked (recorded, never compared).
var lastPanic string

// run executes one operation line under a watchdog: a call into the library that does not come back within
// opTimeout (VERIF_OP_TIMEOUT seconds, default 20; heavy enumeration ops are exempt) is answered with "timeout" and the
// remaining lines are still executed (the abandoned goroutine keeps spinning; the process ends with the input).
func run(line string) string {
	toks := strings.Split(strings.TrimSpace(line), " ")
	if strings.HasPrefix(toks[0], "rs.basis") || strings.HasPrefix(toks[0], "hist") || strings.HasPrefix(toks[0], "gf.all") {
		return run1(line)
	}
	ch := make(chan string, 1)
	go func() { ch <- run1(line) }()
	select {
	case o := <-ch:
		return o
	case <-time.After(opTimeout):
		return "timeout"
	}
}

var opTimeout = func() time.Duration {
	if v, err := strconv.Atoi(os.Getenv("VERIF_OP_TIMEOUT")); err == nil && v > 0 {
		return time.Duration(v) * time.Second
	}
	return 20 * time.Second
}()

func run1(line string) (out string) {
	toks := strings.Split(strings.TrimSpace(line), " ")
	f, ok := ops[toks[0]]
	if !ok {
		return "bad-op"
	}
	defer func() {
		if r := recover(); r != nil {
			lastPanic = fmt.Sprint(r)
			if strings.HasPrefix(lastPanic, "harness:") {
				out = "bad-op " + lastPanic
			} else {
				out = "panic"
			}
		}
	}()
	return f(toks[1:])
}

func main() {
	in := bufio.NewReaderSize(os.Stdin, 1<<20)
	out := bufio.NewWriterSize(os.Stdout, 1<<16)
	defer out.Flush()
	var notes *bufio.Writer
	if p := os.Getenv("VERIF_NOTES"); p != "" {
		f, err := os.Create(p)
		if err == nil {
			defer f.Close()
			notes = bufio.NewWriter(f)
			defer notes.Flush()
		}
	}
	n := 0
	for {
		line, err := in.ReadString('\n')
		if len(line) > 0 {
			n++
			lastPanic = ""
			res := run(line)
			out.WriteString(res)
			out.WriteByte('\n')
			if notes != nil && lastPanic != "" {
				fmt.Fprintf(notes, "%d\tpanic\t%s\n", n, strings.ReplaceAll(lastPanic, "\n", " "))
			}
			if n%256 == 0 {
				out.Flush()
			}
		}
		if err != nil {
			break
		}
	}
}
