//go:build verif

package main

import (
	"encoding/hex"
	"fmt"
	"image"
	"strings"

	gbitmap "github.com/shogo82148/go-imaging/bitmap"
	"github.com/shogo82148/qrcode/internal/bitmap"
)

func parseHex(s string) []byte {
	if s == "-" {
		return []byte{}
	}
	b, err := hex.DecodeString(s)
	if err != nil {
		panic("harness: bad hex")
	}
	return b
}

func hexOf(b []byte) string {
	if len(b) == 0 {
		return "-"
	}
	return hex.EncodeToString(b)
}

// parseImage builds an internal bitmap.Image from `x0,y0,x1,y1,stride:hex`.
func parseImage(s string) *bitmap.Image {
	parts := strings.SplitN(s, ":", 2)
	if len(parts) != 2 {
		panic("harness: bad image")
	}
	h := strings.Split(parts[0], ",")
	if len(h) != 5 {
		panic("harness: bad image header")
	}
	return &bitmap.Image{
		Pix:    parseHex(parts[1]),
		Stride: atoi(h[4]),
		Rect:   image.Rectangle{Min: image.Point{X: atoi(h[0]), Y: atoi(h[1])}, Max: image.Point{X: atoi(h[2]), Y: atoi(h[3])}},
	}
}

func parseGImage(s string) *gbitmap.Image { return parseImage(s).Export() }

func showImage(img *bitmap.Image) string {
	return fmt.Sprintf("%d,%d,%d,%d,%d:%s", img.Rect.Min.X, img.Rect.Min.Y, img.Rect.Max.X, img.Rect.Max.Y, img.Stride, hexOf(img.Pix))
}

func showGImage(img *gbitmap.Image) string { return showImage(bitmap.Import(img)) }
