//go:build verif

package main

import (
	"fmt"
	"image"

	gbitmap "github.com/shogo82148/go-imaging/bitmap"
	qrcode "github.com/shogo82148/qrcode"
	"github.com/shogo82148/qrcode/microqr"
	"github.com/shogo82148/qrcode/rmqr"
)

// <sym>.encimg <version> <level> <mask> <segments...>
//
// The image method (*QRCode).Encode on a hand-built description, next to EncodeToBitmap on the same description:
// it must accept exactly what EncodeToBitmap accepts (and never panic: a panic is turned into "panic" by the
// dispatcher), and with quiet zone 0 / module size 1 the image is the bitmap itself.
//
//	-> same ok | same err | differs <what>
func encimgResult(bmp *gbitmap.Image, e1 error, img image.Image, e2 error) string {
	if (e1 == nil) != (e2 == nil) {
		return fmt.Sprintf("differs EncodeToBitmap:%v Encode:%v", e1, e2)
	}
	if e1 != nil {
		return "same err"
	}
	b, c := bmp.Bounds(), img.Bounds()
	if b.Dx() != c.Dx() || b.Dy() != c.Dy() {
		return fmt.Sprintf("differs size bitmap %dx%d image %dx%d", b.Dx(), b.Dy(), c.Dx(), c.Dy())
	}
	for y := 0; y < b.Dy(); y++ {
		for x := 0; x < b.Dx(); x++ {
			r, _, _, _ := img.At(c.Min.X+x, c.Min.Y+y).RGBA()
			dark := bool(bmp.BinaryAt(b.Min.X+x, b.Min.Y+y))
			if (r>>8 == 0) != dark || (r>>8 == 255) == dark {
				return fmt.Sprintf("differs pixel (%d,%d): module dark=%v image %d", x, y, dark, r>>8)
			}
		}
	}
	return "same ok"
}

func init() {
	ops["qr.encimg"] = func(a []string) string {
		q := &qrcode.QRCode{Version: qrcode.Version(atoi(a[0])), Level: qrcode.Level(atoi(a[1])), Mask: qrcode.Mask(atoi(a[2])), Segments: qrSegs(parseSegs(a[3:]))}
		bmp, e1 := q.EncodeToBitmap()
		img, e2 := q.Encode(qrcode.WithQuietZone(0), qrcode.WithModuleSize(1))
		return encimgResult(bmp, e1, img, e2)
	}
	ops["mq.encimg"] = func(a []string) string {
		q := &microqr.QRCode{Version: microqr.Version(atoi(a[0])), Level: microqr.Level(atoi(a[1])), Mask: microqr.Mask(atoi(a[2])), Segments: mqSegs(parseSegs(a[3:]))}
		bmp, e1 := q.EncodeToBitmap()
		img, e2 := q.Encode(microqr.WithQuietZone(0), microqr.WithModuleSize(1))
		return encimgResult(bmp, e1, img, e2)
	}
	ops["rm.encimg"] = func(a []string) string {
		q := &rmqr.QRCode{Version: rmqr.Version(atoi(a[0])), Level: rmqr.Level(atoi(a[1])), Segments: rmSegs(parseSegs(a[2:]))}
		bmp, e1 := q.EncodeToBitmap()
		img, e2 := q.Encode(rmqr.WithQuietZone(0), rmqr.WithModuleSize(1))
		return encimgResult(bmp, e1, img, e2)
	}
}
