//go:build verif

package main

import (
	"encoding/hex"
	"fmt"
	"image"

	qrcode "github.com/shogo82148/qrcode"
	"github.com/shogo82148/qrcode/microqr"
	"github.com/shogo82148/qrcode/rmqr"
)

// render <sym> <level> <kanji> <quiet> <snum> <sden> <width> <hexpayload>
//
//	-> ok <W> <H> <bw> <bh> <hex of 8-bit red channel, row major> | <bitmap of EncodeToBitmap>
func init() {
	// the same with NO options at all: the documented defaults (module size 1, quiet zone 4 / 4 / 2)
	ops["render.default"] = func(a []string) string {
		p := parseHex(a[1])
		var img image.Image
		var bmp string
		var err error
		switch a[0] {
		case "qr":
			var d *qrcode.QRCode
			if d, err = qrcode.New(p); err == nil {
				if b, e2 := d.EncodeToBitmap(); e2 == nil {
					bmp = showGImage(b)
				}
				img, err = qrcode.Encode(p)
			}
		case "mq":
			var d *microqr.QRCode
			if d, err = microqr.New(p); err == nil {
				if b, e2 := d.EncodeToBitmap(); e2 == nil {
					bmp = showGImage(b)
				}
				img, err = microqr.Encode(p)
			}
		case "rm":
			var d *rmqr.QRCode
			if d, err = rmqr.New(p); err == nil {
				if b, e2 := d.EncodeToBitmap(); e2 == nil {
					bmp = showGImage(b)
				}
				img, err = rmqr.Encode(p)
			}
		default:
			panic("harness: bad symbology")
		}
		if err != nil {
			return "err " + err.Error()
		}
		b := img.Bounds()
		pix := make([]byte, 0, b.Dx()*b.Dy())
		gray := true
		for y := b.Min.Y; y < b.Max.Y; y++ {
			for x := b.Min.X; x < b.Max.X; x++ {
				r, g, bb, al := img.At(x, y).RGBA()
				if r != g || g != bb || al != 0xffff {
					gray = false
				}
				pix = append(pix, byte(r>>8))
			}
		}
		return fmt.Sprintf("ok %d %d %v %s | %s", b.Dx(), b.Dy(), gray, hex.EncodeToString(pix), bmp)
	}
	ops["render"] = func(a []string) string {
		level, kanji, q := atoi(a[1]), a[2] == "1", atoi(a[3])
		s := float64(atoi(a[4])) / float64(atoi(a[5]))
		width := atoi(a[6])
		p := parseHex(a[7])
		var img image.Image
		var bmp string
		var err error
		switch a[0] {
		case "qr":
			o := []qrcode.EncodeOptions{qrcode.WithLevel(qrcode.Level(level)), qrcode.WithKanji(kanji), qrcode.WithQuietZone(q), qrcode.WithModuleSize(s), qrcode.WithWidth(width)}
			var d *qrcode.QRCode
			if d, err = qrcode.New(p, o...); err == nil {
				if b, e2 := d.EncodeToBitmap(); e2 == nil {
					bmp = showGImage(b)
				}
				img, err = d.Encode(o...)
				// the package-level convenience wrapper must give the same image
				if w, e3 := qrcode.Encode(p, o...); (e3 == nil) != (err == nil) || (err == nil && !sameImage(w, img)) {
					return "wrapper-differs qrcode.Encode"
				}
			}
		case "mq":
			o := []microqr.EncodeOptions{microqr.WithLevel(microqr.Level(level)), microqr.WithKanji(kanji), microqr.WithQuietZone(q), microqr.WithModuleSize(s), microqr.WithWidth(width)}
			var d *microqr.QRCode
			if d, err = microqr.New(p, o...); err == nil {
				if b, e2 := d.EncodeToBitmap(); e2 == nil {
					bmp = showGImage(b)
				}
				img, err = d.Encode(o...)
				if w, e3 := microqr.Encode(p, o...); (e3 == nil) != (err == nil) || (err == nil && !sameImage(w, img)) {
					return "wrapper-differs microqr.Encode"
				}
			}
		case "rm":
			o := []rmqr.EncodeOptions{rmqr.WithLevel(rmqr.Level(level)), rmqr.WithKanji(kanji), rmqr.WithQuietZone(q), rmqr.WithModuleSize(s), rmqr.WithWidth(width)}
			var d *rmqr.QRCode
			if d, err = rmqr.New(p, o...); err == nil {
				if b, e2 := d.EncodeToBitmap(); e2 == nil {
					bmp = showGImage(b)
				}
				img, err = d.Encode(o...)
				if w, e3 := rmqr.Encode(p, o...); (e3 == nil) != (err == nil) || (err == nil && !sameImage(w, img)) {
					return "wrapper-differs rmqr.Encode"
				}
				// the documented size accessors of the version agree with the emitted bitmap
				if b, e2 := d.EncodeToBitmap(); e2 == nil && (d.Version.Width() != b.Bounds().Dx() || d.Version.Height() != b.Bounds().Dy()) {
					return fmt.Sprintf("wrapper-differs rmqr.Version.Width/Height %dx%d vs bitmap %dx%d", d.Version.Width(), d.Version.Height(), b.Bounds().Dx(), b.Bounds().Dy())
				}
			}
		default:
			panic("harness: bad symbology")
		}
		if err != nil {
			return "err " + err.Error()
		}
		b := img.Bounds()
		pix := make([]byte, 0, b.Dx()*b.Dy())
		gray := true
		for y := b.Min.Y; y < b.Max.Y; y++ {
			for x := b.Min.X; x < b.Max.X; x++ {
				r, g, bb, al := img.At(x, y).RGBA()
				if r != g || g != bb || al != 0xffff {
					gray = false
				}
				pix = append(pix, byte(r>>8))
			}
		}
		return fmt.Sprintf("ok %d %d %v %s | %s", b.Dx(), b.Dy(), gray, hex.EncodeToString(pix), bmp)
	}
}

func sameImage(a, b image.Image) bool {
	if a == nil || b == nil || a.Bounds() != b.Bounds() {
		return false
	}
	r := a.Bounds()
	for y := r.Min.Y; y < r.Max.Y; y++ {
		for x := r.Min.X; x < r.Max.X; x++ {
			r1, g1, b1, a1 := a.At(x, y).RGBA()
			r2, g2, b2, a2 := b.At(x, y).RGBA()
			if r1 != r2 || g1 != g2 || b1 != b2 || a1 != a2 {
				return false
			}
		}
	}
	return true
}
