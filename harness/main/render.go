//go:build verif

package main

import (
	"encoding/hex"
	"fmt"
	"image"

	qrcode "github.com/shogo82148/qrcode"
	"github.com/shogo82148/qrcode/microqr"
	"github.com/shogo82148/qrcode/rmqr"
)

// render <sym> <level> <kanji> <quiet> <snum> <sden> <width> <hexpayload>
//   -> ok <W> <H> <bw> <bh> <hex of 8-bit red channel, row major> | <bitmap of EncodeToBitmap>
func init() {
	ops["render"] = func(a []string) string {
		level, kanji, q := atoi(a[1]), a[2] == "1", atoi(a[3])
		s := float64(atoi(a[4])) / float64(atoi(a[5]))
		width := atoi(a[6])
		p := parseHex(a[7])
		var img image.Image
		var bmp string
		var err error
		switch a[0] {
		case "qr":
			o := []qrcode.EncodeOptions{qrcode.WithLevel(qrcode.Level(level)), qrcode.WithKanji(kanji), qrcode.WithQuietZone(q), qrcode.WithModuleSize(s), qrcode.WithWidth(width)}
			var d *qrcode.QRCode
			if d, err = qrcode.New(p, o...); err == nil {
				if b, e2 := d.EncodeToBitmap(); e2 == nil {
					bmp = showGImage(b)
				}
				img, err = d.Encode(o...)
			}
		case "mq":
			o := []microqr.EncodeOptions{microqr.WithLevel(microqr.Level(level)), microqr.WithKanji(kanji), microqr.WithQuietZone(q), microqr.WithModuleSize(s), microqr.WithWidth(width)}
			var d *microqr.QRCode
			if d, err = microqr.New(p, o...); err == nil {
				if b, e2 := d.EncodeToBitmap(); e2 == nil {
					bmp = showGImage(b)
				}
				img, err = d.Encode(o...)
			}
		case "rm":
			o := []rmqr.EncodeOptions{rmqr.WithLevel(rmqr.Level(level)), rmqr.WithKanji(kanji), rmqr.WithQuietZone(q), rmqr.WithModuleSize(s), rmqr.WithWidth(width)}
			var d *rmqr.QRCode
			if d, err = rmqr.New(p, o...); err == nil {
				if b, e2 := d.EncodeToBitmap(); e2 == nil {
					bmp = showGImage(b)
				}
				img, err = d.Encode(o...)
			}
		default:
			panic("harness: bad symbology")
		}
		if err != nil {
			return "err " + err.Error()
		}
		b := img.Bounds()
		pix := make([]byte, 0, b.Dx()*b.Dy())
		gray := true
		for y := b.Min.Y; y < b.Max.Y; y++ {
			for x := b.Min.X; x < b.Max.X; x++ {
				r, g, bb, al := img.At(x, y).RGBA()
				if r != g || g != bb || al != 0xffff {
					gray = false
				}
				pix = append(pix, byte(r>>8))
			}
		}
		return fmt.Sprintf("ok %d %d %v %s | %s", b.Dx(), b.Dy(), gray, hex.EncodeToString(pix), bmp)
	}
}
