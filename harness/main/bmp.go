//go:build verif

package main

import (
	"fmt"
	"image"
	"strconv"

	"github.com/shogo82148/qrcode/internal/bitmap"
)

func init() {
	ops["bmp.mask"] = func(a []string) string {
		in, used, pat := parseImage(a[0]), parseImage(a[1]), parseImage(a[2])
		var out bitmap.Image
		out.Mask(in, used, pat)
		return "ok " + showImage(&out)
	}
	ops["bmp.at"] = func(a []string) string {
		return fmt.Sprintf("ok %v", bool(parseImage(a[0]).BinaryAt(atoi(a[1]), atoi(a[2]))))
	}
	ops["bmp.set"] = func(a []string) string {
		img := parseImage(a[0])
		img.SetBinary(atoi(a[1]), atoi(a[2]), a[3] == "1")
		return "ok " + showImage(img)
	}
	ops["bmp.xor"] = func(a []string) string {
		img := parseImage(a[0])
		img.XorBinary(atoi(a[1]), atoi(a[2]), a[3] == "1")
		return "ok " + showImage(img)
	}
	ops["bmp.clone"] = func(a []string) string {
		img := parseImage(a[0])
		before := showImage(img)
		c := img.Clone()
		out := showImage(c)
		// the clone is independent: writing to it leaves the source alone
		c.XorBinary(c.Rect.Min.X, c.Rect.Min.Y, true)
		if showImage(img) != before {
			return "ok clone-aliases-source"
		}
		var d bitmap.Image
		d.Copy(img)
		if showImage(&d) != before {
			return "ok copy-differs " + showImage(&d)
		}
		return "ok " + out
	}
	// bmp.reuse <big> <small>: ONE destination image used twice - Copy(big), then Copy(small) - and, likewise, one
	// destination of two Mask calls: a destination that held a larger image must read exactly like the smaller source
	// (count, pixels); whatever the implementation keeps behind the last row is not part of the image.
	ops["bmp.reuse"] = func(a []string) string {
		big, small := parseImage(a[0]), parseImage(a[1])
		var d bitmap.Image
		d.Copy(big)
		d.Copy(small)
		n := d.Stride * d.Rect.Dy()
		if n > len(d.Pix) {
			return "ok short-buffer"
		}
		shown := fmt.Sprintf("%d,%d,%d,%d,%d:%s", d.Rect.Min.X, d.Rect.Min.Y, d.Rect.Max.X, d.Rect.Max.Y, d.Stride, hexOf(d.Pix[:n]))
		var m, fresh bitmap.Image
		blankB, blankS := bitmap.New(big.Rect), bitmap.New(small.Rect)
		m.Mask(big, blankB, big)
		m.Mask(small, blankS, small)
		fresh.Mask(small, blankS, small)
		mr := "same"
		if m.OnesCount() != fresh.OnesCount() || m.Point() != fresh.Point() || m.PointMicro() != fresh.PointMicro() {
			mr = fmt.Sprintf("differs(ones %d vs %d)", m.OnesCount(), fresh.OnesCount())
		}
		return fmt.Sprintf("ok %d %s maskreuse=%s", d.OnesCount(), shown, mr)
	}
	ops["bmp.new"] = func(a []string) string {
		img := bitmap.New(image.Rect(atoi(a[0]), atoi(a[1]), atoi(a[2]), atoi(a[3])))
		return "ok " + showImage(img)
	}
	ops["bmp.ones"] = func(a []string) string {
		return "ok " + strconv.Itoa(parseImage(a[0]).OnesCount())
	}
	ops["bmp.point"] = func(a []string) string {
		img := parseImage(a[0])
		f, l, b, o := img.VerifPointParts()
		return fmt.Sprintf("ok %d %d %d %d", f, l, b, o)
	}
	ops["bmp.pointmicro"] = func(a []string) string {
		return "ok " + strconv.Itoa(parseImage(a[0]).PointMicro())
	}
}
