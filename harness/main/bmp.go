//go:build verif

package main

import (
	"fmt"
	"image"
	"strconv"

	"github.com/shogo82148/qrcode/internal/bitmap"
)

func init() {
	ops["bmp.mask"] = func(a []string) string {
		in, used, pat := parseImage(a[0]), parseImage(a[1]), parseImage(a[2])
		var out bitmap.Image
		out.Mask(in, used, pat)
		return "ok " + showImage(&out)
	}
	ops["bmp.at"] = func(a []string) string {
		return fmt.Sprintf("ok %v", bool(parseImage(a[0]).BinaryAt(atoi(a[1]), atoi(a[2]))))
	}
	ops["bmp.set"] = func(a []string) string {
		img := parseImage(a[0])
		img.SetBinary(atoi(a[1]), atoi(a[2]), a[3] == "1")
		return "ok " + showImage(img)
	}
	ops["bmp.xor"] = func(a []string) string {
		img := parseImage(a[0])
		img.XorBinary(atoi(a[1]), atoi(a[2]), a[3] == "1")
		return "ok " + showImage(img)
	}
	ops["bmp.clone"] = func(a []string) string {
		img := parseImage(a[0])
		before := showImage(img)
		c := img.Clone()
		out := showImage(c)
		// the clone is independent: writing to it leaves the source alone
		c.XorBinary(c.Rect.Min.X, c.Rect.Min.Y, true)
		if showImage(img) != before {
			return "ok clone-aliases-source"
		}
		var d bitmap.Image
		d.Copy(img)
		if showImage(&d) != before {
			return "ok copy-differs " + showImage(&d)
		}
		return "ok " + out
	}
	ops["bmp.new"] = func(a []string) string {
		img := bitmap.New(image.Rect(atoi(a[0]), atoi(a[1]), atoi(a[2]), atoi(a[3])))
		return "ok " + showImage(img)
	}
	ops["bmp.ones"] = func(a []string) string {
		return "ok " + strconv.Itoa(parseImage(a[0]).OnesCount())
	}
	ops["bmp.point"] = func(a []string) string {
		img := parseImage(a[0])
		f, l, b, o := img.VerifPointParts()
		return fmt.Sprintf("ok %d %d %d %d", f, l, b, o)
	}
	ops["bmp.pointmicro"] = func(a []string) string {
		return "ok " + strconv.Itoa(parseImage(a[0]).PointMicro())
	}
}
