//go:build verif

package main

import (
	"bytes"
	"crypto/sha256"
	"encoding/binary"
	"fmt"
	"image"
	"reflect"
	"strings"
	"sync"

	gbitmap "github.com/shogo82148/go-imaging/bitmap"
	qrcode "github.com/shogo82148/qrcode"
	"github.com/shogo82148/qrcode/internal/bitmap"
	"github.com/shogo82148/qrcode/internal/bitstream"
	"github.com/shogo82148/qrcode/internal/reedsolomon/element"
	"github.com/shogo82148/qrcode/microqr"
	"github.com/shogo82148/qrcode/rmqr"
)

// tablesHash hashes every package-level table the library reads (bit for bit).
func tablesHash() string {
	h := sha256.New()
	wi := func(v int) { binary.Write(h, binary.LittleEndian, int64(v)) }
	imgs := func(l []*bitmap.Image) {
		for _, im := range l {
			if im == nil {
				wi(-1)
				continue
			}
			wi(im.Stride)
			wi(im.Rect.Min.X)
			wi(im.Rect.Min.Y)
			wi(im.Rect.Max.X)
			wi(im.Rect.Max.Y)
			h.Write(im.Pix)
		}
	}
	imgs(qrcode.VerifMaskList())
	imgs(qrcode.VerifBaseList())
	imgs(qrcode.VerifUsedList())
	imgs(microqr.VerifMaskList())
	imgs(microqr.VerifBaseList())
	imgs(microqr.VerifUsedList())
	imgs([]*bitmap.Image{rmqr.VerifMask()})
	imgs(rmqr.VerifBaseList())
	imgs(rmqr.VerifUsedList())
	fmt.Fprint(h, qrcode.VerifCapacity(), qrcode.VerifFormat(), qrcode.VerifVersionInfo())
	fmt.Fprint(h, microqr.VerifCapacity(), microqr.VerifFormat(), microqr.VerifFormatTable(), microqr.VerifRawFormatTable())
	a, b, c := rmqr.VerifOrders()
	fmt.Fprint(h, rmqr.VerifCapacity(), rmqr.VerifVersionInfo(), a, b, c)
	e, l := element.VerifTables()
	fmt.Fprint(h, e, l)
	k := bitstream.VerifKanji()
	fmt.Fprint(h, k.Low, k.High, k.Enc, k.Dec)
	tc, ti := bitstream.VerifAlnum()
	fmt.Fprint(h, tc, ti)
	return fmt.Sprintf("%x", h.Sum(nil)[:8])
}

// api is one symbology behind a uniform face.
type api struct {
	newDesc func(p []byte, level int, kanji bool) (any, error)
	encBmp  func(q any) (*gbitmap.Image, error)
	enc     func(q any) (image.Image, error)
	dec     func(img *gbitmap.Image) (any, error)
	clone   func(q any) any
}

func cloneBytes(b []byte) []byte { return append([]byte(nil), b...) }

var apis = map[string]api{
	"qr": {
		newDesc: func(p []byte, level int, kanji bool) (any, error) {
			return qrcode.New(p, qrcode.WithLevel(qrcode.Level(level)), qrcode.WithKanji(kanji))
		},
		encBmp: func(q any) (*gbitmap.Image, error) { return q.(*qrcode.QRCode).EncodeToBitmap() },
		enc:    func(q any) (image.Image, error) { return q.(*qrcode.QRCode).Encode() },
		dec:    func(img *gbitmap.Image) (any, error) { return qrcode.DecodeBitmap(img) },
		clone: func(q any) any {
			o := q.(*qrcode.QRCode)
			c := *o
			if o.Segments != nil {
				c.Segments = make([]qrcode.Segment, len(o.Segments))
			}
			for i, s := range o.Segments {
				c.Segments[i] = qrcode.Segment{Mode: s.Mode, Data: cloneBytes(s.Data)}
			}
			return &c
		},
	},
	"mq": {
		newDesc: func(p []byte, level int, kanji bool) (any, error) {
			return microqr.New(p, microqr.WithLevel(microqr.Level(level)), microqr.WithKanji(kanji))
		},
		encBmp: func(q any) (*gbitmap.Image, error) { return q.(*microqr.QRCode).EncodeToBitmap() },
		enc:    func(q any) (image.Image, error) { return q.(*microqr.QRCode).Encode() },
		dec:    func(img *gbitmap.Image) (any, error) { return microqr.DecodeBitmap(img) },
		clone: func(q any) any {
			o := q.(*microqr.QRCode)
			c := *o
			if o.Segments != nil {
				c.Segments = make([]microqr.Segment, len(o.Segments))
			}
			for i, s := range o.Segments {
				c.Segments[i] = microqr.Segment{Mode: s.Mode, Data: cloneBytes(s.Data)}
			}
			return &c
		},
	},
	"rm": {
		newDesc: func(p []byte, level int, kanji bool) (any, error) {
			return rmqr.New(p, rmqr.WithLevel(rmqr.Level(level)), rmqr.WithKanji(kanji))
		},
		encBmp: func(q any) (*gbitmap.Image, error) { return q.(*rmqr.QRCode).EncodeToBitmap() },
		enc:    func(q any) (image.Image, error) { return q.(*rmqr.QRCode).Encode() },
		dec:    func(img *gbitmap.Image) (any, error) { return rmqr.DecodeBitmap(img) },
		clone: func(q any) any {
			o := q.(*rmqr.QRCode)
			c := *o
			if o.Segments != nil {
				c.Segments = make([]rmqr.Segment, len(o.Segments))
			}
			for i, s := range o.Segments {
				c.Segments[i] = rmqr.Segment{Mode: s.Mode, Data: cloneBytes(s.Data)}
			}
			return &c
		},
	},
}

func imgHash(im image.Image) string {
	h := sha256.New()
	b := im.Bounds()
	fmt.Fprint(h, b)
	for y := b.Min.Y; y < b.Max.Y; y++ {
		for x := b.Min.X; x < b.Max.X; x++ {
			r, g, bb, a := im.At(x, y).RGBA()
			binary.Write(h, binary.LittleEndian, [4]uint32{r, g, bb, a})
		}
	}
	return fmt.Sprintf("%x", h.Sum(nil)[:8])
}

func cloneBmp(im *gbitmap.Image) *gbitmap.Image {
	return &gbitmap.Image{Pix: cloneBytes(im.Pix), Stride: im.Stride, Rect: im.Rect}
}

func sameBmp(a, b *gbitmap.Image) bool {
	return a.Stride == b.Stride && a.Rect == b.Rect && bytes.Equal(a.Pix, b.Pix)
}

// api.pure <sym> <level> <kanji> <hexpayload>: every API call must leave its arguments and all
// tables unchanged and answer equal inputs equally, whatever came before.
func init() {
	ops["api.pure"] = func(a []string) string {
		ap := apis[a[0]]
		level, kanji := atoi(a[1]), a[2] == "1"
		p := parseHex(a[3])
		p0 := cloneBytes(p)
		var bad []string
		t0 := tablesHash()
		q1, err := ap.newDesc(p, level, kanji)
		if !bytes.Equal(p, p0) {
			bad = append(bad, "New-altered-payload")
		}
		if err != nil {
			q2, err2 := ap.newDesc(p, level, kanji)
			if err2 == nil || q2 != nil && !reflect.ValueOf(q2).IsNil() {
				bad = append(bad, "New-not-repeatable")
			}
			if tablesHash() != t0 {
				bad = append(bad, "tables-changed")
			}
			if len(bad) > 0 {
				return "impure " + strings.Join(bad, ",")
			}
			return "ok new-err"
		}
		q2, _ := ap.newDesc(p, level, kanji)
		if !reflect.DeepEqual(q1, q2) {
			bad = append(bad, "New-not-repeatable")
		}
		qc := ap.clone(q1)
		img1, err := ap.encBmp(q1)
		if !reflect.DeepEqual(q1, qc) {
			bad = append(bad, "EncodeToBitmap-altered-description")
		}
		if err != nil {
			return "ok enc-err " + strings.Join(bad, ",")
		}
		img2, _ := ap.encBmp(q1)
		if img2 == nil || !sameBmp(img1, img2) {
			bad = append(bad, "EncodeToBitmap-not-repeatable")
		}
		imgc := cloneBmp(img1)
		d1, derr1 := ap.dec(img1)
		if !sameBmp(img1, imgc) {
			bad = append(bad, "DecodeBitmap-altered-bitmap")
		}
		d2, derr2 := ap.dec(img1)
		if (derr1 == nil) != (derr2 == nil) || !reflect.DeepEqual(d1, d2) {
			bad = append(bad, "DecodeBitmap-not-repeatable")
		}
		// a decode of a pristine copy must agree with the first decode
		d3, derr3 := ap.dec(imgc)
		if (derr1 == nil) != (derr3 == nil) || !reflect.DeepEqual(d1, d3) {
			bad = append(bad, "DecodeBitmap-history-dependent")
		}
		// the same on a slightly DAMAGED bitmap, so that the error-correction path runs: decoding it
		// twice, and a pristine copy of it, must give the same answer (whatever that answer is)
		imgD := cloneBmp(img1)
		{
			b := imgD.Rect
			cx, cy := b.Min.X+b.Dx()/2, b.Min.Y+b.Dy()/2
			for k := 0; k < 3; k++ {
				x, y := cx+k, cy-k%2
				imgD.SetBinary(x, y, !imgD.BinaryAt(x, y))
			}
		}
		imgDc := cloneBmp(imgD)
		e1, eerr1 := ap.dec(imgD)
		if !sameBmp(imgD, imgDc) {
			bad = append(bad, "DecodeBitmap-altered-damaged-bitmap")
		}
		e2, eerr2 := ap.dec(imgD)
		e3, eerr3 := ap.dec(imgDc)
		if (eerr1 == nil) != (eerr2 == nil) || !reflect.DeepEqual(e1, e2) || (eerr1 == nil) != (eerr3 == nil) || !reflect.DeepEqual(e1, e3) {
			bad = append(bad, "DecodeBitmap-of-damaged-symbol-history-dependent")
		}
		r1, err := ap.enc(q1)
		if !reflect.DeepEqual(q1, qc) {
			bad = append(bad, "Encode-altered-description")
		}
		if err == nil {
			r2, _ := ap.enc(q1)
			if r2 == nil || imgHash(r1) != imgHash(r2) {
				bad = append(bad, "Encode-not-repeatable")
			}
		}
		// the description after all calls still encodes to the same bitmap
		img3, _ := ap.encBmp(q1)
		if img3 == nil || !sameBmp(img3, img2) {
			bad = append(bad, "EncodeToBitmap-history-dependent")
		}
		if tablesHash() != t0 {
			bad = append(bad, "tables-changed")
		}
		if len(bad) > 0 {
			return "impure " + strings.Join(bad, ",")
		}
		return "ok"
	}

	// api.conc <sym> <level> <kanji> <goroutines> <hexpayload>: the same calls from many goroutines on
	// SHARED inputs (payload slice, description, bitmap); results must equal the sequential ones.
	// Run with the -race build: a data race makes the process exit (GORACE halt_on_error).
	ops["api.conc"] = func(a []string) string {
		ap := apis[a[0]]
		level, kanji, n := atoi(a[1]), a[2] == "1", atoi(a[3])
		p := parseHex(a[4])
		q0, err := ap.newDesc(cloneBytes(p), level, kanji)
		if err != nil {
			return "ok new-err"
		}
		img0, err := ap.encBmp(q0)
		if err != nil {
			return "ok enc-err"
		}
		d0, derr0 := ap.dec(cloneBmp(img0))
		shared := cloneBmp(img0)
		var wg sync.WaitGroup
		var mu sync.Mutex
		var bad []string
		note := func(s string) { mu.Lock(); bad = append(bad, s); mu.Unlock() }
		for g := 0; g < n; g++ {
			wg.Add(1)
			go func() {
				defer wg.Done()
				defer func() {
					if r := recover(); r != nil {
						note("panic")
					}
				}()
				for it := 0; it < 3; it++ {
					q, err := ap.newDesc(p, level, kanji) // shared payload slice
					if err != nil || !reflect.DeepEqual(q, q0) {
						note("New-differs")
						return
					}
					im, err := ap.encBmp(q0) // shared description
					if err != nil || !sameBmp(im, img0) {
						note("EncodeToBitmap-differs")
						return
					}
					d, derr := ap.dec(shared) // shared bitmap
					if (derr == nil) != (derr0 == nil) || !reflect.DeepEqual(d, d0) {
						note("DecodeBitmap-differs")
						return
					}
				}
			}()
		}
		wg.Wait()
		if !sameBmp(shared, img0) {
			note("shared-bitmap-altered")
		}
		if len(bad) > 0 {
			return "differs " + strings.Join(bad, ",")
		}
		return "ok"
	}
}
