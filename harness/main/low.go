//go:build verif

package main

import (
	"fmt"
	"io"
	"strconv"
	"strings"

	"github.com/shogo82148/qrcode/internal/bitstream"
	"github.com/shogo82148/qrcode/internal/reedsolomon"
)

func showBuf(b *bitstream.Buffer) string {
	return strconv.Itoa(b.Len()) + " " + hexOf(b.Bytes())
}

func runBufOps(opsStr string) (out string) {
	var b bitstream.Buffer
	var res []string
	k := 0
	defer func() {
		if r := recover(); r != nil {
			lastPanic = fmt.Sprint(r)
			out = fmt.Sprintf("panic %d %s", k, strings.Join(res, ","))
		}
	}()
	for _, op := range strings.Split(opsStr, ";") {
		f := strings.Split(op, ":")
		switch f[0] {
		case "wb":
			b.WriteBit(uint8(atoi(f[1])))
			res = append(res, "w")
		case "wl":
			b.WriteBitsLSB(atou64(f[1]), atoi(f[2]))
			res = append(res, "w")
		case "rb":
			v, err := b.ReadBit()
			if err == io.EOF {
				res = append(res, "EOF")
			} else {
				res = append(res, strconv.Itoa(int(v)))
			}
		case "rs":
			v, err := b.ReadBits(atoi(f[1]))
			if err == io.EOF {
				res = append(res, "EOF")
			} else {
				res = append(res, strconv.FormatUint(v, 10))
			}
		default:
			res = append(res, "bad")
		}
		k++
	}
	return "ok " + strings.Join(res, ",") + " " + showBuf(&b)
}

func codecEnc(f func(*bitstream.Buffer, []byte) error) opFunc {
	return func(a []string) string {
		var b bitstream.Buffer
		if err := f(&b, parseHex(a[0])); err != nil {
			return "err " + err.Error()
		}
		return "ok " + showBuf(&b)
	}
}

func codecDec(f func(*bitstream.Buffer, []byte) error) opFunc {
	return func(a []string) string {
		b := bitstream.NewBuffer(parseHex(a[1]))
		data := make([]byte, atoi(a[0]))
		if err := f(b, data); err != nil {
			return "err " + err.Error()
		}
		_, off, rd, _ := b.VerifState()
		return "ok " + hexOf(data) + " " + strconv.Itoa(off*8+rd)
	}
}

func init() {
	ops["buf"] = func(a []string) string { return runBufOps(a[0]) }
	ops["codec.enc.num"] = codecEnc(bitstream.EncodeNumeric)
	ops["codec.enc.alnum"] = codecEnc(bitstream.EncodeAlphanumeric)
	ops["codec.enc.bytes"] = codecEnc(bitstream.EncodeBytes)
	ops["codec.enc.kanji"] = codecEnc(bitstream.EncodeKanji)
	ops["codec.dec.num"] = codecDec(bitstream.DecodeNumeric)
	ops["codec.dec.alnum"] = codecDec(bitstream.DecodeAlphanumeric)
	ops["codec.dec.bytes"] = codecDec(bitstream.DecodeBytes)
	ops["codec.dec.kanji"] = func(a []string) string {
		b := bitstream.NewBuffer(parseHex(a[1]))
		data, err := bitstream.DecodeKanji(b, atoi(a[0]))
		if err != nil {
			return "err " + err.Error()
		}
		_, off, rd, _ := b.VerifState()
		return "ok " + hexOf(data) + " " + strconv.Itoa(off*8+rd)
	}
	ops["codec.kanji.rune"] = func(a []string) string {
		c, ok := bitstream.VerifEncodeKanjiRune(rune(atoi(a[0])))
		if !ok {
			return "ok none"
		}
		return "ok " + strconv.FormatUint(c, 10)
	}
	ops["codec.kanji.code"] = func(a []string) string {
		k := bitstream.VerifKanji()
		c := atoi(a[0])
		if c >= len(k.Dec) {
			return "ok none"
		}
		return "ok " + strconv.Itoa(int(k.Dec[c]))
	}
	ops["codec.class"] = func(a []string) string {
		ch := byte(atoi(a[0]))
		return fmt.Sprintf("ok %v %v", bitstream.IsNumeric(ch), bitstream.IsAlphanumeric(ch))
	}
	ops["rs.new"] = func(a []string) string {
		h := reedsolomon.New(atoi(a[0]))
		return "ok " + strconv.Itoa(h.Size())
	}
	// rs.enc n chunk,chunk,...: also checks (Go-side oracle) that Sum does not disturb the state
	// and that Reset returns to the empty message; a failure is reported as `ok <hex> IMPURE`.
	ops["rs.enc"] = func(a []string) string {
		n := atoi(a[0])
		h := reedsolomon.New(n)
		chunks := strings.Split(a[1], ",")
		for i, c := range chunks {
			h.Write(parseHex(c))
			if i == len(chunks)/2 {
				h.Sum(make([]byte, 0, n)) // asking for the sum mid-way must not matter
			}
		}
		s1 := h.Sum(make([]byte, 0, n))
		s2 := h.Sum(nil)
		res := "ok " + hexOf(s1)
		if hexOf(s1) != hexOf(s2) {
			res += " IMPURE-SUM"
		}
		// the destination handed to Sum is the caller's: whatever its spare capacity holds, and whatever it already
		// contains, an EMPTY destination gets exactly the parity (a scratch buffer reused for the next block, Sum twice into one buffer)
		dirty := make([]byte, n+8)
		for i := range dirty {
			dirty[i] = 0xA5
		}
		s3 := h.Sum(dirty[:0])
		s4 := h.Sum(s3[:0]) // the same backing array, now holding the parity
		if hexOf(s3) != hexOf(s2) || hexOf(s4) != hexOf(s2) {
			res += " DIRTY-DESTINATION(" + hexOf(s3) + "," + hexOf(s4) + ")"
		}
		h.Reset()
		z := h.Sum(nil)
		for _, v := range z {
			if v != 0 {
				res += " BAD-RESET"
				break
			}
		}
		return res
	}
	// two coders of the same parity length alive at once, their writes interleaved: `rs.enc2 n hexA k hexB`
	ops["rs.enc2"] = func(a []string) string {
		n, k := atoi(a[0]), atoi(a[2])
		ma, mb := parseHex(a[1]), parseHex(a[3])
		if k > len(ma) {
			k = len(ma)
		}
		ha := reedsolomon.New(n)
		ha.Write(ma[:k])
		hb := reedsolomon.New(n)
		hb.Write(mb)
		ha.Write(ma[k:])
		sa := ha.Sum(nil)
		other := reedsolomon.New(n) // a third coder created after the sums must not disturb them either
		_ = other
		sb := hb.Sum(nil)
		sa2 := ha.Sum(nil)
		if hexOf(sa) != hexOf(sa2) {
			return "ok " + hexOf(sa) + " " + hexOf(sb) + " SUM-CHANGED-BY-NEW " + hexOf(sa2)
		}
		return "ok " + hexOf(sa) + " " + hexOf(sb)
	}
	ops["rs.dec"] = func(a []string) string {
		data := parseHex(a[1])
		if err := reedsolomon.Decode(data, atoi(a[0])); err != nil {
			return "err " + err.Error()
		}
		return "ok " + hexOf(data)
	}
}

// ---- independent GF(256)/0x11D arithmetic for harness-side oracles (no table of /repo is used)
func hxtime(a byte) byte {
	if a&0x80 != 0 {
		return (a << 1) ^ 0x1D
	}
	return a << 1
}
func hmul(a, b byte) byte {
	var r byte
	for i := 0; i < 8; i++ {
		if b&(1<<i) != 0 {
			r ^= a
		}
		a = hxtime(a)
	}
	return r
}
func heval(p []byte, x byte) byte {
	var r byte
	for _, c := range p {
		r = hmul(r, x) ^ c
	}
	return r
}

func init() {
	// rs.basis n: every basis message v*x^j (v in 1..255, j in 0..254-n) through the real coder;
	// the codeword message++parity must vanish at alpha^0..alpha^(n-1) (checked with the
	// independent arithmetic above).  Output: ok <messages> bad=<count> [first=v,j]
	ops["rs.basis"] = func(a []string) string {
		n := atoi(a[0])
		roots := make([]byte, n)
		r := byte(1)
		for i := range roots {
			roots[i] = r
			r = hxtime(r)
		}
		bad, total := 0, 0
		first := ""
		for j := 0; j+n <= 254; j++ {
			for v := 1; v < 256; v++ {
				msg := make([]byte, j+1)
				msg[0] = byte(v)
				h := reedsolomon.New(n)
				h.Write(msg)
				par := h.Sum(make([]byte, 0, n))
				cw := append(msg, par...)
				total++
				okc := len(par) == n
				for _, x := range roots {
					if heval(cw, x) != 0 {
						okc = false
						break
					}
				}
				if !okc {
					bad++
					if first == "" {
						first = fmt.Sprintf(" first=%d,%d", v, j)
					}
				}
			}
		}
		return fmt.Sprintf("ok %d bad=%d%s", total, bad, first)
	}
}
