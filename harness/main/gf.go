//go:build verif

package main

import (
	"strconv"

	"github.com/shogo82148/qrcode/internal/reedsolomon/element"
)

func init() {
	ops["gf.add"] = func(a []string) string {
		return "ok " + strconv.Itoa(int(element.Add(element.Element(atoi(a[0])), element.Element(atoi(a[1])))))
	}
	ops["gf.mul"] = func(a []string) string {
		return "ok " + strconv.Itoa(int(element.Mul(element.Element(atoi(a[0])), element.Element(atoi(a[1])))))
	}
	ops["gf.log"] = func(a []string) string {
		return "ok " + strconv.Itoa(element.Log(element.Element(atoi(a[0]))))
	}
	ops["gf.inv"] = func(a []string) string {
		return "ok " + strconv.Itoa(int(element.Inv(element.Element(atoi(a[0])))))
	}
	ops["gf.exp"] = func(a []string) string {
		return "ok " + strconv.Itoa(int(element.Exp(atoi(a[0]))))
	}
	ops["gf.ame"] = func(a []string) string {
		return "ok " + strconv.Itoa(int(element.AddMulExp(element.Element(atoi(a[0])), atoi(a[1]), atoi(a[2]))))
	}
}
