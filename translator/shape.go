package main

import (
	"crypto/sha256"
	"encoding/json"
	"fmt"
	"go/ast"
	"go/parser"
	"go/token"
	"os"
	"path/filepath"
	"sort"
	"strings"
)

// doShape extracts, per library source file, the facts the proofs and the model rely on but which
// are not behaviour of a single call:
//   * every explicit `panic(` site (function name),
//   * every function that assigns to (an element / field of) a package-level variable,
// so that a new panic site or a new write to shared state appearing in the source changes Gen and
// breaks the obligation that pins the expected lists (Props/C06, C08, C09).
func doShape(repo, out string) {
	pkgs := []string{".", "microqr", "rmqr", "internal/bitmap", "internal/bitstream", "internal/reedsolomon", "internal/reedsolomon/element", "internal/reedsolomon/poly"}
	var panics, writes, imgUses, pvars, entry []string
	hashes := map[string]string{}
	for _, p := range pkgs {
		dir := filepath.Join(repo, p)
		ents, err := os.ReadDir(dir)
		if err != nil {
			fmt.Fprintln(os.Stderr, "translator:", err)
			os.Exit(2)
		}
		fset := token.NewFileSet()
		var files []*ast.File
		for _, e := range ents {
			n := e.Name()
			if e.IsDir() || !strings.HasSuffix(n, ".go") || strings.HasSuffix(n, "_test.go") || strings.HasPrefix(n, "zz_verif") {
				continue
			}
			f, err := parser.ParseFile(fset, filepath.Join(dir, n), nil, 0)
			if err != nil {
				fmt.Fprintln(os.Stderr, "translator:", err)
				os.Exit(2)
			}
			files = append(files, f)
		}
		// package-level variable names
		imgGlobals := map[string]bool{}
		globals := map[string]bool{}
		for _, f := range files {
			for _, d := range f.Decls {
				if g, ok := d.(*ast.GenDecl); ok && g.Tok == token.VAR {
					for _, s := range g.Specs {
						vs := s.(*ast.ValueSpec)
						for _, n := range vs.Names {
							globals[n.Name] = true
							ty := ""
							if vs.Type != nil {
								ty = render(fset, vs.Type)
							} else if len(vs.Values) > 0 {
								switch v := vs.Values[0].(type) {
								case *ast.CompositeLit:
									if v.Type != nil {
										ty = render(fset, v.Type)
									}
								case *ast.UnaryExpr:
									if cl, ok := v.X.(*ast.CompositeLit); ok && cl.Type != nil {
										ty = "&" + render(fset, cl.Type)
									}
								case *ast.CallExpr:
									ty = "call " + render(fset, v.Fun)
								default:
									ty = "expr"
								}
							}
							_ = ty
							pvars = append(pvars, p+":"+n.Name)
						}
						// tables of *bitmap.Image (declared type or composite literal type mentions bitmap.Image)
						txt := ""
						if vs.Type != nil {
							txt += render(fset, vs.Type)
						}
						for _, v := range vs.Values {
							if cl, ok := v.(*ast.CompositeLit); ok && cl.Type != nil {
								txt += render(fset, cl.Type)
							}
							if ue, ok := v.(*ast.UnaryExpr); ok {
								if cl, ok := ue.X.(*ast.CompositeLit); ok && cl.Type != nil {
									txt += render(fset, cl.Type)
								}
							}
						}
						if strings.Contains(txt, "bitmap.Image") {
							for _, n := range vs.Names {
								imgGlobals[n.Name] = true
							}
						}
					}
				}
			}
		}
		for _, f := range files {
			for _, d := range f.Decls {
				// fingerprint of every declaration (comments are not parsed): used to notice WHICH functions changed
				switch dd := d.(type) {
				case *ast.FuncDecl:
					nm := dd.Name.Name
					if rn, _ := recvName(dd); rn != "" {
						nm = rn + "." + nm
					}
					hashes[p+":"+nm] = fmt.Sprintf("%x", sha256.Sum256([]byte(render(fset, dd))))
				case *ast.GenDecl:
					if dd.Tok == token.VAR || dd.Tok == token.CONST || dd.Tok == token.TYPE {
						for _, sp := range dd.Specs {
							switch vs := sp.(type) {
							case *ast.ValueSpec:
								for _, n := range vs.Names {
									hashes[p+":"+dd.Tok.String()+" "+n.Name] = fmt.Sprintf("%x", sha256.Sum256([]byte(render(fset, vs))))
								}
							case *ast.TypeSpec:
								hashes[p+":type "+vs.Name.Name] = fmt.Sprintf("%x", sha256.Sum256([]byte(render(fset, vs))))
							}
						}
					}
				}
				fn, ok := d.(*ast.FuncDecl)
				if !ok || fn.Body == nil {
					continue
				}
				name := fn.Name.Name
				if rn, _ := recvName(fn); rn != "" {
					name = rn + "." + name
				}
				if strings.HasPrefix(name, "coder") { // the 67 generated coders are covered by the template
					continue
				}
				full := p + ":" + name
				// the public entry points that are glue around the modelled core: which functions they call, in order of
				// first appearance (a wrapper that stops going through the validating entry point changes this list)
				if (p == "." || p == "microqr" || p == "rmqr") && (name == "Encode" || name == "QRCode.Encode" || name == "New") {
					// only calls of functions / methods DECLARED IN THIS PACKAGE, by their bare name: local variable names and
					// the rendering code (third-party calls) may change freely
					declared := map[string]bool{}
					for _, f2 := range files {
						for _, d2 := range f2.Decls {
							if fd, ok := d2.(*ast.FuncDecl); ok {
								declared[fd.Name.Name] = true
							}
						}
					}
					imported := map[string]bool{}
					for _, f2 := range files {
						for _, im := range f2.Imports {
							path := strings.Trim(im.Path.Value, "\"")
							name := path[strings.LastIndex(path, "/")+1:]
							if im.Name != nil {
								name = im.Name.Name
							}
							imported[name] = true
						}
					}
					seen := map[string]bool{}
					var calls []string
					ast.Inspect(fn.Body, func(n ast.Node) bool {
						if c, ok := n.(*ast.CallExpr); ok {
							nm := ""
							switch f := c.Fun.(type) {
							case *ast.Ident:
								nm = f.Name
							case *ast.SelectorExpr:
								if x, ok := f.X.(*ast.Ident); !ok || !imported[x.Name] {
									nm = f.Sel.Name
								}
							}
							if nm != "" && declared[nm] && !seen[nm] {
								seen[nm] = true
								calls = append(calls, nm)
							}
						}
						return true
					})
					entry = append(entry, full+" -> "+strings.Join(calls, " "))
				}
				// locals shadowing globals: collect declared identifiers (params, := and var)
				local := map[string]bool{}
				if fn.Type.Params != nil {
					for _, fl := range fn.Type.Params.List {
						for _, n := range fl.Names {
							local[n.Name] = true
						}
					}
				}
				if fn.Recv != nil {
					for _, fl := range fn.Recv.List {
						for _, n := range fl.Names {
							local[n.Name] = true
						}
					}
				}
				ast.Inspect(fn.Body, func(n ast.Node) bool {
					switch s := n.(type) {
					case *ast.AssignStmt:
						if s.Tok == token.DEFINE {
							for _, l := range s.Lhs {
								if id, ok := l.(*ast.Ident); ok {
									local[id.Name] = true
								}
							}
						}
					case *ast.ValueSpec:
						for _, id := range s.Names {
							local[id.Name] = true
						}
					case *ast.RangeStmt:
						if s.Tok == token.DEFINE {
							for _, e := range []ast.Expr{s.Key, s.Value} {
								if id, ok := e.(*ast.Ident); ok {
									local[id.Name] = true
								}
							}
						}
					}
					return true
				})
				root := func(e ast.Expr) string {
					for {
						switch t := e.(type) {
						case *ast.IndexExpr:
							e = t.X
						case *ast.SelectorExpr:
							e = t.X
						case *ast.StarExpr:
							e = t.X
						case *ast.ParenExpr:
							e = t.X
						case *ast.SliceExpr:
							e = t.X
						case *ast.Ident:
							return t.Name
						default:
							return ""
						}
					}
				}
				// every simple statement that mentions a table of images, verbatim
				var visit func(n ast.Node)
				mentions := func(n ast.Node) bool {
					found := false
					ast.Inspect(n, func(m ast.Node) bool {
						if id, ok := m.(*ast.Ident); ok && imgGlobals[id.Name] && !local[id.Name] {
							found = true
						}
						return !found
					})
					return found
				}
				visit = func(n ast.Node) {
					ast.Inspect(n, func(m ast.Node) bool {
						switch st := m.(type) {
						case *ast.AssignStmt, *ast.ExprStmt, *ast.ReturnStmt, *ast.DeclStmt:
							if mentions(st) {
								imgUses = append(imgUses, full+": "+strings.Join(strings.Fields(render(fset, st)), " "))
							}
							return false
						}
						return true
					})
				}
				visit(fn.Body)
				np := 0
				wset := map[string]bool{}
				ast.Inspect(fn.Body, func(n ast.Node) bool {
					switch s := n.(type) {
					case *ast.CallExpr:
						if id, ok := s.Fun.(*ast.Ident); ok && id.Name == "panic" {
							np++
						}
					case *ast.AssignStmt:
						if s.Tok != token.DEFINE {
							for _, l := range s.Lhs {
								if r := root(l); r != "" && globals[r] && !local[r] {
									wset[r] = true
								}
							}
						}
					case *ast.IncDecStmt:
						if r := root(s.X); r != "" && globals[r] && !local[r] {
							wset[r] = true
						}
					}
					return true
				})
				if np > 0 {
					panics = append(panics, fmt.Sprintf("%s#%d", full, np))
				}
				if len(wset) > 0 {
					var ws []string
					for w := range wset {
						ws = append(ws, w)
					}
					sort.Strings(ws)
					writes = append(writes, full+"->"+strings.Join(ws, "+"))
				}
			}
		}
	}
	sort.Strings(panics)
	sort.Strings(writes)
	sort.Strings(imgUses)
	q := func(l []string) string {
		s := make([]string, len(l))
		for i, x := range l {
			s[i] = fmt.Sprintf("%q", x)
		}
		return "[" + strings.Join(s, ",\n  ") + "]"
	}
	var sb strings.Builder
	sb.WriteString("-- GENERATED by /verif/translator from /repo's Go source. DO NOT EDIT.\nnamespace QRV.Gen.Shape\n\n")
	fmt.Fprintf(&sb, "/-- functions containing explicit `panic(` calls, with their count -/\ndef panicSites : List String := %s\n\n", q(panics))
	fmt.Fprintf(&sb, "/-- functions assigning to package-level variables (function->variables) -/\ndef globalWrites : List String := %s\n\n", q(writes))
	sort.Strings(pvars)
	fmt.Fprintf(&sb, "/-- every package-level variable of the library (package:name): the only places where state could live between calls -/\ndef packageVars : List String := %s\n\n", q(pvars))
	fmt.Fprintf(&sb, "/-- every statement of the library that mentions a package-level table of bitmap images (how the tables are read, cloned, passed on) -/\ndef imageTableUses : List String := %s\n\n", q(imgUses))
	sort.Strings(entry)
	fmt.Fprintf(&sb, "/-- the public entry points of the three symbology packages and the functions each calls, in order of first appearance -/\ndef entryCalls : List String := %s\n\n", q(entry))
	ms := make([]string, len(mismatches))
	copy(ms, mismatches)
	fmt.Fprintf(&sb, "def mismatches : List String := %s\n\nend QRV.Gen.Shape\n", q(ms))
	if err := os.WriteFile(filepath.Join(out, "Shape.lean"), []byte(sb.String()), 0o644); err != nil {
		panic(err)
	}
	hb, _ := json.MarshalIndent(hashes, "", " ")
	if err := os.WriteFile(filepath.Join(filepath.Dir(out), "funchashes.json"), hb, 0o644); err != nil {
		panic(err)
	}
}
