// translator: reads Go SOURCE of /repo (go/parser, go/ast, go/printer only) and emits the parts of
// QRV/Gen that live in code rather than in data:
//
//   RS.lean     the 67 generated Reed-Solomon coders as data (tap constants), extracted by
//               matching every declaration of internal/reedsolomon/table_gen.go against the exact
//               template of internal/reedsolomon/gen/main.go, instantiated with the extracted taps;
//   Shape.lean  structural facts used by the proofs (receiver kinds, panic sites, write sets).
//
// usage: translator <repo> <outdir>; exit 0 = all shapes matched, exit 3 = files written but some
// shape did not match (listed on stderr and in Shape.lean), other = hard failure.
package main

import (
	"bytes"
	"fmt"
	"go/ast"
	"go/format"
	"go/parser"
	"go/printer"
	"go/token"
	"os"
	"path/filepath"
	"sort"
	"strconv"
	"strings"
)

var mismatches []string

func mismatch(f string, a ...any) { mismatches = append(mismatches, fmt.Sprintf(f, a...)) }

func render(fset *token.FileSet, n ast.Node) string {
	var b bytes.Buffer
	if err := printer.Fprint(&b, fset, n); err != nil {
		panic(err)
	}
	return b.String()
}

// canon formats a source fragment (a list of declarations) canonically.
func canon(src string) string {
	out, err := format.Source([]byte("package p\n" + src))
	if err != nil {
		return "FORMAT-ERROR: " + err.Error() + "\n" + src
	}
	var keep []string
	for _, l := range strings.Split(string(out), "\n") {
		if strings.TrimSpace(l) != "" {
			keep = append(keep, l)
		}
	}
	return strings.Join(keep, "\n")
}

func coderTemplate(i int, taps []int) string {
	var buf bytes.Buffer
	fmt.Fprintf(&buf, "type coder%d [%d]element.Element\n", i, i)
	fmt.Fprintf(&buf, "func new%d() hash.Hash { return &coder%d{} }\n\n", i, i)
	fmt.Fprintf(&buf, "func (c *coder%d) Reset() { for i := range c { c[i] = 0 } }\n", i)
	fmt.Fprintf(&buf, "func (c *coder%d) Size() int { return len(c) }\n", i)
	fmt.Fprintf(&buf, "func (c *coder%d) BlockSize() int { return len(c) }\n", i)
	fmt.Fprintf(&buf, "func (c *coder%d) Write(p []byte) (int, error) {\n", i)
	fmt.Fprintf(&buf, "for _, b := range p {\n")
	fmt.Fprintf(&buf, "if c[0] == 0 {\n")
	fmt.Fprintf(&buf, "copy(c[0:], c[1:])\n")
	fmt.Fprintf(&buf, "c[%d] = element.Element(b)\n", i-1)
	fmt.Fprintf(&buf, "continue\n")
	fmt.Fprintf(&buf, "}\n")
	fmt.Fprintf(&buf, "x := element.Log(c[0])\n")
	for j := 0; j < i-1; j++ {
		fmt.Fprintf(&buf, "c[%d] = element.AddMulExp(c[%d], x, %d)\n", j, j+1, taps[j])
	}
	fmt.Fprintf(&buf, "c[%d] = element.AddMulExp(element.Element(b), x, %d)\n", i-1, taps[i-1])
	fmt.Fprintf(&buf, "}\n")
	fmt.Fprintf(&buf, "return len(p), nil\n")
	fmt.Fprintf(&buf, "}\n")
	fmt.Fprintf(&buf, "func (c coder%d) Sum(buf []byte) []byte {\n", i)
	fmt.Fprintf(&buf, "c.Write(buf)\n")
	fmt.Fprintf(&buf, "if cap(buf) < %d {\n", i)
	fmt.Fprintf(&buf, "buf = make([]byte, %d)\n", i)
	fmt.Fprintf(&buf, "} else {\n")
	fmt.Fprintf(&buf, "buf = buf[:%[1]d]\n", i)
	fmt.Fprintf(&buf, "for i := range buf {\n buf[i] = 0\n}\n")
	fmt.Fprintf(&buf, "}\n")
	fmt.Fprintf(&buf, "c.Write(buf)\n")
	fmt.Fprintf(&buf, "for i := range buf {\n")
	fmt.Fprintf(&buf, "buf[i] = byte(c[i])\n")
	fmt.Fprintf(&buf, "}\n")
	fmt.Fprintf(&buf, "return buf\n")
	fmt.Fprintf(&buf, "}\n")
	return buf.String()
}

// extractTaps returns the third argument of every element.AddMulExp call in fn, in source order.
func extractTaps(fn *ast.FuncDecl) ([]int, bool) {
	var taps []int
	ok := true
	ast.Inspect(fn, func(n ast.Node) bool {
		call, is := n.(*ast.CallExpr)
		if !is {
			return true
		}
		sel, is := call.Fun.(*ast.SelectorExpr)
		if !is || sel.Sel.Name != "AddMulExp" || len(call.Args) != 3 {
			return true
		}
		lit, is := call.Args[2].(*ast.BasicLit)
		if !is || lit.Kind != token.INT {
			ok = false
			return true
		}
		v, err := strconv.ParseInt(lit.Value, 0, 64)
		if err != nil || v < 0 {
			ok = false
			return true
		}
		taps = append(taps, int(v))
		return true
	})
	return taps, ok
}

func recvName(fn *ast.FuncDecl) (name string, ptr bool) {
	if fn.Recv == nil || len(fn.Recv.List) != 1 {
		return "", false
	}
	switch t := fn.Recv.List[0].Type.(type) {
	case *ast.StarExpr:
		if id, ok := t.X.(*ast.Ident); ok {
			return id.Name, true
		}
	case *ast.Ident:
		return t.Name, false
	}
	return "", false
}

func doRS(repo, out string) {
	path := filepath.Join(repo, "internal/reedsolomon/table_gen.go")
	fset := token.NewFileSet()
	f, err := parser.ParseFile(fset, path, nil, 0)
	if err != nil {
		fmt.Fprintln(os.Stderr, "translator:", err)
		os.Exit(2)
	}
	// group declarations by coder number, in source order
	group := map[int][]ast.Decl{}
	writes := map[int]*ast.FuncDecl{}
	var codersLit *ast.CompositeLit
	var stray []string
	num := func(s, prefix string) (int, bool) {
		if !strings.HasPrefix(s, prefix) {
			return 0, false
		}
		n, err := strconv.Atoi(s[len(prefix):])
		return n, err == nil
	}
	for _, d := range f.Decls {
		switch d := d.(type) {
		case *ast.GenDecl:
			if d.Tok == token.IMPORT {
				continue
			}
			handled := false
			if d.Tok == token.TYPE && len(d.Specs) == 1 {
				ts := d.Specs[0].(*ast.TypeSpec)
				if n, ok := num(ts.Name.Name, "coder"); ok {
					group[n] = append(group[n], d)
					handled = true
				}
			}
			if d.Tok == token.VAR && len(d.Specs) == 1 {
				vs := d.Specs[0].(*ast.ValueSpec)
				if len(vs.Names) == 1 && vs.Names[0].Name == "coders" && len(vs.Values) == 1 {
					if cl, ok := vs.Values[0].(*ast.CompositeLit); ok {
						codersLit = cl
						handled = true
					}
				}
			}
			if !handled {
				stray = append(stray, render(fset, d))
			}
		case *ast.FuncDecl:
			if d.Recv == nil {
				if n, ok := num(d.Name.Name, "new"); ok {
					group[n] = append(group[n], d)
					continue
				}
				stray = append(stray, d.Name.Name)
				continue
			}
			rn, _ := recvName(d)
			if n, ok := num(rn, "coder"); ok {
				group[n] = append(group[n], d)
				if d.Name.Name == "Write" {
					writes[n] = d
				}
				continue
			}
			stray = append(stray, d.Name.Name)
		}
	}
	for _, s := range stray {
		mismatch("reedsolomon/table_gen.go: unexpected declaration %q", s)
	}
	// the coders table: [nil, nil, new2 .. new68]
	var tableLen int
	if codersLit == nil {
		mismatch("reedsolomon/table_gen.go: `var coders` not found")
	} else {
		tableLen = len(codersLit.Elts)
		for i, e := range codersLit.Elts {
			id, ok := e.(*ast.Ident)
			want := "nil"
			if i >= 2 {
				want = "new" + strconv.Itoa(i)
			}
			if !ok || id.Name != want {
				mismatch("reedsolomon/table_gen.go: coders[%d] is %s, want %s", i, render(fset, e), want)
			}
		}
	}
	var ns []int
	for n := range group {
		ns = append(ns, n)
	}
	sort.Ints(ns)
	taps := map[int][]int{}
	for _, n := range ns {
		w := writes[n]
		if w == nil {
			mismatch("coder%d: no Write method", n)
			continue
		}
		t, ok := extractTaps(w)
		if !ok || len(t) != n {
			mismatch("coder%d: Write has %d readable AddMulExp taps, want %d", n, len(t), n)
			if len(t) > n {
				t = t[:n]
			}
			for len(t) < n {
				t = append(t, 0)
			}
		}
		taps[n] = t
		var got bytes.Buffer
		for _, d := range group[n] {
			got.WriteString(render(fset, d))
			got.WriteString("\n")
		}
		if a, b := canon(got.String()), canon(coderTemplate(n, t)); a != b {
			if os.Getenv("VERIF_TRANSLATOR_DEBUG") != "" && n == 2 {
				os.WriteFile("/tmp/tr_got.txt", []byte(a), 0o644)
				os.WriteFile("/tmp/tr_want.txt", []byte(b), 0o644)
			}
			mismatch("coder%d: declarations differ from the generator's template instantiated with its own taps", n)
		}
	}
	for n := 2; n < tableLen; n++ {
		if _, ok := taps[n]; !ok {
			mismatch("coder%d: referenced by the coders table but not declared", n)
		}
	}

	var sb strings.Builder
	sb.WriteString("-- GENERATED by /verif/translator from internal/reedsolomon/table_gen.go. DO NOT EDIT.\n")
	sb.WriteString("namespace QRV.Gen.RS\n\n")
	fmt.Fprintf(&sb, "/-- len(coders) -/\ndef codersLen : Nat := %d\n\n", tableLen)
	sb.WriteString("/-- taps n = the constants K_0..K_{n-1} of coder n's Write (logs of the generator's coefficients);\n    [] for the nil entries -/\ndef taps : List (List Nat) := [\n")
	for n := 0; n < tableLen; n++ {
		t := taps[n]
		s := make([]string, len(t))
		for i, v := range t {
			s[i] = strconv.Itoa(v)
		}
		sb.WriteString("  [" + strings.Join(s, ", ") + "]")
		if n != tableLen-1 {
			sb.WriteString(",")
		}
		sb.WriteString("\n")
	}
	sb.WriteString("]\n\n/-- `Sum` has a value receiver in every coder (it cannot disturb the running state),\n    `Write`/`Reset` a pointer receiver: part of the matched template. -/\n")
	fmt.Fprintf(&sb, "def templateMatched : Bool := %v\n\nend QRV.Gen.RS\n", len(mismatches) == 0)
	if err := os.WriteFile(filepath.Join(out, "RS.lean"), []byte(sb.String()), 0o644); err != nil {
		panic(err)
	}
}

func main() {
	if len(os.Args) != 3 {
		fmt.Fprintln(os.Stderr, "usage: translator <repo> <outdir>")
		os.Exit(2)
	}
	repo, out := os.Args[1], os.Args[2]
	doRS(repo, out)
	doShape(repo, out)
	if len(mismatches) > 0 {
		for _, m := range mismatches {
			fmt.Fprintln(os.Stderr, "SHAPE-MISMATCH:", m)
		}
		os.Exit(3)
	}
}
