"""Independent GF(2^8)/0x11D and Reed-Solomon reference (no table of /repo is used)."""


def xtime(a):
    a <<= 1
    return a ^ 0x11D if a & 0x100 else a


EXP = [1]
for _ in range(254):
    EXP.append(xtime(EXP[-1]))
LOG = {v: i for i, v in enumerate(EXP)}


def mul(a, b):
    if a == 0 or b == 0:
        return 0
    return EXP[(LOG[a] + LOG[b]) % 255]


def inv(a):
    return EXP[(255 - LOG[a]) % 255]


def clmul(a, b):
    r = 0
    for i in range(8):
        if (b >> i) & 1:
            r ^= a
        a = xtime(a)
    return r


assert all(mul(a, b) == clmul(a, b) for a in range(0, 256, 7) for b in range(256))


def peval(p, x):
    r = 0
    for c in p:
        r = mul(r, x) ^ c
    return r


_GEN = {}


def genpoly(n):
    if n not in _GEN:
        g = [1]
        for i in range(n):
            r = EXP[i % 255]
            ng = g + [0]
            for k, c in enumerate(g):
                ng[k + 1] ^= mul(c, r)
            g = ng
        _GEN[n] = g
    return _GEN[n]


def parity(n, msg):
    g = genpoly(n)
    rem = list(msg) + [0] * n
    for i in range(len(msg)):
        c = rem[i]
        if c:
            for k in range(1, n + 1):
                rem[i + k] ^= mul(g[k], c)
    return bytes(rem[len(msg):])


def syndromes(cw, n):
    return [peval(cw, EXP[i % 255]) for i in range(n)]
