"""C17 — data-mode codecs: exact inverses, standard bit layout, Shift JIS kanji table."""
from checks import common

ID = 'C17'
EXHAUSTIVE = True
RULE = ('exhaustive where finite: every 1-/2-/3-digit group, every alphanumeric pair and single, every byte value, every 13-bit kanji code, every '
        'code point of the BMP for the kanji encoder, all 256 byte values for the class predicates; plus random strings of each mode (lengths 0..40 in '
        'every remainder class), strings with one invalid character at first/middle/last position, out-of-range decode groups, truncated streams. '
        'Implementation compared with the Lean model (correspondence) and with a python reference using CPython\'s cp932 (the property); '
        'non-trivial = anything except the class-predicate lines')
TRUSTED = [
    'Lean 4.33.0 kernel (decide +kernel over all 8,192 codes and all table cells of the five encode ranges)',
    'verifdump: kanji/alphanumeric tables dumped from the compiled program into QRV/Gen/Kanji.lean',
    'CPython cp932 codec as the Shift JIS (Windows-31J) reference: Gen/SjisRef.lean and the python oracle',
    'Model/Codec.lean, Model/Utf8.lean hand transcriptions tied by differential runs',
]
ASSUMPTIONS = ['Windows-31J is the reading of "Shift JIS" (strict JIS X 0208 differs in 89 cells)']
MANIFEST = {
    'technique': 'Lean 4 proofs over the bit-FIFO refinement (layout, inverse, rejection) + kernel evaluation of the complete kanji tables against a cp932-derived reference',
    'text': ('QRV/Props/C17.lean: for each mode the bits appended are the standard\'s groups (via the C16 refinement), decode(encode s) = s, encoders reject exactly strings with a '
             'character outside the mode\'s set, decoders accept only in-range groups; the kanji decode table equals the CPython-cp932-derived reference on all 8,192 codes, the '
             'encode tables are the least-code inverse on every cell, unassigned codes are rejected. Tables are regenerated from /repo on every run; the model is tied by '
             'exhaustive differential runs.'),
    'note': 'Trusted: Lean kernel; verifdump; CPython cp932; hand-written Model/Codec.lean and Model/Utf8.lean (tied by correspondence).',
}

ALNUM = b'0123456789ABCDEFGHIJKLMNOPQRSTUVWXYZ $%*+-./:'
REF = common.sjis_ref_table()
REF_INV = {}
for _c, _r in enumerate(REF):
    if _r and _r not in REF_INV:
        REF_INV[_r] = _c


def bits_of(v, n):
    return [(v >> (n - 1 - i)) & 1 for i in range(n)]


def pack(bits):
    out = bytearray()
    for i in range(0, len(bits), 8):
        chunk = bits[i:i + 8]
        chunk = chunk + [0] * (8 - len(chunk))
        out.append(int(''.join(map(str, chunk)), 2))
    return bytes(out)


def enc_num(s):
    b = []
    i = 0
    while i + 2 < len(s):
        b += bits_of(int(s[i:i + 3]), 10)
        i += 3
    if len(s) - i == 2:
        b += bits_of(int(s[i:]), 7)
    elif len(s) - i == 1:
        b += bits_of(int(s[i:]), 4)
    return b


def enc_alnum(s):
    b = []
    i = 0
    while i + 1 < len(s):
        b += bits_of(ALNUM.index(s[i]) * 45 + ALNUM.index(s[i + 1]), 11)
        i += 2
    if i < len(s):
        b += bits_of(ALNUM.index(s[i]), 6)
    return b


def go_runes(data):
    """Go's `range string(data)`: invalid bytes become U+FFFD one at a time"""
    out = []
    i = 0
    while i < len(data):
        n = 1
        r = 0xFFFD
        for k in (1, 2, 3, 4):
            try:
                ch = data[i:i + k].decode('utf-8')
                if len(ch) == 1:
                    r, n = ord(ch), k
                    break
            except UnicodeDecodeError:
                continue
        out.append(r)
        i += n
    return out


def expect(line):
    t = line.split()
    op = t[0]
    if op == 'codec.class':
        ch = int(t[1])
        return 'ok %s %s' % ('true' if 48 <= ch <= 57 else 'false', 'true' if ch in ALNUM else 'false')
    if op == 'codec.kanji.rune':
        r = int(t[1])
        return 'ok %s' % (REF_INV[r] if r in REF_INV else 'none')
    if op == 'codec.kanji.code':
        c = int(t[1])
        return None  # raw table cell: compared through codec.dec.kanji below
    if op.startswith('codec.enc.'):
        data = bytes.fromhex(t[1]) if t[1] != '-' else b''
        m = op.split('.')[2]
        if m == 'num':
            if any(not (48 <= c <= 57) for c in data):
                return 'err'
            b = enc_num(data.decode())
        elif m == 'alnum':
            if any(c not in ALNUM for c in data):
                return 'err'
            b = enc_alnum(data)
        elif m == 'bytes':
            b = [x for c in data for x in bits_of(c, 8)]
        else:
            rs = go_runes(data)
            if any(r not in REF_INV for r in rs):
                return 'err'
            b = [x for r in rs for x in bits_of(REF_INV[r], 13)]
        return 'ok %d %s' % (len(b), pack(b).hex() if b else '-')
    if op.startswith('codec.dec.'):
        n = int(t[1])
        data = bytes.fromhex(t[2]) if t[2] != '-' else b''
        bits = [x for c in data for x in bits_of(c, 8)]
        m = op.split('.')[2]
        pos = 0
        out = bytearray()

        def rd(k):
            nonlocal pos
            if pos >= len(bits):
                return None
            got = bits[pos:pos + k]
            pos += len(got)
            v = 0
            for g in got:
                v = v * 2 + g
            return v << (k - len(got))
        if m == 'num':
            rem = n
            while rem > 0:
                k, w, lim = (3, 10, 1000) if rem >= 3 else ((2, 7, 100) if rem == 2 else (1, 4, 10))
                v = rd(w)
                if v is None or v >= lim:
                    return 'err'
                out += (('%0' + str(k) + 'd') % v).encode()
                rem -= k
        elif m == 'alnum':
            rem = n
            while rem > 0:
                if rem >= 2:
                    v = rd(11)
                    if v is None or v >= 45 * 45:
                        return 'err'
                    out += bytes([ALNUM[v // 45], ALNUM[v % 45]])
                    rem -= 2
                else:
                    v = rd(6)
                    if v is None or v >= 45:
                        return 'err'
                    out.append(ALNUM[v])
                    rem -= 1
        elif m == 'bytes':
            for _ in range(n):
                v = rd(8)
                if v is None:
                    return 'err'
                out.append(v)
        else:
            for _ in range(n):
                v = rd(13)
                if v is None or REF[v] == 0:
                    return 'err'
                out += chr(REF[v]).encode('utf-8')
        return 'ok %s %d' % (out.hex() if out else '-', pos)
    return None


def hx(b):
    return b.hex() if b else '-'


def gen(ctx):
    r = ctx.rng
    L = []
    for ch in range(256):
        L.append('codec.class %d' % ch)
    # kanji encoder over the whole BMP (+ a few beyond), decoder over all 13-bit codes
    step = 1 if ctx.tier == 'thorough' else 1
    for cp in range(0, 0x10000, step):
        L.append('codec.kanji.rune %d' % cp)
    for cp in (0x10000, 0x1F600, 0x10FFFF, 0x110000):
        L.append('codec.kanji.rune %d' % cp)
    for code in range(8192):
        L.append('codec.dec.kanji 1 %s' % pack(bits_of(code, 13)).hex())
    # numeric: every group
    for v in range(1024):
        L.append('codec.dec.num 3 %s' % pack(bits_of(v, 10)).hex())
    for v in range(128):
        L.append('codec.dec.num 2 %s' % pack(bits_of(v, 7)).hex())
    for v in range(16):
        L.append('codec.dec.num 1 %s' % pack(bits_of(v, 4)).hex())
    for v in range(1000):
        L.append('codec.enc.num %s' % hx(b'%03d' % v))
    for v in range(2048):
        L.append('codec.dec.alnum 2 %s' % pack(bits_of(v, 11)).hex())
    for v in range(64):
        L.append('codec.dec.alnum 1 %s' % pack(bits_of(v, 6)).hex())
    for a in ALNUM:
        L.append('codec.enc.alnum %s' % hx(bytes([a])))
        for b in ALNUM:
            L.append('codec.enc.alnum %s' % hx(bytes([a, b])))
    for v in range(256):
        L.append('codec.enc.bytes %02x' % v)
        L.append('codec.enc.num %02x' % v)
        L.append('codec.enc.alnum %02x' % v)
        L.append('codec.dec.bytes 1 %02x' % v)
    # random strings and round trips per mode, every remainder class, invalid characters
    kan = [chr(c) for c in sorted(REF_INV)]
    n = 300 if ctx.tier == 'quick' else 6000
    for i in range(n):
        ln = r.range(0, 40)
        s = bytes(r.choice(b'0123456789') for _ in range(ln))
        L.append('codec.enc.num %s' % hx(s))
        L.append('codec.dec.num %d %s' % (ln, hx(pack(enc_num(s.decode())) + r.bytes(r.below(2)))))
        s = bytes(r.choice(ALNUM) for _ in range(ln))
        L.append('codec.enc.alnum %s' % hx(s))
        L.append('codec.dec.alnum %d %s' % (ln, hx(pack(enc_alnum(s)))))
        s = r.bytes(ln)
        L.append('codec.enc.bytes %s' % hx(s))
        L.append('codec.dec.bytes %d %s' % (ln + r.below(3), hx(s)))      # incl. count beyond the data
        ks = ''.join(r.choice(kan) for _ in range(r.range(0, 12)))
        L.append('codec.enc.kanji %s' % hx(ks.encode()))
        codes = [REF_INV[ord(c)] for c in ks]
        L.append('codec.dec.kanji %d %s' % (len(codes), hx(pack([b for c in codes for b in bits_of(c, 13)]))))
        # one bad character somewhere
        if ln:
            pos = r.choice([0, ln // 2, ln - 1])
            bad = bytearray(bytes(r.choice(b'0123456789') for _ in range(ln)))
            bad[pos] = r.choice(b'/:aA \x00\xff')
            L.append('codec.enc.num %s' % hx(bytes(bad)))
            bad = bytearray(bytes(r.choice(ALNUM) for _ in range(ln)))
            bad[pos] = r.choice(b'az#!\x00\xff,;')
            L.append('codec.enc.alnum %s' % hx(bytes(bad)))
        mixed = (ks + r.choice(['a', 'é', '丂', '\U0001F600', ''])).encode() + r.choice([b'', b'\xe3', b'\xe3\x81', b'\xff', b'\x80'])
        L.append('codec.enc.kanji %s' % hx(mixed))
        # truncated / overlong streams
        L.append('codec.dec.num %d %s' % (r.range(1, 12), hx(r.bytes(r.range(0, 4)))))
        L.append('codec.dec.alnum %d %s' % (r.range(1, 12), hx(r.bytes(r.range(0, 4)))))
        L.append('codec.dec.kanji %d %s' % (r.range(1, 4), hx(r.bytes(r.range(0, 5)))))
    return L


def oracle(ctx, lines, out):
    v = []
    for l, o in zip(lines, out):
        e = expect(l)
        if e is None:
            continue
        oc = 'err' if o.startswith('err') else o
        if oc != e:
            t = l.split()
            if t[0] == 'codec.dec.kanji' and e == 'err' and oc.startswith('ok'):
                bits = ''.join(format(c, '08b') for c in bytes.fromhex(t[2])) if t[2] != '-' else ''
                key = 'dec.kanji:unassigned-code-accepted'
                detail = 'DecodeKanji accepts a 13-bit code with no assigned character (first code %s) and returns `%s`' % (int(bits[:13], 2) if len(bits) >= 13 else '?', oc)
            else:
                key = t[0] + ':' + ('reject' if e == 'err' else 'value')
                detail = '%s: implementation `%s`, standard `%s`' % (l[:120], oc[:120], e[:120])
            v.append({'key': key, 'lines': [l], 'expect': e, 'got': o, 'detail': detail})
    # report at most 30 per key, first ones
    seen, res = {}, []
    for x in v:
        seen[x['key']] = seen.get(x['key'], 0) + 1
        if seen[x['key']] <= 3:
            x['detail'] += '' if seen[x['key']] > 1 else ' (%d such cases in this run)' % sum(1 for y in v if y['key'] == x['key'])
            res.append(x)
    return res


def nontrivial(line, out):
    return not line.startswith('codec.class')


def search(ctx, broken, diffs):
    return []
