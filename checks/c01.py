"""C01 — encode/decode round trip is the identity (QR, Micro QR, rMQR)."""
from checks import symgen

ID = 'C01'
PROP_MODULES = ['QRV.Props.C01', 'QRV.Props.C01RMQR', 'QRV.Props.C01Micro', 'QRV.Props.C01MicroWeak']
RULE = ('every (version, level) pair of the three symbologies (160 + 8 + 64) with explicit masks rotating with the seed and automatic masking, x structured segment '
        'lists: exact-capacity fills with 0-9 spare bits (every terminator / pad-alignment case), fills whose terminator ends on a codeword boundary, maximum '
        'character counts per mode, single-mode maxima and maxima-1, mixed-mode lists, mode changes at v9/10 and v26/27, Micro QR M1/M3 half-codeword symbols. '
        'Each description is encoded by the implementation, the bitmap decoded by the implementation and compared with the description; both steps are also run '
        'on the Lean model (correspondence). non-trivial = a description with at least one non-empty segment; distinct = distinct descriptions')
TRUSTED = [
    'Lean 4.33.0 kernel; axioms per theorem as listed',
    'Model/QR.lean, Model/Micro.lean, Model/RMQR.lean (+ Sym, Codec, Bits, Bitmap, RS): hand transcriptions tied by differential runs on generated descriptions',
    'generators use the reference capacity tables of checks/refqr.py, refmicro.py (independent) and, for rMQR, the regenerated tables',
]
ASSUMPTIONS = []
PARTIAL = ('none for the models: roundtrip_QR, roundtrip_Micro and roundtrip_RMQR are proved in full for every valid description (unbounded payloads, all 160 + 8 + 64 (version, level) pairs, explicit and automatic masks); '
           'Micro QR needs the property\'s non-emptiness hypothesis (an empty numeric segment reads as the terminator, M4 drops empty segments); the tie of the models to the Go code is the differential round trip')
MANIFEST = {
    'technique': 'Lean 4: full round-trip theorems for QR, Micro QR and rMQR (stream layout/parse, block split/interleave inverse, placement walk, format, mask involution, clean RS blocks) from generic lemmas + kernel-evaluated per-version facts; differential round trips for all three symbologies',
    'text': ('QRV/Props/C01.lean proves roundtrip_QR: for the function-for-function model of the QR encoder and decoder, EVERY valid description (Spec.Valid: versions 1-40, four levels, '
             'explicit or automatic mask, any list of segments valid for their modes whose standard bit length fits) encodes successfully and decodes to the same version, level, mask and '
             'segments - by composing proved components: the stream is the standard\'s and parses back (C16/C17), blocks split/interleave and de-interleave inversely, encoder and decoder walks '
             'visit the same modules (generic walk lemma + kernel-evaluated fuel/length facts for all 40 versions), format information reads back (C11), masking is an involution on data modules '
             '(C18), clean blocks pass the RS decoder (C14). C01RMQR.lean proves roundtrip_RMQR the same way for all 32 rMQR versions and both levels (the walk skips column 1, so for 11 versions the last codeword is placed incomplete; the proof lets the last codeword read back be arbitrary and uses the decoder completeness theorem of C14 to restore it). C01Micro.lean proves roundtrip_Micro for M1-M4 incl. the 4-bit final data codeword of M1/M3 (skipped stream bits on both sides) under the non-emptiness hypothesis of the property. All three symbologies are exercised by differential round trips over every '
             '(version, level) pair, masks and structured payloads, on implementation and model.'),
    'note': 'Trusted: Lean kernel; hand-written symbol models tied by correspondence on generated descriptions; ',
}


def budget(ctx):
    return {'quick': 2, 'thorough': 24}[ctx.tier]


def gen(ctx):
    r = ctx.rng
    meta = []
    enc = []
    for sym in ('qr', 'mq', 'rm'):
        ms = symgen.masks(sym)
        for ci, (ver, level) in enumerate(symgen.configs(sym)):
            shapes = symgen.shapes(sym, r, ver, level, budget(ctx))
            for si, (label, segs) in enumerate(shapes):
                if sym == 'rm':
                    mask = 0
                elif ctx.tier == 'thorough' and si < len(ms):
                    mask = ms[si]
                elif (ci + si + ctx.seed) % 7 == 0:
                    mask = -1
                else:
                    mask = ms[(ci + si + ctx.seed) % len(ms)]
                enc.append(symgen.enc_line(sym, ver, level, mask, segs))
                meta.append((sym, ver, level, mask, segs, label))
    # the end of the bit stream in every relative position to the capacity (shared with C02)
    for t in symgen.tail_corpus(r, ctx.tier == 'quick'):
        enc.append(symgen.enc_line(t[0], t[1], t[2], t[3], t[4]))
        meta.append(t)
    out = ctx.go(enc)
    dec = []
    for (sym, *_), o in zip(meta, out):
        dec.append('%s.dec %s' % (sym, o[3:]) if o.startswith('ok ') else '%s.dec 0,0,0,0,0:-' % sym)
    ctx.c01 = {'meta': meta, 'n': len(enc)}
    return enc + dec


def oracle(ctx, lines, out):
    meta, n = ctx.c01['meta'], ctx.c01['n']
    v = []
    cnt = {}
    for i, (sym, ver, level, mask, segs, label) in enumerate(meta):
        eo, do = out[i], out[n + i]
        key = None
        if not eo.startswith('ok '):
            key = '%s:encode-refused:%s' % (sym, label.split('-')[-1] if label.startswith('max') else 'x')
            detail = '%s v%d l%d mask %d [%s]: a valid description is refused by the encoder (%s)' % (sym, ver, level, mask, symgen.show_segs(segs), eo[:80])
        else:
            d = symgen.parse_desc(do)
            if d is None:
                key = '%s:decode-failed' % sym
                detail = '%s v%d l%d mask %d [%s]: decoding the encoder\'s own output gives `%s`' % (sym, ver, level, mask, symgen.show_segs(segs), do[:80])
            else:
                dv, dl, dm, dsegs = d
                if (dv, dl) != (ver, level) or dsegs != [(m, bytes(b)) for m, b in segs] or (sym != 'rm' and mask >= 0 and dm != mask):
                    key = '%s:roundtrip-differs' % sym
                    detail = '%s v%d l%d mask %d [%s] decodes to v%d l%d mask %d [%s]' % (sym, ver, level, mask, symgen.show_segs(segs), dv, dl, dm, symgen.show_segs(dsegs))
        if key:
            cnt[key] = cnt.get(key, 0) + 1
            if cnt[key] <= 3:
                v.append({'key': key, 'lines': [lines[i]], 'expect': 'round trip', 'got': do[:200], 'detail': detail})
    for x in v:
        x['detail'] += ' (%d such cases in this run)' % cnt[x['key']]
    return v


def replay_extra(ctx, r):
    # a replayed encode line is re-encoded, decoded and compared
    res = []
    for l in r['lines']:
        sym = l.split('.')[0]
        o = ctx.go([l], nproc=1)[0]
        if o.startswith('ok '):
            d = ctx.go(['%s.dec %s' % (sym, o[3:])], nproc=1)[0]
            print('    decode -> %s' % d[:200])
            t = l.split()
            body = t[3:] if sym == 'rm' else t[4:]
            want = ' '.join(body)
            got = ' '.join(d.split()[4:]) if d.startswith('ok ') else None
            if got != want:
                res.append({'key': r.get('key', 'roundtrip'), 'detail': 'round trip differs: %s vs %s' % (want[:100], str(got)[:100])})
        else:
            res.append({'key': r.get('key', 'encode'), 'detail': 'encoder refuses: ' + o[:100]})
    return res


def nontrivial(line, out):
    return '.enc ' in line and not line.rstrip().endswith(' 0')


def search(ctx, broken, diffs):
    return []
