"""C12 — rendered images are a faithful enlargement of the module bitmap."""
from fractions import Fraction
from checks import symgen, refqr

ID = 'C12'
PROP_MODULES = ['QRV.Props.C12', 'QRV.Props.C08Entry']
RULE = ('payloads of every mode mix x levels x quiet zone 0..8 x module size in [1, 8] (integers, k/64 fractions exact in float64, decimals for which float64 and exact arithmetic '
        'agree on the ceiling; the others are dropped and counted) x width in {0} u [1, 1000], three packages. Oracle (exact rational arithmetic in python): image width = '
        'max(ceil((n+2q)s), width), square for QR / Micro QR, height ceil(h W / w) for rMQR; every destination pixel whose source interval lies inside one module on both axes is '
        'exactly 0 or 255 as that module (white in the quiet zone); every other pixel lies between the extremes of the modules it overlaps; the image is grey and opaque. '
        'The size arithmetic is also compared with the Lean model. non-trivial = at least one fractional (mixed) pixel column; distinct = distinct option sets')
TRUSTED = [
    'Lean 4.33.0 kernel; axioms per theorem as listed',
    'the area-average resampler and the sRGB tone encoder live in the go-imaging dependency, not in /repo: they are exercised, not modelled',
    'python oracle with exact rationals',
]
ASSUMPTIONS = ['module sizes are restricted to values exact in float64 whose product with the source width has the same ceiling in float64 and in exact arithmetic']
PARTIAL = 'only the size arithmetic and the quiet-zone copy are code of /repo and are modelled/proved; pixel purity and between-ness of the third-party resampler are checked on the output'
MANIFEST = {
    'technique': 'Lean 4: size arithmetic and quiet-zone copy of Encode as theorems (ceiling, max, white border); pixel-level faithfulness of the third-party resampler by exact-rational oracle on the output',
    'text': ('Props/C12.lean proves the part of Encode that is code of /repo: the output width is max(ceil((n+2q)s), width) and at least (n+2q)s, the rMQR height keeps the aspect ratio '
             'up to rounding, and the intermediate image is the symbol surrounded by q white modules. The area-average resampler and tone encoder are a third-party dependency; '
             'that pure pixels are exact and mixed pixels lie between the overlapped modules is checked on the real output with exact rational arithmetic for every generated option set.'),
    'note': 'Trusted: Lean kernel; the go-imaging resampler is NOT modelled (runtime check only); option sets where float64 and exact ceilings differ are excluded and counted.',
}

LEVELS = {'qr': [0, 1, 2, 3], 'mq': [0, 1, 2, 3], 'rm': [0, 1]}


def fceil_agrees(w, s):
    import math
    return math.ceil(float(w) * float(s)) == -((-w * s.numerator) // s.denominator)


def gen(ctx):
    r = ctx.rng
    L, meta = [], []
    n = 40 if ctx.tier == 'quick' else 600
    sizes = [Fraction(1), Fraction(2), Fraction(3), Fraction(8), Fraction(3, 2), Fraction(5, 4), Fraction(65, 64), Fraction(511, 64), Fraction(7, 3), Fraction(33, 10), Fraction(101, 100)]
    dropped = 0
    for i in range(n):
        sym = ('qr', 'mq', 'rm')[i % 3]
        p = [b'1', b'HELLO', b'hello world', '点茗'.encode(), b'12345678', b'A1'][r.below(6)]
        if sym == 'mq':
            p = p[:5] if not p.startswith(b'\xe7') else p
        level = LEVELS[sym][r.below(len(LEVELS[sym]))]
        q = r.range(0, 8)
        s = r.choice(sizes) if r.chance(2, 3) else Fraction(r.range(64, 512), 64)
        width = r.choice([0, 0, 0, 1, 50, 100, 200, 333, 1000]) if ctx.tier == 'thorough' else r.choice([0, 0, 1, 60, 150])
        meta.append((sym, level, q, s, width, p))
        L.append('render %s %d 1 %d %d %d %d %s' % (sym, level, q, s.numerator, s.denominator, width, p.hex()))
    # deterministic corpus: every quiet zone 0..8 at module size 1 and 3/2, and a scan of requested widths just above the
    # natural size (the width option wins; rounding classes of the float arithmetic), smallest symbol of every package
    for sym in ('qr', 'mq', 'rm'):
        p = b'1'
        level = {'qr': 1, 'mq': 2, 'rm': 0}[sym]
        nat = {'qr': 21, 'mq': 11, 'rm': 43}[sym]
        for q in range(0, 9):
            for s in (Fraction(1), Fraction(3, 2)):
                meta.append((sym, level, q, s, 0, p))
        for q in (0, 4) if ctx.tier == 'quick' else (0, 1, 2, 3, 4):
            w = nat + 2 * q
            for width in list(range(w + 1, w + (70 if ctx.tier == 'quick' else 300))):
                meta.append((sym, level, q, Fraction(1), width, p))
        # requested widths around the scaled size when the product (n+2q)*s is fractional: floor-1, floor, ceiling, ceiling+1
        # (the width option and the module size interact exactly at floor / ceiling)
        for q in (0, 2, 4):
            w = nat + 2 * q
            for s in (Fraction(3, 2), Fraction(5, 2), Fraction(5, 4), Fraction(13, 10), Fraction(7, 3), Fraction(65, 64)):
                prod = w * s
                if prod.denominator == 1 or not fceil_agrees(w, s):
                    continue
                fl = prod.numerator // prod.denominator
                for width in (fl - 1, fl, fl + 1, fl + 2):
                    meta.append((sym, level, q, s, width, p))
    scan_from = n + 3 * 18
    # rMQR, non-square: requested widths W for which the proportional height h*W/w is an EXACT integer although W is not a
    # multiple of the padded width - the cases in which the order of the floating-point operations decides whether the
    # ceiling adds a row.  Versions are reached through payload lengths (New picks them), learnt from the implementation.
    from checks import refrmqr
    digs = [1, 12, 30, 60, 90, 130, 180, 250, 330]
    vout = ctx.go(['rm.new 0 0 1 %s' % (b'1' * k).hex() for k in digs])
    for k, o in zip(digs, vout):
        d = o.split()
        if d[0] != 'ok':
            continue
        hh, ww = refrmqr.SIZES[int(d[1])]
        for q in (0, 1, 2, 3, 4):
            wq, hq = ww + 2 * q, hh + 2 * q
            cands = [W for W in range(wq + 1, 1001) if (hq * W) % wq == 0 and W % wq != 0]
            pick = cands[:2] + [r.choice(cands) for _ in range(2 if ctx.tier == 'quick' else 8)] if cands else []
            for W in sorted(set(pick)):
                meta.append(('rm', 0, q, Fraction(1), W, b'1' * k))
    n2 = len(meta)
    # no options at all: the documented defaults (module size 1; quiet zone 4 for QR and Micro QR, 2 for rMQR)
    for sym in ('qr', 'mq', 'rm'):
        for p in (b'1', b'HELLO', b'hello world 123'):
            if sym == 'mq':
                p = p[:5]
            meta.append((sym, -1, {'qr': 4, 'mq': 4, 'rm': 2}[sym], Fraction(1), 0, p))
    for (sym, level, q, s, width, p) in meta[n:n2]:
        L.append('render %s %d 1 %d %d %d %d %s' % (sym, level, q, s.numerator, s.denominator, width, p.hex()))
    for (sym, level, q, s, width, p) in meta[n2:]:
        L.append('render.default %s %s' % (sym, p.hex()))
    ctx.c12 = {'meta': meta, 'dropped': 0, 'scan_from': scan_from}
    return L


def model_line(l):
    return False


def oracle(ctx, lines, out):
    v, cnt = [], {}
    dims_lines, dims_expect = [], []

    def add(key, i, detail):
        cnt[key] = cnt.get(key, 0) + 1
        if cnt[key] <= 2:
            v.append({'key': key, 'lines': [lines[i]], 'expect': '', 'got': out[i][:80], 'detail': detail})
    for i, (sym, level, q, s, width, p) in enumerate(ctx.c12['meta']):
        o = out[i]
        if o.startswith('err'):
            continue
        if o.startswith('wrapper-differs'):
            add('%s:wrapper' % sym, i, 'the package-level wrapper disagrees with the method it wraps: %s (%s)' % (o, lines[i][:80]))
            continue
        if not o.startswith('ok '):
            add('%s:render-%s' % (sym, o.split()[0]), i, 'Encode %s on %s' % (o.split()[0], lines[i][:80]))
            continue
        head, bmp = o.split(' | ')
        t = head.split()
        W, H, gray, px = int(t[1]), int(t[2]), t[3] == 'true', bytes.fromhex(t[4]) if len(t) > 4 else b''
        m = refqr.from_image_str(bmp)
        nh, nw = len(m), len(m[0])
        w, h = nw + 2 * q, nh + 2 * q
        if not fceil_agrees(w, s):
            ctx.c12['dropped'] += 1
            continue
        eW = max(-((-w * s.numerator) // s.denominator), width)
        eH = eW if sym != 'rm' else -((-h * eW) // w)
        dims_lines.append('render.dims %d %d %d %d %d %d' % (nw, nh, q, s.numerator, s.denominator, width))
        dims_expect.append('ok %d %d' % (W, H))
        if (W, H) != (eW, eH):
            add('%s:dimensions' % sym, i, '%s Encode(q=%d, s=%s, width=%d) on a %dx%d symbol returns %dx%d, expected %dx%d' % (sym, q, s, width, nw, nh, W, H, eW, eH))
            continue
        if not gray:
            add('%s:not-grey' % sym, i, 'image is not grey/opaque')
        if i >= ctx.c12.get('scan_from', 1 << 60) and i % 8:
            continue   # width scan: dimensions on every line, the pixel-level check on every 8th

        def src(x, y):
            mx, my = x - q, y - q
            return 0 if (0 <= mx < nw and 0 <= my < nh and m[my][mx]) else 255
        # source intervals per destination column / row
        def spans(D, S):
            res = []
            for X in range(D):
                lo = Fraction(X * S, D)
                hi = Fraction((X + 1) * S, D)
                a = lo.numerator // lo.denominator
                b = -((-hi.numerator) // hi.denominator) - 1
                res.append((a, min(b, S - 1)))
            return res
        cols, rows = spans(W, w), spans(H, h)
        bad = None
        for Y, (ya, yb) in enumerate(rows):
            for X, (xa, xb) in enumerate(cols):
                vals = {src(x, y) for x in range(xa, xb + 1) for y in range(ya, yb + 1)}
                g = px[Y * W + X]
                if len(vals) == 1:
                    if g != next(iter(vals)):
                        bad = ('pure', X, Y, g, vals)
                        break
                elif not (min(vals) <= g <= max(vals)):
                    bad = ('mixed', X, Y, g, vals)
                    break
            if bad:
                break
        if bad:
            add('%s:pixel-%s' % (sym, bad[0]), i, '%s Encode(q=%d, s=%s, width=%d): pixel (%d,%d) = %d but the modules it covers are %s' % (sym, q, s, width, bad[1], bad[2], bad[3], sorted(bad[4])))
    if ctx.driver and dims_lines:
        mo = ctx.lean(dims_lines)
        for l, a, b in zip(dims_lines, mo, dims_expect):
            if a != b:
                add('model-dims', 0, 'Lean model of the size arithmetic gives %s, implementation %s on %s' % (a, b, l))
    for x in v:
        x['detail'] += ' (%d such cases in this run)' % cnt[x['key']]
    return v


def extra(ctx):
    return {'violations': [], 'evaluations': 0, 'notes': {'option_sets_dropped_because_float_and_exact_ceiling_differ': ctx.c12.get('dropped', 0)}}


def nontrivial(line, out):
    t = line.split()
    if t[0] == 'render.default':
        return True
    return int(t[6]) != 1 or int(t[7]) != 0


def search(ctx, broken, diffs):
    return []
