"""C08 — encoders accept exactly the valid symbol descriptions and never panic."""
from checks import symgen

ID = 'C08'
PROP_MODULES = ['QRV.Props.C08', 'QRV.Props.C08Entry', 'QRV.Props.C08Ext', 'QRV.Props.C08RMQR', 'QRV.Props.C08Micro']
RULE = ('descriptions over the full field ranges: Version/Level/Mask in {min-2..max+2, large, negative large}, every (version, level) pair, segment modes sampled over 0..255 (all '
        'supported ones, their neighbours, reserved QR modes), payloads at max-1 / max / max+1 characters of every (version, level, mode) capacity and of every count-field '
        'limit (2^bits-1, 2^bits), invalid characters at first/last position, invalid UTF-8 in kanji segments, empty segment lists and empty segments. '
        'The image method (*QRCode).Encode is run on the same descriptions (quiet zone 0, module size 1) and must agree with EncodeToBitmap on acceptance and on every module. Oracle: implementation succeeds iff the reference validity predicate (written from the standard) holds, and never panics; also run on the Lean model. '
        'non-trivial = description that is valid, or invalid in exactly one respect (every description is generated that way, so all distinct ones count)')
TRUSTED = [
    'Lean 4.33.0 kernel; axioms per theorem as listed',
    'reference validity predicates refqr.valid / refmicro.valid / refrmqr.valid (rMQR capacities and count widths are read from the regenerated tables)',
    'symbol models tied by correspondence',
]
ASSUMPTIONS = []
PARTIAL = 'none for the models: accepted exactly when valid, and never a panic, are theorems for all three encoders (qr_/micro_/rmqr_encode_ok_iff_valid, *_encode_no_panic); the image method Encode (rendering on top of EncodeToBitmap) is not modelled: it is run on the same descriptions and must accept exactly what EncodeToBitmap accepts without panicking'
MANIFEST = {
    'technique': 'Lean 4: encode_ok_iff_valid and no-panic for the QR encoder model (error-or-valid lemma + round-trip theorem), error-or-valid for Micro QR / rMQR; differential runs over the full field ranges against a reference validity predicate',
    'text': ('QRV/Props/C08.lean proves for the QR encoder model: it succeeds exactly on the descriptions that are valid by the standard (Spec.Valid: fields in range, supported modes, characters valid '
             'for the mode incl. well-formed UTF-8 of kanji-representable characters, count representable, total bits within the capacity of Table 9) and never panics for any field values or byte contents. '
             'For Micro QR and rMQR Props/C08Ext.lean proves that whatever the encoder does not answer with an error is valid (Spec.Valid.Micro / RMQR: legal version-level pair, modes of the version, characters, counts, capacity); '
             'for rMQR Props/C08RMQR.lean combines this with the round-trip theorem: accepted exactly when valid, never a panic. Props/C08Micro.lean does the same for Micro QR (micro_valid_accepted from C01Micro). The accept/reject boundary is additionally exercised at every (version, level, mode) capacity and count limit against an independent validity predicate, on implementation and model.'),
    'note': 'Trusted: Lean kernel; symbol models tied by correspondence; python validity predicates (rMQR capacities/count widths from the regenerated tables).',
}

FIELD_RANGES = {
    'qr': {'ver': [-(1 << 40), -1, 0, 1, 2, 9, 10, 26, 27, 39, 40, 41, 42, 1000, 1 << 40], 'lvl': [-(1 << 33), -2, -1, 0, 1, 2, 3, 4, 5, 1 << 33], 'mask': [-(1 << 33), -3, -2, -1, 0, 1, 6, 7, 8, 9, 16, 255, 1 << 33]},
    'mq': {'ver': [-(1 << 40), -1, 0, 1, 2, 3, 4, 5, 6, 1000], 'lvl': [-(1 << 33), -2, -1, 0, 1, 2, 3, 4, 5, 1 << 33], 'mask': [-(1 << 33), -3, -2, -1, 0, 1, 2, 3, 4, 5, 7, 255, 1 << 33]},
    'rm': {'ver': [-(1 << 40), -2, -1, 0, 1, 15, 16, 30, 31, 32, 33, 63, 64, 1000], 'lvl': [-(1 << 33), -2, -1, 0, 1, 2, 3, 1 << 33], 'mask': [0]},
}


def gen(ctx):
    r = ctx.rng
    L, meta = [], []

    def add(sym, ver, level, mask, segs, tag):
        L.append(symgen.enc_line(sym, ver, level, mask, segs))
        meta.append((sym, ver, level, mask, segs, tag))
    for sym in ('qr', 'mq', 'rm'):
        ref = symgen.ref(sym)
        fr = FIELD_RANGES[sym]
        cfgs = symgen.configs(sym)
        # field ranges, with no / one small valid segment
        for ver in fr['ver']:
            for level in fr['lvl']:
                for mask in (fr['mask'] if (ver, level) in cfgs or r.chance(1, 4) else [fr['mask'][0], -1 if sym != 'rm' else 0]):
                    add(sym, ver, level, mask, [], 'fields')
                    if r.chance(1, 2):
                        add(sym, ver, level, mask, [(ref.MODE['num'], b'1')], 'fields')
        for (ver, level) in cfgs:
            for mask in fr['mask']:
                if r.chance(1, 3) or mask in (-2, -1, 0) or mask == symgen.masks(sym)[-1] + 1:
                    add(sym, ver, level, mask, [(ref.MODE['num'], b'12')], 'mask')
        # modes
        for (ver, level) in [cfgs[0], cfgs[len(cfgs) // 2], cfgs[-1]]:
            for mode in list(range(0, 17)) + [0x7f, 0x80, 0xff]:
                for data in (b'', b'1', b'A', b'\xe6\x97\xa5'):
                    add(sym, ver, level, 0, [(mode, data)], 'mode')
        # capacity boundaries per (version, level, mode): max-1, max, max+1 characters; count-field limits
        per = 1 if ctx.tier == 'quick' else 3
        for (ver, level) in cfgs:
            for k in symgen.kinds_for(sym, ver):
                n = symgen.fit_single(sym, ver, level, k, 0)
                if n is None:
                    continue
                mc = symgen.max_count(sym, k, ver, level)
                for nn in sorted({max(0, n - 1), n, n + 1, mc, mc + 1}):
                    if nn > 8000:
                        continue
                    for _ in range(per):
                        add(sym, ver, level, 0, [(ref.MODE[k], symgen.payload(r, k, nn))], 'boundary')
            # two segments straddling the capacity
            for _ in range(per):
                segs = symgen.random_segs(sym, r, ver, level, nonempty=False)
                add(sym, ver, level, 0 if sym == 'rm' else -1, segs, 'mixed')
                if segs:
                    k = r.choice(symgen.kinds_for(sym, ver))
                    add(sym, ver, level, 0, segs + [(ref.MODE[k], symgen.payload(r, k, r.range(1, 30)))], 'mixed+')
        # invalid characters
        for (ver, level) in [cfgs[len(cfgs) // 3], cfgs[-1]]:
            for k in symgen.kinds_for(sym, ver):
                for pos in ('first', 'last'):
                    good = symgen.payload(r, k, 5)
                    bad = {'num': b'a', 'alnum': b'a', 'byte': b'\x00', 'kanji': r.choice([b'a', b'\xe3\x81', b'\xff', '丂'.encode(), b'\xf0\x9f\x98\x80'])}[k]
                    data = bad + good if pos == 'first' else good + bad
                    add(sym, ver, level, 0, [(ref.MODE[k], data)], 'badchar')
                # every position of every short length: the codecs treat the groups of 3 / 2 characters and the final group of
                # each remainder class separately, so an invalid character must be tried in each of them
                if k in ('num', 'alnum', 'byte'):
                    bads = {'num': [b'a', b':', b'\x00'], 'alnum': [b'a', b'\x00', b'#'], 'byte': []}[k]
                    for n in range(1, 8):
                        for at in range(n):
                            for bad in bads:
                                good = symgen.payload(r, k, n)
                                add(sym, ver, level, 0, [(ref.MODE[k], good[:at] + bad + good[at + 1:])], 'badchar')
    # the image method (*QRCode).Encode on the same hand-built descriptions: it must accept exactly what EncodeToBitmap
    # accepts, never panic, and at quiet zone 0 / module size 1 be the bitmap itself (implementation only)
    img = [i for i, m in enumerate(meta) if m[5] in ('fields', 'mask', 'mode', 'badchar') or i % (4 if ctx.tier == 'quick' else 2) == 0]
    for i in img:
        L.append(L[i].replace('.enc ', '.encimg ', 1))
    ctx.c08 = meta
    ctx.c08img = img
    return L


def model_line(l):
    return '.encimg ' not in l


def oracle(ctx, lines, out):
    meta = ctx.c08
    v, cnt = [], {}
    for i, (sym, ver, level, mask, segs, tag) in enumerate(meta):
        o = out[i]
        want = symgen.ref(sym).valid(ver, level, mask, segs)
        key = None
        if o.startswith('panic'):
            what = 'mask' if not (-1 <= mask <= symgen.masks(sym)[-1]) else ('version' if (ver, level) not in symgen.configs(sym) else 'other')
            key = '%s:panic:%s' % (sym, what)
            detail = '%s EncodeToBitmap panics on Version=%d Level=%d Mask=%d Segments=[%s]' % (sym, ver, level, mask, symgen.show_segs(segs))
        elif o.startswith('ok') and not want:
            key = '%s:accepts-invalid:%s' % (sym, tag)
            detail = '%s accepts an invalid description: Version=%d Level=%d Mask=%d Segments=[%s]' % (sym, ver, level, mask, symgen.show_segs(segs))
        elif not o.startswith('ok') and want:
            key = '%s:rejects-valid:%s' % (sym, tag)
            detail = '%s rejects a valid description (%s): Version=%d Level=%d Mask=%d Segments=[%s]' % (sym, o[:50], ver, level, mask, symgen.show_segs(segs))
        if key:
            cnt[key] = cnt.get(key, 0) + 1
            if cnt[key] <= 2:
                v.append({'key': key, 'lines': [lines[i]], 'expect': 'ok' if want else 'err', 'got': o[:100], 'detail': detail})
    for j, i in enumerate(ctx.c08img):
        (sym, ver, level, mask, segs, tag) = meta[i]
        o = out[len(meta) + j]
        if o in ('same ok', 'same err'):
            continue
        key = '%s:image-method:%s' % (sym, o.split()[0])
        cnt[key] = cnt.get(key, 0) + 1
        if cnt[key] <= 2:
            v.append({'key': key, 'lines': [lines[len(meta) + j]], 'expect': 'same', 'got': o[:100],
                      'detail': '%s (*QRCode).Encode %s where EncodeToBitmap answers %s: Version=%d Level=%d Mask=%d Segments=[%s]' % (
                          sym, 'panics' if o.startswith('panic') else 'answers "%s"' % o[:80], out[i][:20], ver, level, mask, symgen.show_segs(segs))})
    for x in v:
        x['detail'] += ' (%d such cases in this run)' % cnt[x['key']]
    return v


def nontrivial(line, out):
    return True


def search(ctx, broken, diffs):
    return []
