"""C14 — Reed-Solomon decoder is a correct and sound bounded-distance decoder."""
from checks import gf256

ID = 'C14'
PROP_MODULES = ['QRV.Props.C14', 'QRV.Props.C14Complete']
RULE = ('for every parity length n in 2..68 and codeword lengths n+1..255 (short, mid, full): a codeword from the reference encoder damaged in e positions, '
        'e in {0, 1, floor(n/4), floor(n/2)} (must be restored exactly) and e in {floor(n/2)+1, .., n, random} (success only with a codeword within floor(n/2) of the input); '
        'damage at first/last/parity/random positions, any non-zero error values; plus arbitrary words, all-zero words, twoS in {-1,0,1}, data shorter than twoS. '
        'Implementation compared with the Lean model (correspondence) and with a python reference (syndromes over GF(256)/0x11D); '
        'non-trivial = at least one damaged position')
TRUSTED = [
    'Lean 4.33.0 kernel; axioms per theorem as listed',
    'Model/RS.lean decode/euclid/Chien/Forney: hand transcription of reedsolomon.go and poly.go (value-level: slice aliasing inside poly.go is only visible to the differential run)',
    'python GF/RS reference in checks/gf256.py',
]
ASSUMPTIONS = ['codeword length <= 255 (the decoder maps locators to positions through the discrete logarithm)']
MANIFEST = {
    'technique': 'Lean 4 proofs about a model of the Euclidean (Sugiyama) decoder: no panic incl. termination, soundness, distance bound, and COMPLETENESS (key equation, uniqueness, Chien, Forney) over a Mathlib Field instance; differential correspondence',
    'text': ('QRV/Props/C14.lean and C14Complete.lean prove for the model of reedsolomon.Decode/poly.go, for every parity length and every word: it never panics and every loop terminates; success implies all '
             'syndromes of the returned buffer are zero and at most floor(n/2) positions changed; a clean codeword is returned unchanged; and (dec_complete) every word within floor(n/2) of a '
             'codeword of length <= 255 is restored to exactly that codeword - Sugiyama\'s algorithm: key equation, Euclidean invariant, uniqueness of the solution, Chien search finds exactly the '
             'error locators, Forney gives the error values - plus the minimum distance n+1 of the code, and two corollaries: an error answer means no codeword of that length lies within floor(n/2) of the input (dec_err_far), and words within floor(n/2) of one codeword get one answer (dec_same_answer). The model is tied to the Go code by differential runs for every n with damage within and beyond capacity.'),
    'note': ('Trusted: Lean kernel; Mathlib (polynomial algebra over a Field instance built from the proved GF laws) in proof-only modules; hand-written Model/RS.lean tied by correspondence on generated words; '
             'aliasing inside poly.go (Add/MulElement mutate the receiver) is invisible to the value-level model and is guarded only by the differential run.'),
}


def damaged(r, cw, e, where):
    cw = bytearray(cw)
    n = len(cw)
    if where == 'first':
        pos = list(range(min(e, n)))
    elif where == 'last':
        pos = list(range(n - min(e, n), n))
    else:
        pos = list(range(n))
        r.shuffle(pos)
        pos = pos[:e]
    for p in pos:
        cw[p] ^= r.range(1, 255)
    return bytes(cw)


def gen(ctx):
    r = ctx.rng
    L = []
    reps = 1 if ctx.tier == 'quick' else 12
    for n in range(2, 69):
        t = n // 2
        for _ in range(reps):
            for ln in sorted({n + 1, min(255, n + r.range(2, 40)), r.range(n + 1, 255), 255}):
                msg = r.bytes(ln - n)
                cw = msg + gf256.parity(n, msg)
                es = sorted({0, 1, max(1, t // 2), t, t + 1, min(ln, t + 2), min(ln, n), min(ln, r.range(t + 1, max(t + 1, min(ln, 2 * n))))})
                for e in es:
                    if e > ln:
                        continue
                    for where in (['rand'] if e == 0 else ['rand', r.choice(['first', 'last'])]):
                        L.append('rs.dec %d %s' % (n, damaged(r, cw, e, where).hex()))
        # arbitrary / degenerate inputs
        L.append('rs.dec %d %s' % (n, r.bytes(r.range(1, 255)).hex()))
        L.append('rs.dec %d %s' % (n, bytes(r.range(1, 100)).hex()))
        L.append('rs.dec %d %s' % (n, r.bytes(r.range(1, n)).hex()))        # shorter than the parity
    # phantom locations: a word whose syndromes are those of errors at positions just in front of the block
    # (locator roots pointing at location len, len+1, ... up to 254): must be answered with an error, never a panic
    for n in range(2, 69):
        for _ in range(3 if ctx.tier == 'quick' else 30):
            ln = r.range(n + 1, 254)
            extra = r.range(1, min(3, 255 - ln))
            msg = bytes([r.range(1, 255)]) + r.bytes(ln + extra - 1 - n)
            cw = msg + gf256.parity(n, msg)          # codeword of length ln + extra with a non-zero first byte
            word = bytearray(cw[extra:])              # drop the first `extra` bytes: errors at locations >= ln
            for _ in range(r.below(max(1, n // 2))):  # plus some real errors inside
                word[r.below(len(word))] ^= r.range(1, 255)
            L.append('rs.dec %d %s' % (n, bytes(word).hex()))
    for twoS in (-1, 0, 1):
        L.append('rs.dec %d %s' % (twoS, r.bytes(10).hex()))
    L.append('rs.dec 4 -')
    return L


def classify(line):
    """returns (n, word, nearest codeword or None, e): e = damage w.r.t. the codeword the generator used is unknown here,
    so the oracle recomputes: does a codeword within floor(n/2) exist?  Only via the reference decoder idea: we use syndromes."""
    t = line.split()
    return int(t[1]), (bytes.fromhex(t[2]) if t[2] != '-' else b'')


def oracle(ctx, lines, out):
    v = []
    cnt = {}
    for l, o in zip(lines, out):
        n, word = classify(l)
        if o.startswith('panic'):
            if n >= 0:
                key = 'panic'
                detail = 'Decode panics on twoS=%d, %d-byte input %s' % (n, len(word), word.hex()[:60])
            else:
                continue  # negative twoS: make() panics; outside the property's domain (n in 2..68)
        elif o.startswith('timeout') or o.startswith('crash'):
            key = 'does-not-terminate'
            detail = 'Decode(n=%d) did not return (%s) on the %d-byte input %s' % (n, o.split()[0], len(word), word.hex()[:80])
        elif o.startswith('ok'):
            res = bytes.fromhex(o.split()[1]) if o.split()[1] != '-' else b''
            if n < 0:
                continue
            syn = gf256.syndromes(res, n)
            diff = sum(1 for a, b in zip(res, word) if a != b) + abs(len(res) - len(word))
            if any(syn):
                key = 'unsound:non-codeword'
                detail = 'Decode(n=%d) reports success but the buffer is not a codeword (%d non-zero syndromes), input %s' % (n, sum(1 for s in syn if s), word.hex()[:60])
            elif diff > n // 2:
                key = 'unsound:too-far'
                detail = 'Decode(n=%d) changed %d > %d positions' % (n, diff, n // 2)
            else:
                continue
        else:
            # an error answer is wrong iff a codeword within floor(n/2) exists; decide with the reference:
            cw = nearest_codeword(n, word)
            if cw is None:
                continue
            key = 'incomplete'
            detail = 'Decode(n=%d) fails although the %d-byte input is within %d of a codeword' % (n, len(word), n // 2)
        cnt[key] = cnt.get(key, 0) + 1
        if cnt[key] <= 3:
            v.append({'key': key, 'lines': [l], 'expect': '', 'got': o[:200], 'detail': detail})
    for x in v:
        x['detail'] += ' (%d such cases in this run)' % cnt[x['key']]
    # completeness: within-capacity words must decode to the unique codeword
    for l, o in zip(lines, out):
        n, word = classify(l)
        if n < 2 or not o.startswith('ok'):
            continue
    return v


def nearest_codeword(n, word):
    """reference bounded-distance decoder (Peterson-Gorenstein-Zierler via linear algebra over GF(256)):
    returns the codeword within floor(n/2) of word, or None"""
    if len(word) <= 0 or n < 2 or len(word) > 255:
        return None
    S = gf256.syndromes(word, n)
    if not any(S):
        return word
    t = n // 2
    L = len(word)
    for e in range(t, 0, -1):
        # solve for the locator sigma of degree e: sum_{j=1..e} sigma_j S_{i+e-j} = S_{i+e}, i = 0..e-1
        M = [[S[i + e - j] for j in range(1, e + 1)] + [S[i + e]] for i in range(e)]
        sol = solve(M, e)
        if sol is None:
            continue
        sigma = [1] + sol  # sigma(x) = 1 + s1 x + ... ; roots are X_k^{-1}
        locs = []
        for p in range(L):
            X = gf256.EXP[(L - 1 - p) % 255]
            Xi = gf256.inv(X)
            acc, xp = 0, 1
            for c in sigma:
                acc ^= gf256.mul(c, xp)
                xp = gf256.mul(xp, Xi)
            if acc == 0:
                locs.append(p)
        if len(locs) != e:
            return None
        # magnitudes: solve sum_k Y_k X_k^i = S_i for i < e
        Xs = [gf256.EXP[(L - 1 - p) % 255] for p in locs]
        M = [[pow_(X, i) for X in Xs] + [S[i]] for i in range(e)]
        Y = solve(M, e)
        if Y is None:
            return None
        cw = bytearray(word)
        for p, y in zip(locs, Y):
            cw[p] ^= y
        if any(gf256.syndromes(bytes(cw), n)):
            return None
        return bytes(cw)
    return None


def pow_(x, i):
    r = 1
    for _ in range(i):
        r = gf256.mul(r, x)
    return r


def solve(M, k):
    M = [row[:] for row in M]
    for c in range(k):
        p = next((r for r in range(c, k) if M[r][c]), None)
        if p is None:
            return None
        M[c], M[p] = M[p], M[c]
        iv = gf256.inv(M[c][c])
        M[c] = [gf256.mul(x, iv) for x in M[c]]
        for r in range(k):
            if r != c and M[r][c]:
                f = M[r][c]
                M[r] = [a ^ gf256.mul(f, b) for a, b in zip(M[r], M[c])]
    return [M[i][k] for i in range(k)]


def nontrivial(line, out):
    n, word = classify(line)
    return n >= 2 and any(gf256.syndromes(word, n))


def search(ctx, broken, diffs):
    return []
