"""C04 — New preserves the payload and produces valid segments."""
from checks import symgen, refqr

ID = 'C04'
NO_ESCALATE = True   # the thorough generator enumerates 2.7 million payloads (6 min): too slow for a quick run on a changed tree
PROP_MODULES = ['QRV.Props.C04', 'QRV.Props.C04Ext', 'QRV.Props.C04Ext2']
RULE = ('payloads over the alphabet {digit, alnum-only, lower-case byte, 2-byte non-kanji UTF-8, 3-byte kanji, 3-byte non-kanji, 4-byte UTF-8, truncated lead byte, stray continuation '
        'byte, NUL, 0xFF}: exhaustively up to length 4 (quick) / 5 (thorough) and random up to length 60, plus long digit / alphanumeric / kanji runs up to the symbol capacity; x all '
        'levels x kanji on/off x three packages (rMQR: three priorities). Oracle: concatenation of segment data = payload, no empty segment, bytes valid for the mode (reference '
        'predicates), kanji only if enabled, the description encodes at the returned version/level and decodes back to the same segments. Also run on the Lean model. '
        'non-trivial = accepted payload of length >= 2; distinct = distinct (package, options, payload)')
TRUSTED = [
    'Lean 4.33.0 kernel; axioms per theorem as listed',
    'models of newQR / newFromKanji (Model/New.lean) tied by correspondence',
    'reference validity predicates of checks/ref*.py',
]
ASSUMPTIONS = []
PARTIAL = ('the DP theorems carry the hypothesis payload length < 2^56 bytes (beyond about 1.9e17 bytes the capped costs saturate at the "infinite" constant and the statements are provably false of '
           'the model - a payload no machine holds); QR New is proved end to end (C04Ext: the returned description is Spec.Valid, kanji only if enabled, encodes and decodes back to the payload, never panics); C04Ext2 proves the same for the Micro QR and rMQR copies of New (micro_new_valid / _roundtrip / _no_panic, rmqr_new_valid / _roundtrip / _no_panic); that New leaves the caller\'s slice alone is a property of Go aliasing the functional model cannot express: exercised on every New line (the harness hands New a payload embedded in a sentinel-filled array and compares payload and surrounding spare capacity afterwards) and in the C09 histories')
MANIFEST = {
    'technique': 'Lean 4 invariants of the two mode-selection dynamic programmes (concatenation, non-empty, class validity incl. kanji, termination / no panic of the unbounded back-tracking loop), composed for QR New with calcVersion minimality and the round-trip theorem (New result is valid, encodes, decodes to the payload); exhaustive small-alphabet and random differential runs',
    'text': ('QRV/Props/C04.lean proves for the model of the mode-selection DPs (one model for the three textual copies, parameterised by header costs and mode numbers): the segments concatenate to the '
             'payload byte for byte, none is empty, every byte of a numeric / alphanumeric segment passes that mode\'s class test and only supported modes occur (payloads below 2^56 bytes), for the kanji '
             'variant that the back-tracking loop - unbounded in the Go code - terminates and never indexes out of range, and that QR New returns the requested level. QRV/Props/C04Ext.lean proves for QR New, kanji on or off: whatever it returns is a VALID description (Spec.Valid.QR: modes, per-mode bytes incl. whole kanji-representable UTF-8 characters, counts below the count-field limit - from the kernel-evaluated fact that a fitting segment never exceeds it -, total bits within capacity), '
             'has no kanji segment when kanji is off, concatenates to the payload, encodes without error and decodes back to the payload (via roundtrip_QR), and New never panics (payloads below 2^56 bytes; the unbounded statements are refuted formally). QRV/Props/C04Ext2.lean proves the same for the Micro QR and rMQR copies (the DP invariants generalised to any distinct mode list and header costs; Micro QR: fitting implies a representable count, every level has a legal version for the empty payload; rMQR: unknown priority is an error). In addition all three packages are exercised exhaustively over all strings up to length 3-4 over 14 byte classes and on random payloads, in all three packages.'),
    'note': 'Trusted: Lean kernel; Model/New.lean tied by correspondence (56k payloads, 0 disagreements); reference predicates.',
}

ALPHABET = [b'7', b'A', b'$', b'k', 'é'.encode(), '°'.encode(), 'П'.encode(), '点'.encode(), '丂'.encode(), '\U0001F600'.encode(), b'\xe3', b'\x81', b'\x00', b'\xff']
LEVELS = {'qr': [0, 1, 2, 3], 'mq': [0, 1, 2, 3], 'rm': [0, 1]}


def new_line(sym, level, kanji, prio, p):
    h = p.hex() if p else '-'
    if sym == 'rm':
        return 'rm.new %d %d %d %s' % (level, prio, kanji, h)
    return '%s.new %d %d %s' % (sym, level, kanji, h)


def gen(ctx):
    r = ctx.rng
    ps = [b'']
    maxlen = 3 if ctx.tier == 'quick' else 4
    frontier = [b'']
    for _ in range(maxlen):
        frontier = [p + a for p in frontier for a in ALPHABET]
        ps += frontier
    n = 400 if ctx.tier == 'quick' else 8000
    for _ in range(n):
        k = r.range(1, 60)
        ps.append(b''.join(r.choice(ALPHABET) if r.chance(1, 3) else symgen.payload(r, r.choice(symgen.KINDS), r.range(1, 6)) for _ in range(r.range(1, 8)))[:k * 3])
    # ill-formed UTF-8 that a hand-rolled decoder could take for a character: over-long forms (of ASCII, of two-byte kanji-mode
    # characters such as alpha / degree / Cyrillic, of three-byte characters), surrogates, code points above U+10FFFF, five-byte
    # forms, lone continuation bytes - alone, repeated and between real kanji / digits
    ill = [b'\xc0\x80', b'\xc1\xbf', b'\xe0\x80\x80', b'\xe0\x8e\xb1', b'\xe0\x82\xb0', b'\xe0\x90\x96', b'\xe0\x9f\xbf', b'\xf0\x80\x8e\xb1',
           b'\xf0\x8f\xbf\xbf', b'\xed\xa0\x80', b'\xed\xbf\xbf', b'\xf4\x90\x80\x80', b'\xf8\x88\x80\x80\x80', b'\x80', b'\xbf\xbf', b'\xe7\x82']
    kj = '点'.encode()
    for x in ill:
        ps += [x, x + x, x * 3, kj + x + kj, x + kj + kj, kj + kj + x, b'7' + x, x + b'7', x + 'α'.encode() + x, kj + x * 2 + kj + b'12']
    for kind in symgen.KINDS:
        for ln in (100, 1000, 3000, 7089, 7090, 4296, 4297, 2953, 2954, 1817, 1818):
            if ctx.tier == 'quick' and ln > 3000 and kind != 'num':
                continue
            ps.append(symgen.payload(r, kind, ln))
    L, meta = [], []
    force = set()
    # payloads at the byte capacity of the largest symbol on which the cost model of the mode selection and the true bit
    # lengths part company (incl. the byte-mode fallback of New): whatever New returns must encode and decode back
    for sym in ('qr', 'mq', 'rm'):
        for level, pl in symgen.rounding_adversarial(sym, ctx.tier == 'quick', ctx.seed):
            for kanji in (0, 1):
                force.add(len(L))
                L.append(new_line(sym, level, kanji, level % 3, pl))
                meta.append((sym, level, kanji, level % 3, pl))
    for i, p in enumerate(ps):
        for sym in ('qr', 'mq', 'rm'):
            if sym == 'mq' and len(p) > 40:
                continue
            if len(p) <= 4 or ctx.tier == 'thorough':
                combos = [(lv, k) for lv in LEVELS[sym] for k in (0, 1)]
            else:
                combos = [(LEVELS[sym][(i + ctx.seed) % len(LEVELS[sym])], i % 2)]
            for level, kanji in combos:
                prio = (i + level) % 3
                L.append(new_line(sym, level, kanji, prio, p))
                meta.append((sym, level, kanji, prio, p))
    out = ctx.go(L)
    # second phase: encode the returned description, decode the bitmap
    enc, idx = [], []
    for i, o in enumerate(out):
        d = symgen.parse_desc(o)
        if d is not None and (i in force or len(meta[i][4]) <= 4 or i % 3 == 0 or ctx.tier == 'thorough'):
            sym = meta[i][0]
            enc.append(symgen.enc_line(sym, d[0], d[1], d[2], d[3]))
            idx.append(i)
    eout = ctx.go(enc)
    dec = ['%s.dec %s' % (meta[i][0], o[3:]) if o.startswith('ok ') else 'qr.dec 0,0,0,0,0:-' for i, o in zip(idx, eout)]
    ctx.c04 = {'meta': meta, 'n': len(L), 'idx': idx}
    return L + enc + dec


def seg_ok(sym, mode, data):
    return symgen.ref(sym).seg_valid(mode, data)


def oracle(ctx, lines, out):
    meta, n, idx = ctx.c04['meta'], ctx.c04['n'], ctx.c04['idx']
    v, cnt = [], {}

    def add(key, i, detail):
        cnt[key] = cnt.get(key, 0) + 1
        if cnt[key] <= 2:
            v.append({'key': key, 'lines': [lines[i]], 'expect': '', 'got': out[i][:100], 'detail': detail})
    for i, (sym, level, kanji, prio, p) in enumerate(meta):
        o = out[i]
        if o.startswith('panic') or o in ('crash', 'timeout'):
            add('%s:new-%s' % (sym, o.split()[0]), i, '%s.New %ss on payload %s (level %d, kanji %d)' % (sym, o.split()[0], p.hex()[:60], level, kanji))
            continue
        if o.startswith('altered-payload'):
            add('%s:new-altered-payload' % sym, i, '%s.%s (payload %s, level %d, kanji %d)' % (sym, o[16:], p.hex()[:60], level, kanji))
            continue
        d = symgen.parse_desc(o)
        if d is None:
            continue
        ver, lv, mask, segs = d
        if b''.join(s for _, s in segs) != p:
            add('%s:concat' % sym, i, '%s.New: segments %s do not concatenate to the payload %s' % (sym, symgen.show_segs(segs), p.hex()[:60]))
        if any(len(s) == 0 for _, s in segs):
            add('%s:empty-segment' % sym, i, '%s.New returns an empty segment for payload %s' % (sym, p.hex()[:60]))
        for m, s in segs:
            if not seg_ok(sym, m, s):
                add('%s:invalid-segment' % sym, i, '%s.New: segment mode %d data %s is not valid for its mode (payload %s)' % (sym, m, s.hex()[:40], p.hex()[:60]))
                break
        if not kanji and any(m == symgen.ref(sym).MODE['kanji'] for m, _ in segs):
            add('%s:kanji-when-disabled' % sym, i, '%s.New returns a kanji segment although kanji mode is disabled' % sym)
        if lv != level:
            add('%s:level' % sym, i, '%s.New returns level %d for requested %d' % (sym, lv, level))
    for k, i in enumerate(idx):
        sym = meta[i][0]
        eo, do = out[n + k], out[n + len(idx) + k]
        d0 = symgen.parse_desc(out[i])
        if not eo.startswith('ok '):
            add('%s:new-result-does-not-encode' % sym, i, '%s.New result for payload %s does not encode: %s' % (sym, meta[i][4].hex()[:60], eo[:60]))
            continue
        dd = symgen.parse_desc(do)
        if dd is None or (dd[0], dd[1], dd[3]) != (d0[0], d0[1], d0[3]):
            add('%s:new-result-roundtrip' % sym, i, '%s.New result for payload %s does not decode back: %s' % (sym, meta[i][4].hex()[:60], do[:80]))
    for x in v:
        x['detail'] += ' (%d such cases in this run)' % cnt[x['key']]
    return v


def nontrivial(line, out):
    return '.new ' in line and out.startswith('ok') and len(line.split()[-1]) >= 4


def search(ctx, broken, diffs):
    return []
