"""C05 — New picks the smallest symbol that fits and rejects only what cannot fit."""
from checks import symgen, refqr, refmicro, refrmqr

ID = 'C05'
PROP_MODULES = ['QRV.Props.C05', 'QRV.Props.C05Ext', 'QRV.Props.C05TooLarge', 'QRV.Props.C05TooLarge2', 'QRV.Props.C05TooLargeKanji', 'QRV.Props.C05EmptyRMQR', 'QRV.Props.C05New', 'QRV.Props.C05TooLargeKanji2']
RULE = ('for every (version, level) row and every mode: payloads of max-1, max, max+1 characters of that row\'s capacity (digits, alphanumerics, bytes, kanji) and mixed-mode payloads '
        'straddling it, x kanji on/off x rMQR priorities {area, height, width}. Oracle: the returned version holds the returned segments by the standard\'s exact bit lengths (kanji per '
        'character), no smaller admissible version (QR: lower number; Micro QR: lower admissible version; rMQR: smaller area / height / width) holds them, and "too large" is answered '
        'only when the payload does not fit as one byte segment in the largest symbol of that level. Also run on the Lean model. non-trivial: every payload is generated AT a capacity boundary (max-1 / max / max+1 characters of a row, a mixed list filling a row, the byte capacity of the largest symbol with cost-rounding periods), so all count; distinct = distinct (package, level, kanji, priority, payload)')
TRUSTED = [
    'Lean 4.33.0 kernel; axioms per theorem as listed',
    'reference bit lengths and capacities of checks/ref*.py (rMQR capacities and count widths from the regenerated tables)',
    'models of calcVersion / segment length tied by correspondence',
]
ASSUMPTIONS = []
PARTIAL = 'minimality is a theorem on New itself for all three packages (C05New: qr_/micro_new_minimal, rmqr_new_least, rmqr_new_first_fit; empty payloads included: rmqr_new_empty_least after defect D22) and on calcVersion for any segment list; length_agrees for QR, Micro QR (lowest admissible version) and rMQR (least height / least width; least area fails: finding D19); the too-large clause is a theorem for QR (kanji off: qr_new_not_too_large, exact per-segment accounting of the rounding between the DP costs in sixths of a bit and the true bit lengths; kanji on: qr_new_kanji_not_too_large, by the byte-mode fallback of the repaired source - defect D21), Micro QR and rMQR without kanji (micro_/rmqr_new_not_too_large); Micro QR / rMQR with kanji: micro_/rmqr_new_kanji_not_too_large (C05TooLargeKanji2: these programmes charge the QR version-40 headers, every segment gains more from its shorter real header than rounding can cost) - so the too-large clause is a theorem for all six programmes; what stays exercised only is the area priority of rMQR (finding D19)'
MANIFEST = {
    'technique': 'Lean 4: calcVersion is a first-fit scan (QR, Micro QR: the minimal version; rMQR: the first fitting entry of an order list whose sortedness by height / width is kernel-evaluated, hence least height / width), model segment length = standard bit length in all three packages; boundary payloads by differential runs',
    'text': ('QRV/Props/C05.lean proves: the model\'s segment length equals the standard\'s bit length for every mode, version and remainder class (kanji per character); QR calcVersion returns a version that '
             'holds the segments and no smaller one does, and 0 only if none of 1..40 does; rMQR calcVersion returns the FIRST entry of the order list of the requested priority that holds them, and the height and '
             'width lists are sorted by that measure (kernel evaluation), hence a version of least height / width. QRV/Props/C05Ext.lean proves the Micro QR and rMQR length functions equal the standard\'s (mode availability per version, kanji per character), that Micro QR calcVersion returns the lowest version that holds the segments at the level (legal pairs and data bits related to the standard\'s table by kernel evaluation), and that rMQR with priority height / width returns a version of least height / width among ALL versions that hold them. Props/C05TooLarge*.lean: New reports too large only if the payload does not fit the largest symbol even as a single byte-mode segment - QR with and without kanji, Micro QR and rMQR with and without kanji (Props/C05TooLargeKanji2.lean for the kanji programmes of those two packages; the kanji-on QR case was FALSE on the pinned tree: defect D21, found by the proof attempt, repaired by a fix: commit; the counterexample is kept formally in C05TooLarge2). The area list is NOT sorted by area on the pinned tree (finding D19). Minimality against the '
             'Props/C05New.lean states the first clause on New itself (both mode-selection programmes, the empty payload, the byte fallback): the version New returns holds the segments New returns and no smaller version does (QR, Micro QR), has least height / width among all versions (rMQR), is the first fitting entry of the order list (any rMQR priority). '
             'independent reference tables and the too-large clause are exercised at every (version, level, mode) capacity boundary.'),
    'note': 'Trusted: Lean kernel; models tied by correspondence; reference capacities (rMQR rows not independent).',
}

LEVELS = {'qr': [1, 0, 3, 2], 'mq': [2, 1, 0, 3], 'rm': [0, 1]}


def fits(sym, ver, level, segs):
    ref = symgen.ref(sym)
    return (ver, level) in set(ref.configs()) and ref.valid(ver, level, 0 if sym == 'rm' else -1, segs)


def measure(sym, ver, prio):
    if sym != 'rm':
        return ver
    h, w = refrmqr.SIZES[ver]
    return [w * h, h, w][prio]


def best_version(sym, level, prio, segs):
    cands = [v for (v, l) in symgen.configs(sym) if l == level and fits(sym, v, level, segs)]
    if not cands:
        return None
    return min(measure(sym, v, prio) for v in cands)


def fits_as_bytes_in_largest(sym, level, p):
    ref = symgen.ref(sym)
    vs = [v for (v, l) in ref.configs() if l == level]
    if not vs:
        return False
    if sym == 'mq':
        vs = [v for v in vs if 'byte' in ref.kinds_for(v)]
        if not vs:
            return False
    return any(fits(sym, v, level, [(ref.MODE['byte'], p)]) for v in vs)


def gen(ctx):
    r = ctx.rng
    L, meta = [], []

    def add(sym, level, kanji, prio, p):
        h = p.hex() if p else '-'
        L.append('rm.new %d %d %d %s' % (level, prio, kanji, h) if sym == 'rm' else '%s.new %d %d %s' % (sym, level, kanji, h))
        meta.append((sym, level, kanji, prio, p))
    for sym in ('qr', 'mq', 'rm'):
        for ci, (ver, level) in enumerate(symgen.configs(sym)):
            for k in symgen.kinds_for(sym, ver):
                n = symgen.fit_single(sym, ver, level, k, 0)
                if n is None:
                    continue
                for nn in sorted({max(1, n - 1), n, n + 1}):
                    if ctx.tier == 'quick' and nn > 2500 and (ci + ctx.seed) % 4:
                        continue
                    p = symgen.payload(r, k, nn)
                    for kanji in ((0, 1) if k in ('kanji', 'byte') or r.chance(1, 4) else (r.below(2),)):
                        for prio in ((0, 1, 2) if sym == 'rm' else (0,)):
                            add(sym, level, kanji, prio, p)
            # mixed-mode payloads whose standard bit length is EXACTLY the capacity, or 1-2 bits below it
            for spare in ((0, 1, 2) if (ctx.tier == 'thorough' or sym != 'qr' or (ci + ctx.seed) % 3 == 0) else (0,)):
                segs = symgen.exact_fill(sym, r, ver, level, spare)
                if segs:
                    p = b''.join(d for _, d in segs)
                    if len(p) < 3000 or ctx.tier == 'thorough':
                        for kanji in (0, 1):
                            add(sym, level, kanji, r.below(3), p)
            # small symbols: EVERY list of up to three segments (different adjacent kinds) that fills the symbol exactly or leaves
            # one bit, as a payload (New segments it again; with the cost model's ties most come back as generated)
            if sym == 'mq' or (sym == 'qr' and ver <= 2 and ctx.tier == 'thorough') or (sym == 'rm' and ver in (0, 10) and ctx.tier == 'thorough'):
                for spare in (0, 1):
                    for lst in symgen.exact_lists(sym, ver, level, spare, 3, 400):
                        p = b''.join(symgen.payload(r, k, n) for k, n in lst)
                        add(sym, level, 1 if any(k == 'kanji' for k, _ in lst) else r.below(2), r.below(3), p)
            # mixed payload near the capacity
            for _ in range(1 if ctx.tier == 'quick' else 4):
                segs = symgen.random_segs(sym, r, ver, level)
                p = b''.join(d for _, d in segs)
                if len(p) < 3000 or ctx.tier == 'thorough':
                    add(sym, level, r.below(2), r.below(3), p)
    # the too-large clause at the byte capacity of the largest symbol: payloads of exactly (and one below) the largest
    # length that fits as ONE byte-mode segment, built from periods on which the mode selection's cost model (sixths of a
    # bit, rounded up per segment) gains or loses against plain bytes: 1-, 4-, 7-digit runs, 7-/15-character alphanumeric
    # runs, runs of 2-byte and 3-byte kanji-mode characters separated by single digits
    for sym in ('qr', 'mq', 'rm'):
        for level, pl in symgen.rounding_adversarial(sym, ctx.tier == 'quick', ctx.seed):
            for kanji in (0, 1):
                for prio in ((0, 1, 2) if sym == 'rm' else (0,)):
                    add(sym, level, kanji, prio, pl)
    # the empty payload, every level, kanji on and off
    for sym in ('qr', 'mq', 'rm'):
        for level in sorted({l for (_, l) in symgen.ref(sym).configs()}):
            for kanji in (0, 1):
                for prio in ((0, 1, 2) if sym == 'rm' else (0,)):
                    add(sym, level, kanji, prio, b'')
    ctx.c05 = meta
    # function-level correspondence (implementation against model only; OFF by default, VERIF_FUNC_LEVEL=1 switches it on:
    # an unobservable internal change must not be reported): Segment.length and calcVersion of the three
    # packages on every mode value 0..9 / 255, versions incl. out-of-range ones, lengths around the count limits
    F = []
    vers = {'qr': [-1, 0, 1, 2, 9, 10, 11, 26, 27, 28, 39, 40, 41], 'mq': [-1, 0, 1, 2, 3, 4, 5], 'rm': [-1, 0, 1, 5, 10, 16, 17, 30, 31, 32]}
    for sym in ('qr', 'mq', 'rm'):
        for ver in vers[sym]:
            for mode in list(range(10)) + [255]:
                for n in (0, 1, 2, 3, 4, 7, 8, 15, 16, 31, 32, 63, 64, 255, 256, 1023, 1024):
                    if n > 64 and (mode + ver + n) % 3:
                        continue
                    d = (b'1' * n).hex() if n else '-'
                    if sym == 'rm':
                        for lv in (0, 1):
                            F.append('rm.seglen %d %d %d %s' % (ver, lv, mode, d))
                    else:
                        F.append('%s.seglen %d %d %s' % (sym, ver, mode, d))
        kan = '点茗日本'.encode()
        for ver in vers[sym][2:5]:
            F.append(('rm.seglen %d 0 %d %s' % (ver, symgen.ref(sym).MODE['kanji'], kan.hex())) if sym == 'rm' else ('%s.seglen %d %d %s' % (sym, ver, symgen.ref(sym).MODE.get('kanji', 8), kan.hex())))
        # calcVersion on the segment lists New returned above is exercised through New; here: hand-made lists incl. unsupported modes
        for _ in range(30 if ctx.tier == 'quick' else 300):
            ver, level = r.choice(symgen.configs(sym))
            segs = symgen.random_segs(sym, r, ver, level)
            if r.chance(1, 5):
                segs = segs + [(r.choice([0, 3, 5, 6, 7, 9, 15]), b'12')]
            body = '%d %s' % (len(segs), ' '.join('%d %s' % (m, dd.hex() if dd else '-') for m, dd in segs)) if segs else '0'
            if sym == 'rm':
                for prio in (0, 1, 2, 3):
                    F.append('rm.calcver %d %d %s' % (level, prio, body))
            else:
                F.append('%s.calcver %d %s' % (sym, level, body))
    import os
    return L + (F if os.environ.get('VERIF_FUNC_LEVEL') else [])


def oracle(ctx, lines, out):
    v, cnt = [], {}

    def add(key, i, detail):
        cnt[key] = cnt.get(key, 0) + 1
        if cnt[key] <= 2:
            v.append({'key': key, 'lines': [lines[i]], 'expect': '', 'got': out[i][:100], 'detail': detail})
    for i, (sym, level, kanji, prio, p) in enumerate(ctx.c05):
        o = out[i]
        d = symgen.parse_desc(o)
        pr = ['area', 'height', 'width'][prio] if sym == 'rm' else 'version'
        if d is None:
            if o.startswith('err') and fits_as_bytes_in_largest(sym, level, p):
                add('%s:too-large-but-fits-as-bytes' % sym, i, '%s.New(level %d) reports an error for a %d-byte payload that fits as one byte segment in the largest symbol' % (sym, level, len(p)))
            continue
        ver, lv, mask, segs = d
        if not fits(sym, ver, level, segs):
            add('%s:returned-version-does-not-hold-segments' % sym, i, '%s.New(level %d): version %d does not hold [%s] by the standard bit lengths' % (sym, level, ver, symgen.show_segs(segs)))
            continue
        b = best_version(sym, level, prio, segs)
        if b is not None and measure(sym, ver, prio) > b:
            if sym == 'rm' and prio == 0:
                key = 'rm:not-least-area'
            else:
                key = '%s:not-minimal-%s' % (sym, pr)
            add(key, i, '%s.New(level %d, priority %s): returned version %d (%s %d) although a version with %s %d holds the same segments [%s]' % (
                sym, level, pr, ver, pr, measure(sym, ver, prio), pr, b, symgen.show_segs(segs)))
    for x in v:
        x['detail'] += ' (%d such cases in this run)' % cnt[x['key']]
    return v


def nontrivial(line, out):
    return True


def search(ctx, broken, diffs):
    return []
