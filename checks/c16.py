"""C16 — bit buffer is a faithful MSB-first FIFO of bits."""
ID = 'C16'
RULE = ('random and adversarial operation sequences over {wb:b, wl:v:n (n in 0..64), rb, rs:n (n in 0..64)}: lengths 1..48, widths biased to '
        'exact-fill / byte-boundary cases and to 33..64, values with random high garbage above n bits, reads interleaved with writes; '
        'implementation output is compared with the Lean model (correspondence) and with Spec.Bits.Fifo (the property); non-trivial = the '
        'sequence contains a multi-bit write that crosses or exactly reaches a byte boundary, or a read past the end; distinct = distinct sequences')
TRUSTED = [
    'Lean 4.33.0 kernel; axioms per theorem as listed',
    'Model/Bits.lean is a hand transcription of bitstram.go, tied by differential runs on generated operation sequences',
    'Spec/Bits.lean (list-of-bits FIFO) is the reference the property is stated against',
]
ASSUMPTIONS = ['uint64/uint8 arithmetic is modelled with explicit `% 2^64` / `% 256`']
MANIFEST = {
    'technique': 'Lean 4 refinement proof (byte-level model refines a list-of-bits FIFO, by induction over operation sequences) + differential correspondence',
    'text': ('QRV/Props/C16.lean proves, for the byte-level model of bitstram.go, an invariant (wrote < 8, unused low bits zero) preserved by every in-range '
             'write, that the abstract bit list grows by exactly the written bits, that Len and Bytes are the length and MSB-first packing of that list, '
             'and that no in-range write panics - for all operation sequences by induction. The model is tied to the Go code by differential runs on '
             'random/adversarial operation sequences, which also compare the Go code with the list specification directly.'),
    'note': ('Trusted: Lean kernel; hand-written Model/Bits.lean (tied by correspondence on generated sequences only); read-side statements are checked by '
             'correspondence against Spec.Bits.Fifo rather than proved where Props/C16.lean says so.'),
}


def gen_seq(r, maxlen):
    n = r.range(1, maxlen)
    ops = []
    bits = 0
    for _ in range(n):
        k = r.below(100)
        if k < 25:
            ops.append('wb:%d' % r.below(4))
            bits += 1
        elif k < 75:
            c = r.below(10)
            if c < 3:
                w = (8 - bits % 8) % 8 or 8          # exactly fill the partial byte
            elif c < 5:
                w = ((8 - bits % 8) % 8) + 8 * r.below(8)  # fill and whole bytes
            elif c < 7:
                w = r.range(33, 64)
            else:
                w = r.range(0, 64)
            w = min(w, 64)
            v = r.next() if r.chance(1, 2) else (r.next() & ((1 << w) - 1) if w else 0)
            ops.append('wl:%d:%d' % (v, w))
            bits += w
        elif k < 88:
            ops.append('rb')
        else:
            ops.append('rs:%d' % r.choice([0, 1, 3, 4, 7, 8, 9, 13, 16, 31, 32, 33, 63, 64, r.range(0, 64)]))
    return 'buf ' + ';'.join(ops)


CORPUS = [
    'buf wl:1:3;wl:1:5;wb:1',
    'buf wb:1;wl:127:7;wb:1;wb:0',
    'buf wl:255:8;wb:1',
    'buf wb:1;wb:1;wb:1;wb:1;wl:15:4;wb:1;rs:9;rs:3',
    'buf wl:18446744073709551615:64;wl:1:1;wl:18446744073709551615:63;wb:1',
    'buf rs:0;rb;wl:5:3;rs:0;rs:64;rs:1',
    'buf wl:0:0;wb:1;wl:3:0;rs:5;rs:5',
]


def gen(ctx):
    n = 4000 if ctx.tier == 'quick' else 300000
    lines = list(CORPUS)
    r = ctx.rng
    for i in range(n):
        lines.append(gen_seq(r, 12 if i % 3 == 0 else 48))
    return lines


def model_line(l):
    return True


def oracle(ctx, lines, out):
    spec = ctx.lean(['bufspec ' + l.split(' ', 1)[1] for l in lines]) if ctx.driver else None
    v = []
    if spec is None:
        return v
    for l, o, s in zip(lines, out, spec):
        if o != s:
            ops = l.split(' ', 1)[1].split(';')
            if o.startswith('panic'):
                k = int(o.split()[1])
                kind = ops[k].split(':')[0]
                prev = ops[k - 1].split(':')[0] if k > 0 else '-'
                key = 'panic:%s-after-%s' % (kind, prev)
                detail = 'in-range operation #%d (%s) panics in sequence %s' % (k, ops[k], l[4:][:200])
            else:
                key = 'fifo-mismatch'
                detail = 'sequence %s: implementation `%s`, FIFO specification `%s`' % (l[4:][:200], o[:200], s[:200])
            v.append({'key': key, 'lines': [l], 'expect': s, 'got': o, 'detail': detail})
    # shrink the first violation of each key
    seen = {}
    for x in v:
        seen.setdefault(x['key'], x)
    res = []
    for key, x in seen.items():
        res.append(shrink(ctx, x))
    return res + [x for x in v if x not in seen.values()][:20]


def shrink(ctx, x):
    ops = x['lines'][0].split(' ', 1)[1].split(';')
    changed = True
    while changed and len(ops) > 1:
        changed = False
        for i in range(len(ops)):
            cand = ops[:i] + ops[i + 1:]
            line = 'buf ' + ';'.join(cand)
            o = ctx.go([line], nproc=1)[0]
            s = ctx.lean(['bufspec ' + ';'.join(cand)], nproc=1)[0]
            if o != s and o.split()[0] == x['got'].split()[0]:
                ops = cand
                x = dict(x, lines=[line], got=o, expect=s, detail=x['detail'].split(' in sequence ')[0] + ' in sequence ' + ';'.join(cand) if ' in sequence ' in x['detail'] else 'sequence %s: implementation `%s`, FIFO specification `%s`' % (';'.join(cand), o, s))
                changed = True
                break
    return x


def nontrivial(line, out):
    ops = line.split(' ', 1)[1].split(';')
    bits = 0
    for op in ops:
        f = op.split(':')
        if f[0] == 'wb':
            bits += 1
        elif f[0] == 'wl':
            w = int(f[2])
            if w > 1 and (bits % 8) + w >= 8:
                return True
            bits += w
    return 'EOF' in out


def search(ctx, broken, diffs):
    r = ctx.rng
    lines = [gen_seq(r, 24) for _ in range(60000)]
    out = ctx.go(lines)
    return oracle(ctx, lines, out)
