"""C18 — bitmap masking flips exactly the maskable modules, for every image width."""
ID = 'C18'
RULE = ('images of every width 1..184 (each residue mod 8 many times) x heights 1..24 (quick) / up to 177 (thorough), random contents, random '
        'padding bits, function maps of the same bounds, patterns of equal or larger bounds and stride; ops: Mask, BinaryAt/SetBinary/XorBinary at '
        'in- and out-of-bounds coordinates, OnesCount; implementation compared with the Lean model (correspondence) and with a naive '
        'one-pixel-at-a-time python reference (the property); non-trivial = width not a multiple of 8 or pattern stride larger than the image stride')
TRUSTED = [
    'Lean 4.33.0 kernel; axioms per theorem as listed',
    'Model/Bitmap.lean is a hand transcription of binary.go, tied by differential runs',
    'python pixel-at-a-time reference in checks/c18.py as direct oracle',
]
ASSUMPTIONS = ['images have origin (0,0) (the property\'s domain); off-origin bitmaps are covered under C06']
MANIFEST = {
    'technique': 'Lean 4 proof by induction over rows and bytes of the byte-level mask routine against a per-pixel reading + differential correspondence',
    'text': ('QRV/Props/C18.lean proves for the byte-level model of binary.go, for every width/height and every content: Mask succeeds on equal bounds, flips '
             'exactly the in-image, non-function, pattern-dark pixels (mask_spec), leaves row padding untouched (mask_padding), is an involution, panics on '
             'different bounds; BinaryAt/SetBinary/XorBinary/OnesCount agree with the per-pixel reading. The model is tied to the Go code by differential '
             'runs over all widths 1..184, which also compare Go with a naive python reference.'),
    'note': 'Trusted: Lean kernel; hand-written Model/Bitmap.lean (tied by correspondence on generated inputs only); python reference.',
}


def mkimg(r, w, h, stride=None, fill=None):
    stride = stride or (w + 7) // 8
    if fill is None:
        pix = r.bytes(stride * h)
    else:
        pix = bytes([fill]) * (stride * h)
    return (0, 0, w, h, stride, pix)


def show(img):
    x0, y0, x1, y1, stride, pix = img
    return '%d,%d,%d,%d,%d:%s' % (x0, y0, x1, y1, stride, pix.hex() if pix else '-')


def parse(s):
    hdr, px = s.split(':')
    a = [int(x) for x in hdr.split(',')]
    return (a[0], a[1], a[2], a[3], a[4], bytes.fromhex(px) if px != '-' else b'')


def px(img, x, y):
    x0, y0, x1, y1, stride, pix = img
    return (pix[y * stride + x // 8] >> (7 - x % 8)) & 1


def ref_mask(inp, used, pat):
    w, h, stride = inp[2], inp[3], inp[4]
    out = bytearray(inp[5])
    for y in range(h):
        for x in range(w):
            if not px(used, x, y) and px(pat, x, y):
                out[y * stride + x // 8] ^= 0x80 >> (x % 8)
    return (0, 0, w, h, stride, bytes(out))


def gen(ctx):
    r = ctx.rng
    lines = []
    hmax = 12 if ctx.tier == 'quick' else 60
    reps = 2 if ctx.tier == 'quick' else 12
    for w in range(1, 185):
        for _ in range(reps):
            h = r.range(1, hmax)
            inp, used = mkimg(r, w, h), mkimg(r, w, h)
            pw = w if r.chance(1, 3) else r.range(w, min(184, w + 24))
            ph = h if r.chance(1, 2) else h + r.below(5)
            pat = mkimg(r, pw, ph)
            lines.append('bmp.mask %s %s %s' % (show(inp), show(used), show(pat)))
        img = mkimg(r, w, r.range(1, 6))
        lines.append('bmp.ones %s' % show(img))
        hh = img[3]
        # every edge deterministically: the corners, and the first coordinate outside on each side
        pts = [(0, 0), (w - 1, hh - 1), (w, 0), (w, hh - 1), (-1, 0), (0, -1), (0, hh), (w - 1, hh), (w, hh)]
        pts += [(r.range(-2, w + 1), r.range(-2, hh + 1)) for _ in range(3)]
        for (x, y) in pts:
            lines.append('bmp.at %s %d %d' % (show(img), x, y))
            lines.append('bmp.set %s %d %d %d' % (show(img), x, y, 1 - px(img, x, y) if 0 <= x < w and 0 <= y < hh else 1))
            lines.append('bmp.xor %s %d %d %d' % (show(img), x, y, 1))
    # Clone / Copy of minimal-stride images that were NOT built by New, and New itself, every width (incl. multiples of 8)
    for w in range(1, 185):
        hh = r.range(2, 5)
        lines.append('bmp.clone %s' % show(mkimg(r, w, hh)))
        lines.append('bmp.new %d %d %d %d' % (0, 0, w, hh))
        if w % 8 == 0:
            lines.append('bmp.new %d %d %d %d' % (3, 5, 3 + w, 5 + hh))
    # images whose buffer is longer than Stride*Dy (a sub-image that shares its parent's buffer, a reused destination):
    # the bytes behind the last row are not pixels.  Every width that is a multiple of 8 and a sample of the others.
    for w in [x for x in range(1, 185) if x % 8 == 0 or x % 13 == 0]:
        img = mkimg(r, w, r.range(1, 5))
        longer = img[:5] + (img[5] + bytes([0xFF]) * r.range(1, 40),)
        lines.append('bmp.ones %s' % show(longer))
        lines.append('bmp.at %s %d %d' % (show(longer), w - 1, img[3] - 1))
        big = mkimg(r, w + r.range(0, 16), img[3] + r.range(1, 4))
        lines.append('bmp.reuse %s %s' % (show(big), show(img)))
    # Mask with a function map and a pattern built by New-sized canvases (stride of New) against minimal-stride inputs
    # bounds mismatch must panic; the full symbol sizes
    a, b = mkimg(r, 21, 21), mkimg(r, 22, 21)
    lines.append('bmp.mask %s %s %s' % (show(a), show(b), show(mkimg(r, 24, 24))))
    if ctx.tier == 'thorough':
        for w, h in [(177, 177), (184, 177), (139, 17), (17, 17), (43, 7)]:
            lines.append('bmp.mask %s %s %s' % (show(mkimg(r, w, h)), show(mkimg(r, w, h)), show(mkimg(r, 184, 177))))
    return lines


def expect(line):
    t = line.split()
    if t[0] == 'bmp.clone':
        return 'ok ' + t[1]
    if t[0] == 'bmp.new':
        x0, y0, x1, y1 = (int(x) for x in t[1:5])
        stride = (x1 - x0 + 7) // 8
        return 'ok %d,%d,%d,%d,%d:%s' % (x0, y0, x1, y1, stride, '00' * (stride * (y1 - y0)))
    if t[0] == 'bmp.mask':
        inp, used, pat = parse(t[1]), parse(t[2]), parse(t[3])
        if inp[:4] != used[:4]:
            return 'panic'
        return 'ok ' + show(ref_mask(inp, used, pat))
    if t[0] == 'bmp.reuse':
        img = parse(t[2])
        return 'ok %d %s maskreuse=same' % (sum(px(img, x, y) for y in range(img[3]) for x in range(img[2])), t[2])
    img = parse(t[1])
    w, h, stride = img[2], img[3], img[4]
    if t[0] == 'bmp.ones':
        return 'ok %d' % sum(px(img, x, y) for y in range(h) for x in range(w))
    x, y = int(t[2]), int(t[3])
    inb = 0 <= x < w and 0 <= y < h
    if t[0] == 'bmp.at':
        return 'ok %s' % ('true' if inb and px(img, x, y) else 'false')
    c = int(t[4])
    out = bytearray(img[5])
    if inb:
        m = 0x80 >> (x % 8)
        i = y * stride + x // 8
        if t[0] == 'bmp.set':
            out[i] = (out[i] | m) if c else (out[i] & ~m & 0xFF)
        elif c:
            out[i] ^= m
    return 'ok ' + show((0, 0, w, h, stride, bytes(out)))


def oracle(ctx, lines, out):
    v = []
    for l, o in zip(lines, out):
        e = expect(l)
        if o != e:
            t = l.split()
            if t[0] == 'bmp.new':
                v.append({'key': 'bmp.new:w%%8=%d' % ((int(t[3]) - int(t[1])) % 8), 'lines': [l], 'expect': e[:200], 'got': o[:200],
                          'detail': 'bitmap.New(%s) is not the zeroed image with stride ceil(width/8)' % ','.join(t[1:5])})
                continue
            img = parse(t[2] if t[0] == 'bmp.reuse' else t[1])
            v.append({'key': '%s:w%%8=%d' % (t[0], img[2] % 8), 'lines': [l], 'expect': e[:400], 'got': o[:400],
                      'detail': '%s on a %dx%d image differs from the pixel-at-a-time reference' % (t[0], img[2], img[3])})
    return v


def nontrivial(line, out):
    t = line.split()
    if t[0] == 'bmp.new':
        return True
    if t[0] == 'bmp.reuse':
        return True
    img = parse(t[1])
    if t[0] == 'bmp.mask':
        return img[2] % 8 != 0 or parse(t[3])[4] > img[4]
    return img[2] % 8 != 0


def search(ctx, broken, diffs):
    return []
