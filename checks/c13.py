"""C13 — Reed-Solomon encoder computes the systematic code over GF(256)/0x11D."""
from checks import gf256

ID = 'C13'
PROP_MODULES = ['QRV.Props.C13', 'QRV.Props.C13Unique']
RULE = ('for every n in 2..68: random messages (lengths 0..220, with leading zeros, all-zero, single byte) written in random chunkings, plus basis '
        'messages v*x^j; New(n) for n in -3..72; thorough adds the complete basis enumeration (every v in 1..255, every j <= 254-n) inside the harness. '
        'Implementation compared with the Lean model (correspondence) and with an independent polynomial-division reference (the property); '
        'non-trivial = message with a non-zero byte; distinct = distinct lines')
TRUSTED = [
    'Lean 4.33.0 kernel (taps = log of the coefficients of prod (x - a^i), roots of g_n: decide +kernel for every n in 2..68)',
    'translator: template match of all 67 coderN Write/Sum/Reset bodies against gen/main.go\'s template (go/ast + go/printer), taps extracted',
    'Model/RS.lean step/write/sum over Gen.RS.taps, tied by differential runs',
    'python polynomial-division reference (checks/gf256.py) and the harness\'s own clmul for the basis enumeration',
]
ASSUMPTIONS = ['hash.Hash plumbing (Size/BlockSize) is not part of the property']
MANIFEST = {
    'technique': 'Lean 4 proof: LFSR invariant by induction over the message from kernel-evaluated generator facts for all 67 coders; translator-regenerated taps',
    'text': ('QRV/Props/C13.lean proves for every n in 2..68 and every message (unbounded length, any chunking): the coder\'s taps are the logs of the coefficients of '
             'g_n = prod (x - a^i) computed from the definition (kernel evaluation), the register invariant eval(state, a^i) = eval(message, a^i), hence message ++ parity '
             'vanishes at a^0..a^(n-1); chunking independence, leading zeros, New range; and (C13Unique.lean, parity_unique) for every block of at most 255 bytes the parity is the ONLY n-byte tail with those n roots, from the minimum distance n+1 of the code (Mathlib Field instance, proof-only modules) - so the emitted bytes are exactly the stated remainder; encode_damage_decode joins the encoder model to the decoder model of C14: message ++ parity is restored from every word with at most floor(n/2) damaged bytes. The coders are tied to the source by the translator (template match of every '
             'generated function, constants extracted) on every run, and the model by differential runs.'),
    'note': ('Trusted: Lean kernel; Mathlib polynomial algebra in proof-only modules (parity_unique only, through C14Complete); translator template matcher; Model/RS.lean step function (tied by correspondence); Sum\'s value receiver is a matched-template fact, '
             'its purity is additionally exercised by the harness (Sum mid-stream, Sum twice, Reset).'),
}


def shape_relevant(m):
    return 'coder' in m or 'reedsolomon' in m


SHAPE_RELEVANT = shape_relevant


def gen(ctx):
    r = ctx.rng
    lines = []
    for n in range(-3, 73):
        lines.append('rs.new %d' % n)
    per = 12 if ctx.tier == 'quick' else 120
    for n in range(2, 69):
        for k in range(per):
            c = k % 6
            if c == 0:
                msg = r.bytes(r.range(1, 220))
            elif c == 1:
                msg = bytes(r.range(0, 9)) + r.bytes(r.range(1, 40))      # leading zeros
            elif c == 2:
                msg = bytes(r.range(0, 30))                               # all zero / empty
            elif c == 3:
                msg = bytes([r.range(1, 255)]) + bytes(r.choice([0, 1, n - 1, n, max(0, 254 - n)]))  # v*x^j
            elif c == 4:
                msg = r.bytes(255 - n)                                     # full-length block
            else:
                msg = r.bytes(r.range(1, 60))
            # random chunking
            chunks, i = [], 0
            while i < len(msg):
                j = min(len(msg), i + r.range(0, 17))
                chunks.append(msg[i:j])
                i = j
            if not chunks:
                chunks = [b'']
            lines.append('rs.enc %d %s' % (n, ','.join(c.hex() if c else '-' for c in chunks)))
    # two coders of the same parity length alive at once, writes interleaved (every n)
    for n in range(2, 69):
        for _ in range(1 if ctx.tier == 'quick' else 6):
            ma, mb = r.bytes(r.range(1, 80)), r.bytes(r.range(1, 80))
            lines.append('rs.enc2 %d %s %d %s' % (n, ma.hex(), r.range(0, len(ma)), mb.hex()))
    if ctx.tier == 'thorough':
        # spread the 67 heavy enumeration lines evenly so that the parallel chunks of the runner are balanced
        step = max(1, len(lines) // 67)
        for k, n in enumerate(range(2, 69)):
            lines.insert(min(len(lines), k * (step + 1)), 'rs.basis %d' % n)
    return lines


def model_line(l):
    return not l.startswith('rs.basis')


def canon(s):
    if s.startswith('err'):
        return 'err'
    if s.startswith('panic'):
        return 'panic'
    return ' '.join(s.split()[:3]) if len(s.split()) >= 3 and len(s.split()[1]) == len(s.split()[2]) else ' '.join(s.split()[:2])


def oracle(ctx, lines, out):
    v = []
    for l, o in zip(lines, out):
        t = l.split()
        if t[0] == 'rs.new':
            n = int(t[1])
            e = 'panic' if (n < 2 or n > 68) else 'ok %d' % n
            if o != e:
                v.append({'key': 'new:%d' % n, 'lines': [l], 'expect': e, 'got': o, 'detail': 'New(%d) gives `%s`, expected `%s`' % (n, o, e)})
        elif t[0] == 'rs.enc':
            n = int(t[1])
            msg = b''.join(bytes.fromhex(c) if c != '-' else b'' for c in t[2].split(','))
            e = 'ok ' + gf256.parity(n, msg).hex()
            if o != e:
                key = 'enc:n=%d' % n if o.split()[:2] != e.split()[:2] else 'enc-purity:n=%d' % n
                v.append({'key': key, 'lines': [l], 'expect': e, 'got': o,
                          'detail': 'coder %d on message %s gives `%s`, remainder of msg*x^n mod g_n is `%s`' % (n, msg.hex()[:60], o, e)})
        elif t[0] == 'rs.enc2':
            n = int(t[1])
            ma, mb = bytes.fromhex(t[2]), bytes.fromhex(t[4])
            e = 'ok %s %s' % (gf256.parity(n, ma).hex(), gf256.parity(n, mb).hex())
            if o != e:
                v.append({'key': 'enc-two-coders:n=%d' % n, 'lines': [l], 'expect': e, 'got': o,
                          'detail': 'two coders of parity length %d used at the same time (second created after %s bytes of the first message): sums `%s`, the remainders are `%s`' % (n, t[3], o[:80], e[:80])})
        elif t[0] == 'rs.basis':
            if ' bad=0' not in o:
                n = int(t[1])
                first = o.split('first=')[1] if 'first=' in o else '?'
                vv, j = (first.split(',') + ['0'])[:2] if first != '?' else ('1', '0')
                msg = bytes([int(vv)]) + bytes(int(j))
                v.append({'key': 'enc:n=%d' % n, 'lines': ['rs.enc %d %s' % (n, msg.hex())], 'expect': 'ok ' + gf256.parity(n, msg).hex(), 'got': o,
                          'detail': 'coder %d: basis message %s*x^%s is not mapped to a codeword (%s)' % (n, vv, j, o)})
    return v


def nontrivial(line, out):
    t = line.split()
    if t[0] == 'rs.enc2':
        return True
    if t[0] == 'rs.enc':
        return any(c not in '0,-' for c in t[2])
    return t[0] == 'rs.basis'


def search(ctx, broken, diffs):
    # linear code: a wrong tap is exposed by a basis message; run the complete enumeration
    ns = sorted({int(m.group(1)) for b in broken for m in __import__('re').finditer(r'coder(\d+)', b)} or set(range(2, 69)))
    lines = ['rs.basis %d' % n for n in ns if 2 <= n <= 68]
    out = ctx.go(lines)
    return oracle(ctx, lines, out)
