"""Independent reference for QR Code (ISO/IEC 18004): tables in compact form, validity predicate,
reference encoder (module matrix) and reference reader.  Nothing here is taken from /repo: the error
correction table is in the compact 'EC codewords per block / number of blocks' form, everything
else is computed from geometry.  Level numbering follows the format-information indicator
(L=1, M=0, Q=3, H=2), which is also what /repo uses as `Level` values.
"""
from checks import gf256
from checks.c17 import REF_INV, REF

LEVEL_ROW = {1: 0, 0: 1, 3: 2, 2: 3}  # L, M, Q, H

ECC_PER_BLOCK = (
    (-1, 7, 10, 15, 20, 26, 18, 20, 24, 30, 18, 20, 24, 26, 30, 22, 24, 28, 30, 28, 28, 28, 28, 30, 30, 26, 28, 30, 30, 30, 30, 30, 30, 30, 30, 30, 30, 30, 30, 30, 30),
    (-1, 10, 16, 26, 18, 24, 16, 18, 22, 22, 26, 30, 22, 22, 24, 24, 28, 28, 26, 26, 26, 26, 28, 28, 28, 28, 28, 28, 28, 28, 28, 28, 28, 28, 28, 28, 28, 28, 28, 28, 28),
    (-1, 13, 22, 18, 26, 18, 24, 18, 22, 20, 24, 28, 26, 24, 20, 30, 24, 28, 28, 26, 30, 28, 30, 30, 30, 30, 28, 30, 30, 30, 30, 30, 30, 30, 30, 30, 30, 30, 30, 30, 30),
    (-1, 17, 28, 22, 16, 22, 28, 26, 26, 24, 28, 24, 28, 22, 24, 24, 30, 28, 28, 26, 28, 30, 24, 30, 30, 30, 30, 30, 30, 30, 30, 30, 30, 30, 30, 30, 30, 30, 30, 30, 30))
NUM_BLOCKS = (
    (-1, 1, 1, 1, 1, 1, 2, 2, 2, 2, 4, 4, 4, 4, 4, 6, 6, 6, 6, 7, 8, 8, 9, 9, 10, 12, 12, 12, 13, 14, 15, 16, 17, 18, 19, 19, 20, 21, 22, 24, 25),
    (-1, 1, 1, 1, 2, 2, 4, 4, 4, 5, 5, 5, 8, 9, 9, 10, 10, 11, 13, 14, 16, 17, 17, 18, 20, 21, 23, 25, 26, 28, 29, 31, 33, 35, 37, 38, 40, 43, 45, 47, 49),
    (-1, 1, 1, 2, 2, 4, 4, 6, 6, 8, 8, 8, 10, 12, 16, 12, 17, 16, 18, 21, 20, 23, 23, 25, 27, 29, 34, 34, 35, 38, 40, 43, 45, 48, 51, 53, 56, 59, 62, 65, 68),
    (-1, 1, 1, 2, 4, 4, 4, 5, 6, 8, 8, 11, 11, 16, 16, 18, 16, 19, 21, 25, 25, 25, 34, 30, 32, 35, 37, 40, 42, 45, 48, 51, 54, 57, 60, 63, 66, 70, 74, 77, 81))

M_NUM, M_ALNUM, M_BYTE, M_KANJI = 1, 2, 4, 8
ALNUM = b'0123456789ABCDEFGHIJKLMNOPQRSTUVWXYZ $%*+-./:'


def size_of(ver):
    return 17 + 4 * ver


def align_positions(ver):
    if ver == 1:
        return []
    n = ver // 7 + 2
    step = 26 if ver == 32 else (ver * 4 + n * 2 + 1) // (n * 2 - 2) * 2
    res = [size_of(ver) - 7 - i * step for i in range(n - 1)]
    return [6] + res[::-1]


def raw_modules(ver):
    r = (16 * ver + 128) * ver + 64
    if ver >= 2:
        n = ver // 7 + 2
        r -= (25 * n - 10) * n - 55
        if ver >= 7:
            r -= 36
    return r


def blocks(ver, level):
    """list of (data_len, ecc_len) in block order"""
    row = LEVEL_ROW[level]
    nb, ecc = NUM_BLOCKS[row][ver], ECC_PER_BLOCK[row][ver]
    raw = raw_modules(ver) // 8
    short = nb - raw % nb
    slen = raw // nb
    return [(slen - ecc + (0 if i < short else 1), ecc) for i in range(nb)]


def data_codewords(ver, level):
    return sum(d for d, _ in blocks(ver, level))


def count_bits(mode, ver):
    g = 0 if ver < 10 else (1 if ver < 27 else 2)
    return {M_NUM: (10, 12, 14), M_ALNUM: (9, 11, 13), M_BYTE: (8, 16, 16), M_KANJI: (8, 10, 12)}[mode][g]


def utf8_chars(data):
    """list of code points if data is well-formed UTF-8, else None"""
    try:
        return [ord(c) for c in data.decode('utf-8')]
    except UnicodeDecodeError:
        return None


def seg_valid(mode, data):
    if mode == M_NUM:
        return all(48 <= c <= 57 for c in data)
    if mode == M_ALNUM:
        return all(c in ALNUM for c in data)
    if mode == M_BYTE:
        return True
    if mode == M_KANJI:
        cs = utf8_chars(data)
        return cs is not None and all(c in REF_INV for c in cs)
    return False


def seg_count(mode, data):
    return len(utf8_chars(data)) if mode == M_KANJI else len(data)


def seg_bits_len(mode, data, ver):
    n = seg_count(mode, data)
    if mode == M_NUM:
        body = 10 * (n // 3) + (0, 4, 7)[n % 3]
    elif mode == M_ALNUM:
        body = 11 * (n // 2) + 6 * (n % 2)
    elif mode == M_BYTE:
        body = 8 * n
    else:
        body = 13 * n
    return 4 + count_bits(mode, ver) + body


def valid(ver, level, mask, segs):
    """the standard's validity of a symbol description (C08's predicate)"""
    if not (1 <= ver <= 40) or level not in LEVEL_ROW or not (-1 <= mask <= 7):
        return False
    total = 0
    for mode, data in segs:
        if mode not in (M_NUM, M_ALNUM, M_BYTE, M_KANJI) or not seg_valid(mode, data):
            return False
        if seg_count(mode, data) >= 1 << count_bits(mode, ver):
            return False
        total += seg_bits_len(mode, data, ver)
    return total <= 8 * data_codewords(ver, level)


def bits_of(v, n):
    return [(v >> (n - 1 - i)) & 1 for i in range(n)]


def seg_bits(mode, data, ver):
    b = bits_of(mode, 4) + bits_of(seg_count(mode, data), count_bits(mode, ver))
    if mode == M_NUM:
        s = data.decode()
        for i in range(0, len(s), 3):
            g = s[i:i + 3]
            b += bits_of(int(g), (0, 4, 7, 10)[len(g)])
    elif mode == M_ALNUM:
        for i in range(0, len(data) - 1, 2):
            b += bits_of(ALNUM.index(data[i]) * 45 + ALNUM.index(data[i + 1]), 11)
        if len(data) % 2:
            b += bits_of(ALNUM.index(data[-1]), 6)
    elif mode == M_BYTE:
        for c in data:
            b += bits_of(c, 8)
    else:
        for c in utf8_chars(data):
            b += bits_of(REF_INV[c], 13)
    return b


def data_bytes(ver, level, segs):
    cap = 8 * data_codewords(ver, level)
    b = []
    for mode, data in segs:
        b += seg_bits(mode, data, ver)
    assert len(b) <= cap
    b += [0] * min(4, cap - len(b))
    b += [0] * (-len(b) % 8)
    out = bytearray(int(''.join(map(str, b[i:i + 8])), 2) for i in range(0, len(b), 8))
    pad = 0xEC
    while len(out) < cap // 8:
        out.append(pad)
        pad ^= 0xEC ^ 0x11
    return bytes(out)


def interleaved(ver, level, data):
    bl = blocks(ver, level)
    ds, es, k = [], [], 0
    for d, e in bl:
        blk = data[k:k + d]
        k += d
        ds.append(blk)
        es.append(gf256.parity(e, blk))
    out = bytearray()
    for i in range(max(len(d) for d in ds)):
        for d in ds:
            if i < len(d):
                out.append(d[i])
    for i in range(max(len(e) for e in es)):
        for e in es:
            if i < len(e):
                out.append(e[i])
    return bytes(out)


def bch(data, gen, glen, total):
    v = data << (glen - 1)
    r = v
    for i in range(total - 1, glen - 2, -1):
        if (r >> i) & 1:
            r ^= gen << (i - glen + 1)
    return v | r


def format_bits(level, mask):
    return bch((level << 3) | mask, 0x537, 11, 15) ^ 0x5412


def version_bits(ver):
    return bch(ver, 0x1F25, 13, 18)


MASKS = [
    lambda i, j: (i + j) % 2 == 0,
    lambda i, j: i % 2 == 0,
    lambda i, j: j % 3 == 0,
    lambda i, j: (i + j) % 3 == 0,
    lambda i, j: (i // 2 + j // 3) % 2 == 0,
    lambda i, j: (i * j) % 2 + (i * j) % 3 == 0,
    lambda i, j: ((i * j) % 2 + (i * j) % 3) % 2 == 0,
    lambda i, j: ((i + j) % 2 + (i * j) % 3) % 2 == 0,
]


def function_patterns(ver):
    """(modules, isfunction) as lists of rows [y][x]; format/version areas reserved (value 0) except the dark module"""
    n = size_of(ver)
    m = [[0] * n for _ in range(n)]
    f = [[False] * n for _ in range(n)]

    def setf(x, y, v):
        if 0 <= x < n and 0 <= y < n:
            m[y][x] = 1 if v else 0
            f[y][x] = True
    for i in range(n):
        setf(6, i, i % 2 == 0)
        setf(i, 6, i % 2 == 0)
    for cx, cy in ((3, 3), (n - 4, 3), (3, n - 4)):
        for dy in range(-4, 5):
            for dx in range(-4, 5):
                d = max(abs(dx), abs(dy))
                setf(cx + dx, cy + dy, d not in (2, 4))
    ap = align_positions(ver)
    for i, cx in enumerate(ap):
        for j, cy in enumerate(ap):
            if (i == 0 and j == 0) or (i == 0 and j == len(ap) - 1) or (i == len(ap) - 1 and j == 0):
                continue
            for dy in range(-2, 3):
                for dx in range(-2, 3):
                    setf(cx + dx, cy + dy, max(abs(dx), abs(dy)) != 1)
    # format areas
    for i in range(9):
        if not f[8][i]:
            setf(i, 8, 0)
        if not f[i][8]:
            setf(8, i, 0)
    for i in range(8):
        setf(n - 1 - i, 8, 0)
        setf(8, n - 1 - i, 0)
    setf(8, n - 8, 1)  # dark module
    if ver >= 7:
        for i in range(6):
            for j in range(3):
                setf(n - 11 + j, i, 0)
                setf(i, n - 11 + j, 0)
    return m, f


def draw_format(m, n, level, mask):
    b = format_bits(level, mask)
    for i in range(6):
        m[i][8] = (b >> i) & 1
    m[7][8] = (b >> 6) & 1
    m[8][8] = (b >> 7) & 1
    m[8][7] = (b >> 8) & 1
    for i in range(9, 15):
        m[8][14 - i] = (b >> i) & 1
    for i in range(8):
        m[8][n - 1 - i] = (b >> i) & 1
    for i in range(8, 15):
        m[n - 15 + i][8] = (b >> i) & 1
    m[n - 8][8] = 1


def draw_version(m, n, ver):
    if ver < 7:
        return
    b = version_bits(ver)
    for i in range(18):
        a, c = n - 11 + i % 3, i // 3
        m[c][a] = (b >> i) & 1
        m[a][c] = (b >> i) & 1


def data_coords(ver, f):
    n = size_of(ver)
    out = []
    right = n - 1
    up = True
    while right >= 1:
        if right == 6:
            right = 5
        for vert in range(n):
            y = n - 1 - vert if up else vert
            for j in range(2):
                x = right - j
                if not f[y][x]:
                    out.append((x, y))
        up = not up
        right -= 2
    return out


def encode(ver, level, mask, segs):
    """reference symbol as rows [y][x] of 0/1, for an explicit mask 0..7"""
    n = size_of(ver)
    m, f = function_patterns(ver)
    cw = interleaved(ver, level, data_bytes(ver, level, segs))
    bits = [b for c in cw for b in bits_of(c, 8)]
    coords = data_coords(ver, f)
    assert len(coords) == raw_modules(ver), (len(coords), raw_modules(ver))
    for k, (x, y) in enumerate(coords):
        v = bits[k] if k < len(bits) else 0
        if MASKS[mask](y, x):
            v ^= 1
        m[y][x] = v
    draw_format(m, n, level, mask)
    draw_version(m, n, ver)
    return m


def to_image_str(m):
    h, w = len(m), len(m[0])
    stride = (w + 7) // 8
    pix = bytearray(stride * h)
    for y in range(h):
        for x in range(w):
            if m[y][x]:
                pix[y * stride + x // 8] |= 0x80 >> (x % 8)
    return '0,0,%d,%d,%d:%s' % (w, h, stride, bytes(pix).hex())


def from_image_str(s):
    hdr, px = s.split(':')
    a = [int(x) for x in hdr.split(',')]
    w, h, stride = a[2] - a[0], a[3] - a[1], a[4]
    pix = bytes.fromhex(px) if px != '-' else b''
    return [[(pix[y * stride + x // 8] >> (7 - x % 8)) & 1 for x in range(w)] for y in range(h)]


# ---- N1..N4 penalty (ISO/IEC 18004 7.8.3.1) on a finished symbol
def _penalty(m):
    """all admissible readings of the penalty: N3 in {pattern with 4 light modules on a side, modules outside the
    symbol counting as light, scored once per occurrence (zxing) or once per side (Nayuki); strict: the light
    modules must lie inside the symbol} x N4 in {floor, ceil-1 at exact 5% boundaries}.  Returns a list of totals."""
    n = len(m)
    lines = [row[:] for row in m] + [[m[y][x] for y in range(n)] for x in range(n)]
    n1 = 0
    for line in lines:
        run, prev = 0, None
        for v in line + [None]:
            if v == prev:
                run += 1
            else:
                if prev is not None and run >= 5:
                    n1 += 3 + run - 5
                run, prev = 1, v
    n2 = 0
    for y in range(n - 1):
        for x in range(n - 1):
            if m[y][x] == m[y][x + 1] == m[y + 1][x] == m[y + 1][x + 1]:
                n2 += 3
    pat = [1, 0, 1, 1, 1, 0, 1]
    once = sides = strict = 0
    for line in lines:
        for i in range(n - 6):
            if line[i:i + 7] == pat:
                before = [line[k] if 0 <= k < n else 0 for k in range(i - 4, i)]
                after = [line[k] if 0 <= k < n else 0 for k in range(i + 7, i + 11)]
                lb, la = not any(before), not any(after)
                sb = i - 4 >= 0 and lb
                sa = i + 11 <= n and la
                once += 40 if (lb or la) else 0
                sides += 40 * (int(lb) + int(la))
                strict += 40 if (sb or sa) else 0
    dark = sum(map(sum, m))
    total = n * n
    dev = abs(dark * 20 - total * 10)
    k_floor = dev // total
    k_ceilm1 = max(0, -(-dev // total) - 1)
    return {'n1': n1, 'n2': n2, 'n3': [once, sides, strict], 'n4': [10 * k_floor, 10 * k_ceilm1]}


def penalty_variants(m):
    p = _penalty(m)
    return [p['n1'] + p['n2'] + n3 + n4 for n3 in p['n3'] for n4 in p['n4']]


def penalty_parts(m):
    """the four features separately: N1, N2 exact; N3 and N4 as the lists of admissible readings"""
    return _penalty(m)


def penalty(m):
    vs = penalty_variants(m)
    return min(vs), (0, max(vs) - min(vs))


# ---- reference reader (no error correction: data codewords taken as they are)
def read(m):
    n = len(m)
    if (n - 17) % 4 or not (21 <= n <= 177):
        return None
    ver = (n - 17) // 4
    fb = 0
    for i in range(6):
        fb |= m[i][8] << i
    fb |= m[7][8] << 6 | m[8][8] << 7 | m[8][7] << 8
    for i in range(9, 15):
        fb |= m[8][14 - i] << i
    best = min(range(32), key=lambda d: bin(format_bits(d >> 3, d & 7) ^ fb).count('1'))
    level, mask = best >> 3, best & 7
    _, f = function_patterns(ver)
    coords = data_coords(ver, f)
    bits = [m[y][x] ^ (1 if MASKS[mask](y, x) else 0) for (x, y) in coords]
    cw = bytes(int(''.join(map(str, bits[i:i + 8])), 2) for i in range(0, len(bits) - len(bits) % 8, 8))
    bl = blocks(ver, level)
    nb = len(bl)
    ds = [bytearray() for _ in bl]
    k = 0
    for i in range(max(d for d, _ in bl)):
        for j, (d, _) in enumerate(bl):
            if i < d:
                ds[j].append(cw[k])
                k += 1
    data = b''.join(bytes(d) for d in ds)
    return ver, level, mask, parse_stream(data, ver)


def parse_stream(data, ver):
    bits = [b for c in data for b in bits_of(c, 8)]
    pos = 0

    def rd(k):
        nonlocal pos
        if pos + k > len(bits):
            raise EOFError
        v = 0
        for b in bits[pos:pos + k]:
            v = v * 2 + b
        pos += k
        return v
    segs = []
    try:
        while len(bits) - pos >= 4:
            mode = rd(4)
            if mode == 0:
                break
            if mode not in (M_NUM, M_ALNUM, M_BYTE, M_KANJI):
                return None
            n = rd(count_bits(mode, ver))
            if mode == M_NUM:
                s = ''
                for _ in range(n // 3):
                    s += '%03d' % rd(10)
                if n % 3 == 2:
                    s += '%02d' % rd(7)
                elif n % 3 == 1:
                    s += '%d' % rd(4)
                segs.append((mode, s.encode()))
            elif mode == M_ALNUM:
                s = bytearray()
                for _ in range(n // 2):
                    v = rd(11)
                    s += bytes([ALNUM[v // 45], ALNUM[v % 45]])
                if n % 2:
                    s.append(ALNUM[rd(6)])
                segs.append((mode, bytes(s)))
            elif mode == M_BYTE:
                segs.append((mode, bytes(rd(8) for _ in range(n))))
            else:
                segs.append((mode, ''.join(chr(REF[rd(13)]) for _ in range(n)).encode()))
    except (EOFError, IndexError, ValueError):
        return None
    return segs


# ---- uniform interface used by checks/symgen.py
MODE = {'num': M_NUM, 'alnum': M_ALNUM, 'byte': M_BYTE, 'kanji': M_KANJI}
KIND = {v: k for k, v in MODE.items()}
MASK_RANGE = list(range(8))
LEVELS = [1, 0, 3, 2]


def configs():
    return [(v, l) for v in range(1, 41) for l in LEVELS]


def kinds_for(ver):
    return ['num', 'alnum', 'byte', 'kanji']


def count_bits_kind(kind, ver, level):
    return count_bits(MODE[kind], ver)


def seg_bits_len_n(kind, n, ver, level):
    body = {'num': 10 * (n // 3) + (0, 4, 7)[n % 3], 'alnum': 11 * (n // 2) + 6 * (n % 2), 'byte': 8 * n, 'kanji': 13 * n}[kind]
    return 4 + count_bits(MODE[kind], ver) + body


def capacity_bits(ver, level):
    return 8 * data_codewords(ver, level)


def dims(ver):
    return size_of(ver), size_of(ver)


def terminator_bits(ver):
    return 4
