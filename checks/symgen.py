"""Structured generators of symbol descriptions for the three symbologies (shared by C01-C10).

A description is (sym, version, level, mask, segments) with segments = [(mode, bytes)].
Generators are mostly-valid by construction (from the reference tables in refqr/refmicro/refrmqr);
a separate malformed stream is produced by `malformed`.
"""
from checks import refqr, refmicro, refrmqr
from checks.c17 import REF_INV

KANJI_CHARS = [chr(c) for c in sorted(REF_INV)]
ALNUM = refqr.ALNUM

REFS = {'qr': refqr, 'mq': refmicro, 'rm': refrmqr}


def ref(sym):
    return REFS[sym]


def configs(sym):
    """all (version, level) pairs of a symbology"""
    return ref(sym).configs()


def masks(sym):
    return ref(sym).MASK_RANGE


def payload(r, kind, n):
    """n characters of the given mode kind ('num','alnum','byte','kanji') -> bytes"""
    if kind == 'num':
        return bytes(r.choice(b'0123456789') for _ in range(n))
    if kind == 'alnum':
        return bytes(r.choice(ALNUM) for _ in range(n))
    if kind == 'byte':
        c = r.below(4)
        if c == 0:
            return r.bytes(n)
        if c == 1:
            return bytes(r.choice(b'abcdefghijklmnopqrstuvwxyz ,.') for _ in range(n))
        if c == 2:
            return (''.join(r.choice('añ日é😀 ') for _ in range(n)).encode())[:n]
        return bytes(r.choice([0, 255, 0x80, 0x30, 0x41]) for _ in range(n))
    return ''.join(r.choice(KANJI_CHARS) for _ in range(n)).encode()


KINDS = ['num', 'alnum', 'byte', 'kanji']


def mode_of(sym, kind):
    return ref(sym).MODE[kind]


def kinds_for(sym, ver):
    return ref(sym).kinds_for(ver)


def seg_len_bits(sym, kind, n, ver, level):
    return ref(sym).seg_bits_len_n(kind, n, ver, level)


def max_count(sym, kind, ver, level):
    return (1 << ref(sym).count_bits_kind(kind, ver, level)) - 1


def fit_single(sym, ver, level, kind, spare):
    """largest n such that a single segment leaves at least `spare` bits, or None"""
    cap = ref(sym).capacity_bits(ver, level)
    lo, hi, best = 0, max_count(sym, kind, ver, level), None
    while lo <= hi:
        mid = (lo + hi) // 2
        if seg_len_bits(sym, kind, mid, ver, level) + spare <= cap:
            best = mid
            lo = mid + 1
        else:
            hi = mid - 1
    return best


def exact_fill(sym, r, ver, level, spare):
    """segments whose total standard bit length is capacity - spare exactly, if the generator finds one"""
    cap = ref(sym).capacity_bits(ver, level)
    target = cap - spare
    ks = kinds_for(sym, ver)
    for _ in range(40):
        segs, used = [], 0
        nseg = r.range(0, 2)
        for _ in range(nseg):
            k = r.choice(ks)
            n = r.range(1, 12)
            l = seg_len_bits(sym, k, n, ver, level)
            if n <= max_count(sym, k, ver, level) and used + l < target - 12:
                segs.append((k, n))
                used += l
        rem = target - used
        # find a closing segment of exactly rem bits
        cands = []
        for k in ks:
            mc = max_count(sym, k, ver, level)
            per = {'num': 10 / 3, 'alnum': 5.5, 'byte': 8, 'kanji': 13}[k]
            est = int(max(0, rem - seg_len_bits(sym, k, 0, ver, level)) / per)
            for n in range(max(1, est - 3), est + 4):
                if n <= mc and seg_len_bits(sym, k, n, ver, level) == rem:
                    cands.append((k, n))
        if cands:
            segs.append(r.choice(cands))
            return [(mode_of(sym, k), payload(r, k, n)) for k, n in segs]
    return None


def exact_lists(sym, ver, level, spare, maxsegs=3, limit=60):
    """ALL lists (up to `limit`) of at most `maxsegs` segments of pairwise different adjacent kinds whose standard bit
    length is exactly capacity - spare: systematic counterpart of exact_fill for small symbols; returns [(kind, n)] lists"""
    cap = ref(sym).capacity_bits(ver, level)
    ks = kinds_for(sym, ver)
    out = []

    def rec(rem, prev, acc):
        if len(out) >= limit:
            return
        for k in ks:
            if k == prev:
                continue
            mc = max_count(sym, k, ver, level)
            for n in range(1, mc + 1):
                b = seg_len_bits(sym, k, n, ver, level)
                if b > rem:
                    break
                if b == rem:
                    out.append(acc + [(k, n)])
                    if len(out) >= limit:
                        return
                elif len(acc) + 1 < maxsegs:
                    rec(rem - b, k, acc + [(k, n)])
    rec(cap - spare, None, [])
    return out


def tail_corpus(r, quick=True):
    """the end of the bit stream, deterministically: for every Micro QR symbol (and the two smallest QR versions and three rMQR
    versions) segment lists that leave exactly 0..12 bits of the data capacity, so that the terminator, the byte alignment,
    the pad codewords and the 4-bit final codeword of M1/M3 are met in every relative position;
    returns [(sym, ver, level, mask, segs, label)]"""
    out = []
    cfgs = [('mq', v, l) for (v, l) in configs('mq')] + [('qr', v, l) for v in (1, 2) for l in (0, 1, 2, 3)] + [('rm', v, l) for v in (0, 10, 16) for l in (0, 1)]
    for (sym, ver, level) in cfgs:
        ms = masks(sym)
        for spare in range(0, 13):
            lists = exact_lists(sym, ver, level, spare, 2, 2 if quick else 6)
            for li, lst in enumerate(lists):
                segs = [(ref(sym).MODE[k], payload(r, k, n)) for k, n in lst]
                mask = 0 if sym == 'rm' else ms[(spare + li + ver) % len(ms)]
                out.append((sym, ver, level, mask, segs, 'tail-spare-%d' % spare))
    return out


def rounding_adversarial(sym, quick=False, seed=1):
    """payloads of exactly (and one below) the largest length that fits the largest symbol of a level as ONE byte-mode
    segment, built from periods on which the mode selection's cost model (sixths of a bit, rounded up per segment) gains
    or loses against plain bytes; returns [(level, payload)]"""
    al, hi = 'α'.encode(), '日'.encode()
    kj = '漢'.encode()
    periods = [al * 6 + hi + b'1' + al * 10 + b'1', al * 6 + b'1', al * 9 + hi + b'7', hi * 3 + b'12' + al * 5 + b'3',
               b'a1234', b'ab1234567', b'aABCDEFG', b'a' + b'ABCDEFGHIJKLMNO' + b'b', b'1234ABCDEFG', b'12345678901234567ABCDEFG' + b'x',
               al * 4 + b'ABCDEFG', b'1' + hi, b'12' + al + b'A', kj * 3 + b'5' + kj * 3 + b'55' + kj * 2 + b'55' + kj * 2 + b'A']
    rf = ref(sym)
    out = []
    for level in sorted({l for (_, l) in rf.configs()}):
        nmax = 0
        for (v, l) in rf.configs():
            if l == level and 'byte' in rf.kinds_for(v):
                nmax = max(nmax, fit_single(sym, v, level, 'byte', 0) or 0)
        if nmax == 0:
            continue
        for pi, per in enumerate(periods):
            if quick and sym == 'qr' and (pi + level + seed) % 3 and pi not in (0, len(periods) - 1):
                continue
            for n in (nmax, nmax - 1):
                body = per * (n // len(per))
                out.append((level, (body + b'a' * (n - len(body)))[:n]))
    return out


def random_segs(sym, r, ver, level, nonempty=True):
    cap = ref(sym).capacity_bits(ver, level)
    ks = kinds_for(sym, ver)
    segs, used = [], 0
    for _ in range(r.range(1, 5)):
        k = r.choice(ks)
        mc = max_count(sym, k, ver, level)
        room = cap - used - seg_len_bits(sym, k, 0, ver, level)
        if room <= 0:
            break
        per = {'num': 10 / 3, 'alnum': 5.5, 'byte': 8, 'kanji': 13}[k]
        nmax = min(mc, int(room / per))
        lo = 1 if nonempty else 0
        if nmax < lo:
            continue
        n = r.range(lo, nmax) if r.chance(1, 2) else r.range(lo, min(nmax, 20))
        while n >= lo and used + seg_len_bits(sym, k, n, ver, level) > cap:
            n -= 1
        if n < lo:
            continue
        segs.append((mode_of(sym, k), payload(r, k, n)))
        used += seg_len_bits(sym, k, n, ver, level)
    if not segs:
        k = ks[0]
        n = fit_single(sym, ver, level, k, 0)
        if n and n >= 1:
            segs = [(mode_of(sym, k), payload(r, k, min(n, 3)))]
    return segs


def shapes(sym, r, ver, level, how_many):
    """a list of (label, segments) for one configuration: exact fills with 0..9 spare bits, maximum counts,
    single-mode maxima, mixed random"""
    out = []
    ks = kinds_for(sym, ver)
    labels = []
    for spare in range(10):
        labels.append(('spare%d' % spare, spare))
    # room for the whole terminator and at least one pad codeword, in particular the cases where
    # the terminator ends exactly on a codeword boundary
    cap = ref(sym).capacity_bits(ver, level)
    term = ref(sym).terminator_bits(ver)
    for spare in range(10, min(cap, 48)):
        if (cap - spare + term) % 8 == 0 or r.chance(1, 6):
            labels.append(('spare%d' % spare, spare))
    r.shuffle(labels)
    for lab, spare in labels:
        s = exact_fill(sym, r, ver, level, spare)
        if s:
            out.append((lab, s))
        if len(out) >= max(1, how_many // 2):
            break
    for k in ks:
        n = fit_single(sym, ver, level, k, 0)
        if n and n >= 1:
            out.append(('max-' + k, [(mode_of(sym, k), payload(r, k, n))]))
            if n >= 2:
                out.append(('max-1-' + k, [(mode_of(sym, k), payload(r, k, n - 1))]))
    while len(out) < how_many + len(ks):
        out.append(('mixed', random_segs(sym, r, ver, level)))
    r.shuffle(out)
    return out[:how_many]


def enc_line(sym, ver, level, mask, segs):
    body = '%d %s' % (len(segs), ' '.join('%d %s' % (m, d.hex() if d else '-') for m, d in segs)) if segs else '0'
    if sym == 'rm':
        return 'rm.enc %d %d %s' % (ver, level, body)
    return '%s.enc %d %d %d %s' % (sym, ver, level, mask, body)


def parse_desc(out):
    """`ok v l m nseg (mode hex)*` -> (v, l, m, segs) or None"""
    t = out.split()
    if not t or t[0] != 'ok':
        return None
    v, l, m, n = int(t[1]), int(t[2]), int(t[3]), int(t[4])
    segs = []
    for i in range(n):
        segs.append((int(t[5 + 2 * i]), bytes.fromhex(t[6 + 2 * i]) if t[6 + 2 * i] != '-' else b''))
    return v, l, m, segs


def show_segs(segs):
    return ' '.join('%d:%s' % (m, d[:16].hex() + ('..' if len(d) > 16 else '')) for m, d in segs)
