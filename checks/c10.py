"""C10 — automatic masking picks the standard's best pattern; explicit masks are honoured."""
from checks import symgen, refqr, refmicro

ID = 'C10'
PROP_MODULES = ['QRV.Props.C10', 'QRV.Props.C01Micro', 'QRV.Props.C10Penalty', 'QRV.Props.C10Finished']
RULE = ('QR: every (version, level) pair (quick: a rotating third; thorough: all) and Micro QR: all 8 pairs, with structured payloads, encoded with Mask=auto and with every explicit '
        'mask. Oracle: the auto symbol equals the explicit symbol of the mask its format information names; that mask attains the minimum ISO/IEC 18004 penalty N1+N2+N3+N4 '
        '(reference implementation in checks/refqr.py, N4 in either boundary reading) resp. the maximum Micro QR edge score among all patterns; explicit masks equal the reference '
        'encoder\'s symbol (C02). Scoring functions are also compared term by term with the Lean model on random and adversarial images. non-trivial = auto-mask cases')
TRUSTED = [
    'Lean 4.33.0 kernel; axioms per theorem as listed',
    'python penalty / edge-score reference written from ISO/IEC 18004 7.8.3 (strict reading of the 1:1:3:1:1 rule: four light modules must exist inside the symbol on one side)',
    'models of Point/PointMicro and of the mask loops tied by correspondence',
]
ASSUMPTIONS = ['N3: the light area of four modules beside the 1:1:3:1:1 pattern must lie inside the symbol; N4 at an exact 5% boundary: either reading accepted']
MANIFEST = {
    'technique': 'Lean 4: the automatic mask of the QR / Micro QR models is the first argmin / argmax of the scores they compute and the symbol equals the explicit-mask symbol; mask canvases = standard formulas (C02), Mask exact (C18); the scores themselves vs a reference scorer by differential runs',
    'text': ('QRV/Props/C10.lean proves: with Mask=auto the QR model emits exactly the symbol it emits for an explicit pattern m in 0..7, and m is the first pattern attaining the MINIMUM of the eight penalty '
             'scores computed on the candidate symbols with format information and dark module in place (qr_auto_is_argmin); the Micro QR loop returns the first pattern attaining the MAXIMUM edge score, and (C01Micro.micro_auto_is_explicit) with Mask=auto the Micro QR model emits exactly the symbol of the explicit pattern that loop returns on the unmasked symbol. '
             'Explicit masks: the canvases are the standard formulas on every module (kernel evaluation, C02) and Mask applies exactly that pattern to exactly the non-function modules (C18). '
             'QRV/Props/C10Penalty.lean proves that the scores are the standard\'s: on every regular n x n bitmap the run, block and finder-pattern counters (transcribed Go loops, incl. the swapped BinaryAt(y, x) of blockCount) equal the declarative N1, N2, N3 of Spec/Penalty.lean and Micro QR\'s score equals the edge score 16 x smaller + larger; N4 is IEEE double arithmetic in Go (Float is opaque to the kernel) and stays the model\'s expression. '
             'Props/C10Finished.lean states the property on the FINISHED symbols: with Mask=auto the output is one of the 8 (4) explicit outputs and attains the minimum of N1+N2+N3+N4 (maximum edge score) among them, first pattern winning (the scored candidates are proved byte-identical to the finished symbols: format writes commute with Mask). '
             'The complete penalty incl. N4 is compared with an exact-rational reference scorer on finished symbols (optimal under at least one admissible reading of N3/N4).'),
    'note': 'Trusted: Lean kernel; python scorer; pointOnesCount uses float64 in Go and Lean Float in the model (opaque to proofs; irrelevant to the argmin theorem).',
}


def budget(ctx):
    return 1 if ctx.tier == 'quick' else 4


def gen(ctx):
    r = ctx.rng
    meta, L = [], []
    for sym in ('qr', 'mq'):
        ms = symgen.masks(sym)
        for ci, (ver, level) in enumerate(symgen.configs(sym)):
            if sym == 'qr' and ctx.tier == 'quick' and (ci + ctx.seed) % 3 and ver > 6:
                continue
            for label, segs in symgen.shapes(sym, r, ver, level, budget(ctx)):
                for mask in [-1] + ms:
                    L.append(symgen.enc_line(sym, ver, level, mask, segs))
                    meta.append((sym, ver, level, mask, segs))
    ctx.c10 = meta
    # the scoring functions themselves, on structured bitmaps (model and implementation on the same lines; python reference in the oracle)
    S = []
    for n in (11, 13, 15, 17):
        for a in range(n - 1):          # dark modules among x = 1..n-2 of the bottom row
            for b in range(n - 1):      # dark modules among y = 1..n-2 of the right column
                for c in (0, 1):        # the corner (n-1, n-1) belongs to both edges
                    if ctx.tier == 'quick' and n < 17 and (a + 2 * b + c + ctx.seed) % 3:
                        continue
                    m = [[r.below(2) for _ in range(n)] for _ in range(n)]
                    xs = list(range(1, n - 1))
                    ys = list(range(1, n - 1))
                    r.shuffle(xs)
                    r.shuffle(ys)
                    for x in range(1, n - 1):
                        m[n - 1][x] = 0
                    for y in range(1, n - 1):
                        m[y][n - 1] = 0
                    for x in xs[:a]:
                        m[n - 1][x] = 1
                    for y in ys[:b]:
                        m[y][n - 1] = 1
                    m[n - 1][n - 1] = c
                    S.append('bmp.pointmicro ' + refqr.to_image_str(m))
    for n in (21, 25, 29, 45):
        for k in range(12 if ctx.tier == 'quick' else 60):
            dens = [2, 5, 8, 1, 9][k % 5]
            m = [[1 if r.below(10) < dens else 0 for _ in range(n)] for _ in range(n)]
            kind = k % 4
            if kind == 1:    # finder-like rows / columns flush against the borders and in the middle
                pat = [1, 0, 1, 1, 1, 0, 1]
                for _ in range(6):
                    y, x0 = r.below(n), r.choice([0, n - 7, r.below(n - 6), 4, n - 11])
                    if r.below(2):
                        for j in range(7):
                            m[y][x0 + j] = pat[j]
                        for j in range(-4, 0):
                            if 0 <= x0 + j:
                                m[y][x0 + j] = 0 if r.below(4) else 1
                    else:
                        for j in range(7):
                            m[x0 + j][y] = pat[j]
            elif kind == 2:  # long runs and blocks
                for _ in range(5):
                    y, c = r.below(n), r.below(2)
                    for x in range(r.below(n // 2), n - r.below(n // 2)):
                        m[y][x] = c
                        if y + 1 < n and r.below(2):
                            m[y + 1][x] = c
            elif kind == 3:  # dark ratio near the 5% steps
                tot = n * n
                want = (tot * r.choice([45, 50, 55, 40, 60]) + 50) // 100 + r.range(-1, 1)
                cells = [(x, y) for y in range(n) for x in range(n)]
                r.shuffle(cells)
                for idx2, (x, y) in enumerate(cells):
                    m[y][x] = 1 if idx2 < want else 0
            S.append('bmp.point ' + refqr.to_image_str(m))
    # automatic masking only, many more symbols with version information (v >= 7) and Micro QR M4: implementation against
    # model (whose selection is proved to be the argmin / argmax); a disagreement breaks the tie and starts `search`
    A = []
    cq = [c for c in symgen.configs('qr') if c[0] >= 7]
    for k in range(360 if ctx.tier == 'quick' else 3000):
        ver, level = cq[r.below(len(cq))]
        A.append(symgen.enc_line('qr', ver, level, -1, symgen.random_segs('qr', r, ver, level)))
    for k in range(300 if ctx.tier == 'quick' else 6000):
        ver, level = r.choice([c for c in symgen.configs('mq')])
        A.append(symgen.enc_line('mq', ver, level, -1, symgen.random_segs('mq', r, ver, level)))
    ctx.c10_scoring = len(S)
    return L + S + A


def score(sym, m):
    """list of scores, one per admissible reading of the standard (a single one for Micro QR)"""
    if sym == 'qr':
        return refqr.penalty_variants(m)
    return [refmicro.edge_score(m)]


def oracle(ctx, lines, out):
    meta = ctx.c10
    v, cnt = [], {}
    i = 0
    while i < len(meta):
        sym, ver, level, mask, segs = meta[i]
        ms = symgen.masks(sym)
        group = out[i:i + 1 + len(ms)]
        auto, expl = group[0], group[1:]
        key = None
        if not all(g.startswith('ok ') for g in group):
            key = '%s:encode-failed' % sym
            detail = '%s v%d l%d: encoding fails for some mask choice: %s' % (sym, ver, level, [g[:20] for g in group])
        else:
            mats = [refqr.from_image_str(g[3:]) for g in expl]
            am = refqr.from_image_str(auto[3:])
            rd = (refqr if sym == 'qr' else refmicro).read(am)
            named = rd[2] if rd else None
            if named is None or am != mats[named]:
                key = '%s:auto-not-an-explicit-symbol' % sym
                detail = '%s v%d l%d: the auto-masked symbol is not the explicit symbol of the mask its format names (%s)' % (sym, ver, level, named)
            else:
                sc = [score(sym, m) for m in mats]
                nread = len(sc[0])
                if sym == 'qr':
                    # optimal under at least one admissible reading
                    ok = any(sc[named][k] <= min(s[k] for s in sc) for k in range(nread))
                    bestm = min(range(len(sc)), key=lambda k: sc[k][0])
                else:
                    ok = sc[named][0] >= max(s[0] for s in sc)
                    bestm = max(range(len(sc)), key=lambda k: sc[k][0])
                if not ok:
                    key = '%s:auto-mask-not-optimal' % sym
                    detail = ('%s v%d l%d [%s]: automatic masking chose pattern %d (score %d) but pattern %d scores %d; scores %s'
                              % (sym, ver, level, symgen.show_segs(segs), named, sc[named][0], bestm, sc[bestm][0], [s[0] for s in sc]))
        if key:
            cnt[key] = cnt.get(key, 0) + 1
            if cnt[key] <= 2:
                v.append({'key': key, 'lines': lines[i:i + 1 + len(ms)], 'expect': '', 'got': '', 'detail': detail})
        i += 1 + len(ms)
    # scoring functions on structured bitmaps
    for l, o in zip(lines[len(meta):], out[len(meta):]):
        key = None
        if not l.startswith('bmp.'):
            continue
        m = refqr.from_image_str(l.split(' ', 1)[1])
        n = len(m)
        if l.startswith('bmp.pointmicro '):
            want = refmicro.edge_score(m)
            if o != 'ok %d' % want:
                s1, s2 = sum(m[n - 1][1:]), sum(m[y][n - 1] for y in range(1, n))
                key = 'mq:edge-score'
                detail = 'PointMicro of a %dx%d bitmap with %d dark modules in the bottom row and %d in the right column: `%s`, the edge score 16 x smaller + larger is %d' % (n, n, s1, s2, o[:30], want)
        elif l.startswith('bmp.point '):
            var = refqr.penalty_variants(m)
            parts = refqr.penalty_parts(m)
            t = o.split()
            if len(t) != 5 or t[0] != 'ok':
                key, detail = 'qr:penalty-failed', 'Point fails on a %dx%d bitmap: %s' % (n, n, o[:60])
            else:
                a, b, c, d = (int(x) for x in t[1:])
                if b != parts['n1'] or c != parts['n2'] or a not in parts['n3'] or d not in parts['n4']:
                    key = 'qr:penalty-feature'
                    detail = ('penalty features of a %dx%d bitmap: implementation N3=%d N1=%d N2=%d N4=%d, reference N3 in %s N1=%d N2=%d N4 in %s'
                              % (n, n, a, b, c, d, sorted(set(parts['n3'])), parts['n1'], parts['n2'], sorted(set(parts['n4']))))
        if key:
            cnt[key] = cnt.get(key, 0) + 1
            if cnt[key] <= 2:
                v.append({'key': key, 'lines': [l], 'expect': '', 'got': o[:80], 'detail': detail})
    for x in v:
        x['detail'] += ' (%d such cases in this run)' % cnt.get(x['key'], 1)
    return v


def nontrivial(line, out):
    t = line.split()
    return t[0].startswith('bmp.') or t[3] == '-1'


def search(ctx, broken, diffs):
    """the tie is broken (model and implementation disagree, or a proof no longer checks): sweep automatic masking
    over many more symbols, first of the versions on which they disagree"""
    r = ctx.rng
    vs = []
    for d in diffs:
        t = d['line'].split()
        if t[0] in ('qr.enc', 'mq.enc'):
            vs.append((t[0][:2], int(t[1])))
    cfgs = []
    for sym in ('qr', 'mq'):
        for (ver, level) in symgen.configs(sym):
            w = 6 if (sym, ver) in vs else 1
            cfgs += [(sym, ver, level)] * w
    r.shuffle(cfgs)
    meta, L = [], []
    for (sym, ver, level) in cfgs[: 500]:
        ms = symgen.masks(sym)
        label, segs = symgen.shapes(sym, r, ver, level, 1)[0]
        for mask in [-1] + ms:
            L.append(symgen.enc_line(sym, ver, level, mask, segs))
            meta.append((sym, ver, level, mask, segs))
    save = ctx.c10
    ctx.c10 = meta
    out = ctx.go(L)
    res = oracle(ctx, L, out)
    ctx.c10 = save
    return res
