"""C09 — API calls are pure, repeatable and safe to run concurrently."""
import os
import re
import subprocess
from checks import symgen

ID = 'C09'
NEED_RACE = True
RULE = ('histories: for payloads of every mode mix (digits, alphanumerics, bytes, kanji, invalid UTF-8, empty) x levels x kanji on/off x three packages, the call sequence '
        'New, New, EncodeToBitmap x2, DecodeBitmap x2 on the same bitmap, DecodeBitmap on a pristine copy, Encode x2, EncodeToBitmap again; before and after every call the '
        'payload slice, the description (deep), the input bitmap and a hash of ALL package-level tables are compared, and repeated calls must answer equally. '
        'schedules: the same calls from 2-16 goroutines on a SHARED payload slice, description and bitmap under the Go race detector (halt on first report), results compared '
        'with the sequential run. Decoder post-state is also compared with the Lean model (decfull lines). non-trivial = history with a successful decode; distinct = distinct inputs')
TRUSTED = [
    'Lean 4.33.0 kernel; axioms per theorem as listed',
    'translator: write-set fact (functions assigning to package-level variables) regenerated from the Go AST on every run',
    'Go race detector and the harness\'s before/after hashing are runtime evidence for the schedule clause, not theorems',
    'decoder models return the caller\'s bitmap post-state; tied by correspondence',
]
ASSUMPTIONS = ['"all interleavings" is argued from: no shared mutable state (write-set fact + argument preservation), not proved over schedules']
PARTIAL = 'argument preservation and the write-set fact are obligations; the all-interleavings clause is exploration-backed (race detector, multi-goroutine replay)'
MANIFEST = {
    'technique': 'Lean 4: argument-preservation theorems on models that return post-states + regenerated write-set fact; histories and goroutine schedules explored under the race detector',
    'text': ('Props/C09.lean proves that the decoder models return the caller\'s bitmap unchanged and that the only function of the library writing a package-level variable is '
             'bitstream.init (a fact regenerated from the Go AST on every run, so a new write to shared state breaks the obligation). Determinism and history-independence of the '
             'models are by construction (pure functions). The schedule clause is not a theorem: it is argued from the absence of shared mutable state and backed by call histories '
             'with before/after hashing of every argument and table and by multi-goroutine runs on shared inputs under the Go race detector.'),
    'note': 'Trusted: Lean kernel; translator write-set extraction; Go race detector (runtime evidence); models tied by correspondence.',
}

KAN = '日本語漢字点茗'


def payloads(r, n):
    out = [b'', b'1', b'HELLO WORLD', b'hello', '点茗'.encode(), '日本語abc123'.encode(), b'\xe3\x81', b'12345678901234567890ABC$%abc']
    while len(out) < n:
        parts = []
        for _ in range(r.range(1, 5)):
            k = r.choice(symgen.KINDS)
            parts.append(symgen.payload(r, k, r.range(1, 10)))
        out.append(b''.join(parts))
    return out


LEVELS = {'qr': [0, 1, 2, 3], 'mq': [0, 1, 2, 3], 'rm': [0, 1]}


def gen(ctx):
    r = ctx.rng
    L = []
    n = 24 if ctx.tier == 'quick' else 300
    ps = payloads(r, n)
    encs, em = [], []
    for sym in ('qr', 'mq', 'rm'):
        for i, p in enumerate(ps):
            for kanji in (0, 1):
                level = LEVELS[sym][(i + kanji + ctx.seed) % len(LEVELS[sym])]
                L.append('api.pure %s %d %d %s' % (sym, level, kanji, p.hex() if p else '-'))
    # decoder post-state lines (correspondence with the model)
    for sym in ('qr', 'mq', 'rm'):
        cfgs = symgen.configs(sym)
        for k in range(6 if ctx.tier == 'quick' else 40):
            ver, level = cfgs[r.below(len(cfgs))]
            label, segs = symgen.shapes(sym, r, ver, level, 1)[0]
            encs.append(symgen.enc_line(sym, ver, level, 0 if sym == 'rm' else r.choice(symgen.masks(sym)), segs))
            em.append(sym)
    outs = ctx.go(encs)
    for sym, o in zip(em, outs):
        if o.startswith('ok '):
            L.append('%s.decfull %s' % (sym, o[3:]))
    # call sequences across FAILED calls: valid, invalid (rejected after some bits were written: bad character in a later
    # segment, data too large, count too long), the same valid description again, ... - all in one process, in order.
    # Equal lines must get equal answers (and each answer is also compared with the pure model).
    hist = []
    for sym in ('qr', 'mq', 'rm'):
        cfgs = symgen.configs(sym)
        ref = symgen.ref(sym)
        for k in range(4 if ctx.tier == 'quick' else 30):
            ver, level = cfgs[r.below(len(cfgs))]
            mask = 0 if sym == 'rm' else r.choice(symgen.masks(sym))
            label, segs = symgen.shapes(sym, r, ver, level, 1)[0]
            valid = symgen.enc_line(sym, ver, level, mask, segs)
            kinds = symgen.kinds_for(sym, ver)
            k0 = kinds[0]
            good = (ref.MODE[k0], symgen.payload(r, k0, 2))
            bads = [[good, (ref.MODE['num'], b'12a4')], [good, good, (ref.MODE[kinds[-1]], symgen.payload(r, kinds[-1], 1) + b'\xff\xfe') if kinds[-1] in ('alnum', 'kanji') else (ref.MODE['num'], b'9x')],
                    [(ref.MODE[k0], symgen.payload(r, k0, 3))] * 400]
            seq = [valid]
            for b in bads:
                seq += [symgen.enc_line(sym, ver, level, mask, b), valid]
            hist.append(seq)
    ctx.c09_hist = (len(L), hist)
    for seq in hist:
        L += seq
    ctx.c09_payloads = ps
    return L


def model_line(l):
    return '.decfull ' in l or '.enc ' in l


def oracle(ctx, lines, out):
    v, cnt = [], {}
    for l, o in zip(lines, out):
        key = None
        if l.startswith('api.pure'):
            if o.startswith('impure'):
                what = o.split(' ', 1)[1]
                key = '%s:%s' % (l.split()[1], what.split(',')[0])
                detail = '%s history on payload %s (level %s, kanji %s): %s' % (l.split()[1], l.split()[4][:40], l.split()[2], l.split()[3], what)
            elif not o.startswith('ok'):
                key = '%s:history-%s' % (l.split()[1], o.split()[0])
                detail = 'history run gives `%s` on %s' % (o[:60], l[:80])
        elif '.decfull ' in l and o.startswith('ok '):
            before = l.split(' ', 1)[1]
            after = o.split(' | ')[1] if ' | ' in o else ''
            if after != before:
                key = '%s:DecodeBitmap-altered-bitmap' % l.split('.')[0]
                detail = '%s.DecodeBitmap changes the pixels of the caller\'s bitmap (it is unmasked in place)' % l.split('.')[0]
        if key:
            cnt[key] = cnt.get(key, 0) + 1
            if cnt[key] <= 2:
                v.append({'key': key, 'lines': [l], 'expect': 'ok', 'got': o[:100], 'detail': detail})
    # sequences across failed calls: equal calls, equal answers
    if hasattr(ctx, 'c09_hist') and len(lines) > ctx.c09_hist[0]:
        pos = ctx.c09_hist[0]
        for seq in ctx.c09_hist[1]:
            outs = out[pos:pos + len(seq)]
            pos += len(seq)
            first = {}
            for j, (l, o) in enumerate(zip(seq, outs)):
                if o.startswith('panic') or o in ('crash', 'timeout'):
                    key = '%s:encode-%s' % (l.split('.')[0], o.split()[0])
                    cnt[key] = cnt.get(key, 0) + 1
                    if cnt[key] <= 2:
                        v.append({'key': key, 'lines': seq[:j + 1], 'expect': 'ok or error', 'got': o[:100], 'detail': 'EncodeToBitmap %s in a call sequence' % o.split()[0]})
                if l in first and first[l][1] != o:
                    key = '%s:history-dependent-result' % l.split('.')[0]
                    cnt[key] = cnt.get(key, 0) + 1
                    if cnt[key] <= 2:
                        v.append({'key': key, 'lines': seq[:j + 1], 'expect': first[l][1][:100], 'got': o[:100],
                                  'detail': 'the same EncodeToBitmap call answers differently after an intervening rejected call: call %d and call %d of the sequence (%s ... vs %s ...)' % (first[l][0] + 1, j + 1, first[l][1][:40], o[:40])})
                first.setdefault(l, (j, o))
    elif l0 := [l for l in lines if '.enc ' in l]:
        # replay of a recorded sequence
        first = {}
        for j, (l, o) in enumerate(zip(lines, out)):
            if '.enc ' in l:
                if l in first and first[l][1] != o:
                    v.append({'key': '%s:history-dependent-result' % l.split('.')[0], 'lines': lines[:j + 1], 'expect': first[l][1][:100], 'got': o[:100],
                              'detail': 'the same EncodeToBitmap call answers differently after an intervening rejected call (call %d vs call %d)' % (first[l][0] + 1, j + 1)})
                first.setdefault(l, (j, o))
    # schedules, under the race detector
    r = ctx.rng
    conc = []
    for sym in ('qr', 'mq', 'rm'):
        for i, p in enumerate(getattr(ctx, 'c09_payloads', [])[: (8 if ctx.tier == 'quick' else 60)]):
            for kanji in (0, 1):
                conc.append('api.conc %s %d %d %d %s' % (sym, LEVELS[sym][i % len(LEVELS[sym])], kanji, r.choice([2, 4, 8, 16]), p.hex() if p else '-'))
    env = {'GORACE': 'halt_on_error=1 exitcode=66'}
    cout = ctx.go(conc, race=True, env=env)
    ctx.c09_conc = len(conc)
    for l, o in zip(conc, cout):
        key = None
        if o in ('crash', 'timeout'):
            rep = subprocess.run([ctx.harness_race], input=l + '\n', capture_output=True, text=True, env=dict(os.environ, **env))
            txt = rep.stderr
            if 'DATA RACE' in txt:
                funcs = re.findall(r'\n\s+(?:github.com/shogo82148/qrcode[\w/]*\.)(\(?\*?[\w.]+\)?(?:\.\w+)*)\(\)', txt)
                site = next((f for f in funcs if not f.startswith('Verif')), funcs[0] if funcs else '?')
                key = '%s:data-race:%s' % (l.split()[1], site)
                detail = 'data race with %s goroutines on shared inputs (payload %s, kanji %s): first frames %s' % (l.split()[4], l.split()[5][:30], l.split()[3], funcs[:4])
            else:
                key = '%s:concurrent-%s' % (l.split()[1], o)
                detail = 'concurrent run %s: %s' % (o, txt[-200:])
        elif o.startswith('differs'):
            key = '%s:concurrent-results-differ' % l.split()[1]
            detail = 'results under concurrency differ from the sequential run: %s (%s)' % (o, l[:80])
        if key:
            cnt[key] = cnt.get(key, 0) + 1
            if cnt[key] <= 2:
                v.append({'key': key, 'lines': [l], 'expect': 'ok', 'got': o[:100], 'detail': detail})
    for x in v:
        x['detail'] += ' (%d such cases in this run)' % cnt.get(x['key'], 1)
    return v


def extra(ctx):
    return {'violations': [], 'evaluations': getattr(ctx, 'c09_conc', 0), 'notes': {'concurrent_histories_under_race_detector': getattr(ctx, 'c09_conc', 0)}}


def replay_extra(ctx, r):
    res = []
    for l in r['lines']:
        if l.startswith('api.conc'):
            env = {'GORACE': 'halt_on_error=1 exitcode=66'}
            rep = subprocess.run([ctx.harness_race], input=l + '\n', capture_output=True, text=True, env=dict(os.environ, **env))
            print(rep.stdout[-200:], rep.stderr[-1500:])
            if rep.returncode != 0 or not rep.stdout.startswith('ok'):
                res.append({'key': r.get('key', 'conc'), 'detail': 'concurrent run fails: rc=%d %s' % (rep.returncode, rep.stdout[:80])})
    return res


def nontrivial(line, out):
    return out.startswith('ok') or out.startswith('impure')


def search(ctx, broken, diffs):
    return []
