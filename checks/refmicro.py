"""Independent reference for Micro QR Code (ISO/IEC 18004): M1-M4.  Written from the standard as
remembered (no ISO text is available offline): symbol numbers, capacities, indicator widths,
terminators 3/5/7/9, four mask patterns, format BCH(15,5) xor 0x4445.  Level numbering follows
/repo (Check=2, L=1, M=0, Q=3); `version` is 1..4.
"""
from checks import gf256
from checks.c17 import REF_INV, REF
from checks.refqr import ALNUM, bits_of, utf8_chars, bch, to_image_str, from_image_str  # noqa: F401

# (version, level) -> (symbol number, total codewords, data codewords, data bits, ec codewords)
TABLE = {
    (1, 2): (0, 5, 3, 20, 2),
    (2, 1): (1, 10, 5, 40, 5),
    (2, 0): (2, 10, 4, 32, 6),
    (3, 1): (3, 17, 11, 84, 6),
    (3, 0): (4, 17, 9, 68, 8),
    (4, 1): (5, 24, 16, 128, 8),
    (4, 0): (6, 24, 14, 112, 10),
    (4, 3): (7, 24, 10, 80, 14),
}
MODE = {'num': 0, 'alnum': 1, 'byte': 2, 'kanji': 3}
KIND = {v: k for k, v in MODE.items()}
MASK_RANGE = list(range(4))
COUNT = {'num': {1: 3, 2: 4, 3: 5, 4: 6}, 'alnum': {2: 3, 3: 4, 4: 5}, 'byte': {3: 4, 4: 5}, 'kanji': {3: 3, 4: 4}}
TERMINATOR = {1: 3, 2: 5, 3: 7, 4: 9}


def configs():
    return sorted(TABLE)


def kinds_for(ver):
    return [k for k in ('num', 'alnum', 'byte', 'kanji') if ver in COUNT[k]]


def count_bits_kind(kind, ver, level):
    return COUNT[kind][ver]


def seg_bits_len_n(kind, n, ver, level):
    body = {'num': 10 * (n // 3) + (0, 4, 7)[n % 3], 'alnum': 11 * (n // 2) + 6 * (n % 2), 'byte': 8 * n, 'kanji': 13 * n}[kind]
    return (ver - 1) + COUNT[kind][ver] + body


def capacity_bits(ver, level):
    return TABLE[(ver, level)][3]


def dims(ver):
    return 9 + 2 * ver, 9 + 2 * ver


def seg_valid(mode, data):
    if mode == 0:
        return all(48 <= c <= 57 for c in data)
    if mode == 1:
        return all(c in ALNUM for c in data)
    if mode == 2:
        return True
    if mode == 3:
        cs = utf8_chars(data)
        return cs is not None and all(c in REF_INV for c in cs)
    return False


def seg_count(mode, data):
    return len(utf8_chars(data)) if mode == 3 else len(data)


def valid(ver, level, mask, segs):
    if (ver, level) not in TABLE or not (-1 <= mask <= 3):
        return False
    total = 0
    for mode, data in segs:
        if mode not in KIND or ver not in COUNT[KIND[mode]] or not seg_valid(mode, data):
            return False
        n = seg_count(mode, data)
        if n >= 1 << COUNT[KIND[mode]][ver]:
            return False
        total += seg_bits_len_n(KIND[mode], n, ver, level)
    return total <= TABLE[(ver, level)][3]


def seg_bits(mode, data, ver):
    k = KIND[mode]
    b = bits_of(mode, ver - 1) + bits_of(seg_count(mode, data), COUNT[k][ver])
    if k == 'num':
        s = data.decode()
        for i in range(0, len(s), 3):
            g = s[i:i + 3]
            b += bits_of(int(g), (0, 4, 7, 10)[len(g)])
    elif k == 'alnum':
        for i in range(0, len(data) - 1, 2):
            b += bits_of(ALNUM.index(data[i]) * 45 + ALNUM.index(data[i + 1]), 11)
        if len(data) % 2:
            b += bits_of(ALNUM.index(data[-1]), 6)
    elif k == 'byte':
        for c in data:
            b += bits_of(c, 8)
    else:
        for c in utf8_chars(data):
            b += bits_of(REF_INV[c], 13)
    return b


def data_bit_forms(ver, level, segs):
    """the admitted forms of the data bit string (list of bit lists of length `data bits`):
    terminator (truncated if necessary), zero bits to the codeword boundary, pad codewords EC/11
    alternately; for M1/M3 the final 4-bit codeword is 0000 (ISO) or, as widely practised, the high
    nibble of the next pad codeword"""
    _, _, dcw, dbits, _ = TABLE[(ver, level)]
    b = []
    for mode, data in segs:
        b += seg_bits(mode, data, ver)
    assert len(b) <= dbits
    b += [0] * min(TERMINATOR[ver], dbits - len(b))
    if len(b) < dbits:
        b += [0] * min(-len(b) % 8, dbits - len(b))
    forms = []
    pads = []
    k = 0
    bb = list(b)
    while dbits - len(bb) >= 8:
        bb += bits_of(0xEC if k % 2 == 0 else 0x11, 8)
        k += 1
    if len(bb) < dbits:
        rest = dbits - len(bb)  # 4
        forms.append(bb + [0] * rest)
        forms.append(bb + bits_of(0xEC if k % 2 == 0 else 0x11, 8)[:rest])
    else:
        forms.append(bb)
    return forms


def codewords(ver, level, bits):
    _, tot, dcw, dbits, ec = TABLE[(ver, level)]
    full = bits + [0] * (dcw * 8 - len(bits))
    data = bytes(int(''.join(map(str, full[i:i + 8])), 2) for i in range(0, dcw * 8, 8))
    par = gf256.parity(ec, data)
    return bits + [x for c in par for x in bits_of(c, 8)]


MASKS = [
    lambda i, j: i % 2 == 0,
    lambda i, j: (i // 2 + j // 3) % 2 == 0,
    lambda i, j: ((i * j) % 2 + (i * j) % 3) % 2 == 0,
    lambda i, j: ((i + j) % 2 + (i * j) % 3) % 2 == 0,
]


def format_bits(ver, level, mask):
    return bch((TABLE[(ver, level)][0] << 2) | mask, 0x537, 11, 15) ^ 0x4445


def function_patterns(ver):
    n = 9 + 2 * ver
    m = [[0] * n for _ in range(n)]
    f = [[False] * n for _ in range(n)]

    def setf(x, y, v):
        if 0 <= x < n and 0 <= y < n:
            m[y][x] = 1 if v else 0
            f[y][x] = True
    for i in range(n):
        setf(i, 0, i % 2 == 0)
        setf(0, i, i % 2 == 0)
    for dy in range(-3, 5):
        for dx in range(-3, 5):
            d = max(abs(dx), abs(dy))
            setf(3 + dx, 3 + dy, d not in (2, 4) and dx <= 3 and dy <= 3)
    for i in range(1, 9):
        setf(8, i, 0)
        setf(i, 8, 0)
    return m, f


def data_coords(ver, f):
    n = 9 + 2 * ver
    out = []
    right = n - 1
    up = True
    while right >= 1:
        for vert in range(n):
            y = n - 1 - vert if up else vert
            for j in range(2):
                x = right - j
                if not f[y][x]:
                    out.append((x, y))
        up = not up
        right -= 2
    return out


def encode_forms(ver, level, mask, segs):
    """admitted reference symbols (list of matrices) for an explicit mask"""
    res = []
    n = 9 + 2 * ver
    for bits in data_bit_forms(ver, level, segs):
        m, f = function_patterns(ver)
        stream = codewords(ver, level, bits)
        coords = data_coords(ver, f)
        assert len(coords) == len(stream), (len(coords), len(stream))
        for k, (x, y) in enumerate(coords):
            v = stream[k]
            if MASKS[mask](y, x):
                v ^= 1
            m[y][x] = v
        b = format_bits(ver, level, mask)
        for i in range(8):
            m[1 + i][8] = (b >> i) & 1
        for i in range(7):
            m[8][7 - i] = (b >> (8 + i)) & 1
        res.append(m)
    return res


def edge_score(m):
    n = len(m)
    s1 = sum(m[n - 1][x] for x in range(1, n))
    s2 = sum(m[y][n - 1] for y in range(1, n))
    return min(s1, s2) * 16 + max(s1, s2)


def read(m):
    n = len(m)
    if n not in (11, 13, 15, 17):
        return None
    ver = (n - 9) // 2
    fb = 0
    for i in range(8):
        fb |= m[1 + i][8] << i
    for i in range(7):
        fb |= m[8][7 - i] << (8 + i)
    cands = [(bin(format_bits(v, l, k) ^ fb).count('1'), v, l, k) for (v, l) in TABLE for k in range(4)]
    d, v, level, mask = min(cands)
    if v != ver:
        return None
    _, f = function_patterns(ver)
    coords = data_coords(ver, f)
    bits = [m[y][x] ^ (1 if MASKS[mask](y, x) else 0) for (x, y) in coords]
    dbits = TABLE[(ver, level)][3]
    return ver, level, mask, parse_stream(bits[:dbits], ver)


def parse_stream(bits, ver):
    pos = 0

    def rd(k):
        nonlocal pos
        if pos + k > len(bits):
            raise EOFError
        v = 0
        for b in bits[pos:pos + k]:
            v = v * 2 + b
        pos += k
        return v
    segs = []
    try:
        while True:
            if len(bits) - pos < (ver - 1) + COUNT['num'][ver]:
                # fewer bits than the shortest header: a (truncated) terminator
                break
            mode = rd(ver - 1) if ver > 1 else 0
            k = KIND.get(mode)
            if k is None or ver not in COUNT[k]:
                return None
            n = rd(COUNT[k][ver])
            if k == 'num' and n == 0:
                break
            if k == 'num':
                s = ''
                for _ in range(n // 3):
                    s += '%03d' % rd(10)
                if n % 3 == 2:
                    s += '%02d' % rd(7)
                elif n % 3 == 1:
                    s += '%d' % rd(4)
                segs.append((mode, s.encode()))
            elif k == 'alnum':
                s = bytearray()
                for _ in range(n // 2):
                    v = rd(11)
                    s += bytes([ALNUM[v // 45], ALNUM[v % 45]])
                if n % 2:
                    s.append(ALNUM[rd(6)])
                segs.append((mode, bytes(s)))
            elif k == 'byte':
                segs.append((mode, bytes(rd(8) for _ in range(n))))
            else:
                segs.append((mode, ''.join(chr(REF[rd(13)]) for _ in range(n)).encode()))
    except (EOFError, IndexError, ValueError):
        return None
    return segs


def terminator_bits(ver):
    return TERMINATOR[ver]
