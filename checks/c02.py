"""C02 — emitted symbols conform to ISO/IEC 18004 and ISO/IEC 23941."""
from checks import symgen, refqr, refmicro, refrmqr

ID = 'C02'
PROP_MODULES = ['QRV.Props.C02', 'QRV.Props.C02Symbol', 'QRV.Props.C02SymbolMicro', 'QRV.Props.C02SymbolRMQR']
RULE = ('every (version, level) pair of the three symbologies with every explicit mask (rotating in the quick tier) and automatic masking x the structured segment lists of C01. '
        'The implementation\'s bitmap is compared module for module with an independently written reference encoder (checks/refqr.py, refmicro.py, refrmqr.py: geometry, '
        'tables in compact form, BCH, RS by polynomial division, placement as a declarative list) in either admitted form (Micro QR M1/M3 final half codeword), and '
        'an independent reference reader must recover the message from it. Also run on the Lean model (correspondence). non-trivial = non-empty description')
TRUSTED = [
    'Lean 4.33.0 kernel: decide +kernel over every module of all 76 base/used bitmaps and 13 mask canvases, all 232 capacity rows, all BCH words, all 67 RS coders',
    'Spec.Patterns / Spec.Tables / Spec.BCH / Spec.RS: my transcription of the standards (no ISO text offline); cross-validated against the independent python references',
    'python reference encoders/readers (written from the standards as remembered); rMQR data/EC split and count widths are NOT independent (read from the regenerated tables)',
    'symbol models tied by correspondence',
]
ASSUMPTIONS = ['rMQR rows of the capacity table are modelled, not verified (necessary conditions only)',
               'module (0, h-2) of the five R9xN rMQR symbols: my recollection of the standard is unsure (corner finder vs separator); both forms admitted']
PARTIAL = ('QR and Micro QR: conformance of the whole emitted symbol is a theorem (qr_symbol / micro_symbol: module by module equal to the declarative symbol of Spec/Symbol*.lean, which is itself compared with the implementation on every run; Micro QR: with the library\'s reading of the 4-bit final pad codeword of M1/M3); '
           'rMQR: the emitted symbol equals the declarative symbol of Spec/SymbolRMQR.lean on every module outside the data modules of column 1, which carry a 0 bit (rmqr_symbol_except_column1: finding D18 stated exactly), and IS that symbol for the 21 versions where column 1 only carries remainder bits (rmqr_symbol_exact, rmqr_exact_versions); block shapes / count widths are relative to the regenerated rows (finding D15)')
MANIFEST = {
    'technique': 'Lean 4: kernel evaluation of all generated tables against declarative specs (patterns, masks, capacity, BCH, RS generators); for QR the theorem that the emitted bitmap IS the standard\'s symbol of the description (declarative Spec.Symbol: stream, blocks, RS codewords, interleaving, placement order, mask, format/version information, function patterns), with uniqueness; module-for-module comparison with an independent reference encoder/reader for all three symbologies',
    'text': ('QRV/Props/C02.lean proves the table half of conformance for every version of every symbology: all function-pattern bitmaps, mask canvases, capacity rows, BCH words and RS coders '
             'equal declarative specifications written from the standards (kernel evaluation of every cell; a wrong alignment centre, BCH word, capacity row or RS tap breaks a named lemma). '
             'QRV/Props/C02Symbol.lean proves the algorithm half for QR: for every valid description and mask (explicit or automatic) the encoder model emits a regular bitmap whose every module equals the declarative symbol Spec.Symbol.QR.IsSymbol '
             '(data stream, block shapes of Table 9, Reed-Solomon codeword condition, interleaving, the standard placement order - the model\'s walk is proved to visit exactly dataCoords v -, mask condition, BCH format/version words at their positions, dark module, function patterns), and that this specification determines the symbol uniquely; Props/C02SymbolMicro.lean proves the same for Micro QR M1-M4 (micro_symbol, micro_symbol_auto, micro_symbol_unique: terminator 3/5/7/9, 4-bit final data codeword of M1/M3, one RS block, four mask patterns, format word XOR 0x4445). Props/C02SymbolRMQR.lean: the rMQR placement walk of the library is the standard order WITHOUT the column-1 modules, which the standard visits last (rmqr_walk_is_standard_without_column1, rmqr_column1_last); hence the bitmap of every valid description agrees with the standard symbol outside column 1, and is the standard symbol for 21 of 32 versions. '
             'For all three symbologies the algorithm half is also decided per message by comparing the implementation\'s bitmap with an independently written reference encoder and by reading it back with an independent '
             'reference reader, over all configurations and structured payloads, and (QR) by comparing it with the evaluated Spec.Symbol.'),
    'note': ('Trusted: Lean kernel; my transcription of the standards in Spec.* and in the python references (independent of /repo; rMQR EC split/count widths are not independent). '
             'Known finding recorded: rMQR column-1 data modules (D18).'),
}


def budget(ctx):
    return {'quick': 2, 'thorough': 16}[ctx.tier]


def gen(ctx):
    r = ctx.rng
    meta, enc = [], []
    for sym in ('qr', 'mq', 'rm'):
        ms = symgen.masks(sym)
        for ci, (ver, level) in enumerate(symgen.configs(sym)):
            shapes = symgen.shapes(sym, r, ver, level, budget(ctx))
            for si, (label, segs) in enumerate(shapes):
                if sym == 'rm':
                    masks = [0]
                elif ctx.tier == 'thorough' and si == 0:
                    masks = ms + [-1]
                else:
                    masks = [ms[(ci + si + ctx.seed) % len(ms)]] + ([-1] if (ci + si + ctx.seed) % 5 == 0 else [])
                for mask in masks:
                    enc.append(symgen.enc_line(sym, ver, level, mask, segs))
                    meta.append((sym, ver, level, mask, segs, label))
    # the end of the bit stream, deterministically: for every Micro QR symbol (and the two smallest QR versions and three rMQR
    # versions) segment lists that leave exactly 0..12 bits of the data capacity, so that the terminator, the byte alignment,
    # the pad codewords and the 4-bit final codeword of M1/M3 are met in every relative position
    for t in symgen.tail_corpus(r, ctx.tier == 'quick'):
        enc.append(symgen.enc_line(t[0], t[1], t[2], t[3], t[4]))
        meta.append(t)
    ctx.c02 = meta
    # function-level correspondence (implementation against model only; OFF by default, VERIF_FUNC_LEVEL=1 switches it on):
    # the data stream (encodeSegments) and the interleaved codeword sequence (encodeToBits) of the same descriptions.
    # Off because an internal change that no caller can observe (a systematic mutant wrote the terminator past the
    # capacity, where block splitting drops it again) would be reported although the property holds.
    F = []
    import os
    for (sym, ver, level, mask, segs, label) in (meta[:: (3 if ctx.tier == 'quick' else 1)] if os.environ.get('VERIF_FUNC_LEVEL') else []):
        body = symgen.enc_line(sym, ver, level, 0, segs).split(' ', 4 if sym != 'rm' else 3)[-1]
        F.append('%s.segs %d %d %s' % (sym, ver, level, body))
        if sym != 'mq':
            F.append('%s.bits %d %d %s' % (sym, ver, level, body))
    return enc + F


def ref_forms(sym, ver, level, mask, segs):
    if sym == 'qr':
        return [refqr.encode(ver, level, mask, segs)]
    if sym == 'mq':
        return refmicro.encode_forms(ver, level, mask, segs)
    return refrmqr.encode_forms(ver, level, mask, segs)[0]


def chosen_mask(sym, m):
    """mask named by the format information of a module matrix"""
    if sym == 'qr':
        r = refqr.read(m)
        return None if r is None else r[2]
    r = refmicro.read(m)
    return None if r is None else r[2]


def oracle(ctx, lines, out):
    meta = ctx.c02
    ctx.c02_out = list(out)
    v, cnt = [], {}
    for i, (sym, ver, level, mask, segs, label) in enumerate(meta):
        o = out[i]
        key = None
        if o.startswith('aliased'):
            key = '%s:emitted-bitmap-changed-later' % sym
            detail = '%s: %s (line %d: %s)' % (sym, o[8:], i, lines[i][:100])
        elif not o.startswith('ok '):
            key = '%s:encode-refused' % sym
            detail = '%s v%d l%d mask %d [%s]: valid description refused (%s)' % (sym, ver, level, mask, symgen.show_segs(segs), o[:60])
        else:
            got = refqr.from_image_str(o[3:])
            m = mask
            if mask < 0:
                m = chosen_mask(sym, got)
                if m is None:
                    key = '%s:auto-mask-format-unreadable' % sym
                    detail = '%s v%d l%d auto mask: reference reader cannot read the format information' % (sym, ver, level)
            if key is None:
                forms = ref_forms(sym, ver, level, m, segs)
                best = None
                for f in forms:
                    if len(f) != len(got) or len(f[0]) != len(got[0]):
                        diff = [(-1, -1)]
                    else:
                        diff = [(x, y) for y in range(len(f)) for x in range(len(f[0])) if f[y][x] != got[y][x]]
                    if best is None or len(diff) < len(best):
                        best = diff
                if best:
                    if sym == 'rm' and all(x == 1 for x, _ in best) and refrmqr.SIZES[ver][0] >= 11:
                        key = 'rm:column-1-data-modules-not-placed'
                        detail = ('rMQR %dx%d: the %d data modules of column 1 (rows 8..h-3) are never used by the placement walk (rmqr/encode.go:594, decode.go:41 stop at x < 1); '
                                  'the symbol differs from the reference in %d of them' % (refrmqr.SIZES[ver][0], refrmqr.SIZES[ver][1], refrmqr.SIZES[ver][0] - 10, len(best)))
                    else:
                        key = '%s:module-mismatch:v%d' % (sym, ver)
                        detail = '%s v%d l%d mask %d [%s]: %d modules differ from the reference encoder, first at %s' % (
                            sym, ver, level, m, symgen.show_segs(segs), len(best), best[:4])
                elif sym in ('qr', 'mq'):
                    rd = (refqr if sym == 'qr' else refmicro).read(got)
                    want = (ver, level, m, [(a, bytes(b)) for a, b in segs])
                    if rd is None or (rd[0], rd[1], rd[2], rd[3]) != want:
                        key = '%s:reference-reader' % sym
                        detail = '%s v%d l%d mask %d: the reference reader recovers %s' % (sym, ver, level, m, str(rd)[:120])
        if key:
            cnt[key] = cnt.get(key, 0) + 1
            if cnt[key] <= 2:
                v.append({'key': key, 'lines': [lines[i]], 'expect': 'reference symbol', 'got': o[:120], 'detail': detail})
    for x in v:
        x['detail'] += ' (%d such cases in this run)' % cnt[x['key']]
    return v


def extra(ctx):
    """table-level necessary conditions on the rMQR rows that have no independent source: the character count
    indicator of every mode must be able to express the largest count that fits the symbol at that level"""
    viol = []
    n = 0
    for v in range(32):
        for l in (0, 1):
            c = refrmqr.cap(v, l)
            capb = 8 * c['data']
            for kind, per, mi in (('num', 10 / 3, 1), ('alnum', 5.5, 2), ('byte', 8, 3), ('kanji', 13, 4)):
                n += 1
                w = c['bitLength'][mi]
                maxn = int((capb - 3 - w) / per)
                if maxn > (1 << w) - 1:
                    h, wd = refrmqr.SIZES[v]
                    viol.append({'key': 'rm:count-indicator-width:R%dx%d' % (h, wd), 'lines': [], 'expect': '', 'got': '',
                                 'detail': 'rMQR R%dx%d level %d: the %d-bit %s count indicator cannot express the %d characters the symbol holds (widths %s); '
                                           'every other version\'s widths can' % (h, wd, l, w, kind, maxn, c['bitLength'][1:])})
    seen, res = set(), []
    for x in viol:
        if x['key'] not in seen:
            seen.add(x['key'])
            res.append(x)
    # the declarative symbol of Spec/Symbol.lean (the statement C02Symbol.qr_symbol is about), evaluated by the
    # Lean driver, against the implementation's output: validates the SPECIFICATION against the code
    nspec = 0
    out = getattr(ctx, 'c02_out', None)
    if ctx.driver and out:
        idx = [i for i, (sym, ver, level, mask, segs, label) in enumerate(ctx.c02) if mask >= 0 and out[i].startswith('ok ')]
        sl = [symgen.enc_line(ctx.c02[i][0], *ctx.c02[i][1:5]).replace('.enc', '.spec', 1) for i in idx]  # rm.spec takes no mask: enc_line omits it
        so = ctx.lean(sl)
        nspec = len(sl)
        bad = 0
        for i, l, o in zip(idx, sl, so):
            if o != out[i] and ctx.c02[i][0] == 'rm' and o.startswith('ok '):
                # finding D18 (reported by the oracle above): differences confined to the data modules of column 1
                A, Bm = refqr.from_image_str(out[i][3:]), refqr.from_image_str(o[3:])
                if len(A) == len(Bm) and len(A[0]) == len(Bm[0]) and all(A[y][x] == Bm[y][x] for y in range(len(A)) for x in range(len(A[0])) if x != 1):
                    continue
            if o != out[i]:
                bad += 1
                if bad <= 2:
                    sym, ver, level, mask, segs, label = ctx.c02[i]
                    res.append({'key': '%s:spec-symbol-mismatch:v%d' % (sym, ver), 'lines': [symgen.enc_line(sym, ver, level, mask, segs)], 'expect': o[:120], 'got': out[i][:120],
                                'detail': '%s v%d l%d mask %d [%s]: the implementation\'s symbol differs from the declarative symbol of Spec/Symbol%s.lean (%s)' % (
                                    sym, ver, level, mask, symgen.show_segs(segs), {'mq': 'Micro', 'rm': 'RMQR'}.get(sym, ''), o[:40] if not o.startswith('ok ') else 'modules differ')})
        ctx.log('Spec.Symbol vs implementation: %d QR / Micro QR / rMQR symbols compared, %d differ' % (nspec, bad))
    return {'violations': res, 'evaluations': n + nspec, 'notes': {'rmqr_count_width_rows_checked': n, 'qr_and_micro_symbols_compared_with_Spec_Symbol': nspec}}


def nontrivial(line, out):
    return not line.rstrip().endswith(' 0')


def search(ctx, broken, diffs):
    """a broken table lemma names a version: generate symbols of that version first"""
    import re
    vs = set()
    for b in broken:
        for m in re.finditer(r'qr_(?:base|used|geom)_(\d+)', b):
            vs.add(int(m.group(1)))
    if not vs:
        return []
    r = ctx.rng
    meta, enc = [], []
    for ver in sorted(vs):
        for level in (1, 0, 3, 2):
            for label, segs in symgen.shapes('qr', r, ver, level, 3):
                for mask in range(8):
                    enc.append(symgen.enc_line('qr', ver, level, mask, segs))
                    meta.append(('qr', ver, level, mask, segs, label))
    save = ctx.c02
    ctx.c02 = meta
    out = ctx.go(enc)
    res = oracle(ctx, enc, out)
    ctx.c02 = save
    return res
