"""rMQR (ISO/IEC 23941).  The data/EC split per (version, level), the block structure and the
character-count widths are NOT derivable from geometry and no second source exists offline: they are
read from the regenerated tables (lean/QRV/Gen/RMQR.lean) and only checked against necessary
conditions (see DESIGN.md 2.6).  Mode indicators (3 bits: 1,2,3,4), terminator 000, pad codewords
and the bit layouts are the standard's.
"""
import os
import re
from checks.c17 import REF_INV, REF
from checks.refqr import ALNUM, bits_of, utf8_chars, bch, to_image_str, from_image_str  # noqa: F401

MODE = {'num': 1, 'alnum': 2, 'byte': 3, 'kanji': 4}
KIND = {v: k for k, v in MODE.items()}
MASK_RANGE = [0]
SIZES = [(7, 43), (7, 59), (7, 77), (7, 99), (7, 139), (9, 43), (9, 59), (9, 77), (9, 99), (9, 139), (11, 27), (11, 43), (11, 59), (11, 77),
         (11, 99), (11, 139), (13, 27), (13, 43), (13, 59), (13, 77), (13, 99), (13, 139), (15, 43), (15, 59), (15, 77), (15, 99), (15, 139),
         (17, 43), (17, 59), (17, 77), (17, 99), (17, 139)]
_CAP = None


def caps():
    global _CAP
    if _CAP is None:
        src = open('/verif/lean/QRV/Gen/RMQR.lean').read()
        body = src[src.index('def capacityTable'):src.index('def precomputedMask')]
        rows = re.findall(r'\{ total := (\d+), data := (\d+), correction := (\d+), dataBits := (\d+), bitLength := \[([^\]]*)\], blocks := \[(.*?)\] \}', body)
        _CAP = []
        for t, d, c, db, bl, blocks in rows:
            bs = [tuple(int(x) for x in b) for b in re.findall(r'num := (\d+), total := (\d+), data := (\d+), maxError := (\d+), reserved := (\d+)', blocks)]
            _CAP.append({'total': int(t), 'data': int(d), 'ec': int(c), 'bitLength': [int(x) for x in bl.split(',')], 'blocks': bs})
        assert len(_CAP) == 64, len(_CAP)
    return _CAP


def cap(ver, level):
    return caps()[ver * 2 + level]


def configs():
    return [(v, l) for v in range(32) for l in (0, 1)]


def kinds_for(ver):
    return ['num', 'alnum', 'byte', 'kanji']


def count_bits_kind(kind, ver, level):
    return cap(ver, level)['bitLength'][MODE[kind]]


def seg_bits_len_n(kind, n, ver, level):
    body = {'num': 10 * (n // 3) + (0, 4, 7)[n % 3], 'alnum': 11 * (n // 2) + 6 * (n % 2), 'byte': 8 * n, 'kanji': 13 * n}[kind]
    return 3 + count_bits_kind(kind, ver, level) + body


def capacity_bits(ver, level):
    return 8 * cap(ver, level)['data']


def dims(ver):
    h, w = SIZES[ver]
    return w, h


def seg_valid(mode, data):
    if mode == 1:
        return all(48 <= c <= 57 for c in data)
    if mode == 2:
        return all(c in ALNUM for c in data)
    if mode == 3:
        return True
    if mode == 4:
        cs = utf8_chars(data)
        return cs is not None and all(c in REF_INV for c in cs)
    return False


def seg_count(mode, data):
    return len(utf8_chars(data)) if mode == 4 else len(data)


def valid(ver, level, mask, segs):
    if not (0 <= ver < 32) or level not in (0, 1):
        return False
    total = 0
    for mode, data in segs:
        if mode not in KIND or not seg_valid(mode, data):
            return False
        n = seg_count(mode, data)
        if n >= 1 << count_bits_kind(KIND[mode], ver, level):
            return False
        total += seg_bits_len_n(KIND[mode], n, ver, level)
    return total <= capacity_bits(ver, level)


def terminator_bits(ver):
    return 3
