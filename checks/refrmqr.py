"""rMQR (ISO/IEC 23941).  The data/EC split per (version, level), the block structure and the
character-count widths are NOT derivable from geometry and no second source exists offline: they are
read from the regenerated tables (lean/QRV/Gen/RMQR.lean) and only checked against necessary
conditions (see DESIGN.md 2.6).  Mode indicators (3 bits: 1,2,3,4), terminator 000, pad codewords
and the bit layouts are the standard's.
"""
import os
import re
from checks.c17 import REF_INV, REF
from checks.refqr import ALNUM, bits_of, utf8_chars, bch, to_image_str, from_image_str  # noqa: F401

MODE = {'num': 1, 'alnum': 2, 'byte': 3, 'kanji': 4}
KIND = {v: k for k, v in MODE.items()}
MASK_RANGE = [0]
SIZES = [(7, 43), (7, 59), (7, 77), (7, 99), (7, 139), (9, 43), (9, 59), (9, 77), (9, 99), (9, 139), (11, 27), (11, 43), (11, 59), (11, 77),
         (11, 99), (11, 139), (13, 27), (13, 43), (13, 59), (13, 77), (13, 99), (13, 139), (15, 43), (15, 59), (15, 77), (15, 99), (15, 139),
         (17, 43), (17, 59), (17, 77), (17, 99), (17, 139)]
_CAP = None


def caps():
    global _CAP
    if _CAP is None:
        src = open('/verif/lean/QRV/Gen/RMQR.lean').read()
        body = src[src.index('def capacityTable'):src.index('def precomputedMask')]
        rows = re.findall(r'\{ total := (\d+), data := (\d+), correction := (\d+), dataBits := (\d+), bitLength := \[([^\]]*)\], blocks := \[(.*?)\] \}', body)
        _CAP = []
        for t, d, c, db, bl, blocks in rows:
            bs = [tuple(int(x) for x in b) for b in re.findall(r'num := (\d+), total := (\d+), data := (\d+), maxError := (\d+), reserved := (\d+)', blocks)]
            _CAP.append({'total': int(t), 'data': int(d), 'ec': int(c), 'bitLength': [int(x) for x in bl.split(',')], 'blocks': bs})
        assert len(_CAP) == 64, len(_CAP)
    return _CAP


def cap(ver, level):
    return caps()[ver * 2 + level]


def configs():
    return [(v, l) for v in range(32) for l in (0, 1)]


def kinds_for(ver):
    return ['num', 'alnum', 'byte', 'kanji']


def count_bits_kind(kind, ver, level):
    return cap(ver, level)['bitLength'][MODE[kind]]


def seg_bits_len_n(kind, n, ver, level):
    body = {'num': 10 * (n // 3) + (0, 4, 7)[n % 3], 'alnum': 11 * (n // 2) + 6 * (n % 2), 'byte': 8 * n, 'kanji': 13 * n}[kind]
    return 3 + count_bits_kind(kind, ver, level) + body


def capacity_bits(ver, level):
    return 8 * cap(ver, level)['data']


def dims(ver):
    h, w = SIZES[ver]
    return w, h


def seg_valid(mode, data):
    if mode == 1:
        return all(48 <= c <= 57 for c in data)
    if mode == 2:
        return all(c in ALNUM for c in data)
    if mode == 3:
        return True
    if mode == 4:
        cs = utf8_chars(data)
        return cs is not None and all(c in REF_INV for c in cs)
    return False


def seg_count(mode, data):
    return len(utf8_chars(data)) if mode == 4 else len(data)


def valid(ver, level, mask, segs):
    if not (0 <= ver < 32) or level not in (0, 1):
        return False
    total = 0
    for mode, data in segs:
        if mode not in KIND or not seg_valid(mode, data):
            return False
        n = seg_count(mode, data)
        if n >= 1 << count_bits_kind(KIND[mode], ver, level):
            return False
        total += seg_bits_len_n(KIND[mode], n, ver, level)
    return total <= capacity_bits(ver, level)


def terminator_bits(ver):
    return 3


# ---- geometry written from the standard as remembered; compared with /repo's tables by C02
ALIGN_COLS = {27: [], 43: [21], 59: [19, 39], 77: [25, 51], 99: [23, 49, 75], 139: [27, 55, 83, 111]}


def function_patterns(ver):
    h, w = SIZES[ver]
    m = [[0] * w for _ in range(h)]
    f = [[False] * w for _ in range(h)]

    def setf(x, y, v):
        if 0 <= x < w and 0 <= y < h:
            m[y][x] = 1 if v else 0
            f[y][x] = True
    # timing patterns on all four edges
    for x in range(w):
        setf(x, 0, x % 2 == 0)
        setf(x, h - 1, x % 2 == 0)
    for y in range(h):
        setf(0, y, y % 2 == 0)
        setf(w - 1, y, y % 2 == 0)
    # alignment columns: vertical timing, 3x3 patterns at top and bottom
    for cx in ALIGN_COLS[w]:
        for y in range(h):
            setf(cx, y, y % 2 == 0)
        for cy in (1, h - 2):
            for dy in (-1, 0, 1):
                for dx in (-1, 0, 1):
                    setf(cx + dx, cy + dy, not (dx == 0 and dy == 0))
    # finder pattern with separator (top-left)
    for y in range(8):
        for x in range(8):
            d = max(abs(x - 3), abs(y - 3))
            setf(x, y, d not in (2, 4) and x <= 6 and y <= 6)
    # finder sub pattern (bottom-right), 5x5
    for dy in range(-2, 3):
        for dx in range(-2, 3):
            setf(w - 3 + dx, h - 3 + dy, max(abs(dx), abs(dy)) != 1)
    # corner finder patterns
    setf(w - 1, 0, 1); setf(w - 2, 0, 1); setf(w - 1, 1, 1); setf(w - 2, 1, 0)
    if h > 7:
        setf(0, h - 1, 1); setf(1, h - 1, 1); setf(0, h - 2, 1); setf(1, h - 2, 0)
    # format information areas
    for i in range(18):
        setf(8 + i // 5, 1 + i % 5, 0)
    for i in range(15):
        setf(w - 8 + i // 5, h - 6 + i % 5, 0)
    setf(w - 5, h - 6, 0); setf(w - 4, h - 6, 0); setf(w - 3, h - 6, 0)
    return m, f


def seg_bits(mode, data, ver, level):
    k = KIND[mode]
    b = bits_of(mode, 3) + bits_of(seg_count(mode, data), count_bits_kind(k, ver, level))
    if k == 'num':
        s = data.decode()
        for i in range(0, len(s), 3):
            g = s[i:i + 3]
            b += bits_of(int(g), (0, 4, 7, 10)[len(g)])
    elif k == 'alnum':
        for i in range(0, len(data) - 1, 2):
            b += bits_of(ALNUM.index(data[i]) * 45 + ALNUM.index(data[i + 1]), 11)
        if len(data) % 2:
            b += bits_of(ALNUM.index(data[-1]), 6)
    elif k == 'byte':
        for c in data:
            b += bits_of(c, 8)
    else:
        for c in utf8_chars(data):
            b += bits_of(REF_INV[c], 13)
    return b


def data_bytes(ver, level, segs):
    capb = capacity_bits(ver, level)
    b = []
    for mode, data in segs:
        b += seg_bits(mode, data, ver, level)
    assert len(b) <= capb
    b += [0] * min(3, capb - len(b))
    b += [0] * (-len(b) % 8)
    out = bytearray(int(''.join(map(str, b[i:i + 8])), 2) for i in range(0, len(b), 8))
    pad = 0xEC
    while len(out) < capb // 8:
        out.append(pad)
        pad ^= 0xEC ^ 0x11
    return bytes(out)


def interleaved(ver, level, data):
    from checks import gf256
    ds, es, k = [], [], 0
    for (num, total, dlen, _, _) in cap(ver, level)['blocks']:
        for _ in range(num):
            blk = data[k:k + dlen]
            k += dlen
            ds.append(blk)
            es.append(gf256.parity(total - dlen, blk))
    out = bytearray()
    for i in range(max(len(d) for d in ds)):
        for d in ds:
            if i < len(d):
                out.append(d[i])
    for i in range(max(len(e) for e in es)):
        for e in es:
            if i < len(e):
                out.append(e[i])
    return bytes(out)


def data_coords(ver, f):
    h, w = SIZES[ver]
    out = []
    right = w - 2
    up = True
    # two-module-wide columns from the right; the width w-2 of the data area is odd, so the last
    # (leftmost) column, x = 1, is one module wide
    while right >= 1:
        for vert in range(h - 2):
            y = h - 2 - vert if up else 1 + vert
            for j in range(2):
                x = right - j
                if x >= 1 and not f[y][x]:
                    out.append((x, y))
        up = not up
        right -= 2
    return out


def format_word(ver, level):
    return bch(ver | (level << 5), 0x1F25, 13, 18)


def encode_forms(ver, level, mask, segs):
    h, w = SIZES[ver]
    m, f = function_patterns(ver)
    cw = interleaved(ver, level, data_bytes(ver, level, segs))
    bits = [b for c in cw for b in bits_of(c, 8)]
    coords = data_coords(ver, f)
    for k, (x, y) in enumerate(coords):
        v = bits[k] if k < len(bits) else 0
        if (y // 2 + x // 3) % 2 == 0:
            v ^= 1
        m[y][x] = v
    fw = format_word(ver, level)
    for i in range(18):
        m[1 + i % 5][8 + i // 5] = ((fw ^ 0x1FAB2) >> i) & 1
    for i in range(15):
        m[h - 6 + i % 5][w - 8 + i // 5] = ((fw ^ 0x20A7B) >> i) & 1
    for j, i in enumerate((15, 16, 17)):
        m[h - 6][w - 5 + j] = ((fw ^ 0x20A7B) >> i) & 1
    forms = [m]
    if h == 9:
        # unresolved between the two oracles: module (0, h-2) of R9 symbols (corner finder vs separator)
        m2 = [row[:] for row in m]
        m2[h - 2][0] = 0
        forms.append(m2)
    return forms, len(coords), len(bits)
