"""C15 — GF(2^8) arithmetic is the field defined by 0x11D with generator 2."""
ID = 'C15'
EXHAUSTIVE = True
RULE = ('exhaustive: every pair (a,b) for Mul and Add, every element for Log/Inv, Exp on -600..900, AddMulExp on a '
        'seeded sample of (x,y,z) incl. negative sums; a line is non-trivial when it is a Mul of two non-zero elements, '
        'or any Exp/Log/Inv/AddMulExp line; distinct = distinct input lines')
TRUSTED = [
    'Lean 4.33.0 kernel (decide +kernel over the complete 256/65,536-entry ranges; axioms per theorem as listed)',
    'verifdump: expTable/logTable are dumped from the compiled program (post-init values) into QRV/Gen/GF.lean',
    'Model/GF.lean is a hand transcription of element.go (46 lines), tied by this exhaustive correspondence run',
    'python reference clmul in checks/c15.py (independent of the tables) as direct oracle on the Go output',
]
ASSUMPTIONS = ['Element is uint8: the model ranges over naturals below 256']


def xtime(a):
    a <<= 1
    if a & 0x100:
        a ^= 0x11D
    return a


def clmul(a, b):
    r = 0
    for i in range(8):
        if (b >> i) & 1:
            r ^= a
        a = xtime(a)
    return r


POW = [1]
for _ in range(254):
    POW.append(xtime(POW[-1]))
LOGS = {v: i for i, v in enumerate(POW)}


def tmod(n, m):
    r = abs(n) % m
    return -r if n < 0 else r


def gen(ctx):
    lines = []
    for a in range(256):
        for b in range(256):
            lines.append('gf.mul %d %d' % (a, b))
    for a in range(256):
        for b in range(0, 256, 5):
            lines.append('gf.add %d %d' % (a, (a * 7 + b) % 256))
    for a in range(256):
        lines.append('gf.log %d' % a)
        lines.append('gf.inv %d' % a)
    for n in range(-600, 901):
        lines.append('gf.exp %d' % n)
    r = ctx.rng
    for _ in range(4000):
        lines.append('gf.ame %d %d %d' % (r.below(256), r.range(-300, 600), r.range(-300, 600)))
    for y in range(255):
        for z in (0, 1, 25, 254):
            lines.append('gf.ame %d %d %d' % (y ^ 0x5a, y, z))
    return lines


def expect(line):
    t = line.split()
    op, a = t[0], [int(x) for x in t[1:]]
    if op == 'gf.mul':
        return 'ok %d' % clmul(a[0], a[1])
    if op == 'gf.add':
        return 'ok %d' % (a[0] ^ a[1])
    if op == 'gf.log':
        return 'panic' if a[0] == 0 else 'ok %d' % LOGS[a[0]]
    if op == 'gf.inv':
        return 'panic' if a[0] == 0 else 'ok %d' % POW[(255 - LOGS[a[0]]) % 255]
    if op == 'gf.exp':
        # the documented domain is n >= 0 (and n < 0 a multiple of 255 happens to index 0)
        i = tmod(a[0], 255)
        return None if i < 0 else 'ok %d' % POW[i]
    if op == 'gf.ame':
        i = tmod(a[1] + a[2], 255)
        return None if i < 0 else 'ok %d' % (a[0] ^ POW[i])
    return None


def oracle(ctx, lines, out):
    v = []
    for l, o in zip(lines, out):
        e = expect(l)
        if e is not None and o != e:
            v.append({'key': l.split()[0] + ':' + l, 'lines': [l], 'expect': e, 'got': o,
                      'detail': '%s returned `%s`, the field GF(2)[x]/0x11D gives `%s`' % (l, o, e)})
    return v


def nontrivial(line, out):
    t = line.split()
    if t[0] == 'gf.mul':
        return t[1] != '0' and t[2] != '0'
    return t[0] != 'gf.add'


def search(ctx, broken, diffs):
    # the generator is already exhaustive on the property's domain
    return []

MANIFEST = {
    'technique': 'Lean 4 kernel evaluation of the complete exp/log tables + derived field laws; exhaustive model/impl correspondence',
    'text': ('Theorems in QRV/Props/C15.lean over a model of element.go whose tables are regenerated from /repo on every run: Mul = carry-less '
             'product mod 0x11D for all 65,536 pairs (decide +kernel over the whole table), Exp = 2^k (and exactly which negative arguments panic: Exp_panics_iff), Log/Exp inverse, Inv(a)*a = 1, and the field '
             'axioms for all triples derived from those finite facts (no sampling). The hand-written model is tied to the Go code by an exhaustive '
             'differential run (all pairs / all elements), which is also the failing-input search. This is the right level because the domain is finite '
             'and the kernel can evaluate it completely.'),
    'note': ('Trusted: Lean kernel; axioms propext, Quot.sound only; verifdump (tables as the compiled program holds them); Model/GF.lean hand transcription '
             'of element.go tied by exhaustive correspondence; Exp/AddMulExp with negative index are modelled as panics (Go runtime index check).'),
}
