"""C03 — decoders correct damage up to the symbol's rated error-correction capacity."""
from checks import symgen, refqr, refmicro, refrmqr

ID = 'C03'
PROP_MODULES = ['QRV.Props.C03', 'QRV.Props.C03QR', 'QRV.Props.C03Micro', 'QRV.Props.C03RMQR', 'QRV.Props.C03Conformant', 'QRV.Props.C03Format', 'QRV.Props.C03FormatExt']
RULE = ('for every (version, level) pair of the three symbologies: a clean symbol (from the implementation, and - QR and Micro QR - from the independent reference encoder) is damaged '
        'in at most the rated number of codewords per Reed-Solomon block (t_b = floor((parity - p)/2) as tabulated in the standard; for QR blocks computed from the compact table, '
        'Micro QR 0/1/2/2/4/3/5/7, rMQR from the regenerated table), positions among data and parity codewords (first, last, random), a non-empty subset of the 8 modules of each '
        'chosen codeword flipped; the format information is left intact, or (plan rated+format) carries one or two wrong modules in each copy on top of the rated data damage. The decoder must return the original description. Also t_b+... beyond capacity is NOT required to decode. '
        'Both steps are also run on the Lean model. non-trivial = at least one codeword damaged; distinct = distinct damaged bitmaps')
TRUSTED = [
    'Lean 4.33.0 kernel; axioms per theorem as listed (C14 completeness + C01 components)',
    'python codeword-to-module maps from the reference placement (checks/ref*.py)',
    'symbol models tied by correspondence',
]
ASSUMPTIONS = []
PARTIAL = ('QR: whole-symbol correction is a theorem (C03QR.qr_corrects_rated_damage: any bitmap with the clean function modules whose data modules carry blocks within the rated distance of the conformant blocks decodes to the original description; with zero damage: a conformant symbol of any other encoder). '
           'Micro QR: the same whole-symbol theorem (C03Micro.micro_corrects_rated_damage, one block, M1 rated 0). rMQR: the same (C03RMQR.rmqr_corrects_rated_damage); in the 11 versions whose walk is short (finding D18) the last block has one codeword of room below floor(parity/2), kernel-evaluated, which the incompletely carried last codeword consumes. The clause that the format information only has to stay readable is a theorem too (C03Format / C03FormatExt: *_corrects_rated_damage_and_format_damage - format copies within two modules of the clean ones in the order the decoder consults them, NO hypothesis on any other function module)')
MANIFEST = {
    'technique': 'Lean 4: RS decoder completeness for every parity length (C14.dec_complete) instantiated with each block\'s parity length; for QR lifted to whole damaged bitmaps through placement, masking, de-interleaving and parsing (qr_corrects_rated_damage); whole-symbol damage by differential runs for all three symbologies',
    'text': ('The per-block statement is a theorem: every word within floor(parity/2) >= t_b of a codeword is restored (C14Complete), and Props/C03.lean proves that every block of every '
             '(version, level) row asks the decoder for exactly its parity length and that the rated capacity never exceeds floor(parity/2). Props/C03QR.lean lifts this to whole QR symbols: any bitmap that keeps the clean '
             'symbol\'s function modules and whose data modules carry, along the standard walk under the symbol\'s mask and interleaving, blocks that each differ from the conformant block in at most the rated number of codewords '
             'decodes to the original description (zero damage = a conformant symbol from any encoder, remainder bits arbitrary). Props/C03Micro.lean proves the same for Micro QR (single block; the stream bits of the 4-bit final codeword of M1/M3 that no module carries must be zero). Props/C03RMQR.lean proves it for rMQR, including the 11 versions whose last codeword no bitmap carries completely (the rated capacity of their last block + 1 <= floor(parity/2): kernel-evaluated over the regenerated rows, with shortness computed from the walk). Props/C03Format.lean and C03FormatExt.lean drop the hypothesis on the function modules altogether: it is enough that the format information read from the damaged bitmap is within two modules of the clean symbol\'s (first copy; or first copy rejected and second copy within two) - the decoders read no other function module. Props/C03Conformant.lean states the zero-damage case against the declarative symbols: ANY regular bitmap whose pixels are the standard symbol of a valid description (Spec.Symbol.*.IsSymbol) decodes to that description - QR, Micro QR and rMQR (every version, although the library itself does not emit the standard symbol in 11 of them). All three are also exercised on every configuration with damage up to the rated capacity in every block, on implementation and model.'),
    'note': 'Trusted: Lean kernel + Mathlib (C14Complete); symbol models tied by correspondence; codeword-to-module maps of the python reference.',
}


def rated(sym, ver, level):
    """list of (data_len, ecc_len, t) per block in block order"""
    if sym == 'qr':
        # p (misdecode protection codewords): 3 for 1-L, 2 for 1-M and 2-L, 1 for 1-Q, 1-H and 3-L, else 0
        p = {(1, 1): 3, (1, 0): 2, (2, 1): 2, (1, 3): 1, (1, 2): 1, (3, 1): 1}.get((ver, level), 0)
        return [(d, e, (e - p) // 2) for d, e in refqr.blocks(ver, level)]
    if sym == 'mq':
        t = {(1, 2): 0, (2, 1): 1, (2, 0): 2, (3, 1): 2, (3, 0): 4, (4, 1): 3, (4, 0): 5, (4, 3): 7}[(ver, level)]
        _, tot, d, bits, e = refmicro.TABLE[(ver, level)]
        return [(d, e, t)]
    out = []
    for (num, total, d, maxerr, _) in refrmqr.cap(ver, level)['blocks']:
        out += [(d, total - d, maxerr)] * num
    return out


def codeword_modules(sym, ver, level):
    """for each block: list over its codewords (data then ecc) of the module coordinates of that codeword"""
    if sym == 'qr':
        _, f = refqr.function_patterns(ver)
        coords = refqr.data_coords(ver, f)
        bl = [(d, e) for d, e in refqr.blocks(ver, level)]
    elif sym == 'rm':
        _, f = refrmqr.function_patterns(ver)
        coords = refrmqr.data_coords(ver, f)
        bl = [(d, e) for d, e, _ in rated(sym, ver, level)]
    else:
        _, f = refmicro.function_patterns(ver)
        coords = refmicro.data_coords(ver, f)
        _, tot, d, bits, e = refmicro.TABLE[(ver, level)]
        # data codewords: the last may be 4 bits
        cws, k = [], 0
        for i in range(d):
            n = 8 if (i < d - 1 or bits % 8 == 0) else 4
            cws.append(coords[k:k + n])
            k += n
        for i in range(e):
            cws.append(coords[k:k + 8])
            k += 8
        return [cws]
    # interleaved order
    nb = len(bl)
    seq = []
    for i in range(max(d for d, _ in bl)):
        for j, (d, _) in enumerate(bl):
            if i < d:
                seq.append((j, i))
    for i in range(max(e for _, e in bl)):
        for j, (d, e) in enumerate(bl):
            if i < e:
                seq.append((j, d + i))
    res = [[None] * (d + e) for d, e in bl]
    for k, (j, i) in enumerate(seq):
        res[j][i] = coords[8 * k:8 * k + 8]
    return res


def flip(matrix, cells):
    for (x, y) in cells:
        matrix[y][x] ^= 1


def gen(ctx):
    r = ctx.rng
    meta, enc = [], []
    reps = 1 if ctx.tier == 'quick' else 6
    for sym in ('qr', 'mq', 'rm'):
        ms = symgen.masks(sym)
        for ci, (ver, level) in enumerate(symgen.configs(sym)):
            for rep in range(reps):
                label, segs = symgen.shapes(sym, r, ver, level, 1)[0]
                mask = 0 if sym == 'rm' else ms[(ci + rep + ctx.seed) % len(ms)]
                enc.append(symgen.enc_line(sym, ver, level, mask, segs))
                meta.append((sym, ver, level, mask, segs))
    out = ctx.go(enc)
    dec, dmeta = [], []
    for (sym, ver, level, mask, segs), o in zip(meta, out):
        if not o.startswith('ok '):
            continue
        sources = [('own', refqr.from_image_str(o[3:]))]
        if sym == 'qr':
            sources.append(('reference', refqr.encode(ver, level, mask, segs)))
        elif sym == 'mq':
            sources.append(('reference', refmicro.encode_forms(ver, level, mask, segs)[0]))
        cwm = codeword_modules(sym, ver, level)
        rt = rated(sym, ver, level)
        for src, m0 in sources:
            plans = [('clean', None)]
            if any(t > 0 for _, _, t in rt):
                plans += [('rated', 'rand'), ('rated', r.choice(['first', 'last'])), ('one', 'rand'), ('rated+format', 'rand')]
            for kind, where in plans:
                m = [row[:] for row in m0]
                ndam = 0
                for b, (d, e, t) in enumerate(rt):
                    if kind == 'clean' or t == 0:
                        continue
                    k = t if kind.startswith('rated') else 1
                    idx = list(range(d + e))
                    if where == 'first':
                        pos = idx[:k]
                    elif where == 'last':
                        pos = idx[-k:]
                    else:
                        r.shuffle(idx)
                        pos = idx[:k]
                    for p in pos:
                        cells = [c for c in cwm[b][p] if c is not None] if cwm[b][p] else []
                        cells = [c for c in cells]
                        if not cells:
                            continue
                        sub = [c for c in cells if r.chance(1, 2)] or [r.choice(cells)]
                        flip(m, sub)
                        ndam += 1
                if kind == 'rated+format':
                    # the format information "stays readable": up to two wrong modules in each copy (all decoders accept a
                    # copy within distance 2 of a code word), on top of the rated damage of the data
                    from checks import c11
                    hh, ww = len(m), len(m[0])
                    if sym == 'qr':
                        copies = [list(c.values()) for c in c11.qr_pos(ww)]
                    elif sym == 'mq':
                        copies = [[(8, 1 + i) for i in range(8)] + [(15 - j, 8) for j in range(8, 15)]]
                    else:
                        copies = [list(c.values()) for c in c11.rm_pos(ww, hh)]
                    for cells in copies:
                        cells = list(cells)
                        r.shuffle(cells)
                        flip(m, cells[:r.range(1, 2)])
                dec.append('%s.dec %s' % (sym, refqr.to_image_str(m)))
                dmeta.append((sym, ver, level, mask, segs, src, kind, where, ndam))
    ctx.c03 = dmeta
    _NONTRIVIAL.clear()
    _NONTRIVIAL.update(l for l, mm in zip(dec, dmeta) if mm[8] > 0)
    return dec


def oracle(ctx, lines, out):
    v, cnt = [], {}
    for i, (sym, ver, level, mask, segs, src, kind, where, ndam) in enumerate(ctx.c03):
        o = out[i]
        d = symgen.parse_desc(o)
        want = (ver, level, 0 if sym == 'rm' else mask, [(a, bytes(b)) for a, b in segs])
        if d is None or (d[0], d[1], d[2], d[3]) != want:
            key = '%s:%s:%s' % (sym, 'clean' if kind == 'clean' else 'within-capacity', src)
            cnt[key] = cnt.get(key, 0) + 1
            if cnt[key] <= 2:
                rt = rated(sym, ver, level)
                v.append({'key': key, 'lines': [lines[i]], 'expect': str(want)[:100], 'got': o[:100],
                          'detail': '%s v%d l%d mask %d (%s symbol, %s damage at %s positions, %d codewords damaged; rated per block %s): decoder answers `%s`' % (
                              sym, ver, level, mask, src, kind, where, ndam, [t for _, _, t in rt][:6], o[:60])})
    for x in v:
        x['detail'] += ' (%d such cases in this run)' % cnt[x['key']]
    return v


_NONTRIVIAL = set()


def nontrivial(line, out):
    # measured: the line decodes a bitmap in which at least one codeword was damaged
    return line in _NONTRIVIAL


def search(ctx, broken, diffs):
    return []
