"""C11 — format/version information is the standard BCH code and is read robustly."""
ID = 'C11'
PROP_MODULES = ['QRV.Props.C11', 'QRV.Props.C11Positions']
OPTIONAL_GROUPS = ['verif_fmt']
EXHAUSTIVE = True
EXHAUSTIVE_TIERS = ('thorough',)
RULE = ('raw-word readers: all 2^15 raw words for QR and Micro QR; for rMQR all words within distance 3 of a codeword plus a seeded sample (quick) or all 2^18 '
        '(thorough). Two-copy logic on bitmaps: every information word x every error pattern of weight <= 2 on the consulted copy x other copy '
        '{intact, zeroed, inverted, random} (QR 32 words on a v1 and a v7 canvas; rMQR 64 words on the matching size), and first copy far -> second '
        'consulted, both far -> error. Written words: EncodeToBitmap output read back at the standard\'s module positions. '
        'Implementation compared with the Lean model and with a python BCH reference; non-trivial = raw word that is not itself a codeword')
TRUSTED = [
    'Lean 4.33.0 kernel (tables = BCH codewords from the generator polynomials; pairwise distance >= 5; decide +kernel over the whole tables)',
    'generic nearest-codeword lemma proved once (no enumeration of 2^15/2^18 words inside Lean)',
    'python BCH reference and module-position lists (written from ISO/IEC 18004 Fig. 25 / 23941) in checks/c11.py',
    'Model decodeFormat0/decodeFormat transcriptions tied by exhaustive differential runs',
]
ASSUMPTIONS = []
MANIFEST = {
    'technique': 'Lean 4: kernel-evaluated BCH tables + minimum distance, generic first-minimum-scan lemma (triangle inequality) for accept<=2/reject>=3; exhaustive differential runs',
    'text': ('QRV/Props/C11.lean: the regenerated format/version tables are the BCH(15,5)/(18,6) codewords with the prescribed masks (kernel evaluation of the whole tables); any '
             'raw word within 2 of a codeword is read as that codeword and any word >= 3 from all is rejected, for ALL raw words at once via a generic lemma on first-minimum scans over '
             'a code of minimum distance >= 5; the two-copy fallback logic. Props/C11Positions.lean: the raw words those scans work on are read, bit by bit, from the modules the declarative symbols assign to the format bits (QR both copies, Micro QR, rMQR both copies), for every regular bitmap. Placement and the bitmap-level two-copy behaviour are additionally tied by exhaustive differential runs against a python '
             'reference (all words x all weight<=2 patterns x other-copy variants).'),
    'note': 'Trusted: Lean kernel; verifdump; python BCH/module-position reference; the reading positions of the model are proved to be those of the standard; the model itself is tied to the Go code by correspondence.',
}


def polymod(v, g, gl, n):
    for i in range(n - 1, gl - 2, -1):
        if (v >> i) & 1:
            v ^= g << (i - gl + 1)
    return v


def bch15(d):
    return (d << 10) | polymod(d << 10, 0x537, 11, 15)


def bch18(d):
    return (d << 12) | polymod(d << 12, 0x1F25, 13, 18)


QRF = [bch15(i) ^ 0x5412 for i in range(32)]
MQF = [bch15(i) ^ 0x4445 for i in range(32)]
RMV = [bch18(i) for i in range(64)]
MQSYM = [(1, 2), (2, 1), (2, 0), (3, 1), (3, 0), (4, 1), (4, 0), (4, 3)]


def nearest(tbl, raw):
    best, bd = None, 99
    for i, c in enumerate(tbl):
        d = bin(c ^ raw).count('1')
        if d < bd:
            best, bd = i, d
    return (best, bd)


def exp_qr0(raw):
    i, d = nearest(QRF, raw)
    return 'ok none' if d >= 3 else 'ok %d %d' % (i >> 3, i & 7)


def exp_mq(raw):
    i, d = nearest(MQF, raw)
    if d >= 3:
        return 'ok none'
    v, l = MQSYM[i >> 2]
    return 'ok %d %d %d' % (v, l, i & 3)


def exp_rm0(raw):
    i, d = nearest(RMV, raw)
    return 'ok none' if d >= 3 else 'ok %d %d' % (i & 31, (i >> 5) & 1)


class Img:
    def __init__(self, w, h):
        self.w, self.h, self.stride = w, h, (w + 7) // 8
        self.pix = bytearray(self.stride * h)

    def set(self, x, y, c):
        if 0 <= x < self.w and 0 <= y < self.h:
            m = 0x80 >> (x % 8)
            i = y * self.stride + x // 8
            self.pix[i] = (self.pix[i] | m) if c else (self.pix[i] & ~m & 0xFF)

    def show(self):
        return '0,0,%d,%d,%d:%s' % (self.w, self.h, self.stride, bytes(self.pix).hex())


def qr_pos(size):
    """module positions of format bit k (0..14) in copy 1 and copy 2 (ISO/IEC 18004 Fig. 25)"""
    w = size - 1
    c1, c2 = {}, {}
    for i in range(6):
        c1[i] = (8, i)
    c1[6], c1[7], c1[8] = (8, 7), (8, 8), (7, 8)
    for i in range(9, 15):
        c1[i] = (14 - i, 8)
    for i in range(8):
        c2[i] = (w - i, 8)
    for i in range(8, 15):
        c2[i] = (8, w - 14 + i)
    return c1, c2


def rm_pos(w, h):
    """module positions of the 18 version-information bits next to the finder and the sub-finder"""
    W, H = w - 1, h - 1
    c1 = {i: (8 + i // 5, 1 + i % 5) for i in range(18)}
    c2 = {i: (W - 7 + i // 5, H - 5 + i % 5) for i in range(15)}
    c2[15], c2[16], c2[17] = (W - 4, H - 5), (W - 3, H - 5), (W - 2, H - 5)
    return c1, c2


def put(img, pos, word):
    for k, (x, y) in pos.items():
        img.set(x, y, (word >> k) & 1)


def weight_le2(nbits):
    pats = [0]
    for a in range(nbits):
        pats.append(1 << a)
        for b in range(a + 1, nbits):
            pats.append((1 << a) | (1 << b))
    return pats


def gen(ctx):
    r = ctx.rng
    L = []
    for raw in range(1 << 15):
        L.append('qr.fmt0 %d' % raw)
        L.append('mq.fmt %d' % raw)
    if ctx.tier == 'thorough':
        for raw in range(1 << 18):
            L.append('rm.fmt0 %d' % raw)
    else:
        seen = set()
        for c in RMV:
            for p in weight_le2(18):
                seen.add(c ^ p)
                for b in range(18):
                    seen.add(c ^ p ^ (1 << b))
        for _ in range(20000):
            seen.add(r.below(1 << 18))
        for raw in sorted(seen):
            L.append('rm.fmt0 %d' % raw)
    # garbage above the code length must not matter to the verdict more than as extra distance
    for _ in range(200):
        L.append('qr.fmt0 %d' % (r.below(1 << 15) | (r.below(4) << 15)))
    # two-copy logic on bitmaps
    pats15 = weight_le2(15)
    sizes = [21] if ctx.tier == 'quick' else [21, 45]
    for size in sizes:
        c1, c2 = qr_pos(size)
        for idx, word in enumerate(QRF):
            if ctx.tier == 'quick' and idx % 4 != ctx.seed % 4 and idx not in (0, 31):
                sub = pats15[::11]
            else:
                sub = pats15
            for p in sub:
                for other in ('same', 'zero', 'inv', 'rand'):
                    if other != 'same' and p.bit_count() < 2 and ctx.tier == 'quick':
                        continue
                    for consulted in (1, 2):
                        img = Img(size, size)
                        img.set(8, size - 8, 1)  # dark module
                        if consulted == 1:
                            o = {'same': word, 'zero': 0, 'inv': word ^ 0x7FFF, 'rand': r.below(1 << 15)}[other]
                            put(img, c2, o)
                            put(img, c1, word ^ p)
                        else:
                            far = far_word(QRF, r)
                            put(img, c1, far)
                            put(img, c2, word ^ p)
                        L.append('qr.fmt %s' % img.show())
        for _ in range(50):
            img = Img(size, size)
            put(img, c1, far_word(QRF, r))
            put(img, c2, far_word(QRF, r))
            L.append('qr.fmt %s' % img.show())
    # the same two-copy logic through the PUBLIC API: complete reference symbols with damaged format copies
    from checks import refqr
    segs = [(1, b'0123456789')]
    for idx, word in enumerate(QRF):
        level, mask = idx >> 3, idx & 7
        m0 = refqr.encode(1, level, mask, segs)
        c1, c2 = qr_pos(21)
        sub = pats15 if ctx.tier == 'thorough' else [pats15[(7 * k + idx) % len(pats15)] for k in range(6)]
        for p in sub:
            for variant in ('same', 'other', 'zero', 'c2'):
                m = [row[:] for row in m0]

                def putm(pos, w):
                    for k, (x, y) in pos.items():
                        m[y][x] = (w >> k) & 1
                if variant == 'c2':
                    putm(c1, far_word(QRF, r))
                    putm(c2, word ^ p)
                else:
                    putm(c1, word ^ p)
                    if variant == 'other':
                        putm(c2, QRF[(idx + 1 + r.below(31)) % 32] ^ (1 << r.below(15) if r.chance(1, 2) else 0))
                    elif variant == 'zero':
                        putm(c2, 0)
                L.append('qr.dec %s' % refqr.to_image_str(m))
                ctx.c11_full = getattr(ctx, 'c11_full', {})
                ctx.c11_full[L[-1]] = 'ok 1 %d %d 1 1 30313233343536373839' % (level, mask)
    # Micro QR through the public API: complete reference symbols of every (version, level, mask), every single format
    # module and pairs of them flipped (the one copy tolerates two wrong modules); the expected answer is the description
    from checks import refmicro, refrmqr
    mpos = {i: (8, 1 + i) for i in range(8)}
    mpos.update({j: (15 - j, 8) for j in range(8, 15)})
    for (ver, level) in refmicro.configs():
        msegs = [(refmicro.MODE['num'], b'123')]
        for mask in range(4):
            m0 = refmicro.encode_forms(ver, level, mask, msegs)[0]
            pats = [1 << a for a in range(15)] + [(1 << a) | (1 << b) for a in range(15) for b in range(a + 1, 15)]
            if ctx.tier == 'quick':
                pats = pats[:15] + [pats[15 + (7 * k + ver + level + mask + ctx.seed) % 105] for k in range(10)]
            for p in [0] + pats:
                m = [row[:] for row in m0]
                for k, (x, y) in mpos.items():
                    if (p >> k) & 1:
                        m[y][x] ^= 1
                L.append('mq.dec %s' % refqr.to_image_str(m))
                ctx.c11_full = getattr(ctx, 'c11_full', {})
                ctx.c11_full[L[-1]] = 'ok %d %d %d 1 %d 313233' % (ver, level, mask, refmicro.MODE['num'])
    # rMQR through the public API: first copy with <= 2 wrong modules (second arbitrary); first copy destroyed and the
    # second with <= 2 wrong modules
    rsegs = [(refrmqr.MODE['num'], b'123')]
    for (ver, level) in refrmqr.configs():
        if ctx.tier == 'quick' and (ver + level + ctx.seed) % 4:
            continue
        h, w = refrmqr.SIZES[ver]
        m0 = refrmqr.encode_forms(ver, level, 0, rsegs)[0][0]
        c1, c2 = rm_pos(w, h)
        word = RMV[ver + 32 * level]
        pats = [0] + [1 << a for a in range(18)] + [(1 << a) | (1 << ((a * 5 + 3) % 18)) for a in range(18) if a != (a * 5 + 3) % 18]
        for p in pats:
            for consulted in (1, 2):
                m = [row[:] for row in m0]

                def putw(pos, wv):
                    for k, (x, y) in pos.items():
                        m[y][x] = (wv >> k) & 1
                if consulted == 1:
                    putw(c1, (word ^ 0x1FAB2) ^ p)
                    putw(c2, r.below(1 << 18))
                else:
                    putw(c1, far_word(RMV, r, 18) ^ 0x1FAB2)
                    putw(c2, (word ^ 0x20A7B) ^ p)
                L.append('rm.dec %s' % refqr.to_image_str(m))
                ctx.c11_full = getattr(ctx, 'c11_full', {})
                ctx.c11_full[L[-1]] = 'ok %d %d 0 1 %d 313233' % (ver, level, refrmqr.MODE['num'])
    pats18 = weight_le2(18)
    for idx, word in enumerate(RMV):
        w, h = [(43, 7), (77, 9), (139, 17), (27, 11)][idx % 4]
        c1, c2 = rm_pos(w, h)
        sub = pats18 if ctx.tier == 'thorough' else pats18[:: 9]
        for p in sub:
            for consulted in (1, 2):
                img = Img(w, h)
                if consulted == 1:
                    put(img, c2, r.below(1 << 18))
                    put(img, c1, (word ^ 0x1FAB2) ^ p)
                else:
                    put(img, c1, far_word(RMV, r, 18) ^ 0x1FAB2)
                    put(img, c2, (word ^ 0x20A7B) ^ p)
                L.append('rm.fmt %s' % img.show())
    # the WRITING side: what the encoders put into the format / version information modules - both copies of the QR format word
    # for every (level, mask), both version-information blocks of every version 7-40, the Micro QR word for every
    # (version, level, mask), both copies of the rMQR word for every (version, level) - read back from the emitted bitmap at
    # the standard's positions and compared with BCH words computed here
    from checks import symgen as _sg, refqr as _rq, refmicro as _rm, refrmqr as _rr
    W = []
    for level in (0, 1, 2, 3):
        for mask in range(8):
            W.append(('qr', 1, level, mask))
    for ver in range(7, 41):
        W.append(('qr', ver, 1 + ver % 2, ver % 8))
    for (ver, level) in _rm.configs():
        for mask in range(4):
            W.append(('mq', ver, level, mask))
    for (ver, level) in _rr.configs():
        W.append(('rm', ver, level, 0))
    ctx.c11_written = {}
    for (sym, ver, level, mask) in W:
        line = _sg.enc_line(sym, ver, level, mask, [(_sg.ref(sym).MODE['num'], b'1')])
        ctx.c11_written[line] = (sym, ver, level, mask)
        L.append(line)
    return L


def far_word(tbl, r, bits=15):
    while True:
        w = r.below(1 << bits)
        if nearest(tbl, w)[1] >= 3:
            return w


def read(img_s, pos):
    hdr, px = img_s.split(':')
    a = [int(x) for x in hdr.split(',')]
    stride = a[4]
    pix = bytes.fromhex(px)
    v = 0
    for k, (x, y) in pos.items():
        if (pix[y * stride + x // 8] >> (7 - x % 8)) & 1:
            v |= 1 << k
    return v


def expect(l):
    t = l.split()
    if t[0] in ('qr.dec', 'mq.dec', 'rm.dec'):
        return _FULL.get(l)
    if t[0] == 'qr.fmt0':
        return exp_qr0(int(t[1]) & 0xFFFFFFFFFFFFFFFF) if int(t[1]) < (1 << 15) else None
    if t[0] == 'mq.fmt':
        return exp_mq(int(t[1]))
    if t[0] == 'rm.fmt0':
        return exp_rm0(int(t[1]))
    if t[0] == 'qr.fmt':
        size = int(t[1].split(',')[2])
        c1, c2 = qr_pos(size)
        for pos in (c1, c2):
            e = exp_qr0(read(t[1], pos))
            if e != 'ok none':
                return e
        return 'err'
    if t[0] == 'rm.fmt':
        a = t[1].split(':')[0].split(',')
        c1, c2 = rm_pos(int(a[2]), int(a[3]))
        e = exp_rm0(read(t[1], c1) ^ 0x1FAB2)
        if e != 'ok none':
            return e
        e = exp_rm0(read(t[1], c2) ^ 0x20A7B)
        return e if e != 'ok none' else 'err'
    return None


def written_mismatch(sym, ver, level, mask, o):
    """None, or (which, got, want) for the first information word of an emitted symbol that is not the standard's"""
    from checks import refqr as _rq, refmicro as _rm
    if not o.startswith('ok '):
        return ('encoder', o[:40], 'ok')
    img = o[3:]
    hdr = img.split(':')[0].split(',')
    w, h = int(hdr[2]), int(hdr[3])
    if sym == 'qr':
        want = _rq.format_bits(level, mask)
        for name, pos in zip(('first format copy', 'second format copy'), qr_pos(w)):
            got = read(img, pos)
            if got != want:
                return (name, '0x%04x' % got, '0x%04x' % want)
        if ver >= 7:
            wv = _rq.version_bits(ver)
            ll = {i: (i // 3, w - 11 + i % 3) for i in range(18)}     # lower-left block: column i/3, row size-11+i%3
            ur = {i: (w - 11 + i % 3, i // 3) for i in range(18)}     # upper-right block: its transpose
            for name, pos in (('lower-left version block', ll), ('upper-right version block', ur)):
                got = read(img, pos)
                if got != wv:
                    return (name, '0x%05x' % got, '0x%05x' % wv)
        return None
    if sym == 'mq':
        pos = {i: (8, 1 + i) for i in range(8)}
        pos.update({j: (15 - j, 8) for j in range(8, 15)})
        got, want = read(img, pos), _rm.format_bits(ver, level, mask)
        return None if got == want else ('format word', '0x%04x' % got, '0x%04x' % want)
    c1, c2 = rm_pos(w, h)
    word = RMV[ver + 32 * level]
    for name, pos, mk in (('first copy', c1, 0x1FAB2), ('second copy', c2, 0x20A7B)):
        got = read(img, pos)
        if got != word ^ mk:
            return (name, '0x%05x' % got, '0x%05x' % (word ^ mk))
    return None


_FULL = {}


def oracle(ctx, lines, out):
    v = []
    cnt = {}
    _FULL.clear()
    _FULL.update(getattr(ctx, 'c11_full', {}))
    written = getattr(ctx, 'c11_written', {})
    for l, o in zip(lines, out):
        if l in written:
            sym, ver, level, mask = written[l]
            bad = written_mismatch(sym, ver, level, mask, o)
            if bad:
                key = '%s.written:%s' % (sym, bad[0])
                cnt[key] = cnt.get(key, 0) + 1
                if cnt[key] <= 3:
                    v.append({'key': key, 'lines': [l], 'expect': bad[2], 'got': bad[1], 'detail': '%s v%d l%d mask %d: %s holds %s, the standard word is %s' % (sym, ver, level, mask, bad[0], bad[1], bad[2])})
            continue
        e = expect(l)
        if e is None or o.startswith('bad-op'):
            continue
        oc = 'err' if o.startswith('err') else o
        if oc != e:
            t = l.split()
            if t[0] == 'qr.fmt':
                size = int(t[1].split(',')[2])
                c1, c2 = qr_pos(size)
                r1, r2 = read(t[1], c1), read(t[1], c2)
                if exp_qr0(r1) == 'ok none':
                    key = 'qr.fmt:second-copy'
                    detail = 'first copy unreadable (0x%04x), second copy 0x%04x is %d module(s) from codeword %s but the decoder answers `%s`' % (
                        r1, r2, nearest(QRF, r2)[1], e, oc)
                else:
                    key = 'qr.fmt:first-copy'
                    detail = 'first copy 0x%04x within 2 of a codeword (%s) but the decoder answers `%s`' % (r1, e, oc)
            elif t[0] == 'qr.dec':
                key = 'qr.dec:two-copy'
                detail = 'complete v1 symbol with damaged format information: DecodeBitmap answers `%s`, expected `%s` (the first copy within 2 of a codeword must win; an unreadable first copy falls back to the second)' % (oc[:60], e[:40])
            else:
                key = t[0]
                detail = '%s: implementation `%s`, standard `%s`' % (l[:80], oc, e)
            cnt[key] = cnt.get(key, 0) + 1
            if cnt[key] <= 3:
                v.append({'key': key, 'lines': [l], 'expect': e, 'got': o, 'detail': detail})
    for x in v:
        x['detail'] += ' (%d such cases in this run)' % cnt[x['key']]
    return v


def nontrivial(line, out):
    t = line.split()
    if t[0] == 'qr.fmt0':
        return int(t[1]) not in QRF
    if t[0] == 'mq.fmt':
        return int(t[1]) not in MQF
    if t[0] == 'rm.fmt0':
        return int(t[1]) not in RMV
    return True


def search(ctx, broken, diffs):
    return []
