"""C07 — whatever a decoder returns is a well-formed, re-encodable symbol description."""
from checks import symgen, refqr, refmicro, refrmqr, gf256
from checks.refqr import bits_of

ID = 'C07'
PROP_MODULES = ['QRV.Props.C07', 'QRV.Props.C06Micro', 'QRV.Props.C06RMQR', 'QRV.Props.C07RMQR', 'QRV.Props.C07Micro', 'QRV.Props.C01MicroWeak', 'QRV.Props.C07Overfull', 'QRV.Props.C07OverfullExt']
RULE = ('structurally valid symbols (correct function patterns, format information and Reed-Solomon parity, built by the independent reference encoder) whose DATA codewords are '
        'arbitrary: random bytes; bit streams made of every mode-indicator value, count fields at / below / beyond what the remaining codewords hold, digit groups >= 1000/100/10, '
        'alphanumeric pairs >= 2025, kanji codes that are unassigned or beyond the table, segments truncated in the middle of a character, valid segment lists followed by garbage. '
        'All (version, level) rows (rotating in the quick tier). Oracle: if DecodeBitmap succeeds, the version matches the bitmap size, level and mask are in range, every segment has a '
        'supported mode with bytes valid for it, re-encoding at the same version/level/mask succeeds and decodes to the identical description. Also run on the Lean model. '
        'non-trivial = symbols on which decoding succeeds with at least one segment, or that contain an out-of-range group')
TRUSTED = [
    'Lean 4.33.0 kernel; axioms per theorem as listed (C17 decoder soundness lemmas)',
    'python reference encoder used to wrap arbitrary data codewords into structurally valid symbols',
    'symbol models tied by correspondence',
]
ASSUMPTIONS = []
PARTIAL = 'well-formedness of every decoded description is a theorem for all three decoders (qr_decoded_wf, micro_decoded_wf, rmqr_decoded_wf); re-encodability whenever it fits is a theorem for all three (QR, rMQR, Micro QR: micro_decoded_reencodes_any); over-full descriptions from truncated final characters are the recorded finding D16, whose extent is a theorem too (C07Overfull / C07OverfullExt: *_decoded_overfull_within_last_group - what a decoder returns exceeds the data codewords by less than its last read group), which is exactly the class the known-finding key of the oracle covers'
MANIFEST = {
    'technique': 'Lean 4: every description the QR, Micro QR and rMQR decoder models return is well-formed (fields in range, version = size, modes supported, bytes valid per mode) and, QR, if it fits, re-encodes and decodes to itself (via the round-trip theorem); arbitrary-codeword symbols by differential runs',
    'text': ('QRV/Props/C07.lean proves for the QR decoder model: whatever DecodeBitmap returns has the version given by the bitmap size, level and mask in range, and only segments of supported modes whose bytes are '
             'valid for the mode with a representable count (numeric digits, the 45-set, well-formed UTF-8 of kanji-representable characters; unassigned kanji codes are rejected: C17); and every such description '
             'that fits the symbol re-encodes and decodes to the identical description (from roundtrip_QR). Descriptions that do not fit arise only from the recorded finding D16. Props/C06Micro.lean and C06RMQR.lean prove the same well-formedness for the Micro QR decoder (legal version-level pair, modes of the version, no empty numeric segment, no empty M4 segment, 9+2v square) '
             'and the rMQR decoder (version 0-31 of the bitmap\'s width and height, level 0-1). Props/C07RMQR.lean: a decoded rMQR description that fits re-encodes and decodes to itself. Props/C01MicroWeak.lean: the same for EVERY description the Micro QR decoder returns (round trip under the sharp condition: no empty numeric segment, no empty M4 segment - which the decoder guarantees). The count-overrun / out-of-range-group cases are exercised on structurally valid symbols with arbitrary data codewords built by the reference encoder.'),
    'note': 'Trusted: Lean kernel; reference encoder wrapping arbitrary codewords; models tied by correspondence.',
}


def random_stream(r, sym, ver, level, nbits):
    """a bit stream of nbits built from plausible and implausible pieces"""
    ref = symgen.ref(sym)
    out = []
    c = r.below(10)
    if c == 0:
        return [r.below(2) for _ in range(nbits)]
    while len(out) < nbits:
        k = r.choice([0, 1, 2, 3, 4, 5, 6, 7, 7, 7, 8, 9, 10, 11])
        kinds = symgen.kinds_for(sym, ver)
        kind = r.choice(kinds)
        mode = ref.MODE[kind]
        mbits = {'qr': 4, 'rm': 3, 'mq': ver - 1}[sym]
        cb = ref.count_bits_kind(kind, ver, level)
        left = nbits - len(out) - mbits - cb
        per = {'num': 10 / 3, 'alnum': 5.5, 'byte': 8, 'kanji': 13}[kind]
        fit = max(0, int(left / per))
        if k < 5:      # a valid segment that fits
            n = r.range(0, min(fit, (1 << cb) - 1, 20))
            data = symgen.payload(r, kind, n)
            piece = bits_of(mode, mbits) + bits_of(n, cb) + body_bits(sym, kind, data)
        elif k == 5:   # count beyond what is left
            n = min((1 << cb) - 1, fit + r.range(1, 5))
            piece = bits_of(mode, mbits) + bits_of(n, cb) + [r.below(2) for _ in range(max(0, left))]
        elif k == 6:   # random mode indicator value
            piece = bits_of(r.below(1 << max(mbits, 1)), mbits) + [r.below(2) for _ in range(r.range(0, 30))]
        elif k == 7:   # out-of-range group, with weight on the first invalid value of each group size
            if kind == 'num':
                c = r.below(3)
                if c == 0:
                    piece = bits_of(mode, mbits) + bits_of(3, cb) + bits_of(r.choice([1000, 1000, 1001, 1023, r.range(1000, 1023)]), 10)
                elif c == 1:
                    piece = bits_of(mode, mbits) + bits_of(5, cb) + bits_of(r.below(1000), 10) + bits_of(r.choice([100, 100, 101, 127, r.range(100, 127)]), 7)
                else:
                    piece = bits_of(mode, mbits) + bits_of(4, cb) + bits_of(r.below(1000), 10) + bits_of(r.choice([10, 10, 11, 15]), 4)
            elif kind == 'alnum':
                if r.chance(1, 2):
                    piece = bits_of(mode, mbits) + bits_of(2, cb) + bits_of(r.choice([2025, 2025, 2026, 2047, r.range(2025, 2047)]), 11)
                else:
                    piece = bits_of(mode, mbits) + bits_of(3, cb) + bits_of(r.below(2025), 11) + bits_of(r.choice([45, 45, 46, 63]), 6)
            elif kind == 'kanji':
                piece = bits_of(mode, mbits) + bits_of(1, cb) + bits_of(r.choice([63, 109, 7973, 8000, 8191, r.below(8192)]), 13)
            else:
                piece = bits_of(mode, mbits) + bits_of(1, cb) + bits_of(r.below(256), 8)
        elif k == 8:   # terminator then garbage
            piece = [0] * (mbits + cb) + [r.below(2) for _ in range(r.range(0, 40))]
        elif k == 9:   # exactly fill: count such that the last character is cut
            n = min((1 << cb) - 1, fit + 1)
            piece = bits_of(mode, mbits) + bits_of(n, cb) + [r.below(2) for _ in range(max(0, left))]
        else:
            piece = [r.below(2) for _ in range(r.range(1, 24))]
        out += piece
    return out[:nbits]


def body_bits(sym, kind, data):
    if kind == 'num':
        s = data.decode()
        b = []
        for i in range(0, len(s), 3):
            g = s[i:i + 3]
            b += bits_of(int(g), (0, 4, 7, 10)[len(g)])
        return b
    if kind == 'alnum':
        b = []
        for i in range(0, len(data) - 1, 2):
            b += bits_of(refqr.ALNUM.index(data[i]) * 45 + refqr.ALNUM.index(data[i + 1]), 11)
        if len(data) % 2:
            b += bits_of(refqr.ALNUM.index(data[-1]), 6)
        return b
    if kind == 'byte':
        return [x for c in data for x in bits_of(c, 8)]
    from checks.c17 import REF_INV
    return [x for ch in data.decode() for x in bits_of(REF_INV[ord(ch)], 13)]


def build(sym, ver, level, mask, bits):
    """structurally valid symbol carrying the given data bits"""
    if sym == 'qr':
        n = refqr.size_of(ver)
        m, f = refqr.function_patterns(ver)
        data = bytes(int(''.join(map(str, bits[i:i + 8])), 2) for i in range(0, len(bits), 8))
        cw = refqr.interleaved(ver, level, data)
        stream = [b for c in cw for b in bits_of(c, 8)]
        for k, (x, y) in enumerate(refqr.data_coords(ver, f)):
            v = stream[k] if k < len(stream) else 0
            m[y][x] = v ^ (1 if refqr.MASKS[mask](y, x) else 0)
        refqr.draw_format(m, n, level, mask)
        refqr.draw_version(m, n, ver)
        return m
    if sym == 'mq':
        m, f = refmicro.function_patterns(ver)
        stream = refmicro.codewords(ver, level, bits)
        for k, (x, y) in enumerate(refmicro.data_coords(ver, f)):
            m[y][x] = stream[k] ^ (1 if refmicro.MASKS[mask](y, x) else 0)
        b = refmicro.format_bits(ver, level, mask)
        for i in range(8):
            m[1 + i][8] = (b >> i) & 1
        for i in range(7):
            m[8][7 - i] = (b >> (8 + i)) & 1
        return m
    h, w = refrmqr.SIZES[ver]
    m, f = refrmqr.function_patterns(ver)
    if h == 9:
        m[h - 2][0] = 0
    data = bytes(int(''.join(map(str, bits[i:i + 8])), 2) for i in range(0, len(bits), 8))
    cw = refrmqr.interleaved(ver, level, data)
    stream = [b for c in cw for b in bits_of(c, 8)]
    for k, (x, y) in enumerate(refrmqr.data_coords(ver, f)):
        v = stream[k] if k < len(stream) else 0
        m[y][x] = v ^ (1 if (y // 2 + x // 3) % 2 == 0 else 0)
    fw = refrmqr.format_word(ver, level)
    for i in range(18):
        m[1 + i % 5][8 + i // 5] = ((fw ^ 0x1FAB2) >> i) & 1
    for i in range(15):
        m[h - 6 + i % 5][w - 8 + i // 5] = ((fw ^ 0x20A7B) >> i) & 1
    for j, i in enumerate((15, 16, 17)):
        m[h - 6][w - 5 + j] = ((fw ^ 0x20A7B) >> i) & 1
    return m


def boundary_corpus(r):
    """structurally valid symbols whose FIRST segment holds one boundary value of every group size (999/1000/1023,
    99/100/127, 9/10/15, 2024/2025/2047, 44/45/63, kanji 0/63/109/7972/7973/8191), every symbology"""
    dec, meta, streams = [], [], []
    for sym in ('qr', 'mq', 'rm'):
        ref = symgen.ref(sym)
        for (ver, level) in {'qr': [(1, 1), (10, 0), (27, 3)], 'mq': [(2, 1), (3, 0), (4, 3)], 'rm': [(0, 0), (12, 1), (31, 0)]}[sym]:
            nbits = ref.capacity_bits(ver, level)
            mbits = {'qr': 4, 'rm': 3, 'mq': ver - 1}[sym]
            for kind in symgen.kinds_for(sym, ver):
                cb = ref.count_bits_kind(kind, ver, level)
                mode = ref.MODE[kind]
                heads = []
                if kind == 'num':
                    for v in (999, 1000, 1023):
                        heads.append(bits_of(3, cb) + bits_of(v, 10))
                    for v in (99, 100, 101, 127):
                        heads.append(bits_of(5, cb) + bits_of(123, 10) + bits_of(v, 7))
                        heads.append(bits_of(2, cb) + bits_of(v, 7))
                    for v in (9, 10, 15):
                        heads.append(bits_of(4, cb) + bits_of(123, 10) + bits_of(v, 4))
                        heads.append(bits_of(1, cb) + bits_of(v, 4))
                elif kind == 'alnum':
                    for v in (2024, 2025, 2047):
                        heads.append(bits_of(2, cb) + bits_of(v, 11))
                    for v in (44, 45, 63):
                        heads.append(bits_of(3, cb) + bits_of(100, 11) + bits_of(v, 6))
                        heads.append(bits_of(1, cb) + bits_of(v, 6))
                elif kind == 'kanji':
                    for v in (0, 63, 109, 7972, 7973, 8191):
                        heads.append(bits_of(1, cb) + bits_of(v, 13))
                for h in heads:
                    bits = (bits_of(mode, mbits) + h + [0] * nbits)[:nbits]
                    mask = 0 if sym == 'rm' else r.choice(symgen.masks(sym))
                    dec.append('%s.dec %s' % (sym, refqr.to_image_str(build(sym, ver, level, mask, bits))))
                    meta.append((sym, ver, level, mask))
                    streams.append(bits)
    return dec, meta, streams


def gen(ctx):
    r = ctx.rng
    dec, meta, streams = [], [], []
    reps = 2 if ctx.tier == 'quick' else 20
    for sym in ('qr', 'mq', 'rm'):
        cfgs = symgen.configs(sym)
        for ci, (ver, level) in enumerate(cfgs):
            if sym == 'qr' and ctx.tier == 'quick' and ver > 8 and (ci + ctx.seed) % 4:
                continue
            nbits = symgen.ref(sym).capacity_bits(ver, level)
            for _ in range(reps if (sym != 'qr' or ver > 3) else reps * 4):
                bits = random_stream(r, sym, ver, level, nbits)
                mask = 0 if sym == 'rm' else r.choice(symgen.masks(sym))
                dec.append('%s.dec %s' % (sym, refqr.to_image_str(build(sym, ver, level, mask, bits))))
                meta.append((sym, ver, level, mask))
                streams.append(bits)
    d1, m1, s1 = boundary_corpus(r)
    dec += d1
    meta += m1
    streams += s1
    # deterministic corpus 2: the END of the data. A valid segment list leaving exactly k spare bits (k = 0..14),
    # followed by the first k bits of a new segment header of every mode (indicator, count >= 1, data): exercises the
    # end-of-data handling at the mode read, inside the count read and inside the data read of every parser
    for sym in ('qr', 'mq', 'rm'):
        ref = symgen.ref(sym)
        cfgs = {'qr': [(1, 1), (2, 0), (10, 3)], 'mq': symgen.configs('mq'), 'rm': [(0, 0), (5, 1), (17, 0), (31, 1)]}[sym]
        if ctx.tier == 'thorough':
            cfgs = symgen.configs(sym) if sym != 'qr' else [c for c in symgen.configs('qr') if c[0] in (1, 2, 3, 9, 10, 26, 27, 40)]
        for (ver, level) in cfgs:
            nbits = ref.capacity_bits(ver, level)
            mbits = {'qr': 4, 'rm': 3, 'mq': ver - 1}[sym]
            for k in range(0, 15):
                segs = symgen.exact_fill(sym, r, ver, level, k)
                if segs is None:
                    continue
                pre = []
                for (mode, data) in segs:
                    kind = [kk for kk in symgen.kinds_for(sym, ver) if ref.MODE[kk] == mode][0]
                    cnt = len(data.decode()) if kind == 'kanji' else len(data)
                    pre += bits_of(mode, mbits) + bits_of(cnt, ref.count_bits_kind(kind, ver, level)) + body_bits(sym, kind, data)
                if len(pre) != nbits - k:
                    continue
                tails = [[0] * k, [1] * k]
                for kind in symgen.kinds_for(sym, ver):
                    cb = ref.count_bits_kind(kind, ver, level)
                    for c in (1, (1 << cb) - 1):
                        tails.append((bits_of(ref.MODE[kind], mbits) + bits_of(c, cb) + [r.below(2) for _ in range(16)])[:k])
                seen = set()
                for t in tails:
                    if tuple(t) in seen:
                        continue
                    seen.add(tuple(t))
                    mask = 0 if sym == 'rm' else r.choice(symgen.masks(sym))
                    dec.append('%s.dec %s' % (sym, refqr.to_image_str(build(sym, ver, level, mask, pre + t))))
                    meta.append((sym, ver, level, mask))
                    streams.append(pre + t)
    out = ctx.go(dec)
    enc, idx = [], []
    for i, o in enumerate(out):
        d = symgen.parse_desc(o)
        if d is not None:
            enc.append(symgen.enc_line(meta[i][0], d[0], d[1], d[2], d[3]))
            idx.append(i)
    eout = ctx.go(enc)
    dec2 = ['%s.dec %s' % (meta[i][0], o[3:]) if o.startswith('ok ') else 'qr.dec 0,0,0,0,0:-' for i, o in zip(idx, eout)]
    ctx.c07 = {'meta': meta, 'n': len(dec), 'idx': idx, 'streams': streams}
    return dec + enc + dec2


def oracle(ctx, lines, out):
    meta, n, idx = ctx.c07['meta'], ctx.c07['n'], ctx.c07['idx']
    v, cnt = [], {}

    def add(key, i, detail):
        cnt[key] = cnt.get(key, 0) + 1
        if cnt[key] <= 2:
            v.append({'key': key, 'lines': [lines[i]], 'expect': '', 'got': out[i][:100], 'detail': detail})
    for i, (sym, ver, level, mask) in enumerate(meta):
        o = out[i]
        if o.startswith('panic') or o in ('crash', 'timeout'):
            add('%s:decode-%s' % (sym, o.split()[0]), i, '%s.DecodeBitmap %ss on a structurally valid v%d l%d symbol' % (sym, o.split()[0], ver, level))
    for k, i in enumerate(idx):
        sym, ver, level, mask = meta[i]
        d = symgen.parse_desc(out[i])
        dv, dl, dm, segs = d
        ref = symgen.ref(sym)
        if (dv, dl) != (ver, level) or (sym != 'rm' and dm != mask):
            add('%s:wrong-version-level-mask' % sym, i, '%s: decoded v%d l%d mask %d from a v%d l%d mask %d symbol' % (sym, dv, dl, dm, ver, level, mask))
            continue
        bad = next(((m, s) for m, s in segs if m not in ref.KIND or not ref.seg_valid(m, s)), None)
        if bad:
            add('%s:invalid-segment-returned' % sym, i, '%s v%d l%d: decoder returns segment mode %d data %s which is not valid for its mode' % (sym, ver, level, bad[0], bad[1].hex()[:40]))
            continue
        # the description must account for the WHOLE stream: its own bits are a prefix of the data bits, and what follows
        # is the end of the data or a terminator - a segment that starts there must not be dropped silently
        st = ctx.c07.get('streams')
        if st is not None and i < len(st):
            bits = st[i]
            mbits = {'qr': 4, 'rm': 3, 'mq': ver - 1}[sym]
            own = []
            for m, sdat in segs:
                kind = ref.KIND[m]
                own += bits_of(m, mbits) + bits_of(ref.seg_count(m, sdat), ref.count_bits_kind(kind, ver, level)) + body_bits(sym, kind, sdat)
            k2 = min(len(own), len(bits))
            prefix_ok = True
            if own[:k2] != bits[:k2]:
                # not a prefix: the QR decoder skips reserved mode indicators, kanji characters with two codes re-encode to
                # the smaller one, ... - no claim is made about such streams here (re-encodability is checked below)
                prefix_ok = False
            rest = bits[len(own):] if prefix_ok else []
            # a COMPLETE header of a supported data mode with a count >= 1 follows: that segment must not vanish
            # (an unknown / reserved indicator, or a header cut by the end of the data, ends the parse: lenient, not flagged)
            if len(rest) >= mbits:
                mode = int(''.join(map(str, rest[:mbits])), 2) if mbits else 0
                kind = ref.KIND.get(mode)
                if kind in symgen.kinds_for(sym, ver):
                    cb = ref.count_bits_kind(kind, ver, level)
                    if len(rest) >= mbits + cb:
                        cntv = int(''.join(map(str, rest[mbits:mbits + cb])), 2)
                        is_term = (sym == 'rm' and False) or (sym == 'mq' and kind == 'num' and cntv == 0)
                        if cntv >= 1 and not is_term:
                            add('%s:segment-dropped' % sym, i, '%s v%d l%d: decoding succeeds with [%s] (%d bits) although the data continues with a complete %s header declaring %d characters: the segment was dropped silently instead of being reported' % (
                                sym, ver, level, symgen.show_segs(segs), len(own), kind, cntv))
                            continue
        eo, do = out[n + k], out[n + len(idx) + k]
        if not eo.startswith('ok '):
            total = sum(ref.seg_bits_len_n(ref.KIND[m], ref.seg_count(m, s), ver, level) for m, s in segs)
            # finding D16 is exactly: ONE read group (the final character group, or the count field of an empty final
            # segment) starts before the end of the data and is zero-extended past it - ReadBits answers EOF on the next
            # call, so no second group can be invented.  Anything that needs whole further groups is a different defect.
            capr = (ref.capacity_bits(ver, level) + 7) // 8 * 8
            lk, ln = ref.KIND[segs[-1][0]], ref.seg_count(segs[-1][0], segs[-1][1])
            if ln == 0:
                lastgroup = ref.count_bits_kind(lk, ver, level)
            else:
                lastgroup = {'num': {0: 10, 1: 4, 2: 7}[ln % 3], 'alnum': 11 if ln % 2 == 0 else 6, 'byte': 8, 'kanji': 13}[lk]
            kind = 'other' if total <= ref.capacity_bits(ver, level) else ('overfull' if total - lastgroup < capr else 'overfull-by-whole-groups')
            add('%s:not-reencodable:%s' % (sym, kind), i, '%s v%d l%d: decoded description [%s] (%d bits, capacity %d) does not re-encode: %s' % (
                sym, ver, level, symgen.show_segs(segs), total, ref.capacity_bits(ver, level), eo[:50]))
            continue
        dd = symgen.parse_desc(do)
        if dd is None or dd != d:
            add('%s:reencode-roundtrip-differs' % sym, i, '%s v%d l%d: decode(encode(decoded)) = %s differs from decoded [%s]' % (sym, ver, level, do[:80], symgen.show_segs(segs)))
    for x in v:
        x['detail'] += ' (%d such cases in this run)' % cnt[x['key']]
    return v


def nontrivial(line, out):
    return '.dec ' in line and (out.startswith('ok') and not out.rstrip().endswith(' 0') or out.startswith('err'))


def search(ctx, broken, diffs):
    return []
