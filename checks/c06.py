"""C06 — decoders are total: any bitmap yields a result or an error, never a panic."""
from checks import symgen, refqr

ID = 'C06'
PROP_MODULES = ['QRV.Props.C06', 'QRV.Props.C06Micro', 'QRV.Props.C06RMQR', 'QRV.Props.C06Output']
RULE = ('bitmaps of sizes {0, 1, 7, 11..29, every valid size of every symbology and +-1, 43x7-style non-square, 181, 185, 1000x3}, origins {(0,0), (5,5), (-3,-3)} and, for valid symbols, origins far from the symbol size on either side ((-w,-h), (-40,-40), (-1000,7), (300,0), (1000,1000), ...), contents: blank, '
        'all dark, noise, valid symbols of every symbology cropped / padded / pasted on a canvas of another version\'s size / shifted to a non-zero origin / with another version\'s '
        'format information stamped in / fed to the wrong symbology\'s decoder; each fed to all three DecodeBitmap functions under recover(), with a memory limit. '
        'Oracle: the outcome is ok or err, never a panic, crash or timeout; allocation is bounded by a small multiple of the bitmap size (measured by the harness). Also run on the '
        'Lean model. non-trivial = any bitmap that is not uniformly blank or uniformly dark (noise, valid symbols that were cropped / padded / shifted / cross-fed / restamped, arbitrary-codeword symbols, boundary-value symbols)')
TRUSTED = [
    'Lean 4.33.0 kernel; axioms per theorem as listed',
    'Go runtime panics are observed through recover() in the harness; allocation through runtime.MemStats',
    'symbol models (with explicit index / nil / bounds checks as panic outcomes) tied by correspondence',
]
ASSUMPTIONS = ['images are those constructible with bitmap.New(rect)+SetBinary: Pix has Stride*Dy bytes']
PARTIAL = 'totality (no panic, termination) is a theorem for every well-formed bitmap for all three decoders (qr_decode_total, micro_decode_total, rmqr_decode_total); the allocation bound is measured by the harness; what is a statement about values is proved (C06Output: the payload bytes of everything a decoder returns are fewer than the bitmap has modules)'
MANIFEST = {
    'technique': 'Lean 4: total no-panic/termination theorems for the QR, Micro QR and rMQR decoder models (every index, nil, bound and fuel branch), wrong-size rejection; malformed-bitmap differential runs under recover()',
    'text': ('QRV/Props/C06.lean proves for the QR decoder model, in which every Go index expression, nil dereference, slice bound and explicit panic is an explicit branch and every loop has fuel: for EVERY '
             'bitmap constructible with bitmap.New+SetBinary (any size, origin, contents) DecodeBitmap returns a result or an error - never a panic, never fuel exhaustion (placement walk, de-interleave, '
             'Reed-Solomon incl. Euclid/Chien, segment loop). Props/C06Micro.lean and C06RMQR.lean prove the same for the Micro QR and rMQR decoder models (per-version facts - fuel of the walk, bytes offered by the walk >= total codewords incl. the D18 partial byte, table lookups - by kernel evaluation over the regenerated tables); '
             'a bitmap whose size matches no version is proved to be answered with an error. The allocation bound is exercised on malformed bitmaps (sizes, origins, cropped/padded/cross-fed symbols, arbitrary codewords incl. phantom error locations) under recover().'),
    'note': 'Trusted: Lean kernel; models tied by correspondence; allocation bound is measured by the harness, not proved.',
}


def img_str(x0, y0, w, h, pix_fn):
    stride = (w + 7) // 8
    pix = bytearray(stride * h)
    for y in range(h):
        for x in range(w):
            if pix_fn(x, y):
                pix[y * stride + x // 8] |= 0x80 >> (x % 8)
    return '%d,%d,%d,%d,%d:%s' % (x0, y0, x0 + w, y0 + h, stride, bytes(pix).hex() if pix else '-')


def gen(ctx):
    r = ctx.rng
    L = []

    def feed(s):
        for sym in ('qr', 'mq', 'rm'):
            L.append('%s.dec %s' % (sym, s))
    # blank / dark / noise at many sizes and origins
    sizes = [(0, 0), (1, 1), (0, 5), (5, 0), (7, 7), (8, 8), (10, 10), (11, 11), (12, 12), (13, 13), (14, 14), (15, 15), (16, 16), (17, 17), (18, 18),
             (20, 20), (21, 21), (22, 22), (24, 24), (25, 25), (26, 26), (29, 29), (43, 7), (27, 11), (27, 13), (44, 7), (43, 8), (139, 17), (140, 17),
             (59, 9), (21, 25), (25, 21), (177, 177), (178, 178), (181, 181), (185, 185), (1000, 3), (3, 1000), (300, 300)]
    for (w, h) in sizes:
        for (x0, y0) in ((0, 0), (5, 5), (-3, -3)):
            if ctx.tier == 'quick' and (x0, y0) != (0, 0) and w * h > 2000:
                continue
            feed(img_str(x0, y0, w, h, lambda x, y: False))
            feed(img_str(x0, y0, w, h, lambda x, y: True))
            if w * h <= 40000:
                rows = [r.next() for _ in range(h + 1)]
                feed(img_str(x0, y0, w, h, lambda x, y: (rows[y] >> (x % 64)) & 1 ^ ((x * 7 + y * 13) & 1)))
    # valid symbols, then cropped / padded / shifted / cross-fed
    per = 1 if ctx.tier == 'quick' else 3
    cfgs = {'qr': [(1, 0), (2, 1), (6, 3), (7, 2), (10, 0), (27, 1), (40, 2)], 'mq': symgen.configs('mq'), 'rm': [(0, 0), (5, 1), (10, 0), (16, 1), (21, 0), (31, 1)]}
    encs, em = [], []
    for sym in ('qr', 'mq', 'rm'):
        for (ver, level) in cfgs[sym]:
            for _ in range(per):
                label, segs = symgen.shapes(sym, r, ver, level, 1)[0]
                encs.append(symgen.enc_line(sym, ver, level, 0 if sym == 'rm' else r.choice(symgen.masks(sym)), segs))
                em.append(sym)
    outs = ctx.go(encs)
    mats = [(s, refqr.from_image_str(o[3:])) for s, o in zip(em, outs) if o.startswith('ok ')]
    seen_far = {}
    for sym, m in mats:
        h, w = len(m), len(m[0])

        def at(x, y, m=m, w=w, h=h):
            return 0 <= x < w and 0 <= y < h and m[y][x]
        feed(img_str(0, 0, w, h, at))                                   # as is (also to the wrong decoders)
        feed(img_str(5, 5, w, h, at))                                   # non-zero origin
        feed(img_str(-3, -3, w, h, at))
        # origins far from the symbol size on either side: every coordinate the decoder uses has to be relative to Min
        far = [(-5, 0), (0, -1), (-w, -h), (-w - 5, 0), (-40, -40), (-1000, 7), (7, 0), (300, 0), (1000, 1000)]
        for (x0, y0) in (far if ctx.tier == 'thorough' or not seen_far.get(sym) else [r.choice(far), r.choice(far)]):
            feed(img_str(x0, y0, w, h, at))
        seen_far[sym] = seen_far.get(sym, 0) + 1
        feed(img_str(0, 0, w - 1, h, at))                               # cropped
        feed(img_str(0, 0, w, h - 1, at))
        feed(img_str(0, 0, w + 1, h + 1, at))                           # padded by one
        feed(img_str(0, 0, w + 4, h + 4, at))                           # next version's size (QR)
        feed(img_str(0, 0, w + 5, h + 5, at))
        feed(img_str(0, 0, 181, 181, at))                               # pasted on a large canvas
        feed(img_str(0, 0, w, h, lambda x, y: at(x + 1, y + 1)))        # shifted contents
        feed(img_str(0, 0, 2 * w, h, lambda x, y: at(x % w, y)))
    # structurally valid symbols whose codewords are arbitrary: random data area, and blocks whose syndromes point at
    # positions just in front of the block (the RS position guard)
    from checks import refmicro, refrmqr, gf256
    from checks.refqr import bits_of

    def raw_symbol(sym, ver, level, mask, stream_bits):
        if sym == 'qr':
            n = refqr.size_of(ver)
            m, f = refqr.function_patterns(ver)
            for k, (x, y) in enumerate(refqr.data_coords(ver, f)):
                v = stream_bits[k] if k < len(stream_bits) else 0
                m[y][x] = v ^ (1 if refqr.MASKS[mask](y, x) else 0)
            refqr.draw_format(m, n, level, mask)
            refqr.draw_version(m, n, ver)
            return m
        if sym == 'mq':
            m, f = refmicro.function_patterns(ver)
            for k, (x, y) in enumerate(refmicro.data_coords(ver, f)):
                v = stream_bits[k] if k < len(stream_bits) else 0
                m[y][x] = v ^ (1 if refmicro.MASKS[mask](y, x) else 0)
            b = refmicro.format_bits(ver, level, mask)
            for i in range(8):
                m[1 + i][8] = (b >> i) & 1
            for i in range(7):
                m[8][7 - i] = (b >> (8 + i)) & 1
            return m
        forms, _, _ = refrmqr.encode_forms(ver, level, 0, [])
        m = forms[-1]
        _, f = refrmqr.function_patterns(ver)
        for k, (x, y) in enumerate(refrmqr.data_coords(ver, f)):
            v = stream_bits[k] if k < len(stream_bits) else 0
            m[y][x] = v ^ (1 if (y // 2 + x // 3) % 2 == 0 else 0)
        return m
    singles = [('qr', 1, 1, 26, 7), ('qr', 1, 2, 26, 17), ('qr', 2, 0, 44, 16), ('mq', 2, 1, 10, 5), ('mq', 4, 3, 24, 14), ('rm', 0, 0, 13, 7), ('rm', 5, 1, 21, 14)]
    for (sym, ver, level, tot, ecc) in singles:
        for k in range(8 if ctx.tier == 'quick' else 80):
            if k % 2 == 0:
                cw = r.bytes(tot)
            else:
                extra = r.range(1, 3)
                msg = bytes([r.range(1, 255)]) + r.bytes(tot + extra - 1 - ecc)
                cw = (msg + gf256.parity(ecc, msg))[extra:]
            bits = [b for c in cw for b in bits_of(c, 8)]
            if sym == 'mq' and ver in (1, 3):
                continue
            mask = 0 if sym == 'rm' else r.choice(symgen.masks(sym))
            m = raw_symbol(sym, ver, level, mask, bits)
            L.append('%s.dec %s' % (sym, refqr.to_image_str(m)))
    # another version's format/size combination: QR symbol body of v2 with size of v3 etc. is covered by padding;
    # rMQR: version information of a different size stamped in
    for sym, m in mats:
        if sym != 'rm':
            continue
        for (sym2, m2) in mats:
            if sym2 == 'rm' and (len(m2), len(m2[0])) != (len(m), len(m[0])):
                h, w = len(m), len(m[0])
                feed(img_str(0, 0, w, h, lambda x, y: (m2[y][x] if (y < len(m2) and x < 12 and x < len(m2[0])) else m[y][x])))
                break
    # structurally valid symbols whose data carry the boundary values of every group size (first out-of-range digit
    # group, alphanumeric pair 2025, kanji codes at the table edges) and headers cut at every bit of the end of the data:
    # the segment readers must answer with a description or an error, never a panic
    from checks import c07
    d1, _, _ = c07.boundary_corpus(r)
    L += d1
    return L


def oracle(ctx, lines, out):
    v, cnt = [], {}
    for l, o in zip(lines, out):
        if o.startswith('ok') or o.startswith('err'):
            continue
        sym = l.split('.')[0]
        a = l.split()[1].split(':')[0].split(',')
        x0, y0, x1, y1 = int(a[0]), int(a[1]), int(a[2]), int(a[3])
        w, h = x1 - x0, y1 - y0
        kind = 'origin' if (x0, y0) != (0, 0) else 'size'
        key = '%s:%s:%s' % (sym, o.split()[0], kind)
        cnt[key] = cnt.get(key, 0) + 1
        if cnt[key] <= 2:
            v.append({'key': key, 'lines': [l], 'expect': 'ok or err', 'got': o[:60],
                      'detail': '%s.DecodeBitmap %s on a %dx%d bitmap at origin (%d,%d)' % (sym, o.split()[0] + 's' if o.startswith('panic') else o, w, h, x0, y0)})
    for x in v:
        x['detail'] += ' (%d such cases in this run)' % cnt[x['key']]
    return v


def nontrivial(line, out):
    # measured: not a blank / all-dark bitmap (those are kept as degenerate cases but do not count)
    px = line.rsplit(':', 1)[-1]
    return bool(px.strip('0-')) and bool(px.lower().strip('f-'))


def search(ctx, broken, diffs):
    return []
