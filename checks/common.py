"""Shared machinery of /verif/bin/check.

A check of property Cxx does, from /repo's CURRENT working tree:
  1. regenerate lean/QRV/Gen (table dump from the compiled program + AST translator),
  2. re-check the proofs (lake build QRV.Props.Cxx) and audit axioms / forbidden tokens,
  3. correspondence: run the Lean model driver and the Go harness on the same generated
     operation lines and diff the two output streams,
  4. direct oracle: check the property itself on the Go outputs,
  5. write evidence/Cxx.json.
See DESIGN.md section 2.4 for what each outcome means.
"""
import fcntl
import hashlib
import json
import os
import re
import shutil
import subprocess
import sys
import time

V = '/verif'
REPO = os.environ.get('VERIF_REPO', '/repo')
B = os.path.join(V, '.build')
LEAN = os.path.join(V, 'lean')
GEN = os.path.join(LEAN, 'QRV', 'Gen')
ALLOWED_AXIOMS = {'propext', 'Classical.choice', 'Quot.sound'}
FORBIDDEN = re.compile(r'\b(sorry|admit|native_decide|bv_decide|implemented_by|unsafe)\b|^\s*axiom\s|maxHeartbeats\s+0\b')
GOENV = dict(os.environ, GOFLAGS='-mod=mod', GOPROXY='off', GOSUMDB='off', GOTOOLCHAIN='local',
             GOCACHE=os.path.join(B, 'gocache'))


class SplitMix64:
    """The single PRNG every generator derives its choices from (seeded by VERIF_SEED)."""

    def __init__(self, seed):
        self.s = seed & 0xFFFFFFFFFFFFFFFF

    def next(self):
        self.s = (self.s + 0x9E3779B97F4A7C15) & 0xFFFFFFFFFFFFFFFF
        z = self.s
        z = ((z ^ (z >> 30)) * 0xBF58476D1CE4E5B9) & 0xFFFFFFFFFFFFFFFF
        z = ((z ^ (z >> 27)) * 0x94D049BB133111EB) & 0xFFFFFFFFFFFFFFFF
        return z ^ (z >> 31)

    def below(self, n):
        return self.next() % n if n > 0 else 0

    def range(self, lo, hi):
        """inclusive"""
        return lo + self.below(hi - lo + 1)

    def choice(self, seq):
        return seq[self.below(len(seq))]

    def chance(self, num, den):
        return self.below(den) < num

    def bytes(self, n):
        return bytes(self.below(256) for _ in range(n))

    def shuffle(self, lst):
        for i in range(len(lst) - 1, 0, -1):
            j = self.below(i + 1)
            lst[i], lst[j] = lst[j], lst[i]


def sh(cmd, **kw):
    return subprocess.run(cmd, stdout=subprocess.PIPE, stderr=subprocess.STDOUT, text=True, **kw)


class Lock:
    def __enter__(self):
        os.makedirs(B, exist_ok=True)
        self.f = open(os.path.join(B, 'lock'), 'w')
        fcntl.flock(self.f, fcntl.LOCK_EX)
        return self

    def __exit__(self, *a):
        fcntl.flock(self.f, fcntl.LOCK_UN)
        self.f.close()


def file_hash(p):
    with open(p, 'rb') as f:
        return hashlib.sha256(f.read()).hexdigest()


def regen(log):
    """Rebuild harness binaries from /repo's working tree and regenerate QRV/Gen.
    Returns dict(ok, changed, mismatches, error)."""
    res = {'ok': True, 'changed': [], 'mismatches': [], 'error': '', 'dropped_groups': []}
    r = sh([os.path.join(V, 'bin', 'buildgo')], env=GOENV)
    if r.returncode != 0:
        res['ok'] = False
        res['error'] = 'go build of the harness against /repo failed:\n' + r.stdout[-4000:]
        return res
    try:
        have = open(os.path.join(B, 'harness_groups.txt')).read().split()
    except OSError:
        have = []
    res['dropped_groups'] = [g for g in ('verif_fmt',) if g not in have]
    if res['dropped_groups']:
        try:
            res['dropped_reason'] = open(os.path.join(B, 'build-full.err')).read()[:600]
        except OSError:
            res['dropped_reason'] = ''
    tsrc = max(os.path.getmtime(os.path.join(V, 'translator', f)) for f in os.listdir(os.path.join(V, 'translator')))
    tbin = os.path.join(B, 'translator')
    if not os.path.exists(tbin) or os.path.getmtime(tbin) < tsrc:
        r = sh(['go', 'build', '-o', os.path.join(B, 'translator'), '.'], cwd=os.path.join(V, 'translator'), env=GOENV)
        if r.returncode != 0:
            res['ok'] = False
            res['error'] = 'go build of the translator failed:\n' + r.stdout[-4000:]
            return res
    tmp = os.path.join(B, 'gen.tmp')
    shutil.rmtree(tmp, ignore_errors=True)
    os.makedirs(tmp)
    r = sh([os.path.join(B, 'verifdump'), tmp])
    if r.returncode != 0:
        res['ok'] = False
        res['error'] = 'verifdump failed:\n' + r.stdout[-4000:]
        return res
    r = sh([os.path.join(B, 'translator'), REPO, tmp])
    if r.returncode == 3:
        res['mismatches'] = [l[len('SHAPE-MISMATCH: '):] for l in r.stdout.splitlines() if l.startswith('SHAPE-MISMATCH: ')]
    elif r.returncode != 0:
        res['ok'] = False
        res['error'] = 'translator failed:\n' + r.stdout[-4000:]
        return res
    # which declarations of the library differ from the pinned tree (fingerprints of the printed AST, comments excluded)
    res['changed_decls'] = []
    try:
        cur = json.load(open(os.path.join(B, 'funchashes.json')))
        pin = json.load(open(os.path.join(V, 'checks', 'pinned_decls.json')))
        res['changed_decls'] = sorted(k for k in set(cur) | set(pin) if cur.get(k) != pin.get(k))
    except (OSError, ValueError):
        pass
    write_sjis_ref(os.path.join(tmp, 'SjisRef.lean'))
    os.makedirs(GEN, exist_ok=True)
    new = sorted(os.listdir(tmp))
    for f in os.listdir(GEN):
        if f not in new:
            os.remove(os.path.join(GEN, f))
            res['changed'].append(f)
    for f in new:
        dst = os.path.join(GEN, f)
        src = os.path.join(tmp, f)
        if not os.path.exists(dst) or file_hash(dst) != file_hash(src):
            os.replace(src, dst)
            res['changed'].append(f)
    shutil.rmtree(tmp, ignore_errors=True)
    log('regen: changed=%s mismatches=%d%s' % (res['changed'], len(res['mismatches']), (' declarations differing from the pinned tree: %s' % res['changed_decls'][:8]) if res['changed_decls'] else ''))
    return res


def sjis_ref_table():
    """reference Shift JIS (Windows-31J) table from CPython's built-in cp932 codec, independent of
    /repo's index-jis0208.txt: entry `code` (13 bits) = code point of the double byte
    sjisOf(code), 0 when that double byte is not a single assigned BMP character."""
    out = []
    for code in range(8192):
        h = code // 0xC0
        hi = h + 0x81 if h < 0x1F else h + 0xC1
        lo = code % 0xC0 + 0x40
        cp = 0
        if hi <= 0xFF:
            try:
                ch = bytes([hi, lo]).decode('cp932')
                if len(ch) == 1 and ord(ch) < 0x10000:
                    cp = ord(ch)
            except UnicodeDecodeError:
                cp = 0
        out.append(cp)
    return out


def write_sjis_ref(path):
    t = sjis_ref_table()
    n = 0
    for i in range(len(t) - 1, -1, -1):
        n = (n << 16) | t[i]
    with open(path, 'w') as f:
        f.write("-- GENERATED by /verif/checks/common.py from CPython's cp932 codec (independent of /repo). DO NOT EDIT.\n")
        f.write('namespace QRV.Gen.SjisRef\n\n/-- 8192 entries of 16 bits: code point of the Shift JIS double byte of each 13-bit code, 0 = unassigned -/\n')
        f.write('def refPacked : Nat := 0x%x\n\nend QRV.Gen.SjisRef\n' % n)


THEOREM_RE = re.compile(r'^\s*(?:@\[[^\]]*\]\s*)?(?:private\s+|protected\s+)?theorem\s+([^\s:({\[]+)')


def theorem_at(path, line):
    """name of the theorem enclosing `line` (1-based) of a Lean source file"""
    try:
        src = open(path).read().splitlines()
    except OSError:
        return None
    for i in range(min(line, len(src)) - 1, -1, -1):
        m = THEOREM_RE.match(src[i])
        if m:
            return m.group(1)
    return None


def lake_build(targets, log):
    """returns dict(ok, failed=[(file, line, theorem, msg)], output)"""
    t0 = time.time()
    r = sh(['lake', 'build'] + targets, cwd=LEAN)
    failed = []
    for m in re.finditer(r'^error: (QRV/[^:]+\.lean|Driver\.lean):(\d+):(\d+): (.*)$', r.stdout, re.M):
        path, line = m.group(1), int(m.group(2))
        failed.append({'file': path, 'line': line, 'theorem': theorem_at(os.path.join(LEAN, path), line), 'msg': m.group(4)[:200]})
    ok = r.returncode == 0
    log('lake build %s: %s in %.1fs' % (' '.join(targets), 'ok' if ok else 'FAILED', time.time() - t0))
    return {'ok': ok, 'failed': failed, 'output': r.stdout[-6000:] if not ok else ''}


def audit(prop, log, modules=None):
    """axiom audit of every theorem in QRV.Props.<prop>, plus theorem counts of its QRV dependencies,
    plus a forbidden-token scan of all non-generated Lean sources."""
    res = {'ok': True, 'theorems': {}, 'bad': [], 'dep_theorems': 0, 'forbidden': []}
    f = os.path.join(B, 'audit_%s.lean' % prop)
    modules = modules or ['QRV.Props.' + prop]
    with open(f, 'w') as fh:
        fh.write('import QRV.Audit\n' + ''.join('import %s\n' % m for m in modules) + ''.join('#audit_module %s\n' % m for m in modules) + '#audit_deps\n')
    r = sh(['lake', 'env', 'lean', f], cwd=LEAN)
    if r.returncode != 0:
        res['ok'] = False
        res['bad'].append('audit file failed to elaborate: ' + r.stdout[-500:])
        return res
    for m in re.finditer(r'AUDIT (\S+) : \[(.*?)\]', r.stdout, re.S):
        name, axs = m.group(1), [a.strip() for a in m.group(2).replace('\n', ' ').split(',') if a.strip()]
        if not name.startswith('QRV.Props.'):
            continue
        res['theorems'][name] = axs
        extra = [a for a in axs if a not in ALLOWED_AXIOMS]
        if extra:
            res['ok'] = False
            res['bad'].append('%s depends on %s' % (name, extra))
    m = re.search(r'AUDIT-DEPS (\d+)', r.stdout)
    if m:
        res['dep_theorems'] = int(m.group(1))
    # forbidden tokens (comments stripped) in every hand-written module the property file depends on
    mods = re.findall(r'AUDIT-MODULE (\S+)', r.stdout)
    res['modules'] = [m for m in mods if m.startswith('QRV.')]
    for mname in mods:
        if mname == 'QRV.Audit' or mname.startswith('QRV.Gen.'):
            continue
        p = os.path.join(LEAN, *mname.split('.')) + '.lean'
        if not os.path.exists(p):
            continue
        src = open(p).read()
        src = re.sub(r'/-.*?-/', lambda mm: '\n' * mm.group(0).count('\n'), src, flags=re.S)
        for i, l in enumerate(src.splitlines(), 1):
            l = l.split('--')[0]
            if FORBIDDEN.search(l):
                res['forbidden'].append('%s:%d: %s' % (os.path.relpath(p, LEAN), i, l.strip()[:80]))
    if res['forbidden']:
        res['ok'] = False
    if not res['theorems']:
        res['ok'] = False
        res['bad'].append('no theorems found in QRV.Props.%s' % prop)
    log('audit %s: %d property theorems, %d dependency theorems, %s' % (prop, len(res['theorems']), res['dep_theorems'], 'ok' if res['ok'] else 'BAD'))
    return res


def _olean_keys(mods):
    """cache key per module: sha256 of its own .olean and of the .oleans of every QRV module it imports, transitively"""
    import hashlib
    own, imps = {}, {}
    for m in mods:
        rel = os.path.join(*m.split('.'))
        o = os.path.join(LEAN, '.lake', 'build', 'lib', 'lean', rel + '.olean')
        try:
            own[m] = hashlib.sha256(open(o, 'rb').read()).hexdigest()
        except OSError:
            own[m] = 'missing'
        try:
            src = open(os.path.join(LEAN, rel + '.lean')).read()
        except OSError:
            src = ''
        imps[m] = [x for x in re.findall(r'^import (QRV\.\S+)', src, re.M)]
    memo = {}

    def clo(m, seen):
        if m in memo:
            return memo[m]
        out = {m}
        for i in imps.get(m, []):
            if i not in seen:
                out |= clo(i, seen | {m})
        memo[m] = out
        return out
    keys = {}
    for m in mods:
        h = hashlib.sha256()
        for x in sorted(clo(m, set())):
            h.update((x + ':' + own.get(x, 'ext') + ';').encode())
        keys[m] = h.hexdigest()
    return keys


def leanchecker(mods, log, nproc=8):
    """thorough tier: replay the compiled .olean of every project module the property depends on with
    Lean's independent re-checker (`leanchecker`), in parallel batches.  A module whose .olean and whose
    imports' .oleans are byte-identical to a replay that already succeeded is not replayed again."""
    from concurrent.futures import ThreadPoolExecutor
    t0 = time.time()
    mods = sorted(set(mods))
    if not mods:
        return {'ok': True, 'modules': 0, 'failed': [], 'cached': 0}
    cpath = os.path.join(B, 'leanchecker_ok.json')
    try:
        cache = set(json.load(open(cpath)))
    except (OSError, ValueError):
        cache = set()
    keys = _olean_keys(mods)
    todo = [m for m in mods if keys[m] not in cache]
    failed = []
    if todo:
        chunks = [todo[i::nproc] for i in range(nproc) if todo[i::nproc]]

        def one(c):
            r = sh(['lake', 'env', 'leanchecker'] + c, cwd=LEAN)
            return (c, r.returncode, r.stdout[-1500:])
        with ThreadPoolExecutor(len(chunks)) as ex:
            outs = list(ex.map(one, chunks))
        failed = [{'modules': c, 'output': o} for c, rc, o in outs if rc != 0]
        for c, rc, o in outs:
            if rc == 0:
                cache |= {keys[m] for m in c}
        with open(cpath + '.tmp', 'w') as fh:
            json.dump(sorted(cache), fh)
        os.replace(cpath + '.tmp', cpath)
    log('leanchecker: %d modules (%d replayed now, %d byte-identical to an earlier successful replay) in %.1fs: %s' % (len(mods), len(todo), len(mods) - len(todo), time.time() - t0, 'ok' if not failed else 'FAILED'))
    return {'ok': not failed, 'modules': len(mods), 'failed': failed, 'cached': len(mods) - len(todo)}


def run_lines(binary, lines, env=None, timeout=300, nproc=1):
    """feed lines to a line-protocol binary, return list of output lines (one per input line).
    With nproc>1 the input is split in contiguous chunks run in parallel.
    A crashed process is re-run line by line around the crash so that one bad line costs one 'crash'."""
    if not lines:
        return []
    if nproc > 1 and len(lines) >= 4 * nproc:
        from concurrent.futures import ThreadPoolExecutor
        n = len(lines)
        chunks = [lines[i * n // nproc:(i + 1) * n // nproc] for i in range(nproc)]
        with ThreadPoolExecutor(nproc) as ex:
            outs = list(ex.map(lambda c: run_lines(binary, c, env, timeout, 1), chunks))
        return [o for c in outs for o in c]
    data = '\n'.join(lines) + '\n'
    timeout = max(timeout, 60 + len(lines) // 50)   # long batches get proportionally more time (at least 50 lines/s)
    try:
        r = subprocess.run(binary, input=data, stdout=subprocess.PIPE, stderr=subprocess.PIPE, text=True, env=env, timeout=timeout)
        out = r.stdout.split('\n')
        # the last element is either '' (output ended with a newline) or a line cut short by a crash: never a result
        out.pop()
        rc = r.returncode
    except subprocess.TimeoutExpired as e:
        so = e.stdout or ''
        if isinstance(so, bytes):
            so = so.decode('utf-8', 'replace')
        out = so.split('\n')
        out.pop()   # '' or a line cut short by the kill: never a result
        rc = -9
    if rc == 0 and len(out) == len(lines):
        return out
    # crash or timeout: keep complete results, mark the next line, continue after it
    done = out[:len(lines)]
    k = len(done)
    if k >= len(lines):
        return done[:len(lines)]
    if len(lines) == 1:
        return ['crash' if rc != -9 else 'timeout']
    # run the suspect line alone, then the rest
    one = run_lines(binary, [lines[k]], env, min(timeout, 120), 1)
    rest = run_lines(binary, lines[k + 1:], env, timeout, 1)
    return done + one + rest


class Ctx:
    """per-run state"""

    def __init__(self, prop, tier, seed):
        self.prop, self.tier, self.seed = prop, tier, seed
        self.t0 = time.time()
        self.logs = []
        self.rundir = os.path.join(B, 'run-%d' % os.getpid())
        self.harness = None
        self.harness_race = None
        self.driver = None
        self.nproc = min(16, os.cpu_count() or 1)

    def log(self, msg):
        self.logs.append(msg)
        print('[%s %6.1fs] %s' % (self.prop, time.time() - self.t0, msg), flush=True)

    def go(self, lines, race=False, env=None, nproc=None):
        e = dict(os.environ, GOMEMLIMIT='4GiB')
        if env:
            e.update(env)
        h = self.harness_race if race else self.harness
        if os.environ.get('VERIF_HARNESS_OVERRIDE') and not race:
            h = os.environ['VERIF_HARNESS_OVERRIDE']  # analysis only (coverage-instrumented build, see DESIGN.md)
        return run_lines([h], lines, env=e, nproc=nproc or self.nproc)

    def lean(self, lines, nproc=None):
        return run_lines([self.driver], lines, nproc=nproc or self.nproc)


def load_findings():
    """known-findings.txt: `finding: property=Cxx key=<key> :: text` and `fixed: property=Cxx commit=<sha> :: text`"""
    out = {'finding': [], 'fixed': []}
    p = os.path.join(V, 'known-findings.txt')
    if not os.path.exists(p):
        return out
    for l in open(p):
        l = l.strip()
        if not l or l.startswith('#'):
            continue
        m = re.match(r'(finding|fixed): property=(\S+) (?:key|commit)=(\S+) :: (.*)', l)
        if m:
            out[m.group(1)].append({'property': m.group(2), 'key': m.group(3), 'text': m.group(4)})
    return out


def write_evidence(prop, obj):
    os.makedirs(os.path.join(V, 'evidence'), exist_ok=True)
    p = os.path.join(V, 'evidence', prop + '.json')
    tmp = p + '.tmp'
    with open(tmp, 'w') as f:
        json.dump(obj, f, indent=1, sort_keys=True)
        f.write('\n')
    os.replace(tmp, p)


def write_replay(prop, name, obj):
    os.makedirs(os.path.join(V, 'replays'), exist_ok=True)
    p = os.path.join(V, 'replays', '%s-%s.json' % (prop, name))
    with open(p, 'w') as f:
        json.dump(obj, f, indent=1)
        f.write('\n')
    return p


def prepare(ctx, need_race=False, modules=None):
    """steps 1-2 under the build lock; returns dict with regen/build/audit results and private
    copies of the binaries for this run."""
    with Lock():
        rg = regen(ctx.log)
        if not rg['ok']:
            return {'fatal': rg['error']}
        if need_race:
            r = sh([os.path.join(V, 'bin', 'buildgo'), '-race'], env=GOENV)
            if r.returncode != 0:
                return {'fatal': 'race build failed:\n' + r.stdout[-3000:]}
        modules = modules or ['QRV.Props.' + ctx.prop]
        ctx.prop_modules = modules
        lb = lake_build(modules + ['QRV.Audit'], ctx.log)
        ld = lake_build(['qrvdriver'], ctx.log)
        au = audit(ctx.prop, ctx.log, modules) if lb['ok'] else {'ok': False, 'theorems': {}, 'bad': ['proofs did not build'], 'dep_theorems': 0, 'forbidden': []}
        if ctx.tier == 'thorough' and lb['ok'] and au['ok']:
            lc = leanchecker(au.get('modules', []), ctx.log)
            au['leanchecker'] = {'ok': lc['ok'], 'modules': lc['modules'], 'replayed_in_this_run': lc['modules'] - lc['cached']}
            if not lc['ok']:
                au['ok'] = False
                for f in lc['failed']:
                    au['bad'].append('leanchecker rejects one of %s: %s' % (' '.join(f['modules'])[:200], f['output'][-300:].replace('\n', ' ')))
        shutil.rmtree(ctx.rundir, ignore_errors=True)
        os.makedirs(ctx.rundir)
        ctx.harness = os.path.join(ctx.rundir, 'verifharness')
        shutil.copy2(os.path.join(B, 'verifharness'), ctx.harness)
        if need_race:
            ctx.harness_race = os.path.join(ctx.rundir, 'verifharness-race')
            shutil.copy2(os.path.join(B, 'verifharness-race'), ctx.harness_race)
        if ld['ok']:
            ctx.driver = os.path.join(ctx.rundir, 'qrvdriver')
            shutil.copy2(os.path.join(LEAN, '.lake', 'build', 'bin', 'qrvdriver'), ctx.driver)
    return {'regen': rg, 'proofs': lb, 'driver': ld, 'audit': au}


def source_theorem_count(prop):
    n = 0
    p = os.path.join(LEAN, 'QRV', 'Props', prop + '.lean')
    if os.path.exists(p):
        for l in open(p):
            if THEOREM_RE.match(l):
                n += 1
    return n


def finish(ctx):
    shutil.rmtree(ctx.rundir, ignore_errors=True)
