#!/bin/sh
# copies the search programs into a checkout of github.com/shogo82148/qrcode (a scratch worktree of /repo, never /repo itself)
set -e
R=${1:?usage: install.sh <scratch checkout>}
D=$(dirname "$0")
sed 's/^package PKGNAME/package microqr/' "$D/zz_model_test.go.txt" > "$R/microqr/zz_model_test.go"
sed 's/^package PKGNAME/package rmqr/'    "$D/zz_model_test.go.txt" > "$R/rmqr/zz_model_test.go"
sed 's/^package PKGNAME/package qrcode/'  "$D/zz_model_test.go.txt" > "$R/zz_model_test.go"
cp "$D/microqr_zz_search_test.go.txt" "$R/microqr/zz_search_test.go"
cp "$D/rmqr_zz_search_test.go.txt"    "$R/rmqr/zz_search_test.go"
cp "$D/qrcode_zz_search_test.go.txt"  "$R/zz_search_test.go"
echo "installed; run e.g.:  cd $R && GOFLAGS=-mod=mod GOPROXY=off GOSUMDB=off GOTOOLCHAIN=local go test -run TestZZ -v -timeout 3h ./microqr/ ./rmqr/ ."
