// mutate: enumerate single-token mutants of a Go source file (comparison / arithmetic / logical operators swapped,
// integer literals +-1) and write mutant number k to stdout.  Analysis tool for /verif (bin/mutsweep): it measures
// how many small changes of /repo that survive the pinned test suite the checks notice.  Never writes into /repo.
//
//	mutate -file path.go -count            print the number of mutation sites
//	mutate -file path.go -k N              print the source with mutation N applied and, on stderr, a description
package main

import (
	"flag"
	"fmt"
	"go/ast"
	"go/parser"
	"go/printer"
	"go/token"
	"os"
	"strconv"
)

var swaps = map[token.Token][]token.Token{
	token.LSS: {token.LEQ}, token.LEQ: {token.LSS}, token.GTR: {token.GEQ}, token.GEQ: {token.GTR},
	token.EQL: {token.NEQ}, token.NEQ: {token.EQL}, token.ADD: {token.SUB}, token.SUB: {token.ADD},
	token.LAND: {token.LOR}, token.LOR: {token.LAND}, token.SHL: {token.SHR}, token.SHR: {token.SHL},
	token.AND: {token.OR}, token.OR: {token.AND}, token.MUL: {token.ADD}, token.QUO: {token.MUL}, token.REM: {token.QUO},
}

type site struct {
	apply func()
	desc  string
}

func main() {
	file := flag.String("file", "", "")
	k := flag.Int("k", -1, "")
	count := flag.Bool("count", false, "")
	flag.Parse()
	fset := token.NewFileSet()
	f, err := parser.ParseFile(fset, *file, nil, parser.ParseComments)
	if err != nil {
		fmt.Fprintln(os.Stderr, err)
		os.Exit(2)
	}
	var sites []site
	ast.Inspect(f, func(n ast.Node) bool {
		switch x := n.(type) {
		case *ast.GenDecl:
			if x.Tok == token.VAR || x.Tok == token.CONST || x.Tok == token.IMPORT {
				return false // tables and constants are covered by regeneration
			}
		case *ast.BinaryExpr:
			for _, t := range swaps[x.Op] {
				x, t := x, t
				old := x.Op
				sites = append(sites, site{func() { x.Op = t }, fmt.Sprintf("%s: `%s` -> `%s`", fset.Position(x.OpPos), old, t)})
			}
		case *ast.BasicLit:
			if x.Kind == token.INT {
				v, err := strconv.ParseInt(x.Value, 0, 64)
				if err == nil && v >= 0 && v < 1<<20 {
					for _, d := range []int64{1, -1} {
						if v+d < 0 {
							continue
						}
						x, nv := x, strconv.FormatInt(v+d, 10)
						old := x.Value
						sites = append(sites, site{func() { x.Value = nv }, fmt.Sprintf("%s: literal %s -> %s", fset.Position(x.Pos()), old, nv)})
					}
				}
			}
		}
		return true
	})
	if *count {
		fmt.Println(len(sites))
		return
	}
	if *k < 0 || *k >= len(sites) {
		os.Exit(3)
	}
	sites[*k].apply()
	fmt.Fprintln(os.Stderr, sites[*k].desc)
	printer.Fprint(os.Stdout, fset, f)
}
