import QRV.Model.GF
import QRV.Model.Bits
import QRV.Model.Bitmap
import QRV.Model.Codec
import QRV.Model.RS
import QRV.Model.QR
import QRV.Model.Micro
import QRV.Model.RMQR
import QRV.Spec.Bits
import QRV.Model.Render
import QRV.Spec.Symbol
import QRV.Spec.SymbolMicro
import QRV.Spec.SymbolRMQR
/-
Line-protocol driver over the executable model: one operation per input line, one canonical
result per output line.  The Go harness (harness/main) reads the same lines and calls the real
code; `bin/check` diffs the two streams.  Protocol: see harness/main/*.go (same op names).
-/
open QRV QRV.Model

def showNat (n : Nat) : String := toString n

/-! ### parsing helpers -/

def hexVal (c : Char) : Nat :=
  if '0' ≤ c ∧ c ≤ '9' then c.toNat - 48
  else if 'a' ≤ c ∧ c ≤ 'f' then c.toNat - 87
  else if 'A' ≤ c ∧ c ≤ 'F' then c.toNat - 55
  else 0

/-- "-" is the empty string -/
def parseHex (s : String) : List Nat :=
  if s == "-" then []
  else
    let rec go : List Char → List Nat
      | a :: b :: rest => (hexVal a * 16 + hexVal b) :: go rest
      | _ => []
    go s.toList

def hexOf (l : List Nat) : String :=
  if l.isEmpty then "-" else Bitmap.Image.hexBytes l.toArray

def parseImage (s : String) : Bitmap.Image :=
  match s.splitOn ":" with
  | [hdr, px] =>
    match hdr.splitOn "," with
    | [a, b, c, d, e] =>
      { pix := (parseHex px).toArray, stride := e.toInt!, minX := a.toInt!, minY := b.toInt!, maxX := c.toInt!, maxY := d.toInt! }
    | _ => {}
  | _ => {}

def parseSegs : List String → List Sym.Segment
  | m :: h :: rest => { mode := m.toNat!, data := parseHex h } :: parseSegs rest
  | _ => []

def showSegs (l : List Sym.Segment) : String :=
  toString l.length ++ String.join (l.map fun s => " " ++ toString s.mode ++ " " ++ hexOf s.data)

def showQR (q : Sym.QRCode) : String :=
  s!"{q.version} {q.level} {q.mask} {showSegs q.segments}"

def showBuf (b : Bits.Buffer) : String := s!"{b.len} {hexOf b.buf.toList}"

/-! ### the declarative QR symbol (`Spec/Symbol.lean`), evaluated: used to validate the SPECIFICATION
against the implementation (`bin/check C02`); the error-correction codewords are taken from the model's
encoder and CHECKED against the specification's codeword condition -/
def specSymbolQR (q : Sym.QRCode) (m : Nat) : String := Id.run do
  let v := q.version.toNat
  let l := q.level.toNat
  let n := Spec.Patterns.QR.size v
  let st := Spec.Symbol.QR.stream q
  if st.length != 8 * Spec.Tables.dataCodewords v l then return "spec-stream-length"
  let data := Spec.Bits.pack st
  let mut blks : Array (List Nat × List Nat) := #[]
  let mut rest := data
  for (d, e) in Spec.Symbol.QR.blockShapes v l do
    let dd := rest.take d
    rest := rest.drop d
    match RS.parity e dd with
    | .ok par =>
      if par.length != e then return "spec-parity-length"
      if !((List.range e).all fun i => Spec.RS.evalS (dd ++ par) (Spec.GF.pow2 i) == 0) then return "spec-parity-mismatch"
      blks := blks.push (dd, par)
    | _ => return "spec-parity-failed"
  if !rest.isEmpty then return "spec-shapes"
  let bits := (Spec.Bits.unpack (Lemmas.RT.ilvList blks.toList)).toArray
  let coords := Spec.Symbol.QR.dataCoords v
  if !(coords.all fun c => c.1 < n && c.2 < n) then return "spec-coords"
  let mut img := Bitmap.Image.new 0 0 n n
  for y in [0:n] do
    for x in [0:n] do
      if Spec.Patterns.QR.isFunction v x y && Spec.Symbol.QR.functionModule v l m x y then
        match img.setBinary x y true with
        | .ok i => img := i
        | _ => return "spec-set"
  let mut k := 0
  for (x, y) in coords do
    let b := (bits[k]?.getD false) ^^ Spec.Patterns.QR.maskCond m y x
    if b then
      match img.setBinary x y true with
      | .ok i => img := i
      | _ => return "spec-set"
    k := k + 1
  return "ok " ++ img.render

def specSymbolRMQR (q : Sym.QRCode) : String := Id.run do
  let v := q.version.toNat
  let l := q.level.toNat
  let w := Spec.Patterns.RMQR.width v
  let h := Spec.Patterns.RMQR.height v
  match Spec.Valid.RMQR.row v l with
  | none => return "spec-no-row"
  | some c =>
    let st := Spec.Symbol.RMQR.stream q c
    if st.length != 8 * c.data then return "spec-stream-length"
    let data := Spec.Bits.pack st
    let mut blks : Array (List Nat × List Nat) := #[]
    let mut rest := data
    for (d, e) in Lemmas.RT.sizesOf c.blocks do
      let dd := rest.take d
      rest := rest.drop d
      match RS.parity e dd with
      | .ok par =>
        if par.length != e then return "spec-parity-length"
        if !((List.range e).all fun i => Spec.RS.evalS (dd ++ par) (Spec.GF.pow2 i) == 0) then return "spec-parity-mismatch"
        blks := blks.push (dd, par)
      | _ => return "spec-parity-failed"
    if !rest.isEmpty then return "spec-shapes"
    let bits := (Spec.Bits.unpack (Lemmas.RT.ilvList blks.toList)).toArray
    let coords := Spec.Symbol.RMQR.dataCoords v
    let mut img := Bitmap.Image.new 0 0 w h
    for y in [0:h] do
      for x in [0:w] do
        if Spec.Patterns.RMQR.isFunction v x y && Spec.Symbol.RMQR.functionModule v l x y then
          match img.setBinary x y true with
          | .ok i => img := i
          | _ => return "spec-set"
    let mut k := 0
    for (x, y) in coords do
      let b := (bits[k]?.getD false) ^^ Spec.Symbol.RMQR.maskCond y x
      if b then
        match img.setBinary x y true with
        | .ok i => img := i
        | _ => return "spec-set"
      k := k + 1
    return "ok " ++ img.render

def specSymbolMicro (q : Sym.QRCode) (m : Nat) : String := Id.run do
  let v := q.version.toNat
  let n := Spec.Patterns.Micro.size v
  match Spec.Symbol.Micro.row v q.level.toNat with
  | none => return "spec-no-row"
  | some (sn, _total, dataCw, dataBits, ecc) =>
    let st := Spec.Symbol.Micro.stream q dataBits dataCw
    if st.length != 8 * dataCw then return "spec-stream-length"
    let data := Spec.Bits.pack st
    match RS.parity ecc data with
    | .ok par =>
      if par.length != ecc then return "spec-parity-length"
      if !((List.range ecc).all fun i => Spec.RS.evalS (data ++ par) (Spec.GF.pow2 i) == 0) then return "spec-parity-mismatch"
      let bits := ((Spec.Bits.unpack data).take dataBits ++ Spec.Bits.unpack par).toArray
      let coords := Spec.Symbol.Micro.dataCoords v
      let mut img := Bitmap.Image.new 0 0 n n
      for y in [0:n] do
        for x in [0:n] do
          if Spec.Patterns.Micro.isFunction v x y && Spec.Symbol.Micro.functionModule v sn m x y then
            match img.setBinary x y true with
            | .ok i => img := i
            | _ => return "spec-set"
      let mut k := 0
      for (x, y) in coords do
        let b := (bits[k]?.getD false) ^^ Spec.Patterns.Micro.maskCond m y x
        if b then
          match img.setBinary x y true with
          | .ok i => img := i
          | _ => return "spec-set"
        k := k + 1
      return "ok " ++ img.render
    | _ => return "spec-parity-failed"

/-! ### bit-buffer operation sequences -/

/-- run `wb:<bit>`, `wl:<v>:<n>`, `rb`, `rs:<n>` on the literal model; results joined by ',' -/
def runBufOps (ops : List String) : String := Id.run do
  let mut b : Bits.Buffer := {}
  let mut res : Array String := #[]
  let mut k := 0
  for op in ops do
    match op.splitOn ":" with
    | ["wb", v] =>
      match Bits.writeBit b v.toNat! with
      | .ok b' => b := b'; res := res.push "w"
      | _ => return s!"panic {k} {String.intercalate "," res.toList}"
    | ["wl", v, n] =>
      match Bits.writeBitsLSB b v.toNat! n.toInt! with
      | .ok b' => b := b'; res := res.push "w"
      | _ => return s!"panic {k} {String.intercalate "," res.toList}"
    | ["rb"] =>
      let (b', r) := Bits.readBit b
      b := b'
      res := res.push (match r with | none => "EOF" | some v => toString v)
    | ["rs", n] =>
      match Bits.readBits b n.toInt! with
      | .ok (b', r) =>
        b := b'
        res := res.push (match r with | none => "EOF" | some v => toString v)
      | _ => return s!"panic {k} {String.intercalate "," res.toList}"
    | _ => res := res.push "bad"
    k := k + 1
  return s!"ok {String.intercalate "," res.toList} {showBuf b}"

/-- the same operation sequence on the specification (`Spec.Bits.Fifo`) -/
def runBufSpec (ops : List String) : String := Id.run do
  let mut f : Spec.Bits.Fifo := {}
  let mut res : Array String := #[]
  for op in ops do
    match op.splitOn ":" with
    | ["wb", v] => f := f.writeBit v.toNat!; res := res.push "w"
    | ["wl", v, n] => f := f.writeBitsLSB v.toNat! n.toNat!; res := res.push "w"
    | ["rb"] =>
      let (f', r) := f.readBit
      f := f'
      res := res.push (match r with | none => "EOF" | some v => toString v)
    | ["rs", n] =>
      let (f', r) := f.readBits n.toNat!
      f := f'
      res := res.push (match r with | none => "EOF" | some v => toString v)
    | _ => res := res.push "bad"
  return s!"ok {String.intercalate "," res.toList} {f.len} {hexOf f.bytes}"

/-! ### dispatch -/

def codecEnc (f : Bits.Buffer → List Nat → Out Bits.Buffer) (h : String) : String :=
  (f {} (parseHex h)).render showBuf

def codecDec (f : Bits.Buffer → Nat → Out (Bits.Buffer × List Nat)) (n h : String) : String :=
  (f { buf := (parseHex h).toArray } n.toNat!).render fun (b, d) => s!"{hexOf d} {b.offset * 8 + b.read}"

def step (toks : List String) : String :=
  match toks with
  | ["gf.add", a, b] => "ok " ++ toString (GF.add a.toNat! b.toNat!)
  | ["gf.mul", a, b] => "ok " ++ toString (GF.mul a.toNat! b.toNat!)
  | ["gf.log", a] => (GF.log a.toNat!).render showNat
  | ["gf.inv", a] => (GF.inv a.toNat!).render showNat
  | ["gf.exp", n] => (GF.exp n.toInt!).render showNat
  | ["gf.ame", x, y, z] => (GF.addMulExp x.toNat! y.toInt! z.toInt!).render showNat
  | ["buf", ops] => runBufOps (ops.splitOn ";")
  | ["bufspec", ops] => runBufSpec (ops.splitOn ";")
  | ["codec.enc.num", h] => codecEnc Codec.encodeNumeric h
  | ["codec.enc.alnum", h] => codecEnc Codec.encodeAlphanumeric h
  | ["codec.enc.bytes", h] => codecEnc Codec.encodeBytes h
  | ["codec.enc.kanji", h] => codecEnc Codec.encodeKanji h
  | ["codec.dec.num", n, h] => codecDec Codec.decodeNumeric n h
  | ["codec.dec.alnum", n, h] => codecDec Codec.decodeAlphanumeric n h
  | ["codec.dec.bytes", n, h] => codecDec Codec.decodeBytes n h
  | ["codec.dec.kanji", n, h] => codecDec Codec.decodeKanji n h
  | ["codec.kanji.rune", r] => (match Codec.encodeKanjiRune r.toNat! with | some c => s!"ok {c}" | none => "ok none")
  | ["codec.kanji.code", c] => (match Codec.decodeKanjiCode c.toNat! with | some r => s!"ok {r}" | none => "ok none")
  | ["codec.class", ch] => s!"ok {Codec.isNumeric ch.toNat!} {Codec.isAlphanumeric ch.toNat!}"
  | ["rs.new", n] => (RS.new n.toInt!).render fun (_, c) => toString c.length
  | ["rs.enc", n, chunks] =>
    (do let (t, c) ← RS.new n.toInt!
        let c := (chunks.splitOn ",").foldl (fun c ch => RS.write t c (parseHex ch)) c
        pure (RS.sum t c [])).render hexOf
  | ["rs.enc2", n, ha, _, hb] =>
    (do let (t, c) ← RS.new n.toInt!
        pure (hexOf (RS.sum t (RS.write t c (parseHex ha)) []) ++ " " ++ hexOf (RS.sum t (RS.write t c (parseHex hb)) []))).render id
  | ["rs.dec", twoS, h] => (RS.decode (parseHex h) twoS.toInt!).render hexOf
  | ["bmp.mask", i, u, p] => (Bitmap.Image.mask (parseImage i) (parseImage u) (parseImage p)).render Bitmap.Image.render
  | ["bmp.at", i, x, y] => ((parseImage i).binaryAt x.toInt! y.toInt!).render toString
  | ["bmp.set", i, x, y, c] => ((parseImage i).setBinary x.toInt! y.toInt! (c == "1")).render Bitmap.Image.render
  | ["bmp.xor", i, x, y, c] => ((parseImage i).xorBinary x.toInt! y.toInt! (c == "1")).render Bitmap.Image.render
  | ["bmp.clone", i] => "ok " ++ (parseImage i).render
  | ["bmp.reuse", _, i] =>
    ((parseImage i).onesCount).render (fun n => showNat n ++ " " ++ (parseImage i).render ++ " maskreuse=same")
  | ["bmp.new", a, b, c, d] => "ok " ++ (Bitmap.Image.new a.toInt! b.toInt! c.toInt! d.toInt!).render
  | ["bmp.ones", i] => ((parseImage i).onesCount).render showNat
  | ["bmp.point", i] =>
    let im := parseImage i
    (do let a ← im.finderPattern; let b ← im.longRunLengthCount; let c ← im.blockCount; let d ← im.pointOnesCount
        pure s!"{a} {b} {c} {d}").render id
  | ["bmp.pointmicro", i] => ((parseImage i).pointMicro).render showNat
  | "qr.enc" :: v :: l :: m :: _ :: segs =>
    (QR.encodeToBitmap { version := v.toInt!, level := l.toInt!, mask := m.toInt!, segments := parseSegs segs }).render Bitmap.Image.render
  | "qr.spec" :: v :: l :: m :: _ :: segs =>
    specSymbolQR { version := v.toInt!, level := l.toInt!, mask := m.toInt!, segments := parseSegs segs } m.toNat!
  | "rm.spec" :: v :: l :: _ :: segs =>
    specSymbolRMQR { version := v.toInt!, level := l.toInt!, mask := 0, segments := parseSegs segs }
  | "mq.spec" :: v :: l :: m :: _ :: segs =>
    specSymbolMicro { version := v.toInt!, level := l.toInt!, mask := m.toInt!, segments := parseSegs segs } m.toNat!
  | "qr.segs" :: v :: l :: _ :: segs =>
    (QR.encodeSegments { version := v.toInt!, level := l.toInt!, mask := 0, segments := parseSegs segs } {}).render showBuf
  | "qr.bits" :: v :: l :: _ :: segs =>
    (QR.encodeToBits { version := v.toInt!, level := l.toInt!, mask := 0, segments := parseSegs segs } {}).render showBuf
  | ["qr.dec", i] => (QR.decodeBitmap (parseImage i)).render showQR
  | ["qr.decfull", i] => (QR.decodeBitmapFull (parseImage i)).render fun (q, im) => showQR q ++ " | " ++ im.render
  | ["qr.fmt0", raw] => (match QR.decodeFormat0 raw.toNat! with | some (l, m) => s!"ok {l} {m}" | none => "ok none")
  | ["qr.fmt", i] => (QR.decodeFormat (parseImage i)).render fun (l, m) => s!"{l} {m}"
  | ["qr.new", l, k, h] => (QR.new l.toInt! (k == "1") (parseHex h)).render showQR
  | "qr.calcver" :: l :: _ :: segs => (QR.calcVersion l.toInt! (parseSegs segs)).render toString
  | ["qr.seglen", v, m, h] => (QR.segLength { mode := m.toNat!, data := parseHex h } v.toInt!).render showNat
  | "mq.enc" :: v :: l :: m :: _ :: segs =>
    (Micro.encodeToBitmap { version := v.toInt!, level := l.toInt!, mask := m.toInt!, segments := parseSegs segs }).render Bitmap.Image.render
  | "mq.segs" :: v :: l :: _ :: segs =>
    (Micro.encodeSegments { version := v.toInt!, level := l.toInt!, mask := 0, segments := parseSegs segs } {}).render showBuf
  | ["mq.dec", i] => (Micro.decodeBitmap (parseImage i)).render showQR
  | ["mq.decfull", i] => (Micro.decodeBitmapFull (parseImage i)).render fun (q, im) => showQR q ++ " | " ++ im.render
  | ["mq.fmt", raw] => (Micro.decodeFormat raw.toNat!).render fun
      | some (v, l, m) => s!"{v} {l} {m}"
      | none => "none"
  | ["mq.new", l, k, h] => (Micro.new l.toInt! (k == "1") (parseHex h)).render showQR
  | "mq.calcver" :: l :: _ :: segs => (Micro.calcVersion l.toInt! (parseSegs segs)).render toString
  | ["mq.seglen", v, m, h] => (match Micro.segLength { mode := m.toNat!, data := parseHex h } v.toInt! with | some n => s!"ok {n}" | none => "ok none")
  | "rm.enc" :: v :: l :: _ :: segs =>
    (RMQR.encodeToBitmap { version := v.toInt!, level := l.toInt!, mask := 0, segments := parseSegs segs }).render Bitmap.Image.render
  | "rm.segs" :: v :: l :: _ :: segs =>
    (RMQR.encodeSegments { version := v.toInt!, level := l.toInt!, mask := 0, segments := parseSegs segs } {}).render showBuf
  | "rm.bits" :: v :: l :: _ :: segs =>
    (RMQR.encodeToBits { version := v.toInt!, level := l.toInt!, mask := 0, segments := parseSegs segs } {}).render showBuf
  | ["rm.dec", i] => (RMQR.decodeBitmap (parseImage i)).render showQR
  | ["rm.decfull", i] => (RMQR.decodeBitmapFull (parseImage i)).render fun (q, im) => showQR q ++ " | " ++ im.render
  | ["rm.fmt0", raw] => (match RMQR.decodeFormat0 raw.toNat! with | some (v, l) => s!"ok {v} {l}" | none => "ok none")
  | ["rm.fmt", i] => (RMQR.decodeFormat (parseImage i)).render fun (v, l) => s!"{v} {l}"
  | ["rm.new", l, p, k, h] => (RMQR.new l.toInt! p.toInt! (k == "1") (parseHex h)).render showQR
  | "rm.calcver" :: l :: p :: _ :: segs =>
    (RMQR.calcVersion l.toInt! p.toInt! (parseSegs segs)).render fun | some v => toString v | none => "none"
  | ["rm.seglen", v, l, m, h] =>
    (RMQR.segLength { mode := m.toNat!, data := parseHex h } v.toInt! l.toInt!).render fun | some n => toString n | none => "none"
  | ["render.dims", nw, nh, q, sn, sd, w] =>
    s!"ok {Render.outWidth nw.toNat! q.toNat! sn.toNat! sd.toNat! w.toNat!} {Render.outHeight nw.toNat! nh.toNat! q.toNat! sn.toNat! sd.toNat! w.toNat!}"
  | _ => "bad-op"

partial def loop (hin hout : IO.FS.Stream) : IO Unit := do
  let line ← hin.getLine
  if line.isEmpty then return ()
  let l := line.trimAscii.toString
  hout.putStrLn (step (l.splitOn " "))
  loop hin hout

def main : IO Unit := do
  let hin ← IO.getStdin
  let hout ← IO.getStdout
  loop hin hout
  hout.flush
