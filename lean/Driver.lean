import QRV.Model.GF
/-
Line-protocol driver over the executable model: one operation per input line, one canonical
result per output line.  The Go harness (harness/main) reads the same lines and calls the real
code; `bin/check` diffs the two streams.
-/
open QRV

def showNat (n : Nat) : String := toString n

def step (toks : List String) : String :=
  match toks with
  | ["gf.add", a, b] => "ok " ++ toString (Model.GF.add a.toNat! b.toNat!)
  | ["gf.mul", a, b] => "ok " ++ toString (Model.GF.mul a.toNat! b.toNat!)
  | ["gf.log", a] => (Model.GF.log a.toNat!).render showNat
  | ["gf.inv", a] => (Model.GF.inv a.toNat!).render showNat
  | ["gf.exp", n] => (Model.GF.exp n.toInt!).render showNat
  | ["gf.ame", x, y, z] => (Model.GF.addMulExp x.toNat! y.toInt! z.toInt!).render showNat
  | _ => "bad-op"

partial def loop (hin hout : IO.FS.Stream) : IO Unit := do
  let line ← hin.getLine
  if line.isEmpty then return ()
  let l := line.trimAscii.toString
  hout.putStrLn (step (l.splitOn " "))
  loop hin hout

def main : IO Unit := do
  let hin ← IO.getStdin
  let hout ← IO.getStdout
  loop hin hout
  hout.flush
