import Mathlib.Data.List.Nodup
import Mathlib.Data.Finset.Card
import QRV.Lemmas.RSCompleteMathlibEuclid
/-
Error patterns, syndromes as power sums, and the minimum distance of the code.
-/
namespace QRV.Lemmas.RSC
open Polynomial QRV QRV.Model QRV.Model.GF QRV.Model.RS QRV.Lemmas.GF QRV.Lemmas.RS

/-- locator of the coefficient of x^i -/
def xs (i : ℕ) : F := toF (expT i)

/-- error value at the coefficient of x^i -/
def ys (r c : List Nat) (i : ℕ) : F := toF (Poly.coefficient r i) + toF (Poly.coefficient c i)

/-- the exponents at which the two words differ -/
def errE (c r : List Nat) : Finset ℕ := (diffIdx c r).toFinset

theorem mem_errE {c r : List Nat} {i : ℕ} :
    i ∈ errE c r ↔ i < c.length ∧ Poly.coefficient c i ≠ Poly.coefficient r i := by
  unfold errE; rw [List.mem_toFinset, mem_diffIdx]

theorem card_errE (c r : List Nat) (hl : c.length = r.length) : (errE c r).card = distL c r := by
  unfold errE
  rw [List.toFinset_card_of_nodup (diffIdx_nodup c r), distL_eq_diffIdx c r hl]

theorem xs_ne_zero {i : ℕ} (hi : i < 256) : xs i ≠ 0 := toF_exp_ne_zero hi

theorem xs_injOn {c r : List Nat} (hL : c.length ≤ 255) : Set.InjOn xs (errE c r) := by
  intro i hi j hj h
  have hi' := (mem_errE.mp hi).1
  have hj' := (mem_errE.mp hj).1
  exact toF_exp_inj (by omega) (by omega) h

theorem ys_ne_zero {c r : List Nat} (hc : AllEl c) (hr : AllEl r) {i : ℕ} (hi : i ∈ errE c r) :
    ys r c i ≠ 0 := by
  intro h
  unfold ys at h
  rw [CharTwo.add_eq_zero] at h
  exact (mem_errE.mp hi).2 (toF_inj (coefficient_lt r hr i) (coefficient_lt c hc i) h).symm

theorem xs_pow {i : ℕ} (hi : i ≤ 255) (j : ℕ) : xs i ^ j = α ^ (i * j) := by
  unfold xs; rw [toF_exp i hi, pow_mul]

/-- evaluation at α^j as a power sum over the coefficients -/
theorem eval_as_sum {w : List Nat} (hw : AllEl w) (hL : w.length ≤ 255) {j : ℕ} (hj : j ≤ 255) :
    toF (Poly.eval w (expT j)) =
      ∑ i ∈ Finset.range w.length, toF (Poly.coefficient w i) * xs i ^ j := by
  rw [toF_eval (exp_lt j (by omega)) hw, toF_exp j hj]
  unfold toPoly
  rw [eval_finsetSum]
  apply Finset.sum_congr rfl
  intro i hi
  have hi' : i < w.length := by simpa using hi
  rw [eval_mul, eval_C, eval_pow, eval_X, xs_pow (by omega), ← pow_mul, Nat.mul_comm]

/-- the syndromes of r are the power sums of the error pattern r − c when c is a codeword -/
theorem synd_sum {c r : List Nat} (hc : AllEl c) (hr : AllEl r) (hlen : c.length = r.length)
    (hL : c.length ≤ 255) {n : ℕ} (hn : n ≤ 255) (hcw : SyndZero n c) {j : ℕ} (hj : j < n) :
    toF (Poly.eval r (expT (j % 255))) = ∑ i ∈ errE c r, ys r c i * xs i ^ j := by
  have hc0 := hcw j hj
  rw [Nat.mod_eq_of_lt (by omega)] at hc0 ⊢
  have h1 := eval_as_sum hr (by omega) (j := j) (by omega)
  have h2 := eval_as_sum hc hL (j := j) (by omega)
  rw [hc0, toF_zero, hlen] at h2
  have h3 : toF (Poly.eval r (expT j)) =
      ∑ i ∈ Finset.range r.length, ys r c i * xs i ^ j := by
    rw [h1, ← _root_.add_zero (∑ i ∈ Finset.range r.length, toF (Poly.coefficient r i) * xs i ^ j), h2,
      ← Finset.sum_add_distrib]
    apply Finset.sum_congr rfl
    intro i _
    unfold ys; rw [_root_.add_mul]
  rw [h3]
  symm
  apply Finset.sum_subset
  · intro i hi
    rw [Finset.mem_range, ← hlen]; exact (mem_errE.mp hi).1
  · intro i hi hni
    have : Poly.coefficient c i = Poly.coefficient r i := by
      by_contra hne
      exact hni (mem_errE.mpr ⟨by rw [hlen]; simpa using hi, hne⟩)
    unfold ys
    rw [this, CharTwo.add_self_eq_zero, MulZeroClass.zero_mul]

theorem coefficient_syndromes (data : List Nat) (n j : ℕ) (hj : j < n) :
    Poly.coefficient (syndromes data n) j = Poly.eval data (expT (j % 255)) := by
  unfold Poly.coefficient
  rw [syndromes_length, if_neg (by omega)]
  unfold syndromes
  rw [List.getElem?_reverse (by simp; omega)]
  simp only [List.length_map, List.length_range]
  have : n - 1 - (n - j - 1) = j := by omega
  rw [this, List.getElem?_map, List.getElem?_range hj]
  rfl

theorem toPoly_syndromes {c r : List Nat} (hc : AllEl c) (hr : AllEl r) (hlen : c.length = r.length)
    (hL : c.length ≤ 255) {n : ℕ} (hn : n ≤ 255) (hcw : SyndZero n c) :
    toPoly (syndromes r n) = synPoly (errE c r) xs (ys r c) n := by
  unfold toPoly synPoly
  rw [syndromes_length]
  apply Finset.sum_congr rfl
  intro j hj
  have hj' : j < n := by simpa using hj
  rw [coefficient_syndromes r n j hj', synd_sum hc hr hlen hL hn hcw hj']

/-- (B) two codewords of the same length ≤ 255 that differ in at most n positions are equal -/
theorem codewords_close_eq {c r : List Nat} (hc : AllEl c) (hr : AllEl r) (hlen : c.length = r.length)
    (hL : c.length ≤ 255) {n : ℕ} (hn : n ≤ 255) (hcw : SyndZero n c) (hrw : SyndZero n r)
    (hd : distL c r ≤ n) : c = r := by
  have hz : ∀ i ∈ errE c r, ys r c i = 0 := by
    apply power_sums_zero (errE c r) xs (ys r c) n (xs_injOn hL) (by rw [card_errE c r hlen]; exact hd)
    intro j hj
    rw [← synd_sum hc hr hlen hL hn hcw hj, hrw j hj, toF_zero]
  apply list_ext_coefficient hlen
  intro e he
  by_contra hne
  have hm : e ∈ errE c r := mem_errE.mpr ⟨he, hne⟩
  exact ys_ne_zero hc hr hm (hz e hm)

/-- minimum distance n + 1 -/
theorem min_distance {c r : List Nat} (hc : AllEl c) (hr : AllEl r) (hlen : c.length = r.length)
    (hL : c.length ≤ 255) {n : ℕ} (hn : n ≤ 255) (hcw : SyndZero n c) (hrw : SyndZero n r)
    (hne : c ≠ r) : n + 1 ≤ distL c r := by
  apply Nat.lt_of_not_le
  intro h
  exact hne (codewords_close_eq hc hr hlen hL hn hcw hrw h)

end QRV.Lemmas.RSC
