import QRV.Spec.Tables
import QRV.Gen.QR
import QRV.Gen.Micro
import QRV.Gen.RMQR
import QRV.Lemmas.Finite
/-
The regenerated capacity tables against the standard's (kernel evaluation of every row).
-/
namespace QRV.Lemmas.Tables
open QRV QRV.Spec.Tables QRV.Spec.Patterns QRV.Lemmas

set_option maxRecDepth 1000000

/-- one row of /repo's QR capacity table equals the standard's: totals and block structure -/
def qrRowOK (v level : Nat) : Bool :=
  match (Gen.QR.capacityTable[v]?.getD [])[level]? with
  | none => false
  | some c =>
    c.total == totalCodewords v && c.data == dataCodewords v level && c.correction == c.total - c.data &&
    c.blocks.map (fun b => (b.num, b.total, b.data)) == blockGroups v level

theorem qr_capacity_rows : (List.range 41).all (fun v => v == 0 || (List.range 4).all (qrRowOK v)) = true := by
  decide +kernel

theorem qr_capacity (v level : Nat) (hv1 : 1 ≤ v) (hv : v ≤ 40) (hl : level < 4) : qrRowOK v level = true := by
  have h := forall_lt_of_all qr_capacity_rows v (by omega)
  simp only [Bool.or_eq_true, beq_iff_eq] at h
  rcases h with h | h
  · omega
  · exact forall_lt_of_all h level hl

theorem qr_table_shape : Gen.QR.capacityTable.length = 41 ∧ Gen.QR.capacityTable.all (·.length == 4) = true := by
  decide +kernel

/-- Micro QR rows -/
def microRowOK (e : (Nat × Nat) × (Nat × Nat × Nat × Nat × Nat)) : Bool :=
  let ((v, l), (sym, tot, dat, bits, ec)) := e
  match (Gen.Micro.capacityTable[v]?.getD [])[l]? with
  | none => false
  | some c => c.total == tot && c.data == dat && c.dataBits == bits && c.correction == ec &&
      (Gen.Micro.formatTable[v]?.getD [])[l]? == some (sym : Int)

theorem micro_capacity : micro.all microRowOK = true := by decide +kernel

/-- rMQR: the data/EC split is not derivable from geometry and no second source exists offline;
the rows are checked against necessary conditions only: total codewords = floor(free modules / 8)
counting every non-function module, blocks add up, block lengths within a row differ by at most one,
the count-indicator widths suffice... (that last one fails for R13x27, see DESIGN.md) -/
def rmqrFree (v : Nat) : Nat :=
  let w := RMQR.width v
  let h := RMQR.height v
  (List.range h).foldl (fun acc y => (List.range w).foldl (fun acc x => if RMQR.isFunction v x y then acc else acc + 1) acc) 0

def rmqrRowOK (v free level : Nat) : Bool :=
  match (Gen.RMQR.capacityTable[v]?.getD [])[level]? with
  | none => false
  | some c =>
    c.total == free / 8 && c.total == c.data + c.correction &&
    c.blocks.foldl (fun a b => a + b.num * b.total) 0 == c.total &&
    c.blocks.foldl (fun a b => a + b.num * b.data) 0 == c.data &&
    c.blocks.all (fun b => b.total - b.data == (c.blocks.head?.map (fun b0 => b0.total - b0.data)).getD 0 && b.total ≤ 255) &&
    c.bitLength.length == 5

theorem rmqr_capacity_necessary :
    (List.range 32).all (fun v => QRV.Spec.Patterns.strict (rmqrFree v) fun free => (List.range 2).all (rmqrRowOK v free)) = true := by
  decide +kernel

/-- rMQR selection orders are permutations of the 32 versions sorted by area, height, width
(ties broken as listed) -/
def sortedBy (key : Nat → Nat) (l : List Int) : Bool :=
  l.length == 32 && (List.range 32).all (fun v => l.contains (v : Int)) &&
  (List.range 31).all fun i => key (l[i]?.getD 0).toNat ≤ key (l[i + 1]?.getD 0).toNat

theorem rmqr_orders_height_width :
    sortedBy RMQR.height Gen.RMQR.orderHeight = true ∧
    sortedBy RMQR.width Gen.RMQR.orderWidth = true := by decide +kernel

/-- whether the area order is sorted by area (it is not on the pinned tree: see DESIGN.md, D19) -/
def areaOrderSorted : Bool := sortedBy (fun v => RMQR.width v * RMQR.height v) Gen.RMQR.orderArea

end QRV.Lemmas.Tables
