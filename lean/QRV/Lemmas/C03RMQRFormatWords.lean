import QRV.Lemmas.C03RMQRFormat
import QRV.Lemmas.SymREncode
import QRV.Lemmas.FormatPositions
import QRV.Props.C11
/-
The two copies of the version-and-level information of an rMQR symbol, as raw words (before unmasking):
* the copies of the clean symbol are the code word `Gen.RMQR.encodedVersion[version + 32 * level]`, XOR the mask of the
  copy (from the conformance of the emitted symbol, `SymREncode.symbol_core`);
* a regular bitmap whose first raw word is within two modules of the clean symbol's, or whose first copy is (after
  unmasking) three or more modules from every code word while the second raw word is within two modules of the clean
  symbol's, reads as (version, level) (C11).
-/
open QRV QRV.Model QRV.Model.Bitmap QRV.Model.Sym QRV.Props QRV.Props.C18 QRV.Spec.Valid QRV.Spec.BCH
open QRV.Lemmas.BCH QRV.Spec.Symbol.RMQR
open QRV.Spec.Patterns.RMQR (width height isFunction)
namespace QRV.Lemmas.RR

/-- the masks of the model are the masks of the specification -/
theorem fmtMask1_eq : Model.RMQR.fmtMask1 = rmqrMask1 := by decide
theorem fmtMask2_eq : Model.RMQR.fmtMask2 = rmqrMask2 := by decide

/-- the distance of two words does not change when one mask is moved from one side to the other -/
theorem hamming_xor_left (a b k : Nat) : hamming (a ^^^ k) b = hamming a (b ^^^ k) := by
  unfold hamming
  rw [Nat.xor_assoc, Nat.xor_comm k b]

theorem version_word_lt (idx c : Nat) (hc : Gen.RMQR.encodedVersion[idx]? = some c) : c < 2 ^ 18 := by
  have h := rmqr_version_distance
  unfold tableOK at h
  rw [Bool.and_eq_true, List.all_eq_true] at h
  have := h.1 c (List.mem_of_getElem? hc)
  simpa using this

/-- a module of one of the two copies is a function module of the emitted symbol -/
theorem fmt_isFunction (v : Nat) (hv : v < 32) (x y : Nat) (hm : (x, y) ∈ fmtPos v) :
    x < width v ∧ y < height v ∧ isFunction v x y = true := by
  obtain ⟨hx, hy, hu⟩ := used_of_fmtPos v hv x y hm
  exact ⟨hx, hy, by rw [← SymRWalk.usedFn_isFunction v hv x y hx hy]; exact hu⟩

/-- both raw words of the clean symbol: the code word of (version, level), XOR the mask of the copy -/
theorem clean_format_words (v l : Nat) (segments : List Segment)
    (hv : RMQR.Valid { version := v, level := l, mask := 0, segments := segments }) (img : Image)
    (henc : Model.RMQR.encodeToBitmap { version := v, level := l, mask := 0, segments := segments } = .ok img) :
    ∃ ef, Gen.RMQR.encodedVersion[v + 32 * l]? = some ef ∧
      rmqrRead1 img = .ok (ef ^^^ rmqrMask1) ∧ rmqrRead2 img = .ok (ef ^^^ rmqrMask2) := by
  obtain ⟨img0, c, blks, henc0, hreg, hv32, -, -, -, -, -, -, -, hpx⟩ := SymREncode.symbol_core v l 0 segments hv
  rw [henc] at henc0
  cases henc0
  obtain ⟨-, ⟨-, hl1⟩, -, -, -⟩ := id hv
  simp only at hl1
  have hl2 : l < 2 := by omega
  have hef := C11.rmqr_version_is_bch (v + 32 * l) (by omega)
  have hlt := version_word_lt _ _ hef
  obtain ⟨hW27, hW144, hH7, hH17⟩ := sizes_ok v hv32
  have hW27' : 27 ≤ width v := hW27
  have hH7' : 7 ≤ height v := hH7
  have hm1 : rmqrMask1 < 2 ^ 18 := by decide
  have hm2 : rmqrMask2 < 2 ^ 18 := by decide
  -- the colour of a module of the first / second copy
  have hb1 : ∀ x y i, (x, y) ∈ fmtPos v → formatBit1 x y = some i →
      px img x y = (bch18 (v + 32 * l) ^^^ rmqrMask1).testBit i := by
    intro x y i hm hb
    obtain ⟨hx, hy, hF⟩ := fmt_isFunction v hv32 x y hm
    rw [hpx x y hx hy, hF, if_pos rfl]
    unfold functionModule
    simp only [hb]
  have hb2 : ∀ x y i, (x, y) ∈ fmtPos v → 12 ≤ x → formatBit2 (width v) (height v) x y = some i →
      px img x y = (bch18 (v + 32 * l) ^^^ rmqrMask2).testBit i := by
    intro x y i hm h12 hb
    obtain ⟨hx, hy, hF⟩ := fmt_isFunction v hv32 x y hm
    have hn : formatBit1 x y = none := by
      unfold formatBit1
      rw [if_neg (by omega)]
    rw [hpx x y hx hy, hF, if_pos rfl]
    unfold functionModule
    simp only [hn, hb]
  refine ⟨_, hef, ?_, ?_⟩
  · refine rmqrRead1_first img _ _ hreg (by omega) (by omega) _ (Nat.xor_lt_two_pow hlt hm1) ?_
    intro i hi
    refine hb1 _ _ i ((mem_fmtPos ..).2 (Or.inl ⟨i, hi, rfl⟩)) ?_
    unfold formatBit1
    rw [if_pos (by omega)]
    congr 1
    omega
  · refine FmtPos.rmqrRead2_second img _ _ hreg (by omega) (by omega) _ (Nat.xor_lt_two_pow hlt hm2) ?_ ?_ ?_ ?_
    · intro i hi
      refine hb2 _ _ i ((mem_fmtPos ..).2 (Or.inr (Or.inl ⟨i, hi, rfl⟩))) (by omega) ?_
      unfold formatBit2
      rw [if_pos (by omega)]
      congr 1
      omega
    · refine hb2 _ _ 15 ((mem_fmtPos ..).2 (Or.inr (Or.inr (Or.inl rfl)))) (by omega) ?_
      unfold formatBit2
      rw [if_neg (by omega), if_pos (by omega)]
      congr 1
      omega
    · refine hb2 _ _ 16 ((mem_fmtPos ..).2 (Or.inr (Or.inr (Or.inr (Or.inl rfl))))) (by omega) ?_
      unfold formatBit2
      rw [if_neg (by omega), if_pos (by omega)]
      congr 1
      omega
    · refine hb2 _ _ 17 ((mem_fmtPos ..).2 (Or.inr (Or.inr (Or.inr (Or.inr rfl))))) (by omega) ?_
      unfold formatBit2
      rw [if_neg (by omega), if_pos (by omega)]
      congr 1
      omega

/-- C11 applied to the raw words of a bitmap: the version-and-level information reads as (version, level) when the
first raw word is within two modules of the masked code word, or the unmasked first word is rejected while the second
raw word is within two modules of the masked code word -/
theorem decodeFormat_of_words (img' : Image) (r1' r2' : Nat) (hr1 : rmqrRead1 img' = .ok r1') (hr2 : rmqrRead2 img' = .ok r2')
    (v l ef : Nat) (hv : v < 32) (hl : l < 2) (hef : Gen.RMQR.encodedVersion[v + 32 * l]? = some ef)
    (h : hamming r1' (ef ^^^ rmqrMask1) ≤ 2 ∨
      ((∀ c ∈ Gen.RMQR.encodedVersion, hamming (r1' ^^^ rmqrMask1) c ≥ 3) ∧ hamming r2' (ef ^^^ rmqrMask2) ≤ 2)) :
    Model.RMQR.decodeFormat img' = .ok ((v : Int), (l : Int)) := by
  rw [C11.rmqr_decodeFormat_is_twoCopy, hr1, Out.bind_ok, hr2, Out.bind_ok, fmtMask1_eq, fmtMask2_eq]
  have e1 : (v + 32 * l) &&& 0x1f = v := by
    rw [show (0x1f : Nat) = 2 ^ 5 - 1 by decide, Nat.and_two_pow_sub_one_eq_mod]; omega
  have e2 : ((v + 32 * l) >>> 5) &&& 1 = l := by
    rw [Nat.shiftRight_eq_div_pow, show (1 : Nat) = 2 ^ 1 - 1 by decide, Nat.and_two_pow_sub_one_eq_mod]; omega
  rcases h with h | ⟨h1, h2⟩
  · rw [C11.rmqr_first_copy_wins _ _ _ (v + 32 * l) ef (by omega) hef (by rw [hamming_xor_left]; exact h), e1, e2]
  · have := C11.rmqr_second_copy_fallback "rmqr: rMRQ not found" _ (r2' ^^^ rmqrMask2) (v + 32 * l) ef (by omega) h1 hef
      (by rw [hamming_xor_left]; exact h2)
    rw [e1, e2] at this
    exact this

end QRV.Lemmas.RR
