import QRV.Lemmas.RRBlocks
import QRV.Lemmas.C03QRLift
import QRV.Lemmas.C03RMQRFin
/-
C03 (rMQR, whole symbols), the block level: the received codeword sequence is the interleaving of
blocks within the rated distance of the conformant ones - in full, or (short walk, finding D18) with
its last codeword arbitrary; de-interleaving and the Reed-Solomon loop give back the data.
-/
namespace QRV.Lemmas.RR
open QRV QRV.Model QRV.Model.Bits QRV.Model.Sym QRV.Lemmas.RT

/-! ### distance -/

theorem dist_snoc (a c : List Nat) (w u : Nat) (h : a.length = c.length) :
    Props.C14.dist (a ++ [w]) (c ++ [u]) = Props.C14.dist a c + (if w = u then 0 else 1) := by
  unfold Props.C14.dist
  rw [List.zip_append h, List.filter_append, List.length_append]
  congr 1
  by_cases hwu : w = u
  · simp [hwu]
  · simp [hwu]

/-- replacing the last codeword of the received block adds at most one wrong codeword -/
theorem dist_last_le (a1 a2 c1 c2 : List Nat) (y : Nat) (h1 : a1.length = c1.length)
    (h2 : a2.length = c2.length) (hne : c2 ≠ []) :
    Props.C14.dist (a1 ++ a2) (c1 ++ (c2.dropLast ++ [y])) ≤ Props.C14.dist (a1 ++ a2) (c1 ++ c2) + 1 := by
  obtain ⟨c0, z, rfl⟩ : ∃ c0 z, c2 = c0 ++ [z] :=
    ⟨c2.dropLast, c2.getLast hne, (List.dropLast_concat_getLast hne).symm⟩
  have hne2 : a2 ≠ [] := by intro h0; rw [h0] at h2; simp at h2
  obtain ⟨a0, w, rfl⟩ : ∃ a0 w, a2 = a0 ++ [w] :=
    ⟨a2.dropLast, a2.getLast hne2, (List.dropLast_concat_getLast hne2).symm⟩
  have hl : (a1 ++ a0).length = (c1 ++ c0).length := by
    simp only [List.length_append, List.length_cons, List.length_nil] at h2 ⊢
    omega
  rw [List.dropLast_concat, ← List.append_assoc, ← List.append_assoc, ← List.append_assoc,
    dist_snoc _ _ _ _ hl, dist_snoc _ _ _ _ hl]
  split <;> split <;> omega

/-! ### the Reed-Solomon loop -/

theorem rsLoop_fix (blks blks' : List (List Nat × List Nat)) (hl : blks.length = blks'.length)
    (h : ∀ j (hj : j < blks.length) (hj' : j < blks'.length),
      blks'[j].1.length = blks[j].1.length ∧
      RS.decode (blks'[j].1 ++ blks'[j].2) ((blks'[j].2.length : Nat) : Int) = .ok (blks[j].1 ++ blks[j].2)) :
    rsLoop blks' = .ok (blks.flatMap (·.1)).toArray := by
  have key := rsLoop_corrected blks blks' hl h #[]
  unfold rsLoop
  refine Eq.trans key ?_
  simp

/-- one block: within floor(parity / 2) of the conformant block, the decoder restores it -/
theorem block_fix2 (b b' : List Nat × List Nat)
    (hl1 : b'.1.length = b.1.length) (hl2 : b'.2.length = b.2.length)
    (he2 : 2 ≤ b.2.length) (he68 : b.2.length ≤ 68) (h255 : b.1.length + b.2.length ≤ 255)
    (hb1 : ∀ x ∈ b.1, x < 256) (hpar : RS.parity b.2.length b.1 = .ok b.2)
    (hb1' : ∀ x ∈ b'.1, x < 256) (hb2' : ∀ x ∈ b'.2, x < 256)
    (hd : Props.C14.dist (b.1 ++ b.2) (b'.1 ++ b'.2) ≤ b.2.length / 2) :
    RS.decode (b'.1 ++ b'.2) ((b'.2.length : Nat) : Int) = .ok (b.1 ++ b.2) := by
  obtain ⟨par, hpar', hdec⟩ := Props.C03.block_corrected
    { num := 1, total := b.1.length + b.2.length, data := b.1.length, maxError := b.2.length / 2, reserved := 0 }
    (by
      simp only [Bool.and_eq_true, decide_eq_true_eq]
      refine ⟨⟨⟨⟨by omega, by omega⟩, by omega⟩, by omega⟩, by omega⟩)
    b.1 (b'.1 ++ b'.2) hb1
    (by
      intro x hx
      rcases List.mem_append.mp hx with h | h
      · exact hb1' x h
      · exact hb2' x h)
    rfl
  simp only at hpar' hdec
  have e0 : b.1.length + b.2.length - b.1.length = b.2.length := by omega
  rw [e0] at hpar' hdec
  rw [hpar] at hpar'
  cases hpar'
  rw [hl2]
  exact hdec (by rw [List.length_append, hl1, hl2]) hd

/-! ### de-interleaving a sequence whose last codeword was replaced -/

theorem deint_last (cap : Gen.GCap) (n1 n2 d e : Nat) (hs : BlockShape cap.blocks n1 n2 d e)
    (hd : n1 * d + n2 * (d + 1) = cap.data) (ht : cap.data + (n1 + n2) * e = cap.total)
    (blks0 : List (List Nat × List Nat)) (dl p : List Nat)
    (hmap : (blks0 ++ [(dl, p)]).map (fun b => (b.1.length, b.2.length)) = sizesOf cap.blocks)
    (hbytes : ∀ b ∈ blks0 ++ [(dl, p)], (∀ x ∈ b.1, x < 256) ∧ ∀ x ∈ b.2, x < 256)
    (y : Nat) (hy : y < 256) (extra : List Nat) :
    p ≠ [] ∧
    (blks0 ++ [(dl, p.dropLast ++ [y])]).map (fun b => (b.1.length, b.2.length)) = sizesOf cap.blocks ∧
    (∀ b ∈ blks0 ++ [(dl, p.dropLast ++ [y])], (∀ x ∈ b.1, x < 256) ∧ ∀ x ∈ b.2, x < 256) ∧
    deinterleave cap.blocks cap.data cap.total ((ilvList (blks0 ++ [(dl, p)])).dropLast ++ y :: extra) =
      .ok (blks0 ++ [(dl, p.dropLast ++ [y])]) := by
  have hnb : (blks0 ++ [(dl, p)]).length = n1 + n2 := by
    have := congrArg List.length hmap
    rw [hs.sizes] at this
    simpa using this
  have hpos : 1 ≤ n1 + n2 := by rw [← hnb]; simp
  have hpe : p.length = e := by
    have hm : (dl.length, p.length) ∈ sizesOf cap.blocks := by
      rw [← hmap]
      exact List.mem_map_of_mem (f := fun b => (b.1.length, b.2.length)) (a := (dl, p)) (by simp)
    rw [hs.sizes] at hm
    rcases List.mem_append.mp hm with h | h
    · exact congrArg Prod.snd (List.mem_replicate.mp h).2
    · exact congrArg Prod.snd (List.mem_replicate.mp h).2
  have he2 := hs.e2
  obtain ⟨e', rfl⟩ : ∃ e', e = e' + 1 := ⟨e - 1, by omega⟩
  have hpne : p ≠ [] := by intro h0; rw [h0] at hpe; simp at hpe
  have hp'len : (p.dropLast ++ [y]).length = p.length := by simp [hpe]
  have hmap' : (blks0 ++ [(dl, p.dropLast ++ [y])]).map (fun b => (b.1.length, b.2.length)) = sizesOf cap.blocks := by
    rw [← hmap]
    simp only [List.map_append, List.map_cons, List.map_nil, hp'len]
  have hpbytes := hbytes (dl, p) (by simp)
  have hbytes' : ∀ b ∈ blks0 ++ [(dl, p.dropLast ++ [y])], (∀ x ∈ b.1, x < 256) ∧ ∀ x ∈ b.2, x < 256 := by
    intro b hbm
    rcases List.mem_append.mp hbm with h | h
    · exact hbytes b (by simp [h])
    · simp only [List.mem_singleton] at h
      subst h
      refine ⟨hpbytes.1, ?_⟩
      intro x hx
      rcases List.mem_append.mp hx with h | h
      · exact hpbytes.2 x (List.dropLast_subset _ h)
      · simp only [List.mem_singleton] at h; omega
  refine ⟨hpne, hmap', hbytes', ?_⟩
  obtain ⟨ibuf', -, -, -, -, -, hi6', -, hi8'⟩ :=
    ilv_roundtrip cap.blocks n1 n2 d (e' + 1) hs _ hmap' hbytes' cap.data cap.total hd.symm ht
  have hshapeC : Shape ((blks0 ++ [(dl, p)]).map (·.2)) (n1 + n2) 0 (e' + 1) := by
    unfold Shape
    have : ((blks0 ++ [(dl, p)]).map (·.2)).map List.length = (sizesOf cap.blocks).map (·.2) := by
      rw [← hmap]; simp [List.map_map, Function.comp_def]
    rw [this, hs.sizes]; simp [List.replicate_append_replicate]
  have hilv : ilvList (blks0 ++ [(dl, p.dropLast ++ [y])]) = (ilvList (blks0 ++ [(dl, p)])).dropLast ++ [y] := by
    unfold ilvList
    simp only [List.map_append, List.map_cons, List.map_nil]
    simp only [List.map_append, List.map_cons, List.map_nil] at hshapeC
    rw [ilv1_last _ p (n1 + n2) e' y hshapeC hpe]
    have hne2 : ilv1 (blks0.map (·.2) ++ [p]) ≠ [] := by
      intro h0
      have := hshapeC.ilv1_length
      rw [h0] at this
      simp at this
      have : 1 * 1 ≤ (e' + 1) * (n1 + n2) := Nat.mul_le_mul (by omega) hpos
      omega
    rw [List.dropLast_append_of_ne_nil hne2, List.append_assoc]
  have := hi8' extra
  rw [hi6', hilv, List.append_assoc] at this
  exact this

/-! ### the block level of the lifting -/

/-- the conformant blocks of `data`; blocks `blks'` of the row's shape within the rated distance;
the received sequence is their interleaving, in full (followed by anything) or - if the last block
has room for one more wrong codeword - with the last codeword replaced by any byte: de-interleaving
and error correction give `data` -/
theorem blocks_lift (cap : Gen.GCap) (hshape : capShapeOK cap = true)
    (h255 : ∀ bc ∈ cap.blocks, bc.total ≤ 255) (hrow : Props.C03.rowOK cap = true)
    (data : List Nat) (hlen : data.length = cap.data) (hb : ∀ b ∈ data, b < 256)
    (blks : List (List Nat × List Nat)) (hsplit : splitBlocks cap.blocks data = .ok blks)
    (blks' : List (List Nat × List Nat))
    (hshape' : blks'.map (fun b => (b.1.length, b.2.length)) = sizesOf cap.blocks)
    (hbytes' : ∀ b ∈ blks', (∀ x ∈ b.1, x < 256) ∧ ∀ x ∈ b.2, x < 256)
    (hdam : ∀ j (hj : j < blks.length) (hj' : j < blks'.length),
      Props.C14.dist (blks[j].1 ++ blks[j].2) (blks'[j].1 ++ blks'[j].2) ≤ (rated cap.blocks)[j]?.getD 0)
    (bytes : List Nat)
    (hrecv : (∃ extra, bytes = ilvList blks' ++ extra) ∨
      (lastRoom cap = true ∧ ∃ y extra, y < 256 ∧ bytes = (ilvList blks').dropLast ++ y :: extra)) :
    ∃ blks'', deinterleave cap.blocks cap.data cap.total bytes = .ok blks'' ∧
      rsLoop blks'' = .ok data.toArray := by
  obtain ⟨n1, n2, d, e, hs, hd, ht⟩ := shape_of_cap cap hshape
  have hsum : dataSum (sizesOf cap.blocks) = data.length := by
    rw [hs.sizes, dataSum_append, dataSum_replicate, dataSum_replicate, hlen, ← hd]
  have hgs := groupOK_of_mem_sizes _ hs.groups
  obtain ⟨hmap, hall⟩ := encBlocks_facts (sizesOf cap.blocks) hgs data (by omega) hb
  have hsplit0 := splitBlocks_enc cap.blocks hs.groups data (by omega)
  rw [hsplit] at hsplit0
  have hblks : blks = encBlocks (sizesOf cap.blocks) data := by injection hsplit0
  rw [← hblks] at hmap hall
  have hflat : blks.flatMap (·.1) = data := by rw [hblks]; exact encBlocks_flatten _ _ hsum
  have hlens : blks.length = blks'.length := by
    have a := congrArg List.length hmap
    have b := congrArg List.length hshape'
    simp only [List.length_map] at a b
    omega
  -- per block: sizes and the clean block's facts
  have hidx : ∀ (bl : List (List Nat × List Nat))
      (_ : bl.map (fun b => (b.1.length, b.2.length)) = sizesOf cap.blocks) j (hj : j < blks.length) (hj' : j < bl.length),
      bl[j].1.length = blks[j].1.length ∧ bl[j].2.length = blks[j].2.length := by
    intro bl hbl j hj hj'
    have a := congrArg (fun l => l[j]?) hmap
    have b := congrArg (fun l => l[j]?) hbl
    simp only [List.getElem?_map, List.getElem?_eq_getElem hj, List.getElem?_eq_getElem hj', Option.map_some] at a b
    have c := b.trans a.symm
    simp only [Option.some.injEq, Prod.mk.injEq] at c
    exact c
  have key : ∀ (bl : List (List Nat × List Nat)) (_ : blks.length = bl.length)
      (_ : bl.map (fun b => (b.1.length, b.2.length)) = sizesOf cap.blocks)
      (_ : ∀ b ∈ bl, (∀ x ∈ b.1, x < 256) ∧ ∀ x ∈ b.2, x < 256)
      (_ : ∀ j (hj : j < blks.length) (hj' : j < bl.length),
        Props.C14.dist (blks[j].1 ++ blks[j].2) (bl[j].1 ++ bl[j].2) ≤ blks[j].2.length / 2),
      rsLoop bl = .ok data.toArray := by
    intro bl hl hbl hby hdd
    rw [rsLoop_fix blks bl hl ?_, hflat]
    intro j hj hj'
    obtain ⟨i1, i2⟩ := hidx bl hbl j hj hj'
    have hm : (blks[j].1.length, blks[j].2.length) ∈ sizesOf cap.blocks := by
      rw [← hmap]
      exact List.mem_map_of_mem (f := fun b => (b.1.length, b.2.length)) (List.getElem_mem hj)
    have hg := hgs _ hm
    have ht := total_of_mem_sizes _ hs.groups h255 _ hm
    simp only at hg ht
    obtain ⟨c1, -, c3, -⟩ := hall _ (List.getElem_mem hj)
    obtain ⟨d1, d2⟩ := hby _ (List.getElem_mem hj')
    exact ⟨i1, block_fix2 blks[j] bl[j] i1 i2 hg.1 hg.2 ht c1 c3 d1 d2 (hdd j hj hj')⟩
  -- the rated number is at most floor(parity / 2)
  have hrated : ∀ j (hj : j < blks.length), (rated cap.blocks)[j]?.getD 0 ≤ blks[j].2.length / 2 := by
    intro j hj
    have hjs : j < (sizesOf cap.blocks).length := by rw [← hmap]; simpa using hj
    obtain ⟨bc, hbc, hsz, hrt⟩ := sizes_rated cap.blocks j hjs
    have a := congrArg (fun l => l[j]?) hmap
    simp only [List.getElem?_map, List.getElem?_eq_getElem hj, Option.map_some, hsz,
      Option.some.injEq, Prod.mk.injEq] at a
    unfold rated
    rw [hrt, Option.getD_some, a.2]
    unfold Props.C03.rowOK at hrow
    have := List.all_eq_true.mp hrow bc hbc
    simp only [Bool.and_eq_true, decide_eq_true_eq] at this
    exact this.1.2
  rcases hrecv with ⟨extra, rfl⟩ | ⟨hroom, y, extra, hy, rfl⟩
  · -- the sequence is carried in full: QR's argument
    obtain ⟨ibuf, -, -, -, -, -, hi6, -, hi8⟩ :=
      ilv_roundtrip cap.blocks n1 n2 d e hs blks' hshape' hbytes' cap.data cap.total hd.symm ht
    refine ⟨blks', by rw [← hi6]; exact hi8 extra, key blks' hlens hshape' hbytes' ?_⟩
    intro j hj hj'
    exact Nat.le_trans (hdam j hj hj') (hrated j hj)
  · -- the last codeword is arbitrary
    unfold lastRoom at hroom
    split at hroom
    · rename_i s hs0
      rw [decide_eq_true_eq] at hroom
      have hnpos : 0 < (sizesOf cap.blocks).length := by
        cases hz : (sizesOf cap.blocks).length with
        | zero => rw [hz] at hs0; rw [List.getElem?_eq_none (by omega)] at hs0; cases hs0
        | succ n => omega
      have hl' : blks'.length = (sizesOf cap.blocks).length := by
        have b := congrArg List.length hshape'
        simpa using b
      have hne : blks' ≠ [] := by intro h0; rw [h0] at hl'; simp at hl'; omega
      obtain ⟨blks0, bl, hsp⟩ : ∃ blks0 bl, blks' = blks0 ++ [bl] :=
        ⟨blks'.dropLast, blks'.getLast hne, (List.dropLast_concat_getLast hne).symm⟩
      subst hsp
      obtain ⟨dl, p⟩ := bl
      obtain ⟨hpne, hmap'', hbytes'', hdeint⟩ := deint_last cap n1 n2 d e hs hd ht blks0 dl p hshape' hbytes' y hy extra
      have hl0 : (blks0 ++ [(dl, p)]).length = blks0.length + 1 := by simp
      have hl0' : (blks0 ++ [(dl, p.dropLast ++ [y])]).length = blks0.length + 1 := by simp
      refine ⟨_, hdeint, key _ (by omega) hmap'' hbytes'' ?_⟩
      intro j hj hj'
      by_cases hjl : j < blks0.length
      · have e1 : (blks0 ++ [(dl, p.dropLast ++ [y])])[j] = (blks0 ++ [(dl, p)])[j]'(by omega) := by
          rw [List.getElem_append_left hjl, List.getElem_append_left hjl]
        rw [e1]
        exact Nat.le_trans (hdam j hj (by omega)) (hrated j hj)
      · obtain rfl : j = blks0.length := by omega
        have e1 : (blks0 ++ [(dl, p.dropLast ++ [y])])[blks0.length] = (dl, p.dropLast ++ [y]) := by simp
        have e2 : (blks0 ++ [(dl, p)])[blks0.length]'(by omega) = (dl, p) := by simp
        have hdj := hdam blks0.length hj (by omega)
        rw [e2] at hdj
        obtain ⟨i1, i2⟩ := hidx _ hshape' blks0.length hj (by omega)
        rw [e2] at i1 i2
        simp only at i1 i2 hdj
        rw [e1]
        simp only
        have hstep := dist_last_le blks[blks0.length].1 blks[blks0.length].2 dl p y i1.symm i2.symm hpne
        -- the kernel-evaluated room of the last block
        have hidx0 : (sizesOf cap.blocks).length - 1 = blks0.length := by omega
        rw [hidx0] at hs0 hroom
        have a := congrArg (fun l => l[blks0.length]?) hmap
        simp only [List.getElem?_map, List.getElem?_eq_getElem hj, Option.map_some, hs0,
          Option.some.injEq] at a
        have hs2 : s.2 = blks[blks0.length].2.length := by rw [← a]
        rw [hs2] at hroom
        omega
    · cases hroom

end QRV.Lemmas.RR
