import QRV.Model.Bits
import QRV.Spec.Bits
/-
Helper lemmas for C16: the byte-level bit buffer against the list specification.
-/
namespace QRV.Lemmas.Bits
open QRV QRV.Model.Bits QRV.Spec.Bits

/-! ### powers of two -/

theorem two_pow_split {a b c : Nat} (h : a = b + c) : 2 ^ a = 2 ^ b * 2 ^ c := by
  subst h; exact Nat.pow_add 2 b c

theorem mul_pow_add_lt {hi y w k : Nat} (hhi : hi < 2 ^ w) (hy : y < 2 ^ k) :
    hi * 2 ^ k + y < 2 ^ (w + k) := by
  have h1 : (hi + 1) * 2 ^ k ≤ 2 ^ w * 2 ^ k := Nat.mul_le_mul_right _ hhi
  rw [Nat.pow_add]
  rw [Nat.add_mul] at h1
  omega

theorem div_pow_lt {x a b : Nat} (hx : x < 2 ^ (a + b)) : x / 2 ^ b < 2 ^ a := by
  rw [Nat.div_lt_iff_lt_mul (Nat.two_pow_pos b), ← Nat.pow_add]; exact hx

theorem mul_pow_div (a v n : Nat) (hv : v < 2 ^ n) : (a * 2 ^ n + v) / 2 ^ n = a := by
  rw [Nat.add_comm, Nat.add_mul_div_right _ _ (Nat.two_pow_pos n), Nat.div_eq_of_lt hv]; simp

theorem mul_pow_mod (a v n : Nat) (hv : v < 2 ^ n) : (a * 2 ^ n + v) % 2 ^ n = v := by
  rw [Nat.add_comm, Nat.add_mul_mod_self_right, Nat.mod_eq_of_lt hv]

/-- `hi·2^k ||| y = hi·2^k + y` when `y` fits below -/
theorem mul_pow_or (hi y k : Nat) (hy : y < 2 ^ k) : hi * 2 ^ k ||| y = hi * 2 ^ k + y := by
  rw [← Nat.shiftLeft_eq, Nat.shiftLeft_add_eq_or_of_lt hy]

/-! ### bitsMSB / toNat -/

@[simp] theorem length_bitsMSB (v n : Nat) : (bitsMSB v n).length = n := by
  induction n with
  | zero => rfl
  | succ n ih => simp [bitsMSB, ih]

theorem bitsMSB_split (x l n : Nat) :
    bitsMSB x (l + n) = bitsMSB (x / 2 ^ n) l ++ bitsMSB x n := by
  induction l with
  | zero => simp [bitsMSB]
  | succ l ih =>
    have : l + 1 + n = (l + n) + 1 := by omega
    rw [this, bitsMSB, bitsMSB, ih, Nat.testBit_div_two_pow]
    simp [Nat.add_comm]

theorem bitsMSB_mod_le (v m n : Nat) (h : n ≤ m) : bitsMSB (v % 2 ^ m) n = bitsMSB v n := by
  induction n with
  | zero => rfl
  | succ n ih =>
    rw [bitsMSB, bitsMSB, ih (by omega), Nat.testBit_mod_two_pow]
    simp; omega

theorem bitsMSB_mod (v n : Nat) : bitsMSB (v % 2 ^ n) n = bitsMSB v n :=
  bitsMSB_mod_le v n n (Nat.le_refl n)

theorem bitsMSB_append (a v l n : Nat) (hv : v < 2 ^ n) :
    bitsMSB (a * 2 ^ n + v) (l + n) = bitsMSB a l ++ bitsMSB v n := by
  rw [bitsMSB_split, mul_pow_div a v n hv, ← bitsMSB_mod (a * 2 ^ n + v), mul_pow_mod a v n hv]

theorem toNat_cons_aux (bs : List Bool) (acc : Nat) :
    bs.foldl (fun acc b => 2 * acc + (if b then 1 else 0)) acc = acc * 2 ^ bs.length + toNat bs := by
  induction bs generalizing acc with
  | nil => simp [toNat]
  | cons b bs ih =>
    rw [toNat, List.foldl_cons, List.foldl_cons, ih, ih (2 * 0 + _), List.length_cons, Nat.pow_succ]
    have e : acc * (2 ^ bs.length * 2) = 2 * acc * 2 ^ bs.length := by
      rw [Nat.mul_comm (2 ^ bs.length) 2, ← Nat.mul_assoc, Nat.mul_comm acc 2]
    rw [Nat.add_mul, Nat.add_mul, e]
    simp [Nat.add_assoc]

theorem toNat_cons (b : Bool) (bs : List Bool) :
    toNat (b :: bs) = (if b then 1 else 0) * 2 ^ bs.length + toNat bs := by
  rw [toNat, List.foldl_cons, toNat_cons_aux]; simp

theorem toNat_bitsMSB (x n : Nat) : toNat (bitsMSB x n) = x % 2 ^ n := by
  induction n with
  | zero => simp [bitsMSB, toNat, Nat.mod_one]
  | succ n ih =>
    rw [bitsMSB, toNat_cons, ih, length_bitsMSB, Nat.mod_pow_succ, ← Nat.toNat_testBit]
    cases x.testBit n <;> simp [Nat.add_comm]

/-! ### unpack / pack -/

@[simp] theorem unpack_nil : unpack [] = [] := rfl

theorem unpack_append (l₁ l₂ : List Nat) : unpack (l₁ ++ l₂) = unpack l₁ ++ unpack l₂ := by
  simp [unpack]

theorem unpack_cons (x : Nat) (l : List Nat) : unpack (x :: l) = bitsMSB x 8 ++ unpack l := by
  simp [unpack]

theorem unpack_concat (l : List Nat) (x : Nat) : unpack (l ++ [x]) = unpack l ++ bitsMSB x 8 := by
  simp [unpack]

@[simp] theorem length_unpack (l : List Nat) : (unpack l).length = 8 * l.length := by
  induction l with
  | nil => rfl
  | cons x l ih => rw [unpack_cons, List.length_append, ih, length_bitsMSB, List.length_cons]; omega

theorem pack_nil : pack [] = [] := rfl

theorem pack_chunk (c rest : List Bool) (hc : c.length = 8) :
    pack (c ++ rest) = toNat c :: pack rest := by
  have hl : ((c ++ rest).length + 7) / 8 = (rest.length + 7) / 8 + 1 := by
    rw [List.length_append, hc]; omega
  unfold pack
  rw [hl, List.range_succ_eq_map, List.map_cons, List.map_map]
  congr 1
  · simp [hc]
  · apply List.map_congr_left
    intro i _
    have e : 8 * (i + 1) = c.length + 8 * i := by omega
    have : (c ++ rest).drop (8 * (i + 1)) = rest.drop (8 * i) := by
      rw [e, ← List.drop_drop, List.drop_left]
    simp only [Function.comp, this]

theorem pack_short (bs : List Bool) (h0 : 0 < bs.length) (h8 : bs.length ≤ 8) :
    pack bs = [toNat bs * 2 ^ (8 - bs.length)] := by
  have hl : (bs.length + 7) / 8 = 1 := by omega
  unfold pack
  rw [hl]
  simp [List.range_succ, List.take_of_length_le h8, Nat.min_eq_right h8]

theorem pack_unpack_append (init : List Nat) (hinit : ∀ x ∈ init, x < 256) (tail : List Bool) :
    pack (unpack init ++ tail) = init ++ pack tail := by
  induction init with
  | nil => simp
  | cons x l ih =>
    have hx : x < 2 ^ 8 := hinit x (by simp)
    rw [unpack_cons, List.append_assoc, pack_chunk _ _ (length_bitsMSB x 8), toNat_bitsMSB,
      Nat.mod_eq_of_lt hx, ih (fun y hy => hinit y (by simp [hy]))]
    rfl

theorem pack_unpack (l : List Nat) (hl : ∀ x ∈ l, x < 256) : pack (unpack l) = l := by
  have := pack_unpack_append l hl []
  simpa [pack_nil] using this

theorem pack_unpack_partial (init : List Nat) (hinit : ∀ x ∈ init, x < 256) (hi w : Nat)
    (hw0 : 0 < w) (hw8 : w ≤ 8) (hhi : hi < 2 ^ w) :
    pack (unpack init ++ bitsMSB hi w) = init ++ [hi * 2 ^ (8 - w)] := by
  rw [pack_unpack_append init hinit, pack_short _ (by simpa using hw0) (by simpa using hw8),
    toNat_bitsMSB, length_bitsMSB, Nat.mod_eq_of_lt hhi]

/-! ### invariant and content of a buffer (mirrors of `Inv` and `abs` of the property file) -/

structure WInv (b : Buffer) : Prop where
  wrote_lt : b.wrote < 8
  bytes_lt : ∀ x ∈ b.buf.toList, x < 256
  nonempty : b.wrote ≠ 0 → b.buf.size ≠ 0
  low_zero : b.wrote ≠ 0 → ∀ last, b.buf.toList.getLast? = some last → last % 2 ^ (8 - b.wrote) = 0

def content (b : Buffer) : List Bool := (unpack b.buf.toList).take b.len

theorem content_zero (b : Buffer) (h0 : b.wrote = 0) : content b = unpack b.buf.toList := by
  unfold content Buffer.len
  simp only [h0, ne_eq, not_true_eq_false, if_false]
  apply List.take_of_length_le
  simp [Nat.mul_comm]

theorem content_pos (b : Buffer) (init : List Nat) (last : Nat) (hw0 : 0 < b.wrote)
    (hw8 : b.wrote ≤ 8) (hb : b.buf.toList = init ++ [last]) :
    content b = unpack init ++ bitsMSB (last / 2 ^ (8 - b.wrote)) b.wrote := by
  have hs : b.buf.size = init.length + 1 := by
    rw [← Array.length_toList, hb]; simp
  have hlen : b.len = (unpack init).length + b.wrote := by
    unfold Buffer.len
    simp only [hs, ne_eq, length_unpack]
    rw [if_pos (by omega)]; omega
  have h8 : bitsMSB last 8 = bitsMSB (last / 2 ^ (8 - b.wrote)) b.wrote ++ bitsMSB last (8 - b.wrote) := by
    rw [← bitsMSB_split]; congr 1; omega
  unfold content
  rw [hb, unpack_concat, hlen, List.take_length_add_append, h8, List.take_left' (length_bitsMSB _ _)]

theorem winv_zero (b : Buffer) (h0 : b.wrote = 0) (hlt : ∀ x ∈ b.buf.toList, x < 256) :
    WInv b ∧ content b = unpack b.buf.toList :=
  ⟨⟨by omega, hlt, fun h => absurd h0 h, fun h => absurd h0 h⟩, content_zero b h0⟩

theorem winv_pos (b : Buffer) (init : List Nat) (hi : Nat) (hw0 : 0 < b.wrote) (hw8 : b.wrote < 8)
    (hb : b.buf.toList = init ++ [hi * 2 ^ (8 - b.wrote)]) (hhi : hi < 2 ^ b.wrote)
    (hinit : ∀ x ∈ init, x < 256) :
    WInv b ∧ content b = unpack init ++ bitsMSB hi b.wrote := by
  refine ⟨⟨hw8, ?_, ?_, ?_⟩, ?_⟩
  · intro x hx
    rw [hb, List.mem_append, List.mem_singleton] at hx
    rcases hx with hx | hx
    · exact hinit x hx
    · have := mul_pow_add_lt (k := 8 - b.wrote) hhi (Nat.two_pow_pos _)
      rw [show b.wrote + (8 - b.wrote) = 8 by omega] at this
      omega
  · intro _ hs
    have : b.buf.toList.length = 0 := by simpa using hs
    rw [hb] at this; simp at this
  · intro _ last hl
    rw [hb, List.getLast?_concat] at hl
    cases hl
    exact Nat.mul_mod_left _ _
  · rw [content_pos b init _ hw0 (by omega) hb, Nat.mul_div_cancel _ (Nat.two_pow_pos _)]

/-- the two shapes of a buffer satisfying the invariant -/
theorem WInv.shape {b : Buffer} (h : WInv b) :
    (b.wrote = 0 ∧ content b = unpack b.buf.toList) ∨
    (∃ init hi, 0 < b.wrote ∧ b.wrote < 8 ∧ b.buf.toList = init ++ [hi * 2 ^ (8 - b.wrote)] ∧
      hi < 2 ^ b.wrote ∧ (∀ x ∈ init, x < 256) ∧ content b = unpack init ++ bitsMSB hi b.wrote) := by
  by_cases h0 : b.wrote = 0
  · exact .inl ⟨h0, content_zero b h0⟩
  · right
    have hne : b.buf.toList ≠ [] := by
      intro e
      have := h.nonempty h0
      rw [← Array.length_toList, e] at this; simp at this
    rcases List.eq_nil_or_concat b.buf.toList with e | ⟨init, last, e⟩
    · exact absurd e hne
    · have e' : b.buf.toList = init ++ [last] := by simpa using e
      have hlast : last < 256 := h.bytes_lt last (by rw [e']; simp)
      have hmod := h.low_zero h0 last (by rw [e', List.getLast?_concat])
      have hdm := Nat.div_add_mod last (2 ^ (8 - b.wrote))
      rw [hmod, Nat.add_zero, Nat.mul_comm] at hdm
      have hw := h.wrote_lt
      refine ⟨init, last / 2 ^ (8 - b.wrote), by omega, hw, by rw [hdm]; exact e', ?_, ?_, ?_⟩
      · apply div_pow_lt
        rw [show b.wrote + (8 - b.wrote) = 8 by omega]; exact hlast
      · intro x hx; exact h.bytes_lt x (by rw [e']; simp [hx])
      · exact content_pos b init last (by omega) (by omega) e'

theorem WInv.len_eq {b : Buffer} (h : WInv b) : b.len = (content b).length := by
  have hw := h.wrote_lt
  have hn := h.nonempty
  unfold content
  rw [List.length_take, length_unpack, Array.length_toList]
  simp only [Buffer.len]
  split <;> omega

theorem WInv.bytes_are_packing {b : Buffer} (h : WInv b) : b.buf.toList = pack (content b) := by
  rcases h.shape with ⟨_, hc⟩ | ⟨init, hi, hw0, hw8, hb, hhi, hinit, hc⟩
  · rw [hc, pack_unpack _ h.bytes_lt]
  · rw [hc, pack_unpack_partial init hinit hi _ hw0 (by omega) hhi, hb]

/-! ### the write side -/

theorem orLast_spec (b : Buffer) (init : List Nat) (last v : Nat)
    (hb : b.buf.toList = init ++ [last]) :
    ∃ buf' : Array Nat, buf'.toList = init ++ [last ||| v] ∧ orLast b v = .ok { b with buf := buf' } := by
  obtain ⟨⟨l⟩, off, rd, wr⟩ := b
  simp only at hb
  subst hb
  simp [orLast]

/-- what a write step has to establish -/
def Step (b b' : Buffer) (bits : List Bool) : Prop :=
  WInv b' ∧ content b' = content b ++ bits ∧ b'.offset = b.offset ∧ b'.read = b.read

theorem shl_mod_of_lt (x n : Nat) (hn8 : n ≤ 8) (hx : x < 2 ^ n) :
    (x <<< (8 - n)) % 256 = x * 2 ^ (8 - n) := by
  rw [Nat.shiftLeft_eq]; apply Nat.mod_eq_of_lt
  have := mul_pow_add_lt (k := 8 - n) hx (Nat.two_pow_pos _)
  rw [show n + (8 - n) = 8 by omega] at this
  omega

theorem shl_mod_low (x w : Nat) (hw8 : w ≤ 8) :
    (x <<< (8 - w)) % 256 = (x % 2 ^ w) * 2 ^ (8 - w) := by
  rw [Nat.shiftLeft_eq, show 256 = 2 ^ w * 2 ^ (8 - w) by rw [← Nat.pow_add, show w + (8 - w) = 8 by omega],
    Nat.mul_mod_mul_right]

/-- writing into a byte-aligned buffer -/
theorem step_aligned (b : Buffer) (h : WInv b) (h0 : b.wrote = 0) (x n : Nat) (hn0 : 0 < n)
    (hn8 : n ≤ 8) (hx : x < 2 ^ n) :
    Step b { b with buf := b.buf.push (x * 2 ^ (8 - n)), wrote := n % 8 } (bitsMSB x n) := by
  have hc := content_zero b h0
  have hy : x * 2 ^ (8 - n) < 256 := by
    have := mul_pow_add_lt (k := 8 - n) hx (Nat.two_pow_pos _)
    rw [show n + (8 - n) = 8 by omega] at this
    omega
  by_cases h8 : n = 8
  · subst h8
    have := winv_zero { b with buf := b.buf.push (x * 2 ^ (8 - 8)), wrote := 8 % 8 } rfl (by
      intro y hy'
      simp only [Array.toList_push, List.mem_append, List.mem_singleton] at hy'
      rcases hy' with hy' | hy'
      · exact h.bytes_lt y hy'
      · omega)
    refine ⟨this.1, ?_, rfl, rfl⟩
    rw [this.2, hc]
    simp [unpack_concat]
  · have hn : n % 8 = n := Nat.mod_eq_of_lt (by omega)
    have := winv_pos { b with buf := b.buf.push (x * 2 ^ (8 - n)), wrote := n % 8 } b.buf.toList x
      (by simp only [hn]; omega) (by simp only [hn]; omega) (by simp [hn]) (by simpa [hn] using hx)
      h.bytes_lt
    refine ⟨this.1, ?_, rfl, rfl⟩
    rw [this.2, hc]
    simp only [hn]

/-- value OR-ed into the last byte when the new bits fit in it -/
theorem fill_val (hi x w n : Nat) (hm : w + n ≤ 8) (hx : x < 2 ^ n) :
    hi * 2 ^ (8 - w) ||| (x <<< (8 - (w + n))) % 256 = (hi * 2 ^ n + x) * 2 ^ (8 - (w + n)) := by
  have hx' : x < 2 ^ (w + n) := Nat.lt_of_lt_of_le hx (Nat.pow_le_pow_right (by decide) (by omega))
  rw [shl_mod_of_lt x (w + n) hm hx']
  have hlt : x * 2 ^ (8 - (w + n)) < 2 ^ (8 - w) := by
    have := mul_pow_add_lt (k := 8 - (w + n)) hx (Nat.two_pow_pos _)
    rw [show n + (8 - (w + n)) = 8 - w by omega] at this
    omega
  rw [mul_pow_or _ _ _ hlt, two_pow_split (show 8 - w = n + (8 - (w + n)) by omega), Nat.add_mul,
    Nat.mul_assoc]

/-- value OR-ed into the last byte when the new bits spill into a fresh byte -/
theorem spill_val (hi x w n : Nat) (hw8 : w ≤ 8) (hm : 8 < w + n) (hx : x < 2 ^ n) :
    hi * 2 ^ (8 - w) ||| x >>> (w + n - 8) = hi * 2 ^ (8 - w) + x / 2 ^ (w + n - 8) ∧
      x / 2 ^ (w + n - 8) < 2 ^ (8 - w) := by
  have hlt : x / 2 ^ (w + n - 8) < 2 ^ (8 - w) := by
    apply div_pow_lt
    rw [show 8 - w + (w + n - 8) = n by omega]; exact hx
  rw [Nat.shiftRight_eq_div_pow, mul_pow_or _ _ _ hlt]
  exact ⟨rfl, hlt⟩

/-- the new bits fit in the partial last byte -/
theorem step_fill (b : Buffer) (init : List Nat) (hi : Nat) (hw0 : 0 < b.wrote) (hhi : hi < 2 ^ b.wrote)
    (hinit : ∀ x ∈ init, x < 256) (hc : content b = unpack init ++ bitsMSB hi b.wrote)
    (x n : Nat) (hm : b.wrote + n ≤ 8) (hx : x < 2 ^ n) (buf' : Array Nat)
    (hbuf' : buf'.toList = init ++ [(hi * 2 ^ n + x) * 2 ^ (8 - (b.wrote + n))]) :
    Step b { b with buf := buf', wrote := (b.wrote + n) % 8 } (bitsMSB x n) := by
  have hhx : hi * 2 ^ n + x < 2 ^ (b.wrote + n) := mul_pow_add_lt hhi hx
  by_cases h8 : b.wrote + n = 8
  · rw [h8] at hhx
    rw [h8, Nat.sub_self, Nat.pow_zero, Nat.mul_one] at hbuf'
    have := winv_zero { b with buf := buf', wrote := (b.wrote + n) % 8 } (by simp [h8]) (by
      intro y hy'
      simp only [hbuf', List.mem_append, List.mem_singleton] at hy'
      rcases hy' with hy' | hy'
      · exact hinit y hy'
      · omega)
    refine ⟨this.1, ?_, rfl, rfl⟩
    rw [this.2, hc]
    simp only [hbuf', unpack_concat, ← h8, bitsMSB_append hi x b.wrote n hx, List.append_assoc]
  · have hn : (b.wrote + n) % 8 = b.wrote + n := Nat.mod_eq_of_lt (by omega)
    have := winv_pos { b with buf := buf', wrote := (b.wrote + n) % 8 } init (hi * 2 ^ n + x)
      (by simp only [hn]; omega) (by simp only [hn]; omega) (by simp only [hn]; exact hbuf')
      (by simp only [hn]; exact hhx) hinit
    refine ⟨this.1, ?_, rfl, rfl⟩
    rw [this.2, hc]
    simp only [hn, bitsMSB_append hi x b.wrote n hx, List.append_assoc]

/-- the new bits complete the last byte and start a fresh one -/
theorem step_spill (b : Buffer) (init : List Nat) (hi : Nat) (hw8 : b.wrote < 8)
    (hhi : hi < 2 ^ b.wrote)
    (hinit : ∀ x ∈ init, x < 256) (hc : content b = unpack init ++ bitsMSB hi b.wrote)
    (x n : Nat) (hn8 : n ≤ 8) (hm : 8 < b.wrote + n) (hx : x < 2 ^ n) (buf1 : Array Nat)
    (hbuf1 : buf1.toList = init ++ [hi * 2 ^ (8 - b.wrote) + x / 2 ^ (b.wrote + n - 8)]) :
    Step b { b with buf := buf1.push ((x % 2 ^ (b.wrote + n - 8)) * 2 ^ (8 - (b.wrote + n - 8))),
                    wrote := b.wrote + n - 8 } (bitsMSB x n) := by
  have hy : x / 2 ^ (b.wrote + n - 8) < 2 ^ (8 - b.wrote) := (spill_val hi x _ n (by omega) hm hx).2
  have hz := mul_pow_add_lt hhi hy
  rw [show b.wrote + (8 - b.wrote) = 8 by omega] at hz
  have e2 : bitsMSB x n =
      bitsMSB (x / 2 ^ (b.wrote + n - 8)) (8 - b.wrote) ++ bitsMSB x (b.wrote + n - 8) := by
    rw [← bitsMSB_split]; congr 1; omega
  generalize hw' : b.wrote + n - 8 = w' at hbuf1 hy hz e2 ⊢
  have e1 : bitsMSB (hi * 2 ^ (8 - b.wrote) + x / 2 ^ w') 8 =
      bitsMSB hi b.wrote ++ bitsMSB (x / 2 ^ w') (8 - b.wrote) := by
    rw [← bitsMSB_append hi _ b.wrote (8 - b.wrote) hy]; congr 1; omega
  have := winv_pos { b with buf := buf1.push ((x % 2 ^ w') * 2 ^ (8 - w')), wrote := w' }
      (init ++ [hi * 2 ^ (8 - b.wrote) + x / 2 ^ w']) (x % 2 ^ w')
      (by simp only; omega) (by simp only; omega) (by simp [hbuf1])
      (Nat.mod_lt _ (Nat.two_pow_pos _)) (by
        intro y hy'
        simp only [List.mem_append, List.mem_singleton] at hy'
        rcases hy' with hy' | hy'
        · exact hinit y hy'
        · omega)
  refine ⟨this.1, ?_, rfl, rfl⟩
  rw [this.2, hc]
  simp only [unpack_concat, bitsMSB_mod, e1, e2, List.append_assoc]

theorem writeBitsLSB8_spec (b : Buffer) (h : WInv b) (x n : Nat) (hn0 : 0 < n) (hn8 : n ≤ 8)
    (hx : x < 2 ^ n) : ∃ b', writeBitsLSB8 b x n = .ok b' ∧ Step b b' (bitsMSB x n) := by
  rcases h.shape with ⟨h0, _⟩ | ⟨init, hi, hw0, hw8, hb, hhi, hinit, hc⟩
  · refine ⟨_, ?_, step_aligned b h h0 x n hn0 hn8 hx⟩
    unfold writeBitsLSB8
    rw [if_pos h0, shl_mod_of_lt x n hn8 hx]
  · unfold writeBitsLSB8
    rw [if_neg (by omega)]
    by_cases hm : b.wrote + n > 8
    · obtain ⟨e, _⟩ := spill_val hi x b.wrote n (by omega) hm hx
      obtain ⟨buf1, hbuf1, hor⟩ := orLast_spec b init _ (x >>> (b.wrote + n - 8)) hb
      rw [e] at hbuf1
      refine ⟨_, ?_, step_spill b init hi hw8 hhi hinit hc x n hn8 hm hx buf1 hbuf1⟩
      simp only [hm, if_true, hor, Out.bind_ok]
      rw [if_neg (by omega), shl_mod_low x _ (by omega)]
      rfl
    · obtain ⟨buf', hbuf', hor⟩ := orLast_spec b init _ ((x <<< (8 - (b.wrote + n))) % 256) hb
      rw [fill_val hi x b.wrote n (by omega) hx] at hbuf'
      refine ⟨_, ?_, step_fill b init hi hw0 hhi hinit hc x n (by omega) hx buf' hbuf'⟩
      simp only [hm, if_false, hor, Out.bind_ok]
      rfl

theorem orLast_wrote {b b' : Buffer} {v : Nat} (h : orLast b v = .ok b') : b'.wrote = b.wrote := by
  unfold orLast at h
  split at h
  · cases h
  · cases h; rfl

theorem writeByte_eq (b : Buffer) (hw : b.wrote < 8) (x : Nat) (hx : x < 256) :
    writeByte b x = writeBitsLSB8 b x 8 := by
  unfold writeByte writeBitsLSB8
  by_cases h0 : b.wrote = 0
  · simp [h0, Nat.mod_eq_of_lt hx]
  · have h1 : ¬ b.wrote > 8 := by omega
    have h2 : b.wrote + 8 > 8 := by omega
    simp only [h0, h1, h2, if_true, if_false, Nat.add_sub_cancel]
    cases e : orLast b (x >>> b.wrote) with
    | ok a => simp only [Out.bind_ok, orLast_wrote e]
    | err m => rfl
    | panic m => rfl

theorem writeByte_spec (b : Buffer) (h : WInv b) (x : Nat) (hx : x < 256) :
    ∃ b', writeByte b x = .ok b' ∧ Step b b' (bitsMSB x 8) := by
  rw [writeByte_eq b h.wrote_lt x hx]
  exact writeBitsLSB8_spec b h x 8 (by decide) (by decide) hx

theorem writeBytesFrom_spec (v k : Nat) (b : Buffer) (h : WInv b) :
    ∃ b', writeBytesFrom b v k = .ok b' ∧ Step b b' (bitsMSB v (8 * k)) := by
  induction k generalizing b with
  | zero => exact ⟨b, rfl, h, by simp [bitsMSB], rfl, rfl⟩
  | succ k ih =>
    obtain ⟨b₁, e₁, h₁, c₁, o₁, r₁⟩ :=
      writeByte_spec b h (byteAt v (8 * k)) (Nat.mod_lt _ (by decide))
    obtain ⟨b₂, e₂, h₂, c₂, o₂, r₂⟩ := ih b₁ h₁
    refine ⟨b₂, ?_, h₂, ?_, o₂.trans o₁, r₂.trans r₁⟩
    · simp only [writeBytesFrom, e₁, Out.bind_ok, e₂]
    · rw [c₂, c₁, List.append_assoc, show 8 * (k + 1) = 8 + 8 * k by omega, bitsMSB_split]
      congr 2
      unfold byteAt
      rw [Nat.shiftRight_eq_div_pow]
      exact bitsMSB_mod (v / 2 ^ (8 * k)) 8

theorem writeBit_eq (b : Buffer) (hw : b.wrote < 8) (v : Nat) :
    writeBit b v = writeBitsLSB8 b (v % 2) 1 := by
  unfold writeBit writeBitsLSB8 writeBitsLSB8.WROTE_AFTER_FILL
  by_cases h0 : b.wrote = 0
  · simp [h0, Nat.and_one_is_mod]
  · have h1 : ¬ b.wrote > 7 := by omega
    have h2 : ¬ b.wrote + 1 > 8 := by omega
    have h3 : 8 - (b.wrote + 1) = 7 - b.wrote := by omega
    simp only [h0, h1, h2, h3, if_false, Nat.and_one_is_mod]

theorem writeBit_spec (b : Buffer) (h : WInv b) (v : Nat) :
    ∃ b', writeBit b v = .ok b' ∧ Step b b' [decide (v % 2 = 1)] := by
  rw [writeBit_eq b h.wrote_lt v]
  have := writeBitsLSB8_spec b h (v % 2) 1 (by decide) (by decide) (Nat.mod_lt _ (by decide))
  simpa [bitsMSB, Nat.testBit_zero] using this

/-- the 64-bit mask `(1 << n) - 1` computed in uint64 -/
theorem mask_eq (n : Nat) (hn : n ≤ 64) :
    ((1 <<< n) % 2 ^ 64 + 2 ^ 64 - 1) % 2 ^ 64 = 2 ^ n - 1 := by
  rw [Nat.shiftLeft_eq, Nat.one_mul]
  have h1 : 2 ^ n ≤ 2 ^ 64 := Nat.pow_le_pow_right (by decide) hn
  have h2 : 0 < 2 ^ n := Nat.two_pow_pos n
  generalize 2 ^ n = p at h1 h2 ⊢
  omega

theorem masked_eq (v n : Nat) (hn : n ≤ 64) :
    (v % 2 ^ 64) &&& ((1 <<< n) % 2 ^ 64 + 2 ^ 64 - 1) % 2 ^ 64 = v % 2 ^ n := by
  rw [mask_eq n hn, Nat.and_two_pow_sub_one_eq_mod,
    Nat.mod_mod_of_dvd _ (Nat.pow_dvd_pow 2 hn)]

theorem writeBitsLSB_spec (b : Buffer) (h : WInv b) (v n : Nat) (hn : n ≤ 64) :
    ∃ b', writeBitsLSB b v (n : Int) = .ok b' ∧ Step b b' (bitsMSB v n) := by
  unfold writeBitsLSB
  rw [if_neg (by omega), if_neg (by omega)]
  by_cases h0 : n = 0
  · subst h0
    exact ⟨b, by simp, h, by simp [bitsMSB], rfl, rfl⟩
  · rw [if_neg (by omega)]
    simp only [Int.toNat_natCast]
    rw [masked_eq v n hn]
    generalize hk : (n - 1) / 8 = k
    have hr0 : 0 < n - 8 * k := by omega
    have hr8 : n - 8 * k ≤ 8 := by omega
    have hm : v % 2 ^ n < 2 ^ (n - 8 * k + 8 * k) := by
      rw [show n - 8 * k + 8 * k = n by omega]; exact Nat.mod_lt _ (Nat.two_pow_pos n)
    have hd := div_pow_lt hm
    have hb : byteAt (v % 2 ^ n) (8 * k) = v % 2 ^ n / 2 ^ (8 * k) := by
      unfold byteAt
      rw [Nat.shiftRight_eq_div_pow]
      apply Nat.mod_eq_of_lt
      exact Nat.lt_of_lt_of_le hd (Nat.pow_le_pow_right (by decide) hr8)
    obtain ⟨b₁, e₁, h₁, c₁, o₁, r₁⟩ := writeBitsLSB8_spec b h _ (n - 8 * k) hr0 hr8 hd
    obtain ⟨b₂, e₂, h₂, c₂, o₂, r₂⟩ := writeBytesFrom_spec (v % 2 ^ n) k b₁ h₁
    refine ⟨b₂, ?_, h₂, ?_, o₂.trans o₁, r₂.trans r₁⟩
    · simp only [hb, e₁, Out.bind_ok, e₂]
    · rw [c₂, c₁, List.append_assoc, ← bitsMSB_split, show n - 8 * k + 8 * k = n by omega,
        bitsMSB_mod]

/-! ### the read side -/

theorem getElem?_bitsMSB (x n i : Nat) (hi : i < n) :
    (bitsMSB x n)[i]? = some (x.testBit (n - 1 - i)) := by
  induction n generalizing i with
  | zero => omega
  | succ n ih =>
    cases i with
    | zero => simp [bitsMSB]
    | succ i =>
      rw [bitsMSB, List.getElem?_cons_succ, ih i (by omega)]
      congr 2; omega

theorem getElem?_unpack (l : List Nat) (off r : Nat) (hr : r < 8) :
    (unpack l)[8 * off + r]? = l[off]?.map (fun x => x.testBit (7 - r)) := by
  induction l generalizing off with
  | nil => simp
  | cons x l ih =>
    rw [unpack_cons]
    cases off with
    | zero =>
      rw [List.getElem?_append_left (by simpa using hr), getElem?_bitsMSB x 8 _ (by omega)]
      simp
    | succ off =>
      rw [List.getElem?_append_right (by simp; omega), length_bitsMSB,
        show 8 * (off + 1) + r - 8 = 8 * off + r by omega, ih]
      simp

/-- buffers that differ only in the read cursor -/
def SameData (b b' : Buffer) : Prop := b'.buf = b.buf ∧ b'.wrote = b.wrote

theorem SameData.content {b b' : Buffer} (h : SameData b b') : content b' = content b := by
  unfold Lemmas.Bits.content Buffer.len; rw [h.1, h.2]

theorem SameData.winv {b b' : Buffer} (h : SameData b b') (hb : WInv b) : WInv b' := by
  obtain ⟨h1, h2, h3, h4⟩ := hb
  constructor
  · rw [h.2]; exact h1
  · rw [h.1]; exact h2
  · rw [h.1, h.2]; exact h3
  · rw [h.1, h.2]; exact h4

theorem readBit_ge (b : Buffer) (hge : b.offset ≥ b.buf.size) :
    readBit b = (b, none) ∧ (unpack b.buf.toList).length ≤ 8 * b.offset + b.read := by
  constructor
  · unfold readBit; rw [dif_pos hge]
  · rw [length_unpack, Array.length_toList]; omega

theorem readBit_lt (b : Buffer) (hr : b.read < 8) (hlt : b.offset < b.buf.size) :
    ∃ t b₁, (unpack b.buf.toList)[8 * b.offset + b.read]? = some t ∧
      readBit b = (b₁, some (if t then 1 else 0)) ∧ SameData b b₁ ∧ b₁.read < 8 ∧
      8 * b₁.offset + b₁.read = 8 * b.offset + b.read + 1 := by
  have hbit : (b.buf[b.offset] >>> (7 - b.read)) &&& 1 =
      if b.buf[b.offset].testBit (7 - b.read) then 1 else 0 := by
    rw [Nat.and_one_is_mod, Nat.shiftRight_eq_div_pow, ← Nat.toNat_testBit]
    cases b.buf[b.offset].testBit (7 - b.read) <;> rfl
  refine ⟨b.buf[b.offset].testBit (7 - b.read), (readBit b).1, ?_, ?_, ?_⟩
  · rw [getElem?_unpack _ _ _ hr]
    simp [hlt]
  · unfold readBit
    rw [dif_neg (by omega)]
    simp only [hbit]
    split <;> rfl
  · unfold readBit
    rw [dif_neg (by omega)]
    simp only
    split
    · exact ⟨⟨rfl, rfl⟩, by simp, by simp only; omega⟩
    · exact ⟨⟨rfl, rfl⟩, by simp only; omega, by simp only; omega⟩

/-- one iteration of the read loop on the accumulator -/
theorem acc_step (ret t k : Nat) (hret : ret < 2 ^ k) (hk : k < 64) (ht : t < 2) :
    ((ret <<< 1) % 2 ^ 64 ||| t) = 2 * ret + t ∧ 2 * ret + t < 2 ^ (k + 1) := by
  have h1 : 2 ^ (k + 1) ≤ 2 ^ 64 := Nat.pow_le_pow_right (by decide) (by omega)
  have h2 : 2 * ret + t < 2 ^ (k + 1) := by rw [Nat.pow_succ]; omega
  refine ⟨?_, h2⟩
  rw [Nat.shiftLeft_eq, Nat.mod_eq_of_lt (by omega), Nat.pow_one, mul_pow_or ret t 1 (by simpa using ht)]
  omega

theorem acc_arith (ret t T G fuel : Nat) (hG : G ≤ fuel) :
    (2 * ret + t) * 2 ^ fuel + T * 2 ^ (fuel - G) =
      ret * 2 ^ (fuel + 1) + (t * 2 ^ G + T) * 2 ^ (fuel + 1 - (G + 1)) := by
  rw [show fuel + 1 - (G + 1) = fuel - G by omega, Nat.add_mul (t * 2 ^ G), Nat.mul_assoc t,
    ← two_pow_split (show fuel = G + (fuel - G) by omega), Nat.pow_succ, Nat.add_mul,
    Nat.mul_comm 2 ret, Nat.mul_assoc ret, Nat.mul_comm 2, Nat.add_assoc]

theorem readBitsLoop_spec (fuel : Nat) (b : Buffer) (hr : b.read < 8) (ret k : Nat)
    (hret : ret < 2 ^ k) (hk : k + fuel ≤ 64) :
    SameData b (readBitsLoop b ret fuel).1 ∧ (readBitsLoop b ret fuel).1.read < 8 ∧
    8 * (readBitsLoop b ret fuel).1.offset + (readBitsLoop b ret fuel).1.read =
      8 * b.offset + b.read +
        (((unpack b.buf.toList).drop (8 * b.offset + b.read)).take fuel).length ∧
    (readBitsLoop b ret fuel).2 = ret * 2 ^ fuel +
      toNat (((unpack b.buf.toList).drop (8 * b.offset + b.read)).take fuel) *
        2 ^ (fuel - (((unpack b.buf.toList).drop (8 * b.offset + b.read)).take fuel).length) := by
  induction fuel generalizing b ret k with
  | zero => exact ⟨⟨rfl, rfl⟩, hr, by simp [readBitsLoop], by simp [readBitsLoop, toNat]⟩
  | succ fuel ih =>
    by_cases hlt : b.offset < b.buf.size
    · obtain ⟨t, b₁, hget, hrd, hsame, hr₁, hcur⟩ := readBit_lt b hr hlt
      have hlen : 8 * b.offset + b.read < (unpack b.buf.toList).length := by
        rcases Nat.lt_or_ge (8 * b.offset + b.read) (unpack b.buf.toList).length with h | h
        · exact h
        · rw [List.getElem?_eq_none h] at hget; cases hget
      have hdrop : (unpack b.buf.toList).drop (8 * b.offset + b.read) =
          t :: (unpack b₁.buf.toList).drop (8 * b₁.offset + b₁.read) := by
        rw [hsame.1, hcur, List.drop_eq_getElem_cons hlen]
        congr 1
        rw [List.getElem?_eq_getElem hlen] at hget
        exact Option.some.inj hget
      have hacc := acc_step ret (if t then 1 else 0) k hret (by omega) (by split <;> decide)
      obtain ⟨i1, i2, i3, i4⟩ := ih b₁ hr₁ _ (k + 1) hacc.2 (by omega)
      have hloop : readBitsLoop b ret (fuel + 1) = readBitsLoop b₁ (2 * ret + if t then 1 else 0) fuel := by
        rw [readBitsLoop, hrd]; simp only [hacc.1]
      rw [hloop, hdrop, List.take_succ_cons, List.length_cons, toNat_cons]
      refine ⟨⟨i1.1.trans hsame.1, i1.2.trans hsame.2⟩, i2, by rw [i3, hcur]; omega, ?_⟩
      rw [i4]
      apply acc_arith
      exact (List.length_take_le _ _)
    · obtain ⟨hrd, hlen⟩ := readBit_ge b (by omega)
      have hloop : readBitsLoop b ret (fuel + 1) = (b, (ret <<< (fuel + 1)) % 2 ^ 64) := by
        rw [readBitsLoop, hrd]
      rw [hloop, List.drop_eq_nil_of_le hlen]
      refine ⟨⟨rfl, rfl⟩, hr, by simp, ?_⟩
      have h1 : 2 ^ (k + (fuel + 1)) ≤ 2 ^ 64 := Nat.pow_le_pow_right (by decide) hk
      have h2 := mul_pow_add_lt (k := fuel + 1) hret (Nat.two_pow_pos _)
      simp only [List.take_nil, toNat, List.foldl_nil, Nat.zero_mul, Nat.add_zero]
      rw [Nat.shiftLeft_eq, Nat.mod_eq_of_lt (by omega)]

/-- the spec state a buffer stands for -/
def fifoOf (b : Buffer) : Fifo := { bits := content b, cursor := 8 * b.offset + b.read }

theorem image_fifoOf (b : Buffer) (h : WInv b) : (fifoOf b).image = unpack b.buf.toList := by
  unfold Fifo.image fifoOf; rw [← h.bytes_are_packing]

theorem fifoOf_eq {b b' : Buffer} (hs : SameData b b') (c : Nat)
    (hc : 8 * b'.offset + b'.read = c) : fifoOf b' = { bits := content b, cursor := c } := by
  unfold fifoOf; rw [hs.content, hc]

theorem readBit_spec (b : Buffer) (h : WInv b) (hr : b.read < 8) :
    (fifoOf b).readBit = (fifoOf (readBit b).1, (readBit b).2) ∧ SameData b (readBit b).1 ∧
      (readBit b).1.read < 8 ∧ ((readBit b).2 = none ↔ b.offset ≥ b.buf.size) := by
  have hcur : (fifoOf b).cursor = 8 * b.offset + b.read := rfl
  by_cases hlt : b.offset < b.buf.size
  · obtain ⟨t, b₁, hget, hrd, hsame, hr₁, hc⟩ := readBit_lt b hr hlt
    rw [hrd]
    refine ⟨?_, hsame, hr₁, by simp; omega⟩
    simp only [Fifo.readBit, image_fifoOf b h, hcur, hget, fifoOf_eq hsame _ hc]
    rfl
  · obtain ⟨hrd, hlen⟩ := readBit_ge b (by omega)
    rw [hrd]
    refine ⟨?_, ⟨rfl, rfl⟩, hr, by simp; omega⟩
    simp only [Fifo.readBit, image_fifoOf b h, hcur, List.getElem?_eq_none hlen]

theorem readBits_spec (b : Buffer) (h : WInv b) (hr : b.read < 8) (n : Nat) (hn : n ≤ 64) :
    ∃ b' r, readBits b (n : Int) = .ok (b', r) ∧ (fifoOf b).readBits n = (fifoOf b', r) ∧
      SameData b b' ∧ b'.read < 8 ∧ (r = none ↔ b.offset ≥ b.buf.size) := by
  have hcur : (fifoOf b).cursor = 8 * b.offset + b.read := rfl
  unfold readBits
  rw [if_neg (by omega)]
  by_cases hge : b.offset ≥ b.buf.size
  · rw [if_pos hge]
    refine ⟨b, none, rfl, ?_, ⟨rfl, rfl⟩, hr, by simp; omega⟩
    simp only [Fifo.readBits, image_fifoOf b h, hcur]
    rw [if_pos (readBit_ge b hge).2]
  · rw [if_neg hge]
    obtain ⟨l1, l2, l3, l4⟩ := readBitsLoop_spec n b hr 0 0 (by decide) (by omega)
    refine ⟨(readBitsLoop b 0 n).1, some (readBitsLoop b 0 n).2, by simp, ?_, l1, l2, by simp; omega⟩
    simp only [Fifo.readBits, image_fifoOf b h, hcur]
    rw [if_neg (by rw [length_unpack, Array.length_toList]; omega), fifoOf_eq l1 _ l3, l4]
    simp [fifoOf]

/-- a multi-bit read that starts before the end and runs past it: the remaining bits, zero-extended
to `n` bits; the cursor stops at the end of the last byte -/
theorem readBits_past_end (b : Buffer) (hr : b.read < 8) (n : Nat) (hn : n ≤ 64)
    (hstart : b.offset < b.buf.size) (hpast : 8 * b.buf.size < 8 * b.offset + b.read + n) :
    ∃ b', readBits b (n : Int) = .ok (b', some
        (toNat ((unpack b.buf.toList).drop (8 * b.offset + b.read)) *
          2 ^ (n - (8 * b.buf.size - (8 * b.offset + b.read))))) ∧
      b'.offset = b.buf.size ∧ b'.read = 0 ∧ SameData b b' := by
  unfold readBits
  rw [if_neg (by omega), if_neg (by omega)]
  obtain ⟨l1, l2, l3, l4⟩ := readBitsLoop_spec n b hr 0 0 (by decide) (by omega)
  have hlen : ((unpack b.buf.toList).drop (8 * b.offset + b.read)).length =
      8 * b.buf.size - (8 * b.offset + b.read) := by
    rw [List.length_drop, length_unpack, Array.length_toList]
  have htake : ((unpack b.buf.toList).drop (8 * b.offset + b.read)).take n =
      (unpack b.buf.toList).drop (8 * b.offset + b.read) :=
    List.take_of_length_le (by omega)
  rw [htake, hlen] at l3 l4
  refine ⟨(readBitsLoop b 0 n).1, ?_, by omega, by omega, l1⟩
  simp [l4]

theorem readBits_panics_iff (b : Buffer) (n : Int) : (readBits b n).isPanic = true ↔ n > 64 := by
  unfold readBits
  by_cases h1 : n > 64
  · simp [h1, Out.isPanic]
  · rw [if_neg h1]
    split <;> simp [Out.isPanic, h1]

end QRV.Lemmas.Bits
