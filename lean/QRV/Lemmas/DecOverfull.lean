import QRV.Lemmas.DecSeg
/-
C07 (finding D16, exact bound) — the segment loop of the QR decoder over an ARBITRARY byte buffer of `L = 8 * size`
bits: the standard bit length of what it returns is below `L` + (width of the last group read for the last segment).

Method: a counter `N` of the bits the description read so far NEEDS (mode indicator 4, count field, character groups at
their full widths) is compared with the read cursor.  `Inv N g b`: either every group so far was read entirely inside
the data (`N ≤ cur b`), or the buffer is exhausted and `N` exceeds `L` by less than `g`, the width of the last group
read.  A successful `ReadBits(n)` starts strictly inside the data - so the first alternative held before it - and
either advances the cursor by `n` or exhausts the buffer: `Inv (N + n) n` afterwards.  After an exhausting read every
further read answers EOF, which ends the loop (mode indicator) or is an error (count field, character group).
-/
namespace QRV.Lemmas.DecOverfull
open QRV QRV.Model.Bits QRV.Model.Codec QRV.Model.Sym QRV.Model.Utf8 QRV.Spec.Valid QRV.Lemmas.Kanji QRV.Lemmas.Dec
  QRV.Spec.Bits QRV.Lemmas.Bits

theorem bind_eq_ok {α β} {x : Out α} {f : α → Out β} {b : β} (h : (x >>= f) = .ok b) :
    ∃ a, x = .ok a ∧ f a = .ok b := by
  cases x with
  | ok a => exact ⟨a, rfl, h⟩
  | err m => cases h
  | panic m => cases h

/-- `N` bits needed so far, last group read of width `g`: all inside the data, or the buffer is exhausted and the
excess is below `g` -/
def Inv (N g : Nat) (b : Buffer) : Prop :=
  b.read < 8 ∧ cur b ≤ 8 * b.buf.size ∧ (N ≤ cur b ∨ (cur b = 8 * b.buf.size ∧ N < 8 * b.buf.size + g))

theorem Inv.cast {N g N' g' : Nat} {b : Buffer} (h : Inv N g b) (hN : N = N') (hg : g = g') : Inv N' g' b := by
  subst hN; subst hg; exact h

/-- a `ReadBits(n)` that returns a value started strictly before the end, and advances by `n` or to the end -/
theorem readBits_some (b : Buffer) (hr : b.read < 8) (n : Nat) (hn : n ≤ 64) (b' : Buffer) (v : Nat)
    (e : readBits b (n : Int) = .ok (b', some v)) :
    b'.buf = b.buf ∧ b'.read < 8 ∧ cur b < 8 * b.buf.size ∧ cur b' = cur b + min n (8 * b.buf.size - cur b) := by
  unfold readBits at e
  rw [if_neg (by omega)] at e
  by_cases hge : b.offset ≥ b.buf.size
  · rw [if_pos hge] at e; cases e
  · rw [if_neg hge] at e
    obtain ⟨l1, l2, l3, -⟩ := readBitsLoop_spec n b hr 0 0 (by decide) (by omega)
    simp only [Int.toNat_natCast, Out.ok.injEq, Prod.mk.injEq, Option.some.injEq] at e
    obtain ⟨rfl, -⟩ := e
    refine ⟨l1.1, l2, ?_, ?_⟩
    · unfold cur; omega
    · unfold cur
      rw [l3, List.length_take, List.length_drop, length_unpack, Array.length_toList]

/-- a `ReadBits(n)` that returns a value, in terms of the invariant -/
theorem readBits_step (N g n : Nat) (hn : n ≤ 64) (b b' : Buffer) (v : Nat) (hI : Inv N g b)
    (e : readBits b (n : Int) = .ok (b', some v)) :
    Inv (N + n) n b' ∧ b'.buf = b.buf ∧ N ≤ cur b ∧ cur b ≤ cur b' ∧ cur b < 8 * b.buf.size := by
  obtain ⟨h1, h2, h3, h4⟩ := readBits_some b hI.1 n hn b' v e
  obtain ⟨-, hle, hor⟩ := hI
  unfold Inv
  rw [h1]
  refine ⟨⟨h2, by omega, ?_⟩, rfl, by omega, by omega, h3⟩
  by_cases hc : n ≤ 8 * b.buf.size - cur b
  · left; omega
  · right; omega

/-- a `ReadBits` that answers EOF leaves the buffer alone -/
theorem readBits_none (b : Buffer) (n : Nat) (b' : Buffer) (e : readBits b (n : Int) = .ok (b', none)) : b' = b := by
  unfold readBits at e
  split at e
  · cases e
  · split at e
    · simp only [Out.ok.injEq, Prod.mk.injEq] at e; exact e.1.symm
    · simp only [Out.ok.injEq, Prod.mk.injEq] at e; cases e.2

/-- one read of the decoders -/
theorem rd_step (N g n : Nat) (hn : n ≤ 64) (b b' : Buffer) (v : Nat) (hI : Inv N g b)
    (e : rd b n = .ok (b', v)) :
    Inv (N + n) n b' ∧ b'.buf = b.buf ∧ N ≤ cur b ∧ cur b ≤ cur b' := by
  unfold rd at e
  obtain ⟨⟨b1, r⟩, e1, e2⟩ := bind_eq_ok e
  cases r with
  | none => cases e2
  | some v1 =>
    simp only [pure, Out.ok.injEq, Prod.mk.injEq] at e2
    obtain ⟨rfl, rfl⟩ := e2
    obtain ⟨h1, h2, h3, h4, -⟩ := readBits_step N g n hn b b1 v1 hI e1
    exact ⟨h1, h2, h3, h4⟩

/-- width of the last character group of `n > 0` characters of kind `k` -/
def lastG (k n : Nat) : Nat :=
  match k with
  | 0 => if n % 3 = 1 then 4 else if n % 3 = 2 then 7 else 10
  | 1 => if n % 2 = 0 then 11 else 6
  | 2 => 8
  | _ => 13

theorem numeric_go (n : Nat) : ∀ (b : Buffer) (acc : Array Nat) (N g : Nat) (b' : Buffer) (data : List Nat),
    Inv N g b → decodeNumeric.go b acc n = .ok (b', data) →
    Inv (N + bodyBits 0 n) (if n = 0 then g else lastG 0 n) b' ∧ b'.buf = b.buf := by
  induction n using Nat.strongRecOn with
  | _ n ih =>
    intro b acc N g b' data hI e
    match n with
    | 0 =>
      rw [decodeNumeric.go] at e
      simp only [Out.ok.injEq, Prod.mk.injEq] at e
      obtain ⟨rfl, -⟩ := e
      exact ⟨hI.cast (by simp [bodyBits]) (by simp), rfl⟩
    | 1 =>
      rw [decodeNumeric.go] at e
      obtain ⟨⟨b1, v⟩, e1, e2⟩ := bind_eq_ok e
      obtain ⟨h1, h2, -, -⟩ := rd_step N g 4 (by decide) b b1 v hI e1
      dsimp only at e2
      split at e2
      · cases e2
      · simp only [pure, Out.ok.injEq, Prod.mk.injEq] at e2
        obtain ⟨rfl, -⟩ := e2
        exact ⟨h1.cast (by simp [bodyBits]) (by simp [lastG]), h2⟩
    | 2 =>
      rw [decodeNumeric.go] at e
      obtain ⟨⟨b1, v⟩, e1, e2⟩ := bind_eq_ok e
      obtain ⟨h1, h2, -, -⟩ := rd_step N g 7 (by decide) b b1 v hI e1
      dsimp only at e2
      split at e2
      · cases e2
      · simp only [pure, Out.ok.injEq, Prod.mk.injEq] at e2
        obtain ⟨rfl, -⟩ := e2
        exact ⟨h1.cast (by simp [bodyBits]) (by simp [lastG]), h2⟩
    | m + 3 =>
      rw [decodeNumeric.go] at e
      obtain ⟨⟨b1, v⟩, e1, e2⟩ := bind_eq_ok e
      obtain ⟨h1, h2, -, -⟩ := rd_step N g 10 (by decide) b b1 v hI e1
      dsimp only at e2
      split at e2
      · cases e2
      · obtain ⟨h3, h4⟩ := ih m (by omega) b1 _ _ _ b' data h1 e2
        refine ⟨h3.cast ?_ ?_, h4.trans h2⟩
        · simp only [bodyBits]
          have e3 : (m + 3) / 3 = m / 3 + 1 := by omega
          have e4 : (m + 3) % 3 = m % 3 := by omega
          rw [e3, e4]; omega
        · have e4 : (m + 3) % 3 = m % 3 := by omega
          simp only [lastG, e4]
          by_cases hm : m = 0
          · subst hm; simp
          · simp [hm]

theorem alnum_go (n : Nat) : ∀ (b : Buffer) (acc : Array Nat) (N g : Nat) (b' : Buffer) (data : List Nat),
    Inv N g b → decodeAlphanumeric.go b acc n = .ok (b', data) →
    Inv (N + bodyBits 1 n) (if n = 0 then g else lastG 1 n) b' ∧ b'.buf = b.buf := by
  induction n using Nat.strongRecOn with
  | _ n ih =>
    intro b acc N g b' data hI e
    match n with
    | 0 =>
      rw [decodeAlphanumeric.go] at e
      simp only [Out.ok.injEq, Prod.mk.injEq] at e
      obtain ⟨rfl, -⟩ := e
      exact ⟨hI.cast (by simp [bodyBits]) (by simp), rfl⟩
    | 1 =>
      rw [decodeAlphanumeric.go] at e
      obtain ⟨⟨b1, v⟩, e1, e2⟩ := bind_eq_ok e
      obtain ⟨h1, h2, -, -⟩ := rd_step N g 6 (by decide) b b1 v hI e1
      dsimp only at e2
      split at e2
      · cases e2
      · simp only [pure, Out.ok.injEq, Prod.mk.injEq] at e2
        obtain ⟨rfl, -⟩ := e2
        exact ⟨h1.cast (by simp [bodyBits]) (by simp [lastG]), h2⟩
    | m + 2 =>
      rw [decodeAlphanumeric.go] at e
      obtain ⟨⟨b1, v⟩, e1, e2⟩ := bind_eq_ok e
      obtain ⟨h1, h2, -, -⟩ := rd_step N g 11 (by decide) b b1 v hI e1
      dsimp only at e2
      split at e2
      · cases e2
      · obtain ⟨h3, h4⟩ := ih m (by omega) b1 _ _ _ b' data h1 e2
        refine ⟨h3.cast ?_ ?_, h4.trans h2⟩
        · simp only [bodyBits]
          have e3 : (m + 2) / 2 = m / 2 + 1 := by omega
          have e4 : (m + 2) % 2 = m % 2 := by omega
          rw [e3, e4]; omega
        · have e4 : (m + 2) % 2 = m % 2 := by omega
          simp only [lastG, e4]
          by_cases hm : m = 0
          · subst hm; simp
          · simp [hm]

theorem bytes_go (n : Nat) : ∀ (b : Buffer) (acc : Array Nat) (N g : Nat) (b' : Buffer) (data : List Nat),
    Inv N g b → decodeBytes.go b acc n = .ok (b', data) →
    Inv (N + bodyBits 2 n) (if n = 0 then g else lastG 2 n) b' ∧ b'.buf = b.buf := by
  induction n with
  | zero =>
    intro b acc N g b' data hI e
    rw [decodeBytes.go] at e
    simp only [Out.ok.injEq, Prod.mk.injEq] at e
    obtain ⟨rfl, -⟩ := e
    exact ⟨hI.cast (by simp [bodyBits]) (by simp), rfl⟩
  | succ m ih =>
    intro b acc N g b' data hI e
    rw [decodeBytes.go] at e
    obtain ⟨⟨b1, v⟩, e1, e2⟩ := bind_eq_ok e
    obtain ⟨h1, h2, -, -⟩ := rd_step N g 8 (by decide) b b1 v hI e1
    dsimp only at e2
    obtain ⟨h3, h4⟩ := ih b1 _ _ _ b' data h1 e2
    refine ⟨h3.cast ?_ ?_, h4.trans h2⟩
    · simp only [bodyBits]; omega
    · simp only [lastG]
      by_cases hm : m = 0
      · subst hm; simp
      · simp [hm]

theorem kanji_go (n : Nat) : ∀ (b : Buffer) (acc : Array Nat) (N g : Nat) (b' : Buffer) (data : List Nat),
    Inv N g b → decodeKanji.go b acc n = .ok (b', data) →
    Inv (N + bodyBits 3 n) (if n = 0 then g else lastG 3 n) b' ∧ b'.buf = b.buf := by
  induction n with
  | zero =>
    intro b acc N g b' data hI e
    rw [decodeKanji.go] at e
    simp only [Out.ok.injEq, Prod.mk.injEq] at e
    obtain ⟨rfl, -⟩ := e
    exact ⟨hI.cast (by simp [bodyBits]) (by simp), rfl⟩
  | succ m ih =>
    intro b acc N g b' data hI e
    rw [decodeKanji.go] at e
    obtain ⟨⟨b1, v⟩, e1, e2⟩ := bind_eq_ok e
    obtain ⟨h1, h2, -, -⟩ := rd_step N g 13 (by decide) b b1 v hI e1
    dsimp only at e2
    split at e2
    · cases e2
    · split at e2
      · cases e2
      · obtain ⟨h3, h4⟩ := ih b1 _ _ _ b' data h1 e2
        refine ⟨h3.cast ?_ ?_, h4.trans h2⟩
        · simp only [bodyBits]; omega
        · simp only [lastG]
          by_cases hm : m = 0
          · subst hm; simp
          · simp [hm]

end QRV.Lemmas.DecOverfull
