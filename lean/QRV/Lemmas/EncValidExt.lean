import QRV.Lemmas.EncValid
import QRV.Lemmas.EncFields
/-
C08 helpers for Micro QR and rMQR: whatever `Model.Micro.encodeToBitmap` / `Model.RMQR.encodeToBitmap`
does not answer with an error is a valid description (`Spec.Valid.Micro.Valid`, `Spec.Valid.RMQR.Valid`).
The per-mode encoders are shared with QR (`Lemmas/EncValid.lean`, `Lemmas/RTStream.lean`); new here are
the headers, the legal (version, level) pairs of Micro QR and the capacities.
-/
namespace QRV.Lemmas.EncExt
open QRV QRV.Model QRV.Model.Bits QRV.Model.Sym QRV.Model.Codec QRV.Spec.Bits QRV.Spec.Codec
open QRV.Spec.Valid QRV.Spec.Tables QRV.Lemmas.RT QRV.Lemmas.Kanji QRV.Lemmas.Enc QRV.Props QRV.Lemmas.Bits

/-! ### shared by the two packages -/

/-- the QR mode indicator of a kind (only used to reach the QR lemmas about the shared encoders) -/
def kindMode (k : Nat) : Nat :=
  match k with
  | 0 => 1
  | 1 => 2
  | 2 => 4
  | _ => 8

theorem kindOf_kindMode (k : Nat) (hk : k < 4) : QR.kindOf (kindMode k) = some k := by
  obtain rfl | rfl | rfl | rfl : k = 0 ∨ k = 1 ∨ k = 2 ∨ k = 3 := by omega
  all_goals rfl

/-- the per-mode encoder of kind `k` -/
def bodyEnc (k : Nat) (b : Buffer) (data : List Nat) : Out Buffer :=
  if kindMode k = Model.QR.modeNumeric then encodeNumeric b data
  else if kindMode k = Model.QR.modeAlphanumeric then encodeAlphanumeric b data
  else if kindMode k = Model.QR.modeBytes then encodeBytes b data
  else encodeKanji b data

/-- the per-mode encoder: an error, or the data are valid for the mode and the bits written are as
many as the standard says -/
theorem bodyEnc_cases (k : Nat) (hk : k < 4) (data : List Nat) (hbytes : ∀ x ∈ data, x < 256)
    (b : Buffer) (h : C16.Inv b) :
    (∃ msg, bodyEnc k b data = .err msg) ∨
    (ValidData k data ∧ ∃ b', bodyEnc k b data = .ok b' ∧ C16.Inv b' ∧
      b'.len = b.len + bodyBits k (count k data)) := by
  have hkm := kindOf_kindMode k hk
  rcases encodeBody_cases hkm data hbytes b h with he | hd
  · exact Or.inl he
  · right
    obtain ⟨b', e', i', a', -, -⟩ := encodeBody_layout hkm data hd b h
    refine ⟨hd, b', e', i', ?_⟩
    rw [C16.len_eq b' i', a', List.length_append, bodyStream_length hkm, ← C16.len_eq b h]

/-- header (mode indicator of `mn` bits, character count of `cn` bits) and data of one segment -/
theorem headerBody_cases (k : Nat) (hk : k < 4) (data : List Nat) (hbytes : ∀ x ∈ data, x < 256)
    (b : Buffer) (h : C16.Inv b) (mv mn cv cn : Nat) (hmn : mn ≤ 64) (hcn : cn ≤ 64) :
    (∃ msg, (writeBitsLSB b mv (mn : Int) >>= fun b₁ => writeBitsLSB b₁ cv (cn : Int) >>= fun b₂ =>
        bodyEnc k b₂ data) = .err msg) ∨
    (ValidData k data ∧ ∃ b', (writeBitsLSB b mv (mn : Int) >>= fun b₁ => writeBitsLSB b₁ cv (cn : Int) >>= fun b₂ =>
        bodyEnc k b₂ data) = .ok b' ∧ C16.Inv b' ∧ b'.len = b.len + (mn + cn + bodyBits k (count k data))) := by
  obtain ⟨b₁, e₁, i₁, a₁, -, -⟩ := writeBits_int b h mv mn hmn
  obtain ⟨b₂, e₂, i₂, a₂, -, -⟩ := writeBits_int b₁ i₁ cv cn hcn
  have hl₂ : b₂.len = b.len + (mn + cn) := by
    rw [C16.len_eq b₂ i₂, a₂, a₁, List.length_append, List.length_append, length_bitsMSB, length_bitsMSB,
      ← C16.len_eq b h, Nat.add_assoc]
  rw [e₁]
  simp only [Out.bind_ok]
  rw [e₂]
  simp only [Out.bind_ok]
  rcases bodyEnc_cases k hk data hbytes b₂ i₂ with he | ⟨hd, b', e', i', l'⟩
  · exact Or.inl he
  · exact Or.inr ⟨hd, b', e', i', by rw [l', hl₂]; omega⟩

/-- the segment loop of an encoder whose segment step `f` either errs or accepts a segment
satisfying `P` and writes `w` bits: an error, or every segment satisfies `P` and the length adds up -/
theorem segsLoop_cases (f : Segment → Buffer → Out Buffer) (P : Segment → Prop) (w : Segment → Nat)
    (hf : ∀ s b, (∀ x ∈ s.data, x < 256) → C16.Inv b →
      (∃ msg, f s b = .err msg) ∨ (P s ∧ ∃ b', f s b = .ok b' ∧ C16.Inv b' ∧ b'.len = b.len + w s))
    (segs : List Segment) (hbytes : ∀ s ∈ segs, ∀ x ∈ s.data, x < 256) : ∀ (b : Buffer), C16.Inv b →
    (∃ msg, forIn segs b (fun s (acc : Buffer) => do
          let buf ← f s acc
          pure (ForInStep.yield buf)) = .err msg) ∨
    ((∀ s ∈ segs, P s) ∧ ∃ b', forIn segs b (fun s (acc : Buffer) => do
          let buf ← f s acc
          pure (ForInStep.yield buf)) = .ok b' ∧ C16.Inv b' ∧ b'.len = b.len + (segs.map w).sum) := by
  induction segs with
  | nil => intro b h; exact Or.inr ⟨fun s hs => (by cases hs), b, rfl, h, rfl⟩
  | cons s l ih =>
    intro b h
    rcases hf s b (hbytes s (List.mem_cons_self ..)) h with ⟨msg, he⟩ | ⟨hs, b₁, e₁, i₁, l₁⟩
    · left
      refine ⟨msg, ?_⟩
      rw [List.forIn_cons, he]
      rfl
    · rcases ih (fun x hx => hbytes x (List.mem_cons_of_mem _ hx)) b₁ i₁ with ⟨msg, he⟩ | ⟨hl, b₂, e₂, i₂, l₂⟩
      · left
        refine ⟨msg, ?_⟩
        rw [List.forIn_cons, e₁]
        exact he
      · right
        refine ⟨?_, b₂, ?_, i₂, ?_⟩
        · intro x hx
          rcases List.mem_cons.mp hx with rfl | hx'
          · exact hs
          · exact hl x hx'
        · rw [List.forIn_cons, e₁]
          exact e₂
        · rw [l₂, l₁, List.map_cons, List.sum_cons, Nat.add_assoc]

/-- `capAt` on natural indices is the plain double lookup -/
theorem capAt_nat (tbl : List (List Gen.GCap)) (v l : Nat) (c : Gen.GCap)
    (h : (tbl[v]?.getD [])[l]? = some c) : capAt tbl (v : Int) (l : Int) = .ok c := by
  unfold capAt
  rw [if_neg (by omega)]
  simp only [Int.toNat_natCast]
  cases hrow : tbl[v]? with
  | none => rw [hrow] at h; simp at h
  | some row =>
    rw [hrow] at h
    simp only [Option.getD_some] at h
    simp only [h]

/-! ### Micro QR -/

/-- validity of one segment, as in `Micro.Valid.segments` -/
def MSegOK (v : Nat) (s : Segment) : Prop :=
  ∃ k cb, Spec.Valid.Micro.kindOf s.mode = some k ∧ Spec.Valid.Micro.countBits k v = some cb ∧ ValidData k s.data ∧
    count k s.data < 2 ^ cb

/-- the model's count-indicator width is the standard's -/
theorem micro_countBits_eq (m n : Nat) (hm : m < 4) (h1 : 1 ≤ n) (h4 : n ≤ 4) :
    Model.Micro.countBits m (n : Int) = Spec.Valid.Micro.countBits m n := by
  obtain rfl | rfl | rfl | rfl : n = 1 ∨ n = 2 ∨ n = 3 ∨ n = 4 := by omega
  all_goals
    obtain rfl | rfl | rfl | rfl : m = 0 ∨ m = 1 ∨ m = 2 ∨ m = 3 := by omega
    all_goals rfl

theorem micro_countBits_le (m n cb : Nat) (hm : m < 4) (h1 : 1 ≤ n) (h4 : n ≤ 4)
    (h : Spec.Valid.Micro.countBits m n = some cb) : cb ≤ 6 := by
  obtain rfl | rfl | rfl | rfl : n = 1 ∨ n = 2 ∨ n = 3 ∨ n = 4 := by omega
  all_goals
    obtain rfl | rfl | rfl | rfl : m = 0 ∨ m = 1 ∨ m = 2 ∨ m = 3 := by omega
    all_goals
      simp only [Spec.Valid.Micro.countBits] at h
      first
        | (cases h; done)
        | (cases h; omega)

theorem micro_modeBits_eq (n : Nat) (h1 : 1 ≤ n) (h4 : n ≤ 4) :
    Model.Micro.modeBits (n : Int) = Spec.Valid.Micro.modeBits n := by
  obtain rfl | rfl | rfl | rfl : n = 1 ∨ n = 2 ∨ n = 3 ∨ n = 4 := by omega
  all_goals rfl

theorem micro_body_eq (m : Nat) (hm : m < 4) (b : Buffer) (data : List Nat) :
    (if m = Model.Micro.modeNumeric then encodeNumeric b data
      else if m = Model.Micro.modeAlphanumeric then encodeAlphanumeric b data
      else if m = Model.Micro.modeBytes then encodeBytes b data
      else encodeKanji b data) = bodyEnc m b data := by
  obtain rfl | rfl | rfl | rfl : m = 0 ∨ m = 1 ∨ m = 2 ∨ m = 3 := by omega
  all_goals rfl

/-- one segment: an error, or the segment is valid for the version and takes the standard's number of bits -/
theorem micro_segEncode_cases (n : Nat) (h1 : 1 ≤ n) (h4 : n ≤ 4) (s : Segment) (b : Buffer)
    (hbytes : ∀ x ∈ s.data, x < 256) (h : C16.Inv b) :
    (∃ msg, Model.Micro.segEncode s (n : Int) b = .err msg) ∨
    (MSegOK n s ∧ ∃ b', Model.Micro.segEncode s (n : Int) b = .ok b' ∧ C16.Inv b' ∧
      b'.len = b.len + Micro.segBits s n) := by
  unfold Model.Micro.segEncode
  by_cases hmode : s.mode = Model.Micro.modeNumeric ∨ s.mode = Model.Micro.modeAlphanumeric ∨
      s.mode = Model.Micro.modeBytes ∨ s.mode = Model.Micro.modeKanji
  case neg => rw [if_neg hmode]; exact Or.inl ⟨_, rfl⟩
  rw [if_pos hmode]
  have hm : s.mode < 4 := by
    unfold Model.Micro.modeNumeric Model.Micro.modeAlphanumeric Model.Micro.modeBytes Model.Micro.modeKanji at hmode
    omega
  have hk : Micro.kindOf s.mode = some s.mode := by unfold Micro.kindOf; rw [if_pos hm]
  rw [micro_countBits_eq s.mode n hm h1 h4]
  cases hcb : Spec.Valid.Micro.countBits s.mode n with
  | none => exact Or.inl ⟨_, rfl⟩
  | some cb =>
    have hcb6 := micro_countBits_le s.mode n cb hm h1 h4 hcb
    have hcount : (if s.mode = Model.Micro.modeKanji then Utf8.runeCount s.data else s.data.length) =
        count s.mode s.data := rfl
    simp only [hcount]
    by_cases hc : count s.mode s.data ≥ 2 ^ cb
    · rw [if_pos hc]; exact Or.inl ⟨_, rfl⟩
    · rw [if_neg hc]
      have hmb : (if Model.Micro.modeBits (n : Int) > 0 then
            writeBitsLSB b s.mode ((Model.Micro.modeBits (n : Int) : Nat) : Int) else pure b) =
          writeBitsLSB b s.mode ((Model.Micro.modeBits (n : Int) : Nat) : Int) := by
        by_cases h0 : Model.Micro.modeBits (n : Int) > 0
        · rw [if_pos h0]
        · rw [if_neg h0]
          have : Model.Micro.modeBits (n : Int) = 0 := by omega
          rw [this]
          rfl
      rw [hmb]
      simp only [micro_body_eq s.mode hm]
      have hsb : Micro.segBits s n =
          Model.Micro.modeBits (n : Int) + cb + bodyBits s.mode (count s.mode s.data) := by
        unfold Micro.segBits
        rw [hk]
        simp only [hcb, micro_modeBits_eq n h1 h4]
      have hmb64 : Model.Micro.modeBits (n : Int) ≤ 64 := by
        rw [micro_modeBits_eq n h1 h4]; unfold Spec.Valid.Micro.modeBits; omega
      rcases headerBody_cases s.mode hm s.data hbytes b h s.mode (Model.Micro.modeBits (n : Int))
          (count s.mode s.data) cb hmb64 (by omega) with he | ⟨hd, b', e', i', l'⟩
      · exact Or.inl he
      · exact Or.inr ⟨⟨s.mode, cb, hk, hcb, hd, by omega⟩, b', e', i', by rw [l', hsb]⟩

/-- a (version, level) pair the format table knows is a pair of the standard, and the capacity row
has the standard's number of data bits -/
def microPairOK (v l : Nat) : Bool :=
  match Model.Micro.formatAt (v : Int) (l : Int) with
  | .ok f => decide (f < 0) ||
    (match (Gen.Micro.capacityTable[v]?.getD [])[l]? with
      | some c => Spec.Valid.Micro.dataBits v l == some c.dataBits
      | none => false)
  | _ => false

theorem micro_pairs : (List.range 5).all (fun v => v == 0 || (List.range 4).all (microPairOK v)) = true := by
  decide +kernel

theorem micro_pair_cap (n l : Nat) (h1 : 1 ≤ n) (h4 : n ≤ 4) (hl : l < 4) (f : Int)
    (hf : Model.Micro.formatAt (n : Int) (l : Int) = .ok f) (hf0 : ¬ f < 0) :
    ∃ cap, capAt Gen.Micro.capacityTable (n : Int) (l : Int) = .ok cap ∧
      Spec.Valid.Micro.dataBits n l = some cap.dataBits := by
  have h := forall_lt_of_all micro_pairs n (by omega)
  simp only [Bool.or_eq_true, beq_iff_eq] at h
  have h := forall_lt_of_all (h.resolve_left (by omega)) l hl
  unfold microPairOK at h
  rw [hf] at h
  simp only [Bool.or_eq_true, decide_eq_true_eq] at h
  rcases h with h | h
  · exact absurd h hf0
  · split at h
    · rename_i c hc
      exact ⟨c, capAt_nat _ n l c hc, by simpa using h⟩
    · cases h

/-- `encodeSegments`: an error, or the description is valid -/
theorem micro_encodeSegments_cases (q : QRCode) (hb : ∀ s ∈ q.segments, ∀ x ∈ s.data, x < 256)
    (hv : 1 ≤ q.version ∧ q.version ≤ 4) (hl : 0 ≤ q.level ∧ q.level < 4) (hm : -1 ≤ q.mask ∧ q.mask ≤ 3)
    (f : Int) (hf : Model.Micro.formatAt q.version q.level = .ok f) (hf0 : ¬ f < 0) :
    (∃ msg, Model.Micro.encodeSegments q {} = .err msg) ∨ Micro.Valid q := by
  have ev : q.version = (q.version.toNat : Int) := by omega
  have el : q.level = (q.level.toNat : Int) := by omega
  generalize hn : q.version.toNat = n at *
  generalize hl' : q.level.toNat = l at *
  rw [ev, el] at hf
  obtain ⟨cap, hcap, hdb⟩ := micro_pair_cap n l (by omega) (by omega) (by omega) f hf hf0
  unfold Model.Micro.encodeSegments
  rw [ev, el]
  dsimp only
  rcases segsLoop_cases (fun s b => Model.Micro.segEncode s (n : Int) b) (MSegOK n) (fun s => Micro.segBits s n)
      (fun s b hs hi => micro_segEncode_cases n (by omega) (by omega) s b hs hi)
      q.segments hb {} C16.inv_empty with ⟨msg, he⟩ | ⟨hs, b₁, e₁, i₁, l₁⟩
  · left
    exact ⟨msg, by rw [he]; rfl⟩
  · have hlen₁ : b₁.len = (q.segments.map fun s => Micro.segBits s n).sum := by
      rw [l₁]; show 0 + _ = _; omega
    rw [e₁]
    simp only [Out.bind_ok]
    rw [hcap]
    simp only [Out.bind_ok]
    by_cases hbig : b₁.len > cap.dataBits
    · left
      rw [if_pos hbig]
      exact ⟨_, rfl⟩
    · right
      refine ⟨hv, hl.1, ?_, hm, ?_, ?_⟩
      · rw [hn, hl', hdb]; rfl
      · rw [hn]; exact hs
      · rw [hn, hl', hdb, ← hlen₁]
        show b₁.len ≤ cap.dataBits
        omega

/-- Micro QR: the encoder answers with an error, or the description is valid -/
theorem micro_encode_err_or_valid (q : QRCode) (hb : ∀ s ∈ q.segments, ∀ x ∈ s.data, x < 256) :
    (∃ msg, Model.Micro.encodeToBitmap q = .err msg) ∨ Micro.Valid q := by
  unfold Model.Micro.encodeToBitmap
  by_cases hv : q.version < 1 ∨ q.version > 4
  · simp only [if_pos hv, Out.bind_err]; exact Or.inl ⟨_, rfl⟩
  by_cases hl : q.level < 0 ∨ q.level ≥ 4
  · simp only [if_neg hv, if_pos hl, Out.bind_err]; exact Or.inl ⟨_, rfl⟩
  obtain ⟨v, hv'⟩ := Int.eq_ofNat_of_zero_le (show 0 ≤ q.version by omega)
  obtain ⟨l, hl'⟩ := Int.eq_ofNat_of_zero_le (show 0 ≤ q.level by omega)
  obtain ⟨f, hf⟩ := micro_formatAt_ok v l (by omega) (by omega)
  rw [← hv', ← hl'] at hf
  simp only [if_neg hv, if_neg hl, hf, Out.bind_ok]
  by_cases hf0 : f < 0
  · simp only [if_pos hf0, Out.bind_err]; exact Or.inl ⟨_, rfl⟩
  by_cases hm : q.mask ≠ Gen.Micro.c_maskAuto ∧ (q.mask < 0 ∨ q.mask ≥ Gen.Micro.c_maskMax)
  · simp only [if_neg hf0, if_pos hm, Out.bind_err]; exact Or.inl ⟨_, rfl⟩
  have hm' : -1 ≤ q.mask ∧ q.mask ≤ 3 := by
    unfold Gen.Micro.c_maskAuto Gen.Micro.c_maskMax at hm
    omega
  rcases micro_encodeSegments_cases q hb (by omega) (by omega) hm' f hf hf0 with ⟨msg, he⟩ | hvalid
  · left
    refine ⟨msg, ?_⟩
    simp only [if_neg hf0, if_neg hm, he, Out.bind_err]
  · exact Or.inr hvalid

/-! ### rMQR -/

/-- validity of one segment, as in `RMQR.Valid.segments` -/
def RSegOK (c : Gen.GCap) (s : Segment) : Prop :=
  ∃ k, RMQR.kindOf s.mode = some k ∧ ValidData k s.data ∧ count k s.data < 2 ^ RMQR.countBits k c

/-- every (version, level) has a capacity row, with count-indicator widths that can be written -/
def rmqrRowOK (v l : Nat) : Bool :=
  match RMQR.row v l with
  | some c => c.bitLength.all (· ≤ 64)
  | none => false

theorem rmqr_rows : (List.range 32).all (fun v => (List.range 2).all (rmqrRowOK v)) = true := by
  decide +kernel

theorem rmqr_row_cap (v l : Nat) (hv : v < 32) (hl : l < 2) :
    ∃ cap, RMQR.row v l = some cap ∧ capAt Gen.RMQR.capacityTable (v : Int) (l : Int) = .ok cap ∧
      ∀ k, RMQR.countBits k cap ≤ 64 := by
  have h := forall_lt_of_all₂ rmqr_rows v hv l hl
  unfold rmqrRowOK at h
  split at h
  · rename_i c hc
    refine ⟨c, hc, capAt_nat _ v l c hc, fun k => ?_⟩
    unfold RMQR.countBits
    cases e : c.bitLength[k + 1]? with
    | none => exact Nat.zero_le _
    | some x =>
      have := List.all_eq_true.mp h x (List.mem_of_getElem? e)
      simpa using this
  · cases h

theorem rmqr_body_eq (m : Nat) (h1 : 1 ≤ m) (h4 : m ≤ 4) (b : Buffer) (data : List Nat) :
    (if m = Model.RMQR.modeNumeric then encodeNumeric b data
      else if m = Model.RMQR.modeAlphanumeric then encodeAlphanumeric b data
      else if m = Model.RMQR.modeBytes then encodeBytes b data
      else encodeKanji b data) = bodyEnc (m - 1) b data := by
  obtain rfl | rfl | rfl | rfl : m = 1 ∨ m = 2 ∨ m = 3 ∨ m = 4 := by omega
  all_goals rfl

theorem rmqr_count_eq (m : Nat) (h1 : 1 ≤ m) (h4 : m ≤ 4) (data : List Nat) :
    (if m = Model.RMQR.modeKanji ∧ (!Model.RMQR.KANJI_COUNTS_BYTES) = true then Utf8.runeCount data else data.length) =
      count (m - 1) data ∧
    (if m = Model.RMQR.modeKanji then Utf8.runeCount data else data.length) = count (m - 1) data := by
  obtain rfl | rfl | rfl | rfl : m = 1 ∨ m = 2 ∨ m = 3 ∨ m = 4 := by omega
  all_goals exact ⟨rfl, rfl⟩

/-- one segment: an error, or the segment is valid for the capacity row and takes the standard's number of bits -/
theorem rmqr_segEncode_cases (c : Gen.GCap) (hc : ∀ k, RMQR.countBits k c ≤ 64) (s : Segment) (b : Buffer)
    (hbytes : ∀ x ∈ s.data, x < 256) (h : C16.Inv b) :
    (∃ msg, Model.RMQR.segEncode s c.bitLength b = .err msg) ∨
    (RSegOK c s ∧ ∃ b', Model.RMQR.segEncode s c.bitLength b = .ok b' ∧ C16.Inv b' ∧
      b'.len = b.len + RMQR.segBits s c) := by
  unfold Model.RMQR.segEncode
  by_cases hmode : s.mode = Model.RMQR.modeNumeric ∨ s.mode = Model.RMQR.modeAlphanumeric ∨
      s.mode = Model.RMQR.modeBytes ∨ s.mode = Model.RMQR.modeKanji
  case neg => rw [if_neg hmode]; exact Or.inl ⟨_, rfl⟩
  rw [if_pos hmode]
  have hm : 1 ≤ s.mode ∧ s.mode ≤ 4 := by
    unfold Model.RMQR.modeNumeric Model.RMQR.modeAlphanumeric Model.RMQR.modeBytes Model.RMQR.modeKanji at hmode
    omega
  have hk : RMQR.kindOf s.mode = some (s.mode - 1) := by unfold RMQR.kindOf; rw [if_pos hm]
  have hn : c.bitLength[s.mode]?.getD 0 = RMQR.countBits (s.mode - 1) c := by
    unfold RMQR.countBits
    rw [show s.mode - 1 + 1 = s.mode by omega]
  obtain ⟨hc1, hc2⟩ := rmqr_count_eq s.mode hm.1 hm.2 s.data
  simp only [hn, hc1, hc2]
  by_cases hcnt : count (s.mode - 1) s.data ≥ 2 ^ RMQR.countBits (s.mode - 1) c
  · rw [if_pos hcnt]; exact Or.inl ⟨_, rfl⟩
  · rw [if_neg hcnt]
    simp only [rmqr_body_eq s.mode hm.1 hm.2]
    have hsb : RMQR.segBits s c =
        3 + RMQR.countBits (s.mode - 1) c + bodyBits (s.mode - 1) (count (s.mode - 1) s.data) := by
      unfold RMQR.segBits
      rw [hk]
    rcases headerBody_cases (s.mode - 1) (by omega) s.data hbytes b h s.mode 3
        (count (s.mode - 1) s.data) (RMQR.countBits (s.mode - 1) c) (by decide) (hc _) with he | ⟨hd, b', e', i', l'⟩
    · exact Or.inl he
    · exact Or.inr ⟨⟨s.mode - 1, hk, hd, by omega⟩, b', e', i', by rw [l', hsb]⟩

/-- `encodeSegments`: an error, or the description (with the unused mask field cleared) is valid -/
theorem rmqr_encodeSegments_cases (q : QRCode) (hb : ∀ s ∈ q.segments, ∀ x ∈ s.data, x < 256)
    (hv : 0 ≤ q.version ∧ q.version ≤ 31) (hl : 0 ≤ q.level ∧ q.level ≤ 1) :
    (∃ msg, Model.RMQR.encodeSegments q {} = .err msg) ∨ RMQR.Valid { q with mask := 0 } := by
  have ev : (q.version.toNat : Int) = q.version := by omega
  have el : (q.level.toNat : Int) = q.level := by omega
  obtain ⟨cap, hrow, hcap, hc⟩ := rmqr_row_cap q.version.toNat q.level.toNat (by omega) (by omega)
  rw [ev, el] at hcap
  have hcap_unique : ∀ c, RMQR.row q.version.toNat q.level.toNat = some c → c = cap := by
    intro c hc'
    rw [hrow] at hc'
    exact (Option.some.inj hc').symm
  unfold Model.RMQR.encodeSegments
  rw [hcap]
  dsimp only
  simp only [Out.bind_ok]
  rcases segsLoop_cases (fun s b => Model.RMQR.segEncode s cap.bitLength b) (RSegOK cap) (fun s => RMQR.segBits s cap)
      (fun s b hs hi => rmqr_segEncode_cases cap hc s b hs hi)
      q.segments hb {} C16.inv_empty with ⟨msg, he⟩ | ⟨hs, b₁, e₁, i₁, l₁⟩
  · left
    exact ⟨msg, by rw [he]; rfl⟩
  · have hlen₁ : b₁.len = (q.segments.map fun s => RMQR.segBits s cap).sum := by
      rw [l₁]; show 0 + _ = _; omega
    rw [e₁]
    simp only [Out.bind_ok]
    by_cases hbig : b₁.len > cap.data * 8
    · left
      rw [if_pos hbig]
      exact ⟨_, rfl⟩
    · right
      refine ⟨hv, hl, rfl, ?_, ?_⟩
      · intro c hc'
        rw [hcap_unique c hc']
        exact hs
      · intro c hc'
        rw [hcap_unique c hc']
        show (q.segments.map fun s => RMQR.segBits s cap).sum ≤ 8 * cap.data
        omega

/-- rMQR: the encoder answers with an error, or the description is valid -/
theorem rmqr_encode_err_or_valid (q : QRCode) (hb : ∀ s ∈ q.segments, ∀ x ∈ s.data, x < 256) :
    (∃ msg, Model.RMQR.encodeToBitmap q = .err msg) ∨ RMQR.Valid { q with mask := 0 } := by
  unfold Model.RMQR.encodeToBitmap
  by_cases hv : Model.RMQR.versionIsValid q.version = true
  case neg =>
    have hv' : Model.RMQR.versionIsValid q.version = false := by simpa using hv
    simp only [hv', Bool.not_false, if_true, Out.bind_err]; exact Or.inl ⟨_, rfl⟩
  by_cases hl : Model.RMQR.levelIsValid q.level = true
  case neg =>
    have hl' : Model.RMQR.levelIsValid q.level = false := by simpa using hl
    simp only [hv, hl', Bool.not_true, Bool.not_false, Bool.false_eq_true, if_false, if_true, Out.bind_err]
    exact Or.inl ⟨_, rfl⟩
  have hv' : 0 ≤ q.version ∧ q.version ≤ 31 := by
    unfold Model.RMQR.versionIsValid Gen.RMQR.c_minVersion Gen.RMQR.c_maxVersion at hv
    rw [Bool.and_eq_true, decide_eq_true_eq, decide_eq_true_eq] at hv
    omega
  have hl' : 0 ≤ q.level ∧ q.level ≤ 1 := by
    unfold Model.RMQR.levelIsValid Gen.RMQR.c_levelMax at hl
    rw [Bool.and_eq_true, decide_eq_true_eq, decide_eq_true_eq] at hl
    omega
  rcases rmqr_encodeSegments_cases q hb hv' hl' with ⟨msg, he⟩ | hvalid
  · left
    refine ⟨msg, ?_⟩
    unfold Model.RMQR.encodeToBits
    simp only [hv, hl, Bool.not_true, Bool.false_eq_true, if_false, he, Out.bind_err]
  · exact Or.inr hvalid

end QRV.Lemmas.EncExt
