import QRV.Lemmas.SymWalk
import QRV.Lemmas.RRWalk
import QRV.Lemmas.RRTables
import QRV.Spec.SymbolRMQR
/-
The module walk of the rMQR encoder/decoder (`Lemmas.RR.walk`) against the standard's placement
order `Spec.Symbol.RMQR.dataCoords`: a structural proof for an arbitrary function-module predicate
whose first and last rows are function modules (column pairs from the right, alternately upwards and
downwards, rows 1 .. height-2).  The walk stops when it has stepped to column 1 and tests `x < 1` one
module later: it visits the column pairs with right-hand columns width-2, …, 3 and then the single
module of column 1 in the row it arrives in, which is a function module (finder or corner finder).
So the walk is `dataCoords` without its column-1 entries, which form a suffix (finding D18).
-/
namespace QRV.Lemmas.SymRWalk
open QRV QRV.Model.Sym QRV.Lemmas.RR
open QRV.Lemmas.SymWalk (rowCells toI colUp colDown colUp_succ colUp_zero colDown_cons colDown_last sweep zipIdx_sweep)

theorem cells_eq (f : Int → Int → Bool) (g : Nat → Nat → Bool) (W n : Nat)
    (hfg : ∀ x y : Nat, x < W → y < n → f x y = g x y) (r y : Nat) (hr1 : 1 ≤ r) (hr : r < W) (hy : y < n) :
    ((if f (r : Int) (y : Int) = true then [] else [((r : Int), (y : Int))]) ++
      (if f ((r : Int) - 1) (y : Int) = true then [] else [((r : Int) - 1, (y : Int))]) : List (Int × Int)) =
      (rowCells g r y).map toI := by
  have e : ((r : Int) - 1) = ((r - 1 : Nat) : Int) := by omega
  rw [e, hfg r y hr hy, hfg (r - 1) y (by omega) hy]
  unfold rowCells toI
  simp only [List.filter_cons, List.filter_nil]
  cases g r y <;> cases g (r - 1) y <;> simp

/-- a row of function modules contributes nothing -/
theorem rowCells_nil (g : Nat → Nat → Bool) (r y : Nat) (h1 : g r y = true) (h2 : g (r - 1) y = true) :
    rowCells g r y = [] := by
  unfold rowCells
  simp [h1, h2]

/-- upwards in a column pair (right-hand column r >= 3) from row y+1 to row 1, then on to the next pair -/
theorem walk_up (f : Int → Int → Bool) (g : Nat → Nat → Bool) (W n : Nat) (h : Int) (hh : h = (n : Int) - 1)
    (hfg : ∀ x y : Nat, x < W → y < n → f x y = g x y) (r : Nat) (hr3 : 3 ≤ r) (hr : r < W)
    (hrow0 : rowCells g r 0 = []) :
    ∀ (y fuel : Nat) (cs : List (Int × Int)), y + 2 < n →
      walk f h fuel { x := (r : Int), y := ((y + 1 : Nat) : Int), dy := -1 } = some cs →
      ∃ fuel' cs', walk f h fuel' { x := ((r - 2 : Nat) : Int), y := ((1 : Nat) : Int), dy := 1 } = some cs' ∧
        cs = (colUp g r (y + 1)).map toI ++ cs' := by
  intro y
  induction y with
  | zero =>
    intro fuel cs hy hw
    cases fuel with
    | zero => simp [walk] at hw
    | succ fuel =>
      rw [walk] at hw
      simp only [] at hw
      rw [if_neg (by omega)] at hw
      rw [cells_eq f g W n hfg r (0 + 1) (by omega) hr (by omega)] at hw
      rw [if_pos (show ((0 + 1 : Nat) : Int) + -1 < 1 ∨ ((0 + 1 : Nat) : Int) + -1 > h - 1 from Or.inl (by omega))] at hw
      simp only [] at hw
      rw [if_neg (by omega)] at hw
      cases hw' : walk f h fuel { x := (r : Int) - 1 + 1 - 2, y := ((0 + 1 : Nat) : Int) + -1 + - -1, dy := - -1 } with
      | none => rw [hw'] at hw; cases hw
      | some cs1 =>
        rw [hw'] at hw
        injection hw with hw
        refine ⟨fuel, cs1, ?_, ?_⟩
        · rw [← hw']
          congr 1
          simp only [Walk.mk.injEq]
          omega
        · rw [colUp_succ, colUp_zero, hrow0, List.append_nil, ← hw]
  | succ y ih =>
    intro fuel cs hy hw
    cases fuel with
    | zero => simp [walk] at hw
    | succ fuel =>
      rw [walk] at hw
      simp only [] at hw
      rw [if_neg (by omega)] at hw
      rw [cells_eq f g W n hfg r (y + 1 + 1) (by omega) hr (by omega)] at hw
      rw [if_neg (show ¬ (((y + 1 + 1 : Nat) : Int) + -1 < 1 ∨ ((y + 1 + 1 : Nat) : Int) + -1 > h - 1) by omega)] at hw
      simp only [] at hw
      rw [if_neg (show ¬ ((r : Int) - 1 + 1 < 1) by omega)] at hw
      have es : ({ x := (r : Int) - 1 + 1, y := ((y + 1 + 1 : Nat) : Int) + -1, dy := -1 } : Walk) =
          { x := (r : Int), y := ((y + 1 : Nat) : Int), dy := -1 } := by
        simp only [Walk.mk.injEq, and_true]; omega
      rw [es] at hw
      cases hw' : walk f h fuel { x := (r : Int), y := ((y + 1 : Nat) : Int), dy := -1 } with
      | none => rw [hw'] at hw; cases hw
      | some cs1 =>
        rw [hw'] at hw
        injection hw with hw
        obtain ⟨fuel', cs', h1, h3⟩ := ih fuel cs1 (by omega) hw'
        refine ⟨fuel', cs', h1, ?_⟩
        rw [colUp_succ, List.map_append, ← hw, h3, List.append_assoc]

/-- downwards in a column pair from row y to row n-2, then on to the next pair -/
theorem walk_down (f : Int → Int → Bool) (g : Nat → Nat → Bool) (W n : Nat) (h : Int) (hh : h = (n : Int) - 1)
    (hfg : ∀ x y : Nat, x < W → y < n → f x y = g x y) (r : Nat) (hr3 : 3 ≤ r) (hr : r < W)
    (hrowN : rowCells g r (n - 1) = []) :
    ∀ (d y fuel : Nat) (cs : List (Int × Int)), 1 ≤ y → y + d + 2 = n →
      walk f h fuel { x := (r : Int), y := (y : Int), dy := 1 } = some cs →
      ∃ fuel' cs', walk f h fuel' { x := ((r - 2 : Nat) : Int), y := ((n - 2 : Nat) : Int), dy := -1 } = some cs' ∧
        cs = (colDown g r y n).map toI ++ cs' := by
  intro d
  induction d with
  | zero =>
    intro y fuel cs hy1 hy hw
    cases fuel with
    | zero => simp [walk] at hw
    | succ fuel =>
      rw [walk] at hw
      simp only [] at hw
      rw [if_neg (by omega)] at hw
      rw [cells_eq f g W n hfg r y (by omega) hr (by omega)] at hw
      rw [if_pos (show (y : Int) + 1 < 1 ∨ (y : Int) + 1 > h - 1 from Or.inr (by omega))] at hw
      simp only [] at hw
      rw [if_neg (by omega)] at hw
      cases hw' : walk f h fuel { x := (r : Int) - 1 + 1 - 2, y := (y : Int) + 1 + -1, dy := -1 } with
      | none => rw [hw'] at hw; cases hw
      | some cs1 =>
        rw [hw'] at hw
        injection hw with hw
        refine ⟨fuel, cs1, ?_, ?_⟩
        · rw [← hw']
          congr 1
          simp only [Walk.mk.injEq, and_true]
          omega
        · have e : y + 1 = n - 1 := by omega
          rw [colDown_cons g r y n (by omega), colDown_last g r (y + 1) n (by omega), e, hrowN,
            List.append_nil, ← hw]
  | succ d ih =>
    intro y fuel cs hy1 hy hw
    cases fuel with
    | zero => simp [walk] at hw
    | succ fuel =>
      rw [walk] at hw
      simp only [] at hw
      rw [if_neg (by omega)] at hw
      rw [cells_eq f g W n hfg r y (by omega) hr (by omega)] at hw
      rw [if_neg (show ¬ ((y : Int) + 1 < 1 ∨ (y : Int) + 1 > h - 1) by omega)] at hw
      simp only [] at hw
      rw [if_neg (show ¬ ((r : Int) - 1 + 1 < 1) by omega)] at hw
      have es : ({ x := (r : Int) - 1 + 1, y := (y : Int) + 1, dy := 1 } : Walk) =
          { x := (r : Int), y := ((y + 1 : Nat) : Int), dy := 1 } := by
        simp only [Walk.mk.injEq, and_true]; omega
      rw [es] at hw
      cases hw' : walk f h fuel { x := (r : Int), y := ((y + 1 : Nat) : Int), dy := 1 } with
      | none => rw [hw'] at hw; cases hw
      | some cs1 =>
        rw [hw'] at hw
        injection hw with hw
        obtain ⟨fuel', cs', h1, h3⟩ := ih (y + 1) fuel cs1 (by omega) (by omega) hw'
        refine ⟨fuel', cs', h1, ?_⟩
        rw [colDown_cons g r y n (by omega), List.map_append, ← hw, h3, List.append_assoc]

/-- the walk arrives in column 1 on a function module and stops: nothing of column 1 is visited -/
theorem walk_col1 (f : Int → Int → Bool) (h : Int) (fuel : Nat) (y dy : Int) (cs : List (Int × Int))
    (hf : f 1 y = true) (hw : walk f h fuel { x := 1, y := y, dy := dy } = some cs) : cs = [] := by
  cases fuel with
  | zero => simp [walk] at hw
  | succ fuel =>
    rw [walk] at hw
    simp only [] at hw
    rw [if_pos (by omega), hf] at hw
    injection hw with hw
    rw [← hw]
    rfl

/-- start of a column pair: bottom data row upwards or top data row downwards -/
def startOf (n : Nat) (r : Nat) (up : Bool) : Walk :=
  { x := (r : Int), y := ((if up then n - 2 else 1 : Nat) : Int), dy := if up then -1 else 1 }

/-- right-hand columns r, r-2, …, 3 -/
def Chain (W : Nat) : List Nat → Prop
  | [] => False
  | [r] => r = 3 ∧ r < W
  | r :: r' :: rs => 3 ≤ r ∧ r < W ∧ r' = r - 2 ∧ Chain W (r' :: rs)

/-- what the predicate has to satisfy: rows 0 and n-1 are function modules -/
def Framed (g : Nat → Nat → Bool) (n : Nat) : Prop := ∀ x, g x 0 = true ∧ g x (n - 1) = true

theorem colUp_top (g : Nat → Nat → Bool) (n : Nat) (hn : 3 ≤ n) (hg : Framed g n) (r : Nat) :
    colUp g r (n - 1) = colUp g r (n - 2) := by
  have e : n - 1 = (n - 2) + 1 := by omega
  rw [e, colUp_succ, ← e, rowCells_nil g r (n - 1) (hg r).2 (hg (r - 1)).2, List.nil_append]

theorem colDown_top (g : Nat → Nat → Bool) (n : Nat) (hn : 3 ≤ n) (hg : Framed g n) (r : Nat) :
    colDown g r 0 n = colDown g r 1 n := by
  rw [colDown_cons g r 0 n (by omega), rowCells_nil g r 0 (hg r).1 (hg (r - 1)).1, List.nil_append]

theorem walk_col (f : Int → Int → Bool) (g : Nat → Nat → Bool) (W n : Nat) (hn : 3 ≤ n) (h : Int) (hh : h = (n : Int) - 1)
    (hfg : ∀ x y : Nat, x < W → y < n → f x y = g x y) (hg : Framed g n) (r : Nat) (hr3 : 3 ≤ r) (hr : r < W)
    (up : Bool) (fuel : Nat) (cs : List (Int × Int)) (hw : walk f h fuel (startOf n r up) = some cs) :
    ∃ fuel' cs', walk f h fuel' (startOf n (r - 2) (!up)) = some cs' ∧
      cs = (if up then colUp g r (n - 1) else colDown g r 0 n).map toI ++ cs' := by
  cases up with
  | true =>
    have e : n - 2 = (n - 3) + 1 := by omega
    have := walk_up f g W n h hh hfg r hr3 hr (rowCells_nil g r 0 (hg r).1 (hg (r - 1)).1) (n - 3) fuel cs (by omega)
      (by rw [← e]; exact hw)
    rw [← e] at this
    obtain ⟨fuel', cs', h1, h2⟩ := this
    exact ⟨fuel', cs', h1, by rw [if_pos rfl, colUp_top g n hn hg r]; exact h2⟩
  | false =>
    have := walk_down f g W n h hh hfg r hr3 hr (rowCells_nil g r (n - 1) (hg r).2 (hg (r - 1)).2) (n - 3) 1 fuel cs
      (by omega) (by omega) hw
    obtain ⟨fuel', cs', h1, h2⟩ := this
    exact ⟨fuel', cs', h1, by rw [if_neg (by simp), colDown_top g n hn hg r]; exact h2⟩

theorem walk_sweep (f : Int → Int → Bool) (g : Nat → Nat → Bool) (W n : Nat) (hn : 3 ≤ n) (h : Int) (hh : h = (n : Int) - 1)
    (hfg : ∀ x y : Nat, x < W → y < n → f x y = g x y) (hg : Framed g n)
    (hc1 : f 1 1 = true) (hc2 : f 1 ((n - 2 : Nat) : Int) = true) :
    ∀ (rs : List Nat) (r : Nat) (up : Bool) (fuel : Nat) (cs : List (Int × Int)), Chain W (r :: rs) →
      walk f h fuel (startOf n r up) = some cs → cs = (sweep g n (r :: rs) up).map toI := by
  intro rs
  induction rs with
  | nil =>
    intro r up fuel cs hc hw
    obtain ⟨h3, hrW⟩ := hc
    subst h3
    obtain ⟨fuel', cs', hw', hcs⟩ := walk_col f g W n hn h hh hfg hg 3 (by omega) hrW up fuel cs hw
    have : cs' = [] := by
      refine walk_col1 f h fuel' _ _ cs' ?_ hw'
      cases up
      · simpa using hc2
      · simpa using hc1
    rw [hcs, this]
    simp [sweep]
  | cons r' rs ih =>
    intro r up fuel cs hc hw
    obtain ⟨h3, hrW, hnext, hc'⟩ := hc
    subst hnext
    obtain ⟨fuel', cs', hw', hcs⟩ := walk_col f g W n hn h hh hfg hg r h3 hrW up fuel cs hw
    have := ih (r - 2) (!up) fuel' cs' hc' hw'
    rw [hcs, this]
    simp [sweep]

/-! ### the list of right-hand columns -/

/-- 2K+1, 2K-1, …, 3 -/
def rights : Nat → List Nat
  | 0 => []
  | K + 1 => (2 * K + 3) :: rights K

theorem chain_rights (W : Nat) : ∀ K, 2 * K + 3 < W → Chain W (rights (K + 1)) := by
  intro K
  induction K with
  | zero => intro h; exact ⟨rfl, h⟩
  | succ K ih =>
    intro h
    show Chain W ((2 * (K + 1) + 3) :: (2 * K + 3) :: rights K)
    exact ⟨by omega, h, by omega, ih (by omega)⟩

theorem rights_eq (m : Nat) : (List.range m).map (fun i => 2 * m + 1 - 2 - 2 * i) = rights (m - 1) ++ (if m = 0 then [] else [1]) := by
  induction m with
  | zero => rfl
  | succ m ih =>
    rw [List.range_succ_eq_map, List.map_cons, List.map_map]
    have e : (List.range m).map ((fun i => 2 * (m + 1) + 1 - 2 - 2 * i) ∘ Nat.succ) =
        (List.range m).map (fun i => 2 * m + 1 - 2 - 2 * i) := by
      apply List.map_congr_left
      intro i hi
      have := List.mem_range.1 hi
      simp only [Function.comp]
      omega
    rw [e, ih]
    cases m with
    | zero => rfl
    | succ m =>
      simp only [Nat.add_sub_cancel, if_neg (Nat.succ_ne_zero _)]
      show _ :: _ = (2 * m + 3) :: rights m ++ [1]
      rw [List.cons_append]
      congr 1

theorem sweep_append (g : Nat → Nat → Bool) (n : Nat) : ∀ (l1 l2 : List Nat) (up : Bool),
    ∃ up', sweep g n (l1 ++ l2) up = sweep g n l1 up ++ sweep g n l2 up' := by
  intro l1
  induction l1 with
  | nil => intro l2 up; exact ⟨up, rfl⟩
  | cons r l1 ih =>
    intro l2 up
    obtain ⟨up', h⟩ := ih l2 (!up)
    exact ⟨up', by rw [List.cons_append, sweep, sweep, h, List.append_assoc]⟩

theorem mem_rowCells (g : Nat → Nat → Bool) (r y : Nat) (c : Nat × Nat) (hc : c ∈ rowCells g r y) :
    (c.1 = r ∨ c.1 = r - 1) ∧ c.2 = y ∧ g c.1 c.2 = false := by
  unfold rowCells at hc
  rw [List.mem_map] at hc
  obtain ⟨x, hx, rfl⟩ := hc
  rw [List.mem_filter] at hx
  obtain ⟨hx1, hx2⟩ := hx
  simp only [List.mem_cons, List.not_mem_nil, or_false] at hx1
  refine ⟨hx1, rfl, ?_⟩
  simpa using hx2

theorem mem_sweep (g : Nat → Nat → Bool) (n : Nat) : ∀ (l : List Nat) (up : Bool) (c : Nat × Nat),
    c ∈ sweep g n l up → ∃ r ∈ l, (c.1 = r ∨ c.1 = r - 1) ∧ g c.1 c.2 = false := by
  intro l
  induction l with
  | nil => intro up c hc; simp [sweep] at hc
  | cons r l ih =>
    intro up c hc
    rw [sweep, List.mem_append] at hc
    rcases hc with hc | hc
    · have : ∃ y, c ∈ rowCells g r y := by
        cases up
        · simp only [Bool.false_eq_true, if_false, colDown, List.mem_flatMap] at hc
          obtain ⟨y, _, hy⟩ := hc
          exact ⟨y, hy⟩
        · simp only [if_true, colUp, List.mem_flatMap] at hc
          obtain ⟨y, _, hy⟩ := hc
          exact ⟨y, hy⟩
      obtain ⟨y, hy⟩ := this
      obtain ⟨h1, -, h3⟩ := mem_rowCells g r y c hy
      exact ⟨r, by simp, h1, h3⟩
    · obtain ⟨r', hr', h⟩ := ih (!up) c hc
      exact ⟨r', by simp [hr'], h⟩

theorem mem_rights (K r : Nat) (h : r ∈ rights K) : 3 ≤ r := by
  induction K with
  | zero => simp [rights] at h
  | succ K ih =>
    simp only [rights, List.mem_cons] at h
    rcases h with h | h
    · omega
    · exact ih h

end QRV.Lemmas.SymRWalk
