import QRV.Lemmas.DecMicroRead
import QRV.Lemmas.DecMicroSeg
/-
C06/C07 — the Micro QR decoder on an arbitrary well-formed bitmap: format reading, the symbol-number
lookup, the size test (after which the normalised bitmap is a regular image of the decoded version's
size), table lookups, unmasking, the module walk (fuel and length per version by kernel evaluation:
`micro_pairs_ok`), error correction and the segment loop never panic, and what is returned is a
well-formed description.
-/
namespace QRV.Lemmas.Dec
open QRV QRV.Model QRV.Model.Bits QRV.Model.Bitmap QRV.Model.Sym QRV.Props QRV.Props.C18 QRV.Lemmas.BCH QRV.Lemmas.RT

theorem micro_fuel_nat (v : Nat) :
    ((8 + 2 * (v : Int) + 3) * (8 + 2 * (v : Int) + 3)).toNat = (11 + 2 * v) * (11 + 2 * v) := by
  have : (8 + 2 * (v : Int) + 3) = ((11 + 2 * v : Nat) : Int) := by omega
  rw [this, ← Int.natCast_mul, Int.toNat_natCast]

/-- format decoding: no panic; a decoded (version, level) is a pair of the symbol-number table, with
all the table facts of `microPairOK`, and the mask is 0..3 -/
theorem micro_decodeFormat_ok (raw : Nat) :
    ∃ r, Micro.decodeFormat raw = .ok r ∧ (r = none ∨
      ∃ vn ln m : Nat, r = some ((vn : Int), (ln : Int), (m : Int)) ∧ microPairOK vn ln = true ∧ m < 4) := by
  have e := micro_decodeFormat_eq raw
  have inv := scanN_inv (dist Gen.Micro.encodedFormat raw) Gen.Micro.encodedFormat.length
  change ScanInv _ _ (scan Gen.Micro.encodedFormat raw) at inv
  have hidx : (scan Gen.Micro.encodedFormat raw).1 < 32 := by
    have := inv.idx
    rw [micro_format_length] at this
    omega
  generalize scan Gen.Micro.encodedFormat raw = sc at e hidx
  obtain ⟨idx, mn⟩ := sc
  dsimp only at e hidx
  by_cases hsc : mn ≥ 3
  · rw [if_pos hsc] at e; exact ⟨none, e, .inl rfl⟩
  · rw [if_neg hsc] at e
    obtain ⟨v, l, htab, hmatch⟩ := micro_symbol_lookup idx hidx ((idx &&& 3 : Nat) : Int)
    rw [hmatch] at e
    have hpair := List.all_eq_true.mp micro_pairs_ok (v, l) (List.mem_of_getElem? htab)
    simp only [Bool.and_eq_true, decide_eq_true_eq] at hpair
    obtain ⟨⟨hv0, hl0⟩, hpair⟩ := hpair
    obtain ⟨vn, rfl⟩ : ∃ vn : Nat, v = (vn : Int) := ⟨v.toNat, by omega⟩
    obtain ⟨ln, rfl⟩ : ∃ ln : Nat, l = (ln : Int) := ⟨l.toNat, by omega⟩
    rw [Int.toNat_natCast, Int.toNat_natCast] at hpair
    have hm : idx &&& 3 < 4 := by
      rw [show (3 : Nat) = 2 ^ 2 - 1 by decide, Nat.and_two_pow_sub_one_eq_mod]; omega
    exact ⟨_, e, .inr ⟨vn, ln, idx &&& 3, rfl, hpair, hm⟩⟩

/-- the Micro QR decoder on a well-formed bitmap: no panic, and a returned description is
well-formed for the version the bitmap's size stands for -/
theorem micro_decode_sat (img : Image) (hw : WF img) :
    Sat (Micro.decodeBitmapFull img) (fun p =>
      (1 ≤ p.1.version ∧ p.1.version ≤ 4) ∧ 0 ≤ p.1.level ∧
      (Spec.Valid.Micro.dataBits p.1.version.toNat p.1.level.toNat).isSome ∧
      (0 ≤ p.1.mask ∧ p.1.mask ≤ 3) ∧ (∀ s ∈ p.1.segments, MSegOK p.1.version.toNat s) ∧
      img.dx = 9 + 2 * p.1.version ∧ img.dy = img.dx) := by
  unfold Micro.decodeBitmapFull
  -- hide the table scan of `decodeFormat` from the elaborator
  have hfmt := micro_decodeFormat_ok
  generalize Micro.decodeFormat = df at hfmt ⊢
  dsimp only
  have hreg := normalise_regular' img hw
  refine Sat.bind (P := fun _ => True) (Sat.forIn_range _ (fun _ => True) 8 _ trivial ?_) ?_
  · intro i _ s _
    sat_reads (binaryAt_sat _ _ _ hreg)
  · intro raw _
    obtain ⟨r, hr, hcase⟩ := hfmt raw
    rw [hr, Out.bind_ok]
    rcases hcase with rfl | ⟨vn, ln, m, rfl, hpair, hm⟩
    · exact trivial
    · dsimp only
      obtain ⟨⟨hv1, hv4⟩, hused, hru, hbin, hspec, cap, n, hcap, hwalk, hn⟩ := micro_pair_facts vn ln hpair
      -- the size test
      split
      · exact trivial
      · rename_i hc
        have hdx : img.dx = ((9 + 2 * vn : Nat) : Int) := by
          simp only [Image.dx, Image.dy] at hc ⊢; omega
        have hdy : img.dy = ((9 + 2 * vn : Nat) : Int) := by
          simp only [Image.dx, Image.dy] at hc ⊢; omega
        rw [show img.dx.toNat = 9 + 2 * vn by omega, show img.dy.toNat = 9 + 2 * vn by omega] at hreg
        -- tables
        obtain ⟨pat, pw, ph, hpat, hrp, hpw, hph⟩ := micro_mask_image m hm
        rw [hused, hpat]
        simp only [Out.bind_ok, deref]
        -- unmasking
        obtain ⟨bin, hmask, hrb⟩ := C18.mask_ok _ _ pat _ _ pw ph (by omega) (by omega) hreg hru hrp
          (by omega) (by omega)
        rw [hmask, Out.bind_ok, hcap, Out.bind_ok]
        -- the walk
        rw [micro_fuel_nat]
        refine Sat.bind (micro_readLoop_sat _ bin (usedFnM vn) hbin (binaryAt_sat bin _ _ hrb) _ cap.dataBits _ _ 0 n {}
          hwalk C16.inv_empty (Nat.zero_le _)) ?_
        rintro rbuf ⟨hrinv, hrlen⟩
        -- error correction
        have hbytes : C14.Bytes rbuf.buf.toList := hrinv.bytes_lt
        have hlen : cap.data ≤ rbuf.buf.toList.length := by
          rw [C16.bytes_are_packing rbuf hrinv, length_pack, ← C16.len_eq rbuf hrinv]
          omega
        have hnp := C14.dec_no_panic rbuf.buf.toList hbytes cap.correction
        unfold Micro.RS_SYNDROMES
        cases hdec : RS.decode rbuf.buf.toList (cap.correction : Int) with
        | panic e => rw [hdec] at hnp; cases hnp
        | err e => exact trivial
        | ok data =>
          obtain ⟨hdl, hdb, -⟩ := C14.dec_sound _ data hbytes _ hdec
          rw [Out.bind_ok, if_neg (by omega)]
          rw [if_neg (by omega)]
          -- segments
          refine Sat.bind (micro_segmentLoop_sat (vn : Int) (by omega) (by omega) _
            { buf := (data.take cap.data).toArray } #[] (by show (0 : Nat) < 8; decide)
            (by unfold rem cur; simp; omega) (by simp)) ?_
          intro segs hsegs
          refine Sat.pure ⟨⟨by simp; omega, by simp; omega⟩, by simp, by simpa using hspec,
            ⟨by simp, by simp; omega⟩, ?_, ?_, ?_⟩
          · simpa using hsegs
          · simp; omega
          · omega

theorem micro_decodeBitmap_sat (img : Image) (hw : WF img) :
    Sat (Micro.decodeBitmap img) (fun q =>
      (1 ≤ q.version ∧ q.version ≤ 4) ∧ 0 ≤ q.level ∧
      (Spec.Valid.Micro.dataBits q.version.toNat q.level.toNat).isSome ∧
      (0 ≤ q.mask ∧ q.mask ≤ 3) ∧ (∀ s ∈ q.segments, MSegOK q.version.toNat s) ∧
      img.dx = 9 + 2 * q.version ∧ img.dy = img.dx) := by
  unfold Micro.decodeBitmap
  exact Sat.bind (micro_decode_sat img hw) (fun p hp => hp)

end QRV.Lemmas.Dec
