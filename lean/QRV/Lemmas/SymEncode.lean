import QRV.Lemmas.SymFormat
import QRV.Lemmas.C03QRLift
/-
The QR encoder model emits the standard's symbol (`Spec.Symbol.QR.IsSymbol`) of every valid
description: the stages of `encodeToBitmap` (stream, blocks, parity, interleaving, placement, version
and format information, masking), each with its full effect on the pixels, assembled.
-/
open QRV QRV.Model QRV.Model.Bitmap QRV.Model.Sym QRV.Props QRV.Props.C18 QRV.Model.QR QRV.Model.Bits QRV.Spec.Bits QRV.Spec.Valid
open QRV.Lemmas.RT QRV.Spec.Symbol.QR
namespace QRV.Lemmas.SymEncode
open QRV.Lemmas.SymWalk (toI walk_is_dataCoords usedFn_isFunction)

/-! ### list helpers -/

theorem idxOf_le_of_getElem {α : Type} [BEq α] [LawfulBEq α] (a : α) : ∀ (l : List α) (j : Nat) (hj : j < l.length),
    l[j] = a → l.idxOf a ≤ j := by
  intro l
  induction l with
  | nil => intro j hj; simp at hj
  | cons b l ih =>
    intro j hj h
    rw [List.idxOf_cons]
    cases j with
    | zero =>
      simp only [List.getElem_cons_zero] at h
      rw [h]
      simp
    | succ j =>
      simp only [List.getElem_cons_succ] at h
      have := ih j (by simpa using hj) h
      cases (b == a) <;> simp only [cond_true, cond_false] <;> omega

/-! ### the placement, with the modules it leaves alone -/

theorem placement_full (v : Nat) (base used : Image)
    (hrb : Regular base (17 + 4 * v) (17 + 4 * v))
    (hbin : ∀ x y, used.binaryAt x y = .ok (usedFn v x y)) (ibuf : Buffer) (hinv : C16.Inv ibuf)
    (hoff : ibuf.offset = 0) (hread : ibuf.read = 0) (cs : List (Int × Int))
    (hwalk : walk (usedFn v) (16 + 4 * (v : Int)) (fuelOf (16 + 4 * (v : Int))) (start (16 + 4 * (v : Int))) = some cs)
    (hlen : 8 * ibuf.buf.toList.length ≤ cs.length) :
    ∃ img1, placeLoop used (16 + 4 * (v : Int)) ((16 + 4 * (v : Int) + 3) * (16 + 4 * (v : Int) + 3)).toNat
        { x := 16 + 4 * (v : Int), y := 16 + 4 * (v : Int), dy := -1 } ibuf base = .ok img1 ∧
      Regular img1 (17 + 4 * v) (17 + 4 * v) ∧
      (∀ k (hk : k < 8 * ibuf.buf.toList.length),
        px img1 (cs[k]'(by omega)).1.toNat (cs[k]'(by omega)).2.toNat = (unpack ibuf.buf.toList)[k]'(by simpa using hk)) ∧
      (∀ x y : Nat, x < 17 + 4 * v → y < 17 + 4 * v →
        (∀ k (hk : k < 8 * ibuf.buf.toList.length), cs[k]'(by omega) ≠ ((x : Int), (y : Int))) →
        px img1 x y = px base x y) := by
  have hpl := placeLoop_eq used (usedFn v) hbin (16 + 4 * (v : Int)) _ _ cs ibuf base hwalk hinv (by omega)
  unfold fuelOf start at hpl
  have hun : C17.unread ibuf = unpack ibuf.buf.toList := by
    unfold C17.unread C17.cursor; rw [hoff, hread]; simp
  rw [hun] at hpl
  obtain ⟨img1, hplace, hr1, hpx1⟩ := placement_spec v base used hrb hbin ibuf hinv hoff hread cs hwalk hlen
  obtain ⟨img1', he, -, hpx⟩ := writes_spec _ _ (cs.zip (unpack ibuf.buf.toList)) base hrb
  have heq : img1' = img1 := by
    have : Out.ok img1' = Out.ok img1 := by rw [← he, ← hplace, hpl]; rfl
    injection this
  subst heq
  refine ⟨img1', hplace, hr1, hpx1, ?_⟩
  intro x y hx hy hne
  refine (hpx x y hx hy).1 ?_
  intro p hp hpe
  obtain ⟨j, hj, rfl⟩ := List.mem_iff_getElem.mp hp
  rw [List.length_zip, Lemmas.Bits.length_unpack] at hj
  rw [List.getElem_zip] at hpe
  exact hne j (by omega) hpe

/-! ### base pixels -/

theorem base_px (v : Nat) (h1 : 1 ≤ v) (h40 : v ≤ 40) (x y : Nat) (hx : x < 17 + 4 * v) (hy : y < 17 + 4 * v) :
    px (Image.ofGen (baseGen v)) x y = Spec.Patterns.QR.isDark v x y := by
  obtain ⟨b, u, hb, hu, hbr, hur, hX, hY, h0, h0', hs, hub⟩ := C02.qr_function_patterns v h1 h40
  have hbg : baseGen v = b := by unfold baseGen; rw [hb]; rfl
  have hsz : Spec.Patterns.QR.size v = 17 + 4 * v := rfl
  rw [hsz] at hs
  rw [hbg, ofGen_px b x y (by rw [hs]; omega), hbr, hs]
  exact rowBit_packRows (Spec.Patterns.QR.isDark v) (17 + 4 * v) (17 + 4 * v) x y hx hy

/-- a module that is not a function module is light in the function patterns -/
theorem isDark_of_not_function (v x y : Nat) (h : Spec.Patterns.QR.isFunction v x y = false) :
    Spec.Patterns.QR.isDark v x y = false := by
  unfold Spec.Patterns.QR.isFunction at h
  simp only [Bool.or_eq_false_iff, decide_eq_false_iff_not] at h
  obtain ⟨⟨⟨⟨⟨hx6, hy6⟩, hfin⟩, hal⟩, -⟩, -⟩ := h
  unfold Spec.Patterns.QR.isDark
  simp only [hfin, Bool.false_eq_true, if_false]
  cases ha : Spec.Patterns.QR.alignCentreOf v x y with
  | some c => rw [ha] at hal; simp at hal
  | none => simp only [if_neg hy6, if_neg hx6]

/-! ### block shapes -/

theorem shapes_of_cap (v l : Nat) (cap : Gen.GCap)
    (hg : cap.blocks.map (fun b => (b.num, b.total, b.data)) = Spec.Tables.blockGroups v l) :
    sizesOf cap.blocks = blockShapes v l := by
  unfold sizesOf blockShapes
  rw [← hg, List.flatMap_map]

/-- the blocks of a table row have between 2 and 68 correction codewords and at most 255 codewords -/
theorem shape_bounds (v l : Nat) (h1 : 1 ≤ v) (cap : Gen.GCap)
    (hcap : (Gen.QR.capacityTable[v]?.getD [])[l]? = some cap) (p : Nat × Nat) (hp : p ∈ sizesOf cap.blocks) :
    2 ≤ p.2 ∧ p.2 ≤ 68 ∧ p.1 + p.2 ≤ 255 := by
  have hrow := row_ok v l h1 cap hcap
  unfold C03.rowOK at hrow
  rw [List.all_eq_true] at hrow
  unfold sizesOf at hp
  rw [List.mem_flatMap] at hp
  obtain ⟨bc, hbc, hp⟩ := hp
  have := hrow bc hbc
  simp only [Bool.and_eq_true, decide_eq_true_eq] at this
  rw [(List.mem_replicate.1 hp).2]
  simp only
  omega

/-- every valid description encodes to the standard's symbol, for the mask that was asked for or
(automatic masking) for the one that was chosen -/
theorem symbol_core (v l : Nat) (mask : Int) (segments : List Segment)
    (hv : QR.Valid { version := v, level := l, mask := mask, segments := segments }) :
    ∃ (img4 : Image) (m : Nat), Model.QR.encodeToBitmap { version := v, level := l, mask := mask, segments := segments } = .ok img4 ∧
      m < 8 ∧ (0 ≤ mask → (m : Int) = mask) ∧ Regular img4 (17 + 4 * v) (17 + 4 * v) ∧
      IsSymbol { version := v, level := l, mask := mask, segments := segments } m (px img4) := by
  obtain ⟨ebuf, hE, hEinv, hElen, hEabs, hEw, -, -⟩ := stream_layout _ hv
  obtain ⟨himg, hEsz, hEbytes⟩ := stream_bytes ebuf hEinv hEw
  obtain ⟨⟨hv1, hv40⟩, ⟨hl0, hl4⟩, ⟨hm1, hm7⟩, -, -⟩ := hv
  simp only [Int.toNat_natCast] at hv1 hv40 hl0 hl4 hm1 hm7 hElen hEabs
  have h1 : 1 ≤ v := by omega
  have h40 : v ≤ 40 := by omega
  have hl : l < 4 := by omega
  obtain ⟨cap, hcapAt, hcapTbl, hct, hcd, hgroups⟩ := capAt_valid v l h1 h40 hl
  have hEsize : ebuf.buf.size = Spec.Tables.dataCodewords v l := by omega
  obtain ⟨blks, hsplit, -, hmap, hflat, hall⟩ := splitBlocks_ok v l h1 h40 hl cap hcapTbl ebuf.buf.toList
    (by rw [Array.length_toList, hEsize, hcd]) hEbytes
  have hall' : ∀ b ∈ blks, (∀ x ∈ b.1, x < 256) ∧ ∀ x ∈ b.2, x < 256 :=
    fun b hbm => ⟨(hall b hbm).1, (hall b hbm).2.1⟩
  obtain ⟨ibuf, hil, hiInv, hiw, hio, hir, hilv, hisz, -⟩ := deinterleave_interleave v l h1 h40 hl cap hcapTbl blks hmap hall'
  have hbits : encodeToBits { version := v, level := l, mask := mask, segments := segments } {} = .ok ibuf := by
    unfold encodeToBits
    simp only [hE, Out.bind_ok, hcapAt, hsplit, hil]
  obtain ⟨hbase, hused, hrb, hru, hbin⟩ := version_images v h1 h40
  obtain ⟨cs, hwalk, hlen⟩ := walk_version v h1 h40
  have hcs := walk_is_dataCoords v h1 h40 cs hwalk
  have hilen : ibuf.buf.toList.length = cap.total := by rw [Array.length_toList, hisz]
  have hlen' : 8 * ibuf.buf.toList.length ≤ cs.length := by rw [hilen, hct]; exact hlen
  obtain ⟨img1, hplace, hr1, hpx1, hun1⟩ := placement_full v _ _ hrb hbin ibuf hiInv hio hir cs hwalk hlen'
  obtain ⟨img2, hvers, hr2, hpx2f⟩ := SymFormat.versionStep_full v h1 h40 img1 hr1
  obtain ⟨img2', hvers', -, hpx2⟩ := versionStep_spec v h1 h40 img1 hr1
  rw [hvers] at hvers'
  cases hvers'
  obtain ⟨m, hm8, hchoose, hmeq⟩ := chooseMask_spec v l h1 h40 hl mask hm1 hm7 _ img2 hru hr2
  obtain ⟨img3, hfmt, hr3, hpx3f⟩ := SymFormat.formatStep_full v l m h1 h40 hl hm8 img2 hr2
  obtain ⟨c, hc, -⟩ := natAt_format l m hl hm8
  rw [hc, Out.bind_ok] at hfmt
  obtain ⟨img3', h3', -, hpx3, -⟩ := placeFormat_spec v h1 h40 img2 hr2 c
  rw [hfmt] at h3'
  cases h3'
  obtain ⟨pat, hpat, hrp, hpatpx⟩ := mask_image_px m hm8
  obtain ⟨img4, h4, hr4⟩ := mask_ok img3 _ pat _ _ 184 177 (by omega) (by omega) hr3 hru hrp (by omega) (by omega)
  have hfin : finish (l : Int) (16 + 4 * (v : Int)) (Image.ofGen (usedGen v)) img2 (m : Int) = .ok img4 := by
    unfold finish
    simp only [hc, Out.bind_ok, hfmt, hpat, deref, h4]
  refine ⟨img4, m, ?_, hm8, hmeq, hr4, ?_⟩
  · have e1 : versionIsValid (v : Int) = true := by
      unfold versionIsValid Gen.QR.c_versionMin Gen.QR.c_versionMax
      rw [Bool.and_eq_true, decide_eq_true_eq, decide_eq_true_eq]; omega
    have e2 : levelIsValid (l : Int) = true := by
      unfold levelIsValid Gen.QR.c_levelMin Gen.QR.c_levelMax
      rw [Bool.and_eq_true, decide_eq_true_eq, decide_eq_true_eq]; omega
    have e3 : (v : Int) ≠ 0 := by omega
    have e4 : maskIsValid mask = true := by
      unfold maskIsValid Gen.QR.c_maskAuto Gen.QR.c_maskMin Gen.QR.c_maskMax
      rw [Bool.or_eq_true, Bool.and_eq_true, beq_iff_eq, decide_eq_true_eq, decide_eq_true_eq]; omega
    rw [encodeToBitmap_eq _ e1 e2 e3 e4]
    simp only [hbits, Out.bind_ok, hbase, hused, deref, hplace, hvers, hchoose, hfin]
  · -- the symbol
    have hsz : Spec.Patterns.QR.size v = 17 + 4 * v := rfl
    simp only [IsSymbol, Int.toNat_natCast, hsz]
    refine ⟨blks, ?_, hall', ?_, ?_, ?_⟩
    · rw [hmap]; exact shapes_of_cap v l cap hgroups
    · rw [hflat, himg, hEabs]
      unfold stream
      simp only [Int.toNat_natCast]
    · intro b hb i hi
      obtain ⟨hb1, hb2, hpar⟩ := hall b hb
      have hmem : (b.1.length, b.2.length) ∈ sizesOf cap.blocks := by
        rw [← hmap]; exact List.mem_map_of_mem (f := fun b => (b.1.length, b.2.length)) hb
      obtain ⟨h2, h68, -⟩ := shape_bounds v l h1 cap hcapTbl _ hmem
      simp only at h2 h68
      obtain ⟨par, hp, -, -, hz⟩ := C13.parity_is_codeword b.2.length h2 h68 b.1 hb1
      rw [hpar] at hp
      cases hp
      rw [Lemmas.RS.evalS_eq (Lemmas.RS.pow2_lt i) _ (by
        intro x hx
        rcases List.mem_append.1 hx with h | h
        · exact hb1 x h
        · exact hb2 x h)]
      exact hz i hi
    · intro x y hx hy
      have hused_px := used_px v _ hru hbin x y hx hy
      have hfn := usedFn_isFunction v h1 h40 x y hx hy
      have hmask := mask_spec img3 _ pat img4 _ _ 184 177 (by omega) (by omega) hr3 hru hrp (by omega) (by omega) h4
        x y hx hy
      rw [hmask, hused_px, hfn]
      have hrange := (walk_sound (usedFn v) (16 + 4 * (v : Int)) (by omega) _ cs hwalk).2
      cases hF : Spec.Patterns.QR.isFunction v x y with
      | true =>
        simp only [Bool.not_true, Bool.false_and, Bool.bne_false, if_true]
        -- function module: untouched by the placement
        have hb1 : px img1 x y = Spec.Patterns.QR.isDark v x y := by
          rw [hun1 x y hx hy ?_, base_px v h1 h40 x y hx hy]
          intro k hk he
          have := (hrange _ (List.getElem_mem (show k < cs.length by omega))).2.2.2.2
          rw [he] at this
          simp only at this
          rw [hfn, hF] at this
          cases this
        rw [hpx3f x y hx hy, hpx2f x y hx hy, hb1]
        unfold functionModule
        simp only [hsz]
        by_cases hd : x = 8 ∧ y = 17 + 4 * v - 8
        · rw [if_pos hd, if_pos (by simp [hd.1, hd.2])]
        · rw [if_neg hd, if_neg (by simpa using hd)]
          rfl
      | false =>
        simp only [Bool.not_false, Bool.true_and, Bool.false_eq_true, if_false]
        have hu : usedFn v (x : Int) (y : Int) = false := by rw [hfn, hF]
        rw [hpx3 x y hx hy hu, hpx2 x y hx hy hu, hpatpx x y (by omega) (by omega)]
        have hd1 : px img1 x y = (unpack (ilvList blks))[(dataCoords v).idxOf (x, y)]?.getD false := by
          have hclen : cs.length = (dataCoords v).length := by rw [hcs, List.length_map]
          have hcsk : ∀ k (hk : k < cs.length), cs[k] = toI ((dataCoords v)[k]'(by omega)) := by
            intro k hk
            simp only [hcs, List.getElem_map]
          have hul : (unpack (ilvList blks)).length = 8 * ibuf.buf.toList.length := by
            rw [← hilv, Lemmas.Bits.length_unpack]
          by_cases hk : (dataCoords v).idxOf (x, y) < 8 * ibuf.buf.toList.length
          · have hkc : (dataCoords v).idxOf (x, y) < (dataCoords v).length := by omega
            have hget := List.getElem_idxOf hkc
            have h1' := hpx1 _ hk
            have hck := hcsk _ (show (dataCoords v).idxOf (x, y) < cs.length by omega)
            rw [hget] at hck
            simp only [hck, toI, Int.toNat_natCast] at h1'
            rw [h1', List.getElem?_eq_getElem (by omega), Option.getD_some]
            simp only [hilv]
          · rw [List.getElem?_eq_none (by omega), Option.getD_none]
            rw [hun1 x y hx hy ?_, base_px v h1 h40 x y hx hy, isDark_of_not_function v x y hF]
            intro k hk' he
            have hck := hcsk k (by omega)
            rw [he] at hck
            have : (dataCoords v)[k]'(by omega) = (x, y) := (SymFormat.toI_inj (a := (x, y)) hck).symm
            have := idxOf_le_of_getElem (x, y) (dataCoords v) k (by omega) this
            omega
        rw [hd1]

end QRV.Lemmas.SymEncode
