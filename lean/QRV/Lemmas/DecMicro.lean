import QRV.Lemmas.DecQR
/-
C06 — Micro QR: the decoder reads the format information of the normalised bitmap (never a panic
on a well-formed bitmap), and a size that is not the decoded version's is answered with an error.
-/
namespace QRV.Lemmas.Dec
open QRV QRV.Model QRV.Model.Bitmap QRV.Model.Sym QRV.Props QRV.Props.C18 QRV.Lemmas.BCH QRV.Lemmas.RT

/-- the outcome is an error -/
def Fails {α : Type} (x : Out α) : Prop := x.isErr = true

theorem Fails.err {α : Type} {m : String} : Fails (Out.err m : Out α) := rfl

theorem Fails.bind {α β : Type} {x : Out α} {f : α → Out β} {P : α → Prop}
    (hx : Sat x P) (hf : ∀ a, P a → Fails (f a)) : Fails (x >>= f) := by
  cases x with
  | ok a => exact hf a hx
  | err m => rfl
  | panic m => exact hx.elim

theorem Fails.bind_left {α β : Type} {x : Out α} {f : α → Out β} (hx : Fails x) : Fails (x >>= f) := by
  cases x with
  | ok a => cases hx
  | err m => rfl
  | panic m => cases hx

theorem normalise_regular' (img : Image) (hw : WF img) :
    Regular { pix := img.pix, stride := img.stride, maxX := img.dx, maxY := img.dy } img.dx.toNat img.dy.toNat :=
  normalise_regular_of_wf img hw

theorem micro_versions (k : Nat) (v l : Int) (h : Gen.Micro.rawFormatTable[k]? = some (v, l)) :
    v = 1 ∨ v = 2 ∨ v = 3 ∨ v = 4 := by
  have hm := List.mem_of_getElem? h
  rw [micro_symbol_numbers.1] at hm
  simp only [List.mem_cons, Prod.mk.injEq, List.not_mem_nil, or_false] at hm
  omega

theorem micro_wrong_size (img : Image) (hw : WF img)
    (h : ¬ (img.dx = img.dy ∧ (img.dx = 11 ∨ img.dx = 13 ∨ img.dx = 15 ∨ img.dx = 17))) :
    Fails (Micro.decodeBitmap img) := by
  unfold Micro.decodeBitmap
  refine Fails.bind_left ?_
  unfold Micro.decodeBitmapFull
  dsimp only
  have hreg := normalise_regular' img hw
  refine Fails.bind (P := fun _ => True) (Sat.forIn_range _ (fun _ => True) 8 _ trivial ?_) ?_
  · intro i _ s _
    sat_reads (binaryAt_sat _ _ _ hreg)
  · intro raw _
    rw [micro_decodeFormat_eq]
    split
    · exact Fails.err
    · have inv := scanN_inv (dist Gen.Micro.encodedFormat raw) Gen.Micro.encodedFormat.length
      change ScanInv _ _ (scan Gen.Micro.encodedFormat raw) at inv
      have hidx : (scan Gen.Micro.encodedFormat raw).1 < 32 := by
        have := inv.idx
        rw [micro_format_length] at this
        omega
      generalize (scan Gen.Micro.encodedFormat raw).1 = idx at hidx ⊢
      obtain ⟨v, l, htab, hmatch⟩ := micro_symbol_lookup idx hidx ((idx &&& 3 : Nat) : Int)
      rw [hmatch, Out.bind_ok]
      dsimp only
      have hv := micro_versions _ v l htab
      rw [if_pos]
      · exact Fails.err
      · show ¬ _ ∨ ¬ _ 
        simp only [Image.dx, Image.dy] at h ⊢
        omega
end QRV.Lemmas.Dec
