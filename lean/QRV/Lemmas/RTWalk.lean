import QRV.Lemmas.RTDefs
import QRV.Props.C17
/-
The zig-zag module walk of the QR encoder (`Model.QR.placeLoop`) and decoder (`Model.QR.readLoop`)
against the coordinate list `walk` of `RTDefs`.
-/
namespace QRV.Lemmas.RT
open QRV QRV.Model QRV.Model.Bits QRV.Model.Bitmap QRV.Model.Sym QRV.Props

/-! ### one bit read from a buffer, in terms of `C17.unread` -/

theorem readBit_unread_nil (b : Buffer) (hr : b.read < 8) (hu : C17.unread b = []) : readBit b = (b, none) := by
  by_cases hlt : b.offset < b.buf.size
  · exfalso
    have hlen := List.drop_eq_nil_iff.1 hu
    rw [Lemmas.Bits.length_unpack, Array.length_toList] at hlen
    unfold C17.cursor at hlen
    omega
  · exact (Lemmas.Bits.readBit_ge b (by omega)).1

theorem readBit_unread_cons (b : Buffer) (h : C16.Inv b) (hr : b.read < 8) (c : Bool) (rest : List Bool)
    (hu : C17.unread b = c :: rest) :
    ∃ b' bit, readBit b = (b', some bit) ∧ (bit != 0) = c ∧ C16.Inv b' ∧ b'.read < 8 ∧
      C17.unread b' = rest := by
  by_cases hlt : b.offset < b.buf.size
  · obtain ⟨t, b₁, hget, hrd, hsame, hr₁, hc⟩ := Lemmas.Bits.readBit_lt b hr hlt
    have hw := (C16.inv_iff b).1 h
    have hdrop : (Spec.Bits.unpack b.buf.toList).drop (8 * b.offset + b.read) = c :: rest := hu
    have hlt' : 8 * b.offset + b.read < (Spec.Bits.unpack b.buf.toList).length := by
      rcases Nat.lt_or_ge (8 * b.offset + b.read) (Spec.Bits.unpack b.buf.toList).length with h1 | h1
      · exact h1
      · rw [List.drop_eq_nil_of_le h1] at hdrop; cases hdrop
    rw [List.drop_eq_getElem_cons hlt'] at hdrop
    rw [List.getElem?_eq_getElem hlt'] at hget
    injection hget with hget
    injection hdrop with hd1 hd2
    refine ⟨b₁, if t then 1 else 0, hrd, ?_, (C16.inv_iff _).2 (hsame.winv hw), hr₁, ?_⟩
    · rw [← hd1, hget]; cases t <;> rfl
    · unfold C17.unread C17.cursor
      rw [hsame.1, hc]; exact hd2
  · exfalso
    have hlen := (Lemmas.Bits.readBit_ge b (by omega)).2
    have : C17.unread b = [] := List.drop_eq_nil_of_le hlen
    rw [this] at hu; cases hu

/-! ### the placement loop -/

/-- the per-module step of `placeLoop` -/
def placeCell (fx : Bool) (x y : Int) (buf : Buffer) (img : Image) : Out (Buffer × Image × Bool) :=
  if !fx then
    match readBit buf with
    | (_, none) => pure (buf, img, true)
    | (b', some bit) => do
      let img ← img.setBinary x y (bit != 0)
      pure (b', img, false)
  else pure (buf, img, false)

abbrev setF : Image → (Int × Int) × Bool → Out Image := fun im p => im.setBinary p.1.1 p.1.2 p.2

theorem placeCell_bind (fx : Bool) (x y : Int) (buf : Buffer) (img : Image) (h : C16.Inv buf) (hr : buf.read < 8)
    (more : List (Int × Int)) (K : Buffer × Image × Bool → Out Image)
    (hstop : ∀ b im, K (b, im, true) = pure im)
    (hcont : ∀ b' im', C16.Inv b' → b'.read < 8 →
      C17.unread b' = (C17.unread buf).drop (if fx then 0 else 1) →
      K (b', im', false) = (more.zip (C17.unread b')).foldlM setF im') :
    (placeCell fx x y buf img >>= K) =
      (((if fx then [] else [(x, y)]) ++ more).zip (C17.unread buf)).foldlM setF img := by
  cases fx with
  | true =>
    simp only [placeCell, Bool.not_true, Bool.false_eq_true, if_false, if_true, List.nil_append]
    show K (buf, img, false) = _
    exact hcont buf img h hr rfl
  | false =>
    simp only [placeCell, Bool.not_false, if_true, Bool.false_eq_true, if_false, List.singleton_append]
    cases hu : C17.unread buf with
    | nil =>
      rw [readBit_unread_nil buf hr hu]
      show K (buf, img, true) = _
      rw [hstop]; rfl
    | cons c rest =>
      obtain ⟨b', bit, hrd, hbit, hinv', hr', hu'⟩ := readBit_unread_cons buf h hr c rest hu
      rw [hrd, List.zip_cons_cons, List.foldlM_cons]
      simp only [hbit]
      have hsF : setF img ((x, y), c) = img.setBinary x y c := rfl
      rw [hsF]
      cases hs : img.setBinary x y c with
      | ok im' =>
        show K (b', im', false) = _
        rw [hcont b' im' hinv' hr' (by rw [hu', hu]; rfl), hu']
        rfl
      | err m => rfl
      | panic m => rfl

/-- the placement loop writes bit k of the unread part of the buffer at the k-th coordinate, until the
bits or the coordinates run out -/
theorem placeLoop_eq (used : Image) (f : Int → Int → Bool) (hf : ∀ x y, used.binaryAt x y = .ok (f x y)) (w : Int) :
    ∀ (fuel : Nat) (s : Walk) (cs : List (Int × Int)) (buf : Buffer) (img : Image),
      walk f w fuel s = some cs → C16.Inv buf → buf.read < 8 →
      QR.placeLoop used w fuel s buf img =
        (cs.zip (C17.unread buf)).foldlM (fun im p => im.setBinary p.1.1 p.1.2 p.2) img := by
  intro fuel
  induction fuel with
  | zero => intro s cs buf img h; simp [walk] at h
  | succ fuel ih =>
    intro s cs buf img hwalk hinv hr
    have h6 : Gen.QR.c_timingPatternOffset = 6 := rfl
    rw [walk] at hwalk
    rw [QR.placeLoop, h6]
    by_cases hx : s.x = 6
    · rw [if_pos hx] at hwalk; rw [if_pos hx]; exact ih _ _ _ _ hwalk hinv hr
    · rw [if_neg hx] at hwalk; rw [if_neg hx]
      rw [hf]; simp only [Out.bind_ok]
      simp only [] at hwalk
      by_cases hx1 : s.x - 1 < 0
      · rw [if_pos hx1] at hwalk
        injection hwalk with hwalk
        subst hwalk
        have := placeCell_bind (f s.x s.y) s.x s.y buf img hinv hr []
        rw [List.append_nil] at this
        refine this _ (fun _ _ => rfl) ?_
        intro b' im' _ _ _
        simp only [Bool.false_eq_true, if_false, if_pos hx1, List.zip_nil_left]
        rfl
      · rw [if_neg hx1] at hwalk
        generalize (if s.y + s.dy < 0 ∨ s.y + s.dy > w then (s.x - 1 + 1 - 2, s.y + s.dy + -s.dy, -s.dy)
            else (s.x - 1 + 1, s.y + s.dy, s.dy)) = t at hwalk ⊢
        obtain ⟨nx, ny, ndy⟩ := t
        simp only [] at hwalk ⊢
        have key : ∃ more : List (Int × Int),
            (∀ b' im', C16.Inv b' → b'.read < 8 →
              (if nx < 0 then (pure im' : Out Image) else QR.placeLoop used w fuel { x := nx, y := ny, dy := ndy } b' im') =
                (more.zip (C17.unread b')).foldlM setF im') ∧
            cs = (if f s.x s.y = true then [] else [(s.x, s.y)]) ++
              ((if f (s.x - 1) s.y = true then [] else [(s.x - 1, s.y)]) ++ more) := by
          by_cases hnx : nx < 0
          · rw [if_pos hnx] at hwalk
            injection hwalk with hwalk
            refine ⟨[], ?_, by rw [List.append_nil]; exact hwalk.symm⟩
            intro b' im' _ _
            rw [if_pos hnx]; rfl
          · rw [if_neg hnx] at hwalk
            cases hw' : walk f w fuel { x := nx, y := ny, dy := ndy } with
            | none => rw [hw'] at hwalk; cases hwalk
            | some cs' =>
              rw [hw'] at hwalk
              injection hwalk with hwalk
              refine ⟨cs', ?_, by rw [← List.append_assoc]; exact hwalk.symm⟩
              intro b' im' hinv' hr'
              rw [if_neg hnx]
              exact ih _ _ _ _ hw' hinv' hr'
        obtain ⟨more, hmore, hcs⟩ := key
        rw [hcs]
        refine placeCell_bind (f s.x s.y) s.x s.y buf img hinv hr _ _ (fun _ _ => rfl) ?_
        intro b' im' hinv' hr' _
        simp only [Bool.false_eq_true, if_false, if_neg hx1]
        rw [hf]; simp only [Out.bind_ok]
        refine placeCell_bind (f (s.x - 1) s.y) (s.x - 1) s.y b' im' hinv' hr' _ _ (fun _ _ => rfl) ?_
        intro b'' im'' hinv'' hr'' _
        simp only [Bool.false_eq_true, if_false]
        exact hmore b'' im'' hinv'' hr''

/-! ### the reading loop -/

/-- the per-module step of `readLoop` -/
theorem readCell (img : Image) (g : Int → Int → Bool) (hg : ∀ x y, img.binaryAt x y = .ok (g x y))
    (fx : Bool) (x y : Int) (buf : Buffer) (h : C16.Inv buf) :
    ∃ buf', (if !fx then do
          let c ← img.binaryAt x y
          writeBit buf (if c then 1 else 0)
        else pure buf : Out Buffer) = .ok buf' ∧ C16.Inv buf' ∧
      C16.abs buf' = C16.abs buf ++ (if fx then [] else [(x, y)]).map (fun c => g c.1 c.2) := by
  cases fx with
  | true => exact ⟨buf, rfl, h, by simp⟩
  | false =>
    obtain ⟨b', hw, hinv', habs, _, _⟩ := C16.writeBit_refines buf h (if g x y then 1 else 0)
    refine ⟨b', ?_, hinv', ?_⟩
    · simp only [Bool.not_false, if_true, hg, Out.bind_ok]; exact hw
    · rw [habs]; cases hgx : g x y <;> simp [hgx]

/-- the reading loop appends the colours of the coordinates in order -/
theorem readLoop_eq (used img : Image) (f g : Int → Int → Bool) (hf : ∀ x y, used.binaryAt x y = .ok (f x y))
    (hg : ∀ x y, img.binaryAt x y = .ok (g x y)) (w : Int) :
    ∀ (fuel : Nat) (s : Walk) (cs : List (Int × Int)) (buf : Buffer),
      walk f w fuel s = some cs → C16.Inv buf →
      ∃ buf', QR.readLoop used img w fuel s buf = .ok buf' ∧ C16.Inv buf' ∧
        C16.abs buf' = C16.abs buf ++ cs.map (fun c => g c.1 c.2) := by
  intro fuel
  induction fuel with
  | zero => intro s cs buf h; simp [walk] at h
  | succ fuel ih =>
    intro s cs buf hwalk hinv
    have h6 : Gen.QR.c_timingPatternOffset = 6 := rfl
    rw [walk] at hwalk
    rw [QR.readLoop, h6]
    by_cases hx : s.x = 6
    · rw [if_pos hx] at hwalk; rw [if_pos hx]; exact ih _ _ _ hwalk hinv
    · rw [if_neg hx] at hwalk; rw [if_neg hx]
      rw [hf]; simp only [Out.bind_ok]
      simp only [] at hwalk
      obtain ⟨b1, hb1, hinv1, habs1⟩ := readCell img g hg (f s.x s.y) s.x s.y buf hinv
      rw [hb1]; simp only [Out.bind_ok]
      by_cases hx1 : s.x - 1 < 0
      · rw [if_pos hx1] at hwalk
        injection hwalk with hwalk
        subst hwalk
        rw [if_pos hx1]
        exact ⟨b1, rfl, hinv1, habs1⟩
      · rw [if_neg hx1] at hwalk
        rw [if_neg hx1, hf]; simp only [Out.bind_ok]
        obtain ⟨b2, hb2, hinv2, habs2⟩ := readCell img g hg (f (s.x - 1) s.y) (s.x - 1) s.y b1 hinv1
        rw [hb2]; simp only [Out.bind_ok]
        generalize (if s.y + s.dy < 0 ∨ s.y + s.dy > w then (s.x - 1 + 1 - 2, s.y + s.dy + -s.dy, -s.dy)
            else (s.x - 1 + 1, s.y + s.dy, s.dy)) = t at hwalk ⊢
        obtain ⟨nx, ny, ndy⟩ := t
        simp only [] at hwalk ⊢
        by_cases hnx : nx < 0
        · rw [if_pos hnx] at hwalk
          injection hwalk with hwalk
          rw [if_pos hnx]
          refine ⟨b2, rfl, hinv2, ?_⟩
          rw [habs2, habs1, ← hwalk, List.map_append, List.append_assoc]
        · rw [if_neg hnx] at hwalk
          rw [if_neg hnx]
          cases hw' : walk f w fuel { x := nx, y := ny, dy := ndy } with
          | none => rw [hw'] at hwalk; cases hwalk
          | some cs' =>
            rw [hw'] at hwalk
            injection hwalk with hwalk
            obtain ⟨b3, hb3, hinv3, habs3⟩ := ih _ _ b2 hw' hinv2
            refine ⟨b3, hb3, hinv3, ?_⟩
            subst hwalk
            simp only [habs3, habs2, habs1, List.map_append, List.append_assoc]

/-! ### soundness of the coordinate list -/

/-- state invariant of the walk -/
def SInv (w : Int) (s : Walk) : Prop :=
  0 ≤ s.x ∧ s.x ≤ w ∧ 0 ≤ s.y ∧ s.y ≤ w ∧ (s.dy = 1 ∨ s.dy = -1)

/-- the modules still to be visited from state s -/
def Region (s : Walk) (c : Int × Int) : Prop :=
  c.1 ≤ s.x - 2 ∨ ((c.1 = s.x ∨ c.1 = s.x - 1) ∧ ((s.dy = -1 ∧ c.2 ≤ s.y) ∨ (s.dy = 1 ∧ s.y ≤ c.2)))

theorem mem_cell (f : Int → Int → Bool) (x y : Int) (c : Int × Int)
    (h : c ∈ (if f x y = true then [] else [(x, y)] : List (Int × Int))) :
    c.1 = x ∧ c.2 = y ∧ f c.1 c.2 = false := by
  cases hf : f x y with
  | true => rw [hf] at h; simp at h
  | false =>
    rw [hf] at h
    simp only [Bool.false_eq_true, if_false, List.mem_singleton] at h
    subst h; exact ⟨rfl, rfl, hf⟩

theorem nodup_cell (f : Int → Int → Bool) (x y : Int) :
    (if f x y = true then [] else [(x, y)] : List (Int × Int)).Nodup := by
  cases f x y <;> simp

theorem walk_sound_gen (f : Int → Int → Bool) (w : Int) :
    ∀ (fuel : Nat) (s : Walk) (cs : List (Int × Int)), SInv w s → walk f w fuel s = some cs →
      cs.Nodup ∧ ∀ c ∈ cs, Region s c ∧ 0 ≤ c.1 ∧ c.1 ≤ w ∧ 0 ≤ c.2 ∧ c.2 ≤ w ∧ f c.1 c.2 = false := by
  intro fuel
  induction fuel with
  | zero => intro s cs _ h; simp [walk] at h
  | succ fuel ih =>
    intro s cs hs hwalk
    obtain ⟨hx0, hxw, hy0, hyw, hdy⟩ := hs
    rw [walk] at hwalk
    by_cases hx : s.x = 6
    · rw [if_pos hx] at hwalk
      obtain ⟨hnd, hmem⟩ := ih _ _ (by refine ⟨?_, ?_, ?_, ?_, ?_⟩ <;> simp only <;> omega) hwalk
      refine ⟨hnd, fun c hc => ?_⟩
      obtain ⟨hR, hrest⟩ := hmem c hc
      refine ⟨?_, hrest⟩
      unfold Region at hR ⊢
      simp only at hR
      omega
    · rw [if_neg hx] at hwalk
      simp only [] at hwalk
      have hm1 := mem_cell f s.x s.y
      have hn1 := nodup_cell f s.x s.y
      generalize (if f s.x s.y = true then [] else [(s.x, s.y)] : List (Int × Int)) = l1 at hwalk hm1 hn1
      by_cases hx1 : s.x - 1 < 0
      · rw [if_pos hx1] at hwalk
        injection hwalk with hwalk
        subst hwalk
        refine ⟨hn1, fun c hc => ?_⟩
        obtain ⟨h1, h2, h3⟩ := hm1 c hc
        refine ⟨?_, by omega, by omega, by omega, by omega, h3⟩
        unfold Region; omega
      · rw [if_neg hx1] at hwalk
        have hm2 := mem_cell f (s.x - 1) s.y
        have hn2 := nodup_cell f (s.x - 1) s.y
        generalize (if f (s.x - 1) s.y = true then [] else [(s.x - 1, s.y)] : List (Int × Int)) = l2 at hwalk hm2 hn2
        have hn12 : (l1 ++ l2).Nodup := by
          rw [List.nodup_append]
          refine ⟨hn1, hn2, fun a ha b hb hab => ?_⟩
          have := (hm1 a ha).1; have := (hm2 b hb).1
          subst hab; omega
        have hm12 : ∀ c ∈ l1 ++ l2, (c.1 = s.x ∨ c.1 = s.x - 1) ∧ c.2 = s.y ∧ f c.1 c.2 = false := by
          intro c hc
          rcases List.mem_append.1 hc with hc | hc
          · obtain ⟨h1, h2, h3⟩ := hm1 c hc; exact ⟨Or.inl h1, h2, h3⟩
          · obtain ⟨h1, h2, h3⟩ := hm2 c hc; exact ⟨Or.inr h1, h2, h3⟩
        by_cases hturn : s.y + s.dy < 0 ∨ s.y + s.dy > w
        · rw [if_pos hturn] at hwalk
          simp only [] at hwalk
          by_cases hnx : s.x - 1 + 1 - 2 < 0
          · rw [if_pos hnx] at hwalk
            injection hwalk with hwalk
            subst hwalk
            refine ⟨hn12, fun c hc => ?_⟩
            obtain ⟨h1, h2, h3⟩ := hm12 c hc
            refine ⟨?_, by omega, by omega, by omega, by omega, h3⟩
            unfold Region; omega
          · rw [if_neg hnx] at hwalk
            cases hw' : walk f w fuel { x := s.x - 1 + 1 - 2, y := s.y + s.dy + -s.dy, dy := -s.dy } with
            | none => rw [hw'] at hwalk; cases hwalk
            | some cs' =>
              rw [hw'] at hwalk
              injection hwalk with hwalk
              subst hwalk
              obtain ⟨hnd, hmem⟩ := ih _ _ (by refine ⟨?_, ?_, ?_, ?_, ?_⟩ <;> simp only <;> omega) hw'
              constructor
              · rw [List.nodup_append]
                refine ⟨hn12, hnd, fun a ha b hb hab => ?_⟩
                obtain ⟨h1, h2, _⟩ := hm12 a ha
                obtain ⟨hR, _⟩ := hmem b hb
                subst hab
                unfold Region at hR; simp only at hR
                omega
              · intro c hc
                rcases List.mem_append.1 hc with hc | hc
                · obtain ⟨h1, h2, h3⟩ := hm12 c hc
                  refine ⟨?_, by omega, by omega, by omega, by omega, h3⟩
                  unfold Region; omega
                · obtain ⟨hR, hrest⟩ := hmem c hc
                  refine ⟨?_, hrest⟩
                  unfold Region at hR ⊢; simp only at hR
                  omega
        · rw [if_neg hturn] at hwalk
          simp only [] at hwalk
          by_cases hnx : s.x - 1 + 1 < 0
          · omega
          · rw [if_neg hnx] at hwalk
            cases hw' : walk f w fuel { x := s.x - 1 + 1, y := s.y + s.dy, dy := s.dy } with
            | none => rw [hw'] at hwalk; cases hwalk
            | some cs' =>
              rw [hw'] at hwalk
              injection hwalk with hwalk
              subst hwalk
              obtain ⟨hnd, hmem⟩ := ih _ _ (by refine ⟨?_, ?_, ?_, ?_, ?_⟩ <;> simp only <;> omega) hw'
              constructor
              · rw [List.nodup_append]
                refine ⟨hn12, hnd, fun a ha b hb hab => ?_⟩
                obtain ⟨h1, h2, _⟩ := hm12 a ha
                obtain ⟨hR, _⟩ := hmem b hb
                subst hab
                unfold Region at hR; simp only at hR
                omega
              · intro c hc
                rcases List.mem_append.1 hc with hc | hc
                · obtain ⟨h1, h2, h3⟩ := hm12 c hc
                  refine ⟨?_, by omega, by omega, by omega, by omega, h3⟩
                  unfold Region; omega
                · obtain ⟨hR, hrest⟩ := hmem c hc
                  refine ⟨?_, hrest⟩
                  unfold Region at hR ⊢; simp only at hR
                  omega

/-- the coordinates are pairwise distinct, inside the symbol, and not function modules (whatever f is) -/
theorem walk_sound (f : Int → Int → Bool) (w : Int) (hw : 0 ≤ w) (fuel : Nat) (cs : List (Int × Int))
    (h : walk f w fuel (start w) = some cs) :
    cs.Nodup ∧ ∀ c ∈ cs, 0 ≤ c.1 ∧ c.1 ≤ w ∧ 0 ≤ c.2 ∧ c.2 ≤ w ∧ f c.1 c.2 = false := by
  obtain ⟨h1, h2⟩ := walk_sound_gen f w fuel (start w) cs
    ⟨hw, Int.le_refl _, hw, Int.le_refl _, Or.inr rfl⟩ h
  exact ⟨h1, fun c hc => (h2 c hc).2⟩

/-! ### a counting mirror of the walk for kernel evaluation -/

open QRV.Spec.Patterns (strict)

/-- the walk on natural coordinates, counting only.  The rows are carried as a zipper: `above` = rows
y-1, …, 0, `cur` = row y, `below` = rows y+1, …; `k = 8*stride-1`; `up` is `dy = -1` -/
def walkZ (k : Nat) : (fuel : Nat) → (x : Nat) → (above : List Nat) → (cur : Nat) → (below : List Nat) →
    (up : Bool) → (acc : Nat) → Option Nat
  | 0, _, _, _, _, _, _ => none
  | fuel + 1, x, above, cur, below, up, acc =>
    if x = 6 then walkZ k fuel 5 above cur below up acc
    else
      strict (if cur.testBit (k - x) then acc else acc + 1) fun a1 =>
      match x with
      | 0 => some a1
      | x' + 1 =>
        strict (if cur.testBit (k - x') then a1 else a1 + 1) fun a2 =>
        if up then
          match above with
          | [] =>
            match x' with
            | 0 => some a2
            | x'' + 1 => walkZ k fuel x'' above cur below false a2
          | a :: above' => walkZ k fuel x above' a (cur :: below) true a2
        else
          match below with
          | [] =>
            match x' with
            | 0 => some a2
            | x'' + 1 => walkZ k fuel x'' above cur below true a2
          | b :: below' => walkZ k fuel x (cur :: above) b below' false a2

/-- the kernel-evaluated check of one version: the model's fuel suffices and the walk finds room
for all codewords -/
def checkV (v : Nat) : Bool :=
  let g := usedGen v
  match g.rows.reverse with
  | [] => false
  | cur :: above =>
    g.rows.length == 17 + 4 * v &&
    match walkZ (8 * g.stride - 1) ((19 + 4 * v) * (19 + 4 * v)) (16 + 4 * v) above cur [] true 0 with
    | none => false
    | some c => decide (8 * Spec.Tables.totalCodewords v ≤ c)

theorem strict_eq {α : Type} (n : Nat) (f : Nat → α) : strict n f = f n := by
  cases n <;> rfl

theorem fnOf_nat (rows : List Nat) (stride n x y : Nat) (hx : x < n) (hy : y < n) :
    fnOf rows stride n (x : Int) (y : Int) = rowBit rows stride x y := by
  unfold fnOf
  have : (0 ≤ (x : Int) ∧ (x : Int) < n ∧ 0 ≤ (y : Int) ∧ (y : Int) < n) := by omega
  simp [this]

theorem walkZ_eq (rows : List Nat) (stride n : Nat) (w : Int) (hw : w + 1 = n) (hlen : rows.length = n) :
    ∀ (fuel x : Nat) (above : List Nat) (cur : Nat) (below : List Nat) (up : Bool) (acc : Nat) (s : Walk),
      above.reverse ++ cur :: below = rows → s.x = x → s.y = above.length →
      s.dy = (if up then -1 else 1) → x < n →
      walkZ (8 * stride - 1) fuel x above cur below up acc =
        (walk (fnOf rows stride n) w fuel s).map (fun cs => acc + cs.length) := by
  intro fuel
  induction fuel with
  | zero => intro x above cur below up acc s _ _ _ _ _; rfl
  | succ fuel ih =>
    intro x above cur below up acc s hrows hsx hsy hsdy hxn
    obtain ⟨sx, sy, sdy⟩ := s
    simp only at hsx hsy hsdy
    subst hsx hsy hsdy
    have hlen' : above.length + 1 + below.length = n := by
      rw [← hlen, ← hrows]; simp; omega
    have hcell : ∀ x' : Nat, x' < n →
        fnOf rows stride n (x' : Int) (above.length : Int) = cur.testBit (8 * stride - 1 - x') := by
      intro x' hx'
      rw [fnOf_nat rows stride n x' above.length hx' (by omega)]
      unfold rowBit
      rw [← hrows, List.getElem?_append_right (by simp)]
      simp
    rw [walkZ, walk]
    simp only []
    by_cases hx6 : x = 6
    · have hx6' : (x : Int) = 6 := by omega
      rw [if_pos hx6, if_pos hx6']
      exact ih 5 above cur below up acc _ hrows (by simp only; omega) rfl rfl (by omega)
    · have hx6' : ¬ (x : Int) = 6 := by omega
      rw [if_neg hx6, if_neg hx6', strict_eq, hcell x hxn]
      generalize hb1 : cur.testBit (8 * stride - 1 - x) = b1
      cases x with
      | zero =>
        have h0 : ((0 : Nat) : Int) - 1 < 0 := by omega
        rw [if_pos h0]
        cases b1 <;> rfl
      | succ x' =>
        have e1 : ((x' + 1 : Nat) : Int) - 1 = (x' : Int) := by omega
        simp only [e1]
        have h0 : ¬ (x' : Int) < 0 := by omega
        rw [if_neg h0, strict_eq, hcell x' (by omega)]
        generalize hb2 : cur.testBit (8 * stride - 1 - x') = b2
        generalize hL : ((if b1 = true then [] else [(((x' + 1 : Nat) : Int), (above.length : Int))]) ++
          if b2 = true then [] else [((x' : Int), (above.length : Int))]) = L
        generalize ha2 : (if b2 = true then if b1 = true then acc else acc + 1
          else (if b1 = true then acc else acc + 1) + 1) = a2
        have hLa : a2 = acc + L.length := by
          subst hL ha2; cases b1 <;> cases b2 <;> simp
        have fin : ∀ o : Option (List (Int × Int)),
            Option.map (fun cs => acc + cs.length) (Option.map (fun cs => L ++ cs) o) =
              Option.map (fun cs => a2 + cs.length) o := by
          intro o; cases o <;> simp [hLa, List.length_append, Nat.add_assoc]
        have fin0 : some a2 = Option.map (fun cs => acc + cs.length) (some L) := by
          simp [hLa]
        cases up with
        | true =>
          simp only [if_true]
          cases above with
          | nil =>
            simp only [List.length_nil, Int.natCast_zero]
            have ht : ((0 : Int) + -1 < 0 ∨ (0 : Int) + -1 > w) := by omega
            rw [if_pos ht]
            simp only []
            cases x' with
            | zero =>
              have h1 : (((0 : Nat) : Int) + 1 - 2 < 0) := by omega
              rw [if_pos h1]; exact fin0
            | succ x'' =>
              have h1 : ¬ (((x'' + 1 : Nat) : Int) + 1 - 2 < 0) := by omega
              rw [if_neg h1, fin]
              exact ih x'' [] cur below false a2 _ hrows (by simp only; omega) rfl rfl (by omega)
          | cons a above' =>
            have ht : ¬ (((a :: above').length : Int) + -1 < 0 ∨ ((a :: above').length : Int) + -1 > w) := by
              simp only [List.length_cons] at hlen' ⊢; omega
            rw [if_neg ht]
            simp only []
            have h1 : ¬ ((x' : Int) + 1 < 0) := by omega
            rw [if_neg h1, fin]
            refine ih (x' + 1) above' a (cur :: below) true a2 _ ?_ (by simp only; omega)
              (by simp only [List.length_cons]; omega) rfl hxn
            rw [← hrows]; simp
        | false =>
          simp only [Bool.false_eq_true, if_false]
          cases below with
          | nil =>
            have ht : ((above.length : Int) + 1 < 0 ∨ (above.length : Int) + 1 > w) := by
              simp only [List.length_nil] at hlen'; omega
            rw [if_pos ht]
            simp only []
            cases x' with
            | zero =>
              have h1 : (((0 : Nat) : Int) + 1 - 2 < 0) := by omega
              rw [if_pos h1]; exact fin0
            | succ x'' =>
              have h1 : ¬ (((x'' + 1 : Nat) : Int) + 1 - 2 < 0) := by omega
              rw [if_neg h1, fin]
              exact ih x'' above cur [] true a2 _ hrows (by simp only; omega) (by simp only; omega) rfl (by omega)
          | cons b below' =>
            have ht : ¬ ((above.length : Int) + 1 < 0 ∨ (above.length : Int) + 1 > w) := by
              simp only [List.length_cons] at hlen'; omega
            rw [if_neg ht]
            simp only []
            have h1 : ¬ ((x' : Int) + 1 < 0) := by omega
            rw [if_neg h1, fin]
            refine ih (x' + 1) (cur :: above) b below' false a2 _ ?_ (by simp only; omega)
              (by simp only [List.length_cons]; omega) rfl hxn
            rw [← hrows]; simp

theorem fuelOf_nat (v : Nat) : fuelOf (16 + 4 * (v : Int)) = (19 + 4 * v) * (19 + 4 * v) := by
  unfold fuelOf
  have : (16 + 4 * (v : Int) + 3) = ((19 + 4 * v : Nat) : Int) := by omega
  rw [this, ← Int.natCast_mul, Int.toNat_natCast]

theorem walk_of_check (v : Nat) (h : checkV v = true) :
    ∃ cs, walk (usedFn v) (16 + 4 * (v : Int)) (fuelOf (16 + 4 * (v : Int))) (start (16 + 4 * (v : Int))) = some cs ∧
      8 * Spec.Tables.totalCodewords v ≤ cs.length := by
  unfold checkV at h
  simp only [] at h
  split at h
  · cases h
  · rename_i cur above hrev
    rw [Bool.and_eq_true, beq_iff_eq] at h
    obtain ⟨hlen, h⟩ := h
    have hrows : above.reverse ++ [cur] = (usedGen v).rows := by
      have := congrArg List.reverse hrev
      rw [List.reverse_reverse] at this
      rw [this]; simp
    have hal : above.length + 1 = 17 + 4 * v := by
      rw [← hlen, ← hrows]; simp
    have key := walkZ_eq (usedGen v).rows (usedGen v).stride (17 + 4 * v) (16 + 4 * (v : Int)) (by omega) hlen
      ((19 + 4 * v) * (19 + 4 * v)) (16 + 4 * v) above cur [] true 0 (start (16 + 4 * (v : Int)))
      hrows (by simp only [start]; omega) (by simp only [start]; omega) rfl (by omega)
    rw [fuelOf_nat]
    show ∃ cs, walk (fnOf (usedGen v).rows (usedGen v).stride (17 + 4 * v)) _ _ _ = some cs ∧ _
    rw [key] at h
    cases hw : walk (fnOf (usedGen v).rows (usedGen v).stride (17 + 4 * v)) (16 + 4 * (v : Int))
        ((19 + 4 * v) * (19 + 4 * v)) (start (16 + 4 * (v : Int))) with
    | none => rw [hw] at h; cases h
    | some cs =>
      rw [hw] at h
      simp only [Option.map_some, Nat.zero_add, decide_eq_true_eq] at h
      exact ⟨cs, rfl, h⟩
end QRV.Lemmas.RT
