import QRV.Lemmas.RTWalk
/-
Kernel evaluation of the module walk, versions 3, 10, 23, 31, 34: the model's fuel suffices and there is
room for all codewords (`checkV`, see `RTWalk`).
-/
namespace QRV.Lemmas.RT
set_option maxRecDepth 1000000

theorem walk_ok_3 : checkV 3 = true := by decide +kernel
theorem walk_ok_10 : checkV 10 = true := by decide +kernel
theorem walk_ok_23 : checkV 23 = true := by decide +kernel
theorem walk_ok_31 : checkV 31 = true := by decide +kernel
theorem walk_ok_34 : checkV 34 = true := by decide +kernel

end QRV.Lemmas.RT
