import QRV.Lemmas.RTWalk
/-
Kernel evaluation of the module walk, versions 2, 16, 17, 25, 40: the model's fuel suffices and there is
room for all codewords (`checkV`, see `RTWalk`).
-/
namespace QRV.Lemmas.RT
set_option maxRecDepth 1000000

theorem walk_ok_2 : checkV 2 = true := by decide +kernel
theorem walk_ok_16 : checkV 16 = true := by decide +kernel
theorem walk_ok_17 : checkV 17 = true := by decide +kernel
theorem walk_ok_25 : checkV 25 = true := by decide +kernel
theorem walk_ok_40 : checkV 40 = true := by decide +kernel

end QRV.Lemmas.RT
