import QRV.Lemmas.RTImage
import QRV.Props.C02
/-
Table lookups of the round trip: base / used / mask images of a valid version as regular images.
-/
namespace QRV.Lemmas.RT
open QRV QRV.Model QRV.Model.Bitmap QRV.Model.Sym QRV.Props QRV.Props.C18 QRV.Spec.Patterns

theorem packRows_length (f : Nat → Nat → Bool) (w h : Nat) : (packRows f w h).length = h := by
  simp [packRows]

theorem imgAt_ofGenList (l : List Gen.GBmp) (v : Nat) (g : Gen.GBmp) (hg : l[v]? = some g)
    (hne : g.rows ≠ []) : imgAt (ofGenList l) (v : Int) = .ok (some (Image.ofGen g)) := by
  unfold imgAt ofGenList
  rw [if_neg (by omega)]
  simp only [Int.toNat_natCast, List.getElem?_toArray, List.getElem?_map, hg, Option.map_some]
  rw [if_neg]
  intro h
  exact hne (List.isEmpty_iff.mp h.2)

/-- base and used images of a valid version -/
theorem version_images (v : Nat) (h1 : 1 ≤ v) (h40 : v ≤ 40) :
    imgAt QR.baseList (v : Int) = .ok (some (Image.ofGen (baseGen v))) ∧
    imgAt QR.usedList (v : Int) = .ok (some (Image.ofGen (usedGen v))) ∧
    Regular (Image.ofGen (baseGen v)) (17 + 4 * v) (17 + 4 * v) ∧
    Regular (Image.ofGen (usedGen v)) (17 + 4 * v) (17 + 4 * v) ∧
    ∀ x y, (Image.ofGen (usedGen v)).binaryAt x y = .ok (usedFn v x y) := by
  obtain ⟨b, u, hb, hu, hbr, hur, hX, hY, h0, h0', hs, hub⟩ := C02.qr_function_patterns v h1 h40
  have hbg : baseGen v = b := by unfold baseGen; rw [hb]; rfl
  have hug : usedGen v = u := by unfold usedGen; rw [hu]; rfl
  have hbl : b.rows.length = 17 + 4 * v := by rw [hbr]; exact packRows_length ..
  have hul : u.rows.length = 17 + 4 * v := by rw [hur]; exact packRows_length ..
  have hsz : QR.size v = 17 + 4 * v := rfl
  rw [hsz] at hX hY hs
  have hbne : b.rows ≠ [] := by intro h; rw [h] at hbl; simp at hbl; omega
  have hune : u.rows ≠ [] := by intro h; rw [h] at hul; simp at hul; omega
  have hrb : Regular (Image.ofGen b) (17 + 4 * v) (17 + 4 * v) :=
    ofGen_regular b _ _ h0 h0' hX hY hs hbl
  have hru : Regular (Image.ofGen u) (17 + 4 * v) (17 + 4 * v) := by
    refine ofGen_regular u _ _ ?_ ?_ ?_ ?_ ?_ hul
    all_goals (rw [hub]; simp only; assumption)
  have hus : u.stride = (17 + 4 * v + 7) / 8 := by rw [hub]; exact hs
  rw [hbg, hug]
  refine ⟨imgAt_ofGenList _ v b hb hbne, imgAt_ofGenList _ v u hu hune, hrb, hru, ?_⟩
  intro x y
  rw [binaryAt_spec _ _ _ hru]
  congr 1
  unfold usedFn fnOf
  rw [hug]
  by_cases hc : 0 ≤ x ∧ x < ((17 + 4 * v : Nat) : Int) ∧ 0 ≤ y ∧ y < ((17 + 4 * v : Nat) : Int)
  · rw [if_pos hc, decide_eq_true hc, Bool.true_and, ofGen_px]
    rw [hus]; omega
  · rw [if_neg hc, decide_eq_false hc, Bool.false_and]

/-- mask canvases -/
theorem mask_image (m : Nat) (hm : m < 8) :
    ∃ pat, imgAt QR.maskList (m : Int) = .ok (some pat) ∧ Regular pat 184 177 := by
  obtain ⟨g, hg, he⟩ := C02.qr_mask_patterns m hm
  have hl : g.rows.length = 177 := by rw [he]; exact packRows_length ..
  have hne : g.rows ≠ [] := by intro h; rw [h] at hl; simp at hl
  refine ⟨Image.ofGen g, imgAt_ofGenList _ m g hg hne, ?_⟩
  refine ofGen_regular g 184 177 ?_ ?_ ?_ ?_ ?_ hl <;> rw [he] <;> rfl

end QRV.Lemmas.RT
