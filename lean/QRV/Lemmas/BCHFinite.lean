import QRV.Spec.BCH
import QRV.Gen.QR
import QRV.Gen.Micro
import QRV.Gen.RMQR
import QRV.Lemmas.Finite
/-
Finite facts about the regenerated BCH tables, by kernel evaluation of the whole tables:
they are the standard's codewords (with the prescribed masks), below 2^15 / 2^18, and any two
entries of a table differ in at least 5 positions (so a word within 2 of one entry is at least 3
from every other).
-/
namespace QRV.Lemmas.BCH
open QRV QRV.Spec.BCH QRV.Lemmas

set_option maxRecDepth 100000

theorem qr_format_table :
    Gen.QR.encodedFormat = (List.range 32).map fun i => bch15 i ^^^ qrFormatMask := by decide +kernel

theorem qr_version_table :
    Gen.QR.encodedVersion = (List.range 41).map fun v => if v < 7 then 0 else bch18 v := by decide +kernel

theorem micro_format_table :
    Gen.Micro.encodedFormat = (List.range 32).map fun i => bch15 i ^^^ microFormatMask := by decide +kernel

theorem rmqr_version_table :
    Gen.RMQR.encodedVersion = (List.range 64).map fun i => bch18 i := by decide +kernel

theorem rmqr_masks : rmqrMask1 = 0b011111101010110010 ∧ rmqrMask2 = 0b100000101001111011 := by decide

/-- pairwise distance ≥ `d` and all entries below `2^bits` -/
def tableOK (tbl : List Nat) (bits d : Nat) : Bool :=
  tbl.all (fun c => decide (c < 2 ^ bits)) &&
  (List.range tbl.length).all fun i => (List.range tbl.length).all fun j =>
    i == j || decide (hamming (tbl[i]?.getD 0) (tbl[j]?.getD 0) ≥ d)

theorem qr_format_distance : tableOK Gen.QR.encodedFormat 15 5 = true := by decide +kernel
theorem micro_format_distance : tableOK Gen.Micro.encodedFormat 15 5 = true := by decide +kernel
theorem rmqr_version_distance : tableOK Gen.RMQR.encodedVersion 18 5 = true := by decide +kernel

/-- the Micro QR symbol-number table: entry k of `rawFormatTable` is the (version, level) pair whose
`formatTable` cell is k -/
theorem micro_symbol_numbers :
    Gen.Micro.rawFormatTable = [(1, 2), (2, 1), (2, 0), (3, 1), (3, 0), (4, 1), (4, 0), (4, 3)] ∧
    Gen.Micro.formatTable = [[0, 0, 0, 0], [-1, -1, 0, -1], [2, 1, -1, -1], [4, 3, -1, -1], [6, 5, -1, 7]] := by
  decide +kernel

end QRV.Lemmas.BCH
