import QRV.Lemmas.DecOverfullLoop
import QRV.Lemmas.DecRMQRSeg
import QRV.Lemmas.DecMicroSeg
/-
C07 (finding D16, exact bound) — what the Micro QR and the rMQR segment loops share: the data part of a segment of kind
k read under the invariant `Inv` of `Lemmas/DecOverfull.lean`, and the bookkeeping of the accumulated description for
an arbitrary bit-length function.
-/
namespace QRV.Lemmas.DecOverfull
open QRV QRV.Model.Bits QRV.Model.Codec QRV.Model.Sym QRV.Model.Utf8 QRV.Spec.Valid QRV.Lemmas.Kanji QRV.Lemmas.Dec

/-- the data part of a segment of kind k < 4 with `len` announced characters: exactly `len` characters come back, the
bytes are untouched, and the invariant advances by the standard body length; the last group read is the final
character group (the previous one if `len = 0`: nothing is read) -/
theorem decodeKind_over (k : Nat) (hk : k < 4) (b : Buffer) (N g : Nat) (hI : Inv N g b) (len : Nat)
    (b2 : Buffer) (data : List Nat) (e : DecR.decodeKind k b len = .ok (b2, data)) :
    count k data = len ∧ b2.buf = b.buf ∧ Inv (N + bodyBits k len) (if len = 0 then g else lastG k len) b2 := by
  have hc : count k data = len := by
    have := (DecR.decodeKind_sat k b hI.1 len).of_ok e
    have hmin : min k 3 = k := by omega
    rw [hmin] at this
    exact this.2.2
  refine ⟨hc, ?_⟩
  unfold DecR.decodeKind at e
  by_cases m0 : k = 0
  · subst m0
    rw [if_pos rfl] at e
    unfold decodeNumeric at e
    obtain ⟨g1, g2⟩ := numeric_go len b #[] _ _ b2 data hI e
    exact ⟨g2, g1⟩
  by_cases m1 : k = 1
  · subst m1
    rw [if_neg (by decide), if_pos rfl] at e
    unfold decodeAlphanumeric at e
    obtain ⟨g1, g2⟩ := alnum_go len b #[] _ _ b2 data hI e
    exact ⟨g2, g1⟩
  by_cases m2 : k = 2
  · subst m2
    rw [if_neg (by decide), if_neg (by decide), if_pos rfl] at e
    unfold decodeBytes at e
    obtain ⟨g1, g2⟩ := bytes_go len b #[] _ _ b2 data hI e
    exact ⟨g2, g1⟩
  · have m3 : k = 3 := by omega
    subst m3
    rw [if_neg (by decide), if_neg (by decide), if_neg (by decide)] at e
    unfold decodeKanji at e
    obtain ⟨g1, g2⟩ := kanji_go len b #[] _ _ b2 data hI e
    exact ⟨g2, g1⟩

/-- bit length of a list of segments under a bit-length function -/
def sumF (f : Segment → Nat) (segs : List Segment) : Nat := (segs.map f).sum

/-- last group of the last segment under a last-group function (0 for no segment) -/
def lastF (g : Segment → Nat) (segs : List Segment) : Nat :=
  match segs.getLast? with
  | some s => g s
  | none => 0

theorem sumF_push (f : Segment → Nat) (acc : Array Segment) (s : Segment) :
    sumF f (acc.push s).toList = sumF f acc.toList + f s := by
  unfold sumF
  rw [Array.toList_push, List.map_append, List.sum_append]
  simp

theorem lastF_push (g : Segment → Nat) (acc : Array Segment) (s : Segment) :
    lastF g (acc.push s).toList = g s := by
  unfold lastF
  rw [Array.toList_push, List.getLast?_append]
  simp

/-- what a loop returns when it stops -/
theorem stop_boundF (f g : Segment → Nat) (b : Buffer) (segs : List Segment)
    (hI : Inv (sumF f segs) (lastF g segs) b) (hpos : ∀ s ∈ segs, 0 < g s) (s : Segment)
    (hs : segs.getLast? = some s) : sumF f segs < 8 * b.buf.size + g s := by
  have hp := hpos s (List.mem_of_getLast? hs)
  obtain ⟨-, hle, h | ⟨-, h⟩⟩ := hI
  · omega
  · unfold lastF at h; rw [hs] at h; exact h

theorem pos_push (g : Segment → Nat) (acc : Array Segment) (seg : Segment) (hpos : ∀ s ∈ acc.toList, 0 < g s)
    (h : 0 < g seg) : ∀ s ∈ (acc.push seg).toList, 0 < g s := by
  intro t ht
  rw [Array.toList_push, List.mem_append, List.mem_singleton] at ht
  rcases ht with ht | rfl
  · exact hpos t ht
  · exact h

end QRV.Lemmas.DecOverfull
