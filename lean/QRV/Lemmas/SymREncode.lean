import QRV.Lemmas.SymRWalk2
import QRV.Lemmas.SymRFormat
import QRV.Lemmas.SymEncode
import QRV.Lemmas.RRFinal
import QRV.Lemmas.C03RMQRLift
import QRV.Props.C02
/-
The rMQR encoder model against the standard's symbol (`Spec.Symbol.RMQR.IsSymbol`): the stages of
`encodeToBitmap` (stream, blocks, parity, interleaving, placement, version-and-level information,
masking), each with its full effect on the pixels, assembled.  The placement covers the standard's
order without the data modules of column 1 (`SymRWalk.outer`, finding D18); a data module that is not
reached holds a 0 bit.
-/
open QRV QRV.Model QRV.Model.Bitmap QRV.Model.Sym QRV.Props QRV.Props.C18 QRV.Model.Bits QRV.Spec.Bits QRV.Spec.Valid
open QRV.Lemmas.RT QRV.Lemmas.RR QRV.Spec.Symbol.RMQR
namespace QRV.Lemmas.RR.SymREncode
open QRV.Lemmas.SymWalk (toI)
open QRV.Lemmas.SymRWalk (outer walk_is_outer usedFn_isFunction)
open QRV.Spec.Patterns.RMQR (width height isFunction isDark)

set_option maxRecDepth 100000

/-! ### the placement, with the modules it leaves alone -/

theorem placement_full (v : Nat) (base used : Image) (hW : 3 ≤ W v) (hH : 7 ≤ H v)
    (hrb : Regular base (W v) (H v))
    (hbin : ∀ x y, used.binaryAt x y = .ok (usedFn v x y)) (ibuf : Buffer) (hinv : C16.Inv ibuf)
    (hoff : ibuf.offset = 0) (hread : ibuf.read = 0) (cs : List (Int × Int))
    (hwalk : walk (usedFn v) ((H v : Int) - 1) (fuelOf ((W v : Int) - 1) ((H v : Int) - 1))
      (start ((W v : Int) - 1) ((H v : Int) - 1)) = some cs) :
    ∃ img1, Model.RMQR.placeLoop used ((H v : Int) - 1) (((W v : Int) - 1 + 3) * ((H v : Int) - 1 + 3)).toNat
        { x := (W v : Int) - 1 - 1, y := (H v : Int) - 1 - 5, dy := -1 } ibuf base = .ok img1 ∧
      Regular img1 (W v) (H v) ∧
      (∀ k (hk : k < cs.length) (hk2 : k < 8 * ibuf.buf.toList.length),
        px img1 (cs[k]).1.toNat (cs[k]).2.toNat = (unpack ibuf.buf.toList)[k]'(by simpa using hk2)) ∧
      (∀ x y : Nat, x < W v → y < H v →
        (∀ k (hk : k < cs.length), k < 8 * ibuf.buf.toList.length → cs[k] ≠ ((x : Int), (y : Int))) →
        px img1 x y = px base x y) := by
  have hpl := placeLoop_eq used (usedFn v) hbin ((H v : Int) - 1) _ _ cs ibuf base hwalk hinv (by omega)
  unfold fuelOf start at hpl
  have hun : C17.unread ibuf = unpack ibuf.buf.toList := by
    unfold C17.unread C17.cursor; rw [hoff, hread]; simp
  rw [hun] at hpl
  obtain ⟨img1, hplace, hr1, hpx1⟩ := placement_spec v base used hW hH hrb hbin ibuf hinv hoff hread cs hwalk
  obtain ⟨img1', he, -, hpx⟩ := writes_spec _ _ (cs.zip (unpack ibuf.buf.toList)) base hrb
  have heq : img1' = img1 := by
    have : Out.ok img1' = Out.ok img1 := by rw [← he, ← hplace, hpl]; rfl
    injection this
  subst heq
  refine ⟨img1', hplace, hr1, hpx1, ?_⟩
  intro x y hx hy hne
  refine (hpx x y hx hy).1 ?_
  intro p hp hpe
  obtain ⟨j, hj, rfl⟩ := List.mem_iff_getElem.mp hp
  rw [List.length_zip, Lemmas.Bits.length_unpack] at hj
  rw [List.getElem_zip] at hpe
  exact hne j (by omega) (by omega) hpe

/-! ### base pixels -/

theorem base_px (v : Nat) (hv : v < 32) (x y : Nat) (hx : x < width v) (hy : y < height v) :
    px (Image.ofGen (baseGen v)) x y = isDark v x y := by
  have hgb := congrArg (·[v]?) Lemmas.Pat.rmqr_geom.1
  have hrb := congrArg (·[v]?) Lemmas.Pat.rmqr_base
  simp only [List.getElem?_map, List.getElem?_range hv, Option.map_some] at hgb hrb
  cases hb : Gen.RMQR.baseList[v]? with
  | none => rw [hb] at hgb; cases hgb
  | some b =>
    rw [hb] at hgb hrb
    simp only [Option.map_some, Option.some.injEq, Prod.mk.injEq] at hgb hrb
    obtain ⟨-, -, -, -, b4⟩ := hgb
    have hbg : baseGen v = b := by unfold baseGen; rw [hb]; rfl
    rw [hbg, ofGen_px b x y (by rw [b4]; omega), hrb, b4]
    exact rowBit_packRows (isDark v) (width v) (height v) x y hx hy

/-- a module that is not a function module is light in the function patterns -/
theorem isDark_of_not_function (v x y : Nat) (h : isFunction v x y = false) : isDark v x y = false := by
  unfold isFunction at h
  simp only [Bool.or_eq_false_iff] at h
  obtain ⟨⟨⟨⟨⟨⟨⟨⟨⟨⟨⟨hx0, hy0⟩, hxw⟩, hyh⟩, hac⟩, hal⟩, hfin⟩, hsub⟩, hc1⟩, hc2⟩, hf1⟩, hf2⟩ := h
  unfold isDark
  simp only [hfin, hsub, hc1, hc2, hf1, hf2, Bool.false_eq_true, if_false, Bool.or_false]
  cases ha : Spec.Patterns.RMQR.alignCol (width v) (height v) x y with
  | some c => rw [ha] at hal; simp at hal
  | none =>
    simp only [hy0, hyh, hx0, hxw, hac, Bool.or_false, Bool.false_eq_true, if_false]

/-! ### blocks -/

/-- split and interleave, with everything the symbol specification asks of the blocks -/
theorem blocks_enc (cap : Gen.GCap) (hshape : capShapeOK cap = true)
    (data : List Nat) (hlen : data.length = cap.data) (hb : ∀ b ∈ data, b < 256) :
    ∃ blks ibuf, splitBlocks cap.blocks data = .ok blks ∧ interleave blks {} = .ok ibuf ∧
      C16.Inv ibuf ∧ ibuf.wrote = 0 ∧ ibuf.offset = 0 ∧ ibuf.read = 0 ∧
      ibuf.buf.toList = ilvList blks ∧ ibuf.buf.size = cap.total ∧
      blks.map (fun b => (b.1.length, b.2.length)) = sizesOf cap.blocks ∧
      blks.flatMap (·.1) = data ∧
      (∀ b ∈ blks, (∀ x ∈ b.1, x < 256) ∧ (∀ x ∈ b.2, x < 256)) ∧
      (∀ b ∈ blks, ∀ i, i < b.2.length → Spec.RS.evalS (b.1 ++ b.2) (Spec.GF.pow2 i) = 0) := by
  obtain ⟨n1, n2, d, e, hs, hd, ht⟩ := shape_of_cap cap hshape
  have hsum : dataSum (sizesOf cap.blocks) = data.length := by
    rw [hs.sizes, dataSum_append, dataSum_replicate, dataSum_replicate, hlen, ← hd]
  have hgs := groupOK_of_mem_sizes _ hs.groups
  obtain ⟨hmap, hall⟩ := encBlocks_facts (sizesOf cap.blocks) hgs data (by omega) hb
  have hsplit := splitBlocks_enc cap.blocks hs.groups data (by omega)
  generalize hblks : encBlocks (sizesOf cap.blocks) data = blks at hmap hall hsplit
  have hflat : blks.flatMap (·.1) = data := by rw [← hblks]; exact encBlocks_flatten _ _ hsum
  have hbytes : ∀ b ∈ blks, (∀ x ∈ b.1, x < 256) ∧ ∀ x ∈ b.2, x < 256 :=
    fun b hbm => ⟨(hall b hbm).1, (hall b hbm).2.1⟩
  obtain ⟨ibuf, hi1, hi2, hi3, hi4, hi5, hi6, hi7, -⟩ :=
    ilv_roundtrip cap.blocks n1 n2 d e hs blks hmap hbytes cap.data cap.total hd.symm ht
  refine ⟨blks, ibuf, hsplit, hi1, hi2, hi3, hi4, hi5, hi6, hi7, hmap, hflat, hbytes, ?_⟩
  intro b hbm i hi
  obtain ⟨hb1, hb2, hpar, -⟩ := hall b hbm
  have hmem : (b.1.length, b.2.length) ∈ sizesOf cap.blocks := by
    rw [← hmap]; exact List.mem_map_of_mem (f := fun b => (b.1.length, b.2.length)) hbm
  obtain ⟨h2, h68⟩ := hgs _ hmem
  simp only at h2 h68
  obtain ⟨par, hp, -, -, hz⟩ := C13.parity_is_codeword b.2.length h2 h68 b.1 hb1
  rw [hpar] at hp
  cases hp
  rw [Lemmas.RS.evalS_eq (Lemmas.RS.pow2_lt i) _ (by
    intro x hx
    rcases List.mem_append.1 hx with h | h
    · exact hb1 x h
    · exact hb2 x h)]
  exact hz i hi

/-! ### the symbol -/

/-- every valid description encodes; the blocks are the specification's; every function module is the
specification's; the data module at position k of the outer part of the placement order holds bit k
of the interleaved stream XOR the mask, and every other data module just the mask -/
theorem symbol_core (v l : Nat) (mask : Int) (segments : List Segment)
    (hv : RMQR.Valid { version := v, level := l, mask := mask, segments := segments }) :
    ∃ (img : Image) (c : Gen.GCap) (blks : List (List Nat × List Nat)),
      Model.RMQR.encodeToBitmap { version := v, level := l, mask := mask, segments := segments } = .ok img ∧
      Regular img (width v) (height v) ∧ v < 32 ∧
      RMQR.row v l = some c ∧ c ∈ Gen.RMQR.capacityTable[v]?.getD [] ∧
      blks.map (fun b => (b.1.length, b.2.length)) = sizesOf c.blocks ∧
      (∀ b ∈ blks, (∀ x ∈ b.1, x < 256) ∧ (∀ x ∈ b.2, x < 256)) ∧
      unpack (blks.flatMap (·.1)) = stream { version := v, level := l, mask := mask, segments := segments } c ∧
      (∀ b ∈ blks, ∀ i, i < b.2.length → Spec.RS.evalS (b.1 ++ b.2) (Spec.GF.pow2 i) = 0) ∧
      (unpack (ilvList blks)).length = 8 * c.total ∧
      ∀ x y, x < width v → y < height v →
        px img x y =
          if isFunction v x y then functionModule v l x y
          else ((decide ((outer v).idxOf (x, y) < (outer v).length) &&
            (unpack (ilvList blks))[(outer v).idxOf (x, y)]?.getD false) ^^ maskCond y x) := by
  obtain ⟨⟨hv0, hv31⟩, ⟨hl0, hl1⟩, hmask, -, -⟩ := id hv
  simp only at hv0 hv31 hl0 hl1 hmask
  have hv32 : v < 32 := by omega
  have hl2 : l < 2 := by omega
  obtain ⟨cap, hcapAt, hrow, hcapmem, hok⟩ := capAt_valid v l hv32 hl2
  obtain ⟨ebuf, hE, hEinv, hElen, hEabs, hEw, -, -⟩ := stream_layout _ hv cap
    (by simpa using hrow) hcapAt hok
  obtain ⟨himg, hEsz, hEbytes⟩ := stream_bytes ebuf hEinv hEw
  have hEsize : ebuf.buf.size = cap.data := by omega
  have hok' := hok
  unfold capOK at hok'
  simp only [Bool.and_eq_true, List.all_eq_true, decide_eq_true_eq] at hok'
  obtain ⟨⟨⟨hshape, -⟩, -⟩, -⟩ := hok'
  obtain ⟨blks, ibuf, hsplit, hil, hiInv, hiw, hio, hir, hilv, hisz, hmap, hflat, hbytes, hrs⟩ :=
    blocks_enc cap hshape ebuf.buf.toList (by rw [Array.length_toList, hEsize]) hEbytes
  have hbits : Model.RMQR.encodeToBits { version := v, level := l, mask := mask, segments := segments } {} = .ok ibuf := by
    unfold Model.RMQR.encodeToBits
    simp only [hE, Out.bind_ok, hcapAt, hsplit, hil]
  obtain ⟨hbase, hused, hrb, hru, hbin⟩ := version_images v hv32
  obtain ⟨hW27, hW144, hH7, hH17⟩ := sizes_ok v hv32
  have hW144' : width v ≤ 144 := hW144
  have hH17' : height v ≤ 17 := hH17
  have hH7' : 7 ≤ height v := hH7
  have hW27' : 27 ≤ width v := hW27
  obtain ⟨-, -, -, cs, hwalk, -⟩ := walk_version v hv32
  have hcs := walk_is_outer v hv32 cs hwalk
  have hilen : ibuf.buf.toList.length = cap.total := by rw [Array.length_toList, hisz]
  obtain ⟨img1, hplace, hr1, hpx1, hun1⟩ := placement_full v _ _ (by omega) hH7 hrb hbin ibuf hiInv hio hir cs hwalk
  obtain ⟨ef, hnat, hef⟩ := natAt_version v l hv32 hl2
  have hefw : ef = Spec.BCH.bch18 (v + 32 * l) := by
    have := C02.bch_words.2.2.2 (v + 32 * l) (by omega)
    rw [hef] at this
    injection this
  obtain ⟨img2, hfw, hr2, hpx2, -⟩ := fmtWrites_spec v hv32 img1 hr1 ef
  obtain ⟨img2', hfw', -, hpx2f⟩ := SymRFormat.fmtWrites_full (W v) (H v) hW27 hH7 img1 hr1 ef
  rw [hfw] at hfw'
  cases hfw'
  have hrm := mask_image
  obtain ⟨img3, hmask3, hr3⟩ := mask_ok img2 _ _ (W v) (H v) 144 17 (by omega) (by omega) hr2 hru hrm hW144 hH17
  have hbdx : (Image.ofGen (baseGen v)).dx = (W v : Int) := by unfold Image.dx; rw [hrb.maxX, hrb.minX]; omega
  have hbdy : (Image.ofGen (baseGen v)).dy = (H v : Int) := by unfold Image.dy; rw [hrb.maxY, hrb.minY]; omega
  refine ⟨img3, cap, blks, ?_, hr3, hv32, hrow, hcapmem, hmap, hbytes, ?_, hrs, ?_, ?_⟩
  · have e1 : Model.RMQR.versionIsValid (v : Int) = true := by
      unfold Model.RMQR.versionIsValid Gen.RMQR.c_minVersion Gen.RMQR.c_maxVersion
      rw [Bool.and_eq_true, decide_eq_true_eq, decide_eq_true_eq]; omega
    have e2 : Model.RMQR.levelIsValid (l : Int) = true := by
      unfold Model.RMQR.levelIsValid Gen.RMQR.c_levelMax
      rw [Bool.and_eq_true, decide_eq_true_eq, decide_eq_true_eq]; omega
    rw [encodeToBitmap_eq _ e1 e2]
    simp only [hbits, Out.bind_ok, hbase, hused, deref, hbdx, hbdy, hplace, hnat]
    rw [formatStep_eq, hfw, Out.bind_ok]
    exact hmask3
  · rw [hflat, himg, hEabs]
    rfl
  · rw [← hilv, Lemmas.Bits.length_unpack, hilen]
  · intro x y hx hy
    have hused_px := used_px v _ hru hbin x y hx hy
    have hfn := usedFn_isFunction v hv32 x y hx hy
    have hm := mask_spec img2 _ _ img3 _ _ 144 17 (by omega) (by omega) hr2 hru hrm hW144 hH17 hmask3 x y hx hy
    rw [hm, hused_px, hfn]
    have hrange := (walk_sound (usedFn v) ((W v : Int) - 1) ((H v : Int) - 1) (by omega) (by omega) _ cs hwalk).2
    cases hF : isFunction v x y with
    | true =>
      simp only [Bool.not_true, Bool.false_and, Bool.bne_false, if_true]
      have hb1 : px img1 x y = isDark v x y := by
        rw [hun1 x y hx hy ?_, base_px v hv32 x y hx hy]
        intro k hk _ he
        have := (hrange _ (List.getElem_mem hk)).2.2.2.2
        rw [he] at this
        simp only at this
        rw [hfn, hF] at this
        cases this
      rw [hpx2f x y hx hy, hb1]
      unfold functionModule
      rw [hefw]
      rfl
    | false =>
      simp only [Bool.not_false, Bool.true_and, Bool.false_eq_true, if_false]
      have hu : usedFn v (x : Int) (y : Int) = false := by rw [hfn, hF]
      rw [hpx2 x y hx hy hu, mask_px x y (by omega) (by omega)]
      have hclen : cs.length = (outer v).length := by rw [hcs, List.length_map]
      have hcsk : ∀ k (hk : k < cs.length), cs[k] = toI ((outer v)[k]'(by omega)) := by
        intro k hk
        simp only [hcs, List.getElem_map]
      have hul : (unpack (ilvList blks)).length = 8 * ibuf.buf.toList.length := by
        rw [← hilv, Lemmas.Bits.length_unpack]
      have hd1 : px img1 x y = (decide ((outer v).idxOf (x, y) < (outer v).length) &&
          (unpack (ilvList blks))[(outer v).idxOf (x, y)]?.getD false) := by
        by_cases hk : (outer v).idxOf (x, y) < (outer v).length ∧ (outer v).idxOf (x, y) < 8 * ibuf.buf.toList.length
        · obtain ⟨hkc, hk8⟩ := hk
          have hget := List.getElem_idxOf hkc
          have h1' := hpx1 _ (show (outer v).idxOf (x, y) < cs.length by omega) hk8
          have hck := hcsk _ (show (outer v).idxOf (x, y) < cs.length by omega)
          rw [hget] at hck
          simp only [hck, toI, Int.toNat_natCast] at h1'
          rw [h1', List.getElem?_eq_getElem (by omega), Option.getD_some, decide_eq_true hkc, Bool.true_and]
          simp only [hilv]
        · have hrhs : (decide ((outer v).idxOf (x, y) < (outer v).length) &&
              (unpack (ilvList blks))[(outer v).idxOf (x, y)]?.getD false) = false := by
            by_cases hkc : (outer v).idxOf (x, y) < (outer v).length
            · rw [List.getElem?_eq_none (by omega), Option.getD_none, Bool.and_false]
            · rw [decide_eq_false hkc, Bool.false_and]
          rw [hrhs, hun1 x y hx hy ?_, base_px v hv32 x y hx hy, isDark_of_not_function v x y hF]
          intro k hk' hk8 he
          have hck := hcsk k hk'
          rw [he] at hck
          have hAk : (outer v)[k]'(by omega) = (x, y) := (SymFormat.toI_inj (a := (x, y)) hck).symm
          have := SymEncode.idxOf_le_of_getElem (x, y) (outer v) k (by omega) hAk
          omega
      rw [hd1]
      rfl

end QRV.Lemmas.RR.SymREncode
