import QRV.Lemmas.C03QRLift
/-
C03 for whole QR symbols with damaged format information: `decode_spec` and `corrects_rated_damage_nat`
(`Lemmas/RTDecode.lean`, `Lemmas/C03QRLift.lean`) once more, with the format step factored out: instead of "the first
copy of the format information is the code word of (level, mask)" they assume `decodeFormat img = .ok (level, mask)`.
-/
open QRV QRV.Model QRV.Model.Bitmap QRV.Model.Sym QRV.Props QRV.Props.C18 QRV.Model.QR QRV.Model.Bits QRV.Spec.Bits QRV.Spec.Valid
namespace QRV.Lemmas.RT

/-- `decode_spec` with the reading of the format information as a hypothesis -/
theorem decode_spec_fmt (v l m : Nat) (h1 : 1 ≤ v) (h40 : v ≤ 40) (hl : l < 4) (hm : m < 8)
    (segments : List Segment) (img3 img4 used pat : Image) (cs : List (Int × Int))
    (il : List Nat) (cap : Gen.GCap) (blks : List (List Nat × List Nat)) (data : List Nat)
    (hr3 : Regular img3 (17 + 4 * v) (17 + 4 * v)) (hr4 : Regular img4 (17 + 4 * v) (17 + 4 * v))
    (hru : Regular used (17 + 4 * v) (17 + 4 * v)) (hrp : Regular pat 184 177)
    (hmask : Image.mask img3 used pat = .ok img4)
    (hused : imgAt usedList (v : Int) = .ok (some used)) (hpat : imgAt maskList (m : Int) = .ok (some pat))
    (hbin : ∀ x y, used.binaryAt x y = .ok (usedFn v x y))
    (hfmt : decodeFormat img4 = .ok ((l : Int), (m : Int)))
    (hwalk : walk (usedFn v) (16 + 4 * (v : Int)) (fuelOf (16 + 4 * (v : Int))) (start (16 + 4 * (v : Int))) = some cs)
    (hlen : 8 * il.length ≤ cs.length) (hilb : ∀ b ∈ il, b < 256)
    (hbits : ∀ k (hk : k < 8 * il.length), px img3 (cs[k]'(by omega)).1.toNat (cs[k]'(by omega)).2.toNat = (unpack il)[k]'(by simpa using hk))
    (hcap : capAt Gen.QR.capacityTable (v : Int) (l : Int) = .ok cap) (hiltot : il.length = cap.total)
    (hdeint : ∀ extra : List Nat, deinterleave cap.blocks cap.data cap.total (il ++ extra) = .ok blks)
    (hrs : rsLoop blks = .ok data.toArray)
    (hseg : segmentLoop (v : Int) (data.toArray.size * 8 + 8) { buf := data.toArray } #[] = .ok segments) :
    decodeBitmap img4 = .ok { version := v, level := l, mask := m, segments := segments } := by
  have _ := hl
  have _ := hm
  unfold decodeBitmap decodeBitmapFull
  have hdx : img4.dx = ((17 + 4 * v : Nat) : Int) := by unfold Image.dx; rw [hr4.maxX, hr4.minX]; omega
  have hdy : img4.dy = ((17 + 4 * v : Nat) : Int) := by unfold Image.dy; rw [hr4.maxY, hr4.minY]; omega
  have hn4 : ((17 + 4 * v : Nat) : Int) - 17 = 4 * (v : Int) := by omega
  have hver : (((17 + 4 * v : Nat) : Int) - 17).tdiv 4 = (v : Int) := by
    rw [hn4, Int.mul_tdiv_cancel_left _ (by decide)]
  have hmod : (((17 + 4 * v : Nat) : Int) - 17).tmod 4 = 0 := by
    rw [hn4, Int.mul_tmod_right]
  simp only [hdx, hdy, normalise_regular img4 _ hr4, hver, hmod]
  rw [if_neg (by omega)]
  have hinv := mask_involutive img3 used pat img4 _ _ 184 177 (by omega) (by omega) hr3 hru hrp (by omega) (by omega) hmask
  simp only [hfmt, Out.bind_ok, hused, hpat, deref, hinv]
  -- reading
  obtain ⟨rbuf, hrl, hrinv, hrabs⟩ := readLoop_eq used img3 (usedFn v)
    (fun x y => if 0 ≤ x ∧ x < ((17 + 4 * v : Nat) : Int) ∧ 0 ≤ y ∧ y < ((17 + 4 * v : Nat) : Int) then px img3 x.toNat y.toNat else false)
    hbin (fun x y => binaryAt_spec img3 _ _ hr3 x y) (16 + 4 * (v : Int)) _ _ cs {} hwalk C16.inv_empty
  unfold fuelOf start at hrl
  rw [C16.abs_empty, List.nil_append] at hrabs
  obtain ⟨hnd, hrange⟩ := walk_sound (usedFn v) (16 + 4 * (v : Int)) (by omega) _ cs hwalk
  have hbytes : ∃ extra, rbuf.buf.toList = il ++ extra := by
    refine ⟨pack ((cs.map fun c => if 0 ≤ c.1 ∧ c.1 < ((17 + 4 * v : Nat) : Int) ∧ 0 ≤ c.2 ∧ c.2 < ((17 + 4 * v : Nat) : Int) then px img3 c.1.toNat c.2.toNat else false).drop (8 * il.length)), ?_⟩
    rw [C16.bytes_are_packing rbuf hrinv, hrabs, ← Lemmas.Bits.pack_unpack_append il hilb]
    congr 1
    conv => lhs; rw [← List.take_append_drop (8 * il.length) (cs.map _)]
    congr 1
    apply List.ext_getElem
    · simp; omega
    · intro k hk1 hk2
      have hk : k < 8 * il.length := by simpa using hk2
      rw [List.getElem_take, List.getElem_map, ← hbits k hk]
      have hr := hrange _ (List.getElem_mem (show k < cs.length by omega))
      rw [if_pos (by omega)]
  obtain ⟨extra, hextra⟩ := hbytes
  simp only [hrl, Out.bind_ok, hcap, hextra, hdeint extra]
  unfold rsLoop at hrs
  simp only [hrs, Out.bind_ok, hseg]
  rfl

/-- the whole-symbol lifting (`corrects_rated_damage_nat`) with the hypothesis on the function modules replaced by
what the decoder needs of them: the format information of `img'` reads as (level, mask).  No other function module
is looked at by `decodeBitmap` (the version comes from the size of the bitmap, the version information of versions
7-40 is not read) -/
theorem corrects_rated_damage_fmt_nat (v l : Nat) (mask : Int) (segments : List Segment)
    (hv : QR.Valid { version := v, level := l, mask := mask, segments := segments }) (img : Image) (m : Nat)
    (henc : Model.QR.encodeToBitmap { version := v, level := l, mask := mask, segments := segments } = .ok img)
    (hmask : Model.QR.decodeBitmap img = .ok { version := v, level := l, mask := (m : Int), segments := segments })
    (cap : Gen.GCap) (hcap : (Gen.QR.capacityTable[v]?.getD [])[l]? = some cap)
    (buf : Bits.Buffer)
    (hbuf : Model.QR.encodeSegments { version := v, level := l, mask := mask, segments := segments } {} = .ok buf)
    (blks : List (List Nat × List Nat)) (hblks : splitBlocks cap.blocks buf.buf.toList = .ok blks)
    (cs : List (Int × Int))
    (hcs : walk (usedFn v) (16 + 4 * (v : Int)) (fuelOf (16 + 4 * (v : Int))) (start (16 + 4 * (v : Int))) = some cs)
    (img' : Image) (hreg : Regular img' (17 + 4 * v) (17 + 4 * v))
    (hfmt : decodeFormat img' = .ok ((l : Int), (m : Int)))
    (blks' : List (List Nat × List Nat))
    (hshape : blks'.map (fun b => (b.1.length, b.2.length)) = sizesOf cap.blocks)
    (hbytes : ∀ b ∈ blks', (∀ x ∈ b.1, x < 256) ∧ ∀ x ∈ b.2, x < 256)
    (hcarry : ∀ k (_ : k < 8 * cap.total) (hk' : k < cs.length),
      px img' (cs[k]).1.toNat (cs[k]).2.toNat =
        ((unpack (ilvList blks'))[k]?.getD false ^^ Spec.Patterns.QR.maskCond m (cs[k]).2.toNat (cs[k]).1.toNat))
    (hdam : ∀ j (hj : j < blks.length) (hj' : j < blks'.length),
      C14.dist (blks[j].1 ++ blks[j].2) (blks'[j].1 ++ blks'[j].2) ≤
        (cap.blocks.flatMap fun bc => List.replicate bc.num bc.maxError)[j]?.getD 0) :
    Model.QR.decodeBitmap img' = .ok { version := v, level := l, mask := (m : Int), segments := segments } := by
  -- the clean symbol
  obtain ⟨img4, m0, -, henc0, hm8, hr4, -, -, hdec0, -⟩ := roundtrip_exposed v l mask segments hv
  rw [henc] at henc0
  cases henc0
  rw [hmask] at hdec0
  have hmm : m = m0 := by
    have := congrArg (fun o => match o with | Out.ok (q : QRCode) => q.mask | _ => 0) hdec0
    simp only at this
    omega
  subst hmm
  -- the stream
  obtain ⟨ebuf, hE, hEsize, hEbytes, hSeg⟩ := stream_roundtrip _ hv
  rw [hbuf] at hE
  cases hE
  obtain ⟨⟨hv1, hv40⟩, ⟨hl0, hl4⟩, -, -, -⟩ := hv
  simp only at hv1 hv40 hl0 hl4 hEsize hSeg
  have h1 : 1 ≤ v := by omega
  have h40 : v ≤ 40 := by omega
  have hl : l < 4 := by omega
  simp only [Int.toNat_natCast] at hEsize
  obtain ⟨cap0, hcapAt, hcapTbl, hct, hcd, -⟩ := capAt_valid v l h1 h40 hl
  rw [hcap] at hcapTbl
  cases hcapTbl
  -- the conformant blocks
  obtain ⟨blks0, hsplit, -, hmap, hflat, hall⟩ := splitBlocks_ok v l h1 h40 hl cap hcap buf.buf.toList
    (by rw [Array.length_toList, hEsize, hcd]) hEbytes
  rw [hblks] at hsplit
  cases hsplit
  -- images, walk
  obtain ⟨-, hused, -, hru, hbin⟩ := version_images v h1 h40
  obtain ⟨cs0, hwalk, hlen⟩ := walk_version v h1 h40
  rw [hcs] at hwalk
  cases hwalk
  obtain ⟨pat, hpat, hrp, hpatpx⟩ := mask_image_px m hm8
  obtain ⟨img3, hm3, hr3⟩ := mask_ok img' _ pat _ _ 184 177 (by omega) (by omega) hreg hru hrp (by omega) (by omega)
  have hm3' := mask_involutive img' _ pat img3 _ _ 184 177 (by omega) (by omega) hreg hru hrp (by omega) (by omega) hm3
  -- the damaged blocks, interleaved
  obtain ⟨ibuf, -, hiInv, -, -, -, hilv, hisz, hdeint⟩ := deinterleave_interleave v l h1 h40 hl cap hcap blks' hshape hbytes
  have hilen : (ilvList blks').length = cap.total := by rw [← hilv, Array.length_toList, hisz]
  have hlen' : 8 * (ilvList blks').length ≤ cs.length := by rw [hilen, hct]; exact hlen
  have hrange := (walk_sound (usedFn v) (16 + 4 * (v : Int)) (by omega) _ cs hcs).2
  -- error correction
  have hlens : blks.length = blks'.length := by
    have a := congrArg List.length hmap
    have b := congrArg List.length hshape
    simp only [List.length_map] at a b
    omega
  have hrow := row_ok v l h1 cap hcap
  have hrs : rsLoop blks' = .ok buf.buf.toList.toArray := by
    unfold rsLoop
    rw [rsLoop_corrected blks blks' hlens ?_ #[], hflat]
    · simp
    · intro j hj hj'
      have hjs : j < (sizesOf cap.blocks).length := by rw [← hmap]; simpa using hj
      obtain ⟨bc, hbc, hsz, hrt⟩ := sizes_rated cap.blocks j hjs
      have hs := congrArg (fun l => l[j]?) hmap
      have hs' := congrArg (fun l => l[j]?) hshape
      simp only [List.getElem?_map, List.getElem?_eq_getElem hj, List.getElem?_eq_getElem hj', Option.map_some, hsz,
        Option.some.injEq, Prod.mk.injEq] at hs hs'
      have hok : (decide (bc.data ≤ bc.total) && decide (2 ≤ bc.total - bc.data) &&
          decide (bc.total - bc.data ≤ 68) && decide (bc.maxError ≤ (bc.total - bc.data) / 2) && decide (bc.total ≤ 255)) = true := by
        unfold C03.rowOK at hrow
        rw [List.all_eq_true] at hrow
        exact hrow bc hbc
      have hd := hdam j hj hj'
      rw [hrt, Option.getD_some] at hd
      have hb := hall _ (List.getElem_mem hj)
      have hb' := hbytes _ (List.getElem_mem hj')
      exact ⟨by rw [hs'.1, hs.1],
        block_fix bc hok blks[j] blks'[j] hs.1 hs.2 hs'.1 hs'.2 hb.1 hb.2.2 hb'.1 hb'.2 hd⟩
  refine decode_spec_fmt v l m h1 h40 hl hm8 segments img3 img' _ pat cs (ilvList blks') cap blks'
    buf.buf.toList hr3 hreg hru hrp hm3' hused hpat hbin hfmt hcs hlen' ?_ ?_ hcapAt hilen ?_ hrs ?_
  · rw [← hilv]; exact hiInv.bytes_lt
  · -- data modules
    intro k hk
    have hkc : k < cs.length := by omega
    have hr := hrange _ (List.getElem_mem hkc)
    have hcast : ∀ z : Int, 0 ≤ z → ((z.toNat : Nat) : Int) = z := fun z hz => Int.toNat_of_nonneg hz
    have hku : k < (unpack (ilvList blks')).length := by simpa using hk
    have hx : (cs[k]).1.toNat < 17 + 4 * v := by omega
    have hy : (cs[k]).2.toNat < 17 + 4 * v := by omega
    rw [mask_spec img' _ pat img3 _ _ 184 177 (by omega) (by omega) hreg hru hrp (by omega) (by omega) hm3
        _ _ hx hy, used_px v _ hru hbin _ _ hx hy, hcast _ hr.1, hcast _ hr.2.2.1, hr.2.2.2.2,
      hpatpx _ _ (by omega) (by omega), hcarry k (by omega) hkc, List.getElem?_eq_getElem hku, Option.getD_some]
    cases (unpack (ilvList blks'))[k] <;> cases Spec.Patterns.QR.maskCond m (cs[k]).2.toNat (cs[k]).1.toNat <;> rfl
  · intro extra
    rw [← hilv]
    exact hdeint extra
  · rw [Array.toArray_toList]
    exact hSeg

end QRV.Lemmas.RT
