import QRV.Lemmas.MicroRTFinal
import QRV.Lemmas.Penalty
/-
C10, Micro QR: the edge score the selection loop computes for pattern j (on the masked symbol,
before the format information is written) is the edge score of the symbol the encoder emits for the
explicit pattern j: the format information modules (column 8, row 8) are not on the right column or
the bottom row of a symbol of size 11..17.
-/
namespace QRV.Lemmas.C10F
open QRV QRV.Model QRV.Model.Bitmap QRV.Model.Sym QRV.Model.Bits QRV.Props QRV.Props.C18
open QRV.Lemmas.MRT QRV.Spec.Valid QRV.Spec.Penalty
open QRV.Lemmas.RT (applyWrites writes_spec)

/-- the edge score only looks at the bottom row and the right column -/
theorem microEdge_congr (p p' : Nat → Nat → Bool) (n : Nat)
    (h1 : ∀ k, k < n - 1 → p (k + 1) (n - 1) = p' (k + 1) (n - 1))
    (h2 : ∀ k, k < n - 1 → p (n - 1) (k + 1) = p' (n - 1) (k + 1)) : microEdge p n = microEdge p' n := by
  unfold microEdge
  have e1 : (List.range (n - 1)).filter (fun k => p (k + 1) (n - 1)) =
      (List.range (n - 1)).filter (fun k => p' (k + 1) (n - 1)) :=
    List.filter_congr (fun k hk => h1 k (List.mem_range.1 hk))
  have e2 : (List.range (n - 1)).filter (fun k => p (n - 1) (k + 1)) =
      (List.range (n - 1)).filter (fun k => p' (n - 1) (k + 1)) :=
    List.filter_congr (fun k hk => h2 k (List.mem_range.1 hk))
  rw [e1, e2]

/-- the format information loop leaves every module outside column 0..8 × row 0..8 alone -/
theorem placeFormatM_frame (n : Nat) (img : Image) (hr : Regular img n n) (enc : Nat) :
    ∃ img', placeFormatM img enc = .ok img' ∧ Regular img' n n ∧
      ∀ x y : Nat, x < n → y < n → (8 < x ∨ 8 < y) → px img' x y = px img x y := by
  rw [placeFormatM_eq]
  obtain ⟨img', he, hr', hpx⟩ := writes_spec n n (mformatWrites enc) img hr
  refine ⟨img', he, hr', ?_⟩
  intro x y hx hy hxy
  refine (hpx x y hx hy).1 ?_
  intro p hp hpe
  rw [mem_mformatWrites] at hp
  obtain ⟨j, hj, rfl | rfl⟩ := hp
  · have h1' := congrArg Prod.fst hpe
    have h2' := congrArg Prod.snd hpe
    simp only at h1' h2'
    omega
  · have h1' := congrArg Prod.fst hpe
    have h2' := congrArg Prod.snd hpe
    simp only at h1' h2'
    omega

/-- the finished symbol of pattern `j` has the edge score the loop computed for `j` -/
theorem maskScore_is_finished (v f j : Nat) (h1 : 1 ≤ v) (h4 : v ≤ 4) (hf : f < 8) (hj : j < 4) (used sym : Image)
    (hru : Regular used (9 + 2 * v) (9 + 2 * v)) (hr : Regular sym (9 + 2 * v) (9 + 2 * v)) :
    ∃ img, finishM (f : Int) used sym (j : Int) = .ok img ∧
      Model.Micro.maskScore sym used j = .ok (microEdge (px img) (9 + 2 * v)) := by
  obtain ⟨c, hc, -⟩ := natAt_mformat f j hf hj
  obtain ⟨img3, h3, hr3, hpx3⟩ := placeFormatM_frame (9 + 2 * v) sym hr c
  obtain ⟨pat, hpat, hrp⟩ := mask_image j hj
  obtain ⟨img4, h4', hr4⟩ := mask_ok img3 used pat _ _ 24 17 (by omega) (by omega) hr3 hru hrp (by omega) (by omega)
  obtain ⟨tmp, htmp, hrt⟩ := mask_ok sym used pat _ _ 24 17 (by omega) (by omega) hr hru hrp (by omega) (by omega)
  have hedge : ∀ x y : Nat, x < 9 + 2 * v → y < 9 + 2 * v → (8 < x ∨ 8 < y) → px tmp x y = px img4 x y := by
    intro x y hx hy hxy
    rw [mask_spec sym used pat tmp _ _ 24 17 (by omega) (by omega) hr hru hrp (by omega) (by omega) htmp x y hx hy,
      mask_spec img3 used pat img4 _ _ 24 17 (by omega) (by omega) hr3 hru hrp (by omega) (by omega) h4' x y hx hy,
      hpx3 x y hx hy hxy]
  refine ⟨img4, ?_, ?_⟩
  · unfold finishM
    rw [if_neg (by omega)]
    simp only [hc, Out.bind_ok, h3, hpat, deref, h4']
  · unfold Model.Micro.maskScore
    simp only [hpat, Out.bind_ok, deref, htmp, Lemmas.Penalty.pointMicro_spec hrt]
    congr 1
    apply microEdge_congr
    · intro k hk
      exact hedge _ _ (by omega) (by omega) (Or.inr (by omega))
    · intro k hk
      exact hedge _ _ (by omega) (by omega) (Or.inl (by omega))

/-- Micro QR, automatic masking on the finished symbols -/
theorem micro_finished (q : QRCode) (hv : Micro.Valid q) (hauto : q.mask = -1) :
    ∃ (img : Image) (m : Nat) (imgs : Nat → Image),
      Model.Micro.encodeToBitmap q = .ok img ∧ m < 4 ∧ img = imgs m ∧
      (∀ j : Nat, j < 4 → Model.Micro.encodeToBitmap { q with mask := (j : Int) } = .ok (imgs j)) ∧
      (∀ j, j < 4 → microEdge (C18.px (imgs j)) (9 + 2 * q.version.toNat) ≤
        microEdge (C18.px (imgs m)) (9 + 2 * q.version.toNat)) ∧
      (∀ j, j < m → microEdge (C18.px (imgs j)) (9 + 2 * q.version.toNat) <
        microEdge (C18.px (imgs m)) (9 + 2 * q.version.toNat)) := by
  obtain ⟨v, l, hqv, hql, hp, hs, hfit⟩ := valid_fields q hv
  obtain ⟨version, level, mask, segments⟩ := q
  simp only at hqv hql hs hfit hauto
  subst hqv hql hauto
  obtain ⟨hv1, hv4, hl4, hcap, -⟩ := pair_facts v l hp
  obtain ⟨hbase, hused, hrb, hru, hbin, hfu⟩ := version_images v hv1 hv4
  obtain ⟨f, data, fbuf, sym, sl, hf8, -, hE, -, -, -, -, -, -, hplace, hrs, -, -, -, hall⟩ :=
    pipeline v l segments hp hs hfit
  obtain ⟨m, hm4, hch, -, hauto⟩ := chooseMaskM_spec v hv4 (-1) (by omega) (by omega) sym _ hrs hru
  have hauto := hauto rfl
  simp only [Int.toNat_natCast]
  let imgs : Nat → Image := fun j =>
    match finishM (f : Int) (Image.ofGen (usedGen v)) sym (j : Int) with
    | .ok i => i
    | _ => sym
  have himgs : ∀ j : Nat, j < 4 → finishM (f : Int) (Image.ofGen (usedGen v)) sym (j : Int) = .ok (imgs j) ∧
      Model.Micro.maskScore sym (Image.ofGen (usedGen v)) j = .ok (microEdge (px (imgs j)) (9 + 2 * v)) := by
    intro j hj
    obtain ⟨img, hf, hsc⟩ := maskScore_is_finished v f j hv1 hv4 hf8 hj _ sym hru hrs
    have : imgs j = img := by
      show (match finishM (f : Int) (Image.ofGen (usedGen v)) sym (j : Int) with
        | .ok i => i
        | _ => sym) = img
      rw [hf]
    rw [this]
    exact ⟨hf, hsc⟩
  obtain ⟨s0, s1, s2, s3, e0, e1, e2, e3, -, -, hmax⟩ :=
    QRV.Lemmas.Enc.micro_auto_is_argmax sym _ (m : Int) hauto
  rw [(himgs 0 (by omega)).2] at e0
  rw [(himgs 1 (by omega)).2] at e1
  rw [(himgs 2 (by omega)).2] at e2
  rw [(himgs 3 (by omega)).2] at e3
  injection e0 with e0
  injection e1 with e1
  injection e2 with e2
  injection e3 with e3
  subst e0 e1 e2 e3
  simp only [Int.toNat_natCast] at hmax
  have hget : ∀ j : Nat, j < 4 →
      [microEdge (px (imgs 0)) (9 + 2 * v), microEdge (px (imgs 1)) (9 + 2 * v),
        microEdge (px (imgs 2)) (9 + 2 * v), microEdge (px (imgs 3)) (9 + 2 * v)][j]! =
      microEdge (px (imgs j)) (9 + 2 * v) := by
    intro j hj
    have : j = 0 ∨ j = 1 ∨ j = 2 ∨ j = 3 := by omega
    rcases this with rfl | rfl | rfl | rfl <;> rfl
  refine ⟨imgs m, m, imgs, ?_, hm4, rfl, ?_, ?_, ?_⟩
  · rw [hall (-1) (by omega) (by omega), hch]
    exact (himgs m hm4).1
  · intro j hj
    show Model.Micro.encodeToBitmap { version := v, level := l, mask := (j : Int), segments := segments } = _
    rw [hall (j : Int) (by omega) (by omega)]
    have : chooseMaskM (j : Int) sym (Image.ofGen (usedGen v)) = .ok (j : Int) := by
      unfold chooseMaskM
      rw [if_neg (by unfold Gen.Micro.c_maskAuto; omega)]
      rfl
    rw [this]
    exact (himgs j hj).1
  · intro j hj
    have := (hmax j hj).1
    rw [hget j hj, hget m hm4] at this
    exact this
  · intro j hj
    have := (hmax j (by omega)).2 hj
    rw [hget j (by omega), hget m hm4] at this
    exact this

end QRV.Lemmas.C10F
