import QRV.Lemmas.EncMask
import QRV.Lemmas.C10FinComm
import QRV.Lemmas.Penalty
/-
C10, QR: the candidate the selection loop scores for pattern j ("mask, then format information") IS
the symbol the encoder emits for the explicit pattern j ("format information, then mask"); hence the
automatic choice minimises the penalty of the finished symbols.
-/
namespace QRV.Lemmas.C10F
open QRV QRV.Model QRV.Model.Bitmap QRV.Model.Sym QRV.Model.QR QRV.Model.Bits QRV.Props QRV.Props.C18
open QRV.Lemmas.RT QRV.Lemmas.Enc QRV.Spec.Valid QRV.Spec.Penalty

/-- the image scored for candidate pattern `j` is the finished symbol of pattern `j` -/
theorem score_is_finished (v l j : Nat) (h1 : 1 ≤ v) (h40 : v ≤ 40) (hl : l < 4) (hj : j < 8) (used sym : Image)
    (hru : Regular used (17 + 4 * v) (17 + 4 * v)) (hr : Regular sym (17 + 4 * v) (17 + 4 * v))
    (hbin : ∀ x y, used.binaryAt x y = .ok (usedFn v x y)) :
    ∃ img, finish (l : Int) (16 + 4 * (v : Int)) used sym (j : Int) = .ok img ∧
      Regular img (17 + 4 * v) (17 + 4 * v) ∧
      score (l : Int) (16 + 4 * (v : Int)) used sym j = img.point := by
  obtain ⟨c, hc, -⟩ := natAt_format l j hl hj
  obtain ⟨img3, h3, hr3, -, -⟩ := placeFormat_spec v h1 h40 sym hr c
  obtain ⟨pat, hpat, hrp⟩ := mask_image j hj
  obtain ⟨img4, h4, hr4⟩ := mask_ok img3 used pat _ _ 184 177 (by omega) (by omega) hr3 hru hrp (by omega) (by omega)
  obtain ⟨tmp, htmp, -⟩ := mask_ok sym used pat _ _ 184 177 (by omega) (by omega) hr hru hrp (by omega) (by omega)
  have hcomm : placeFormat tmp (16 + 4 * (v : Int)) c = .ok img4 := by
    rw [placeFormat_eq] at h3 ⊢
    refine writes_mask_comm (by omega) (by omega) hru hrp (by omega) (by omega) _ sym hr ?_ img3 img4 tmp h3 h4 htmp
    intro p hp
    rw [hbin, formatWrites_used v h1 h40 c p hp]
  refine ⟨img4, ?_, hr4, ?_⟩
  · unfold finish
    simp only [hc, Out.bind_ok, h3, hpat, deref, h4]
  · unfold score
    simp only [hpat, Out.bind_ok, deref, htmp, hc, hcomm]

/-- QR, automatic masking on the finished symbols -/
theorem qr_finished (q : QRCode) (hv : QR.Valid q) (hauto : q.mask = -1) :
    ∃ (img : Image) (m : Nat) (imgs : Nat → Image) (pen : Nat → Nat),
      Model.QR.encodeToBitmap q = .ok img ∧ m < 8 ∧ img = imgs m ∧
      (∀ j : Nat, j < 8 → Model.QR.encodeToBitmap { q with mask := (j : Int) } = .ok (imgs j)) ∧
      (∀ j, j < 8 → (imgs j).point = .ok (pen j)) ∧
      (∀ j, j < 8 → ∃ d, (imgs j).pointOnesCount = .ok d ∧
        pen j = n3 (C18.px (imgs j)) (17 + 4 * q.version.toNat) + n1 (C18.px (imgs j)) (17 + 4 * q.version.toNat) +
          n2 (C18.px (imgs j)) (17 + 4 * q.version.toNat) + d) ∧
      (∀ j, j < 8 → pen m ≤ pen j) ∧ (∀ j, j < m → pen m < pen j) := by
  obtain ⟨ibuf, base, used, img1, sym, hbits, hbase, hused, hplace, hvers, hru, hr, hall⟩ := encode_pipeline q hv
  obtain ⟨hv1, hv40⟩ := hv.version
  obtain ⟨hl0, hl4⟩ := hv.level
  have ev : q.version = (q.version.toNat : Int) := by omega
  have el : q.level = (q.level.toNat : Int) := by omega
  have h1 : 1 ≤ q.version.toNat := by omega
  have h40 : q.version.toNat ≤ 40 := by omega
  have hl : q.level.toNat < 4 := by omega
  obtain ⟨-, hused', -, -, hbin⟩ := version_images q.version.toNat h1 h40
  rw [← ev, hused] at hused'
  have hu : used = Image.ofGen (usedGen q.version.toNat) := by
    injection hused' with h
    injection h
  rw [← hu] at hbin
  obtain ⟨sc, m, hsc, hm8, hch, hle, hlt⟩ := chooseMask_argmin q.version.toNat q.level.toNat h1 h40 hl used sym hru hr
  have hfin : ∀ j : Nat, j < 8 → ∃ img, finish q.level (16 + 4 * q.version) used sym (j : Int) = .ok img ∧
      Regular img (17 + 4 * q.version.toNat) (17 + 4 * q.version.toNat) ∧ img.point = .ok (sc j) := by
    intro j hj
    obtain ⟨img, hf, hri, hs⟩ := score_is_finished q.version.toNat q.level.toNat j h1 h40 hl hj used sym hru hr hbin
    rw [hsc j hj] at hs
    rw [← ev, ← el] at hf
    exact ⟨img, hf, hri, hs.symm⟩
  rw [← ev, ← el] at hch
  let imgs : Nat → Image := fun j =>
    match finish q.level (16 + 4 * q.version) used sym (j : Int) with
    | .ok i => i
    | _ => sym
  have himgs : ∀ j : Nat, j < 8 → finish q.level (16 + 4 * q.version) used sym (j : Int) = .ok (imgs j) ∧
      Regular (imgs j) (17 + 4 * q.version.toNat) (17 + 4 * q.version.toNat) ∧ (imgs j).point = .ok (sc j) := by
    intro j hj
    obtain ⟨img, hf, hri, hs⟩ := hfin j hj
    have : imgs j = img := by
      show (match finish q.level (16 + 4 * q.version) used sym (j : Int) with
        | .ok i => i
        | _ => sym) = img
      rw [hf]
    rw [this]
    exact ⟨hf, hri, hs⟩
  refine ⟨imgs m, m, imgs, sc, ?_, hm8, rfl, ?_, fun j hj => (himgs j hj).2.2, ?_, hle, hlt⟩
  · have := hall (-1) (by omega) (by omega)
    have hq : ({ q with mask := -1 } : QRCode) = q := by rw [← hauto]
    rw [hq] at this
    rw [this, hch]
    exact (himgs m hm8).1
  · intro j hj
    rw [hall (j : Int) (by omega) (by omega)]
    have : chooseMask (j : Int) q.level (16 + 4 * q.version) used sym = .ok (j : Int) := by
      unfold chooseMask
      rw [if_neg (by unfold Gen.QR.c_maskAuto; omega)]
      rfl
    rw [this]
    exact (himgs j hj).1
  · intro j hj
    obtain ⟨-, hri, hs⟩ := himgs j hj
    obtain ⟨d, hd, hp⟩ := Lemmas.Penalty.point_spec hri
    rw [hs] at hp
    injection hp with hp
    exact ⟨d, hd, hp⟩

end QRV.Lemmas.C10F
