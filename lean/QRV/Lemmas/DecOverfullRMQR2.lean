import QRV.Lemmas.DecOverfullRMQR
import QRV.Lemmas.DecOverfullQR
import QRV.Lemmas.DecRMQR2
/-
C07 (finding D16, exact bound) — the rMQR decoder on an arbitrary well-formed bitmap: the buffer handed to the segment
loop is `result[:cap.data]`, the data codewords of the capacity row, and the count indicators of every row are 1 to 16
bits wide (kernel evaluation of the regenerated table), so the bound of the segment loop is a bound in terms of the
row's data codewords.
-/
namespace QRV.Lemmas.DecOverfull
open QRV QRV.Model QRV.Model.Bitmap QRV.Model.Sym QRV.Props QRV.Props.C18 QRV.Lemmas.BCH QRV.Lemmas.RT
open QRV.Lemmas.Dec QRV.Lemmas.DecR
open QRV.Spec.Patterns

set_option maxRecDepth 100000

/-- one capacity row: the count indicators of the four modes are not empty -/
def rowPos (v l : Nat) : Bool :=
  match (Gen.RMQR.capacityTable[v]?.getD [])[l]? with
  | none => false
  | some c => (List.range 4).all fun k => decide (0 < Spec.Valid.RMQR.countBits k c)

theorem rowPos_rows : (List.range 32).all (fun v => (List.range 2).all (rowPos v)) = true := by decide +kernel

theorem row_countPos (v l : Nat) (hv : v < 32) (hl : l < 2) (c : Gen.GCap) (hc : Spec.Valid.RMQR.row v l = some c) :
    CountPos c := by
  have h := forall_lt_of_all₂ rowPos_rows v hv l hl
  unfold rowPos at h
  unfold Spec.Valid.RMQR.row at hc
  rw [hc] at h
  dsimp only at h
  intro k hk
  have := forall_lt_of_all h k hk
  simpa using this

/-- the rMQR decoder on a well-formed bitmap: the returned description exceeds the data codewords of the symbol by
less than the last group read for its last segment -/
theorem rmqr_decode_over_sat (img : Image) (hw : WF img) :
    Sat (Model.RMQR.decodeBitmapFull img) (fun p =>
      ∃ v l : Nat, v < 32 ∧ l < 2 ∧ p.1.version = (v : Int) ∧ p.1.level = (l : Int) ∧
        ∀ c, Spec.Valid.RMQR.row v l = some c → ∀ s, p.1.segments.getLast? = some s →
          sumF (Spec.Valid.RMQR.segBits · c) p.1.segments < 8 * c.data + lastGrpR c s) := by
  unfold Model.RMQR.decodeBitmapFull
  dsimp only
  have hreg := normalise_regular' img hw
  refine Sat.bind (decodeFormat_sat _ _ _ hreg) ?_
  rintro _ ⟨v, l, hv, hl, rfl⟩
  dsimp only
  obtain ⟨used, hused, hru, hbin⟩ := used_image v hv
  rw [hused]
  simp only [Out.bind_ok, deref]
  split
  · exact trivial
  rename_i hsb
  have hpos := sizes_bound v hv
  simp only [Bool.and_eq_true, decide_eq_true_eq] at hpos
  obtain ⟨⟨⟨hW0, hW⟩, hH0⟩, hH⟩ := hpos
  have hsize : img.dx = ((RMQR.width v : Nat) : Int) ∧ img.dy = ((RMQR.height v : Nat) : Int) := by
    simp only [Bool.not_eq_true', Bool.not_eq_false] at hsb
    unfold Model.RMQR.sameBounds Image.rectEq Image.rectEmpty at hsb
    simp only [hru.minX, hru.minY, hru.maxX, hru.maxY, Bool.or_eq_true, Bool.and_eq_true, beq_iff_eq,
      decide_eq_true_eq] at hsb
    omega
  obtain ⟨hdx, hdy⟩ := hsize
  generalize hW' : RMQR.width v = W at *
  generalize hH' : RMQR.height v = H at *
  have hidx : Image.dx { pix := img.pix, stride := img.stride, maxX := img.dx, maxY := img.dy } = (W : Int) := by
    show img.dx - 0 = _; omega
  have hidy : Image.dy { pix := img.pix, stride := img.stride, maxX := img.dx, maxY := img.dy } = (H : Int) := by
    show img.dy - 0 = _; omega
  rw [hidx, hidy]
  rw [show img.dx.toNat = W by omega, show img.dy.toNat = H by omega] at hreg
  -- unmasking
  obtain ⟨bin, hmask, hrb⟩ := C18.mask_ok _ used _ W H 144 17 hW0 hH0 hreg hru mask_regular hW hH
  rw [hmask, Out.bind_ok]
  -- the walk
  obtain ⟨cs, hwalk, hcs⟩ := walk_of_checkR v (checkR_all v hv)
  rw [hW', hH'] at hwalk
  obtain ⟨rbuf, hrl, hrinv, hrabs⟩ := readLoopR_eq used bin (usedFnR v) _ hbin
    (fun x y => binaryAt_spec bin _ _ hrb x y) ((H : Int) - 1) _ _ cs {} hwalk C16.inv_empty
  unfold fuelR startR at hrl
  rw [hrl, Out.bind_ok]
  -- capacity row and its block structure
  obtain ⟨cap, hcap, hrow, hshape, hbl, htot⟩ := capAt_row v l hv hl
  rw [hcap, Out.bind_ok]
  obtain ⟨n1, n2, d, e, hs, hd, ht⟩ := shape_of_cap cap hshape
  have hlen : cap.total ≤ rbuf.buf.toList.length := by
    rw [C16.bytes_are_packing rbuf hrinv, length_pack, hrabs, C16.abs_empty, List.nil_append,
      List.length_map]
    exact hcs _ htot
  obtain ⟨blks, hde, hsz, hall⟩ := deinterleave_any cap.blocks n1 n2 d e hs cap.data cap.total hd.symm ht
    rbuf.buf.toList hrinv.bytes_lt hlen
  rw [hde, Out.bind_ok]
  -- error correction
  refine Sat.bind (rsLoopR_sat blks hall #[]) ?_
  intro result hres
  have hsum := sum_data_of_shape cap.blocks n1 n2 d e hs blks hsz
  rw [hsum, hd] at hres
  have hres' : result.size = cap.data := by simpa using hres
  rw [if_neg (by omega)]
  -- segments: the buffer is `result[:cap.data]`
  have hcp := row_countPos v l hv hl cap hrow
  refine Sat.bind (Sat.of_imp (Q := fun segs : List Segment => ∀ s, segs.getLast? = some s →
      sumF (Spec.Valid.RMQR.segBits · cap) segs < 8 * cap.data + lastGrpR cap s)
    (segmentLoopR_sat cap hbl _ { buf := result.extract 0 cap.data } #[]
      (by show (0 : Nat) < 8; decide) (by unfold rem cur; simp; omega) (by simp)) ?_) ?_
  · intro segs e _ s hs
    have := segmentLoopR_over cap hbl hcp _ { buf := result.extract 0 cap.data } #[]
      ⟨by show (0 : Nat) < 8; decide, by unfold cur; simp, Or.inl (by simp [sumF])⟩ (by simp) segs e s hs
    have hsz : (result.extract 0 cap.data).size ≤ cap.data := by simp; omega
    dsimp only at this
    omega
  intro segs hsegs
  refine Sat.pure ⟨v, l, hv, hl, rfl, rfl, ?_⟩
  intro c hc s hs
  rw [hrow] at hc
  cases hc
  exact hsegs s hs

theorem rmqr_decodeBitmap_over_sat (img : Image) (hw : WF img) :
    Sat (Model.RMQR.decodeBitmap img) (fun q =>
      ∃ v l : Nat, v < 32 ∧ l < 2 ∧ q.version = (v : Int) ∧ q.level = (l : Int) ∧
        ∀ c, Spec.Valid.RMQR.row v l = some c → ∀ s, q.segments.getLast? = some s →
          sumF (Spec.Valid.RMQR.segBits · c) q.segments < 8 * c.data + lastGrpR c s) := by
  unfold Model.RMQR.decodeBitmap
  exact Sat.bind (rmqr_decode_over_sat img hw) (fun p hp => hp)

end QRV.Lemmas.DecOverfull
