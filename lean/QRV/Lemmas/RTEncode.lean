import QRV.Lemmas.RTFormat
import QRV.Lemmas.RTTables
import QRV.Lemmas.RTPoint
/-
Encoder side of the round trip after the placement: `encodeToBitmap` as a sequence of named steps,
the version-information step, the (automatic or explicit) mask choice and the final format
information + masking step, each with what it does to the pixels.
-/
namespace QRV.Lemmas.RT
open QRV QRV.Model QRV.Model.Bitmap QRV.Model.Sym QRV.Props QRV.Props.C18 QRV.Model.QR QRV.Model.Bits

/-! ### `encodeToBitmap` in named steps -/

/-- the last steps of `encodeToBitmap`: format information, then masking -/
def finish (level w : Int) (used img : Image) (mask : Int) : Out Image := do
  let format ← natAt Gen.QR.encodedFormat (level * 8 + mask)
  let img ← placeFormat img w format
  let __do_lift ← imgAt maskList mask
  let pat ← deref __do_lift
  img.mask used pat

/-- the automatic mask selection loop of `encodeToBitmap` -/
def autoLoop (level w : Int) (used img : Image) : Out (Int × Nat × Bool) :=
  forIn [:Gen.QR.c_maskMax.toNat] ((0 : Int), (0 : Nat), true) fun (i : Nat) __s =>
    have mask := __s.fst;
    have __s := __s.snd;
    have minPoint := __s.fst;
    have first := __s.snd;
    do
    let __do_lift ← imgAt maskList ↑i
    let pat ← deref __do_lift
    let tmp ← img.mask used pat
    let format ← natAt Gen.QR.encodedFormat (level * 8 + ↑i)
    let tmp ← placeFormat tmp w format
    let point ← tmp.point
    have __do_jp : Unit → Int → Nat → Out (ForInStep (Int × Nat × Bool)) := fun __r mask minPoint =>
      have first := false;
      pure (ForInStep.yield (mask, minPoint, first))
    if (!AUTO_MASK_INIT_ZERO && first || decide (point < minPoint)) = true then
        have minPoint := point;
        have mask := ↑i;
        __do_jp () mask minPoint
      else __do_jp () mask minPoint

def chooseMask (mask level w : Int) (used img : Image) : Out Int :=
  if mask = Gen.QR.c_maskAuto then do
    let s ← autoLoop level w used img
    pure s.fst
  else pure mask

def versionStep (version w : Int) (img : Image) : Out Image :=
  if version ≥ 7 then do
    let ver ← natAt Gen.QR.encodedVersion version
    versionLoop w ver img
  else pure img

theorem encodeToBitmap_eq (q : QRCode) (h1 : versionIsValid q.version = true) (h2 : levelIsValid q.level = true)
    (h3 : q.version ≠ 0) (h4 : maskIsValid q.mask = true) :
    encodeToBitmap q = (do
      let buf ← encodeToBits q {}
      let w : Int := 16 + 4 * q.version
      let img ← deref (← imgAt baseList q.version)
      let usedO ← imgAt usedList q.version
      let used ← deref usedO
      let img ← placeLoop used w ((w + 3) * (w + 3)).toNat { x := w, y := w, dy := -1 } buf img
      let img ← versionStep q.version w img
      let m ← chooseMask q.mask q.level w used img
      finish q.level w used img m) := by
  unfold encodeToBitmap
  simp only [h1, h2, h3, h4, Bool.not_true, Bool.false_eq_true, if_false]
  unfold versionStep chooseMask
  by_cases hq7 : q.version ≥ 7 <;> by_cases hm : q.mask = Gen.QR.c_maskAuto <;>
    simp only [hq7, hm, if_true, if_false, bind_assoc, pure_bind] <;> rfl

/-! ### list helper -/

theorem zip_nodup_lookup {α β : Type} (cs : List α) (bs : List β) (hn : cs.Nodup) (k : Nat)
    (hk : k < cs.length) (hkb : k < bs.length) :
    (∀ p ∈ cs.zip bs, p.1 = cs[k] → p.2 = bs[k]) ∧ ∃ p ∈ cs.zip bs, p.1 = cs[k] := by
  constructor
  · intro p hp he
    obtain ⟨j, hj, rfl⟩ := List.mem_iff_getElem.mp hp
    rw [List.getElem_zip] at he ⊢
    simp only at he ⊢
    have hj' : j < cs.length := by rw [List.length_zip] at hj; omega
    have : j = k := (List.getElem_inj hn).mp he
    subst this
    rfl
  · refine ⟨(cs[k], bs[k]), ?_, rfl⟩
    have hz : k < (cs.zip bs).length := by rw [List.length_zip]; omega
    have : (cs.zip bs)[k] = (cs[k], bs[k]) := List.getElem_zip
    rw [← this]
    exact List.getElem_mem hz

/-! ### used pixels -/

/-- inside the symbol the used bitmap's pixel is `usedFn` -/
theorem used_px (v : Nat) (used : Image) (hru : Regular used (17 + 4 * v) (17 + 4 * v))
    (hbin : ∀ x y, used.binaryAt x y = .ok (usedFn v x y)) (x y : Nat) (hx : x < 17 + 4 * v) (hy : y < 17 + 4 * v) :
    px used x y = usedFn v (x : Int) (y : Int) := by
  have h := hbin (x : Int) (y : Int)
  rw [binaryAt_spec _ _ _ hru, if_pos (by omega)] at h
  simp only [Int.toNat_natCast] at h
  injection h

/-! ### the version information step -/

theorem versionStep_spec (v : Nat) (h1 : 1 ≤ v) (h40 : v ≤ 40) (img : Image)
    (hr : Regular img (17 + 4 * v) (17 + 4 * v)) :
    ∃ img', versionStep (v : Int) (16 + 4 * (v : Int)) img = .ok img' ∧
      Regular img' (17 + 4 * v) (17 + 4 * v) ∧
      ∀ x y : Nat, x < 17 + 4 * v → y < 17 + 4 * v → usedFn v (x : Int) (y : Int) = false →
        px img' x y = px img x y := by
  unfold versionStep
  by_cases h7 : (v : Int) ≥ 7
  · rw [if_pos h7]
    have hlen := version_words_length
    obtain ⟨ver, hver⟩ : ∃ ver, Gen.QR.encodedVersion[v]? = some ver := by
      have : v < Gen.QR.encodedVersion.length := by rw [hlen]; omega
      exact ⟨_, List.getElem?_eq_getElem this⟩
    have hnat : natAt Gen.QR.encodedVersion (v : Int) = .ok ver := by
      unfold natAt
      rw [if_neg (by omega)]
      simp only [Int.toNat_natCast, hver]
    rw [hnat, Out.bind_ok, versionLoop_eq]
    obtain ⟨img', he, hr', hpx⟩ := writes_spec _ _ (versionWrites (16 + 4 * (v : Int)) ver) img hr
    refine ⟨img', he, hr', fun x y hx hy hu => (hpx x y hx hy).1 ?_⟩
    intro p hp hpe
    have := versionWrites_used v (by omega) h40 ver p hp
    rw [hpe] at this
    simp only at this
    rw [hu] at this
    cases this
  · rw [if_neg h7]
    exact ⟨img, rfl, hr, fun _ _ _ _ _ => rfl⟩

/-! ### format information -/

theorem natAt_format (l m : Nat) (hl : l < 4) (hm : m < 8) :
    ∃ c, natAt Gen.QR.encodedFormat ((l : Int) * 8 + (m : Int)) = .ok c ∧
      Gen.QR.encodedFormat[l * 8 + m]? = some c := by
  have hlen := format_words_length
  have hlt : l * 8 + m < Gen.QR.encodedFormat.length := by rw [hlen]; omega
  refine ⟨_, ?_, List.getElem?_eq_getElem hlt⟩
  unfold natAt
  rw [if_neg (by omega)]
  have : ((l : Int) * 8 + (m : Int)).toNat = l * 8 + m := by omega
  rw [this, List.getElem?_eq_getElem hlt]

theorem placeFormat_spec (v : Nat) (h1 : 1 ≤ v) (h40 : v ≤ 40) (img : Image)
    (hr : Regular img (17 + 4 * v) (17 + 4 * v)) (fmt : Nat) :
    ∃ img', placeFormat img (16 + 4 * (v : Int)) fmt = .ok img' ∧
      Regular img' (17 + 4 * v) (17 + 4 * v) ∧
      (∀ x y : Nat, x < 17 + 4 * v → y < 17 + 4 * v → usedFn v (x : Int) (y : Int) = false →
        px img' x y = px img x y) ∧
      (∀ i : Nat, i < 8 → px img' 8 (sk i) = fmt.testBit i ∧ px img' (sk i) 8 = fmt.testBit (14 - i)) := by
  rw [placeFormat_eq]
  obtain ⟨img', he, hr', hpx⟩ := writes_spec _ _ (formatWrites (16 + 4 * (v : Int)) fmt) img hr
  refine ⟨img', he, hr', ?_, ?_⟩
  · intro x y hx hy hu
    refine (hpx x y hx hy).1 ?_
    intro p hp hpe
    have := formatWrites_used v h1 h40 fmt p hp
    rw [hpe] at this
    simp only at this
    rw [hu] at this
    cases this
  · intro i hi
    have hs := sk_le i hi
    obtain ⟨⟨ha, hb⟩, ⟨hc, hd⟩⟩ := format_first_copy (16 + 4 * (v : Int)) (by omega) fmt i hi
    exact ⟨(hpx 8 (sk i) (by omega) (by omega)).2 _ ha hb, (hpx (sk i) 8 (by omega) (by omega)).2 _ hc hd⟩

/-! ### the mask choice -/

theorem forIn_range'_inv {β : Type} (P : β → Prop) (n a : Nat) (init : β) (F : Nat → β → Out (ForInStep β))
    (h0 : P init)
    (hstep : ∀ k b, a ≤ k → k < a + n → P b → ∃ b', F k b = .ok (.yield b') ∧ P b') :
    ∃ b, forIn (List.range' a n) init F = .ok b ∧ P b :=
  Lemmas.Bitmap.forIn_range'_ok F (fun _ b => P b) n a init h0 hstep

theorem autoLoop_spec (v l : Nat) (h1 : 1 ≤ v) (h40 : v ≤ 40) (hl : l < 4) (used img : Image)
    (hru : Regular used (17 + 4 * v) (17 + 4 * v)) (hr : Regular img (17 + 4 * v) (17 + 4 * v)) :
    ∃ s, autoLoop (l : Int) (16 + 4 * (v : Int)) used img = .ok s ∧ ∃ m : Nat, m < 8 ∧ s.1 = (m : Int) := by
  unfold autoLoop
  have h8 : Gen.QR.c_maskMax.toNat = 8 := rfl
  simp only [Std.Legacy.Range.forIn_eq_forIn_range', Std.Legacy.Range.size, h8]
  refine forIn_range'_inv (fun (s : Int × Nat × Bool) => ∃ m : Nat, m < 8 ∧ s.1 = (m : Int)) _ _ _ _ ⟨0, by omega, rfl⟩ ?_
  intro k s _ hk8 hPk
  have hk : k < 8 := by omega
  obtain ⟨pat, hpat, hrp⟩ := mask_image k hk
  obtain ⟨tmp, htmp, hrt⟩ := mask_ok img used pat _ _ 184 177 (by omega) (by omega) hr hru hrp (by omega) (by omega)
  obtain ⟨c, hc, _⟩ := natAt_format l k hl hk
  obtain ⟨tmp', htmp', hrt', _⟩ := placeFormat_spec v h1 h40 tmp hrt c
  obtain ⟨pt, hpt⟩ := point_ok tmp' _ _ hrt'
  simp only [hpat, Out.bind_ok, deref, htmp, hc, htmp', hpt]
  split
  · exact ⟨_, rfl, k, hk, rfl⟩
  · exact ⟨_, rfl, hPk⟩

theorem chooseMask_spec (v l : Nat) (h1 : 1 ≤ v) (h40 : v ≤ 40) (hl : l < 4) (mask : Int)
    (hm1 : -1 ≤ mask) (hm7 : mask ≤ 7) (used img : Image)
    (hru : Regular used (17 + 4 * v) (17 + 4 * v)) (hr : Regular img (17 + 4 * v) (17 + 4 * v)) :
    ∃ m : Nat, m < 8 ∧ chooseMask mask (l : Int) (16 + 4 * (v : Int)) used img = .ok (m : Int) ∧
      (0 ≤ mask → (m : Int) = mask) := by
  unfold chooseMask
  have ha : Gen.QR.c_maskAuto = -1 := rfl
  by_cases hm : mask = Gen.QR.c_maskAuto
  · rw [if_pos hm]
    obtain ⟨s, hs, m, hm8, hsm⟩ := autoLoop_spec v l h1 h40 hl used img hru hr
    refine ⟨m, hm8, ?_, fun h0 => by omega⟩
    rw [hs, Out.bind_ok, hsm]
    rfl
  · rw [if_neg hm]
    obtain ⟨m, rfl⟩ := Int.eq_ofNat_of_zero_le (show 0 ≤ mask by omega)
    exact ⟨m, by omega, rfl, fun _ => rfl⟩

/-! ### the final step -/

theorem finish_spec (v l m : Nat) (h1 : 1 ≤ v) (h40 : v ≤ 40) (hl : l < 4) (hm : m < 8) (used img : Image)
    (hru : Regular used (17 + 4 * v) (17 + 4 * v)) (hr : Regular img (17 + 4 * v) (17 + 4 * v)) :
    ∃ c img3 pat img4, finish (l : Int) (16 + 4 * (v : Int)) used img (m : Int) = .ok img4 ∧
      Gen.QR.encodedFormat[l * 8 + m]? = some c ∧
      imgAt maskList (m : Int) = .ok (some pat) ∧ Regular pat 184 177 ∧
      Regular img3 (17 + 4 * v) (17 + 4 * v) ∧ Regular img4 (17 + 4 * v) (17 + 4 * v) ∧
      Image.mask img3 used pat = .ok img4 ∧
      (∀ x y : Nat, x < 17 + 4 * v → y < 17 + 4 * v → usedFn v (x : Int) (y : Int) = false →
        px img3 x y = px img x y) ∧
      (∀ i : Nat, i < 8 → px img3 8 (sk i) = c.testBit i ∧ px img3 (sk i) 8 = c.testBit (14 - i)) := by
  obtain ⟨c, hc, hct⟩ := natAt_format l m hl hm
  obtain ⟨img3, h3, hr3, hpx, hfc⟩ := placeFormat_spec v h1 h40 img hr c
  obtain ⟨pat, hpat, hrp⟩ := mask_image m hm
  obtain ⟨img4, h4, hr4⟩ := mask_ok img3 used pat _ _ 184 177 (by omega) (by omega) hr3 hru hrp (by omega) (by omega)
  refine ⟨c, img3, pat, img4, ?_, hct, hpat, hrp, hr3, hr4, h4, hpx, hfc⟩
  unfold finish
  simp only [hc, Out.bind_ok, h3, hpat, deref, h4]

end QRV.Lemmas.RT
