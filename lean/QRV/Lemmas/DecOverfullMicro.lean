import QRV.Lemmas.DecOverfullMicroRMQR
/-
C07 (finding D16, exact bound) — the segment loop of the Micro QR decoder (`Model.Micro.segmentLoop`, Go:
`decodeVersion1..4`) over an arbitrary byte buffer: whatever the loop returns needs fewer bits than `8 * size` + (width
of the last group read for the last segment).

Differences from the QR loop, none of which hurts the bound: M1 reads no mode indicator; an EOF on the count indicator
ends the loop quietly (the zero-extended mode indicator before it is not part of the description); a numeric count of
zero is the terminator; M4 drops empty segments (their bits were read inside the data or exhausted it, and they are
not part of the description).  Every read that returned a value started strictly inside the data, so whatever was
accumulated BEFORE it lies inside the data.
-/
namespace QRV.Lemmas.DecOverfull
open QRV QRV.Model.Bits QRV.Model.Codec QRV.Model.Sym QRV.Model.Utf8 QRV.Spec.Valid QRV.Lemmas.Kanji QRV.Lemmas.Dec

/-- width of the last group the Micro QR decoder read for a segment (the count field if the segment is empty) -/
def lastGrpM (v : Nat) (s : Segment) : Nat :=
  match Micro.kindOf s.mode with
  | some k => if count k s.data = 0 then (Micro.countBits k v).getD 0 else lastG k (count k s.data)
  | none => 0

theorem micro_modeBits_spec (version : Int) (h1 : 1 ≤ version) (h4 : version ≤ 4) :
    Model.Micro.modeBits version = Micro.modeBits version.toNat := by
  unfold Model.Micro.modeBits Micro.modeBits
  split
  · omega
  · split
    · omega
    · split <;> omega

/-- the segment loop over an arbitrary buffer: the description returned exceeds the `8 * size` bits of the buffer by
less than the last group read for its last segment -/
theorem micro_segmentLoop_over (version : Int) (h1 : 1 ≤ version) (h4 : version ≤ 4) (fuel : Nat) :
    ∀ (b : Buffer) (acc : Array Segment),
      Inv (sumF (Micro.segBits · version.toNat) acc.toList) (lastF (lastGrpM version.toNat) acc.toList) b →
      (∀ s ∈ acc.toList, 0 < lastGrpM version.toNat s) →
      ∀ segs, Model.Micro.segmentLoop version fuel b acc = .ok segs →
      ∀ s, segs.getLast? = some s →
        sumF (Micro.segBits · version.toNat) segs < 8 * b.buf.size + lastGrpM version.toNat s := by
  induction fuel with
  | zero => intro b acc _ _ segs e; rw [Model.Micro.segmentLoop] at e; cases e
  | succ fuel ih =>
    intro b acc hI hpos segs e s hs
    rw [Model.Micro.segmentLoop] at e
    dsimp only at e
    obtain ⟨⟨b1, modeO⟩, e1, e2⟩ := bind_eq_ok e
    dsimp only at e2
    cases modeO with
    | none =>
      simp only [pure, Out.ok.injEq] at e2
      subst e2
      exact stop_boundF _ _ b _ hI hpos s hs
    | some mode =>
      dsimp only at e2
      -- the mode indicator (none in M1): the invariant advances by its width
      have hmb3 := micro_modeBits_le version
      have hstep : ∃ g', Inv (sumF (Micro.segBits · version.toNat) acc.toList + Model.Micro.modeBits version) g' b1 ∧
          b1.buf = b.buf := by
        by_cases hmb : Model.Micro.modeBits version = 0
        · rw [if_pos hmb] at e1
          simp only [pure, Out.ok.injEq, Prod.mk.injEq] at e1
          obtain ⟨rfl, -⟩ := e1
          exact ⟨_, hI.cast (by omega) rfl, rfl⟩
        · rw [if_neg hmb] at e1
          obtain ⟨h, hb, -, -, -⟩ := readBits_step _ _ (Model.Micro.modeBits version) (by omega) b b1 mode hI e1
          exact ⟨_, h, hb⟩
      obtain ⟨g', hI1, hb1⟩ := hstep
      cases hcb : Model.Micro.countBits mode version with
      | none => rw [hcb] at e2; cases e2
      | some cb =>
        rw [hcb] at e2
        dsimp only at e2
        obtain ⟨hm4, hspec, hcb0, hcb6⟩ := micro_countBits_spec mode version h1 h4 cb hcb
        obtain ⟨⟨b2, lenO⟩, e3, e4⟩ := bind_eq_ok e2
        dsimp only at e4
        cases lenO with
        | none =>
          simp only [pure, Out.ok.injEq] at e4
          subst e4
          exact stop_boundF _ _ b _ hI hpos s hs
        | some len =>
          dsimp only at e4
          obtain ⟨hI2, hb2, hN1, hmono2, hlt1⟩ := readBits_step _ _ cb (by omega) b1 b2 len hI1 e3
          split at e4
          · -- a numeric count of zero: the terminator
            simp only [pure, Out.ok.injEq] at e4
            subst e4
            exact stop_boundF _ _ b _ hI hpos s hs
          · obtain ⟨⟨b3, data⟩, e5, e6⟩ := bind_eq_ok e4
            dsimp only at e6
            have hdd : (if mode = Model.Micro.modeNumeric then decodeNumeric b2 len
                else if mode = Model.Micro.modeAlphanumeric then decodeAlphanumeric b2 len
                else if mode = Model.Micro.modeBytes then decodeBytes b2 len
                else decodeKanji b2 len) = DecR.decodeKind mode b2 len := rfl
            rw [hdd] at e5
            obtain ⟨hc, hb3, hI3⟩ := decodeKind_over mode hm4 b2 _ _ hI2 len b3 data e5
            have hsize : b3.buf.size = b.buf.size := by rw [hb3, hb2, hb1]
            split at e6
            · -- M4 drops an empty segment: what was accumulated lies inside the data
              have hI' : Inv (sumF (Micro.segBits · version.toNat) acc.toList)
                  (lastF (lastGrpM version.toNat) acc.toList) b3 := by
                refine ⟨hI3.1, hI3.2.1, Or.inl ?_⟩
                have hle1 := hI1.2.1
                have hle3 := hI3.2.1
                rw [hb3, hb2] at hle3
                rcases hI3.2.2 with h | ⟨h, -⟩
                · omega
                · rw [hb3, hb2] at h; omega
              have := ih b3 acc hI' hpos segs e6 s hs
              rw [hsize] at this
              exact this
            · -- the segment is kept
              have hk : Micro.kindOf mode = some mode := by unfold Micro.kindOf; rw [if_pos hm4]
              have hsb : Micro.segBits { mode, data } version.toNat =
                  Model.Micro.modeBits version + cb + bodyBits mode len := by
                unfold Micro.segBits
                dsimp only
                rw [hk]
                dsimp only
                rw [hspec]
                dsimp only
                rw [hc, micro_modeBits_spec version h1 h4]
              have hlg : lastGrpM version.toNat { mode, data } = if len = 0 then cb else lastG mode len := by
                unfold lastGrpM
                dsimp only
                rw [hk]
                dsimp only
                rw [hspec, hc]
                rfl
              have hgpos : 0 < lastGrpM version.toNat { mode, data } := by
                rw [hlg]
                split
                · exact hcb0
                · exact lastG_pos _ _
              have := ih b3 (acc.push { mode, data })
                (by rw [sumF_push, lastF_push, hsb, hlg]; exact hI3.cast (by omega) rfl)
                (pos_push _ acc _ hpos hgpos) segs e6 s hs
              rw [hsize] at this
              exact this

end QRV.Lemmas.DecOverfull
