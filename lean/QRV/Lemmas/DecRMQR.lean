import QRV.Lemmas.DecQR
import QRV.Lemmas.DecMicro
import QRV.Lemmas.Pat.RMQR
/-
C06 — rMQR: the decoder reads the version information of the normalised bitmap (never a panic on a
well-formed bitmap; the version index is below 32), looks up the function map of that version
(geometry: `rmqr_geom`) and answers a bitmap of any other size with an error.
-/
namespace QRV.Lemmas.Dec
open QRV QRV.Model QRV.Model.Bitmap QRV.Model.Sym QRV.Props QRV.Props.C18 QRV.Lemmas.BCH QRV.Lemmas.RT
open QRV.Spec.Patterns

theorem rmqr_sizes_pos : ∀ v, v < 32 → (decide (0 < RMQR.width v) && decide (0 < RMQR.height v)) = true :=
  forall_lt_of_all (by decide +kernel)

theorem rmqr_used_image (v : Nat) (hv : v < 32) :
    ∃ used, imgAt Model.RMQR.usedList (v : Int) = .ok (some used) ∧ used.minX = 0 ∧ used.minY = 0 ∧
      used.maxX = ((RMQR.width v : Nat) : Int) ∧ used.maxY = ((RMQR.height v : Nat) : Int) := by
  have hg := congrArg (·[v]?) (Lemmas.Pat.rmqr_geom.2.trans Lemmas.Pat.rmqr_geom.1)
  have hr := congrArg (·[v]?) Lemmas.Pat.rmqr_used
  simp only [List.getElem?_map, List.getElem?_range hv, Option.map_some] at hg hr
  cases hu : Gen.RMQR.usedList[v]? with
  | none => rw [hu] at hg; cases hg
  | some g =>
    rw [hu] at hg hr
    simp only [Option.map_some, Option.some.injEq, Prod.mk.injEq] at hg hr
    obtain ⟨g0, g1, g2, g3, -⟩ := hg
    have hpos := rmqr_sizes_pos v hv
    simp only [Bool.and_eq_true, decide_eq_true_eq] at hpos
    have hne : g.rows ≠ [] := by
      intro h0
      have : g.rows.length = RMQR.height v := by rw [hr]; exact packRows_length ..
      rw [h0] at this
      simp at this
      omega
    exact ⟨Image.ofGen g, imgAt_ofGenList _ v g hu hne, g0, g1, g2, g3⟩

theorem rmqr_decodeFormat0_range (raw : Nat) (r : Int × Int) (h : Model.RMQR.decodeFormat0 raw = some r) :
    ∃ v : Nat, v < 32 ∧ r.1 = (v : Int) := by
  rw [rmqr_decodeFormat0_eq] at h
  split at h
  · cases h
  · refine ⟨(scan Gen.RMQR.encodedVersion raw).1 &&& 0x1f, ?_, by rw [← Option.some.inj h]⟩
    rw [show (0x1f : Nat) = 2 ^ 5 - 1 by decide, Nat.and_two_pow_sub_one_eq_mod]
    exact Nat.mod_lt _ (by decide)

theorem rmqr_decodeFormat_sat (img : Image) (w h : Nat) (hr : Regular img w h) :
    Sat (Model.RMQR.decodeFormat img) (fun r => ∃ v : Nat, v < 32 ∧ r.1 = (v : Int)) := by
  rw [rmqr_decodeFormat_factor]
  have hread := binaryAt_sat img w h hr
  refine Sat.bind (P := fun _ => True) ?_ ?_
  · unfold rmqrRead1
    refine Sat.bind (Sat.forIn_range _ (fun _ => True) 18 _ trivial ?_) (fun _ _ => trivial)
    intro i _ s _
    sat_reads hread
  · intro raw _
    unfold twoCopy
    cases h1 : Model.RMQR.decodeFormat0 (raw ^^^ Model.RMQR.fmtMask1) with
    | some r => exact rmqr_decodeFormat0_range _ _ h1
    | none =>
      dsimp only
      refine Sat.bind (P := fun _ => True) ?_ ?_
      · refine Sat.bind (P := fun _ => True) ?_ (fun _ _ => trivial)
        unfold rmqrRead2
        dsimp only
        refine Sat.bind (Sat.forIn_range _ (fun _ => True) 15 _ trivial ?_) (fun _ _ => ?_)
        · intro i _ s _
          sat_reads hread
        · sat_reads hread
      · intro raw2 _
        cases h2 : Model.RMQR.decodeFormat0 raw2 with
        | some r => exact rmqr_decodeFormat0_range _ _ h2
        | none => exact trivial

theorem rmqr_wrong_size (img : Image) (hw : WF img)
    (h : ∀ v, v < 32 → ¬ (img.dx = (RMQR.width v : Nat) ∧ img.dy = (RMQR.height v : Nat))) :
    (Model.RMQR.decodeBitmap img).isErr = true := by
  unfold Model.RMQR.decodeBitmap
  refine Fails.bind_left ?_
  unfold Model.RMQR.decodeBitmapFull
  dsimp only
  have hreg := normalise_regular' img hw
  refine Fails.bind (rmqr_decodeFormat_sat _ _ _ hreg) ?_
  rintro ⟨ver, lvl⟩ ⟨v, hv, rfl⟩
  dsimp only
  obtain ⟨used, hused, u0, u1, u2, u3⟩ := rmqr_used_image v hv
  rw [hused]
  simp only [Out.bind_ok, deref]
  have hpos := rmqr_sizes_pos v hv
  simp only [Bool.and_eq_true, decide_eq_true_eq] at hpos
  have hsb : Model.RMQR.sameBounds { pix := img.pix, stride := img.stride, maxX := img.dx, maxY := img.dy } used = false := by
    unfold Model.RMQR.sameBounds Image.rectEq Image.rectEmpty
    have := h v hv
    simp only [u0, u1, u2, u3]
    simp only [Bool.or_eq_false_iff, Bool.and_eq_false_iff, beq_eq_false_iff_ne, decide_eq_false_iff_not]
    omega
  rw [hsb]
  exact Fails.err
end QRV.Lemmas.Dec
