import QRV.Lemmas.MicroRTDefs
import QRV.Lemmas.RTStream
import QRV.Lemmas.RTBlocks
/-
Round trip C01 (Micro QR), the data bit stream, encoder side: a declarative description of the
stream (`segStream`, `mtail`) and the proof that `Model.Micro.encodeSegments` writes exactly that,
followed by the Reed-Solomon codewords (`stream_layout`).  The decoder side is `MicroRTParse.lean`.
-/
namespace QRV.Lemmas.MRT
open QRV QRV.Model QRV.Model.Bits QRV.Model.Sym QRV.Model.Codec QRV.Spec.Bits QRV.Spec.Codec
open QRV.Spec.Valid QRV.Spec.Tables QRV.Lemmas.Bits QRV.Lemmas.Codec QRV.Lemmas.Kanji
open QRV.Props
open QRV.Lemmas.RT (bodyStream kanjiCodes bitsMSB_zero writeBits_int valid_numeric valid_alnum valid_isKanji
  bodyStream_length inv_len_mod stream_bytes parityOf parityOf_facts)

/-! ### the stream, declaratively -/

/-- one segment: mode indicator (`v - 1` bits), character count in the version's width, the data -/
def segStream (v : Nat) (s : Segment) : List Bool :=
  match Spec.Valid.Micro.kindOf s.mode with
  | some k =>
    match Spec.Valid.Micro.countBits k v with
    | some cb => bitsMSB s.mode (Spec.Valid.Micro.modeBits v) ++ bitsMSB (count k s.data) cb ++ bodyStream k s.data
    | none => []
  | none => []

/-- validity of one segment, as in `Micro.Valid.segments` -/
def SegOK (v : Nat) (s : Segment) : Prop :=
  ∃ k cb, Spec.Valid.Micro.kindOf s.mode = some k ∧ Spec.Valid.Micro.countBits k v = some cb ∧
    ValidData k s.data ∧ count k s.data < 2 ^ cb

/-- length of the terminator: mode indicator plus numeric count indicator, all zero: 3/5/7/9 -/
def termLen (v : Nat) : Nat := 2 * v + 1

/-- `n` pad half-codewords: 1110 1100 0001 0001 … (0xEC, 0x11, …) -/
def nibbles (n : Nat) : List Bool :=
  (List.range n).flatMap fun i => bitsMSB (if i % 4 = 0 then 14 else if i % 4 = 1 then 12 else 1) 4

/-- what follows the segments (`len` bits) in a symbol of `D` data bits in `data8 / 8` codewords:
the terminator (`term` zero bits) truncated to the room left; if room is left after it: zero bits to the byte boundary
and pad half-codewords up to `D`; zero bits up to the codeword boundary `data8` -/
def mtail (term D data8 len : Nat) : List Bool :=
  let t := min term (D - len)
  let len1 := len + t
  if len1 < D then
    let z := (8 - len1 % 8) % 8
    let np := (D - (len1 + z)) / 4
    List.replicate (t + z) false ++ (nibbles np ++ List.replicate (data8 - (len1 + z + 4 * np)) false)
  else List.replicate t false ++ List.replicate (data8 - len1) false

/-- what the segment loop of the decoder may meet after the last segment: the first `term`
bits (as many as there are) are zero -/
def TailOK (term : Nat) (tail : List Bool) : Prop := ∀ b ∈ tail.take term, b = false

/-! ### small facts about the tables of 18004 Table 3 -/

theorem kindOf_some {m k : Nat} (h : Spec.Valid.Micro.kindOf m = some k) : m < 4 ∧ k = m := by
  unfold Spec.Valid.Micro.kindOf at h
  split at h
  · exact ⟨‹_›, (Option.some.inj h).symm⟩
  · cases h

/-- the twelve (kind, version, width) triples -/
theorem countBits_cases {k v cb : Nat} (h : Spec.Valid.Micro.countBits k v = some cb) :
    (k, v, cb) ∈ [(0, 1, 3), (0, 2, 4), (0, 3, 5), (0, 4, 6), (1, 2, 3), (1, 3, 4), (1, 4, 5),
      (2, 3, 4), (2, 4, 5), (3, 3, 3), (3, 4, 4)] := by
  unfold Spec.Valid.Micro.countBits at h
  split at h <;> first | (cases h; simp) | cases h

theorem countBits_facts {k v cb : Nat} (h : Spec.Valid.Micro.countBits k v = some cb) :
    k < 4 ∧ 1 ≤ v ∧ v ≤ 4 ∧ 3 ≤ cb ∧ cb ≤ 6 ∧ k < 2 ^ (v - 1) ∧
      Model.Micro.countBits k (v : Int) = some cb ∧ Model.Micro.modeBits (v : Int) = v - 1 ∧
      (k = 0 → Spec.Valid.Micro.modeBits v + cb = termLen v) := by
  have := countBits_cases h
  simp only [List.mem_cons, Prod.mk.injEq, List.not_mem_nil, or_false] at this
  rcases this with ⟨rfl, rfl, rfl⟩ | ⟨rfl, rfl, rfl⟩ | ⟨rfl, rfl, rfl⟩ | ⟨rfl, rfl, rfl⟩ | ⟨rfl, rfl, rfl⟩ |
    ⟨rfl, rfl, rfl⟩ | ⟨rfl, rfl, rfl⟩ | ⟨rfl, rfl, rfl⟩ | ⟨rfl, rfl, rfl⟩ | ⟨rfl, rfl, rfl⟩ | ⟨rfl, rfl, rfl⟩ <;> decide

theorem qr_mode_of_kind (k : Nat) (hk : k < 4) : ∃ m, QR.kindOf m = some k := by
  match k, hk with
  | 0, _ => exact ⟨1, rfl⟩
  | 1, _ => exact ⟨2, rfl⟩
  | 2, _ => exact ⟨4, rfl⟩
  | 3, _ => exact ⟨8, rfl⟩

/-! ### lengths -/

/-- the stream of a segment has the length the standard assigns to it -/
theorem segStream_length (v : Nat) (s : Segment) : (segStream v s).length = Spec.Valid.Micro.segBits s v := by
  unfold segStream Spec.Valid.Micro.segBits
  cases h : Spec.Valid.Micro.kindOf s.mode with
  | none => rfl
  | some k =>
    dsimp only
    cases hc : Spec.Valid.Micro.countBits k v with
    | none => rfl
    | some cb =>
      obtain ⟨m, hm⟩ := qr_mode_of_kind k (countBits_facts hc).1
      simp only [List.length_append, length_bitsMSB, bodyStream_length hm]

theorem flatMap_segStream_length (v : Nat) (segs : List Segment) :
    (segs.flatMap (segStream v)).length = (segs.map fun s => Spec.Valid.Micro.segBits s v).sum := by
  induction segs with
  | nil => rfl
  | cons s l ih => rw [List.flatMap_cons, List.length_append, ih, segStream_length, List.map_cons, List.sum_cons]

theorem nibbles_length (n : Nat) : (nibbles n).length = 4 * n := by
  unfold nibbles
  induction n with
  | zero => rfl
  | succ n ih => rw [List.range_succ, List.flatMap_append, List.length_append, ih]; simp; omega

theorem nibbles_succ (n : Nat) :
    nibbles (n + 1) = nibbles n ++ bitsMSB (if n % 4 = 0 then 14 else if n % 4 = 1 then 12 else 1) 4 := by
  simp [nibbles, List.range_succ]

/-! ### one segment -/

/-- the body encoders write `bodyStream` -/
theorem encodeBody_layout {k : Nat} (hk : k < 4) (data : List Nat) (hd : ValidData k data)
    (b : Buffer) (h : C16.Inv b) :
    ∃ b', (if k = Model.Micro.modeNumeric then encodeNumeric b data
        else if k = Model.Micro.modeAlphanumeric then encodeAlphanumeric b data
        else if k = Model.Micro.modeBytes then encodeBytes b data
        else encodeKanji b data) = .ok b' ∧ C16.Inv b' ∧ C16.abs b' = C16.abs b ++ bodyStream k data ∧
      b'.offset = b.offset ∧ b'.read = b.read := by
  match k, hk with
  | 0, _ =>
    rw [if_pos (by decide)]
    exact C17.encodeNumeric_layout b h data (valid_numeric hd)
  | 1, _ =>
    rw [if_neg (by decide), if_pos (by decide)]
    exact C17.encodeAlphanumeric_layout b h data (valid_alnum hd)
  | 2, _ =>
    rw [if_neg (by decide), if_neg (by decide), if_pos (by decide)]
    exact C17.encodeBytes_layout b h data
  | 3, _ =>
    rw [if_neg (by decide), if_neg (by decide), if_neg (by decide)]
    exact C17.encodeKanji_layout b h data (valid_isKanji hd)

/-- a valid segment is accepted and written as `segStream` -/
theorem segEncode_layout (v : Nat) (s : Segment) (hs : SegOK v s) (b : Buffer) (h : C16.Inv b) :
    ∃ b', Model.Micro.segEncode s (v : Int) b = .ok b' ∧ C16.Inv b' ∧
      C16.abs b' = C16.abs b ++ segStream v s ∧ b'.offset = b.offset ∧ b'.read = b.read := by
  obtain ⟨k, cb, hk, hcb, hd, hc⟩ := hs
  obtain ⟨hm4, rfl⟩ := kindOf_some hk
  obtain ⟨-, hv1, hv4, hcb3, hcb6, -, hmc, hmb, -⟩ := countBits_facts hcb
  have hmode : s.mode = Model.Micro.modeNumeric ∨ s.mode = Model.Micro.modeAlphanumeric ∨
      s.mode = Model.Micro.modeBytes ∨ s.mode = Model.Micro.modeKanji := by
    unfold Model.Micro.modeNumeric Model.Micro.modeAlphanumeric Model.Micro.modeBytes Model.Micro.modeKanji
    omega
  have hcount : (if s.mode = Model.Micro.modeKanji then Utf8.runeCount s.data else s.data.length) =
      count s.mode s.data := by
    unfold count Utf8.runeCount Model.Micro.modeKanji
    rfl
  unfold Model.Micro.segEncode
  rw [if_pos hmode, hmc]
  simp only [hcount]
  rw [if_neg (by omega), hmb]
  have hstream : segStream v s = bitsMSB s.mode (v - 1) ++ bitsMSB (count s.mode s.data) cb ++ bodyStream s.mode s.data := by
    unfold segStream
    rw [hk]
    simp only [hcb]
    rfl
  rw [hstream]
  by_cases hv : v - 1 > 0
  · rw [if_pos hv]
    obtain ⟨b₁, e₁, i₁, a₁, o₁, r₁⟩ := writeBits_int b h s.mode (v - 1) (by omega)
    obtain ⟨b₂, e₂, i₂, a₂, o₂, r₂⟩ := writeBits_int b₁ i₁ (count s.mode s.data) cb (by omega)
    obtain ⟨b₃, e₃, i₃, a₃, o₃, r₃⟩ := encodeBody_layout hm4 s.data hd b₂ i₂
    refine ⟨b₃, ?_, i₃, ?_, by omega, by omega⟩
    · rw [e₁]
      simp only [Out.bind_ok]
      rw [e₂]
      simp only [Out.bind_ok]
      exact e₃
    · rw [a₃, a₂, a₁]
      simp only [List.append_assoc]
  · rw [if_neg hv]
    have hv0 : v - 1 = 0 := by omega
    obtain ⟨b₂, e₂, i₂, a₂, o₂, r₂⟩ := writeBits_int b h (count s.mode s.data) cb (by omega)
    obtain ⟨b₃, e₃, i₃, a₃, o₃, r₃⟩ := encodeBody_layout hm4 s.data hd b₂ i₂
    refine ⟨b₃, ?_, i₃, ?_, by omega, by omega⟩
    · show (writeBitsLSB b (count s.mode s.data) (cb : Int) >>= _) = _
      rw [e₂]
      simp only [Out.bind_ok]
      exact e₃
    · rw [a₃, a₂, hv0]
      simp only [bitsMSB, List.nil_append, List.append_assoc]

/-! ### the segment loop of the encoder -/

theorem segsEncode_layout (v : Nat) (segs : List Segment) (hs : ∀ s ∈ segs, SegOK v s) :
    ∀ (b : Buffer), C16.Inv b →
    ∃ b', forIn segs b (fun s (acc : Buffer) => do
          let buf ← Model.Micro.segEncode s (v : Int) acc
          pure (ForInStep.yield buf)) = .ok b' ∧ C16.Inv b' ∧
      C16.abs b' = C16.abs b ++ segs.flatMap (segStream v) ∧ b'.offset = b.offset ∧ b'.read = b.read := by
  induction segs with
  | nil => intro b h; exact ⟨b, rfl, h, by simp, rfl, rfl⟩
  | cons s l ih =>
    intro b h
    obtain ⟨b₁, e₁, i₁, a₁, o₁, r₁⟩ := segEncode_layout v s (hs s (List.mem_cons_self ..)) b h
    obtain ⟨b₂, e₂, i₂, a₂, o₂, r₂⟩ := ih (fun x hx => hs x (List.mem_cons_of_mem _ hx)) b₁ i₁
    refine ⟨b₂, ?_, i₂, ?_, by omega, by omega⟩
    · rw [List.forIn_cons, e₁]
      exact e₂
    · rw [a₂, a₁, List.flatMap_cons, List.append_assoc]

/-! ### `encodeSegments` in stages -/

/-- the Reed-Solomon codewords over the data codewords, appended -/
def rsStage (n : Nat) (buf : Buffer) : Out Buffer := do
  let x ← RS.new (n : Int)
  (forIn (RS.sum x.fst (RS.write x.fst x.snd buf.buf.toList) []) buf fun b (acc : Buffer) => do
    let buf ← writeBitsLSB acc b 8
    pure (ForInStep.yield buf)) >>= fun s => pure s

/-- zero bits up to the codeword boundary, then the Reed-Solomon codewords -/
def fillStage (data n : Nat) (buf : Buffer) : Out Buffer := do
  let buf ← writeBitsLSB buf 0 (((data * 8 : Nat) : Int) - (buf.len : Int))
  rsStage n buf

/-- pad half-codewords up to `D` bits -/
def padStage (D data n : Nat) (buf : Buffer) : Out Buffer := do
  let s ← forIn (List.range' 0 ((D - buf.len + 3) / 4)) buf fun i (acc : Buffer) =>
    if acc.len < D then do
      let buf ← writeBitsLSB acc (if i % 4 = 0 then 14 else if i % 4 = 1 then 12 else 1) 4
      pure (ForInStep.yield buf)
    else pure (ForInStep.yield acc)
  fillStage data n s

/-- if room is left: zero bits to the byte boundary and padding -/
def alignStage (D data n : Nat) (buf : Buffer) : Out Buffer :=
  if buf.len < D then
    if buf.len % 8 ≠ 0 then do
      let buf ← writeBitsLSB buf 0 ((8 - buf.len % 8 : Nat) : Int)
      padStage D data n buf
    else padStage D data n buf
  else fillStage data n buf

/-- the terminator, truncated to the room left -/
def termStage (term D data n : Nat) (buf : Buffer) : Out Buffer :=
  if term < D - buf.len then do
    let buf ← writeBitsLSB buf 0 (term : Int)
    alignStage D data n buf
  else do
    let buf ← writeBitsLSB buf 0 ((D - buf.len : Nat) : Int)
    alignStage D data n buf

theorem encodeSegments_eq (q : QRCode) (b : Buffer) :
    Model.Micro.encodeSegments q b = (do
      let s ← forIn q.segments b (fun s (acc : Buffer) => do
          let buf ← Model.Micro.segEncode s q.version acc
          pure (ForInStep.yield buf))
      let cap ← capAt Gen.Micro.capacityTable q.version q.level
      if s.len > cap.dataBits then Out.err "qrcode: data too large"
      else termStage (if q.version = 1 then 3 else if q.version = 2 then 5 else if q.version = 3 then 7
          else if q.version = 4 then 9 else 0) cap.dataBits cap.data cap.correction s) := by
  unfold Model.Micro.encodeSegments termStage alignStage padStage fillStage rsStage
  simp only [Std.Legacy.Range.forIn_eq_forIn_range', Std.Legacy.Range.size, Model.Micro.PAD_ALIGN_ALWAYS,
    Bool.false_or, decide_eq_true_eq, Out.bind_err, Nat.sub_zero, Nat.add_sub_cancel, Nat.div_one]

/-! ### the stages -/

theorem writeBytes_layout (l : List Nat) : ∀ (b : Buffer), C16.Inv b →
    ∃ b', forIn l b (fun x (acc : Buffer) => do
          let buf ← writeBitsLSB acc x 8
          pure (ForInStep.yield buf)) = .ok b' ∧ C16.Inv b' ∧
      C16.abs b' = C16.abs b ++ unpack l ∧ b'.offset = b.offset ∧ b'.read = b.read := by
  induction l with
  | nil => intro b h; exact ⟨b, rfl, h, by simp, rfl, rfl⟩
  | cons x l ih =>
    intro b h
    obtain ⟨b₁, e₁, i₁, a₁, o₁, r₁⟩ := writeBits_int b h x 8 (by decide)
    have e₁' : writeBitsLSB b x 8 = .ok b₁ := e₁
    obtain ⟨b₂, e₂, i₂, a₂, o₂, r₂⟩ := ih b₁ i₁
    refine ⟨b₂, ?_, i₂, ?_, by omega, by omega⟩
    · rw [List.forIn_cons, e₁']
      exact e₂
    · rw [a₂, a₁, unpack_cons, List.append_assoc]

/-- the Reed-Solomon stage appends the parity codewords of the bytes held by the buffer -/
theorem rsStage_layout (n : Nat) (h2 : 2 ≤ n) (h68 : n ≤ 68) (b : Buffer) (h : C16.Inv b) :
    ∃ b', rsStage n b = .ok b' ∧ C16.Inv b' ∧
      C16.abs b' = C16.abs b ++ unpack (parityOf n b.buf.toList) ∧ b'.offset = b.offset ∧ b'.read = b.read := by
  obtain ⟨b', e, hb'⟩ := writeBytes_layout (parityOf n b.buf.toList) b h
  refine ⟨b', ?_, hb'⟩
  unfold rsStage
  rw [(C13.new_state n h2 h68).1]
  simp only [Out.bind_ok]
  unfold parityOf at e
  rw [e]
  rfl

theorem fillStage_layout (data n : Nat) (b : Buffer) (h : C16.Inv b) (hle : b.len ≤ data * 8)
    (h64 : data * 8 - b.len ≤ 64) :
    ∃ dbuf, fillStage data n b = rsStage n dbuf ∧ C16.Inv dbuf ∧
      C16.abs dbuf = C16.abs b ++ List.replicate (data * 8 - b.len) false ∧
      dbuf.offset = b.offset ∧ dbuf.read = b.read := by
  obtain ⟨b₁, e₁, i₁, a₁, o₁, r₁⟩ := writeBits_int b h 0 (data * 8 - b.len) h64
  refine ⟨b₁, ?_, i₁, by rw [a₁, bitsMSB_zero], o₁, r₁⟩
  unfold fillStage
  have : ((data * 8 : Nat) : Int) - (b.len : Int) = ((data * 8 - b.len : Nat) : Int) := by omega
  rw [this, e₁]
  rfl

theorem padLoop_layout (D npad : Nat) (b : Buffer) (h : C16.Inv b) (hlen : npad = 0 ∨ b.len + 4 * npad ≤ D) :
    ∃ b', forIn (List.range' 0 npad) b (fun i (acc : Buffer) =>
          if acc.len < D then do
            let buf ← writeBitsLSB acc (if i % 4 = 0 then 14 else if i % 4 = 1 then 12 else 1) 4
            pure (ForInStep.yield buf)
          else pure (ForInStep.yield acc)) = .ok b' ∧ C16.Inv b' ∧
      C16.abs b' = C16.abs b ++ nibbles npad ∧ b'.offset = b.offset ∧ b'.read = b.read := by
  have := Lemmas.Bitmap.forIn_range'_ok
    (fun i (acc : Buffer) =>
          if acc.len < D then do
            let buf ← writeBitsLSB acc (if i % 4 = 0 then 14 else if i % 4 = 1 then 12 else 1) 4
            pure (ForInStep.yield buf)
          else pure (ForInStep.yield acc))
    (fun k b' => C16.Inv b' ∧ C16.abs b' = C16.abs b ++ nibbles k ∧ b'.offset = b.offset ∧
      b'.read = b.read) npad 0 b ⟨h, by simp [nibbles], rfl, rfl⟩
    (by
      rintro k c - hk ⟨ic, ac, oc, rc⟩
      have hl : c.len < D := by
        rw [C16.len_eq c ic, ac, List.length_append, nibbles_length, ← C16.len_eq b h]
        omega
      obtain ⟨c₁, e₁, i₁, a₁, o₁, r₁⟩ := writeBits_int c ic (if k % 4 = 0 then 14 else if k % 4 = 1 then 12 else 1) 4 (by decide)
      have e₁' : writeBitsLSB c (if k % 4 = 0 then 14 else if k % 4 = 1 then 12 else 1) 4 = .ok c₁ := e₁
      refine ⟨c₁, ?_, i₁, ?_, by omega, by omega⟩
      · simp only [if_pos hl, e₁', Out.bind_ok]; rfl
      · rw [a₁, ac, nibbles_succ, List.append_assoc])
  simpa using this

theorem padStage_layout (D data n : Nat) (hD4 : D % 4 = 0) (hDd : D ≤ data * 8) (hd : data * 8 < D + 8)
    (b : Buffer) (h : C16.Inv b) (h4 : b.len % 4 = 0) (hb : b.len ≤ data * 8) :
    ∃ dbuf, padStage D data n b = rsStage n dbuf ∧ C16.Inv dbuf ∧
      C16.abs dbuf = C16.abs b ++ (nibbles ((D - b.len) / 4) ++
        List.replicate (data * 8 - (b.len + 4 * ((D - b.len) / 4))) false) ∧
      dbuf.offset = b.offset ∧ dbuf.read = b.read := by
  have e : (D - b.len + 3) / 4 = (D - b.len) / 4 := by omega
  obtain ⟨b₁, e₁, i₁, a₁, o₁, r₁⟩ := padLoop_layout D ((D - b.len) / 4) b h (by omega)
  have hl₁ : b₁.len = b.len + 4 * ((D - b.len) / 4) := by
    rw [C16.len_eq b₁ i₁, a₁, List.length_append, nibbles_length, ← C16.len_eq b h]
  obtain ⟨b₂, e₂, i₂, a₂, o₂, r₂⟩ := fillStage_layout data n b₁ i₁ (by omega) (by omega)
  refine ⟨b₂, ?_, i₂, ?_, by omega, by omega⟩
  · unfold padStage
    rw [e, e₁]
    exact e₂
  · rw [a₂, a₁, hl₁, List.append_assoc]

theorem alignStage_layout (D data n : Nat) (hD4 : D % 4 = 0) (hDd : D ≤ data * 8) (hd : data * 8 < D + 8)
    (b : Buffer) (h : C16.Inv b) (hb : b.len ≤ D) :
    ∃ dbuf, alignStage D data n b = rsStage n dbuf ∧ C16.Inv dbuf ∧
      C16.abs dbuf = C16.abs b ++ (if b.len < D then
        List.replicate ((8 - b.len % 8) % 8) false ++
          (nibbles ((D - (b.len + (8 - b.len % 8) % 8)) / 4) ++
            List.replicate (data * 8 - (b.len + (8 - b.len % 8) % 8 + 4 * ((D - (b.len + (8 - b.len % 8) % 8)) / 4))) false)
        else List.replicate (data * 8 - b.len) false) ∧
      dbuf.offset = b.offset ∧ dbuf.read = b.read := by
  unfold alignStage
  by_cases hlt : b.len < D
  · rw [if_pos hlt, if_pos hlt]
    by_cases h8 : b.len % 8 ≠ 0
    · rw [if_pos h8]
      have hz : (8 - b.len % 8) % 8 = 8 - b.len % 8 := by omega
      obtain ⟨b₁, e₁, i₁, a₁, o₁, r₁⟩ := writeBits_int b h 0 (8 - b.len % 8) (by omega)
      have hl₁ : b₁.len = b.len + (8 - b.len % 8) := by
        rw [C16.len_eq b₁ i₁, a₁, List.length_append, length_bitsMSB, ← C16.len_eq b h]
      obtain ⟨b₂, e₂, i₂, a₂, o₂, r₂⟩ := padStage_layout D data n hD4 hDd hd b₁ i₁ (by omega) (by omega)
      refine ⟨b₂, ?_, i₂, ?_, by omega, by omega⟩
      · rw [e₁]; exact e₂
      · rw [a₂, a₁, hl₁, hz, bitsMSB_zero, List.append_assoc]
    · rw [if_neg h8]
      have hz : (8 - b.len % 8) % 8 = 0 := by omega
      obtain ⟨b₂, e₂, i₂, a₂, o₂, r₂⟩ := padStage_layout D data n hD4 hDd hd b h (by omega) (by omega)
      refine ⟨b₂, e₂, i₂, ?_, o₂, r₂⟩
      rw [a₂, hz]
      simp only [List.replicate_zero, List.nil_append, Nat.add_zero]
  · rw [if_neg hlt, if_neg hlt]
    exact fillStage_layout data n b h (by omega) (by omega)

/-- after the segments: exactly `mtail`, the buffer holds `data` whole codewords, then the
Reed-Solomon stage -/
theorem termStage_layout (term D data n : Nat) (ht : term ≤ 64) (hD4 : D % 4 = 0) (hDd : D ≤ data * 8)
    (hd : data * 8 < D + 8) (b : Buffer) (h : C16.Inv b) (hb : b.len ≤ D) :
    ∃ dbuf, termStage term D data n b = rsStage n dbuf ∧ C16.Inv dbuf ∧
      C16.abs dbuf = C16.abs b ++ mtail term D (data * 8) b.len ∧
      dbuf.offset = b.offset ∧ dbuf.read = b.read := by
  unfold termStage mtail
  by_cases hlt : term < D - b.len
  · rw [if_pos hlt]
    have hmin : min term (D - b.len) = term := by omega
    obtain ⟨b₁, e₁, i₁, a₁, o₁, r₁⟩ := writeBits_int b h 0 term ht
    have hl₁ : b₁.len = b.len + term := by
      rw [C16.len_eq b₁ i₁, a₁, List.length_append, length_bitsMSB, ← C16.len_eq b h]
    obtain ⟨b₂, e₂, i₂, a₂, o₂, r₂⟩ := alignStage_layout D data n hD4 hDd hd b₁ i₁ (by omega)
    refine ⟨b₂, ?_, i₂, ?_, by omega, by omega⟩
    · rw [e₁]; exact e₂
    · simp only [hmin]
      rw [if_pos (by omega)] at a₂ ⊢
      rw [a₂, a₁, hl₁, bitsMSB_zero, ← List.replicate_append_replicate]
      simp only [List.append_assoc]
  · rw [if_neg hlt]
    have hmin : min term (D - b.len) = D - b.len := by omega
    obtain ⟨b₁, e₁, i₁, a₁, o₁, r₁⟩ := writeBits_int b h 0 (D - b.len) (by omega)
    have hl₁ : b₁.len = b.len + (D - b.len) := by
      rw [C16.len_eq b₁ i₁, a₁, List.length_append, length_bitsMSB, ← C16.len_eq b h]
    obtain ⟨b₂, e₂, i₂, a₂, o₂, r₂⟩ := alignStage_layout D data n hD4 hDd hd b₁ i₁ (by omega)
    refine ⟨b₂, ?_, i₂, ?_, by omega, by omega⟩
    · rw [e₁]; exact e₂
    · simp only [hmin]
      rw [if_neg (by omega)] at a₂ ⊢
      rw [a₂, a₁, hl₁, bitsMSB_zero, List.append_assoc]

/-! ### properties of the tail -/

theorem mtail_length (term D data8 len : Nat) (hD4 : D % 4 = 0) (h8 : data8 % 8 = 0) (hDd : D ≤ data8)
    (hle : len ≤ D) : len + (mtail term D data8 len).length = data8 := by
  unfold mtail
  simp only []
  split
  · simp only [List.length_append, List.length_replicate, nibbles_length]
    omega
  · simp only [List.length_append, List.length_replicate]
    omega

/-- the tail is something the decoder's segment loop stops at -/
theorem mtail_ok (term D data8 len : Nat) : TailOK term (mtail term D data8 len) := by
  unfold TailOK mtail
  intro x hx
  simp only [] at hx
  split at hx
  · rename_i hlt
    have hmin : min term (D - len) = term := by omega
    rw [hmin, List.take_append_of_le_length (by simp)] at hx
    exact List.eq_of_mem_replicate (List.mem_of_mem_take hx)
  · rw [List.replicate_append_replicate] at hx
    exact List.eq_of_mem_replicate (List.mem_of_mem_take hx)

/-- the bits between `D` and the codeword boundary are zero -/
theorem mtail_high (term D data8 len : Nat) (hD4 : D % 4 = 0) (k : Nat) (hk : k < (mtail term D data8 len).length) (hD : D ≤ len + k) :
    (mtail term D data8 len)[k] = false := by
  unfold mtail at hk ⊢
  simp only [] at hk ⊢
  split
  · rename_i hlt
    rw [List.getElem_append]
    split
    · simp
    · rename_i h1
      rw [List.getElem_append]
      split
      · rename_i h2
        simp only [List.length_replicate, nibbles_length] at h1 h2
        omega
      · simp
  · simp only [List.replicate_append_replicate, List.getElem_replicate]

/-! ### the whole stream -/

theorem term_eq (v : Nat) (h1 : 1 ≤ v) (h4 : v ≤ 4) :
    (if (v : Int) = 1 then 3 else if (v : Int) = 2 then 5 else if (v : Int) = 3 then 7
      else if (v : Int) = 4 then 9 else 0 : Nat) = termLen v := by
  unfold termLen
  repeat' split
  all_goals omega

/-- `encodeSegments` accepts every valid description and writes the segment streams, the tail
`mtail` up to exactly `cap.data` codewords, and the Reed-Solomon codewords of those -/
theorem stream_layout (v l : Nat) (mask : Int) (segs : List Segment) (cap : Gen.GCap)
    (hcap : capAt Gen.Micro.capacityTable (v : Int) (l : Int) = .ok cap) (hv1 : 1 ≤ v) (hv4 : v ≤ 4)
    (hD4 : cap.dataBits % 4 = 0) (hDd : cap.dataBits ≤ cap.data * 8) (hd : cap.data * 8 < cap.dataBits + 8)
    (h2 : 2 ≤ cap.correction) (h68 : cap.correction ≤ 68)
    (hs : ∀ s ∈ segs, SegOK v s)
    (hfit : (segs.map fun s => Spec.Valid.Micro.segBits s v).sum ≤ cap.dataBits) :
    ∃ data fbuf, Model.Micro.encodeSegments { version := v, level := l, mask := mask, segments := segs } {} = .ok fbuf ∧
      C16.Inv fbuf ∧ fbuf.wrote = 0 ∧ fbuf.offset = 0 ∧ fbuf.read = 0 ∧
      fbuf.buf.toList = data ++ parityOf cap.correction data ∧
      data.length = cap.data ∧ (∀ x ∈ data, x < 256) ∧
      unpack data = segs.flatMap (segStream v) ++
        mtail (termLen v) cap.dataBits (cap.data * 8) (segs.flatMap (segStream v)).length := by
  obtain ⟨b₁, e₁, i₁, a₁, o₁, r₁⟩ := segsEncode_layout v segs hs {} C16.inv_empty
  rw [C16.abs_empty, List.nil_append] at a₁
  have hlen₁ : b₁.len = (segs.flatMap (segStream v)).length := by rw [C16.len_eq b₁ i₁, a₁]
  have hfit' : b₁.len ≤ cap.dataBits := by rw [hlen₁, flatMap_segStream_length]; exact hfit
  obtain ⟨dbuf, e₂, i₂, a₂, o₂, r₂⟩ := termStage_layout (termLen v) cap.dataBits cap.data cap.correction
    (by unfold termLen; omega) hD4 hDd hd b₁ i₁ hfit'
  obtain ⟨fbuf, e₃, i₃, a₃, o₃, r₃⟩ := rsStage_layout cap.correction h2 h68 dbuf i₂
  have hlen₂ : dbuf.len = cap.data * 8 := by
    rw [C16.len_eq dbuf i₂, a₂, List.length_append, ← C16.len_eq b₁ i₁]
    exact mtail_length _ _ _ _ hD4 (by omega) hDd hfit'
  have hw₂ : dbuf.wrote = 0 := by have := inv_len_mod dbuf i₂; omega
  obtain ⟨himg, hsize, hlt⟩ := stream_bytes dbuf i₂ hw₂
  obtain ⟨pl, pb, -, -⟩ := parityOf_facts cap.correction h2 h68 dbuf.buf.toList hlt
  have habs₃ : C16.abs fbuf = unpack (dbuf.buf.toList ++ parityOf cap.correction dbuf.buf.toList) := by
    rw [a₃, ← himg, unpack_append]
  have hlen₃ : fbuf.len = 8 * (dbuf.buf.toList ++ parityOf cap.correction dbuf.buf.toList).length := by
    rw [C16.len_eq fbuf i₃, habs₃, length_unpack]
  have hw₃ : fbuf.wrote = 0 := by have := inv_len_mod fbuf i₃; omega
  refine ⟨dbuf.buf.toList, fbuf, ?_, i₃, hw₃, by rw [o₃, o₂, o₁], by rw [r₃, r₂, r₁], ?_, ?_, hlt, ?_⟩
  · rw [encodeSegments_eq]
    simp only []
    rw [e₁]
    simp only [Out.bind_ok]
    rw [hcap]
    simp only [Out.bind_ok]
    rw [if_neg (by omega), term_eq v hv1 hv4, e₂]
    exact e₃
  · rw [C16.bytes_are_packing fbuf i₃, habs₃]
    apply pack_unpack
    intro x hx
    rcases List.mem_append.mp hx with hx | hx
    · exact hlt x hx
    · exact pb x hx
  · rw [Array.length_toList]; omega
  · rw [himg, a₂, a₁, hlen₁]

end QRV.Lemmas.MRT
