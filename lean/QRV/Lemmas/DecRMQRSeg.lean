import QRV.Lemmas.DecSeg
import QRV.Model.RMQR
/-
C06/C07 — rMQR: the segment loop of the decoder on ARBITRARY codewords: it never panics, its fuel
suffices (every iteration that continues consumes the three bits of a mode indicator), and every
segment it returns has a supported mode, bytes valid for the mode and a character count that fits
the count indicator of the capacity row.
-/
namespace QRV.Lemmas.DecR
open QRV QRV.Model.Bits QRV.Model.Codec QRV.Model.Sym QRV.Model.Utf8 QRV.Spec.Valid QRV.Lemmas.Kanji
open QRV.Lemmas.Dec

/-- the data decoder of kind k (0 numeric, 1 alphanumeric, 2 byte, 3 kanji) -/
def decodeKind (k : Nat) (b : Buffer) (len : Nat) : Out (Buffer × List Nat) :=
  if k = 0 then decodeNumeric b len
  else if k = 1 then decodeAlphanumeric b len
  else if k = 2 then decodeBytes b len
  else decodeKanji b len

/-- the four data decoders on arbitrary bits: no panic, only reads, and what is returned is valid
data of the kind with exactly the announced number of characters -/
theorem decodeKind_sat (k : Nat) (b1 : Buffer) (hr : b1.read < 8) (len : Nat) :
    Sat (decodeKind k b1 len) (fun p => After b1 p.1 ∧ ValidData (min k 3) p.2 ∧ count (min k 3) p.2 = len) := by
  unfold decodeKind
  by_cases m1 : k = 0
  · subst m1
    rw [if_pos rfl]
    refine Sat.mono (P := fun p => After b1 p.1 ∧ p.2.length = len ∧ ∀ ch ∈ p.2, isNumeric ch = true) ?_ ?_
    · unfold decodeNumeric
      have hs := decodeNumeric_go_sat len b1 #[] hr
      cases e : decodeNumeric.go b1 #[] len with
      | ok p =>
        rw [e] at hs
        obtain ⟨f1, f2⟩ := Lemmas.Codec.decodeNumeric_go_sound len b1 #[] p.1 p.2 e
        exact ⟨hs, by simpa using f1, fun ch hch => (f2 ch hch).resolve_left (by simp)⟩
      | err m => exact trivial
      | panic m => rw [e] at hs; exact hs
    · rintro ⟨b2, data⟩ ⟨ha2, hl, hd⟩
      refine ⟨ha2, ⟨?_, ?_⟩, ?_⟩
      · intro x hx
        have := (Lemmas.Codec.isNumeric_iff x).1 (hd x hx); omega
      · intro x hx
        exact (Lemmas.Codec.isNumeric_iff x).1 (hd x hx)
      · simp only [count]; rw [if_neg (by decide)]; exact hl
  by_cases m2 : k = 1
  · subst m2
    rw [if_neg (by decide), if_pos rfl]
    refine Sat.mono (P := fun p => After b1 p.1 ∧ p.2.length = len ∧ ∀ ch ∈ p.2, isAlphanumeric ch = true) ?_ ?_
    · unfold decodeAlphanumeric
      have hs := decodeAlphanumeric_go_sat len b1 #[] hr
      cases e : decodeAlphanumeric.go b1 #[] len with
      | ok p =>
        rw [e] at hs
        obtain ⟨f1, f2⟩ := Lemmas.Codec.decodeAlphanumeric_go_sound len b1 #[] p.1 p.2 e
        exact ⟨hs, by simpa using f1, fun ch hch => (f2 ch hch).resolve_left (by simp)⟩
      | err m => exact trivial
      | panic m => rw [e] at hs; exact hs
    · rintro ⟨b2, data⟩ ⟨ha2, hl, hd⟩
      refine ⟨ha2, ⟨?_, ?_⟩, ?_⟩
      · intro x hx
        exact (alnum_valid x (hd x hx)).1
      · intro x hx
        exact (alnum_valid x (hd x hx)).2
      · simp only [count]; rw [if_neg (by decide)]; exact hl
  by_cases m4 : k = 2
  · subst m4
    rw [if_neg (by decide), if_neg (by decide), if_pos rfl]
    refine Sat.mono (decodeBytes_go_sat len b1 #[] hr) ?_
    rintro ⟨b2, data⟩ ⟨ha2, l, hl, hlt, he⟩
    dsimp only at he
    have he' : data = l := by simpa using he
    subst he'
    refine ⟨ha2, ⟨hlt, trivial⟩, ?_⟩
    simp only [count]; rw [if_neg (by decide)]; exact hl
  · have hk3 : min k 3 = 3 := by omega
    rw [if_neg m1, if_neg m2, if_neg m4, hk3]
    refine Sat.mono (decodeKanji_go_sat len b1 #[] hr) ?_
    rintro ⟨b2, data⟩ ⟨ha2, rs, hl, hrs, he⟩
    dsimp only at he
    have he' : data = rs.flatMap encodeRune := by simpa using he
    subst he'
    -- every character is an assigned character of the reference table
    have hok : ∀ r ∈ rs, KanjiChar r ∧ runeOK r = true := by
      intro r hr
      obtain ⟨hr0, code, hc, hd⟩ := hrs r hr
      have href : refAt code = r := by
        rcases Lemmas.Codec.decode_cases code hc with ⟨_, h⟩ | ⟨h, _⟩
        · rw [h] at hd; exact Option.some.inj hd
        · rw [h] at hd; cases hd
      refine ⟨⟨hr0, code, hc, href⟩, ?_⟩
      have := kanji_runes_ok code hc
      rw [href] at this
      simpa [hr0] using this
    have hrunes := runes_flatMap rs (fun r hr => (hok r hr).2)
    refine ⟨ha2, ⟨?_, ?_, ?_⟩, ?_⟩
    · intro x hx
      obtain ⟨r, hr, hxr⟩ := List.mem_flatMap.mp hx
      exact (runeOK_decode r (hok r hr).2 []).2.2 x hxr
    · rw [hrunes]; exact fun r hr => (hok r hr).1
    · rw [hrunes]
    · simp only [count, ↓reduceIte]; rw [hrunes]; exact hl

/-- a segment as `Spec.Valid.RMQR.Valid` wants it, for the capacity row `c` -/
def SegOKR (c : Gen.GCap) (s : Segment) : Prop :=
  ∃ k, RMQR.kindOf s.mode = some k ∧ ValidData k s.data ∧ count k s.data < 2 ^ RMQR.countBits k c

/-- one segment: mode indicator already read -/
theorem decodeSegmentR_sat (mode : Nat) (c : Gen.GCap) (hbl : ∀ n ∈ c.bitLength, n ≤ 16)
    (hm : mode = 1 ∨ mode = 2 ∨ mode = 3 ∨ mode = 4) (b : Buffer) (hr : b.read < 8) :
    Sat (Model.RMQR.decodeSegment mode c.bitLength b) (fun p => After b p.1 ∧ SegOKR c p.2) := by
  have hk : RMQR.kindOf mode = some (mode - 1) := by
    unfold RMQR.kindOf; rw [if_pos (by omega)]
  have hcb : c.bitLength[mode]?.getD 0 = RMQR.countBits (mode - 1) c := by
    unfold RMQR.countBits; rw [show mode - 1 + 1 = mode by omega]
  have hle : c.bitLength[mode]?.getD 0 ≤ 64 := by
    cases hg : c.bitLength[mode]? with
    | none => simp
    | some n => have := hbl n (List.mem_of_getElem? hg); simp; omega
  unfold Model.RMQR.decodeSegment
  refine Sat.bind (rd_sat b hr _ hle) ?_
  rintro ⟨b1, len⟩ ⟨ha, hlen, -⟩
  dsimp only at hlen ⊢
  have hbody : (if mode = Model.RMQR.modeNumeric then decodeNumeric b1 len
      else if mode = Model.RMQR.modeAlphanumeric then decodeAlphanumeric b1 len
      else if mode = Model.RMQR.modeBytes then decodeBytes b1 len
      else decodeKanji b1 len) = decodeKind (mode - 1) b1 len := by
    unfold decodeKind Model.RMQR.modeNumeric Model.RMQR.modeAlphanumeric Model.RMQR.modeBytes
    rcases hm with rfl | rfl | rfl | rfl <;> rfl
  rw [hbody]
  refine Sat.bind (decodeKind_sat (mode - 1) b1 ha.read len) ?_
  rintro ⟨b2, data⟩ ⟨ha2, hv, hc⟩
  have hmin : min (mode - 1) 3 = mode - 1 := by omega
  rw [hmin] at hv hc
  refine ⟨ha.trans ha2, mode - 1, hk, hv, ?_⟩
  show count (mode - 1) data < _
  dsimp only at hc
  rw [hc, ← hcb]
  exact hlen

/-- the segment loop: a fuel above the number of unread bits is never exhausted -/
theorem segmentLoopR_sat (c : Gen.GCap) (hbl : ∀ n ∈ c.bitLength, n ≤ 16) (fuel : Nat) :
    ∀ (b : Buffer) (acc : Array Segment), b.read < 8 → rem b < fuel →
      (∀ s ∈ acc.toList, SegOKR c s) →
      Sat (Model.RMQR.segmentLoop c.bitLength fuel b acc) (fun segs => ∀ s ∈ segs, SegOKR c s) := by
  induction fuel with
  | zero => intro b acc _ h; omega
  | succ fuel ih =>
    intro b acc hr hrem hacc
    rw [Model.RMQR.segmentLoop]
    rcases readBits_cases b hr 3 (by decide) with ⟨e, _⟩ | ⟨b1, mode, e, ha, hv, hlt⟩
    · rw [show ((3 : Nat) : Int) = 3 from rfl] at e
      rw [e]; exact hacc
    · rw [show ((3 : Nat) : Int) = 3 from rfl] at e
      rw [e]
      simp only [Out.bind_ok]
      have hlt' := hlt (by decide)
      unfold Model.RMQR.modeNumeric Model.RMQR.modeAlphanumeric Model.RMQR.modeBytes Model.RMQR.modeKanji
        Model.RMQR.modeTerminated
      split
      · rename_i hm
        refine Sat.bind (decodeSegmentR_sat mode c hbl hm b1 ha.read) ?_
        rintro ⟨b2, seg⟩ ⟨ha2, hseg⟩
        refine ih b2 _ ha2.read (by have := ha2.rem; dsimp only at this; omega) ?_
        intro s hs
        rw [Array.toList_push, List.mem_append, List.mem_singleton] at hs
        rcases hs with hs | rfl
        · exact hacc s hs
        · exact hseg
      · split
        · exact hacc
        · exact trivial

end QRV.Lemmas.DecR
