import QRV.Model.QR
import QRV.Model.Micro
import QRV.Model.RMQR
import QRV.Spec.Valid
import QRV.Lemmas.TablesFinite
/-
Helper lemmas for C05: the model's QR segment length against the standard's bit length, the
first-fit scan `for … do … return` in the `Out` monad, the inner length loop with its `over` flag.
-/
namespace QRV.Lemmas.CalcVersion
open QRV QRV.Model QRV.Model.Sym QRV.Spec.Valid

/-! ### segment length -/

theorem countBits_agrees (mode k v : Nat) (hk : QR.kindOf mode = some k) (h1 : 1 ≤ v) (h40 : v ≤ 40) :
    Model.QR.countBits mode (v : Int) = some (Spec.Valid.QR.countBits k v) := by
  have hv : ¬ ((v : Int) ≤ 0 ∨ (v : Int) > 40) := by omega
  have hg : (v < 10 ∧ (v : Int) < 10) ∨ (¬ v < 10 ∧ ¬ (v : Int) < 10 ∧ v < 27 ∧ (v : Int) < 27) ∨
      (¬ v < 10 ∧ ¬ (v : Int) < 10 ∧ ¬ v < 27 ∧ ¬ (v : Int) < 27) := by omega
  unfold QR.kindOf at hk
  unfold Model.QR.countBits Spec.Valid.QR.countBits
  simp only [Model.QR.modeNumeric, Model.QR.modeAlphanumeric, Model.QR.modeBytes, hv, if_false]
  split at hk
  · cases hk; rename_i h; subst h
    rcases hg with ⟨a, b⟩ | ⟨a, b, c, d⟩ | ⟨a, b, c, d⟩ <;> simp [*]
  · split at hk
    · cases hk; rename_i h; subst h
      rcases hg with ⟨a, b⟩ | ⟨a, b, c, d⟩ | ⟨a, b, c, d⟩ <;> simp [*]
    · split at hk
      · cases hk; rename_i h; subst h
        rcases hg with ⟨a, b⟩ | ⟨a, b, c, d⟩ | ⟨a, b, c, d⟩ <;> simp [*]
      · split at hk
        · cases hk; rename_i h; subst h
          rcases hg with ⟨a, b⟩ | ⟨a, b, c, d⟩ | ⟨a, b, c, d⟩ <;> simp [*]
        · cases hk

theorem qr_length_agrees (s : Segment) (v : Nat) (hm : s.mode = 1 ∨ s.mode = 2 ∨ s.mode = 4 ∨ s.mode = 8)
    (h1 : 1 ≤ v) (h40 : v ≤ 40) :
    Model.QR.segLength s (v : Int) = .ok (QR.segBits s v) := by
  obtain ⟨mode, data⟩ := s
  unfold Model.QR.segLength QR.segBits
  rcases hm with rfl | rfl | rfl | rfl
  · rw [countBits_agrees 1 0 v rfl h1 h40]
    simp [Model.QR.modeNumeric, QR.kindOf, count, bodyBits]; omega
  · rw [countBits_agrees 2 1 v rfl h1 h40]
    simp [Model.QR.modeNumeric, Model.QR.modeAlphanumeric, QR.kindOf, count, bodyBits]
    split <;> omega
  · rw [countBits_agrees 4 2 v rfl h1 h40]
    simp [Model.QR.modeNumeric, Model.QR.modeAlphanumeric, Model.QR.modeBytes, QR.kindOf, count, bodyBits]; omega
  · rw [countBits_agrees 8 3 v rfl h1 h40]
    simp [Model.QR.modeNumeric, Model.QR.modeAlphanumeric, Model.QR.modeBytes, Model.QR.modeKanji, QR.kindOf,
      count, bodyBits, Utf8.runeCount]; omega

/-! ### first-fit scan -/

/-- a `for a in l do … return val a` whose body either returns (when `fits a`) or continues -/
theorem scan_first {α γ : Type} (B : α → Out (ForInStep (Option γ × Unit))) (fits : α → Prop) (val : α → γ) :
    ∀ (l : List α),
      (∀ a ∈ l, (fits a ∧ B a = .ok (.done (some (val a), ()))) ∨ (¬ fits a ∧ B a = .ok (.yield (none, ())))) →
      (∃ i, ∃ h : i < l.length, forIn l ((none : Option γ), ()) (fun a _ => B a) = .ok (some (val l[i]), ()) ∧
        fits l[i] ∧ ∀ j (hj : j < i), ¬ fits (l[j]'(by omega))) ∨
      (forIn l ((none : Option γ), ()) (fun a _ => B a) = .ok (none, ()) ∧ ∀ a ∈ l, ¬ fits a) := by
  intro l
  induction l with
  | nil => intro _; exact .inr ⟨rfl, by simp⟩
  | cons a l ih =>
    intro h
    rcases h a (by simp) with ⟨hf, hB⟩ | ⟨hf, hB⟩
    · refine .inl ⟨0, by simp, ?_, hf, by omega⟩
      rw [List.forIn_cons, hB]; rfl
    · rcases ih (fun b hb => h b (List.mem_cons_of_mem _ hb)) with ⟨i, hi, he, hfi, hmin⟩ | ⟨he, hno⟩
      · refine .inl ⟨i + 1, by simp; omega, ?_, by simpa using hfi, ?_⟩
        · rw [List.forIn_cons, hB]; simpa using he
        · intro j hj
          cases j with
          | zero => simpa using hf
          | succ j => simpa using hmin j (by omega)
      · refine .inr ⟨?_, ?_⟩
        · rw [List.forIn_cons, hB]; exact he
        · intro b hb
          rcases List.mem_cons.1 hb with rfl | hb
          · exact hf
          · exact hno b hb

/-! ### QR `calcVersion` -/

def qrInnerStep (version : Int) (capacity : Nat) (s : Segment) (st : Nat × Bool) : Out (ForInStep (Nat × Bool)) :=
  if (!st.2) = true then do
    let l ← Model.QR.segLength s version
    if st.1 + l > capacity then pure (.yield (st.1 + l, true)) else pure (.yield (st.1 + l, st.2))
  else pure (.yield (st.1, st.2))

def qrBody (level : Int) (segs : List Segment) (vi : Nat) : Out (ForInStep (Option Int × Unit)) := do
  let cap ← capAt Gen.QR.capacityTable (vi : Int) level
  let st ← forIn segs (0, false) (qrInnerStep vi (cap.data * 8))
  if (!st.2) = true ∧ st.1 ≤ cap.data * 8 then pure (.done (some (vi : Int), ())) else pure (.yield (none, ()))

theorem calcVersion_eq (level : Int) (segs : List Segment) :
    Model.QR.calcVersion level segs =
      (if (!Model.QR.levelIsValid level) = true then pure 0
      else do
        let r ← forIn [1:41] ((none : Option Int), ()) (fun vi _ => qrBody level segs vi)
        match r.1 with
        | some r => pure r
        | none => pure 0) := by
  unfold Model.QR.calcVersion
  split
  · rfl
  · congr 1
    funext r
    cases r with
    | mk a b => cases a <;> rfl

/-- the inner loop: `over` is set exactly when the running total exceeds the capacity -/
theorem qrInner_spec (version : Int) (cap : Nat) (f : Segment → Nat) :
    ∀ (segs : List Segment) (a : Nat), (∀ s ∈ segs, Model.QR.segLength s version = .ok (f s)) →
      ∃ st, forIn segs (a, false) (qrInnerStep version cap) = .ok st ∧
        ((st.2 = false ∧ st.1 ≤ cap) ↔ a + (segs.map f).sum ≤ cap) := by
  have hover : ∀ (segs : List Segment) (a : Nat), forIn segs (a, true) (qrInnerStep version cap) = .ok (a, true) := by
    intro segs
    induction segs with
    | nil => intro a; rfl
    | cons s segs ih => intro a; rw [List.forIn_cons]; simp only [qrInnerStep]; exact ih a
  intro segs
  induction segs with
  | nil => intro a _; exact ⟨(a, false), rfl, by simp⟩
  | cons s segs ih =>
    intro a h
    have hs := h s (by simp)
    rw [List.forIn_cons]
    simp only [qrInnerStep, hs]
    by_cases hgt : a + f s > cap
    · refine ⟨(a + f s, true), ?_, ?_⟩
      · simp only [Bool.not_false, if_true, Out.bind_ok, hgt]
        exact hover segs _
      · simp; omega
    · obtain ⟨st, he, hiff⟩ := ih (a + f s) (fun t ht => h t (List.mem_cons_of_mem _ ht))
      refine ⟨st, ?_, ?_⟩
      · simp only [Bool.not_false, if_true, Out.bind_ok, hgt, if_false]
        exact he
      · rw [hiff]; simp; omega
def totalBits (segs : List Segment) (v : Nat) : Nat := (segs.map fun s => QR.segBits s v).sum
def capBits (v level : Nat) : Nat := ((Gen.QR.capacityTable[v]?.getD [])[level]?.map (·.data * 8)).getD 0

theorem qr_capAt (v level : Nat) (hv : v ≤ 40) (hl : level < 4) :
    ∃ c, capAt Gen.QR.capacityTable (v : Int) (level : Int) = .ok c ∧ capBits v level = c.data * 8 := by
  obtain ⟨hlen, hall⟩ := Lemmas.Tables.qr_table_shape
  have hvl : v < Gen.QR.capacityTable.length := by omega
  have hrow : (Gen.QR.capacityTable[v]).length = 4 := by
    have := List.all_eq_true.1 hall _ (List.getElem_mem hvl)
    simpa using this
  have hll : level < (Gen.QR.capacityTable[v]).length := by omega
  refine ⟨(Gen.QR.capacityTable[v])[level], ?_, ?_⟩
  · unfold capAt
    rw [if_neg (by omega)]
    simp only [Int.toNat_natCast, List.getElem?_eq_getElem hvl, List.getElem?_eq_getElem hll]
  · unfold capBits
    simp only [List.getElem?_eq_getElem hvl, Option.getD_some, List.getElem?_eq_getElem hll, Option.map_some]

theorem qrBody_spec (level : Nat) (hl : level < 4) (segs : List Segment)
    (hm : ∀ s ∈ segs, s.mode = 1 ∨ s.mode = 2 ∨ s.mode = 4 ∨ s.mode = 8) (vi : Nat) (h1 : 1 ≤ vi) (h40 : vi ≤ 40) :
    (totalBits segs vi ≤ capBits vi level ∧ qrBody (level : Int) segs vi = .ok (.done (some (vi : Int), ()))) ∨
    (¬ totalBits segs vi ≤ capBits vi level ∧ qrBody (level : Int) segs vi = .ok (.yield (none, ()))) := by
  obtain ⟨c, hc, hcb⟩ := qr_capAt vi level h40 hl
  obtain ⟨st, hst, hiff⟩ := qrInner_spec (vi : Int) (c.data * 8) (fun s => QR.segBits s vi) segs 0
    (fun s hs => qr_length_agrees s vi (hm s hs) h1 h40)
  unfold qrBody
  simp only [hc, Out.bind_ok, hst]
  rw [Nat.zero_add, ← hcb] at hiff
  by_cases hfit : totalBits segs vi ≤ capBits vi level
  · left
    refine ⟨hfit, ?_⟩
    have := hiff.2 hfit
    rw [if_pos (by rw [hcb] at this; simpa using this)]; rfl
  · right
    refine ⟨hfit, ?_⟩
    have : ¬ (st.2 = false ∧ st.1 ≤ capBits vi level) := fun h => hfit (hiff.1 h)
    rw [if_neg (by rw [hcb] at this; simpa using this)]; rfl
theorem qr_calcVersion_minimal (level : Nat) (hl : level < 4) (segs : List Segment)
    (hm : ∀ s ∈ segs, s.mode = 1 ∨ s.mode = 2 ∨ s.mode = 4 ∨ s.mode = 8) :
    ∃ v : Nat, Model.QR.calcVersion (level : Int) segs = .ok (v : Int) ∧ v ≤ 40 ∧
      (v ≠ 0 → totalBits segs v ≤ capBits v level ∧ ∀ v', 1 ≤ v' → v' < v → capBits v' level < totalBits segs v') ∧
      (v = 0 → ∀ v', 1 ≤ v' → v' ≤ 40 → capBits v' level < totalBits segs v') := by
  rw [calcVersion_eq]
  have hlv : ¬ ((!Model.QR.levelIsValid (level : Int)) = true) := by
    have : Model.QR.levelIsValid (level : Int) = true := by
      simp only [Model.QR.levelIsValid, Gen.QR.c_levelMin, Gen.QR.c_levelMax, Bool.and_eq_true]
      refine ⟨decide_eq_true ?_, decide_eq_true ?_⟩ <;> omega
    rw [this]; simp
  rw [if_neg hlv, Std.Legacy.Range.forIn_eq_forIn_range']
  simp only [Std.Legacy.Range.size]
  rw [show (41 - 1 + 1 - 1) / 1 = 40 from rfl]
  have hscan := scan_first (qrBody (level : Int) segs) (fun vi => totalBits segs vi ≤ capBits vi level)
    (fun vi => (vi : Int)) (List.range' 1 40) (fun a ha => by
      rw [List.mem_range'_1] at ha
      exact qrBody_spec level hl segs hm a ha.1 (by omega))
  rcases hscan with ⟨i, hi, he, hfit, hmin⟩ | ⟨he, hno⟩
  · rw [List.length_range'] at hi
    rw [List.getElem_range'] at he hfit
    refine ⟨1 + 1 * i, ?_, by omega, fun _ => ⟨hfit, ?_⟩, fun h => by omega⟩
    · rw [he]; rfl
    · intro v' h1 h2
      have := hmin (v' - 1) (by omega)
      rw [List.getElem_range'] at this
      rw [show 1 + 1 * (v' - 1) = v' by omega] at this
      omega
  · refine ⟨0, ?_, by omega, fun h => absurd rfl h, fun _ v' h1 h2 => ?_⟩
    · rw [he]; rfl
    · have := hno v' (by rw [List.mem_range'_1]; omega)
      omega
/-! ### rMQR `calcVersion` -/

def rmInnerStep (version level : Int) (capacity : Nat) (s : Segment) (st : Nat × Bool) : Out (ForInStep (Nat × Bool)) :=
  if (!st.2) = true then do
    let o ← Model.RMQR.segLength s version level
    match o with
    | none => pure (.yield (st.1, true))
    | some l => if st.1 + l > capacity then pure (.yield (st.1 + l, true)) else pure (.yield (st.1 + l, st.2))
  else pure (.yield (st.1, st.2))

def rmBody (level : Int) (segs : List Segment) (version : Int) : Out (ForInStep (Option (Option Int) × Unit)) := do
  let cap ← capAt Gen.RMQR.capacityTable version level
  let st ← forIn segs (0, false) (rmInnerStep version level (cap.data * 8))
  if (!st.2) = true ∧ st.1 ≤ cap.data * 8 then pure (.done (some (some version), ())) else pure (.yield (none, ()))

theorem rm_calcVersion_eq (level p : Int) (segs : List Segment) :
    Model.RMQR.calcVersion level p segs =
      (if (!Model.RMQR.levelIsValid level) = true then pure none
      else do
        let order ← (if p = Gen.RMQR.c_priorityArea then pure Gen.RMQR.orderArea
          else if p = Gen.RMQR.c_priorityHeight then pure Gen.RMQR.orderHeight
          else if p = Gen.RMQR.c_priorityWidth then pure Gen.RMQR.orderWidth
          else pure [] : Out (List Int))
        if (!decide (p = Gen.RMQR.c_priorityArea ∨ p = Gen.RMQR.c_priorityHeight ∨ p = Gen.RMQR.c_priorityWidth)) = true then
          pure none
        else do
          let r ← forIn order ((none : Option (Option Int)), ()) (fun v _ => rmBody level segs v)
          match r.1 with
          | some r => pure r
          | none => pure none) := by
  unfold Model.RMQR.calcVersion
  split
  · rfl
  · congr 1
    funext order
    split
    · rfl
    · congr 1
      funext r
      cases r with
      | mk a b => cases a <;> rfl

theorem rm_segLength_ok (s : Segment) (v level : Int) (hv : 0 ≤ v) (hl : 0 ≤ level) :
    ∃ o, Model.RMQR.segLength s v level = .ok o := by
  unfold Model.RMQR.segLength
  split
  · exact ⟨_, rfl⟩
  · rw [if_neg (by omega)]
    split
    · exact ⟨_, rfl⟩
    · rw [if_neg (by omega)]
      simp only []
      repeat' split
      all_goals exact ⟨_, rfl⟩

/-- the accumulator of `rmLen` -/
def rmAcc (v level : Int) (acc : Option Nat) (s : Segment) : Option Nat :=
  match acc, Model.RMQR.segLength s v level with
  | some a, .ok (some l) => some (a + l)
  | _, _ => none

theorem rmAcc_none (v level : Int) (segs : List Segment) : segs.foldl (rmAcc v level) none = none := by
  induction segs with
  | nil => rfl
  | cons s segs ih => rw [List.foldl_cons]; exact ih

theorem rmAcc_ge (v level : Int) : ∀ (segs : List Segment) (a n : Nat),
    segs.foldl (rmAcc v level) (some a) = some n → a ≤ n := by
  intro segs
  induction segs with
  | nil => intro a n h; cases h; exact Nat.le_refl _
  | cons s segs ih =>
    intro a n h
    rw [List.foldl_cons] at h
    cases hr : rmAcc v level (some a) s with
    | none => rw [hr, rmAcc_none] at h; cases h
    | some a' =>
      rw [hr] at h
      have h1 := ih _ _ h
      have h2 : a ≤ a' := by
        unfold rmAcc at hr
        split at hr
        · rename_i a'' l heq _
          cases heq; cases hr; omega
        · cases hr
      omega

theorem rmInner_spec (version level : Int) (hv : 0 ≤ version) (hl : 0 ≤ level) (cap : Nat) :
    ∀ (segs : List Segment) (a : Nat),
      ∃ st, forIn segs (a, false) (rmInnerStep version level cap) = .ok st ∧
        ((st.2 = false ∧ st.1 ≤ cap) ↔ ∃ n, segs.foldl (rmAcc version level) (some a) = some n ∧ n ≤ cap) := by
  have hover : ∀ (segs : List Segment) (a : Nat),
      forIn segs (a, true) (rmInnerStep version level cap) = .ok (a, true) := by
    intro segs
    induction segs with
    | nil => intro a; rfl
    | cons s segs ih => intro a; rw [List.forIn_cons]; simp only [rmInnerStep]; exact ih a
  intro segs
  induction segs with
  | nil => intro a; exact ⟨(a, false), rfl, by simp⟩
  | cons s segs ih =>
    intro a
    obtain ⟨o, ho⟩ := rm_segLength_ok s version level hv hl
    rw [List.forIn_cons, List.foldl_cons]
    simp only [rmInnerStep, rmAcc, ho]
    cases o with
    | none =>
      refine ⟨(a, true), ?_, ?_⟩
      · simp only [Bool.not_false, if_true, Out.bind_ok]
        exact hover segs _
      · simp [rmAcc_none]
    | some l =>
      by_cases hgt : a + l > cap
      · refine ⟨(a + l, true), ?_, ?_⟩
        · simp only [Bool.not_false, if_true, Out.bind_ok, hgt]
          exact hover segs _
        · simp only [Bool.true_eq_false, false_and, false_iff]
          rintro ⟨n, hn, hle⟩
          have := rmAcc_ge version level segs _ _ hn
          omega
      · obtain ⟨st, he, hiff⟩ := ih (a + l)
        refine ⟨st, ?_, hiff⟩
        simp only [Bool.not_false, if_true, Out.bind_ok, hgt, if_false]
        exact he
def rmLen (segs : List Segment) (v level : Int) : Option Nat :=
  segs.foldl (fun acc s =>
    match acc, Model.RMQR.segLength s v level with
    | some a, .ok (some l) => some (a + l)
    | _, _ => none) (some 0)

def rmCapBits (v : Int) (level : Nat) : Nat :=
  ((Gen.RMQR.capacityTable[v.toNat]?.getD [])[level]?.map (·.data * 8)).getD 0

def rmFits (level : Nat) (segs : List Segment) (v : Int) : Prop :=
  ∃ n, rmLen segs v (level : Int) = some n ∧ n ≤ rmCapBits v level

def rmOrder (prio : Nat) : List Int :=
  if prio = 0 then Gen.RMQR.orderArea else if prio = 1 then Gen.RMQR.orderHeight else Gen.RMQR.orderWidth

theorem rmLen_eq (segs : List Segment) (v level : Int) : rmLen segs v level = segs.foldl (rmAcc v level) (some 0) := rfl

theorem rm_table_shape : Gen.RMQR.capacityTable.length = 32 ∧ Gen.RMQR.capacityTable.all (·.length == 2) = true := by
  decide +kernel

theorem rm_order_range (prio : Nat) : ∀ v ∈ rmOrder prio, 0 ≤ v ∧ v < 32 := by
  have h : ∀ l : List Int, l.all (fun v => decide (0 ≤ v) && decide (v < 32)) = true → ∀ v ∈ l, 0 ≤ v ∧ v < 32 := by
    intro l hl v hv
    have := List.all_eq_true.1 hl v hv
    simpa using this
  unfold rmOrder
  split
  · exact h _ (by decide)
  · split
    · exact h _ (by decide)
    · exact h _ (by decide)

theorem rm_capAt (v : Int) (level : Nat) (hv0 : 0 ≤ v) (hv : v < 32) (hl : level < 2) :
    ∃ c, capAt Gen.RMQR.capacityTable v (level : Int) = .ok c ∧ rmCapBits v level = c.data * 8 := by
  obtain ⟨hlen, hall⟩ := rm_table_shape
  have hvl : v.toNat < Gen.RMQR.capacityTable.length := by omega
  have hrow : (Gen.RMQR.capacityTable[v.toNat]).length = 2 := by
    have := List.all_eq_true.1 hall _ (List.getElem_mem hvl)
    simpa using this
  have hll : level < (Gen.RMQR.capacityTable[v.toNat]).length := by omega
  refine ⟨(Gen.RMQR.capacityTable[v.toNat])[level], ?_, ?_⟩
  · unfold capAt
    rw [if_neg (by omega)]
    simp only [Int.toNat_natCast, List.getElem?_eq_getElem hvl, List.getElem?_eq_getElem hll]
  · unfold rmCapBits
    simp only [List.getElem?_eq_getElem hvl, Option.getD_some, List.getElem?_eq_getElem hll, Option.map_some]

theorem rmBody_spec (level : Nat) (hl : level < 2) (segs : List Segment) (v : Int) (hv0 : 0 ≤ v) (hv : v < 32) :
    (rmFits level segs v ∧ rmBody (level : Int) segs v = .ok (.done (some (some v), ()))) ∨
    (¬ rmFits level segs v ∧ rmBody (level : Int) segs v = .ok (.yield (none, ()))) := by
  obtain ⟨c, hc, hcb⟩ := rm_capAt v level hv0 hv hl
  obtain ⟨st, hst, hiff⟩ := rmInner_spec v (level : Int) hv0 (by omega) (c.data * 8) segs 0
  unfold rmBody
  simp only [hc, Out.bind_ok, hst]
  rw [← hcb, ← rmLen_eq] at hiff
  by_cases hfit : rmFits level segs v
  · left
    refine ⟨hfit, ?_⟩
    have := hiff.2 hfit
    rw [if_pos (by rw [hcb] at this; simpa using this)]; rfl
  · right
    refine ⟨hfit, ?_⟩
    have : ¬ (st.2 = false ∧ st.1 ≤ rmCapBits v level) := fun h => hfit (hiff.1 h)
    rw [if_neg (by rw [hcb] at this; simpa using this)]; rfl
theorem rm_order_eq (prio : Nat) (hp : prio < 3) :
    (if (prio : Int) = Gen.RMQR.c_priorityArea then pure Gen.RMQR.orderArea
      else if (prio : Int) = Gen.RMQR.c_priorityHeight then pure Gen.RMQR.orderHeight
      else if (prio : Int) = Gen.RMQR.c_priorityWidth then pure Gen.RMQR.orderWidth
      else pure [] : Out (List Int)) = .ok (rmOrder prio) := by
  have : prio = 0 ∨ prio = 1 ∨ prio = 2 := by omega
  rcases this with rfl | rfl | rfl <;> rfl

theorem rmqr_calcVersion_first_fit (level prio : Nat) (hl : level < 2) (hp : prio < 3) (segs : List Segment) :
    ∃ r, Model.RMQR.calcVersion (level : Int) (prio : Int) segs = .ok r ∧
      (∀ v, r = some v → rmFits level segs v ∧
        ∃ i : Nat, (rmOrder prio)[i]? = some v ∧ ∀ j : Nat, j < i → ∀ v', (rmOrder prio)[j]? = some v' → ¬ rmFits level segs v') ∧
      (r = none → ∀ v ∈ rmOrder prio, ¬ rmFits level segs v) := by
  rw [rm_calcVersion_eq]
  have hlv : ¬ ((!Model.RMQR.levelIsValid (level : Int)) = true) := by
    have : Model.RMQR.levelIsValid (level : Int) = true := by
      simp only [Model.RMQR.levelIsValid, Gen.RMQR.c_levelMax, Bool.and_eq_true]
      refine ⟨decide_eq_true ?_, decide_eq_true ?_⟩ <;> omega
    rw [this]; simp
  have hpv : ¬ ((!decide ((prio : Int) = Gen.RMQR.c_priorityArea ∨ (prio : Int) = Gen.RMQR.c_priorityHeight ∨
      (prio : Int) = Gen.RMQR.c_priorityWidth)) = true) := by
    have : ((prio : Int) = Gen.RMQR.c_priorityArea ∨ (prio : Int) = Gen.RMQR.c_priorityHeight ∨
      (prio : Int) = Gen.RMQR.c_priorityWidth) := by
      simp only [Gen.RMQR.c_priorityArea, Gen.RMQR.c_priorityHeight, Gen.RMQR.c_priorityWidth]; omega
    simp [this]
  rw [if_neg hlv, rm_order_eq prio hp]
  simp only [Out.bind_ok]
  rw [if_neg hpv]
  have hscan := scan_first (rmBody (level : Int) segs) (rmFits level segs) (fun v => some v) (rmOrder prio)
    (fun a ha => rmBody_spec level hl segs a (rm_order_range prio a ha).1 (rm_order_range prio a ha).2)
  rcases hscan with ⟨i, hi, he, hfit, hmin⟩ | ⟨he, hno⟩
  · refine ⟨some (rmOrder prio)[i], ?_, ⟨?_, fun h => by cases h⟩⟩
    · rw [he]; rfl
    · intro v hv
      cases hv
      refine ⟨hfit, i, List.getElem?_eq_getElem hi, ?_⟩
      intro j hj v' hv'
      rw [List.getElem?_eq_getElem (by omega)] at hv'
      cases hv'
      exact hmin j hj
  · refine ⟨none, ?_, ⟨fun v h => (by cases h), fun _ => hno⟩⟩
    rw [he]; rfl
end QRV.Lemmas.CalcVersion
