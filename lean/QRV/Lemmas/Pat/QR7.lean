import QRV.Spec.Patterns
import QRV.Gen.QR
/-
Function patterns of the regenerated tables against the declarative specification, by kernel
evaluation of every module of every listed version (one theorem per bitmap, so that a wrong cell
names its version).  This file is one of several so that lake checks them in parallel.
-/
namespace QRV.Lemmas.Pat
open QRV QRV.Spec.Patterns

set_option maxRecDepth 1000000

theorem qr_base_31 : Gen.QR.baseList_31.rows = QR.baseRows 31 := by decide +kernel
theorem qr_used_31 : Gen.QR.usedList_31.rows = QR.usedRows 31 := by decide +kernel
theorem qr_geom_31 : Gen.QR.baseList_31.maxX = (QR.size 31 : Nat) ∧ Gen.QR.baseList_31.maxY = (QR.size 31 : Nat) ∧
    Gen.QR.baseList_31.minX = 0 ∧ Gen.QR.baseList_31.minY = 0 ∧ Gen.QR.baseList_31.stride = (QR.size 31 + 7) / 8 ∧
    Gen.QR.usedList_31 = { Gen.QR.baseList_31 with rows := Gen.QR.usedList_31.rows } := by decide +kernel

theorem qr_base_32 : Gen.QR.baseList_32.rows = QR.baseRows 32 := by decide +kernel
theorem qr_used_32 : Gen.QR.usedList_32.rows = QR.usedRows 32 := by decide +kernel
theorem qr_geom_32 : Gen.QR.baseList_32.maxX = (QR.size 32 : Nat) ∧ Gen.QR.baseList_32.maxY = (QR.size 32 : Nat) ∧
    Gen.QR.baseList_32.minX = 0 ∧ Gen.QR.baseList_32.minY = 0 ∧ Gen.QR.baseList_32.stride = (QR.size 32 + 7) / 8 ∧
    Gen.QR.usedList_32 = { Gen.QR.baseList_32 with rows := Gen.QR.usedList_32.rows } := by decide +kernel

theorem qr_base_33 : Gen.QR.baseList_33.rows = QR.baseRows 33 := by decide +kernel
theorem qr_used_33 : Gen.QR.usedList_33.rows = QR.usedRows 33 := by decide +kernel
theorem qr_geom_33 : Gen.QR.baseList_33.maxX = (QR.size 33 : Nat) ∧ Gen.QR.baseList_33.maxY = (QR.size 33 : Nat) ∧
    Gen.QR.baseList_33.minX = 0 ∧ Gen.QR.baseList_33.minY = 0 ∧ Gen.QR.baseList_33.stride = (QR.size 33 + 7) / 8 ∧
    Gen.QR.usedList_33 = { Gen.QR.baseList_33 with rows := Gen.QR.usedList_33.rows } := by decide +kernel

theorem qr_base_34 : Gen.QR.baseList_34.rows = QR.baseRows 34 := by decide +kernel
theorem qr_used_34 : Gen.QR.usedList_34.rows = QR.usedRows 34 := by decide +kernel
theorem qr_geom_34 : Gen.QR.baseList_34.maxX = (QR.size 34 : Nat) ∧ Gen.QR.baseList_34.maxY = (QR.size 34 : Nat) ∧
    Gen.QR.baseList_34.minX = 0 ∧ Gen.QR.baseList_34.minY = 0 ∧ Gen.QR.baseList_34.stride = (QR.size 34 + 7) / 8 ∧
    Gen.QR.usedList_34 = { Gen.QR.baseList_34 with rows := Gen.QR.usedList_34.rows } := by decide +kernel

theorem qr_base_35 : Gen.QR.baseList_35.rows = QR.baseRows 35 := by decide +kernel
theorem qr_used_35 : Gen.QR.usedList_35.rows = QR.usedRows 35 := by decide +kernel
theorem qr_geom_35 : Gen.QR.baseList_35.maxX = (QR.size 35 : Nat) ∧ Gen.QR.baseList_35.maxY = (QR.size 35 : Nat) ∧
    Gen.QR.baseList_35.minX = 0 ∧ Gen.QR.baseList_35.minY = 0 ∧ Gen.QR.baseList_35.stride = (QR.size 35 + 7) / 8 ∧
    Gen.QR.usedList_35 = { Gen.QR.baseList_35 with rows := Gen.QR.usedList_35.rows } := by decide +kernel

end QRV.Lemmas.Pat
