import QRV.Spec.Patterns
import QRV.Gen.QR
/-
Function patterns of the regenerated tables against the declarative specification, by kernel
evaluation of every module of every listed version (one theorem per bitmap, so that a wrong cell
names its version).  This file is one of several so that lake checks them in parallel.
-/
namespace QRV.Lemmas.Pat
open QRV QRV.Spec.Patterns

set_option maxRecDepth 1000000

theorem qr_base_36 : Gen.QR.baseList_36.rows = QR.baseRows 36 := by decide +kernel
theorem qr_used_36 : Gen.QR.usedList_36.rows = QR.usedRows 36 := by decide +kernel
theorem qr_geom_36 : Gen.QR.baseList_36.maxX = (QR.size 36 : Nat) ∧ Gen.QR.baseList_36.maxY = (QR.size 36 : Nat) ∧
    Gen.QR.baseList_36.minX = 0 ∧ Gen.QR.baseList_36.minY = 0 ∧ Gen.QR.baseList_36.stride = (QR.size 36 + 7) / 8 ∧
    Gen.QR.usedList_36 = { Gen.QR.baseList_36 with rows := Gen.QR.usedList_36.rows } := by decide +kernel

theorem qr_base_37 : Gen.QR.baseList_37.rows = QR.baseRows 37 := by decide +kernel
theorem qr_used_37 : Gen.QR.usedList_37.rows = QR.usedRows 37 := by decide +kernel
theorem qr_geom_37 : Gen.QR.baseList_37.maxX = (QR.size 37 : Nat) ∧ Gen.QR.baseList_37.maxY = (QR.size 37 : Nat) ∧
    Gen.QR.baseList_37.minX = 0 ∧ Gen.QR.baseList_37.minY = 0 ∧ Gen.QR.baseList_37.stride = (QR.size 37 + 7) / 8 ∧
    Gen.QR.usedList_37 = { Gen.QR.baseList_37 with rows := Gen.QR.usedList_37.rows } := by decide +kernel

theorem qr_base_38 : Gen.QR.baseList_38.rows = QR.baseRows 38 := by decide +kernel
theorem qr_used_38 : Gen.QR.usedList_38.rows = QR.usedRows 38 := by decide +kernel
theorem qr_geom_38 : Gen.QR.baseList_38.maxX = (QR.size 38 : Nat) ∧ Gen.QR.baseList_38.maxY = (QR.size 38 : Nat) ∧
    Gen.QR.baseList_38.minX = 0 ∧ Gen.QR.baseList_38.minY = 0 ∧ Gen.QR.baseList_38.stride = (QR.size 38 + 7) / 8 ∧
    Gen.QR.usedList_38 = { Gen.QR.baseList_38 with rows := Gen.QR.usedList_38.rows } := by decide +kernel

theorem qr_base_39 : Gen.QR.baseList_39.rows = QR.baseRows 39 := by decide +kernel
theorem qr_used_39 : Gen.QR.usedList_39.rows = QR.usedRows 39 := by decide +kernel
theorem qr_geom_39 : Gen.QR.baseList_39.maxX = (QR.size 39 : Nat) ∧ Gen.QR.baseList_39.maxY = (QR.size 39 : Nat) ∧
    Gen.QR.baseList_39.minX = 0 ∧ Gen.QR.baseList_39.minY = 0 ∧ Gen.QR.baseList_39.stride = (QR.size 39 + 7) / 8 ∧
    Gen.QR.usedList_39 = { Gen.QR.baseList_39 with rows := Gen.QR.usedList_39.rows } := by decide +kernel

theorem qr_base_40 : Gen.QR.baseList_40.rows = QR.baseRows 40 := by decide +kernel
theorem qr_used_40 : Gen.QR.usedList_40.rows = QR.usedRows 40 := by decide +kernel
theorem qr_geom_40 : Gen.QR.baseList_40.maxX = (QR.size 40 : Nat) ∧ Gen.QR.baseList_40.maxY = (QR.size 40 : Nat) ∧
    Gen.QR.baseList_40.minX = 0 ∧ Gen.QR.baseList_40.minY = 0 ∧ Gen.QR.baseList_40.stride = (QR.size 40 + 7) / 8 ∧
    Gen.QR.usedList_40 = { Gen.QR.baseList_40 with rows := Gen.QR.usedList_40.rows } := by decide +kernel

end QRV.Lemmas.Pat
