import QRV.Spec.Patterns
import QRV.Gen.RMQR
/-
Function patterns of the regenerated tables against the declarative specification, by kernel
evaluation of every module of every listed version (one theorem per bitmap, so that a wrong cell
names its version).  This file is one of several so that lake checks them in parallel.
-/
namespace QRV.Lemmas.Pat
open QRV QRV.Spec.Patterns

set_option maxRecDepth 1000000

theorem rmqr_base : Gen.RMQR.baseList.map (·.rows) = (List.range 32).map RMQR.baseRows := by decide +kernel
theorem rmqr_used : Gen.RMQR.usedList.map (·.rows) = (List.range 32).map RMQR.usedRows := by decide +kernel
theorem rmqr_geom : Gen.RMQR.baseList.map (fun g => (g.minX, g.minY, g.maxX, g.maxY, g.stride)) =
    (List.range 32).map (fun v => ((0 : Int), (0 : Int), ((RMQR.width v : Nat) : Int), ((RMQR.height v : Nat) : Int), (RMQR.width v + 7) / 8)) ∧
    Gen.RMQR.usedList.map (fun g => (g.minX, g.minY, g.maxX, g.maxY, g.stride)) =
    Gen.RMQR.baseList.map (fun g => (g.minX, g.minY, g.maxX, g.maxY, g.stride)) := by decide +kernel
theorem rmqr_mask : Gen.RMQR.precomputedMask = { minX := 0, minY := 0, maxX := 144, maxY := 17, stride := 18, pixLen := 306, rows := RMQR.maskRows 144 17 } := by decide +kernel

end QRV.Lemmas.Pat
