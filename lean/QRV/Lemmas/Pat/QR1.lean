import QRV.Spec.Patterns
import QRV.Gen.QR
/-
Function patterns of the regenerated tables against the declarative specification, by kernel
evaluation of every module of every listed version (one theorem per bitmap, so that a wrong cell
names its version).  This file is one of several so that lake checks them in parallel.
-/
namespace QRV.Lemmas.Pat
open QRV QRV.Spec.Patterns

set_option maxRecDepth 1000000

theorem qr_base_1 : Gen.QR.baseList_1.rows = QR.baseRows 1 := by decide +kernel
theorem qr_used_1 : Gen.QR.usedList_1.rows = QR.usedRows 1 := by decide +kernel
theorem qr_geom_1 : Gen.QR.baseList_1.maxX = (QR.size 1 : Nat) ∧ Gen.QR.baseList_1.maxY = (QR.size 1 : Nat) ∧
    Gen.QR.baseList_1.minX = 0 ∧ Gen.QR.baseList_1.minY = 0 ∧ Gen.QR.baseList_1.stride = (QR.size 1 + 7) / 8 ∧
    Gen.QR.usedList_1 = { Gen.QR.baseList_1 with rows := Gen.QR.usedList_1.rows } := by decide +kernel

theorem qr_base_2 : Gen.QR.baseList_2.rows = QR.baseRows 2 := by decide +kernel
theorem qr_used_2 : Gen.QR.usedList_2.rows = QR.usedRows 2 := by decide +kernel
theorem qr_geom_2 : Gen.QR.baseList_2.maxX = (QR.size 2 : Nat) ∧ Gen.QR.baseList_2.maxY = (QR.size 2 : Nat) ∧
    Gen.QR.baseList_2.minX = 0 ∧ Gen.QR.baseList_2.minY = 0 ∧ Gen.QR.baseList_2.stride = (QR.size 2 + 7) / 8 ∧
    Gen.QR.usedList_2 = { Gen.QR.baseList_2 with rows := Gen.QR.usedList_2.rows } := by decide +kernel

theorem qr_base_3 : Gen.QR.baseList_3.rows = QR.baseRows 3 := by decide +kernel
theorem qr_used_3 : Gen.QR.usedList_3.rows = QR.usedRows 3 := by decide +kernel
theorem qr_geom_3 : Gen.QR.baseList_3.maxX = (QR.size 3 : Nat) ∧ Gen.QR.baseList_3.maxY = (QR.size 3 : Nat) ∧
    Gen.QR.baseList_3.minX = 0 ∧ Gen.QR.baseList_3.minY = 0 ∧ Gen.QR.baseList_3.stride = (QR.size 3 + 7) / 8 ∧
    Gen.QR.usedList_3 = { Gen.QR.baseList_3 with rows := Gen.QR.usedList_3.rows } := by decide +kernel

theorem qr_base_4 : Gen.QR.baseList_4.rows = QR.baseRows 4 := by decide +kernel
theorem qr_used_4 : Gen.QR.usedList_4.rows = QR.usedRows 4 := by decide +kernel
theorem qr_geom_4 : Gen.QR.baseList_4.maxX = (QR.size 4 : Nat) ∧ Gen.QR.baseList_4.maxY = (QR.size 4 : Nat) ∧
    Gen.QR.baseList_4.minX = 0 ∧ Gen.QR.baseList_4.minY = 0 ∧ Gen.QR.baseList_4.stride = (QR.size 4 + 7) / 8 ∧
    Gen.QR.usedList_4 = { Gen.QR.baseList_4 with rows := Gen.QR.usedList_4.rows } := by decide +kernel

theorem qr_base_5 : Gen.QR.baseList_5.rows = QR.baseRows 5 := by decide +kernel
theorem qr_used_5 : Gen.QR.usedList_5.rows = QR.usedRows 5 := by decide +kernel
theorem qr_geom_5 : Gen.QR.baseList_5.maxX = (QR.size 5 : Nat) ∧ Gen.QR.baseList_5.maxY = (QR.size 5 : Nat) ∧
    Gen.QR.baseList_5.minX = 0 ∧ Gen.QR.baseList_5.minY = 0 ∧ Gen.QR.baseList_5.stride = (QR.size 5 + 7) / 8 ∧
    Gen.QR.usedList_5 = { Gen.QR.baseList_5 with rows := Gen.QR.usedList_5.rows } := by decide +kernel

end QRV.Lemmas.Pat
