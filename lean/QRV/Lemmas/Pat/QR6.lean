import QRV.Spec.Patterns
import QRV.Gen.QR
/-
Function patterns of the regenerated tables against the declarative specification, by kernel
evaluation of every module of every listed version (one theorem per bitmap, so that a wrong cell
names its version).  This file is one of several so that lake checks them in parallel.
-/
namespace QRV.Lemmas.Pat
open QRV QRV.Spec.Patterns

set_option maxRecDepth 1000000

theorem qr_base_26 : Gen.QR.baseList_26.rows = QR.baseRows 26 := by decide +kernel
theorem qr_used_26 : Gen.QR.usedList_26.rows = QR.usedRows 26 := by decide +kernel
theorem qr_geom_26 : Gen.QR.baseList_26.maxX = (QR.size 26 : Nat) ∧ Gen.QR.baseList_26.maxY = (QR.size 26 : Nat) ∧
    Gen.QR.baseList_26.minX = 0 ∧ Gen.QR.baseList_26.minY = 0 ∧ Gen.QR.baseList_26.stride = (QR.size 26 + 7) / 8 ∧
    Gen.QR.usedList_26 = { Gen.QR.baseList_26 with rows := Gen.QR.usedList_26.rows } := by decide +kernel

theorem qr_base_27 : Gen.QR.baseList_27.rows = QR.baseRows 27 := by decide +kernel
theorem qr_used_27 : Gen.QR.usedList_27.rows = QR.usedRows 27 := by decide +kernel
theorem qr_geom_27 : Gen.QR.baseList_27.maxX = (QR.size 27 : Nat) ∧ Gen.QR.baseList_27.maxY = (QR.size 27 : Nat) ∧
    Gen.QR.baseList_27.minX = 0 ∧ Gen.QR.baseList_27.minY = 0 ∧ Gen.QR.baseList_27.stride = (QR.size 27 + 7) / 8 ∧
    Gen.QR.usedList_27 = { Gen.QR.baseList_27 with rows := Gen.QR.usedList_27.rows } := by decide +kernel

theorem qr_base_28 : Gen.QR.baseList_28.rows = QR.baseRows 28 := by decide +kernel
theorem qr_used_28 : Gen.QR.usedList_28.rows = QR.usedRows 28 := by decide +kernel
theorem qr_geom_28 : Gen.QR.baseList_28.maxX = (QR.size 28 : Nat) ∧ Gen.QR.baseList_28.maxY = (QR.size 28 : Nat) ∧
    Gen.QR.baseList_28.minX = 0 ∧ Gen.QR.baseList_28.minY = 0 ∧ Gen.QR.baseList_28.stride = (QR.size 28 + 7) / 8 ∧
    Gen.QR.usedList_28 = { Gen.QR.baseList_28 with rows := Gen.QR.usedList_28.rows } := by decide +kernel

theorem qr_base_29 : Gen.QR.baseList_29.rows = QR.baseRows 29 := by decide +kernel
theorem qr_used_29 : Gen.QR.usedList_29.rows = QR.usedRows 29 := by decide +kernel
theorem qr_geom_29 : Gen.QR.baseList_29.maxX = (QR.size 29 : Nat) ∧ Gen.QR.baseList_29.maxY = (QR.size 29 : Nat) ∧
    Gen.QR.baseList_29.minX = 0 ∧ Gen.QR.baseList_29.minY = 0 ∧ Gen.QR.baseList_29.stride = (QR.size 29 + 7) / 8 ∧
    Gen.QR.usedList_29 = { Gen.QR.baseList_29 with rows := Gen.QR.usedList_29.rows } := by decide +kernel

theorem qr_base_30 : Gen.QR.baseList_30.rows = QR.baseRows 30 := by decide +kernel
theorem qr_used_30 : Gen.QR.usedList_30.rows = QR.usedRows 30 := by decide +kernel
theorem qr_geom_30 : Gen.QR.baseList_30.maxX = (QR.size 30 : Nat) ∧ Gen.QR.baseList_30.maxY = (QR.size 30 : Nat) ∧
    Gen.QR.baseList_30.minX = 0 ∧ Gen.QR.baseList_30.minY = 0 ∧ Gen.QR.baseList_30.stride = (QR.size 30 + 7) / 8 ∧
    Gen.QR.usedList_30 = { Gen.QR.baseList_30 with rows := Gen.QR.usedList_30.rows } := by decide +kernel

end QRV.Lemmas.Pat
