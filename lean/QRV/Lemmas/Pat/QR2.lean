import QRV.Spec.Patterns
import QRV.Gen.QR
/-
Function patterns of the regenerated tables against the declarative specification, by kernel
evaluation of every module of every listed version (one theorem per bitmap, so that a wrong cell
names its version).  This file is one of several so that lake checks them in parallel.
-/
namespace QRV.Lemmas.Pat
open QRV QRV.Spec.Patterns

set_option maxRecDepth 1000000

theorem qr_base_6 : Gen.QR.baseList_6.rows = QR.baseRows 6 := by decide +kernel
theorem qr_used_6 : Gen.QR.usedList_6.rows = QR.usedRows 6 := by decide +kernel
theorem qr_geom_6 : Gen.QR.baseList_6.maxX = (QR.size 6 : Nat) ∧ Gen.QR.baseList_6.maxY = (QR.size 6 : Nat) ∧
    Gen.QR.baseList_6.minX = 0 ∧ Gen.QR.baseList_6.minY = 0 ∧ Gen.QR.baseList_6.stride = (QR.size 6 + 7) / 8 ∧
    Gen.QR.usedList_6 = { Gen.QR.baseList_6 with rows := Gen.QR.usedList_6.rows } := by decide +kernel

theorem qr_base_7 : Gen.QR.baseList_7.rows = QR.baseRows 7 := by decide +kernel
theorem qr_used_7 : Gen.QR.usedList_7.rows = QR.usedRows 7 := by decide +kernel
theorem qr_geom_7 : Gen.QR.baseList_7.maxX = (QR.size 7 : Nat) ∧ Gen.QR.baseList_7.maxY = (QR.size 7 : Nat) ∧
    Gen.QR.baseList_7.minX = 0 ∧ Gen.QR.baseList_7.minY = 0 ∧ Gen.QR.baseList_7.stride = (QR.size 7 + 7) / 8 ∧
    Gen.QR.usedList_7 = { Gen.QR.baseList_7 with rows := Gen.QR.usedList_7.rows } := by decide +kernel

theorem qr_base_8 : Gen.QR.baseList_8.rows = QR.baseRows 8 := by decide +kernel
theorem qr_used_8 : Gen.QR.usedList_8.rows = QR.usedRows 8 := by decide +kernel
theorem qr_geom_8 : Gen.QR.baseList_8.maxX = (QR.size 8 : Nat) ∧ Gen.QR.baseList_8.maxY = (QR.size 8 : Nat) ∧
    Gen.QR.baseList_8.minX = 0 ∧ Gen.QR.baseList_8.minY = 0 ∧ Gen.QR.baseList_8.stride = (QR.size 8 + 7) / 8 ∧
    Gen.QR.usedList_8 = { Gen.QR.baseList_8 with rows := Gen.QR.usedList_8.rows } := by decide +kernel

theorem qr_base_9 : Gen.QR.baseList_9.rows = QR.baseRows 9 := by decide +kernel
theorem qr_used_9 : Gen.QR.usedList_9.rows = QR.usedRows 9 := by decide +kernel
theorem qr_geom_9 : Gen.QR.baseList_9.maxX = (QR.size 9 : Nat) ∧ Gen.QR.baseList_9.maxY = (QR.size 9 : Nat) ∧
    Gen.QR.baseList_9.minX = 0 ∧ Gen.QR.baseList_9.minY = 0 ∧ Gen.QR.baseList_9.stride = (QR.size 9 + 7) / 8 ∧
    Gen.QR.usedList_9 = { Gen.QR.baseList_9 with rows := Gen.QR.usedList_9.rows } := by decide +kernel

theorem qr_base_10 : Gen.QR.baseList_10.rows = QR.baseRows 10 := by decide +kernel
theorem qr_used_10 : Gen.QR.usedList_10.rows = QR.usedRows 10 := by decide +kernel
theorem qr_geom_10 : Gen.QR.baseList_10.maxX = (QR.size 10 : Nat) ∧ Gen.QR.baseList_10.maxY = (QR.size 10 : Nat) ∧
    Gen.QR.baseList_10.minX = 0 ∧ Gen.QR.baseList_10.minY = 0 ∧ Gen.QR.baseList_10.stride = (QR.size 10 + 7) / 8 ∧
    Gen.QR.usedList_10 = { Gen.QR.baseList_10 with rows := Gen.QR.usedList_10.rows } := by decide +kernel

end QRV.Lemmas.Pat
