import QRV.Spec.Patterns
import QRV.Gen.QR
/-
Function patterns of the regenerated tables against the declarative specification, by kernel
evaluation of every module of every listed version (one theorem per bitmap, so that a wrong cell
names its version).  This file is one of several so that lake checks them in parallel.
-/
namespace QRV.Lemmas.Pat
open QRV QRV.Spec.Patterns

set_option maxRecDepth 1000000

theorem qr_base_16 : Gen.QR.baseList_16.rows = QR.baseRows 16 := by decide +kernel
theorem qr_used_16 : Gen.QR.usedList_16.rows = QR.usedRows 16 := by decide +kernel
theorem qr_geom_16 : Gen.QR.baseList_16.maxX = (QR.size 16 : Nat) ∧ Gen.QR.baseList_16.maxY = (QR.size 16 : Nat) ∧
    Gen.QR.baseList_16.minX = 0 ∧ Gen.QR.baseList_16.minY = 0 ∧ Gen.QR.baseList_16.stride = (QR.size 16 + 7) / 8 ∧
    Gen.QR.usedList_16 = { Gen.QR.baseList_16 with rows := Gen.QR.usedList_16.rows } := by decide +kernel

theorem qr_base_17 : Gen.QR.baseList_17.rows = QR.baseRows 17 := by decide +kernel
theorem qr_used_17 : Gen.QR.usedList_17.rows = QR.usedRows 17 := by decide +kernel
theorem qr_geom_17 : Gen.QR.baseList_17.maxX = (QR.size 17 : Nat) ∧ Gen.QR.baseList_17.maxY = (QR.size 17 : Nat) ∧
    Gen.QR.baseList_17.minX = 0 ∧ Gen.QR.baseList_17.minY = 0 ∧ Gen.QR.baseList_17.stride = (QR.size 17 + 7) / 8 ∧
    Gen.QR.usedList_17 = { Gen.QR.baseList_17 with rows := Gen.QR.usedList_17.rows } := by decide +kernel

theorem qr_base_18 : Gen.QR.baseList_18.rows = QR.baseRows 18 := by decide +kernel
theorem qr_used_18 : Gen.QR.usedList_18.rows = QR.usedRows 18 := by decide +kernel
theorem qr_geom_18 : Gen.QR.baseList_18.maxX = (QR.size 18 : Nat) ∧ Gen.QR.baseList_18.maxY = (QR.size 18 : Nat) ∧
    Gen.QR.baseList_18.minX = 0 ∧ Gen.QR.baseList_18.minY = 0 ∧ Gen.QR.baseList_18.stride = (QR.size 18 + 7) / 8 ∧
    Gen.QR.usedList_18 = { Gen.QR.baseList_18 with rows := Gen.QR.usedList_18.rows } := by decide +kernel

theorem qr_base_19 : Gen.QR.baseList_19.rows = QR.baseRows 19 := by decide +kernel
theorem qr_used_19 : Gen.QR.usedList_19.rows = QR.usedRows 19 := by decide +kernel
theorem qr_geom_19 : Gen.QR.baseList_19.maxX = (QR.size 19 : Nat) ∧ Gen.QR.baseList_19.maxY = (QR.size 19 : Nat) ∧
    Gen.QR.baseList_19.minX = 0 ∧ Gen.QR.baseList_19.minY = 0 ∧ Gen.QR.baseList_19.stride = (QR.size 19 + 7) / 8 ∧
    Gen.QR.usedList_19 = { Gen.QR.baseList_19 with rows := Gen.QR.usedList_19.rows } := by decide +kernel

theorem qr_base_20 : Gen.QR.baseList_20.rows = QR.baseRows 20 := by decide +kernel
theorem qr_used_20 : Gen.QR.usedList_20.rows = QR.usedRows 20 := by decide +kernel
theorem qr_geom_20 : Gen.QR.baseList_20.maxX = (QR.size 20 : Nat) ∧ Gen.QR.baseList_20.maxY = (QR.size 20 : Nat) ∧
    Gen.QR.baseList_20.minX = 0 ∧ Gen.QR.baseList_20.minY = 0 ∧ Gen.QR.baseList_20.stride = (QR.size 20 + 7) / 8 ∧
    Gen.QR.usedList_20 = { Gen.QR.baseList_20 with rows := Gen.QR.usedList_20.rows } := by decide +kernel

end QRV.Lemmas.Pat
