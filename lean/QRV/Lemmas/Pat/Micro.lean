import QRV.Spec.Patterns
import QRV.Gen.Micro
/-
Function patterns of the regenerated tables against the declarative specification, by kernel
evaluation of every module of every listed version (one theorem per bitmap, so that a wrong cell
names its version).  This file is one of several so that lake checks them in parallel.
-/
namespace QRV.Lemmas.Pat
open QRV QRV.Spec.Patterns

set_option maxRecDepth 1000000

theorem micro_base : (Gen.Micro.baseList.drop 1).map (·.rows) = (List.range 4).map (fun i => Micro.baseRows (i + 1)) := by decide +kernel
theorem micro_used : (Gen.Micro.usedList.drop 1).map (·.rows) = (List.range 4).map (fun i => Micro.usedRows (i + 1)) := by decide +kernel
theorem micro_geom : (Gen.Micro.baseList.drop 1).map (fun g => (g.minX, g.minY, g.maxX, g.maxY, g.stride)) =
    (List.range 4).map (fun i => ((0 : Int), (0 : Int), ((Micro.size (i + 1) : Nat) : Int), ((Micro.size (i + 1) : Nat) : Int), (Micro.size (i + 1) + 7) / 8)) ∧
    (Gen.Micro.usedList.drop 1).map (fun g => (g.minX, g.minY, g.maxX, g.maxY, g.stride)) =
    (Gen.Micro.baseList.drop 1).map (fun g => (g.minX, g.minY, g.maxX, g.maxY, g.stride)) := by decide +kernel
theorem micro_masks : Gen.Micro.maskList = (List.range 4).map (fun m =>
    ({ minX := 0, minY := 0, maxX := 24, maxY := 17, stride := 3, pixLen := 51, rows := Micro.maskRows m 24 17 } : Gen.GBmp)) := by decide +kernel

end QRV.Lemmas.Pat
