import QRV.Spec.Patterns
import QRV.Gen.QR
/-
Function patterns of the regenerated tables against the declarative specification, by kernel
evaluation of every module of every listed version (one theorem per bitmap, so that a wrong cell
names its version).  This file is one of several so that lake checks them in parallel.
-/
namespace QRV.Lemmas.Pat
open QRV QRV.Spec.Patterns

set_option maxRecDepth 1000000

theorem qr_base_11 : Gen.QR.baseList_11.rows = QR.baseRows 11 := by decide +kernel
theorem qr_used_11 : Gen.QR.usedList_11.rows = QR.usedRows 11 := by decide +kernel
theorem qr_geom_11 : Gen.QR.baseList_11.maxX = (QR.size 11 : Nat) ∧ Gen.QR.baseList_11.maxY = (QR.size 11 : Nat) ∧
    Gen.QR.baseList_11.minX = 0 ∧ Gen.QR.baseList_11.minY = 0 ∧ Gen.QR.baseList_11.stride = (QR.size 11 + 7) / 8 ∧
    Gen.QR.usedList_11 = { Gen.QR.baseList_11 with rows := Gen.QR.usedList_11.rows } := by decide +kernel

theorem qr_base_12 : Gen.QR.baseList_12.rows = QR.baseRows 12 := by decide +kernel
theorem qr_used_12 : Gen.QR.usedList_12.rows = QR.usedRows 12 := by decide +kernel
theorem qr_geom_12 : Gen.QR.baseList_12.maxX = (QR.size 12 : Nat) ∧ Gen.QR.baseList_12.maxY = (QR.size 12 : Nat) ∧
    Gen.QR.baseList_12.minX = 0 ∧ Gen.QR.baseList_12.minY = 0 ∧ Gen.QR.baseList_12.stride = (QR.size 12 + 7) / 8 ∧
    Gen.QR.usedList_12 = { Gen.QR.baseList_12 with rows := Gen.QR.usedList_12.rows } := by decide +kernel

theorem qr_base_13 : Gen.QR.baseList_13.rows = QR.baseRows 13 := by decide +kernel
theorem qr_used_13 : Gen.QR.usedList_13.rows = QR.usedRows 13 := by decide +kernel
theorem qr_geom_13 : Gen.QR.baseList_13.maxX = (QR.size 13 : Nat) ∧ Gen.QR.baseList_13.maxY = (QR.size 13 : Nat) ∧
    Gen.QR.baseList_13.minX = 0 ∧ Gen.QR.baseList_13.minY = 0 ∧ Gen.QR.baseList_13.stride = (QR.size 13 + 7) / 8 ∧
    Gen.QR.usedList_13 = { Gen.QR.baseList_13 with rows := Gen.QR.usedList_13.rows } := by decide +kernel

theorem qr_base_14 : Gen.QR.baseList_14.rows = QR.baseRows 14 := by decide +kernel
theorem qr_used_14 : Gen.QR.usedList_14.rows = QR.usedRows 14 := by decide +kernel
theorem qr_geom_14 : Gen.QR.baseList_14.maxX = (QR.size 14 : Nat) ∧ Gen.QR.baseList_14.maxY = (QR.size 14 : Nat) ∧
    Gen.QR.baseList_14.minX = 0 ∧ Gen.QR.baseList_14.minY = 0 ∧ Gen.QR.baseList_14.stride = (QR.size 14 + 7) / 8 ∧
    Gen.QR.usedList_14 = { Gen.QR.baseList_14 with rows := Gen.QR.usedList_14.rows } := by decide +kernel

theorem qr_base_15 : Gen.QR.baseList_15.rows = QR.baseRows 15 := by decide +kernel
theorem qr_used_15 : Gen.QR.usedList_15.rows = QR.usedRows 15 := by decide +kernel
theorem qr_geom_15 : Gen.QR.baseList_15.maxX = (QR.size 15 : Nat) ∧ Gen.QR.baseList_15.maxY = (QR.size 15 : Nat) ∧
    Gen.QR.baseList_15.minX = 0 ∧ Gen.QR.baseList_15.minY = 0 ∧ Gen.QR.baseList_15.stride = (QR.size 15 + 7) / 8 ∧
    Gen.QR.usedList_15 = { Gen.QR.baseList_15 with rows := Gen.QR.usedList_15.rows } := by decide +kernel

end QRV.Lemmas.Pat
