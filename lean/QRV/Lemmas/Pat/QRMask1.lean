import QRV.Spec.Patterns
import QRV.Gen.QR
/-
Function patterns of the regenerated tables against the declarative specification, by kernel
evaluation of every module of every listed version (one theorem per bitmap, so that a wrong cell
names its version).  This file is one of several so that lake checks them in parallel.
-/
namespace QRV.Lemmas.Pat
open QRV QRV.Spec.Patterns

set_option maxRecDepth 1000000

theorem qr_mask_0 : Gen.QR.maskList_0 = { minX := 0, minY := 0, maxX := 184, maxY := 177, stride := 23, pixLen := 23 * 177, rows := QR.maskRows 0 184 177 } := by decide +kernel

theorem qr_mask_1 : Gen.QR.maskList_1 = { minX := 0, minY := 0, maxX := 184, maxY := 177, stride := 23, pixLen := 23 * 177, rows := QR.maskRows 1 184 177 } := by decide +kernel

theorem qr_mask_2 : Gen.QR.maskList_2 = { minX := 0, minY := 0, maxX := 184, maxY := 177, stride := 23, pixLen := 23 * 177, rows := QR.maskRows 2 184 177 } := by decide +kernel

theorem qr_mask_3 : Gen.QR.maskList_3 = { minX := 0, minY := 0, maxX := 184, maxY := 177, stride := 23, pixLen := 23 * 177, rows := QR.maskRows 3 184 177 } := by decide +kernel

end QRV.Lemmas.Pat
