import QRV.Spec.Patterns
import QRV.Gen.QR
/-
Function patterns of the regenerated tables against the declarative specification, by kernel
evaluation of every module of every listed version (one theorem per bitmap, so that a wrong cell
names its version).  This file is one of several so that lake checks them in parallel.
-/
namespace QRV.Lemmas.Pat
open QRV QRV.Spec.Patterns

set_option maxRecDepth 1000000

theorem qr_base_21 : Gen.QR.baseList_21.rows = QR.baseRows 21 := by decide +kernel
theorem qr_used_21 : Gen.QR.usedList_21.rows = QR.usedRows 21 := by decide +kernel
theorem qr_geom_21 : Gen.QR.baseList_21.maxX = (QR.size 21 : Nat) ∧ Gen.QR.baseList_21.maxY = (QR.size 21 : Nat) ∧
    Gen.QR.baseList_21.minX = 0 ∧ Gen.QR.baseList_21.minY = 0 ∧ Gen.QR.baseList_21.stride = (QR.size 21 + 7) / 8 ∧
    Gen.QR.usedList_21 = { Gen.QR.baseList_21 with rows := Gen.QR.usedList_21.rows } := by decide +kernel

theorem qr_base_22 : Gen.QR.baseList_22.rows = QR.baseRows 22 := by decide +kernel
theorem qr_used_22 : Gen.QR.usedList_22.rows = QR.usedRows 22 := by decide +kernel
theorem qr_geom_22 : Gen.QR.baseList_22.maxX = (QR.size 22 : Nat) ∧ Gen.QR.baseList_22.maxY = (QR.size 22 : Nat) ∧
    Gen.QR.baseList_22.minX = 0 ∧ Gen.QR.baseList_22.minY = 0 ∧ Gen.QR.baseList_22.stride = (QR.size 22 + 7) / 8 ∧
    Gen.QR.usedList_22 = { Gen.QR.baseList_22 with rows := Gen.QR.usedList_22.rows } := by decide +kernel

theorem qr_base_23 : Gen.QR.baseList_23.rows = QR.baseRows 23 := by decide +kernel
theorem qr_used_23 : Gen.QR.usedList_23.rows = QR.usedRows 23 := by decide +kernel
theorem qr_geom_23 : Gen.QR.baseList_23.maxX = (QR.size 23 : Nat) ∧ Gen.QR.baseList_23.maxY = (QR.size 23 : Nat) ∧
    Gen.QR.baseList_23.minX = 0 ∧ Gen.QR.baseList_23.minY = 0 ∧ Gen.QR.baseList_23.stride = (QR.size 23 + 7) / 8 ∧
    Gen.QR.usedList_23 = { Gen.QR.baseList_23 with rows := Gen.QR.usedList_23.rows } := by decide +kernel

theorem qr_base_24 : Gen.QR.baseList_24.rows = QR.baseRows 24 := by decide +kernel
theorem qr_used_24 : Gen.QR.usedList_24.rows = QR.usedRows 24 := by decide +kernel
theorem qr_geom_24 : Gen.QR.baseList_24.maxX = (QR.size 24 : Nat) ∧ Gen.QR.baseList_24.maxY = (QR.size 24 : Nat) ∧
    Gen.QR.baseList_24.minX = 0 ∧ Gen.QR.baseList_24.minY = 0 ∧ Gen.QR.baseList_24.stride = (QR.size 24 + 7) / 8 ∧
    Gen.QR.usedList_24 = { Gen.QR.baseList_24 with rows := Gen.QR.usedList_24.rows } := by decide +kernel

theorem qr_base_25 : Gen.QR.baseList_25.rows = QR.baseRows 25 := by decide +kernel
theorem qr_used_25 : Gen.QR.usedList_25.rows = QR.usedRows 25 := by decide +kernel
theorem qr_geom_25 : Gen.QR.baseList_25.maxX = (QR.size 25 : Nat) ∧ Gen.QR.baseList_25.maxY = (QR.size 25 : Nat) ∧
    Gen.QR.baseList_25.minX = 0 ∧ Gen.QR.baseList_25.minY = 0 ∧ Gen.QR.baseList_25.stride = (QR.size 25 + 7) / 8 ∧
    Gen.QR.usedList_25 = { Gen.QR.baseList_25 with rows := Gen.QR.usedList_25.rows } := by decide +kernel

end QRV.Lemmas.Pat
