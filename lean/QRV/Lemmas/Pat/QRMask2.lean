import QRV.Spec.Patterns
import QRV.Gen.QR
/-
Function patterns of the regenerated tables against the declarative specification, by kernel
evaluation of every module of every listed version (one theorem per bitmap, so that a wrong cell
names its version).  This file is one of several so that lake checks them in parallel.
-/
namespace QRV.Lemmas.Pat
open QRV QRV.Spec.Patterns

set_option maxRecDepth 1000000

theorem qr_mask_4 : Gen.QR.maskList_4 = { minX := 0, minY := 0, maxX := 184, maxY := 177, stride := 23, pixLen := 23 * 177, rows := QR.maskRows 4 184 177 } := by decide +kernel

theorem qr_mask_5 : Gen.QR.maskList_5 = { minX := 0, minY := 0, maxX := 184, maxY := 177, stride := 23, pixLen := 23 * 177, rows := QR.maskRows 5 184 177 } := by decide +kernel

theorem qr_mask_6 : Gen.QR.maskList_6 = { minX := 0, minY := 0, maxX := 184, maxY := 177, stride := 23, pixLen := 23 * 177, rows := QR.maskRows 6 184 177 } := by decide +kernel

theorem qr_mask_7 : Gen.QR.maskList_7 = { minX := 0, minY := 0, maxX := 184, maxY := 177, stride := 23, pixLen := 23 * 177, rows := QR.maskRows 7 184 177 } := by decide +kernel

end QRV.Lemmas.Pat
