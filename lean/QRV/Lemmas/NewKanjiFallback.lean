import QRV.Lemmas.NewOptimal
/-
The byte-mode fallback of the repaired `newFromKanji` (`Model.QR.NEW_KANJI_BYTE_FALLBACK`): when the
segments chosen by the kanji-aware mode selection fit no version, the payload is retried as ONE byte-mode
segment.  Hence QR `New` with kanji enabled answers "too large" only when that single segment does not
fit version 40.
-/
namespace QRV.Lemmas.NewKanjiFallback
open QRV QRV.Model QRV.Model.Sym QRV.Model.New QRV.Model.Codec QRV.Spec.Valid QRV.Lemmas.NewDP

/-- the back-tracking tail of the kanji programme returns (the sharpening of `tailK_no_panic`: it has no
error exit) -/
theorem tailK_total (ml : List Nat) (data : Array Nat) (S : Array (Array StK)) (hW : AllE WK S) :
    ∃ segs, tailK ml data S = .ok segs := by
  unfold tailK
  obtain ⟨p, hp, _⟩ := pick_ok S[data.size]! (fun _ _ => True) (((S[data.size]!)[1]!).cost, 1) trivial
    (fun _ _ _ _ _ => trivial)
  rw [hp]
  simp only [Out.bind_ok]
  have hstep : ∀ t (s : BackSt), 0 ≤ t → t < 2 * data.size + 4 →
      (s.2.2.2 = true ∨ s.2.2.1 + t ≤ data.size) →
      ∃ s', backMK data S t s = .ok (.yield s') ∧ (s'.2.2.2 = true ∨ s'.2.2.1 + (t + 1) ≤ data.size) := by
    intro t s _ ht hJ
    unfold backMK
    by_cases hfin : s.2.2.2 = true
    · rw [if_neg (by rw [hfin]; simp)]
      exact ⟨_, rfl, .inl hfin⟩
    · have hfin' : s.2.2.2 = false := by simpa using hfin
      rw [if_pos (by rw [hfin']; rfl)]
      by_cases hl : ((S[s.2.2.1]!)[s.1]!).lastMode = 0
      · rw [if_pos hl]
        exact ⟨_, rfl, .inl rfl⟩
      · rw [if_neg hl]
        have hw := hW s.2.2.1 s.1 hl
        have hi : s.2.2.1 + t ≤ data.size := by
          rcases hJ with h | h
          · exact absurd h hfin
          · exact h
        rw [if_neg (by have := hw.2; show ¬ (dlenK (gK S s.2.2.1 s.1).data > s.2.2.1); omega)]
        refine ⟨_, rfl, .inr ?_⟩
        have h1 := hw.1
        show s.2.2.1 - dlenK (gK S s.2.2.1 s.1).data + (t + 1) ≤ data.size
        omega
  obtain ⟨r, hr, hJ⟩ := forIn_out_range (backMK data S)
    (fun t (s : BackSt) => s.2.2.2 = true ∨ s.2.2.1 + t ≤ data.size) 0 (2 * data.size + 4)
    ((p.2, #[(p.2, sliceK data ((S[data.size]!)[p.2]!).data)], data.size, false) : BackSt) (Nat.zero_le _)
    (.inr (Nat.le_refl _)) hstep
  rw [hr]
  simp only [Out.bind_ok]
  have hfin : r.2.2.2 = true := by
    rcases hJ with h | h
    · exact h
    · omega
  rw [hfin]
  exact ⟨_, rfl⟩

/-- the kanji-aware mode selection always returns a segment list (it has neither an error exit nor,
by `newKanji_no_panic'`, a panic) -/
theorem newKanji_total (ml : List Nat) (data : Array Nat) : ∃ segs, newKanjiSegs ml data = .ok segs := by
  rw [newKanjiSegs_eq]
  obtain ⟨S, hS, hW⟩ := fillK_ind data (fun _ S => AllE WK S) (WK_init _) (fun i S _ h => WK_step data i S h)
  rw [hS]
  exact tailK_total ml data S hW

/-- the standard bit length of the payload as one byte-mode segment at version 40 -/
theorem byteSeg_total40 (data : List Nat) :
    Lemmas.CalcVersion.totalBits [{ mode := Model.QR.modeBytes, data := data }] 40 = 4 + 16 + 8 * data.length := by
  simp [Lemmas.CalcVersion.totalBits, Spec.Valid.QR.segBits, Spec.Valid.QR.kindOf, Spec.Valid.QR.countBits,
    Model.QR.modeBytes, bodyBits, count]

/-- QR `New` with kanji enabled answers "too large" only when the payload does not fit version 40 at that
level even as a single byte-mode segment -/
theorem qr_new_kanji_not_too_large (level : Int) (hl : Model.QR.levelIsValid level = true) (data : List Nat)
    (_hb : ∀ b ∈ data, b < 256)
    (hfit : 4 + 16 + 8 * data.length ≤ 8 * Spec.Tables.dataCodewords 40 level.toNat) :
    ∃ q, Model.QR.new level true data = .ok q := by
  obtain ⟨l, hl4, rfl⟩ := Lemmas.NewQRValid.level_of_valid hl
  simp only [Int.toNat_natCast] at hfit
  unfold Model.QR.new
  simp only []
  split
  · rename_i hlv
    rw [hl] at hlv
    cases hlv
  · split
    · exact ⟨_, rfl⟩
    · simp only [if_true]
      obtain ⟨segs, hK⟩ := newKanji_total [0, Model.QR.modeNumeric, Model.QR.modeAlphanumeric, Model.QR.modeBytes,
        Model.QR.modeKanji] data.toArray
      rw [hK]
      simp only [Out.bind_ok]
      obtain ⟨v, hv, _, _, _⟩ := Lemmas.CalcVersion.qr_calcVersion_minimal l hl4 segs
        (Lemmas.NewKanjiValid.newKanji_modes data.toArray segs hK)
      rw [hv]
      simp only [Out.bind_ok]
      split
      · -- the selected segments fit no version: the single byte-mode segment does
        obtain ⟨v', hv', _, _, hzero⟩ := Lemmas.CalcVersion.qr_calcVersion_minimal l hl4
          [{ mode := Model.QR.modeBytes, data := data }]
          (fun s hs => by rw [List.mem_singleton.1 hs]; exact Or.inr (Or.inr (Or.inl rfl)))
        apply Lemmas.NewOptimal.new_tail_ok (l : Int) _ v' hv'
        intro hv0
        have h1 := hzero hv0 40 (by omega) (by omega)
        rw [Lemmas.NewQRValid.capBits_eq 40 l (by omega) (by omega) hl4, byteSeg_total40] at h1
        omega
      · rename_i hnfb
        split
        · rename_i hv0
          exact absurd ⟨hv0, trivial, rfl⟩ hnfb
        · exact ⟨_, rfl⟩

end QRV.Lemmas.NewKanjiFallback
