import Mathlib.Algebra.Polynomial.Coeff
import Mathlib.Algebra.Polynomial.Eval.Defs
import Mathlib.Algebra.Polynomial.Degree.Lemmas
import Mathlib.Algebra.Polynomial.Degree.Operations
import Mathlib.Algebra.BigOperators.Intervals
import Mathlib.Tactic.Ring
import QRV.Lemmas.RSCompleteMathlibField
/-
Bridge from the model's big-endian coefficient lists to `Polynomial F`.
-/
namespace QRV.Lemmas.RSC
open Polynomial QRV.Model QRV.Model.GF QRV.Model.RS QRV.Lemmas.GF QRV.Lemmas.RS

/-- the polynomial of a big-endian coefficient list -/
noncomputable def toPoly (p : List Nat) : F[X] :=
  ∑ i ∈ Finset.range p.length, C (toF (Poly.coefficient p i)) * X ^ i

theorem coeff_toPoly (p : List Nat) (e : Nat) : (toPoly p).coeff e = toF (Poly.coefficient p e) := by
  unfold toPoly
  rw [finsetSum_coeff]
  simp only [coeff_C_mul_X_pow]
  rw [Finset.sum_ite_eq]
  split
  · rfl
  next h =>
    rw [coefficient_ge (by simpa using h)]; rfl

theorem toPoly_ext {p : List Nat} {P : F[X]} (h : ∀ e, toF (Poly.coefficient p e) = P.coeff e) :
    toPoly p = P := by
  ext e; rw [coeff_toPoly, h]

theorem toPoly_nil : toPoly [] = 0 := by
  unfold toPoly; simp

theorem toPoly_cons (a : Nat) (l : List Nat) :
    toPoly (a :: l) = C (toF a) * X ^ l.length + toPoly l := by
  apply toPoly_ext; intro e
  rw [coefficient_cons, coeff_add, coeff_C_mul_X_pow, coeff_toPoly]
  split
  next h => rw [coefficient_ge (by omega)]; simp
  · simp

theorem toPoly_one : toPoly [1] = 1 := by
  rw [toPoly_cons, toPoly_nil]; simp

theorem toPoly_padd {p q : List Nat} (hp : AllEl p) (hq : AllEl q) :
    toPoly (Poly.padd p q) = toPoly p + toPoly q := by
  apply toPoly_ext; intro e
  rw [coefficient_padd, coeff_add, coeff_toPoly, coeff_toPoly,
    toF_add (coefficient_lt p hp e) (coefficient_lt q hq e)]

theorem toPoly_newMonomial (d c : Nat) : toPoly (Poly.newMonomial d c) = C (toF c) * X ^ d := by
  apply toPoly_ext; intro e
  rw [coefficient_newMonomial, coeff_C_mul_X_pow]
  split <;> rfl

theorem toPoly_mulMonomial {p : List Nat} (hp : AllEl p) (d : Nat) {c : Nat} (hc : c < 256) :
    toPoly (Poly.mulMonomial p d c) = toPoly p * (C (toF c) * X ^ d) := by
  apply toPoly_ext; intro e
  rw [coefficient_mulMonomial, ← _root_.mul_assoc, coeff_mul_X_pow', coeff_mul_C, coeff_toPoly]
  by_cases h : e < d
  · rw [if_pos h, if_neg (by omega)]; rfl
  · rw [if_neg h, if_pos (by omega), toF_mul (coefficient_lt p hp _) hc]

theorem toPoly_mulElement {p : List Nat} (hp : AllEl p) {c : Nat} (hc : c < 256) :
    toPoly (Poly.mulElement p c) = toPoly p * C (toF c) := by
  apply toPoly_ext; intro e
  rw [coefficient_mulElement, coeff_mul_C, coeff_toPoly, toF_mul (coefficient_lt p hp _) hc]

theorem toPoly_replicate_zero (n : Nat) : toPoly (List.replicate n 0) = 0 := by
  apply toPoly_ext; intro e
  rw [coefficient_replicate_zero]; simp

/-! ### evaluation -/

theorem toF_evalFrom {x : Nat} (hx : x < 256) : ∀ (p : List Nat) (acc : Nat), acc < 256 → AllEl p →
    toF (evalFrom x acc p) = toF acc * toF x ^ p.length + (toPoly p).eval (toF x)
  | [], acc, _, _ => by simp [toPoly_nil]
  | b :: p, acc, ha, hp => by
    have hb : b < 256 := hp.head
    rw [evalFrom_cons, toF_evalFrom hx p _ (add_lt (mul_lt ha hx) hb) hp.tail,
      toF_add (mul_lt ha hx) hb, toF_mul ha hx, toPoly_cons]
    simp only [eval_add, eval_mul, eval_C, eval_pow, eval_X, List.length_cons]
    ring

theorem toF_eval {x : Nat} (hx : x < 256) {p : List Nat} (hp : AllEl p) :
    toF (Poly.eval p x) = (toPoly p).eval (toF x) := by
  rw [eval_eq, toF_evalFrom hx p 0 (by decide) hp]; simp

/-! ### degree -/

theorem natDegree_toPoly_le (p : List Nat) : (toPoly p).natDegree ≤ Poly.degree p := by
  rw [natDegree_le_iff_coeff_eq_zero]
  intro e he
  rw [coeff_toPoly, degLE_degree p e he]; rfl

theorem natDegree_toPoly {p : List Nat} (hp : AllEl p) : (toPoly p).natDegree = Poly.degree p := by
  apply Nat.le_antisymm (natDegree_toPoly_le p)
  by_cases h : Poly.degree p ≥ 1
  · apply le_natDegree_of_ne_zero
    rw [coeff_toPoly, Ne, toF_eq_zero (coefficient_lt p hp _)]
    exact lead_ne_zero p h
  · omega

theorem natDegree_toPoly_le_of_degLE {p : List Nat} {d : Nat} (h : DegLE p d) :
    (toPoly p).natDegree ≤ d := by
  rw [natDegree_le_iff_coeff_eq_zero]
  intro e he
  rw [coeff_toPoly, h e he]; rfl

/-! ### positional form -/

theorem toPoly_positional (p : List Nat) :
    toPoly p = ∑ j ∈ Finset.range p.length, C (toF (p[j]?.getD 0)) * X ^ (p.length - 1 - j) := by
  unfold toPoly
  rw [← Finset.sum_range_reflect]
  apply Finset.sum_congr rfl
  intro j hj
  rw [getD_eq_coefficient p j (by simpa using hj)]

end QRV.Lemmas.RSC
