import QRV.Props.C05Ext
import QRV.Props.C01Micro
import QRV.Lemmas.NewDPGen
import QRV.Lemmas.FitCountMicro
import QRV.Lemmas.NewQRValid
/-
C04Ext2: `New` of the Micro QR package returns valid descriptions and never panics.  Mode selection:
`Lemmas.NewDPGen` (mode list `[0, 0, 1, 2, 3]`); version: `C05.micro_calcVersion_minimal`; counts:
`Lemmas.FitCountMicro`; the empty payload gets the lowest version of the level (a legal pair for
each of the four level values, by evaluation of the standard's table).
-/
namespace QRV.Lemmas.NewMicroValid
open QRV QRV.Model QRV.Model.Sym QRV.Model.New QRV.Model.Codec QRV.Spec.Valid QRV.Lemmas.NewDP QRV.Lemmas.NewDPGen
open QRV.Lemmas.NewQRValid (le_sum_of_mem)

theorem distinct : Distinct 0 1 2 3 := ⟨by decide, by decide, by decide, by decide, by decide, by decide⟩

/-- the segment step of `Model.Micro.new` -/
abbrev dpStep (kanji : Bool) (data : List Nat) : Out (List Segment) :=
  dpStepG ((4 + 6) * 6) ((4 + 5) * 6) ((4 + 5) * 6) 0 1 2 3 kanji data

theorem level_of_valid {level : Int} (h : ¬ (level < 0 ∨ level ≥ 4)) : ∃ l : Nat, l < 4 ∧ level = (l : Int) :=
  ⟨level.toNat, by omega, by omega⟩

/-- the shape of an accepted call of `Model.Micro.new` -/
theorem new_cases (level : Int) (kanji : Bool) (data : List Nat) (q : QRCode)
    (h : Model.Micro.new level kanji data = .ok q) :
    ¬ (level < 0 ∨ level ≥ 4) ∧
    ((data = [] ∧ ∃ v, Model.Micro.calcVersion level [] = .ok v ∧ q = { version := v, level, mask := -1, segments := [] }) ∨
     (data ≠ [] ∧ ∃ segs v, dpStep kanji data = .ok segs ∧ Model.Micro.calcVersion level segs = .ok v ∧ v ≠ 0 ∧
        q = { version := v, level, mask := -1, segments := segs })) := by
  unfold Model.Micro.new at h
  simp only [] at h
  split at h
  · cases h
  · rename_i hlv
    refine ⟨hlv, ?_⟩
    split at h
    · rename_i he
      left
      obtain ⟨v, hv, h⟩ := bind_eq_ok h
      cases h
      exact ⟨by simpa using he, v, hv, rfl⟩
    · rename_i he
      right
      refine ⟨by simpa using he, ?_⟩
      obtain ⟨segs, hs, h⟩ := bind_eq_ok h
      obtain ⟨v, hv, h⟩ := bind_eq_ok h
      split at h
      · cases h
      · rename_i hv0
        cases h
        exact ⟨segs, v, hs, hv, hv0, rfl⟩

/-- every level value has a version: the empty payload is never refused (the standard's table) -/
theorem level_has_version :
    (List.range 4).all (fun l => (List.range 5).any (fun v => decide (1 ≤ v) && (Micro.dataBits v l).isSome)) = true := by
  decide +kernel

theorem micro_new_valid (level : Int) (kanji : Bool) (data : List Nat) (hb : ∀ b ∈ data, b < 256)
    (hsz : data.length < 2 ^ 56) (q : QRCode) (h : Model.Micro.new level kanji data = .ok q) :
    Spec.Valid.Micro.Valid q ∧ q.level = level ∧ q.mask = -1 ∧ q.segments.flatMap (·.data) = data ∧
      (∀ s ∈ q.segments, s.data ≠ []) ∧ (kanji = false → ∀ s ∈ q.segments, s.mode ≠ 3) := by
  obtain ⟨hlv, hcase⟩ := new_cases level kanji data q h
  obtain ⟨l, hl, rfl⟩ := level_of_valid hlv
  rcases hcase with ⟨rfl, v, hv, rfl⟩ | ⟨hne, segs, v, hs, hv, hv0, rfl⟩
  · obtain ⟨v', hv', hv4, hfit, hnone⟩ := QRV.Props.C05.micro_calcVersion_minimal l hl []
    rw [hv] at hv'
    cases hv'
    have hv0 : v' ≠ 0 := by
      intro h0
      have hany := forall_lt_of_all level_has_version l hl
      obtain ⟨w, hw, hw'⟩ := List.any_eq_true.1 hany
      simp only [Bool.and_eq_true, decide_eq_true_eq, List.mem_range] at hw hw'
      obtain ⟨c, hc⟩ := Option.isSome_iff_exists.1 hw'.2
      exact hnone h0 w hw'.1 (by omega) ⟨c, hc, fun s hs => (by cases hs), Nat.zero_le _⟩
    obtain ⟨⟨cap, hcap, _, _⟩, _⟩ := hfit hv0
    refine ⟨⟨?_, ?_, ?_, by simp, ?_, ?_⟩, rfl, rfl, rfl, ?_, ?_⟩
    · simp only; omega
    · simp only; omega
    · simp only [Int.toNat_natCast]; rw [hcap]; rfl
    · intro s hs; cases hs
    · simp
    · intro s hs; cases hs
    · intro _ s hs; cases hs
  · obtain ⟨hcat, hnonempty, hsegs⟩ := dpStepG_out _ _ _ distinct (by decide) kanji data hb hne hsz segs hs
    obtain ⟨v', hv', hv4, hfit, _⟩ := QRV.Props.C05.micro_calcVersion_minimal l hl segs
    rw [hv] at hv'
    cases hv'
    have hv0' : v' ≠ 0 := by intro h0; exact hv0 (by rw [h0]; rfl)
    obtain ⟨⟨cap, hcap, hmodes, hsum⟩, _⟩ := hfit hv0'
    refine ⟨⟨?_, ?_, ?_, by simp, ?_, ?_⟩, rfl, rfl, hcat, hnonempty, ?_⟩
    · simp only; omega
    · simp only; omega
    · simp only [Int.toNat_natCast]; rw [hcap]; rfl
    · intro s hsm
      simp only [Int.toNat_natCast]
      obtain ⟨k, cb, hk, hcb⟩ := hmodes s hsm
      have hvd : ValidData k s.data := by
        unfold Micro.kindOf at hk
        split at hk
        · cases hk
          rcases hsegs s hsm with ⟨hm, hd⟩ | ⟨hm, hd⟩ | ⟨hm, hd⟩ | ⟨_, hm, hd⟩ <;> rw [hm] <;> exact hd
        · cases hk
      refine ⟨k, cb, hk, hcb, hvd, ?_⟩
      apply Lemmas.FitCountMicro.micro_fit_implies_count v' l cap hcap s k cb hk hcb
      have hmem : Micro.segBits s v' ∈ segs.map fun s => Micro.segBits s v' := List.mem_map.2 ⟨s, hsm, rfl⟩
      have := le_sum_of_mem hmem
      omega
    · simp only [Int.toNat_natCast]
      rw [hcap]
      exact hsum
    · intro hk s hsm
      subst hk
      rcases hsegs s hsm with ⟨hm, _⟩ | ⟨hm, _⟩ | ⟨hm, _⟩ | ⟨hf, _⟩
      · omega
      · omega
      · omega
      · cases hf

theorem micro_new_roundtrip (level : Int) (kanji : Bool) (data : List Nat) (hb : ∀ b ∈ data, b < 256)
    (hsz : data.length < 2 ^ 56) (q : QRCode) (h : Model.Micro.new level kanji data = .ok q) :
    ∃ img q', Model.Micro.encodeToBitmap q = .ok img ∧ Model.Micro.decodeBitmap img = .ok q' ∧
      q'.version = q.version ∧ q'.level = level ∧ q'.segments = q.segments ∧
      q'.segments.flatMap (·.data) = data := by
  obtain ⟨hvalid, hlevel, _, hcat, hne, _⟩ := micro_new_valid level kanji data hb hsz q h
  obtain ⟨img, m, henc, _, _, _, hdec⟩ := QRV.Props.C01.roundtrip_Micro q hvalid hne
  exact ⟨img, { q with mask := m }, henc, hdec, rfl, hlevel, rfl, hcat⟩

/-- the tail of `New` (version choice) is total, whatever the segments: Micro QR's `Segment.length`
reports an unknown mode instead of panicking -/
theorem new_tail_no_panic (level : Int) (hlv : ¬ (level < 0 ∨ level ≥ 4)) (segs : List Segment) :
    (do
      let version ← Model.Micro.calcVersion level segs
      if version = 0 then Out.err (α := Unit) "microqr: data too large"
      pure ({ version, level, mask := Gen.Micro.c_maskAuto, segments := segs } : QRCode)).isPanic = false := by
  obtain ⟨l, hl, rfl⟩ := level_of_valid hlv
  obtain ⟨v, hv, _⟩ := QRV.Props.C05.micro_calcVersion_minimal l hl segs
  rw [hv]
  simp only [Out.bind_ok]
  split <;> rfl

/-- Micro QR `New` never panics, whatever the payload (no size bound is needed, with or without
kanji) -/
theorem micro_new_no_panic' (level : Int) (kanji : Bool) (data : List Nat) :
    (Model.Micro.new level kanji data).isPanic = false := by
  unfold Model.Micro.new
  simp only []
  split
  · rfl
  · rename_i hlv
    split
    · obtain ⟨l, hl, rfl⟩ := level_of_valid hlv
      obtain ⟨v, hv, _⟩ := QRV.Props.C05.micro_calcVersion_minimal l hl []
      rw [hv]
      rfl
    · have hstep := dpStepG_no_panic ((4 + 6) * 6) ((4 + 5) * 6) ((4 + 5) * 6) 0 1 2 3 kanji data
      unfold dpStepG at hstep
      cases hK : (if kanji = true then New.newKanjiSegs [0, 0, 1, 2, 3] data.toArray
          else pure (New.newQRSegs ((4 + 6) * 6) ((4 + 5) * 6) ((4 + 5) * 6) [0, 0, 1, 2] data.toArray)) with
      | ok segs =>
        have e : (if kanji = true then New.newKanjiSegs [0, Model.Micro.modeNumeric, Model.Micro.modeAlphanumeric,
              Model.Micro.modeBytes, Model.Micro.modeKanji] data.toArray
            else pure (New.newQRSegs ((4 + 6) * 6) ((4 + 5) * 6) ((4 + 5) * 6) [0, Model.Micro.modeNumeric,
              Model.Micro.modeAlphanumeric, Model.Micro.modeBytes] data.toArray)) = .ok segs := hK
        rw [e]
        simp only [Out.bind_ok]
        exact new_tail_no_panic level hlv segs
      | err m =>
        have e : (if kanji = true then New.newKanjiSegs [0, Model.Micro.modeNumeric, Model.Micro.modeAlphanumeric,
              Model.Micro.modeBytes, Model.Micro.modeKanji] data.toArray
            else pure (New.newQRSegs ((4 + 6) * 6) ((4 + 5) * 6) ((4 + 5) * 6) [0, Model.Micro.modeNumeric,
              Model.Micro.modeAlphanumeric, Model.Micro.modeBytes] data.toArray)) = .err m := hK
        rw [e]
        rfl
      | panic m =>
        rw [hK] at hstep
        cases hstep

theorem micro_new_no_panic (level : Int) (kanji : Bool) (data : List Nat) (_hb : ∀ b ∈ data, b < 256)
    (_hsz : kanji = false → data.length < 2 ^ 56) :
    (Model.Micro.new level kanji data).isPanic = false :=
  micro_new_no_panic' level kanji data

end QRV.Lemmas.NewMicroValid
