import QRV.Lemmas.RTDefs
import QRV.Lemmas.RTFinBlocks
import QRV.Props.C13
import QRV.Props.C14
/-
Round trip C01, block structure, part 1: loop rules for `Out`, the list-level specification of
`Model.Sym.splitBlocks` (`encBlocks`) and the proof that the model loop computes it.
-/
namespace QRV.Lemmas.RT
open QRV QRV.Model QRV.Model.Bits QRV.Model.Sym

/-! ### loop rules -/

theorem pure_eq_ok {α : Type} (a : α) : (pure a : Out α) = .ok a := rfl
theorem pure_bind_out {α β : Type} (a : α) (f : α → Out β) : ((pure a : Out α) >>= f) = f a := rfl

theorem forIn_range_eq {β : Type} (n : Nat) (init : β) (f : Nat → β → Out (ForInStep β)) :
    forIn [:n] init f = forIn (List.range' 0 n) init f := by
  simp only [Std.Legacy.Range.forIn_eq_forIn_range', Std.Legacy.Range.size]
  rw [show (n - 0 + 1 - 1) / 1 = n by simp]

/-- invariant rule for a `for x in l` loop over `Out` whose body always continues; the invariant
is indexed by the number of elements already consumed -/
theorem forIn_list_ok {α β : Type} (f : α → β → Out (ForInStep β)) (l : List α) :
    ∀ (P : Nat → β → Prop) (init : β), P 0 init →
      (∀ j b (hj : j < l.length), P j b → ∃ b', f l[j] b = .ok (.yield b') ∧ P (j + 1) b') →
      ∃ b, forIn l init f = .ok b ∧ P l.length b := by
  induction l with
  | nil => intro P init h0 _; exact ⟨init, rfl, h0⟩
  | cons a l ih =>
    intro P init h0 hstep
    obtain ⟨b', hb', hP⟩ := hstep 0 init (by simp) h0
    obtain ⟨b, hb, hPb⟩ := ih (fun j => P (j + 1)) b' hP (fun j b hj hPj => by
      have := hstep (j + 1) b (by simp; omega) hPj
      simpa using this)
    refine ⟨b, ?_, by simpa using hPb⟩
    rw [List.forIn_cons]
    simp only [List.getElem_cons_zero] at hb'
    rw [hb']
    exact hb

/-- a loop whose body ignores the index: n-fold iteration -/
theorem forIn_range'_iter {β : Type} (g : β → Out (ForInStep β)) (P : Nat → β → Prop) (n : Nat) :
    ∀ (a : Nat) (init : β), P 0 init →
      (∀ k b, k < n → P k b → ∃ b', g b = .ok (.yield b') ∧ P (k + 1) b') →
      ∃ b, forIn (List.range' a n) init (fun _ s => g s) = .ok b ∧ P n b := by
  induction n generalizing P with
  | zero => intro a init h0 _; exact ⟨init, rfl, h0⟩
  | succ n ih =>
    intro a init h0 hstep
    obtain ⟨b', hb', hP⟩ := hstep 0 init (by omega) h0
    obtain ⟨b, hb, hPb⟩ := ih (fun j => P (j + 1)) (a + 1) b' hP
      (fun k b hk hPk => hstep (k + 1) b (by omega) hPk)
    refine ⟨b, ?_, hPb⟩
    rw [List.range'_succ, List.forIn_cons, hb']
    exact hb

/-! ### specification of `splitBlocks` -/

/-- (data length, correction length) of every block, in order: literally the `sizes` of
`Model.Sym.deinterleave` -/
def sizesOf (blocks : List Gen.GBlock) : List (Nat × Nat) :=
  blocks.flatMap fun bc => List.replicate bc.num (bc.data, bc.total - bc.data)

/-- the correction codewords of a data block, as a pure function -/
def parityOf (n : Nat) (d : List Nat) : List Nat :=
  RS.sum (RS.tapsOf n) (RS.write (RS.tapsOf n) (List.replicate n 0) d) []

theorem parity_eq (n : Nat) (h2 : 2 ≤ n) (h68 : n ≤ 68) (d : List Nat) :
    RS.parity n d = .ok (parityOf n d) := by
  unfold RS.parity
  rw [(Props.C13.new_state n h2 h68).1]
  rfl

/-- consecutive chunks of the data with their correction codewords -/
def encBlocks : List (Nat × Nat) → List Nat → List (List Nat × List Nat)
  | [], _ => []
  | s :: ss, l => (l.take s.1, parityOf s.2 (l.take s.1)) :: encBlocks ss (l.drop s.1)

/-- total data length of a size list -/
def dataSum (ss : List (Nat × Nat)) : Nat := (ss.map (·.1)).sum

@[simp] theorem dataSum_nil : dataSum [] = 0 := rfl
@[simp] theorem dataSum_cons (s : Nat × Nat) (ss) : dataSum (s :: ss) = s.1 + dataSum ss := by
  simp [dataSum]
@[simp] theorem dataSum_append (s1 s2 : List (Nat × Nat)) :
    dataSum (s1 ++ s2) = dataSum s1 + dataSum s2 := by
  simp [dataSum]
theorem dataSum_replicate (n : Nat) (s : Nat × Nat) : dataSum (List.replicate n s) = n * s.1 := by
  simp [dataSum]

@[simp] theorem length_encBlocks (ss : List (Nat × Nat)) (l : List Nat) :
    (encBlocks ss l).length = ss.length := by
  induction ss generalizing l with
  | nil => rfl
  | cons s ss ih => simp [encBlocks, ih]

theorem encBlocks_append (s1 s2 : List (Nat × Nat)) (l : List Nat) :
    encBlocks (s1 ++ s2) l = encBlocks s1 l ++ encBlocks s2 (l.drop (dataSum s1)) := by
  induction s1 generalizing l with
  | nil => simp [encBlocks]
  | cons s ss ih =>
    simp only [List.cons_append, encBlocks, ih, dataSum_cons, List.drop_drop]

theorem encBlocks_concat (ss : List (Nat × Nat)) (s : Nat × Nat) (l : List Nat) :
    encBlocks (ss ++ [s]) l = encBlocks ss l ++
      [((l.drop (dataSum ss)).take s.1, parityOf s.2 ((l.drop (dataSum ss)).take s.1))] := by
  rw [encBlocks_append]; rfl

/-- the data parts concatenate to the data, when the sizes add up -/
theorem encBlocks_flatten (ss : List (Nat × Nat)) (l : List Nat) (h : dataSum ss = l.length) :
    (encBlocks ss l).flatMap (·.1) = l := by
  induction ss generalizing l with
  | nil =>
    simp at h
    simp [encBlocks, List.eq_nil_of_length_eq_zero h.symm]
  | cons s ss ih =>
    simp only [encBlocks, List.flatMap_cons]
    rw [ih _ (by simp at h ⊢; omega), List.take_append_drop]

/-- block k of `encBlocks`: data part has the table's length, all bytes, and the second component
is its parity -/
theorem encBlocks_getElem (ss : List (Nat × Nat)) (l : List Nat) (h : dataSum ss ≤ l.length)
    (k : Nat) (hk : k < (encBlocks ss l).length) :
    ((encBlocks ss l)[k]).1.length = (ss[k]'(by simpa using hk)).1 ∧
    ((encBlocks ss l)[k]).2 = parityOf (ss[k]'(by simpa using hk)).2 ((encBlocks ss l)[k]).1 ∧
    (∀ b ∈ ((encBlocks ss l)[k]).1, b ∈ l) := by
  induction ss generalizing l k with
  | nil => simp [encBlocks] at hk
  | cons s ss ih =>
    cases k with
    | zero =>
      simp only [encBlocks, List.getElem_cons_zero, List.length_take]
      simp at h
      exact ⟨by omega, by trivial, fun b hb => List.mem_of_mem_take hb⟩
    | succ k =>
      simp only [encBlocks, List.getElem_cons_succ]
      simp at h
      obtain ⟨h1, h2, h3⟩ := ih (l.drop s.1) (by simp; omega) k (by simpa [encBlocks] using hk)
      exact ⟨h1, h2, fun b hb => List.mem_of_mem_drop (h3 b hb)⟩

/-! ### the model loop -/

/-- body of the inner loop of `splitBlocks` -/
def splitBody (bc : Gen.GBlock) (s : Array (List Nat × List Nat) × List Nat) :
    Out (ForInStep (Array (List Nat × List Nat) × List Nat)) := do
  let out := s.1
  let rest := s.2
  let n : Int := (bc.total : Int) - (bc.data : Int)
  let (t, c) ← RS.new n
  if rest.length < bc.data then
    Out.panic (α := Unit) "slice bounds out of range"
  let d := rest.take bc.data
  let corr := RS.sum t (RS.write t c d) []
  pure (ForInStep.yield (out.push (d, corr), rest.drop bc.data))

theorem splitBlocks_eq (blocks : List Gen.GBlock) (data : List Nat) :
    splitBlocks blocks data = (do
      let s ← forIn blocks ((#[] : Array (List Nat × List Nat)), data) fun bc s => do
        let s' ← forIn [:bc.num] s fun _ s => splitBody bc s
        pure (ForInStep.yield s')
      pure s.1.toList) := rfl

theorem splitBody_ok (bc : Gen.GBlock) (hg : groupOK bc = true) (out) (rest : List Nat)
    (hr : bc.data ≤ rest.length) :
    splitBody bc (out, rest) = .ok (.yield
      (out.push (rest.take bc.data, parityOf (bc.total - bc.data) (rest.take bc.data)),
        rest.drop bc.data)) := by
  simp only [groupOK, Bool.and_eq_true, decide_eq_true_eq] at hg
  obtain ⟨⟨⟨_, h1⟩, h2⟩, h3⟩ := hg
  unfold splitBody
  have e : (bc.total : Int) - (bc.data : Int) = ((bc.total - bc.data : Nat) : Int) := by omega
  simp only [e, (Props.C13.new_state _ h2 h3).1, Out.bind_ok, if_neg (Nat.not_lt.mpr hr)]
  rfl

theorem splitInner_ok (bc : Gen.GBlock) (hg : groupOK bc = true) (out) (rest : List Nat)
    (hr : bc.num * bc.data ≤ rest.length) :
    forIn [:bc.num] (out, rest) (fun _ s => splitBody bc s) = .ok
      (out ++ (encBlocks (List.replicate bc.num (bc.data, bc.total - bc.data)) rest).toArray,
        rest.drop (bc.num * bc.data)) := by
  rw [forIn_range_eq]
  obtain ⟨b, hb, hP⟩ := forIn_range'_iter (splitBody bc)
    (fun k s => s = (out ++ (encBlocks (List.replicate k (bc.data, bc.total - bc.data)) rest).toArray,
        rest.drop (k * bc.data))) bc.num 0 (out, rest) (by simp [encBlocks])
    (by
      rintro k _ hk rfl
      have hle : (k + 1) * bc.data ≤ bc.num * bc.data := Nat.mul_le_mul_right _ hk
      rw [Nat.succ_mul] at hle
      rw [splitBody_ok bc hg _ _ (by simp; omega)]
      refine ⟨_, rfl, ?_⟩
      rw [List.replicate_succ', encBlocks_concat, dataSum_replicate, List.drop_drop, Nat.succ_mul]
      congr 1; apply Array.ext'; simp)
  rw [hb, hP]

theorem groupOK_of_mem_sizes (blocks : List Gen.GBlock) (hg : ∀ bc ∈ blocks, groupOK bc = true)
    (s : Nat × Nat) (hs : s ∈ sizesOf blocks) : 2 ≤ s.2 ∧ s.2 ≤ 68 := by
  simp only [sizesOf, List.mem_flatMap, List.mem_replicate] at hs
  obtain ⟨bc, hbc, _, rfl⟩ := hs
  have := hg bc hbc
  simp only [groupOK, Bool.and_eq_true, decide_eq_true_eq] at this
  exact ⟨this.1.2, this.2⟩

theorem sizesOf_cons (bc : Gen.GBlock) (blocks : List Gen.GBlock) :
    sizesOf (bc :: blocks) = List.replicate bc.num (bc.data, bc.total - bc.data) ++ sizesOf blocks := by
  simp [sizesOf]

theorem splitOuter_ok (blocks : List Gen.GBlock) (hg : ∀ bc ∈ blocks, groupOK bc = true) :
    ∀ (out : Array (List Nat × List Nat)) (rest : List Nat), dataSum (sizesOf blocks) ≤ rest.length →
    (forIn blocks (out, rest) fun (bc : Gen.GBlock) s => do
        let s' ← forIn [:bc.num] s fun _ s => splitBody bc s
        pure (ForInStep.yield s')) = .ok
      (out ++ (encBlocks (sizesOf blocks) rest).toArray, rest.drop (dataSum (sizesOf blocks))) := by
  induction blocks with
  | nil => intro out rest _; simp [sizesOf, encBlocks]; rfl
  | cons bc blocks ih =>
    intro out rest hr
    rw [sizesOf_cons, dataSum_append, dataSum_replicate] at hr
    simp only at hr
    rw [List.forIn_cons, splitInner_ok bc (hg bc (by simp)) out rest (by omega)]
    simp only [Out.bind_ok, pure_bind_out]
    rw [ih (fun b hb => hg b (by simp [hb])) _ _ (by simp; omega)]
    rw [sizesOf_cons, encBlocks_append, dataSum_append, dataSum_replicate, List.drop_drop]
    simp [Array.append_assoc]

/-- `splitBlocks` succeeds and computes the consecutive chunks with their parities -/
theorem splitBlocks_enc (blocks : List Gen.GBlock) (hg : ∀ bc ∈ blocks, groupOK bc = true)
    (data : List Nat) (hlen : dataSum (sizesOf blocks) ≤ data.length) :
    splitBlocks blocks data = .ok (encBlocks (sizesOf blocks) data) := by
  rw [splitBlocks_eq, splitOuter_ok blocks hg _ _ hlen]
  simp [pure_eq_ok]

end QRV.Lemmas.RT
