import QRV.Lemmas.MicroRTDefs
import QRV.Lemmas.RTImage
import QRV.Lemmas.RTTables
/-
Kernel-evaluated facts about the regenerated Micro QR tables needed by the round trip, per
(version, level) pair (capacity row, symbol number, the slot list of the walk: fuel suffices, as
many slots as codeword bits, every module at most once, inside the symbol and not a function
module, skipped bits only between `dataBits` and the codeword boundary), per version (geometry of
the base / used bitmaps, the format information modules are function modules) and per mask canvas.
-/
namespace QRV.Lemmas.MRT
open QRV QRV.Model QRV.Model.Bitmap QRV.Model.Sym QRV.Props QRV.Props.C18 QRV.Lemmas
open QRV.Lemmas.RT (fnOf rowBit ofGen_regular ofGen_px imgAt_ofGenList)

set_option maxRecDepth 1000000

/-! ### checks on slot lists -/

/-- a natural-number key of a module (distinct modules of a symbol have distinct keys) -/
def keyOf (c : Int × Int) : Nat := c.1.toNat * 32 + c.2.toNat

/-- no module is visited twice: one pass with the set of visited keys as a bit mask -/
def nodupSlots : List (Option (Int × Int)) → Nat → Bool
  | [], _ => true
  | none :: t, m => nodupSlots t m
  | some c :: t, m =>
    Spec.Patterns.strict (keyOf c) fun k =>
      !m.testBit k && Spec.Patterns.strict (m ||| (1 <<< k)) fun m' => nodupSlots t m'

/-- from stream position `i` on: a module slot is inside the symbol and not a function module; a
skipped bit lies in `[lo, hi)` -/
def slotRange (w : Int) (f : Int → Int → Bool) (lo hi : Nat) : Nat → List (Option (Int × Int)) → Bool
  | _, [] => true
  | i, none :: t => decide (lo ≤ i ∧ i < hi) && Spec.Patterns.strict (i + 1) fun i' => slotRange w f lo hi i' t
  | i, some c :: t =>
    decide (0 ≤ c.1 ∧ c.1 ≤ w ∧ 0 ≤ c.2 ∧ c.2 ≤ w) && !f c.1 c.2 &&
      Spec.Patterns.strict (i + 1) fun i' => slotRange w f lo hi i' t

theorem nodupSlots_spec : ∀ (sl : List (Option (Int × Int))) (m : Nat), nodupSlots sl m = true →
    (∀ (i : Nat) (c : Int × Int), sl[i]? = some (some c) → m.testBit (keyOf c) = false) ∧
    ∀ (i j : Nat) (c : Int × Int), sl[i]? = some (some c) → sl[j]? = some (some c) → i = j := by
  intro sl
  induction sl with
  | nil => intro m _; exact ⟨fun i c hi => by simp at hi, fun i j c hi => by simp at hi⟩
  | cons a t ih =>
    intro m h
    cases a with
    | none =>
      unfold nodupSlots at h
      obtain ⟨h1, h2⟩ := ih m h
      refine ⟨fun i c hi => ?_, fun i j c hi hj => ?_⟩
      · cases i with
        | zero => simp at hi
        | succ i => exact h1 i c (by simpa using hi)
      · cases i with
        | zero => simp at hi
        | succ i =>
          cases j with
          | zero => simp at hj
          | succ j => rw [h2 i j c (by simpa using hi) (by simpa using hj)]
    | some c0 =>
      unfold nodupSlots at h
      simp only [strict_eq, Bool.and_eq_true, Bool.not_eq_true'] at h
      obtain ⟨h1, h2⟩ := ih _ h.2
      have hlater : ∀ (i : Nat) (c : Int × Int), t[i]? = some (some c) →
          m.testBit (keyOf c) = false ∧ keyOf c ≠ keyOf c0 := by
        intro i c hi
        have := h1 i c hi
        rw [Nat.testBit_or, Bool.or_eq_false_iff, Nat.one_shiftLeft, Nat.testBit_two_pow,
          decide_eq_false_iff_not] at this
        exact ⟨this.1, fun e => this.2 e.symm⟩
      refine ⟨fun i c hi => ?_, fun i j c hi hj => ?_⟩
      · cases i with
        | zero =>
          rw [List.getElem?_cons_zero] at hi
          have : c0 = c := Option.some.inj (Option.some.inj hi)
          subst this; exact h.1
        | succ i => exact (hlater i c (by simpa using hi)).1
      · cases i with
        | zero =>
          rw [List.getElem?_cons_zero] at hi
          have hc : c0 = c := Option.some.inj (Option.some.inj hi)
          cases j with
          | zero => rfl
          | succ j =>
            have := (hlater j c (by simpa using hj)).2
            rw [hc] at this
            exact absurd rfl this
        | succ i =>
          cases j with
          | zero =>
            rw [List.getElem?_cons_zero] at hj
            have hc : c0 = c := Option.some.inj (Option.some.inj hj)
            have := (hlater i c (by simpa using hi)).2
            rw [hc] at this
            exact absurd rfl this
          | succ j => rw [h2 i j c (by simpa using hi) (by simpa using hj)]

theorem slotRange_spec (w : Int) (f : Int → Int → Bool) (lo hi : Nat) :
    ∀ (sl : List (Option (Int × Int))) (i : Nat), slotRange w f lo hi i sl = true →
      ∀ k, (sl[k]? = some none → lo ≤ i + k ∧ i + k < hi) ∧
        (∀ c, sl[k]? = some (some c) → 0 ≤ c.1 ∧ c.1 ≤ w ∧ 0 ≤ c.2 ∧ c.2 ≤ w ∧ f c.1 c.2 = false) := by
  intro sl
  induction sl with
  | nil => intro i _ k; simp
  | cons a t ih =>
    intro i h k
    cases a with
    | none =>
      unfold slotRange at h
      rw [strict_eq, Bool.and_eq_true, decide_eq_true_eq] at h
      cases k with
      | zero => exact ⟨fun _ => by omega, fun c hc => by simp at hc⟩
      | succ k =>
        have := ih (i + 1) h.2 k
        simp only [List.getElem?_cons_succ]
        exact ⟨fun hk => by have := this.1 hk; omega, this.2⟩
    | some c' =>
      unfold slotRange at h
      rw [strict_eq, Bool.and_eq_true, Bool.and_eq_true, decide_eq_true_eq, Bool.not_eq_true'] at h
      cases k with
      | zero =>
        refine ⟨fun hk => by simp at hk, fun c hc => ?_⟩
        rw [List.getElem?_cons_zero] at hc
        have : c' = c := Option.some.inj (Option.some.inj hc)
        subst this
        exact ⟨h.1.1.1, h.1.1.2.1, h.1.1.2.2.1, h.1.1.2.2.2, h.1.2⟩
      | succ k =>
        have := ih (i + 1) h.2 k
        simp only [List.getElem?_cons_succ]
        exact ⟨fun hk => by have := this.1 hk; omega, this.2⟩

/-! ### the eight pairs -/

def pairCheck (v l : Nat) : Bool :=
  let cap := capOf v l
  decide (1 ≤ v ∧ v ≤ 4 ∧ l < 4) &&
  (capAt Gen.Micro.capacityTable (v : Int) (l : Int) == .ok cap) &&
  (match Model.Micro.formatAt (v : Int) (l : Int) with
    | .ok f => decide (0 ≤ f ∧ f < 8) && (Gen.Micro.rawFormatTable[f.toNat]? == some ((v : Int), (l : Int)))
    | _ => false) &&
  decide (cap.dataBits % 4 = 0 ∧ cap.dataBits ≤ cap.data * 8 ∧ cap.data * 8 < cap.dataBits + 8 ∧
    2 ≤ cap.correction ∧ cap.correction ≤ 68) &&
  (Spec.Valid.Micro.dataBits v l == some cap.dataBits) &&
  match slotsOf v l with
  | none => false
  | some sl =>
    sl.length == 8 * (cap.data + cap.correction) && nodupSlots sl 0 &&
      slotRange (8 + 2 * (v : Int)) (usedFn v) cap.dataBits (8 * cap.data) 0 sl

theorem pair_check_all : pairs.all (fun p => pairCheck p.1 p.2) = true := by decide +kernel

/-- what the check says about a pair -/
theorem pair_facts (v l : Nat) (hm : (v, l) ∈ pairs) :
    1 ≤ v ∧ v ≤ 4 ∧ l < 4 ∧
    capAt Gen.Micro.capacityTable (v : Int) (l : Int) = .ok (capOf v l) ∧
    (∃ f : Nat, Model.Micro.formatAt (v : Int) (l : Int) = .ok (f : Int) ∧ f < 8 ∧
      Gen.Micro.rawFormatTable[f]? = some ((v : Int), (l : Int))) ∧
    ((capOf v l).dataBits % 4 = 0 ∧ (capOf v l).dataBits ≤ (capOf v l).data * 8 ∧
      (capOf v l).data * 8 < (capOf v l).dataBits + 8 ∧ 2 ≤ (capOf v l).correction ∧ (capOf v l).correction ≤ 68) ∧
    Spec.Valid.Micro.dataBits v l = some (capOf v l).dataBits ∧
    ∃ sl, slotsOf v l = some sl ∧ sl.length = 8 * ((capOf v l).data + (capOf v l).correction) ∧
      (∀ (i j : Nat) (c : Int × Int), sl[i]? = some (some c) → sl[j]? = some (some c) → i = j) ∧
      ∀ k, (sl[k]? = some none → (capOf v l).dataBits ≤ k ∧ k < 8 * (capOf v l).data) ∧
        (∀ c, sl[k]? = some (some c) → 0 ≤ c.1 ∧ c.1 ≤ 8 + 2 * (v : Int) ∧ 0 ≤ c.2 ∧ c.2 ≤ 8 + 2 * (v : Int) ∧
          usedFn v c.1 c.2 = false) := by
  have h := of_pairs pair_check_all v l hm
  unfold pairCheck at h
  simp only [Bool.and_eq_true, decide_eq_true_eq, beq_iff_eq] at h
  obtain ⟨⟨⟨⟨⟨hvl, hcap⟩, hfmt⟩, hnum⟩, hdb⟩, hsl⟩ := h
  refine ⟨hvl.1, hvl.2.1, hvl.2.2, hcap, ?_, hnum, hdb, ?_⟩
  · split at hfmt
    · rename_i f hf
      rw [Bool.and_eq_true, decide_eq_true_eq, beq_iff_eq] at hfmt
      obtain ⟨n, rfl⟩ := Int.eq_ofNat_of_zero_le hfmt.1.1
      exact ⟨n, hf, by omega, by simpa using hfmt.2⟩
    · cases hfmt
  · split at hsl
    · cases hsl
    · rename_i sl hs
      simp only [Bool.and_eq_true, beq_iff_eq] at hsl
      refine ⟨sl, hs, hsl.1.1, (nodupSlots_spec sl 0 hsl.1.2).2, ?_⟩
      intro k
      have := slotRange_spec _ _ _ _ sl 0 hsl.2 k
      simpa using this

/-! ### the four versions and the four mask canvases -/

/-- the geometry of a generated bitmap -/
def geomOK (g : Gen.GBmp) (W H : Nat) : Bool :=
  g.minX == 0 && g.minY == 0 && g.maxX == (W : Int) && g.maxY == (H : Int) && g.stride == (W + 7) / 8 &&
    g.rows.length == H

/-- the modules that carry the format information -/
def fmtPos : List (Nat × Nat) := (List.range 8).flatMap fun i => [(8, i + 1), (i + 1, 8)]

def versionCheck (v : Nat) : Bool :=
  Gen.Micro.baseList[v]?.isSome && Gen.Micro.usedList[v]?.isSome &&
  geomOK (baseGen v) (9 + 2 * v) (9 + 2 * v) && geomOK (usedGen v) (9 + 2 * v) (9 + 2 * v) &&
  fmtPos.all (fun p => rowBit (usedGen v).rows (usedGen v).stride p.1 p.2)

theorem version_check_all : (List.range 5).all (fun v => v == 0 || versionCheck v) = true := by decide +kernel

def maskCheck (m : Nat) : Bool := Gen.Micro.maskList[m]?.isSome && geomOK (maskGen m) 24 17

theorem mask_check_all : (List.range 4).all maskCheck = true := by decide +kernel

theorem geomOK_regular (g : Gen.GBmp) (W H : Nat) (h : geomOK g W H = true) :
    Regular (Image.ofGen g) W H ∧ (0 < H → g.rows ≠ []) := by
  unfold geomOK at h
  simp only [Bool.and_eq_true, beq_iff_eq] at h
  obtain ⟨⟨⟨⟨⟨h0, h1⟩, h2⟩, h3⟩, h4⟩, h5⟩ := h
  refine ⟨ofGen_regular g W H h0 h1 h2 h3 h4 h5, ?_⟩
  intro hH hnil
  rw [hnil] at h5
  simp at h5
  omega

theorem getElem?_getD {α : Type} [Inhabited α] (l : List α) (i : Nat) (h : l[i]?.isSome = true) :
    l[i]? = some (l[i]?.getD default) := by
  cases e : l[i]? with
  | none => rw [e] at h; cases h
  | some a => rfl

/-- base and used images of a version -/
theorem version_images (v : Nat) (h1 : 1 ≤ v) (h4 : v ≤ 4) :
    imgAt Model.Micro.baseList (v : Int) = .ok (some (Image.ofGen (baseGen v))) ∧
    imgAt Model.Micro.usedList (v : Int) = .ok (some (Image.ofGen (usedGen v))) ∧
    Regular (Image.ofGen (baseGen v)) (9 + 2 * v) (9 + 2 * v) ∧
    Regular (Image.ofGen (usedGen v)) (9 + 2 * v) (9 + 2 * v) ∧
    (∀ x y, (Image.ofGen (usedGen v)).binaryAt x y = .ok (usedFn v x y)) ∧
    ∀ i, i < 8 → usedFn v ((8 : Nat) : Int) ((i + 1 : Nat) : Int) = true ∧
      usedFn v ((i + 1 : Nat) : Int) ((8 : Nat) : Int) = true := by
  have h := forall_lt_of_all version_check_all v (by omega)
  simp only [Bool.or_eq_true, beq_iff_eq] at h
  rcases h with h | h
  · omega
  unfold versionCheck at h
  simp only [Bool.and_eq_true] at h
  obtain ⟨⟨⟨⟨hb, hu⟩, hgb⟩, hgu⟩, hfp⟩ := h
  obtain ⟨hrb, hbne⟩ := geomOK_regular _ _ _ hgb
  obtain ⟨hru, hune⟩ := geomOK_regular _ _ _ hgu
  have hus : (usedGen v).stride = (9 + 2 * v + 7) / 8 := by
    unfold geomOK at hgu
    simp only [Bool.and_eq_true, beq_iff_eq] at hgu
    exact hgu.1.2
  have hnat : ∀ x y : Nat, x < 9 + 2 * v → y < 9 + 2 * v →
      usedFn v (x : Int) (y : Int) = rowBit (usedGen v).rows (usedGen v).stride x y := by
    intro x y hx hy
    unfold usedFn fnOf
    rw [decide_eq_true (by omega)]
    simp
  refine ⟨imgAt_ofGenList _ v _ (getElem?_getD _ _ hb) (hbne (by omega)),
    imgAt_ofGenList _ v _ (getElem?_getD _ _ hu) (hune (by omega)), hrb, hru, ?_, ?_⟩
  · intro x y
    rw [binaryAt_spec _ _ _ hru]
    congr 1
    unfold usedFn fnOf
    by_cases hc : 0 ≤ x ∧ x < ((9 + 2 * v : Nat) : Int) ∧ 0 ≤ y ∧ y < ((9 + 2 * v : Nat) : Int)
    · rw [if_pos hc, decide_eq_true hc, Bool.true_and, ofGen_px]
      rw [hus]; omega
    · rw [if_neg hc, decide_eq_false hc, Bool.false_and]
  · intro i hi
    have hmem : ∀ p, p ∈ fmtPos → rowBit (usedGen v).rows (usedGen v).stride p.1 p.2 = true :=
      fun p hp => List.all_eq_true.mp hfp p hp
    have m1 : (8, i + 1) ∈ fmtPos := by
      unfold fmtPos
      simp only [List.mem_flatMap, List.mem_range, List.mem_cons, List.not_mem_nil, or_false]
      exact ⟨i, hi, Or.inl rfl⟩
    have m2 : (i + 1, 8) ∈ fmtPos := by
      unfold fmtPos
      simp only [List.mem_flatMap, List.mem_range, List.mem_cons, List.not_mem_nil, or_false]
      exact ⟨i, hi, Or.inr rfl⟩
    rw [hnat 8 (i + 1) (by omega) (by omega), hnat (i + 1) 8 (by omega) (by omega)]
    exact ⟨hmem _ m1, hmem _ m2⟩

/-- mask canvases -/
theorem mask_image (m : Nat) (hm : m < 4) :
    ∃ pat, imgAt Model.Micro.maskList (m : Int) = .ok (some pat) ∧ Regular pat 24 17 := by
  have h := forall_lt_of_all mask_check_all m hm
  unfold maskCheck at h
  rw [Bool.and_eq_true] at h
  obtain ⟨hr, hne⟩ := geomOK_regular _ _ _ h.2
  exact ⟨_, imgAt_ofGenList _ m _ (getElem?_getD _ _ h.1) (hne (by omega)), hr⟩

end QRV.Lemmas.MRT
