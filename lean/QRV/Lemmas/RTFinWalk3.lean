import QRV.Lemmas.RTWalk
/-
Kernel evaluation of the module walk, versions 6, 14, 19, 27, 38: the model's fuel suffices and there is
room for all codewords (`checkV`, see `RTWalk`).
-/
namespace QRV.Lemmas.RT
set_option maxRecDepth 1000000

theorem walk_ok_6 : checkV 6 = true := by decide +kernel
theorem walk_ok_14 : checkV 14 = true := by decide +kernel
theorem walk_ok_19 : checkV 19 = true := by decide +kernel
theorem walk_ok_27 : checkV 27 = true := by decide +kernel
theorem walk_ok_38 : checkV 38 = true := by decide +kernel

end QRV.Lemmas.RT
