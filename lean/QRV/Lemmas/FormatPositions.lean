import QRV.Lemmas.RTFormat
import QRV.Lemmas.RRFormat
import QRV.Lemmas.MicroRTFormat
import QRV.Spec.Symbol
import QRV.Spec.SymbolMicro
import QRV.Spec.SymbolRMQR
/-
The reading loops of the three format decoders, evaluated on an arbitrary regular image: the raw
words are assembled bit by bit from the modules the declarative symbols assign to the format bits.
-/
namespace QRV.Lemmas.FmtPos
open QRV QRV.Model QRV.Model.Bitmap QRV.Props QRV.Props.C18 QRV.Lemmas.BCH

/-! ### the word with given bits -/

/-- the word whose bit i (i < n) is `f i` -/
def wordOf (f : Nat → Bool) (n : Nat) : Nat :=
  (List.range n).foldl (fun acc i => if f i then acc ||| (1 <<< i) else acc) 0

theorem wordOf_succ (f : Nat → Bool) (n : Nat) :
    wordOf f (n + 1) = if f n then wordOf f n ||| (1 <<< n) else wordOf f n := by
  simp only [wordOf, List.range_succ, List.foldl_append, List.foldl_cons, List.foldl_nil]

theorem testBit_wordOf (f : Nat → Bool) : ∀ n j, (wordOf f n).testBit j = (decide (j < n) && f j)
  | 0, j => by simp [wordOf]
  | n + 1, j => by
    rw [wordOf_succ]
    have ih := testBit_wordOf f n j
    by_cases hjn : j = n
    · subst hjn
      cases hf : f j
      · simp [ih, hf]
      · simp [Nat.testBit_or, Nat.one_shiftLeft]
    · have hne : n ≠ j := fun h => hjn h.symm
      have hd : decide (j < n + 1) = decide (j < n) := by
        rw [Bool.eq_iff_iff]; simp only [decide_eq_true_eq]; omega
      cases hf : f n
      · simp only [Bool.false_eq_true, if_false]; rw [ih, hd]
      · simp only [if_true, Nat.testBit_or, Nat.one_shiftLeft, Nat.testBit_two_pow, ih, hd, hne,
          decide_false, Bool.or_false]

theorem wordOf_lt (f : Nat → Bool) (n : Nat) : wordOf f n < 2 ^ n := by
  apply Nat.lt_pow_two_of_testBit
  intro i hi
  rw [testBit_wordOf]
  have : ¬ i < n := by omega
  simp [this]

/-! ### QR -/

/-- the colour of the module of bit i of the first / second copy -/
def qrBit1 (img : Image) (n i : Nat) : Bool :=
  px img (Spec.Symbol.QR.formatPos n i).1.1 (Spec.Symbol.QR.formatPos n i).1.2
def qrBit2 (img : Image) (n i : Nat) : Bool :=
  px img (Spec.Symbol.QR.formatPos n i).2.1 (Spec.Symbol.QR.formatPos n i).2.2

theorem skip_toNat (k : Nat) : (QR.skipTimingPattern (k : Int)).toNat = RT.sk k := by
  rw [RT.skip_eq]; simp

theorem qr_pos1_lo (n k : Nat) (hk : k < 8) : (Spec.Symbol.QR.formatPos n k).1 = (8, RT.sk k) := by
  unfold Spec.Symbol.QR.formatPos RT.sk
  have : k = 0 ∨ k = 1 ∨ k = 2 ∨ k = 3 ∨ k = 4 ∨ k = 5 ∨ k = 6 ∨ k = 7 := by omega
  rcases this with rfl | rfl | rfl | rfl | rfl | rfl | rfl | rfl <;> rfl

theorem qr_pos1_hi (n k : Nat) (hk : k < 8) : (Spec.Symbol.QR.formatPos n (14 - k)).1 = (RT.sk k, 8) := by
  unfold Spec.Symbol.QR.formatPos RT.sk
  have : k = 0 ∨ k = 1 ∨ k = 2 ∨ k = 3 ∨ k = 4 ∨ k = 5 ∨ k = 6 ∨ k = 7 := by omega
  rcases this with rfl | rfl | rfl | rfl | rfl | rfl | rfl | rfl <;> rfl

theorem qr_pos2_lo (n k : Nat) (hk : k < 8) : (Spec.Symbol.QR.formatPos n k).2 = (n - 1 - k, 8) := by
  unfold Spec.Symbol.QR.formatPos
  simp only
  rw [if_pos (by omega)]

theorem qr_pos2_hi (n k : Nat) (hn : 21 ≤ n) (hk : k < 7) :
    (Spec.Symbol.QR.formatPos n (14 - k)).2 = (8, n - 1 - k) := by
  unfold Spec.Symbol.QR.formatPos
  simp only
  rw [if_neg (by omega)]
  congr 1
  omega

theorem readRaws_loop2 (c1 c2 : Nat) (hl1 : c1 < 2 ^ 15) (hl2 : c2 < 2 ^ 15)
    (F : Nat → Nat × Nat → Out (ForInStep (Nat × Nat)))
    (hstep : ∀ k s, k < 8 → F k s = .ok (.yield
      (s.1 ||| (if c1.testBit k = true then 1 <<< k else 0) ||| (if c1.testBit (14 - k) = true then 1 <<< (14 - k) else 0),
       s.2 ||| (if c2.testBit k = true then 1 <<< k else 0) ||| (if c2.testBit (14 - k) = true then 1 <<< (14 - k) else 0)))) :
    (do let s ← forIn (List.range' 0 ((8 - 0 + 1 - 1) / 1)) ((0 : Nat), (0 : Nat)) F; pure (s.fst, s.snd)) = Out.ok (c1, c2) := by
  obtain ⟨s, hs, hP⟩ := Lemmas.Bitmap.forIn_range'_ok (β := Nat × Nat) F
    (fun k s => (∀ j, s.1.testBit j = (c1.testBit j && (decide (j < k) || decide (14 - k < j ∧ j ≤ 14)))) ∧
      (∀ j, s.2.testBit j = (c2.testBit j && (decide (j < k) || decide (14 - k < j ∧ j ≤ 14)))))
    8 0 (0, 0) (by constructor <;> intro j <;> simp) (by
      intro k s _ hk8 hPk
      have hk : k < 8 := by omega
      exact ⟨_, hstep k s hk, fun j => RT.raw_step c1 s.1 k j hk (hPk.1 j), fun j => RT.raw_step c2 s.2 k j hk (hPk.2 j)⟩)
  have full : ∀ c : Nat, c < 2 ^ 15 → ∀ r : Nat,
      (∀ j, r.testBit j = (c.testBit j && (decide (j < 0 + 8) || decide (14 - (0 + 8) < j ∧ j ≤ 14)))) → r = c := by
    intro c hc r hr'
    apply Nat.eq_of_testBit_eq
    intro j
    rw [hr' j]
    by_cases hj : j < 15
    · have : (decide (j < 0 + 8) || decide (14 - (0 + 8) < j ∧ j ≤ 14)) = true := by
        simp only [Bool.or_eq_true, decide_eq_true_eq]; omega
      rw [this, Bool.and_true]
    · have : c.testBit j = false :=
        Nat.testBit_lt_two_pow (Nat.lt_of_lt_of_le hc (Nat.pow_le_pow_right (by decide) (by omega)))
      rw [this, Bool.false_and]
  have h1 := full c1 hl1 s.1 hP.1
  have h2 := full c2 hl2 s.2 hP.2
  show (forIn (List.range' 0 8) ((0 : Nat), (0 : Nat)) F >>= fun s => pure (s.fst, s.snd)) = _
  rw [hs, Out.bind_ok, ← h1, ← h2]
  rfl

/-- both raw words of a regular image, bit by bit from the standard's positions -/
theorem qrReadRaws_words (img : Image) (n : Nat) (hr : Regular img n n) (hn : 21 ≤ n) :
    qrReadRaws img = .ok (wordOf (qrBit1 img n) 15, wordOf (qrBit2 img n) 15) := by
  have hdx : img.dx = (n : Int) := by unfold Image.dx; rw [hr.maxX, hr.minX]; omega
  generalize hc1 : wordOf (qrBit1 img n) 15 = c1
  generalize hc2 : wordOf (qrBit2 img n) 15 = c2
  have hb1 : ∀ j, j < 15 → c1.testBit j = qrBit1 img n j := by
    intro j hj; rw [← hc1, testBit_wordOf]; simp [hj]
  have hb2 : ∀ j, j < 15 → c2.testBit j = qrBit2 img n j := by
    intro j hj; rw [← hc2, testBit_wordOf]; simp [hj]
  have hl1 : c1 < 2 ^ 15 := by rw [← hc1]; exact wordOf_lt _ _
  have hl2 : c2 < 2 ^ 15 := by rw [← hc2]; exact wordOf_lt _ _
  unfold qrReadRaws
  simp only [Std.Legacy.Range.forIn_eq_forIn_range', Std.Legacy.Range.size, hdx]
  apply readRaws_loop2 c1 c2 hl1 hl2
  intro k s hk
  have hsk8 := RT.sk_le k hk
  have hsk : 0 ≤ QR.skipTimingPattern (k : Int) ∧ QR.skipTimingPattern (k : Int) < n := by
    rw [RT.skip_eq]; omega
  simp only [binaryAt_spec img n n hr, Out.bind_ok]
  have e1 : (if 0 ≤ (8 : Int) ∧ (8 : Int) < ↑n ∧ 0 ≤ QR.skipTimingPattern ↑k ∧ QR.skipTimingPattern ↑k < ↑n then
      px img (Int.toNat 8) (QR.skipTimingPattern ↑k).toNat else false) = c1.testBit k := by
    rw [if_pos ⟨by omega, by omega, hsk.1, hsk.2⟩, skip_toNat, hb1 k (by omega), qrBit1, qr_pos1_lo n k hk]
    rfl
  have e2 : (if 0 ≤ QR.skipTimingPattern ↑k ∧ QR.skipTimingPattern ↑k < ↑n ∧ 0 ≤ (8 : Int) ∧ (8 : Int) < ↑n then
      px img (QR.skipTimingPattern ↑k).toNat (Int.toNat 8) else false) = c1.testBit (14 - k) := by
    rw [if_pos ⟨hsk.1, hsk.2, by omega, by omega⟩, skip_toNat, hb1 (14 - k) (by omega), qrBit1, qr_pos1_hi n k hk]
    rfl
  have e3 : (if 0 ≤ (n : Int) - 1 - ↑k ∧ (n : Int) - 1 - ↑k < ↑n ∧ 0 ≤ (8 : Int) ∧ (8 : Int) < ↑n then
      px img ((n : Int) - 1 - ↑k).toNat (Int.toNat 8) else false) = c2.testBit k := by
    rw [if_pos (by omega), hb2 k (by omega), qrBit2, qr_pos2_lo n k hk]
    have : ((n : Int) - 1 - ↑k).toNat = n - 1 - k := by omega
    rw [this]; rfl
  simp only [e1, e2, e3]
  by_cases hk7 : k < 7
  · have e4 : (if 0 ≤ (8 : Int) ∧ (8 : Int) < ↑n ∧ 0 ≤ (n : Int) - 1 - ↑k ∧ (n : Int) - 1 - ↑k < ↑n then
        px img (Int.toNat 8) ((n : Int) - 1 - ↑k).toNat else false) = c2.testBit (14 - k) := by
      rw [if_pos (by omega), hb2 (14 - k) (by omega), qrBit2, qr_pos2_hi n k hn hk7]
      have : ((n : Int) - 1 - ↑k).toNat = n - 1 - k := by omega
      rw [this]; rfl
    have e5 : (QR.FORMAT2_READS_DARK_MODULE || decide (k < 7)) = true := by
      rw [decide_eq_true hk7, Bool.or_true]
    simp only [e4, e5]
    cases c1.testBit k <;> cases c1.testBit (14 - k) <;> cases c2.testBit k <;> cases c2.testBit (14 - k) <;>
      simp only [Bool.false_eq_true, ↓reduceIte, Nat.or_zero] <;> rfl
  · have hk7' : k = 7 := by omega
    subst hk7'
    have e5 : (QR.FORMAT2_READS_DARK_MODULE || decide (7 < 7)) = false := rfl
    simp only [e5]
    have e6 : ∀ a : Nat, s.2 ||| a ||| a = s.2 ||| a := by
      intro a; rw [Nat.or_assoc, Nat.or_self]
    rw [show 14 - 7 = 7 from rfl]
    cases c1.testBit 7 <;> cases c2.testBit 7 <;>
      simp only [Bool.false_eq_true, ↓reduceIte, Nat.or_zero, e6] <;> rfl

/-! ### Micro QR -/

/-- the colour of the module of bit i -/
def microBit (img : Image) (i : Nat) : Bool := if i < 8 then px img 8 (i + 1) else px img (15 - i) 8

theorem readRawM_word (img : Image) (n : Nat) (hr : Regular img n n) (hn : 11 ≤ n) :
    Lemmas.MRT.readRawM img = .ok (wordOf (microBit img) 15) := by
  apply Lemmas.MRT.readRawM_spec img n hr (by omega) _ (wordOf_lt _ _)
  · intro i hi
    rw [testBit_wordOf, decide_eq_true (by omega), Bool.true_and, microBit, if_pos hi]
  · intro i hi
    rw [testBit_wordOf, decide_eq_true (by omega), Bool.true_and, microBit]
    by_cases h7 : i = 7
    · subst h7; rfl
    · rw [if_neg (by omega)]
      have : 15 - (14 - i) = i + 1 := by omega
      rw [this]

theorem micro_positions (img : Image) (i x y : Nat) (hi : i < 15)
    (h : Spec.Symbol.Micro.formatBitAt x y = some i) :
    (wordOf (microBit img) 15).testBit i = px img x y := by
  rw [testBit_wordOf, decide_eq_true hi, Bool.true_and]
  unfold Spec.Symbol.Micro.formatBitAt at h
  split at h
  · rename_i hc
    obtain ⟨rfl, h1, h8⟩ := hc
    cases h
    rw [microBit, if_pos (by omega)]
    have : y - 1 + 1 = y := by omega
    rw [this]
  · split at h
    · rename_i hc
      obtain ⟨rfl, h1, h7⟩ := hc
      cases h
      rw [microBit, if_neg (by omega)]
      have : 15 - (15 - x) = x := by omega
      rw [this]
    · cases h

/-! ### rMQR -/

def rmqrBit1 (img : Image) (i : Nat) : Bool := px img (8 + i / 5) (1 + i % 5)

def rmqrBit2 (img : Image) (w h i : Nat) : Bool :=
  if i < 15 then px img (w - 8 + i / 5) (h - 6 + i % 5) else px img (w - 5 + (i - 15)) (h - 6)

theorem rmqrRead1_word (img : Image) (w h : Nat) (hr : Regular img w h) (hw : 27 ≤ w) (hh : 7 ≤ h) :
    rmqrRead1 img = .ok (wordOf (rmqrBit1 img) 18) := by
  apply Lemmas.RR.rmqrRead1_first img w h hr (by omega) (by omega) _ (wordOf_lt _ _)
  intro i hi
  rw [testBit_wordOf, decide_eq_true hi, Bool.true_and, rmqrBit1]

theorem rmqr_positions1 (img : Image) (i x y : Nat) (h : Spec.Symbol.RMQR.formatBit1 x y = some i) :
    (wordOf (rmqrBit1 img) 18).testBit i = px img x y := by
  unfold Spec.Symbol.RMQR.formatBit1 at h
  split at h
  · rename_i hc
    cases h
    rw [testBit_wordOf, decide_eq_true hc.2.2.2.2, Bool.true_and, rmqrBit1]
    have e1 : 8 + ((x - 8) * 5 + (y - 1)) / 5 = x := by omega
    have e2 : 1 + ((x - 8) * 5 + (y - 1)) % 5 = y := by omega
    rw [e1, e2]
  · cases h

/-- reading the second raw word of a regular image whose second copy holds the 18-bit word c -/
theorem rmqrRead2_second (img : Image) (w h : Nat) (hr : Regular img w h) (hw : 9 ≤ w) (hh : 7 ≤ h)
    (c : Nat) (hc : c < 2 ^ 18)
    (h1 : ∀ i : Nat, i < 15 → px img (w - 8 + i / 5) (h - 6 + i % 5) = c.testBit i)
    (h15 : px img (w - 5) (h - 6) = c.testBit 15)
    (h16 : px img (w - 4) (h - 6) = c.testBit 16)
    (h17 : px img (w - 3) (h - 6) = c.testBit 17) :
    rmqrRead2 img = .ok c := by
  have hdx : img.dx = (w : Int) := by unfold Image.dx; rw [hr.maxX, hr.minX]; omega
  have hdy : img.dy = (h : Int) := by unfold Image.dy; rw [hr.maxY, hr.minY]; omega
  unfold rmqrRead2
  simp only [Std.Legacy.Range.forIn_eq_forIn_range', Std.Legacy.Range.size, hdx, hdy]
  obtain ⟨s, hs, hP⟩ := Lemmas.Bitmap.forIn_range'_ok (β := Nat)
    (fun i r => do
      let __do_lift ← img.binaryAt ((w : Int) - 1 - 7 + ((i / 5 : Nat) : Int)) ((h : Int) - 1 - 5 + ((i % 5 : Nat) : Int))
      if __do_lift = true then
        let raw2 := r ||| 1 <<< i
        pure (ForInStep.yield raw2)
      else pure (ForInStep.yield r))
    (fun k s => ∀ j, s.testBit j = (c.testBit j && decide (j < k)))
    15 0 0 (by intro j; simp) (by
      intro k s _ hk hPk
      have hk15 : k < 15 := by omega
      rw [binaryAt_spec img w h hr, if_pos (by omega)]
      have e1 : ((w : Int) - 1 - 7 + ((k / 5 : Nat) : Int)).toNat = w - 8 + k / 5 := by omega
      have e2 : ((h : Int) - 1 - 5 + ((k % 5 : Nat) : Int)).toNat = h - 6 + k % 5 := by omega
      rw [e1, e2, h1 k hk15]
      refine ⟨s ||| (if c.testBit k = true then 1 <<< k else 0), ?_, fun j => Lemmas.RR.raw_step c s k j (hPk j)⟩
      cases c.testBit k <;> simp <;> rfl)
  have hfin : (s ||| (if c.testBit 15 = true then 1 <<< 15 else 0) ||| (if c.testBit 16 = true then 1 <<< 16 else 0)
      ||| (if c.testBit 17 = true then 1 <<< 17 else 0)) = c := by
    apply Nat.eq_of_testBit_eq
    intro j
    have s15 := fun j => Lemmas.RR.raw_step c s 15 j (hP j)
    have s16 := fun j => Lemmas.RR.raw_step c _ 16 j (s15 j)
    have s17 := Lemmas.RR.raw_step c _ 17 j (s16 j)
    rw [s17]
    by_cases hj : j < 18
    · simp [hj]
    · have : c.testBit j = false :=
        Nat.testBit_lt_two_pow (Nat.lt_of_lt_of_le hc (Nat.pow_le_pow_right (by decide) (by omega)))
      simp [this]
  show (forIn (List.range' 0 15) (0 : Nat) _ >>= fun r => _) = _
  rw [hs, Out.bind_ok]
  simp only [binaryAt_spec img w h hr, Out.bind_ok]
  have e15 : (if 0 ≤ (w : Int) - 1 - 4 ∧ (w : Int) - 1 - 4 < ↑w ∧ 0 ≤ (h : Int) - 1 - 5 ∧ (h : Int) - 1 - 5 < ↑h then
      px img ((w : Int) - 1 - 4).toNat ((h : Int) - 1 - 5).toNat else false) = c.testBit 15 := by
    rw [if_pos (by omega), ← h15]
    have a : ((w : Int) - 1 - 4).toNat = w - 5 := by omega
    have b : ((h : Int) - 1 - 5).toNat = h - 6 := by omega
    rw [a, b]
  have e16 : (if 0 ≤ (w : Int) - 1 - 3 ∧ (w : Int) - 1 - 3 < ↑w ∧ 0 ≤ (h : Int) - 1 - 5 ∧ (h : Int) - 1 - 5 < ↑h then
      px img ((w : Int) - 1 - 3).toNat ((h : Int) - 1 - 5).toNat else false) = c.testBit 16 := by
    rw [if_pos (by omega), ← h16]
    have a : ((w : Int) - 1 - 3).toNat = w - 4 := by omega
    have b : ((h : Int) - 1 - 5).toNat = h - 6 := by omega
    rw [a, b]
  have e17 : (if 0 ≤ (w : Int) - 1 - 2 ∧ (w : Int) - 1 - 2 < ↑w ∧ 0 ≤ (h : Int) - 1 - 5 ∧ (h : Int) - 1 - 5 < ↑h then
      px img ((w : Int) - 1 - 2).toNat ((h : Int) - 1 - 5).toNat else false) = c.testBit 17 := by
    rw [if_pos (by omega), ← h17]
    have a : ((w : Int) - 1 - 2).toNat = w - 3 := by omega
    have b : ((h : Int) - 1 - 5).toNat = h - 6 := by omega
    rw [a, b]
  simp only [e15, e16, e17]
  refine Eq.trans ?_ (congrArg Out.ok hfin)
  cases c.testBit 15 <;> cases c.testBit 16 <;> cases c.testBit 17 <;>
    simp only [Bool.false_eq_true, ↓reduceIte, Nat.or_zero] <;> rfl

theorem rmqrRead2_word (img : Image) (w h : Nat) (hr : Regular img w h) (hw : 27 ≤ w) (hh : 7 ≤ h) :
    rmqrRead2 img = .ok (wordOf (rmqrBit2 img w h) 18) := by
  apply rmqrRead2_second img w h hr (by omega) hh _ (wordOf_lt _ _)
  · intro i hi
    rw [testBit_wordOf, decide_eq_true (by omega), Bool.true_and, rmqrBit2, if_pos hi]
  · rw [testBit_wordOf]; rfl
  · rw [testBit_wordOf]; simp only [rmqrBit2]
    have : w - 5 + (16 - 15) = w - 4 := by omega
    rw [this]; rfl
  · rw [testBit_wordOf]; simp only [rmqrBit2]
    have : w - 5 + (17 - 15) = w - 3 := by omega
    rw [this]; rfl

theorem rmqr_positions2 (img : Image) (w h i x y : Nat) (hw : 27 ≤ w) (hh : 7 ≤ h)
    (hb : Spec.Symbol.RMQR.formatBit2 w h x y = some i) :
    (wordOf (rmqrBit2 img w h) 18).testBit i = px img x y := by
  unfold Spec.Symbol.RMQR.formatBit2 at hb
  split at hb
  · rename_i hc
    cases hb
    rw [testBit_wordOf, decide_eq_true (by omega), Bool.true_and, rmqrBit2, if_pos (by omega)]
    have e1 : w - 8 + ((x - (w - 8)) * 5 + (y - (h - 6))) / 5 = x := by omega
    have e2 : h - 6 + ((x - (w - 8)) * 5 + (y - (h - 6))) % 5 = y := by omega
    rw [e1, e2]
  · split at hb
    · rename_i hc
      obtain ⟨rfl, hx1, hx2⟩ := hc
      cases hb
      rw [testBit_wordOf, decide_eq_true (by omega), Bool.true_and, rmqrBit2, if_neg (by omega)]
      have e1 : w - 5 + (15 + (x - (w - 5)) - 15) = x := by omega
      rw [e1]
    · cases hb

end QRV.Lemmas.FmtPos
