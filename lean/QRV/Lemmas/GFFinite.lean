import QRV.Model.GF
import QRV.Spec.GF
import QRV.Lemmas.Finite
/-
Finite facts about the regenerated tables, each established by evaluating the WHOLE table inside
the kernel (`decide +kernel`): these are proofs over a finite quantifier, not samples.
-/
namespace QRV.Lemmas.GF
open QRV.Model.GF QRV.Spec.GF QRV.Lemmas

/-- the tables have exactly 256 entries (Go: `[256]Element`, `[256]int`) -/
theorem table_lengths : Gen.GF.expLen = 256 ∧ Gen.GF.logLen = 256 := by decide

theorem exp_zero : expT 0 = 1 := by decide +kernel

theorem exp_succ : ∀ k < 255, expT (k + 1) = xtime (expT k) := by
  have h : (List.range 255).all (fun k => expT (k + 1) == xtime (expT k)) = true := by decide +kernel
  intro k hk; exact eq_of_beq (forall_lt_of_all h k hk)

theorem exp_lt : ∀ k < 256, expT k < 256 := by
  have h : (List.range 256).all (fun k => decide (expT k < 256)) = true := by decide +kernel
  intro k hk; exact of_decide_eq_true (forall_lt_of_all h k hk)

theorem exp_ne_zero : ∀ k < 256, expT k ≠ 0 := by
  have h : (List.range 256).all (fun k => expT k != 0) = true := by decide +kernel
  intro k hk; exact ne_of_beq_false (by simpa [bne] using forall_lt_of_all h k hk)

theorem exp_255 : expT 255 = 1 := by decide +kernel

theorem log_lt : ∀ a < 256, logT a < 255 := by
  have h : (List.range 256).all (fun a => decide (logT a < 255)) = true := by decide +kernel
  intro a ha; exact of_decide_eq_true (forall_lt_of_all h a ha)

theorem log_exp : ∀ k < 255, logT (expT k) = k := by
  have h : (List.range 255).all (fun k => logT (expT k) == k) = true := by decide +kernel
  intro k hk; exact eq_of_beq (forall_lt_of_all h k hk)

theorem exp_log : ∀ a < 256, a ≠ 0 → expT (logT a) = a := by
  have h : (List.range 256).all (fun a => a == 0 || expT (logT a) == a) = true := by decide +kernel
  intro a ha h0
  have := forall_lt_of_all h a ha
  simp only [Bool.or_eq_true, beq_iff_eq] at this
  rcases this with h1 | h1
  · exact absurd h1 h0
  · exact h1

theorem mul_eq_smul : ∀ a < 256, ∀ b < 256, mul a b = smul a b := by
  have h : (List.range 256).all (fun a => (List.range 256).all (fun b => mul a b == smul a b)) = true := by
    decide +kernel
  intro a ha b hb
  exact eq_of_beq (forall_lt_of_all₂ h a ha b hb)

theorem inv_mul : ∀ a < 256, a ≠ 0 → mul (inv' a) a = 1 := by
  have h : (List.range 256).all (fun a => a == 0 || mul (inv' a) a == 1) = true := by decide +kernel
  intro a ha h0
  have := forall_lt_of_all h a ha
  simp only [Bool.or_eq_true, beq_iff_eq] at this
  rcases this with h1 | h1
  · exact absurd h1 h0
  · exact h1

theorem inv_lt : ∀ a < 256, inv' a < 256 := by
  have h : (List.range 256).all (fun a => decide (inv' a < 256)) = true := by decide +kernel
  intro a ha; exact of_decide_eq_true (forall_lt_of_all h a ha)

theorem inv_ne_zero : ∀ a < 256, a ≠ 0 → inv' a ≠ 0 := by
  have h : (List.range 256).all (fun a => inv' a != 0) = true := by decide +kernel
  intro a ha _; exact ne_of_beq_false (by simpa [bne] using forall_lt_of_all h a ha)

theorem xtime_lt : ∀ a < 256, xtime a < 256 := by
  have h : (List.range 256).all (fun a => decide (xtime a < 256)) = true := by decide +kernel
  intro a ha; exact of_decide_eq_true (forall_lt_of_all h a ha)

end QRV.Lemmas.GF
