import QRV.Model.GF
import QRV.Spec.GF
/-
Finite facts about the regenerated tables, each established by evaluating the WHOLE table inside
the kernel (`decide +kernel`): these are proofs over a finite quantifier, not samples.
-/
namespace QRV.Lemmas.GF
open QRV.Model.GF QRV.Spec.GF

theorem exp_zero : expT 0 = 1 := by decide +kernel

theorem exp_succ : ∀ k < 255, expT (k + 1) = xtime (expT k) := by decide +kernel

theorem exp_lt : ∀ k < 256, expT k < 256 := by decide +kernel

theorem exp_ne_zero : ∀ k < 256, expT k ≠ 0 := by decide +kernel

theorem exp_255 : expT 255 = 1 := by decide +kernel

theorem log_lt : ∀ a < 256, logT a < 255 := by decide +kernel

theorem log_exp : ∀ k < 255, logT (expT k) = k := by decide +kernel

theorem exp_log : ∀ a < 256, a ≠ 0 → expT (logT a) = a := by decide +kernel

theorem mul_eq_smul : ∀ a < 256, ∀ b < 256, mul a b = smul a b := by decide +kernel

theorem inv_mul : ∀ a < 256, a ≠ 0 → mul (inv' a) a = 1 := by decide +kernel

theorem inv_lt : ∀ a < 256, inv' a < 256 := by decide +kernel

theorem inv_ne_zero : ∀ a < 256, a ≠ 0 → inv' a ≠ 0 := by decide +kernel

theorem xtime_lt : ∀ a < 256, xtime a < 256 := by decide +kernel

end QRV.Lemmas.GF
