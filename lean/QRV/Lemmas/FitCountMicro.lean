import QRV.Lemmas.FitCount
/-
C04Ext2 helper: a Micro QR segment whose standard bit length fits the data bits of a (version, level)
pair has a character count below the limit of its count indicator: a segment of `2 ^ cb` characters
exceeds the data bits of every pair (kernel evaluation, 5 x 4 x 4 over `Spec.Tables.micro`), and
`bodyBits` is monotone in the count.
-/
namespace QRV.Lemmas.FitCountMicro
open QRV QRV.Model.Sym QRV.Spec.Valid QRV.Lemmas.FitCount

/-- a segment of `2 ^ cb` characters does not fit (vacuous when the pair or the mode does not exist) -/
def overOK (v level k : Nat) : Bool :=
  match Micro.dataBits v level, Micro.countBits k v with
  | some cap, some cb => decide (cap < Micro.modeBits v + cb + bodyBits k (2 ^ cb))
  | _, _ => true

theorem over_all :
    (List.range 5).all (fun v => (List.range 4).all (fun level => (List.range 4).all (overOK v level))) = true := by
  decide +kernel

theorem countBits_some {k v cb : Nat} (h : Micro.countBits k v = some cb) : k < 4 ∧ v < 5 := by
  unfold Micro.countBits at h
  split at h <;> first | (constructor <;> omega) | cases h

theorem dataBits_some {v level cap : Nat} (h : Micro.dataBits v level = some cap) : level < 4 := by
  apply Classical.byContradiction
  intro hl
  have hall : Spec.Tables.micro.all (fun r => decide (r.1.2 < 4)) = true := by decide +kernel
  unfold Micro.dataBits at h
  cases hlk : Spec.Tables.micro.lookup (v, level) with
  | none => rw [hlk] at h; cases h
  | some r =>
    have hmem : ((v, level), r) ∈ Spec.Tables.micro := by
      clear h hall
      revert hlk
      generalize Spec.Tables.micro = t
      induction t with
      | nil => intro h; cases h
      | cons a t ih =>
        intro h
        obtain ⟨a1, a2⟩ := a
        rw [List.lookup_cons] at h
        split at h
        · rename_i heq
          cases h
          have : (v, level) = a1 := by simpa using heq
          subst this
          exact List.mem_cons_self
        · exact List.mem_cons_of_mem _ (ih h)
    have := List.all_eq_true.1 hall _ hmem
    simp only [decide_eq_true_eq] at this
    exact hl this

theorem micro_fit_implies_count (v level : Nat) (cap : Nat) (hcap : Micro.dataBits v level = some cap)
    (s : Segment) (k cb : Nat) (hk : Micro.kindOf s.mode = some k)
    (hcb : Micro.countBits k v = some cb) (hfit : Micro.segBits s v ≤ cap) :
    count k s.data < 2 ^ cb := by
  apply Classical.byContradiction
  intro hge
  have hmono := bodyBits_mono k (Nat.le_of_not_lt hge)
  obtain ⟨hk4, hv5⟩ := countBits_some hcb
  have hl := dataBits_some hcap
  have hover := forall_lt_of_all (forall_lt_of_all (forall_lt_of_all over_all v hv5) level hl) k hk4
  unfold overOK at hover
  rw [hcap, hcb] at hover
  have hover' := of_decide_eq_true hover
  unfold Micro.segBits at hfit
  rw [hk] at hfit
  simp only [hcb] at hfit
  omega

end QRV.Lemmas.FitCountMicro
