import QRV.Lemmas.DecOverfullQR
/-
C07 (finding D16) — non-vacuity of the overflow bound at the level of bitmaps: a version 1 symbol (level index 0,
mask 0) whose 16 data codewords are `0100 | 00001111 | 0000 …` - byte mode, 15 bytes announced, 14 and a half present -
on which `DecodeBitmap` returns a description of 132 bits for 128 bits of data.  The bitmap is what the model's own block
split, interleaving, placement, format and masking steps make of these codewords (`rawSymbol`, checked by kernel
evaluation); the decoder is evaluated on it by the kernel.
-/
namespace QRV.Lemmas.DecOverfull
open QRV QRV.Model QRV.Model.Bits QRV.Model.Sym QRV.Model.Bitmap QRV.Model.QR QRV.Lemmas.Dec

/-- the version 1 symbol of level index `level` and mask `mask` carrying the given data codewords as they are: the steps
of `EncodeToBitmap` after `encodeSegments` -/
def rawSymbol (level mask : Int) (codewords : List Nat) : Out Image := do
  let cap ← capAt Gen.QR.capacityTable 1 level
  let blocks ← splitBlocks cap.blocks codewords
  let buf ← interleave blocks {}
  let w : Int := 20
  let img ← deref (← imgAt baseList 1)
  let used ← deref (← imgAt usedList 1)
  let img ← placeLoop used w ((w + 3) * (w + 3)).toNat { x := w, y := w, dy := -1 } buf img
  let format ← natAt Gen.QR.encodedFormat (level * 8 + mask)
  let img ← placeFormat img w format
  let pat ← deref (← imgAt maskList mask)
  Image.mask img used pat

/-- `0100 | 00001111 | 0000 …` (16 codewords = 128 bits) -/
def overfullCodewords : List Nat := [0x40, 0xF0] ++ List.replicate 14 0

/-- the 21 x 21 bitmap, 3 bytes per row -/
def overfullImage : Image :=
  { pix := #[254, 75, 248, 130, 138, 8, 186, 26, 232, 186, 2, 232, 186, 202, 232, 130, 82, 8, 254, 171, 248, 0, 16, 0,
             170, 72, 144, 161, 213, 80, 75, 170, 168, 240, 213, 80, 70, 138, 168, 0, 149, 80, 254, 106, 168, 130, 53,
             72, 186, 170, 176, 186, 117, 80, 186, 202, 168, 130, 85, 80, 254, 234, 184],
    stride := 3, minX := 0, minY := 0, maxX := 21, maxY := 21 }

set_option maxRecDepth 100000 in
/-- provenance of the bitmap -/
theorem overfullImage_raw : rawSymbol 0 0 overfullCodewords = .ok overfullImage := by decide +kernel

theorem overfullImage_wf : WF overfullImage := by
  constructor <;> decide +kernel

set_option maxRecDepth 100000 in
/-- the decoder returns the byte segment of 15 zero bytes -/
theorem overfullImage_decodes : decodeBitmap overfullImage =
    .ok { version := 1, level := 0, mask := 0, segments := [{ mode := 4, data := List.replicate 15 0 }] } := by
  decide +kernel

end QRV.Lemmas.DecOverfull
