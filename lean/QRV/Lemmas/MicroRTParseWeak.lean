import QRV.Lemmas.MicroRTParse
/-
Round trip C01 (Micro QR), decoder side, under the weakest non-emptiness condition the decoder
allows: `Model.Micro.segmentLoop` parses the stream of `MicroRTStream.lean` back into the segments
provided no NUMERIC segment is empty (an empty numeric segment IS the terminator) and, in M4, no
segment at all is empty (M4 drops segments whose decoded data is empty).  An empty alphanumeric /
byte / kanji segment of M2-M3 (mode indicator + zero count) is read back as an empty segment.
Generalises `MicroRTParse.segments_parse_buf` / `segments_parse`.
-/
namespace QRV.Lemmas.MRT
open QRV QRV.Model QRV.Model.Bits QRV.Model.Sym QRV.Model.Codec QRV.Spec.Bits QRV.Spec.Codec
open QRV.Spec.Valid QRV.Spec.Tables QRV.Lemmas.Bits QRV.Lemmas.Codec QRV.Lemmas.Kanji
open QRV.Props
open QRV.Lemmas.RT (bodyStream readBits_of_rd inv_reader)

/-- a zero character count means empty data -/
theorem data_nil_of_count_zero {k : Nat} (hk : k < 4) {data : List Nat} (hd : ValidData k data)
    (h0 : count k data = 0) : data = [] :=
  Classical.byContradiction fun hne => count_pos hk hd hne h0

/-- `segmentLoop` on a buffer whose unread bits are the streams of valid segments, none of them an
empty numeric segment and (M4) none of them empty, followed by a tail it stops at: exactly those
segments are appended -/
theorem segments_parse_buf_weak (v : Nat) (h1 : 1 ≤ v) (h4 : v ≤ 4) (segs : List Segment)
    (hs : ∀ s ∈ segs, SegOK v s) (hne : ∀ s ∈ segs, s.data = [] → s.mode ≠ 0 ∧ v ≠ 4) (tail : List Bool)
    (ht : TailOK (termLen v) tail) :
    ∀ (b : Buffer) (acc : Array Segment) (fuel : Nat), C16.Inv b → b.read < 8 →
      unr b = segs.flatMap (segStream v) ++ tail → segs.length < fuel →
      Model.Micro.segmentLoop (v : Int) fuel b acc = .ok (acc.toList ++ segs) := by
  induction segs with
  | nil =>
    intro b acc fuel h hr hu hf
    obtain ⟨f, rfl⟩ : ∃ f, fuel = f + 1 := ⟨fuel - 1, by simp at hf; omega⟩
    rw [List.flatMap_nil, List.nil_append] at hu
    rw [segmentLoop_tail v h1 h4 b h hr (by rw [hu]; exact ht), List.append_nil]
  | cons s l ih =>
    intro b acc fuel h hr hu hf
    obtain ⟨f, rfl⟩ : ∃ f, fuel = f + 1 := ⟨fuel - 1, by simp at hf; omega⟩
    obtain ⟨k, cb, hk, hcb, hd, hc⟩ := hs s (List.mem_cons_self ..)
    obtain ⟨hm4, rfl⟩ := kindOf_some hk
    obtain ⟨-, -, -, hcb3, hcb6, hmlt, hmc, hmb, -⟩ := countBits_facts hcb
    have hsne := hne s (List.mem_cons_self ..)
    have hstream : segStream v s = bitsMSB s.mode (v - 1) ++ bitsMSB (count s.mode s.data) cb ++ bodyStream s.mode s.data := by
      unfold segStream
      rw [hk]
      simp only [hcb]
      rfl
    rw [List.flatMap_cons, hstream] at hu
    simp only [List.append_assoc] at hu
    -- the body after the mode indicator
    have hafter : ∀ (b₁ : Buffer), C16.Inv b₁ → b₁.read < 8 →
        unr b₁ = bitsMSB (count s.mode s.data) cb ++ (bodyStream s.mode s.data ++ (l.flatMap (segStream v) ++ tail)) →
        afterMode (v : Int) f acc b₁ s.mode = .ok (acc.toList ++ s :: l) := by
      intro b₁ i₁ r₁ u₁
      obtain ⟨b₂, e₂, i₂, -, -, r₂, -, u₂⟩ := rd_ok b₁ i₁ r₁ cb (count s.mode s.data) (by omega) (by omega) _ u₁
      rw [Nat.mod_eq_of_lt hc] at e₂
      have e₂' := readBits_of_rd e₂
      obtain ⟨b₃, e₃, i₃, r₃, u₃⟩ := decodeBody_inverse hm4 s.data hd b₂ i₂ r₂ _ u₂
      have := ih (fun x hx => hs x (List.mem_cons_of_mem _ hx)) (fun x hx => hne x (List.mem_cons_of_mem _ hx))
        b₃ (acc.push s) f i₃ r₃ u₃ (by simp at hf; omega)
      unfold afterMode
      rw [hmc]
      simp only [e₂', Out.bind_ok]
      rw [if_neg (by
        intro hh
        exact (hsne (data_nil_of_count_zero hm4 hd hh.2)).1 hh.1), e₃]
      simp only [Out.bind_ok]
      rw [if_neg (by
        intro hh
        have := hh.2
        rw [List.isEmpty_iff] at this
        have h4' := (hsne this).2
        have := hh.1
        omega)]
      rw [this, Array.toList_push, List.append_assoc]
      rfl
    rw [segmentLoop_succ, hmb]
    by_cases hv : v - 1 = 0
    · rw [if_pos hv]
      simp only [Out.bind_ok, pure]
      have hm0 : s.mode = Model.Micro.modeNumeric := by
        rw [hv] at hmlt
        unfold Model.Micro.modeNumeric
        omega
      rw [← hm0]
      refine hafter b h hr ?_
      rw [hu, hv]
      rfl
    · rw [if_neg hv]
      obtain ⟨b₁, e₁, i₁, -, -, r₁, -, u₁⟩ := rd_ok b h hr (v - 1) s.mode (by omega) (by omega) _ hu
      rw [Nat.mod_eq_of_lt hmlt] at e₁
      have e₁' := readBits_of_rd e₁
      simp only [e₁', Out.bind_ok]
      exact hafter b₁ i₁ r₁ u₁

/-- the decoder's segment loop on a byte string whose bit image is the stream of such segments
followed by a tail whose first `termLen v` bits (as many as there are) are zero -/
theorem segments_parse_weak (v : Nat) (h1 : 1 ≤ v) (h4 : v ≤ 4) (segs : List Segment)
    (hs : ∀ s ∈ segs, SegOK v s) (hne : ∀ s ∈ segs, s.data = [] → s.mode ≠ 0 ∧ v ≠ 4) (tail : List Bool)
    (ht : TailOK (termLen v) tail) (bytes : List Nat) (hb : ∀ x ∈ bytes, x < 256)
    (himg : unpack bytes = segs.flatMap (segStream v) ++ tail)
    (acc : Array Segment) (fuel : Nat) (hf : segs.length < fuel) :
    Model.Micro.segmentLoop (v : Int) fuel { buf := bytes.toArray } acc = .ok (acc.toList ++ segs) := by
  refine segments_parse_buf_weak v h1 h4 segs hs hne tail ht _ acc fuel
    (inv_reader _ (by simpa using hb)) (show (0 : Nat) < 8 by decide) ?_ hf
  show (unpack bytes.toArray.toList).drop (8 * 0 + 0) = _
  rw [List.toList_toArray, List.drop_zero, himg]

end QRV.Lemmas.MRT
