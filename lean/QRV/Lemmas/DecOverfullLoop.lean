import QRV.Lemmas.DecOverfull
/-
C07 (finding D16, exact bound) — one segment and the segment loop of the QR decoder over an arbitrary byte buffer:
whatever the loop returns needs fewer bits than `8 * size` + (width of the last group read for the last segment).
-/
namespace QRV.Lemmas.DecOverfull
open QRV QRV.Model.Bits QRV.Model.Codec QRV.Model.Sym QRV.Model.Utf8 QRV.Spec.Valid QRV.Lemmas.Kanji QRV.Lemmas.Dec

/-- width of the last group the decoder read for a segment (the count field if the segment is empty) -/
def lastGrp (s : Segment) (v : Nat) : Nat :=
  match QR.kindOf s.mode with
  | some k => if count k s.data = 0 then QR.countBits k v else lastG k (count k s.data)
  | none => 0

theorem countBits_ge (k v : Nat) : 8 ≤ QR.countBits k v := by
  unfold QR.countBits
  by_cases a : v < 10
  · match k with
    | 0 => simp [a]
    | 1 => simp [a]
    | 2 => simp [a]
    | _ + 3 => simp [a]
  · by_cases b : v < 27
    · match k with
      | 0 => simp [a, b]
      | 1 => simp [a, b]
      | 2 => simp [a, b]
      | _ + 3 => simp [a, b]
    · match k with
      | 0 => simp [a, b]
      | 1 => simp [a, b]
      | 2 => simp [a, b]
      | _ + 3 => simp [a, b]

theorem lastG_pos (k n : Nat) : 0 < lastG k n := by
  match k with
  | 0 =>
    simp only [lastG]
    split
    · decide
    · split <;> decide
  | 1 => simp only [lastG]; split <;> decide
  | 2 => simp [lastG]
  | _ + 3 => simp [lastG]

theorem lastGrp_pos (s : Segment) (v k : Nat) (hk : QR.kindOf s.mode = some k) : 0 < lastGrp s v := by
  unfold lastGrp
  rw [hk]
  dsimp only
  split
  · have := countBits_ge k v; omega
  · exact lastG_pos _ _

/-- one segment, mode indicator already read: the mode is kept, the bytes are untouched, and the invariant advances by
the count field and the standard body length of the returned data, the last group being the segment's -/
theorem decodeSegment_over (mode : Nat) (version : Int) (h1 : 1 ≤ version) (h40 : version ≤ 40)
    (k : Nat) (hk : QR.kindOf mode = some k) (b : Buffer) (N g : Nat) (hI : Inv N g b) (b' : Buffer) (seg : Segment)
    (e : Model.QR.decodeSegment mode version b = .ok (b', seg)) :
    seg.mode = mode ∧ b'.buf = b.buf ∧
      Inv (N + QR.countBits k version.toNat + bodyBits k (count k seg.data)) (lastGrp seg version.toNat) b' := by
  unfold Model.QR.decodeSegment at e
  rw [countBits_spec mode k hk version h1 h40] at e
  dsimp only at e
  have hcb := countBits_le k version.toNat
  obtain ⟨⟨b1, len⟩, e1, e2⟩ := bind_eq_ok e
  obtain ⟨hI1, hb1, -, -⟩ := rd_step N g _ (by omega) b b1 len hI e1
  obtain ⟨⟨b2, data⟩, e3, e4⟩ := bind_eq_ok e2
  simp only [pure, Out.ok.injEq, Prod.mk.injEq] at e4
  obtain ⟨rfl, rfl⟩ := e4
  dsimp only at e3 ⊢
  -- it is enough to know the character count of the returned data and the invariant after the body
  suffices h : count k data = len ∧ b2.buf = b1.buf ∧
      Inv (N + QR.countBits k version.toNat + bodyBits k len)
        (if len = 0 then QR.countBits k version.toNat else lastG k len) b2 by
    obtain ⟨hc, hb2, hI2⟩ := h
    refine ⟨rfl, hb2.trans hb1, ?_⟩
    unfold lastGrp
    rw [hk]
    dsimp only
    rw [hc]
    exact hI2
  unfold Model.QR.modeNumeric Model.QR.modeAlphanumeric Model.QR.modeBytes at e3
  unfold QR.kindOf at hk
  by_cases m1 : mode = 1
  · subst m1
    have hk0 : k = 0 := by simp at hk; omega
    subst hk0
    rw [if_pos rfl] at e3
    unfold decodeNumeric at e3
    obtain ⟨f1, -⟩ := Lemmas.Codec.decodeNumeric_go_sound len b1 #[] b2 data e3
    obtain ⟨g1, g2⟩ := numeric_go len b1 #[] _ _ b2 data hI1 e3
    refine ⟨?_, g2, g1⟩
    simp only [count]; rw [if_neg (by decide)]; simpa using f1
  by_cases m2 : mode = 2
  · subst m2
    have hk0 : k = 1 := by simp at hk; omega
    subst hk0
    rw [if_neg (by decide), if_pos rfl] at e3
    unfold decodeAlphanumeric at e3
    obtain ⟨f1, -⟩ := Lemmas.Codec.decodeAlphanumeric_go_sound len b1 #[] b2 data e3
    obtain ⟨g1, g2⟩ := alnum_go len b1 #[] _ _ b2 data hI1 e3
    refine ⟨?_, g2, g1⟩
    simp only [count]; rw [if_neg (by decide)]; simpa using f1
  by_cases m4 : mode = 4
  · subst m4
    have hk0 : k = 2 := by simp at hk; omega
    subst hk0
    rw [if_neg (by decide), if_neg (by decide), if_pos rfl] at e3
    unfold decodeBytes at e3
    obtain ⟨-, l, hl, -, he⟩ := (decodeBytes_go_sat len b1 #[] hI1.1).of_ok e3
    dsimp only at he
    have he' : data = l := by simpa using he
    subst he'
    obtain ⟨g1, g2⟩ := bytes_go len b1 #[] _ _ b2 data hI1 e3
    refine ⟨?_, g2, g1⟩
    simp only [count]; rw [if_neg (by decide)]; exact hl
  · by_cases m8 : mode = 8
    · subst m8
      have hk0 : k = 3 := by simp at hk; omega
      subst hk0
      rw [if_neg (by decide), if_neg (by decide), if_neg (by decide)] at e3
      unfold decodeKanji at e3
      obtain ⟨-, rs, hl, hrs, he⟩ := (decodeKanji_go_sat len b1 #[] hI1.1).of_ok e3
      dsimp only at he
      have he' : data = rs.flatMap encodeRune := by simpa using he
      subst he'
      have hok : ∀ r ∈ rs, runeOK r = true := by
        intro r hr
        obtain ⟨hr0, code, hc, hd⟩ := hrs r hr
        have href : refAt code = r := by
          rcases Lemmas.Codec.decode_cases code hc with ⟨_, h⟩ | ⟨h, _⟩
          · rw [h] at hd; exact Option.some.inj hd
          · rw [h] at hd; cases hd
        have := kanji_runes_ok code hc
        rw [href] at this
        simpa [hr0] using this
      obtain ⟨g1, g2⟩ := kanji_go len b1 #[] _ _ b2 _ hI1 e3
      refine ⟨?_, g2, g1⟩
      simp only [count, ↓reduceIte]; rw [runes_flatMap rs hok]; exact hl
    · simp [m1, m2, m4, m8] at hk

/-- standard bit length of a list of segments -/
def sumBits (v : Nat) (segs : List Segment) : Nat := (segs.map fun t => QR.segBits t v).sum

/-- last group of the last segment (0 for no segment) -/
def lastW (v : Nat) (segs : List Segment) : Nat :=
  match segs.getLast? with
  | some s => lastGrp s v
  | none => 0

theorem sumBits_push (v : Nat) (acc : Array Segment) (s : Segment) :
    sumBits v (acc.push s).toList = sumBits v acc.toList + QR.segBits s v := by
  unfold sumBits
  rw [Array.toList_push, List.map_append, List.sum_append]
  simp

theorem lastW_push (v : Nat) (acc : Array Segment) (s : Segment) :
    lastW v (acc.push s).toList = lastGrp s v := by
  unfold lastW
  rw [Array.toList_push, List.getLast?_append]
  simp

/-- what the loop returns when it stops -/
theorem stop_bound (v : Nat) (b : Buffer) (segs : List Segment) (hI : Inv (sumBits v segs) (lastW v segs) b)
    (hpos : ∀ s ∈ segs, 0 < lastGrp s v) (s : Segment) (hs : segs.getLast? = some s) :
    sumBits v segs < 8 * b.buf.size + lastGrp s v := by
  have hp := hpos s (List.mem_of_getLast? hs)
  obtain ⟨-, hle, h | ⟨-, h⟩⟩ := hI
  · omega
  · unfold lastW at h; rw [hs] at h; exact h

/-- the segment loop over an arbitrary buffer: the description returned exceeds the `8 * size` bits of the buffer by
less than the last group read for its last segment -/
theorem segmentLoop_over (version : Int) (h1 : 1 ≤ version) (h40 : version ≤ 40) (fuel : Nat) :
    ∀ (b : Buffer) (acc : Array Segment),
      Inv (sumBits version.toNat acc.toList) (lastW version.toNat acc.toList) b →
      (∀ s ∈ acc.toList, 0 < lastGrp s version.toNat) →
      ∀ segs, Model.QR.segmentLoop version fuel b acc = .ok segs →
      ∀ s, segs.getLast? = some s → sumBits version.toNat segs < 8 * b.buf.size + lastGrp s version.toNat := by
  induction fuel with
  | zero => intro b acc _ _ segs e; rw [Model.QR.segmentLoop] at e; cases e
  | succ fuel ih =>
    intro b acc hI hpos segs e s hs
    rw [Model.QR.segmentLoop] at e
    obtain ⟨⟨b1, r⟩, e1, e2⟩ := bind_eq_ok e
    cases r with
    | none =>
      simp only [pure, Out.ok.injEq] at e2
      subst e2
      exact stop_bound _ b _ hI hpos s hs
    | some mode =>
      obtain ⟨hI1, hb1, hN, hmono, hlt⟩ := readBits_step _ _ 4 (by decide) b b1 mode hI
        (by rw [show ((4 : Nat) : Int) = 4 from rfl]; exact e1)
      dsimp only at e2
      unfold Model.QR.modeNumeric Model.QR.modeAlphanumeric Model.QR.modeBytes Model.QR.modeKanji
        Model.QR.modeTerminated at e2
      split at e2
      · rename_i hm
        obtain ⟨k, hk⟩ : ∃ k, QR.kindOf mode = some k := by
          unfold QR.kindOf; rcases hm with rfl | rfl | rfl | rfl <;> simp
        obtain ⟨⟨b2, seg⟩, e3, e4⟩ := bind_eq_ok e2
        obtain ⟨hmode, hb2, hI2⟩ := decodeSegment_over mode version h1 h40 k hk b1 _ _ hI1 b2 seg e3
        have hk' : QR.kindOf seg.mode = some k := by rw [hmode]; exact hk
        have hsb : QR.segBits seg version.toNat =
            4 + QR.countBits k version.toNat + bodyBits k (count k seg.data) := by
          unfold QR.segBits; rw [hk']
        have := ih b2 (acc.push seg)
          (by rw [sumBits_push, lastW_push, hsb]; exact hI2.cast (by omega) rfl)
          (by
            intro t ht
            rw [Array.toList_push, List.mem_append, List.mem_singleton] at ht
            rcases ht with ht | rfl
            · exact hpos t ht
            · exact lastGrp_pos _ _ k hk')
          segs e4 s hs
        rw [hb2, hb1] at this
        exact this
      · split at e2
        · simp only [pure, Out.ok.injEq] at e2
          subst e2
          have hp := hpos s (List.mem_of_getLast? hs)
          omega
        · have hI' : Inv (sumBits version.toNat acc.toList) (lastW version.toNat acc.toList) b1 :=
            ⟨hI1.1, hI1.2.1, Or.inl (by omega)⟩
          have := ih b1 acc hI' hpos segs e2 s hs
          rw [hb1] at this
          exact this

end QRV.Lemmas.DecOverfull
