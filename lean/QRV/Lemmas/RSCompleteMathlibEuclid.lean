import QRV.Lemmas.RSCompleteMathlibPmul
import QRV.Lemmas.RSCompleteMathlibAlg
/-
The model's Euclidean algorithm maintains the Bezout-type invariants over `Polynomial F`, and on a
syndrome polynomial of at most n/2 errors it returns exactly the locator and the evaluator.
-/
namespace QRV.Lemmas.RSC
open Polynomial QRV QRV.Model QRV.Model.GF QRV.Model.RS QRV.Lemmas.GF QRV.Lemmas.RS

theorem poly_add_self (a : F[X]) : a + a = 0 := CharTwo.add_self_eq_zero a

/-- the division loop preserves `r + q·rLast` -/
theorem divLoop_poly (rLast : List Nat) (hrl : AllEl rLast) (dltInv : Nat) :
    ∀ (fuel : Nat) (q r q' r' : List Nat), AllEl q → AllEl r →
      Poly.divLoop rLast dltInv fuel q r = .ok (q', r') →
      AllEl q' ∧ toPoly r' + toPoly q' * toPoly rLast = toPoly r + toPoly q * toPoly rLast
  | 0, _, _, _, _, _, _, h => by simp [Poly.divLoop] at h
  | fuel + 1, q, r, q', r', hq, hr, h => by
    unfold Poly.divLoop at h
    split at h
    · simp only at h
      have hs : mul (Poly.coefficient r (Poly.degree r)) dltInv < 256 := mul_lt' _ _
      have hq1 := allEl_padd hq (allEl_newMonomial hs (Poly.degree r - Poly.degree rLast))
      have hr1 := allEl_padd hr (allEl_mulMonomial rLast (Poly.degree r - Poly.degree rLast)
        (mul (Poly.coefficient r (Poly.degree r)) dltInv))
      obtain ⟨h1, h2⟩ := divLoop_poly rLast hrl dltInv fuel _ _ q' r' hq1 hr1 h
      refine ⟨h1, ?_⟩
      rw [h2, toPoly_padd hq (allEl_newMonomial hs _), toPoly_padd hr (allEl_mulMonomial _ _ _),
        toPoly_newMonomial, toPoly_mulMonomial hrl _ hs]
      linear_combination poly_add_self (toPoly rLast *
        (C (toF (mul (Poly.coefficient r (Poly.degree r)) dltInv)) *
          X ^ (Poly.degree r - Poly.degree rLast)))
    · cases h; exact ⟨hq, rfl⟩

/-- invariant of the Euclidean loop (characteristic 2: all signs are +) -/
structure EInv (R : Nat) (S : F[X]) (rLast r tLast t : List Nat) : Prop where
  hrl : AllEl rLast
  hr : AllEl r
  htl : AllEl tLast
  ht : AllEl t
  h1 : X ^ R ∣ toPoly tLast * S + toPoly rLast
  h2 : X ^ R ∣ toPoly t * S + toPoly r
  h3 : toPoly tLast * toPoly r + toPoly t * toPoly rLast = X ^ R

theorem einv_step {R : Nat} {S : F[X]} {rLast r tLast t q rem qt : List Nat}
    (hI : EInv R S rLast r tLast t) (_hq : AllEl q) (hrem : AllEl rem)
    (hdiv : toPoly rem + toPoly q * toPoly r = toPoly rLast)
    (hqt : AllEl qt) (hqt' : toPoly qt = toPoly q * toPoly t) :
    EInv R S r rem t (Poly.padd qt tLast) := by
  have hrem' : toPoly rem = toPoly rLast + toPoly q * toPoly r := CharTwo.add_eq_iff_eq_add.mp hdiv
  refine ⟨hI.hr, hrem, hI.ht, allEl_padd hqt hI.htl, hI.h2, ?_, ?_⟩
  · rw [toPoly_padd hqt hI.htl, hqt', hrem']
    have : (toPoly q * toPoly t + toPoly tLast) * S + (toPoly rLast + toPoly q * toPoly r) =
        toPoly q * (toPoly t * S + toPoly r) + (toPoly tLast * S + toPoly rLast) := by ring
    rw [this]
    exact dvd_add (dvd_mul_of_dvd_right hI.h2 _) hI.h1
  · rw [toPoly_padd hqt hI.htl, hqt', hrem', ← hI.h3]
    linear_combination poly_add_self (toPoly q * toPoly t * toPoly r)

theorem euclidLoop_spec2 (R : Nat) (hR : R ≥ 1) (S : F[X]) :
    ∀ (fuel : Nat) (rLast r tLast t : List Nat), EInv R S rLast r tLast t →
      Poly.degree r < Poly.degree rLast →
      t ≠ [] → 2 * Poly.degree rLast ≥ R → Poly.degree t + Poly.degree rLast ≤ R →
      Poly.degree tLast + Poly.degree rLast ≤ R → fuel ≥ Poly.degree r + 1 →
    ∃ t' r' rLast' tLast', Poly.euclidLoop R fuel rLast r tLast t = .ok (t', r') ∧
      2 * Poly.degree t' ≤ R ∧ 2 * Poly.degree r' < R ∧ EInv R S rLast' r' tLast' t'
  | 0, _, _, _, _, _, _, _, _, _, _, hf => by omega
  | fuel + 1, rLast, r, tLast, t, hI, hlt, ht, h2, hdt, hdtl, hf => by
    have hrl := hI.hrl
    have hr := hI.hr
    unfold Poly.euclidLoop
    by_cases hg : 2 * Poly.degree r ≥ R
    · rw [if_pos hg]
      have hd1 : Poly.degree r ≥ 1 := by omega
      have hdlt := lead_ne_zero r hd1
      obtain ⟨q, rem, hdiv, hrem, hdrem, hq, hqne⟩ := divLoop_spec r hr hd1 (Poly.degree rLast - Poly.degree r)
        (rLast.length + r.length + 2) [] rLast hrl (by have := degree_le_length rLast; omega)
        (fun e _ => coefficient_nil e) (Nat.le_refl _)
      have hqne := hqne (Or.inl (by omega))
      obtain ⟨qt, hqt, hqtl, hqtd⟩ := pmul_spec q t (by
        have : t.length ≠ 0 := by simpa using ht
        omega)
      obtain ⟨hqa, hdivp⟩ := divLoop_poly r hr _ _ [] rLast q rem (by intro b hb; cases hb) hrl hdiv
      rw [toPoly_nil, MulZeroClass.zero_mul, _root_.add_zero] at hdivp
      obtain ⟨hqta, hqtp⟩ := toPoly_pmul hqa hI.ht hqt
      have hI' := einv_step hI hqa hrem hdivp hqta hqtp
      simp only [inv_ok hdlt, Out.bind_ok, hdiv, hqt]
      have hdt' : Poly.degree (Poly.padd qt tLast) ≤ R - Poly.degree r := by
        apply degree_le_of_degLE
        intro e he
        rw [coefficient_padd, hqtd _ _ hq (degLE_degree t) e (by omega), degLE_degree tLast e (by omega),
          add_zero]
      exact euclidLoop_spec2 R hR S fuel r rem t (Poly.padd qt tLast) hI' hdrem
        (by
          intro hnil
          have := congrArg List.length hnil
          rw [length_padd, hqtl] at this
          have h1 : t.length ≠ 0 := by simpa using ht
          have h2 : q.length ≠ 0 := by simpa using hqne
          simp at this; omega)
        hg (by omega) (by omega) (by omega)
    · rw [if_neg hg]
      exact ⟨t, r, rLast, tLast, rfl, by omega, by omega, hI⟩

/-- on the syndrome polynomial of an error pattern of weight ≤ n/2 the Euclidean algorithm returns
exactly the locator and the evaluator -/
theorem euclid_complete (n : Nat) (hn : n ≥ 1) (synd : List Nat) (hs : AllEl synd) (hl : synd.length = n)
    (E : Finset ℕ) (xs ys : ℕ → F) (hS : toPoly synd = synPoly E xs ys n)
    (hinj : Set.InjOn xs E) (hx : ∀ i ∈ E, xs i ≠ 0) (hy : ∀ i ∈ E, ys i ≠ 0) (hcard : 2 * E.card ≤ n) :
    ∃ sigma omega, Poly.euclideanAlgorithm (Poly.newMonomial n 1) synd n = .ok (sigma, omega) ∧
      AllEl sigma ∧ AllEl omega ∧ toPoly sigma = locPoly E xs ∧ toPoly omega = evPoly E xs ys := by
  have hda : Poly.degree (Poly.newMonomial n 1) = n := degree_newMonomial (by decide) n
  have hdb : Poly.degree synd < n := by
    have := degree_lt_length (p := synd) (by intro h; rw [h] at hl; simp at hl; omega)
    omega
  have hmono : toPoly (Poly.newMonomial n 1) = X ^ n := by
    rw [toPoly_newMonomial, toF_one, C_1, _root_.one_mul]
  have hI0 : EInv n (toPoly synd) (Poly.newMonomial n 1) synd [] [1] := by
    refine ⟨allEl_newMonomial (by decide) n, hs, (by intro b hb; cases hb),
      (by intro b hb; rw [List.mem_singleton.mp hb]; decide), ?_, ?_, ?_⟩
    · rw [toPoly_nil, hmono, MulZeroClass.zero_mul, _root_.zero_add]
    · rw [toPoly_one, _root_.one_mul, poly_add_self]; exact dvd_zero _
    · rw [toPoly_nil, toPoly_one, hmono, MulZeroClass.zero_mul, _root_.zero_add, _root_.one_mul]
  obtain ⟨t, r, rL, tL, hloop, hdt, hdr, hI⟩ := euclidLoop_spec2 n hn (toPoly synd)
    ((Poly.newMonomial n 1).length + synd.length + 2)
    (Poly.newMonomial n 1) synd [] [1] hI0 (by omega) (by simp)
    (by omega) (by rw [hda]; simp [Poly.degree]) (by rw [hda]; simp [Poly.degree])
    (by omega)
  have hkey := key_equation E xs ys n
  rw [← hS] at hkey
  obtain ⟨c, hc0, htc, hrc⟩ := euclid_unique n E.card (toPoly synd) (locPoly E xs) (evPoly E xs ys)
    (toPoly t) (toPoly r) (toPoly tL) (toPoly rL) hkey hI.h1 hI.h2 hI.h3
    (loc_ev_coprime E xs ys hinj hx hy) (locPoly_ne_zero E xs)
    (le_of_eq (natDegree_locPoly E xs hx)) (natDegree_evPoly_le E xs ys) hcard
    (by have := natDegree_toPoly_le t; omega) (by have := natDegree_toPoly_le r; omega)
  have hs0 : toF (Poly.coefficient t 0) = c := by
    rw [← coeff_toPoly, htc, coeff_C_mul, locPoly_coeff_zero, _root_.mul_one]
  have hs0lt : Poly.coefficient t 0 < 256 := coefficient_lt t hI.ht 0
  have hs0ne : Poly.coefficient t 0 ≠ 0 := by
    intro h0; rw [h0] at hs0; exact hc0 hs0.symm
  have hiv : toF (inv' (Poly.coefficient t 0)) = c⁻¹ := by
    rw [toF_inv hs0lt hs0ne, hs0]
  refine ⟨Poly.mulElement t (inv' (Poly.coefficient t 0)), Poly.mulElement r (inv' (Poly.coefficient t 0)),
    ?_, ?_, ?_, ?_, ?_⟩
  · unfold Poly.euclideanAlgorithm
    rw [if_neg (by omega)]
    simp only [hloop, Out.bind_ok]
    rw [if_neg hs0ne, inv_ok hs0ne]
    rfl
  · intro b hb
    obtain ⟨a, _, rfl⟩ := List.mem_map.mp hb
    exact mul_lt' _ _
  · intro b hb
    obtain ⟨a, _, rfl⟩ := List.mem_map.mp hb
    exact mul_lt' _ _
  · rw [toPoly_mulElement hI.ht (inv'_lt _), hiv, htc, _root_.mul_comm, ← _root_.mul_assoc, ← C_mul,
      inv_mul_cancel₀ hc0, C_1, _root_.one_mul]
  · rw [toPoly_mulElement hI.hr (inv'_lt _), hiv, hrc, _root_.mul_comm, ← _root_.mul_assoc, ← C_mul,
      inv_mul_cancel₀ hc0, C_1, _root_.one_mul]

end QRV.Lemmas.RSC
