import QRV.Props.C18
import QRV.Lemmas.RTFormat
/-
C10 helpers, generic part: regular images are determined by their bits, and writing function
modules (`SetBinary` at modules the function map marks) commutes with `Mask` — as images, byte for
byte.  Hence "place the format information, then mask" (what the encoder does when it emits a
symbol) and "mask, then place the format information" (what the selection loop scores) give the same
image.
-/
namespace QRV.Lemmas.C10F
open QRV QRV.Model QRV.Model.Bitmap QRV.Props QRV.Props.C18
open QRV.Lemmas.RT (applyWrites)

/-- two regular images of the same shape with the same bits (padding bits included) are equal -/
theorem regular_ext {a b : Image} {w h : Nat} (ha : Regular a w h) (hb : Regular b w h)
    (hpx : ∀ x y, x < 8 * ((w + 7) / 8) → y < h → px a x y = px b x y) : a = b := by
  have hpix : a.pix = b.pix := by
    apply Lemmas.Bitmap.ext_getD (by rw [ha.size, hb.size])
    intro i
    by_cases hi : i < (w + 7) / 8 * h
    · have hs : 0 < (w + 7) / 8 := by
        rcases Nat.eq_zero_or_pos ((w + 7) / 8) with h0 | h0
        · rw [h0, Nat.zero_mul] at hi; omega
        · exact h0
      have hy : i / ((w + 7) / 8) < h := by
        rw [Nat.div_lt_iff_lt_mul hs, Nat.mul_comm]; exact hi
      have hj : i % ((w + 7) / 8) < (w + 7) / 8 := Nat.mod_lt _ hs
      have hidx : i / ((w + 7) / 8) * ((w + 7) / 8) + i % ((w + 7) / 8) = i := by
        rw [Nat.mul_comm]; exact Nat.div_add_mod i _
      apply Nat.eq_of_testBit_eq
      intro k
      by_cases hk : k < 8
      · have := hpx (8 * (i % ((w + 7) / 8)) + (7 - k)) (i / ((w + 7) / 8)) (by omega) hy
        rw [px_eq, Lemmas.Bitmap.Reg.pxl_eq ha.reg, Lemmas.Bitmap.Reg.pxl_eq hb.reg] at this
        have e1 : (8 * (i % ((w + 7) / 8)) + (7 - k)) / 8 = i % ((w + 7) / 8) := by omega
        have e2 : 7 - (8 * (i % ((w + 7) / 8)) + (7 - k)) % 8 = k := by omega
        rw [e1, e2, hidx] at this
        exact this
      · have h256 : (256 : Nat) ≤ 2 ^ k := by
          have : (2 : Nat) ^ 8 ≤ 2 ^ k := Nat.pow_le_pow_right (by omega) (by omega)
          omega
        have hA := Lemmas.Bitmap.bytes_of_mem ha.bytes i
        have hB := Lemmas.Bitmap.bytes_of_mem hb.bytes i
        rw [Nat.testBit_lt_two_pow (by omega), Nat.testBit_lt_two_pow (by omega)]
    · have hA : a.pix[i]? = none := by
        rw [Array.getElem?_eq_none_iff, ha.size]; omega
      have hB : b.pix[i]? = none := by
        rw [Array.getElem?_eq_none_iff, hb.size]; omega
      rw [hA, hB]
  rw [ha.reg.eq_nf, hb.reg.eq_nf, hpix]

/-- a module the function map marks lies inside the image and its bit in the map is set -/
theorem used_inside {used : Image} {w h : Nat} (hru : Regular used w h) {x y : Int}
    (hu : used.binaryAt x y = .ok true) :
    0 ≤ x ∧ x < w ∧ 0 ≤ y ∧ y < h ∧ px used x.toNat y.toNat = true := by
  rw [binaryAt_spec _ _ _ hru] at hu
  by_cases hc : 0 ≤ x ∧ x < w ∧ 0 ≤ y ∧ y < h
  · rw [if_pos hc] at hu
    injection hu with hu
    exact ⟨hc.1, hc.2.1, hc.2.2.1, hc.2.2.2, hu⟩
  · rw [if_neg hc] at hu
    injection hu with hu
    cases hu

/-- one `SetBinary` at a function module commutes with `Mask` -/
theorem set_mask_comm {img used pat : Image} {w h pw ph : Nat} (hw : 0 < w) (hh : 0 < h)
    (hr : Regular img w h) (hru : Regular used w h) (hrp : Regular pat pw ph) (hpw : w ≤ pw) (hph : h ≤ ph)
    (x y : Int) (c : Bool) (hu : used.binaryAt x y = .ok true)
    {a b t : Image} (ha : img.setBinary x y c = .ok a) (hb : Image.mask a used pat = .ok b)
    (ht : Image.mask img used pat = .ok t) : t.setBinary x y c = .ok b := by
  obtain ⟨a', ea, hra, hpa⟩ := setBinary_spec img w h hr x y c
  obtain rfl : a' = a := by rw [ea] at ha; injection ha
  obtain ⟨b', eb, hrb⟩ := mask_ok a' used pat w h pw ph hw hh hra hru hrp hpw hph
  obtain rfl : b' = b := by rw [eb] at hb; injection hb
  obtain ⟨t', et, hrt⟩ := mask_ok img used pat w h pw ph hw hh hr hru hrp hpw hph
  obtain rfl : t' = t := by rw [et] at ht; injection ht
  obtain ⟨d, ed, hrd, hpd⟩ := setBinary_spec t' w h hrt x y c
  obtain ⟨hx0, hxw, hy0, hyh, hux⟩ := used_inside hru hu
  rw [ed]
  congr 1
  apply regular_ext hrd hrb
  intro x' y' hx' hy'
  rw [hpd x' y' hx' hy']
  by_cases hin : x' < w
  · rw [mask_spec a' used pat b' w h pw ph hw hh hra hru hrp hpw hph eb x' y' hin hy', hpa x' y' hx' hy']
    by_cases hc : 0 ≤ x ∧ x < w ∧ 0 ≤ y ∧ y < h ∧ x' = x.toNat ∧ y' = y.toNat
    · rw [if_pos hc, if_pos hc, hc.2.2.2.2.1, hc.2.2.2.2.2, hux]
      simp
    · rw [if_neg hc, if_neg hc]
      exact mask_spec img used pat t' w h pw ph hw hh hr hru hrp hpw hph et x' y' hin hy'
  · have hc : ¬ (0 ≤ x ∧ x < w ∧ 0 ≤ y ∧ y < h ∧ x' = x.toNat ∧ y' = y.toNat) := by
      rintro ⟨_, _, _, _, e, _⟩; omega
    rw [if_neg hc,
      mask_padding a' used pat b' w h pw ph hw hh hra hru hrp hpw hph eb x' y' (by omega) hx' hy',
      hpa x' y' hx' hy', if_neg hc]
    exact mask_padding img used pat t' w h pw ph hw hh hr hru hrp hpw hph et x' y' (by omega) hx' hy'

/-- a sequence of `SetBinary` at function modules commutes with `Mask` -/
theorem writes_mask_comm {used pat : Image} {w h pw ph : Nat} (hw : 0 < w) (hh : 0 < h)
    (hru : Regular used w h) (hrp : Regular pat pw ph) (hpw : w ≤ pw) (hph : h ≤ ph) :
    ∀ (ws : List ((Int × Int) × Bool)) (img : Image), Regular img w h →
      (∀ p ∈ ws, used.binaryAt p.1.1 p.1.2 = .ok true) →
      ∀ a b t : Image, applyWrites ws img = .ok a → Image.mask a used pat = .ok b →
        Image.mask img used pat = .ok t → applyWrites ws t = .ok b := by
  intro ws
  induction ws with
  | nil =>
    intro img _ _ a b t ha hb ht
    have : a = img := by
      have : Out.ok img = Out.ok a := ha
      injection this with this; exact this.symm
    subst this
    rw [hb] at ht
    injection ht with ht
    subst ht
    rfl
  | cons p ws ih =>
    intro img hr hu a b t ha hb ht
    obtain ⟨img1, e1, hr1, -⟩ := setBinary_spec img w h hr p.1.1 p.1.2 p.2
    obtain ⟨t1, et1, -⟩ := mask_ok img1 used pat w h pw ph hw hh hr1 hru hrp hpw hph
    have hs := set_mask_comm hw hh hr hru hrp hpw hph p.1.1 p.1.2 p.2 (hu p (List.mem_cons_self ..)) e1 et1 ht
    unfold applyWrites at ha ⊢
    rw [List.foldlM_cons, e1] at ha
    rw [List.foldlM_cons, hs]
    exact ih img1 hr1 (fun q hq => hu q (List.mem_cons_of_mem _ hq)) a b t1 ha hb et1

end QRV.Lemmas.C10F
