import QRV.Lemmas.DecMicro
/-
C06/C07 — Micro QR: the reading loop of the decoder (`Model.Micro.readLoop`) on an ARBITRARY
unmasked image.  A counting mirror `cntWalk` of the loop's control flow (which depends on the
function-module map only, apart from the byte-alignment step, which only ever adds bits) gives, by
kernel evaluation per version, that the fuel of the model suffices and that the loop collects at
least as many bits as there are non-function modules on the walk: enough bytes for the data
codewords of every (version, level) row.
-/
namespace QRV.Lemmas.Dec
open QRV QRV.Model QRV.Model.Bits QRV.Model.Bitmap QRV.Model.Sym QRV.Props QRV.Props.C18 QRV.Lemmas.RT

/-- the number of modules `readLoop` reads (at least: the alignment step is not counted), starting
from `n`; same control flow as `Model.Micro.readLoop`; `none` = fuel exhausted -/
def cntWalk (f : Int → Int → Bool) (w : Int) : (fuel : Nat) → Walk → Nat → Option Nat
  | 0, _, _ => none
  | fuel + 1, s, n =>
    let n1 := if f s.x s.y then n else n + 1
    let x := s.x - 1
    if x < 0 then some n1
    else
      let n2 := if f x s.y then n1 else n1 + 1
      let x := x + 1
      let y := s.y + s.dy
      let (x, y, dy) := if y < 0 ∨ y > w then (x - 2, y + (-s.dy), -s.dy) else (x, y, s.dy)
      if x < 0 then some n2
      else cntWalk f w fuel { x, y, dy } n2

/-- the per-module step of `readLoop` on an image that can be read -/
theorem micro_readCell_sat (img : Image) (hg : ∀ x y, Sat (img.binaryAt x y) (fun _ => True))
    (fx : Bool) (x y : Int) (buf : Buffer) (h : C16.Inv buf) (n : Nat) (hn : n ≤ buf.len) :
    Sat (if !fx then do
          let c ← img.binaryAt x y
          writeBit buf (if c then 1 else 0)
        else pure buf : Out Buffer) (fun b => C16.Inv b ∧ (if fx then n else n + 1) ≤ b.len) := by
  cases fx with
  | true => exact ⟨h, hn⟩
  | false =>
    simp only [Bool.not_false, if_true, Bool.false_eq_true, if_false]
    refine Sat.bind (hg x y) (fun c _ => ?_)
    obtain ⟨b', hw, hinv', habs, _, _⟩ := C16.writeBit_refines buf h (if c then 1 else 0)
    rw [hw]
    refine ⟨hinv', ?_⟩
    rw [C16.len_eq b' hinv', habs, List.length_append, ← C16.len_eq buf h]
    simp only [List.length_cons, List.length_nil]
    omega

/-- the byte-alignment step of `readLoop` only adds bits -/
theorem micro_align_sat (buf : Buffer) (h : C16.Inv buf) (n : Nat) (hn : n ≤ buf.len) :
    Sat (forIn [:8] buf fun (_ : Nat) (r : Buffer) =>
        if r.len % 8 ≠ 0 then do
          let b ← writeBit r 0
          pure (ForInStep.yield b)
        else pure (ForInStep.yield r) : Out Buffer) (fun b => C16.Inv b ∧ n ≤ b.len) := by
  refine Sat.forIn_range _ (fun b => C16.Inv b ∧ n ≤ b.len) 8 buf ⟨h, hn⟩ ?_
  rintro i _ b ⟨hb, hnb⟩
  split
  · obtain ⟨b', hw, hinv', habs, _, _⟩ := C16.writeBit_refines b hb 0
    rw [hw]
    refine ⟨hinv', ?_⟩
    rw [C16.len_eq b' hinv', habs, List.length_append, ← C16.len_eq b hb]
    omega
  · exact ⟨hb, hnb⟩

/-- the reading loop never panics when the counting mirror terminates, keeps the buffer invariant
and collects at least the counted number of bits -/
theorem micro_readLoop_sat (used img : Image) (f : Int → Int → Bool)
    (hf : ∀ x y, used.binaryAt x y = .ok (f x y))
    (hg : ∀ x y, Sat (img.binaryAt x y) (fun _ => True)) (w : Int) (dataBits : Nat) :
    ∀ (fuel : Nat) (s : Walk) (n m : Nat) (buf : Buffer),
      cntWalk f w fuel s n = some m → C16.Inv buf → n ≤ buf.len →
      Sat (Micro.readLoop used img w dataBits fuel s buf) (fun b => C16.Inv b ∧ m ≤ b.len) := by
  intro fuel
  induction fuel with
  | zero => intro s n m buf h; simp [cntWalk] at h
  | succ fuel ih =>
    intro s n m buf hcnt hinv hn
    rw [cntWalk] at hcnt
    rw [Micro.readLoop, hf]
    simp only [Out.bind_ok]
    simp only [] at hcnt
    refine Sat.bind (micro_readCell_sat img hg (f s.x s.y) s.x s.y buf hinv n hn) ?_
    rintro b1 ⟨hinv1, hn1⟩
    generalize (if f s.x s.y = true then n else n + 1) = n1 at hcnt hn1
    by_cases hx1 : s.x - 1 < 0
    · rw [if_pos hx1] at hcnt
      injection hcnt with hcnt
      subst hcnt
      rw [if_pos hx1]
      exact ⟨hinv1, hn1⟩
    · rw [if_neg hx1] at hcnt
      rw [if_neg hx1, hf]
      simp only [Out.bind_ok]
      refine Sat.bind (micro_readCell_sat img hg (f (s.x - 1) s.y) (s.x - 1) s.y b1 hinv1 n1 hn1) ?_
      rintro b2 ⟨hinv2, hn2⟩
      generalize (if f (s.x - 1) s.y = true then n1 else n1 + 1) = n2 at hcnt hn2
      generalize (if s.y + s.dy < 0 ∨ s.y + s.dy > w then (s.x - 1 + 1 - 2, s.y + s.dy + -s.dy, -s.dy)
          else (s.x - 1 + 1, s.y + s.dy, s.dy)) = t at hcnt ⊢
      obtain ⟨nx, ny, ndy⟩ := t
      simp only [] at hcnt ⊢
      by_cases hnx : nx < 0
      · rw [if_pos hnx] at hcnt
        injection hcnt with hcnt
        subst hcnt
        rw [if_pos hnx]
        exact ⟨hinv2, hn2⟩
      · rw [if_neg hnx] at hcnt
        rw [if_neg hnx]
        split
        · refine Sat.bind (micro_align_sat b2 hinv2 n2 hn2) ?_
          rintro b3 ⟨hinv3, hn3⟩
          exact ih _ _ _ b3 hcnt hinv3 hn3
        · exact ih _ _ _ b2 hcnt hinv2 hn2

/-! ### the tables of a (version, level) pair, by kernel evaluation -/

/-- the used-module bitmap of Micro QR version v as generated -/
def usedGenM (v : Nat) : Gen.GBmp := Gen.Micro.usedList[v]?.getD default

/-- is (x, y) a function module of Micro QR version v (white outside the symbol) -/
def usedFnM (v : Nat) : Int → Int → Bool := fnOf (usedGenM v).rows (usedGenM v).stride (9 + 2 * v)

/-- everything the decoder needs of a (version, level) pair of the symbol-number table: the version
is M1-M4, the function-module map exists with the geometry of the version, the capacity row exists,
the fuel of the reading loop suffices and the non-function modules fill the data codewords, and the
pair is one of the standard's -/
def microPairOK (v l : Nat) : Bool :=
  let g := usedGenM v
  decide (1 ≤ v) && decide (v ≤ 4) && (Gen.Micro.usedList[v]?).isSome &&
  (g.minX == 0 && g.minY == 0 && g.maxX == ((9 + 2 * v : Nat) : Int) && g.maxY == ((9 + 2 * v : Nat) : Int) &&
    g.stride == (9 + 2 * v + 7) / 8 && g.rows.length == 9 + 2 * v) &&
  (Spec.Valid.Micro.dataBits v l).isSome &&
  match (Gen.Micro.capacityTable[v]?.getD [])[l]? with
  | none => false
  | some c =>
    match cntWalk (fnOf g.rows g.stride (9 + 2 * v)) (8 + 2 * (v : Int)) ((11 + 2 * v) * (11 + 2 * v))
        { x := 8 + 2 * (v : Int), y := 8 + 2 * (v : Int), dy := -1 } 0 with
    | none => false
    | some n => decide (c.data ≤ (n + 7) / 8)

set_option maxRecDepth 100000 in
theorem micro_pairs_ok :
    Gen.Micro.rawFormatTable.all (fun p => decide (0 ≤ p.1) && decide (0 ≤ p.2) && microPairOK p.1.toNat p.2.toNat) = true := by
  decide +kernel

/-- a mask canvas: exists, origin (0, 0), at least 17 x 17 -/
def microMaskOK (m : Nat) : Bool :=
  match Gen.Micro.maskList[m]? with
  | none => false
  | some g => g.minX == 0 && g.minY == 0 && g.maxX == (g.maxX.toNat : Int) && g.maxY == (g.maxY.toNat : Int) &&
      g.stride == (g.maxX.toNat + 7) / 8 && g.rows.length == g.maxY.toNat &&
      decide (17 ≤ g.maxX.toNat) && decide (17 ≤ g.maxY.toNat)

theorem micro_masks_ok : (List.range 4).all microMaskOK = true := by decide +kernel

/-- mask canvases -/
theorem micro_mask_image (m : Nat) (hm : m < 4) :
    ∃ pat pw ph, imgAt Micro.maskList (m : Int) = .ok (some pat) ∧ Regular pat pw ph ∧ 17 ≤ pw ∧ 17 ≤ ph := by
  have h := forall_lt_of_all micro_masks_ok m hm
  unfold microMaskOK at h
  split at h
  · cases h
  · rename_i g hg
    simp only [Bool.and_eq_true, beq_iff_eq, decide_eq_true_eq] at h
    obtain ⟨⟨⟨⟨⟨⟨⟨h0, h1⟩, h2⟩, h3⟩, h4⟩, h5⟩, h6⟩, h7⟩ := h
    have hne : g.rows ≠ [] := by intro h; rw [h] at h5; simp at h5; omega
    exact ⟨Image.ofGen g, g.maxX.toNat, g.maxY.toNat, imgAt_ofGenList _ m g hg hne,
      ofGen_regular g _ _ h0 h1 h2 h3 h4 h5, h6, h7⟩

/-- the facts of a pair -/
theorem micro_pair_facts (v l : Nat) (h : microPairOK v l = true) :
    (1 ≤ v ∧ v ≤ 4) ∧
    imgAt Micro.usedList (v : Int) = .ok (some (Image.ofGen (usedGenM v))) ∧
    Regular (Image.ofGen (usedGenM v)) (9 + 2 * v) (9 + 2 * v) ∧
    (∀ x y, (Image.ofGen (usedGenM v)).binaryAt x y = .ok (usedFnM v x y)) ∧
    (Spec.Valid.Micro.dataBits v l).isSome ∧
    ∃ cap n, capAt Gen.Micro.capacityTable (v : Int) (l : Int) = .ok cap ∧
      cntWalk (usedFnM v) (8 + 2 * (v : Int)) ((11 + 2 * v) * (11 + 2 * v))
        { x := 8 + 2 * (v : Int), y := 8 + 2 * (v : Int), dy := -1 } 0 = some n ∧
      cap.data ≤ (n + 7) / 8 := by
  unfold microPairOK at h
  simp only [Bool.and_eq_true, beq_iff_eq, decide_eq_true_eq] at h
  obtain ⟨⟨⟨⟨⟨hv1, hv4⟩, hsome⟩, ⟨⟨⟨⟨⟨g0, g1⟩, g2⟩, g3⟩, g4⟩, g5⟩⟩, hpair⟩, hrow⟩ := h
  have hu : Gen.Micro.usedList[v]? = some (usedGenM v) := by
    unfold usedGenM
    cases hq : Gen.Micro.usedList[v]? with
    | none => rw [hq] at hsome; cases hsome
    | some g => rfl
  have hne : (usedGenM v).rows ≠ [] := by intro h; rw [h] at g5; simp at g5; omega
  have hru : Regular (Image.ofGen (usedGenM v)) (9 + 2 * v) (9 + 2 * v) :=
    ofGen_regular _ _ _ g0 g1 g2 g3 g4 g5
  refine ⟨⟨hv1, hv4⟩, imgAt_ofGenList _ v _ hu hne, hru, ?_, hpair, ?_⟩
  · intro x y
    rw [binaryAt_spec _ _ _ hru]
    congr 1
    unfold usedFnM fnOf
    by_cases hc : 0 ≤ x ∧ x < ((9 + 2 * v : Nat) : Int) ∧ 0 ≤ y ∧ y < ((9 + 2 * v : Nat) : Int)
    · rw [if_pos hc, decide_eq_true hc, Bool.true_and, ofGen_px]
      rw [g4]; omega
    · rw [if_neg hc, decide_eq_false hc, Bool.false_and]
  · split at hrow
    · cases hrow
    · rename_i c hc
      split at hrow
      · cases hrow
      · rename_i n hn
        refine ⟨c, n, ?_, hn, by simpa using hrow⟩
        unfold capAt
        rw [if_neg (by omega)]
        simp only [Int.toNat_natCast]
        cases hrow' : Gen.Micro.capacityTable[v]? with
        | none => rw [hrow'] at hc; simp at hc
        | some row =>
          rw [hrow'] at hc
          simp only [Option.getD_some] at hc
          simp only [hc]

end QRV.Lemmas.Dec
