import QRV.Lemmas.DecSeg
import QRV.Model.Micro
/-
C06/C07 — Micro QR: the segment loop of the decoder (`Model.Micro.segmentLoop`, Go: `decodeVersion1..4`)
on ARBITRARY codewords: it never panics, its fuel suffices (every iteration that continues consumes
the bits of a character count indicator, at least three), and every segment it returns has a mode
that exists in the version, bytes valid for the mode, a character count that fits the count
indicator, and is not one the loop itself would read as the terminator or drop.
-/
namespace QRV.Lemmas.Dec
open QRV QRV.Model.Bits QRV.Model.Codec QRV.Model.Sym QRV.Model.Utf8 QRV.Spec.Valid QRV.Lemmas.Kanji

/-- the four data decoders, by kind (0 numeric, 1 alphanumeric, 2 byte, 3 kanji) -/
def decodeData (k : Nat) (b : Buffer) (len : Nat) : Out (Buffer × List Nat) :=
  if k = 0 then decodeNumeric b len
  else if k = 1 then decodeAlphanumeric b len
  else if k = 2 then decodeBytes b len
  else decodeKanji b len

/-- the data part of a segment of `len` characters: no panic, only reads; the bytes are valid for
the kind and are exactly `len` characters -/
theorem decodeData_sat (k : Nat) (hk : k < 4) (b1 : Buffer) (hr : b1.read < 8) (len : Nat) :
    Sat (decodeData k b1 len) (fun p => After b1 p.1 ∧ ValidData k p.2 ∧ count k p.2 = len) := by
  unfold decodeData
  by_cases m1 : k = 0
  · subst m1
    rw [if_pos rfl]
    refine Sat.mono (P := fun p => After b1 p.1 ∧ p.2.length = len ∧ ∀ ch ∈ p.2, isNumeric ch = true) ?_ ?_
    · unfold decodeNumeric
      have hs := decodeNumeric_go_sat len b1 #[] hr
      cases e : decodeNumeric.go b1 #[] len with
      | ok p =>
        rw [e] at hs
        obtain ⟨f1, f2⟩ := Lemmas.Codec.decodeNumeric_go_sound len b1 #[] p.1 p.2 e
        exact ⟨hs, by simpa using f1, fun ch hch => (f2 ch hch).resolve_left (by simp)⟩
      | err m => exact trivial
      | panic m => rw [e] at hs; exact hs
    · rintro ⟨b2, data⟩ ⟨ha2, hl, hd⟩
      refine ⟨ha2, ⟨?_, ?_⟩, ?_⟩
      · intro x hx
        have := (Lemmas.Codec.isNumeric_iff x).1 (hd x hx); omega
      · intro x hx
        exact (Lemmas.Codec.isNumeric_iff x).1 (hd x hx)
      · simp only [count]; rw [if_neg (by decide)]; exact hl
  by_cases m2 : k = 1
  · subst m2
    rw [if_neg (by decide), if_pos rfl]
    refine Sat.mono (P := fun p => After b1 p.1 ∧ p.2.length = len ∧ ∀ ch ∈ p.2, isAlphanumeric ch = true) ?_ ?_
    · unfold decodeAlphanumeric
      have hs := decodeAlphanumeric_go_sat len b1 #[] hr
      cases e : decodeAlphanumeric.go b1 #[] len with
      | ok p =>
        rw [e] at hs
        obtain ⟨f1, f2⟩ := Lemmas.Codec.decodeAlphanumeric_go_sound len b1 #[] p.1 p.2 e
        exact ⟨hs, by simpa using f1, fun ch hch => (f2 ch hch).resolve_left (by simp)⟩
      | err m => exact trivial
      | panic m => rw [e] at hs; exact hs
    · rintro ⟨b2, data⟩ ⟨ha2, hl, hd⟩
      refine ⟨ha2, ⟨?_, ?_⟩, ?_⟩
      · intro x hx
        exact (alnum_valid x (hd x hx)).1
      · intro x hx
        exact (alnum_valid x (hd x hx)).2
      · simp only [count]; rw [if_neg (by decide)]; exact hl
  by_cases m4 : k = 2
  · subst m4
    rw [if_neg (by decide), if_neg (by decide), if_pos rfl]
    refine Sat.mono (decodeBytes_go_sat len b1 #[] hr) ?_
    rintro ⟨b2, data⟩ ⟨ha2, l, hl, hlt, he⟩
    dsimp only at he
    have he' : data = l := by simpa using he
    subst he'
    refine ⟨ha2, ⟨hlt, trivial⟩, ?_⟩
    simp only [count]; rw [if_neg (by decide)]; exact hl
  · have m8 : k = 3 := by omega
    subst m8
    rw [if_neg (by decide), if_neg (by decide), if_neg (by decide)]
    refine Sat.mono (decodeKanji_go_sat len b1 #[] hr) ?_
    rintro ⟨b2, data⟩ ⟨ha2, rs, hl, hrs, he⟩
    dsimp only at he
    have he' : data = rs.flatMap encodeRune := by simpa using he
    subst he'
    have hok : ∀ r ∈ rs, KanjiChar r ∧ runeOK r = true := by
      intro r hr
      obtain ⟨hr0, code, hc, hd⟩ := hrs r hr
      have href : refAt code = r := by
        rcases Lemmas.Codec.decode_cases code hc with ⟨_, h⟩ | ⟨h, _⟩
        · rw [h] at hd; exact Option.some.inj hd
        · rw [h] at hd; cases hd
      refine ⟨⟨hr0, code, hc, href⟩, ?_⟩
      have := kanji_runes_ok code hc
      rw [href] at this
      simpa [hr0] using this
    have hrunes := runes_flatMap rs (fun r hr => (hok r hr).2)
    refine ⟨ha2, ⟨?_, ?_, ?_⟩, ?_⟩
    · intro x hx
      obtain ⟨r, hr, hxr⟩ := List.mem_flatMap.mp hx
      exact (runeOK_decode r (hok r hr).2 []).2.2 x hxr
    · rw [hrunes]; exact fun r hr => (hok r hr).1
    · rw [hrunes]
    · simp only [count, ↓reduceIte]; rw [hrunes]; exact hl

/-! ### the count indicator widths of the model are the standard's -/

theorem micro_countBits_spec (mode : Nat) (version : Int) (h1 : 1 ≤ version) (h4 : version ≤ 4) (cb : Nat)
    (h : Model.Micro.countBits mode version = some cb) :
    mode < 4 ∧ Micro.countBits mode version.toNat = some cb ∧ 0 < cb ∧ cb ≤ 6 := by
  have hm : mode < 4 := by
    unfold Model.Micro.countBits Model.Micro.modeNumeric Model.Micro.modeAlphanumeric Model.Micro.modeBytes
      Model.Micro.modeKanji at h
    by_cases h0 : mode = 0
    · omega
    by_cases h1 : mode = 1
    · omega
    by_cases h2 : mode = 2
    · omega
    by_cases h3 : mode = 3
    · omega
    rw [if_neg h0, if_neg h1, if_neg h2, if_neg h3] at h
    cases h
  obtain ⟨v, rfl⟩ : ∃ v : Nat, version = (v : Int) := ⟨version.toNat, by omega⟩
  have hv1 : 1 ≤ v := by omega
  have hv4 : v ≤ 4 := by omega
  rw [Int.toNat_natCast]
  have key : ∀ m, m < 4 → ∀ v, 1 ≤ v → v ≤ 4 → ∀ cb, Model.Micro.countBits m ((v : Nat) : Int) = some cb →
      Micro.countBits m v = some cb ∧ 0 < cb ∧ cb ≤ 6 := by
    intro m hm v hv1 hv4
    match m, hm, v, hv1, hv4 with
    | 0, _, 1, _, _ => intro cb h; cases h; decide
    | 0, _, 2, _, _ => intro cb h; cases h; decide
    | 0, _, 3, _, _ => intro cb h; cases h; decide
    | 0, _, 4, _, _ => intro cb h; cases h; decide
    | 1, _, 1, _, _ => intro cb h; cases h
    | 1, _, 2, _, _ => intro cb h; cases h; decide
    | 1, _, 3, _, _ => intro cb h; cases h; decide
    | 1, _, 4, _, _ => intro cb h; cases h; decide
    | 2, _, 1, _, _ => intro cb h; cases h
    | 2, _, 2, _, _ => intro cb h; cases h
    | 2, _, 3, _, _ => intro cb h; cases h; decide
    | 2, _, 4, _, _ => intro cb h; cases h; decide
    | 3, _, 1, _, _ => intro cb h; cases h
    | 3, _, 2, _, _ => intro cb h; cases h
    | 3, _, 3, _, _ => intro cb h; cases h; decide
    | 3, _, 4, _, _ => intro cb h; cases h; decide
  exact ⟨hm, key mode hm v hv1 hv4 cb h⟩

theorem micro_modeBits_le (version : Int) : Model.Micro.modeBits version ≤ 3 := by
  unfold Model.Micro.modeBits
  split
  · decide
  · split
    · decide
    · split <;> decide

/-! ### segments -/

/-- a segment as `WellFormedMicro` wants it, for version `v` -/
def MSegOK (v : Nat) (s : Segment) : Prop :=
  (∃ k cb, Micro.kindOf s.mode = some k ∧ Micro.countBits k v = some cb ∧ ValidData k s.data ∧
    count k s.data < 2 ^ cb) ∧ (s.data = [] → s.mode ≠ 0 ∧ v ≠ 4)

/-- the segment loop: a fuel above the number of unread bits is never exhausted -/
theorem micro_segmentLoop_sat (version : Int) (h1 : 1 ≤ version) (h4 : version ≤ 4) (fuel : Nat) :
    ∀ (b : Buffer) (acc : Array Segment), b.read < 8 → rem b < fuel →
      (∀ s ∈ acc.toList, MSegOK version.toNat s) →
      Sat (Model.Micro.segmentLoop version fuel b acc) (fun segs => ∀ s ∈ segs, MSegOK version.toNat s) := by
  induction fuel with
  | zero => intro b acc _ h; omega
  | succ fuel ih =>
    intro b acc hr hrem hacc
    rw [Model.Micro.segmentLoop]
    dsimp only
    -- the mode indicator (none in M1)
    refine Sat.bind (P := fun p => After b p.1 ∧ (p.2 = none ∨ ∃ mode, p.2 = some mode)) ?_ ?_
    · split
      · exact Sat.pure ⟨After.refl b hr, .inr ⟨_, rfl⟩⟩
      · rcases readBits_cases b hr (Model.Micro.modeBits version) (by have := micro_modeBits_le version; omega)
          with ⟨e, _⟩ | ⟨b1, mode, e, ha, -, -⟩
        · rw [e]; exact ⟨After.refl b hr, .inl rfl⟩
        · rw [e]; exact ⟨ha, .inr ⟨_, rfl⟩⟩
    · rintro ⟨b1, modeO⟩ ⟨ha1, hmo⟩
      dsimp only at ha1 hmo ⊢
      rcases hmo with rfl | ⟨mode, rfl⟩
      · exact hacc
      · dsimp only
        cases hcb : Model.Micro.countBits mode version with
        | none => exact trivial
        | some cb =>
          dsimp only
          obtain ⟨hm4, hspec, hcb0, hcb6⟩ := micro_countBits_spec mode version h1 h4 cb hcb
          rcases readBits_cases b1 ha1.read cb (by omega) with ⟨e, _⟩ | ⟨b2, len, e, ha2, hlen, hlt⟩
          · rw [e]; exact hacc
          · rw [e]
            simp only [Out.bind_ok]
            have hlt' := hlt hcb0
            split
            · exact hacc
            · rename_i hterm
              have hdd : (if mode = Model.Micro.modeNumeric then decodeNumeric b2 len
                  else if mode = Model.Micro.modeAlphanumeric then decodeAlphanumeric b2 len
                  else if mode = Model.Micro.modeBytes then decodeBytes b2 len
                  else decodeKanji b2 len) = decodeData mode b2 len := rfl
              rw [hdd]
              refine Sat.bind (decodeData_sat mode hm4 b2 ha2.read len) ?_
              rintro ⟨b3, data⟩ ⟨ha3, hvd, hcnt⟩
              dsimp only at ha3 hvd hcnt ⊢
              have hrem3 : rem b3 < fuel := by
                have := ha1.rem; have := ha3.rem; omega
              split
              · exact ih b3 acc ha3.read hrem3 hacc
              · rename_i hkeep
                refine ih b3 _ ha3.read hrem3 ?_
                intro s hs
                rw [Array.toList_push, List.mem_append, List.mem_singleton] at hs
                rcases hs with hs | rfl
                · exact hacc s hs
                · refine ⟨⟨mode, cb, ?_, hspec, hvd, by rw [hcnt]; exact hlen⟩, ?_⟩
                  · show Micro.kindOf mode = some mode
                    unfold Micro.kindOf; rw [if_pos hm4]
                  · intro hempty
                    dsimp only at hempty
                    subst hempty
                    refine ⟨?_, ?_⟩
                    · intro hm0
                      dsimp only at hm0
                      apply hterm
                      refine ⟨hm0, ?_⟩
                      rw [← hcnt, hm0]; rfl
                    · intro hv4
                      apply hkeep
                      refine ⟨?_, rfl⟩
                      omega

end QRV.Lemmas.Dec
