import QRV.Model.QR
import QRV.Spec.Valid
import QRV.Spec.Tables
/-
C05 (too large), QR WITH kanji: the statement "a payload that fits version 40 as one byte segment is
not refused" is FALSE for `Model.QR.new level true` (and for the Go library: `qrcode.New` with the
default options).  The kanji programme `newKanjiSegs` minimises a cost in sixths of a bit in which a
numeric segment of one digit costs 20/6 bit, but the encoder spends 4 bits on it.  With kanji
characters of two UTF-8 bytes (saving 18 sixths each against byte mode) and three UTF-8 bytes
(saving 66 sixths) one can build kanji runs that save 174 and 180 sixths; a pair (kanji run,
one-digit numeric segment) costs 176 sixths of headers more than bytes.  Alternating the two runs,
the programme's cost stays 1/6 bit per pair BELOW the all-bytes cost, so the chain is chosen, while the
true length grows by 4/6 bit per pair above the programme's cost: the true length exceeds the
one-byte-segment length by about one bit per 37 bytes.

`kanjiCex dc` is the counterexample for a level with `dc` data codewords in version 40: `dc - 3` bytes.
Evaluated on the model (`lake env lean --run`, see the report) and on the Go library (`go test`):
  level value 0 (M, 2334): bits at version 40 = 18711 > capacity 18672, one byte segment 18668
  level value 1 (L, 2956): 23709 > 23648, one byte segment 23644
  level value 2 (H, 1276): 10224 > 10208, one byte segment 10204
  level value 3 (Q, 1666): 13354 > 13328, one byte segment 13324
and `Model.QR.new level true (kanjiCex dc) = .err "qrcode: data too large"` while
`Model.QR.new level false (kanjiCex dc)` returns version 40.  (Kernel evaluation of the programme on
1273 bytes did not finish in 10 minutes, so the refutation of the full statement is by `#eval`, not a
theorem; the hypotheses of the statement are checked below by the kernel, and so is a 10-byte payload
on which the chosen segmentation is already one bit longer than one byte segment.)
-/
namespace QRV.Lemmas.NewKanjiTooLargeCex
open QRV QRV.Model QRV.Model.Sym

/-- GREEK SMALL LETTER ALPHA, two UTF-8 bytes, Shift JIS 0x83BF -/
def k2 : List Nat := [0xCE, 0xB1]
/-- CJK 日, three UTF-8 bytes -/
def k3 : List Nat := [0xE6, 0x97, 0xA5]
/-- (7 kanji-mode characters, 15 bytes) "1" (10 kanji-mode characters, 20 bytes) "1": 37 bytes -/
def period : List Nat :=
  (List.replicate 6 k2).flatten ++ k3 ++ [0x31] ++ (List.replicate 10 k2).flatten ++ [0x31]

/-- the counterexample for a level with `dc` data codewords in version 40 -/
def kanjiCex (dc : Nat) : List Nat :=
  let n := dc - 3
  (List.replicate (n / 37) period).flatten ++ List.replicate (n % 37) 0x61

/-- the payloads satisfy the hypotheses of `qr_new_kanji_not_too_large` at the four levels -/
theorem kanjiCex_hyps : (List.range 4).all (fun l =>
    let d := kanjiCex (Spec.Tables.dataCodewords 40 l)
    Model.QR.levelIsValid (l : Int) && d.all (fun b => decide (b < 256)) &&
      decide (4 + 16 + 8 * d.length ≤ 8 * Spec.Tables.dataCodewords 40 l)) = true := by
  decide +kernel

/-- bit length at version 40 of the segmentation chosen by the kanji programme, minus the
one-byte-segment length, is at least `e` -/
def excessAtLeast (data : List Nat) (e : Nat) : Bool :=
  match Model.New.newKanjiSegs [0, 1, 2, 4, 8] data.toArray with
  | .ok segs => decide (4 + 16 + 8 * data.length + e ≤ (segs.map fun s => Spec.Valid.QR.segBits s 40).sum)
  | _ => false

/-- "A日日αA": the programme chooses alphanumeric(1) kanji(3) alphanumeric(1) = 101 bits at version 40;
one byte segment takes 100.  The analogue of `NewOptimal.newQR_total_le` is false for the kanji
programme. -/
theorem kanji_segmentation_longer_than_bytes :
    excessAtLeast ([0x41] ++ k3 ++ k3 ++ k2 ++ [0x41]) 1 = true := by
  decide +kernel

end QRV.Lemmas.NewKanjiTooLargeCex
