import QRV.Lemmas.GFField
import QRV.Lemmas.RSFinite
/-
The Reed–Solomon encoder (LFSR) of `QRV.Model.RS` computes the remainder modulo g_n: algebraic
lemmas about Horner evaluation over the model field, the bridge to the specification's `evalS`,
the one-step lemma of the LFSR and the invariants of `write`.  The finite facts come from
`RSFinite` (kernel evaluation), everything here is by induction from the ring laws of `GFField`.
-/
namespace QRV.Lemmas.RS
open QRV QRV.Model QRV.Model.GF QRV.Model.RS QRV.Spec.GF QRV.Spec.RS QRV.Lemmas.GF

/-- every byte of the list is a field element -/
abbrev AllEl (l : List Nat) : Prop := ∀ b ∈ l, b < 256

theorem AllEl.head {b : Nat} {l : List Nat} (h : AllEl (b :: l)) : El b := h b (List.mem_cons_self ..)
theorem AllEl.tail {b : Nat} {l : List Nat} (h : AllEl (b :: l)) : AllEl l :=
  fun x hx => h x (List.mem_cons_of_mem _ hx)

theorem allEl_append {u v : List Nat} (hu : AllEl u) (hv : AllEl v) : AllEl (u ++ v) := by
  intro b hb
  rcases List.mem_append.mp hb with h | h
  · exact hu b h
  · exact hv b h

theorem allEl_replicate_zero (n : Nat) : AllEl (List.replicate n 0) := by
  intro b hb
  rw [(List.mem_replicate.mp hb).2]; decide

/-! ### Horner evaluation continuing from an accumulator -/

/-- `Poly.eval` started from `acc` instead of 0 -/
def evalFrom (r acc : Nat) (p : List Nat) : Nat := p.foldl (fun ret b => add (mul ret r) b) acc

theorem eval_eq (p : List Nat) (r : Nat) : Poly.eval p r = evalFrom r 0 p := rfl

@[simp] theorem evalFrom_nil (r acc : Nat) : evalFrom r acc [] = acc := rfl

@[simp] theorem evalFrom_cons (r acc b : Nat) (p : List Nat) :
    evalFrom r acc (b :: p) = evalFrom r (add (mul acc r) b) p := rfl

theorem evalFrom_append (r acc : Nat) (p q : List Nat) :
    evalFrom r acc (p ++ q) = evalFrom r (evalFrom r acc p) q := by
  unfold evalFrom; exact List.foldl_append ..

theorem evalFrom_lt {r : Nat} (hr : El r) : ∀ (p : List Nat) (acc : Nat), El acc → AllEl p →
    El (evalFrom r acc p)
  | [], _, ha, _ => ha
  | b :: p, acc, ha, hp => by
    rw [evalFrom_cons]
    exact evalFrom_lt hr p _ (add_lt (mul_lt ha hr) hp.head) hp.tail

/-- r^k in the model field -/
def gpow (r : Nat) : Nat → Nat
  | 0 => 1
  | k + 1 => mul r (gpow r k)

theorem gpow_lt {r : Nat} (hr : El r) : ∀ k, El (gpow r k)
  | 0 => (by decide : (1 : Nat) < 256)
  | k + 1 => mul_lt hr (gpow_lt hr k)

theorem add4 (a b c d : Nat) : add (add a b) (add c d) = add (add a c) (add b d) := by
  unfold add; ac_rfl

/-- eval (acc·x^len + p) -/
theorem evalFrom_split {r : Nat} (hr : El r) : ∀ (p : List Nat) (acc : Nat), El acc → AllEl p →
    evalFrom r acc p = add (mul acc (gpow r p.length)) (evalFrom r 0 p)
  | [], acc, ha, _ => by
    rw [evalFrom_nil, evalFrom_nil, List.length_nil, gpow, mul_one ha, add_zero]
  | b :: p, acc, ha, hp => by
    have hb : El b := hp.head
    have hP := gpow_lt hr p.length
    rw [evalFrom_cons, evalFrom_cons, evalFrom_split hr p _ (add_lt (mul_lt ha hr) hb) hp.tail,
      zero_mul, zero_add, evalFrom_split hr p b hb hp.tail, List.length_cons, gpow,
      add_mul (mul_lt ha hr) hb hP, mul_assoc ha hr hP, add_assoc]

theorem evalFrom_replicate_zero (r : Nat) : ∀ n, evalFrom r 0 (List.replicate n 0) = 0
  | 0 => rfl
  | n + 1 => by
    rw [List.replicate_succ, evalFrom_cons, zero_mul, add_zero]
    exact evalFrom_replicate_zero r n

/-- additivity on lists of equal length -/
theorem evalFrom_zipWith_add {r : Nat} (hr : El r) : ∀ (u v : List Nat) (a a' : Nat),
    u.length = v.length → El a → El a' → AllEl u → AllEl v →
    evalFrom r (add a a') (List.zipWith add u v) = add (evalFrom r a u) (evalFrom r a' v)
  | [], [], _, _, _, _, _, _, _ => rfl
  | [], _ :: _, _, _, hl, _, _, _, _ => by simp at hl
  | _ :: _, [], _, _, hl, _, _, _, _ => by simp at hl
  | x :: u, y :: v, a, a', hl, ha, ha', hu, hv => by
    rw [List.zipWith_cons_cons, evalFrom_cons, evalFrom_cons, evalFrom_cons, add_mul ha ha' hr, add4]
    exact evalFrom_zipWith_add hr u v _ _ (by simpa using hl) (add_lt (mul_lt ha hr) hu.head)
      (add_lt (mul_lt ha' hr) hv.head) hu.tail hv.tail

/-- homogeneity -/
theorem evalFrom_map_mul {r c : Nat} (hr : El r) (hc : El c) : ∀ (u : List Nat) (a : Nat),
    El a → AllEl u → evalFrom r (mul c a) (u.map (mul c)) = mul c (evalFrom r a u)
  | [], _, _, _ => rfl
  | x :: u, a, ha, hu => by
    rw [List.map_cons, evalFrom_cons, evalFrom_cons, mul_assoc hc ha hr,
      ← mul_add hc (mul_lt ha hr) hu.head]
    exact evalFrom_map_mul hr hc u _ (add_lt (mul_lt ha hr) hu.head) hu.tail

theorem allEl_zipWith_add : ∀ (u v : List Nat), AllEl u → AllEl v → AllEl (List.zipWith add u v)
  | [], _, _, _ => by intro b hb; simp at hb
  | _ :: _, [], _, _ => by intro b hb; simp at hb
  | x :: u, y :: v, hu, hv => by
    intro b hb
    rw [List.zipWith_cons_cons, List.mem_cons] at hb
    rcases hb with rfl | hb
    · exact add_lt hu.head hv.head
    · exact allEl_zipWith_add u v hu.tail hv.tail b hb

theorem allEl_map_mul (c : Nat) (u : List Nat) : AllEl (u.map (mul c)) := by
  intro b hb
  obtain ⟨a, _, rfl⟩ := List.mem_map.mp hb
  unfold mul; split
  · decide
  · exact exp_lt _ (by omega)

theorem allEl_map_exp (t : List Nat) (ht : ∀ k ∈ t, k < 255) : AllEl (t.map expT) := by
  intro b hb
  obtain ⟨a, ha, rfl⟩ := List.mem_map.mp hb
  exact exp_lt a (by have := ht a ha; omega)

/-! ### bridge to the specification -/

theorem evalGo_eq {x : Nat} (hx : El x) : ∀ (p : List Nat) (acc : Nat), El acc → AllEl p →
    evalGo x acc p = evalFrom x acc p
  | [], _, _, _ => rfl
  | c :: cs, acc, ha, hp => by
    have h : El (add (mul acc x) c) := add_lt (mul_lt ha hx) hp.head
    rw [evalGo, strict_eq, evalFrom_cons]
    rw [mul_eq_smul acc ha x hx] at h ⊢
    exact evalGo_eq hx cs _ h hp.tail

theorem evalS_eq {x : Nat} (hx : El x) (p : List Nat) (hp : AllEl p) : evalS p x = Poly.eval p x :=
  evalGo_eq hx p 0 (by decide) hp

theorem pow2_lt : ∀ i, pow2 i < 256
  | 0 => by decide
  | i + 1 => xtime_lt _ (pow2_lt i)

/-! ### the finite facts, unpacked -/

theorem taps_facts (n : Nat) (h2 : 2 ≤ n) (h68 : n ≤ 68) :
    (tapsOf n).length = n ∧ (∀ k ∈ tapsOf n, k < 255) ∧
    ∀ i, i < n → evalS (1 :: (tapsOf n).map expT) (pow2 i) = 0 := by
  have h := gen_roots n h2 h68
  unfold rootsOK at h
  simp only [Bool.and_eq_true, beq_iff_eq, List.all_eq_true, List.mem_range, strict_eq,
    decide_eq_true_eq] at h
  exact ⟨h.1.1, h.1.2, h.2⟩

theorem gen_facts (n : Nat) (h2 : 2 ≤ n) (h68 : n ≤ 68) :
    tapsOf n = (genPoly n).tail.map logT ∧ (genPoly n).head? = some 1 ∧
    (genPoly n).length = n + 1 := by
  have h := taps_are_generator n h2 h68
  unfold tapsOK at h
  simp only [Bool.and_eq_true, beq_iff_eq] at h
  exact ⟨h.1.1.1, h.1.1.2, h.2⟩

/-- r is a root of x^len + Σ α^taps_j x^(len-1-j) -/
def IsRoot (taps : List Nat) (r : Nat) : Prop :=
  El r ∧ evalFrom r 0 (taps.map expT) = gpow r taps.length

theorem isRoot (n : Nat) (h2 : 2 ≤ n) (h68 : n ≤ 68) (i : Nat) (hi : i < n) :
    IsRoot (tapsOf n) (pow2 i) := by
  obtain ⟨_, ht, hroot⟩ := taps_facts n h2 h68
  have hr : El (pow2 i) := pow2_lt i
  have hT := allEl_map_exp _ ht
  have hg : AllEl (1 :: (tapsOf n).map expT) := by
    intro b hb
    rcases List.mem_cons.mp hb with rfl | hb
    · decide
    · exact hT b hb
  have h := hroot i hi
  rw [evalS_eq hr _ hg, eval_eq, evalFrom_cons, zero_mul, zero_add,
    evalFrom_split hr _ 1 (by decide) hT, one_mul (gpow_lt hr _), List.length_map,
    add_eq_zero_iff] at h
  exact ⟨hr, h.symm⟩

/-! ### one step of the LFSR -/

theorem addMulExpN_eq {c0 k : Nat} (nxt : Nat) (h0 : c0 ≠ 0) (hk : k < 255) :
    addMulExpN nxt (logT c0) k = add nxt (mul c0 (expT k)) := by
  unfold addMulExpN
  rw [mul_eq_exp h0 (exp_ne_zero k (by omega)), log_exp k hk]

theorem zipWith_taps {c0 : Nat} (h0 : c0 ≠ 0) : ∀ (l taps : List Nat), (∀ k ∈ taps, k < 255) →
    List.zipWith (fun nxt k => addMulExpN nxt (logT c0) k) l taps =
      List.zipWith add l ((taps.map expT).map (mul c0))
  | [], _, _ => by simp
  | _ :: _, [], _ => by simp
  | a :: l, k :: taps, ht => by
    rw [List.map_cons, List.map_cons, List.zipWith_cons_cons, List.zipWith_cons_cons,
      addMulExpN_eq a h0 (ht k (List.mem_cons_self ..)),
      zipWith_taps h0 l taps (fun z hz => ht z (List.mem_cons_of_mem _ hz))]

theorem step_zero (taps rest : List Nat) (b : Nat) : step taps (0 :: rest) b = rest ++ [b] := by
  simp [step]

theorem step_ne_zero {c0 : Nat} (h0 : c0 ≠ 0) (taps rest : List Nat) (b : Nat)
    (ht : ∀ k ∈ taps, k < 255) :
    step taps (c0 :: rest) b = List.zipWith add (rest ++ [b]) ((taps.map expT).map (mul c0)) := by
  rw [← zipWith_taps h0 _ _ ht]
  simp [step, h0]

theorem step_length {taps c : List Nat} (b : Nat) (hl : c.length = taps.length) :
    (step taps c b).length = c.length := by
  cases c with
  | nil => rfl
  | cons c0 rest =>
    by_cases h0 : c0 = 0
    · subst h0; rw [step_zero]; simp
    · simp only [step, h0, if_false, List.length_zipWith, List.length_append, List.length_cons,
        List.length_nil] at hl ⊢
      omega

theorem step_allEl {taps c : List Nat} {b : Nat} (ht : ∀ k ∈ taps, k < 255) (hc : AllEl c)
    (hb : El b) : AllEl (step taps c b) := by
  cases c with
  | nil => intro x hx; simp [step] at hx
  | cons c0 rest =>
    have hl : AllEl (rest ++ [b]) := allEl_append hc.tail (by intro x hx; simp at hx; omega)
    by_cases h0 : c0 = 0
    · subst h0; rw [step_zero]; exact hl
    · rw [step_ne_zero h0 _ _ _ ht]
      exact allEl_zipWith_add _ _ hl (allEl_map_mul _ _)

/-- at a root, one step multiplies the register's value by r and adds the new byte -/
theorem step_eval {taps c : List Nat} {b r : Nat} (ht : ∀ k ∈ taps, k < 255) (hroot : IsRoot taps r)
    (hlen : c.length = taps.length) (hne : c ≠ []) (hc : AllEl c) (hb : El b) :
    evalFrom r 0 (step taps c b) = add (mul (evalFrom r 0 c) r) b := by
  obtain ⟨hr, hroot⟩ := hroot
  cases c with
  | nil => exact absurd rfl hne
  | cons c0 rest =>
    have hc0 : El c0 := hc.head
    have hl : AllEl (rest ++ [b]) := allEl_append hc.tail (by intro x hx; simp at hx; omega)
    have hll : (rest ++ [b]).length = taps.length := by simpa using hlen
    have hT := allEl_map_exp _ ht
    -- right-hand side: eval of c0 :: (rest ++ [b])
    have hrhs : add (mul (evalFrom r 0 (c0 :: rest)) r) b =
        add (mul c0 (gpow r taps.length)) (evalFrom r 0 (rest ++ [b])) := by
      have h1 : add (mul (evalFrom r 0 (c0 :: rest)) r) b = evalFrom r 0 ((c0 :: rest) ++ [b]) := by
        rw [evalFrom_append, evalFrom_cons _ _ b, evalFrom_nil]
      rw [h1, List.cons_append, evalFrom_cons, zero_mul, zero_add, evalFrom_split hr _ c0 hc0 hl, hll]
    rw [hrhs]
    by_cases h0 : c0 = 0
    · subst h0; rw [step_zero, zero_mul, zero_add]
    · rw [step_ne_zero h0 _ _ _ ht]
      have h1 := evalFrom_zipWith_add hr (rest ++ [b]) (((taps.map expT).map (mul c0))) 0 0
        (by rw [hll]; simp) (by decide) (by decide) hl (allEl_map_mul _ _)
      have h2 := evalFrom_map_mul hr hc0 (taps.map expT) 0 (by decide) hT
      rw [mul_zero] at h2
      rw [add_zero] at h1
      rw [h1, h2, hroot, add_comm]

/-! ### the register under `write` -/

theorem write_nil (t c : List Nat) : write t c [] = c := rfl
theorem write_cons (t c : List Nat) (b : Nat) (p : List Nat) :
    write t c (b :: p) = write t (step t c b) p := rfl
theorem write_append (t c p q : List Nat) : write t c (p ++ q) = write t (write t c p) q := by
  unfold write; exact List.foldl_append ..

theorem write_length {t : List Nat} : ∀ (p c : List Nat), c.length = t.length →
    (write t c p).length = c.length
  | [], _, _ => rfl
  | b :: p, c, hl => by
    rw [write_cons, write_length p _ ((step_length b hl).trans hl), step_length b hl]

theorem write_allEl {t : List Nat} (ht : ∀ k ∈ t, k < 255) : ∀ (p c : List Nat), AllEl c → AllEl p →
    AllEl (write t c p)
  | [], _, hc, _ => hc
  | _ :: p, _, hc, hp => by
    rw [write_cons]; exact write_allEl ht p _ (step_allEl ht hc hp.head) hp.tail

/-- the register evaluates, at a root, like register ++ bytes written -/
theorem write_eval {t : List Nat} {r : Nat} (ht : ∀ k ∈ t, k < 255) (hroot : IsRoot t r)
    (hpos : t ≠ []) : ∀ (p c : List Nat), c.length = t.length → AllEl c → AllEl p →
    evalFrom r 0 (write t c p) = evalFrom r (evalFrom r 0 c) p
  | [], _, _, _, _ => rfl
  | b :: p, c, hl, hc, hp => by
    have hne : c ≠ [] := by
      intro h; subst h; exact hpos (List.eq_nil_of_length_eq_zero hl.symm)
    rw [write_cons, write_eval ht hroot hpos p _ ((step_length b hl).trans hl)
      (step_allEl ht hc hp.head) hp.tail, step_eval ht hroot hl hne hc hp.head, evalFrom_cons]

theorem write_zeros_zeros (t : List Nat) (n : Nat) : ∀ k,
    write t (List.replicate (n + 1) 0) (List.replicate k 0) = List.replicate (n + 1) 0
  | 0 => rfl
  | k + 1 => by
    have hs : step t (List.replicate (n + 1) 0) 0 = List.replicate (n + 1) 0 := by
      rw [List.replicate_succ, step_zero, ← List.replicate_succ, List.replicate_succ']
    rw [List.replicate_succ (n := k), write_cons, hs]
    exact write_zeros_zeros t n k

/-! ### the statements of C13 -/

theorem new_ok (n : Nat) (h2 : 2 ≤ n) (h68 : n ≤ 68) :
    RS.new n = .ok (tapsOf n, List.replicate n 0) := by
  unfold RS.new
  rw [coders_len]
  have h1 : ¬ ((n : Int) < 2) := by omega
  have h3 : ¬ ((n : Int) ≥ ((69 : Nat) : Int)) := by omega
  simp [h1]
  omega

theorem new_panics_iff (n : Int) : (RS.new n).isPanic = true ↔ (n < 2 ∨ n > 68) := by
  unfold RS.new
  rw [coders_len]
  by_cases h1 : n < 2
  · simp [h1, Out.isPanic]
  · by_cases h3 : n ≥ ((69 : Nat) : Int)
    · simp only [h1, h3, if_true, if_false, Out.isPanic, true_iff]; omega
    · simp only [h1, h3, if_false, Out.isPanic]
      constructor
      · intro h; cases h
      · intro h
        rcases h with h | h
        · exact h.elim
        · omega

theorem write_chunks (t c : List Nat) (chunks : List (List Nat)) :
    write t c chunks.flatten = chunks.foldl (write t) c := by
  induction chunks generalizing c with
  | nil => rfl
  | cons x xs ih => rw [List.flatten_cons, write_append, List.foldl_cons, ih]

theorem leading_zeros (n k : Nat) (h2 : 2 ≤ n) (t msg : List Nat) :
    write t (List.replicate n 0) (List.replicate k 0 ++ msg) = write t (List.replicate n 0) msg := by
  obtain ⟨m, rfl⟩ : ∃ m, n = m + 1 := ⟨n - 1, by omega⟩
  rw [write_append, write_zeros_zeros]

theorem lfsr_invariant (n : Nat) (h2 : 2 ≤ n) (h68 : n ≤ 68) (msg : List Nat) (hm : AllEl msg)
    (i : Nat) (hi : i < n) :
    Poly.eval (write (tapsOf n) (List.replicate n 0) msg) (pow2 i) = Poly.eval msg (pow2 i) := by
  obtain ⟨hlen, ht, _⟩ := taps_facts n h2 h68
  have hpos : tapsOf n ≠ [] := by intro h; rw [h] at hlen; simp at hlen; omega
  rw [eval_eq, eval_eq, write_eval ht (isRoot n h2 h68 i hi) hpos msg _ (by simp [hlen])
    (allEl_replicate_zero n) hm, evalFrom_replicate_zero]

theorem parity_eq (n : Nat) (h2 : 2 ≤ n) (h68 : n ≤ 68) (msg : List Nat) :
    RS.parity n msg = .ok (write (tapsOf n) (write (tapsOf n) (List.replicate n 0) msg)
      (List.replicate n 0)) := by
  obtain ⟨hlen, _, _⟩ := taps_facts n h2 h68
  have hl : (write (tapsOf n) (List.replicate n 0) msg).length = n := by
    rw [write_length msg _ (by simp [hlen])]; simp
  unfold RS.parity
  rw [new_ok n h2 h68]
  simp only [Out.bind_ok, RS.sum, write_nil, hl]
  rfl

theorem parity_is_codeword (n : Nat) (h2 : 2 ≤ n) (h68 : n ≤ 68) (msg : List Nat) (hm : AllEl msg) :
    ∃ par, RS.parity n msg = .ok par ∧ par.length = n ∧ AllEl par ∧
      ∀ i, i < n → Poly.eval (msg ++ par) (pow2 i) = 0 := by
  obtain ⟨hlen, ht, _⟩ := taps_facts n h2 h68
  have hpos : tapsOf n ≠ [] := by intro h; rw [h] at hlen; simp at hlen; omega
  have hz := allEl_replicate_zero n
  have hzl : (List.replicate n 0).length = (tapsOf n).length := by simp [hlen]
  have hc1 := write_allEl ht msg _ hz hm
  have hl1 : (write (tapsOf n) (List.replicate n 0) msg).length = (tapsOf n).length :=
    (write_length msg _ hzl).trans hzl
  have hpar := write_allEl ht (List.replicate n 0) _ hc1 hz
  have hlp : (write (tapsOf n) (write (tapsOf n) (List.replicate n 0) msg)
      (List.replicate n 0)).length = n := by
    rw [write_length _ _ hl1, hl1, hlen]
  refine ⟨_, parity_eq n h2 h68 msg, hlp, hpar, ?_⟩
  intro i hi
  have hroot := isRoot n h2 h68 i hi
  have hr : El (pow2 i) := hroot.1
  have hv : El (evalFrom (pow2 i) 0 msg) := evalFrom_lt hr msg 0 (by decide) hm
  have hinv := lfsr_invariant n h2 h68 msg hm i hi
  rw [eval_eq, eval_eq] at hinv
  rw [eval_eq, evalFrom_append, evalFrom_split hr _ _ hv hpar, hlp,
    write_eval ht hroot hpos _ _ hl1 hc1 hz, hinv, evalFrom_split hr _ _ hv hz,
    evalFrom_replicate_zero, add_zero, List.length_replicate, add_self]

end QRV.Lemmas.RS
