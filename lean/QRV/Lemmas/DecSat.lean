import QRV.Model.Basic
/-
C06/C07 — a small Hoare-style predicate over `Out`: `Sat x P` says that `x` does not panic and
that, if it returns a value, the value satisfies `P` (an error outcome satisfies every `P`).
-/
namespace QRV.Lemmas.Dec
open QRV

/-- no panic; a returned value satisfies `P` -/
def Sat {α : Type} (x : Out α) (P : α → Prop) : Prop :=
  match x with
  | .ok a => P a
  | .err _ => True
  | .panic _ => False

theorem Sat.ok {α : Type} {a : α} {P : α → Prop} (h : P a) : Sat (Out.ok a) P := h
theorem Sat.pure {α : Type} {a : α} {P : α → Prop} (h : P a) : Sat (pure a : Out α) P := h
theorem Sat.err {α : Type} {m : String} {P : α → Prop} : Sat (Out.err m : Out α) P := trivial

theorem Sat.bind {α β : Type} {x : Out α} {f : α → Out β} {P : α → Prop} {Q : β → Prop}
    (hx : Sat x P) (hf : ∀ a, P a → Sat (f a) Q) : Sat (x >>= f) Q := by
  cases x with
  | ok a => exact hf a hx
  | err m => exact trivial
  | panic m => exact hx

theorem Sat.mono {α : Type} {x : Out α} {P Q : α → Prop} (hx : Sat x P) (h : ∀ a, P a → Q a) : Sat x Q := by
  cases x with
  | ok a => exact h a hx
  | err m => exact trivial
  | panic m => exact hx

theorem Sat.of_eq_ok {α : Type} {x : Out α} {a : α} {P : α → Prop} (e : x = .ok a) (h : P a) : Sat x P := by
  rw [e]; exact h

theorem Sat.not_panic {α : Type} {x : Out α} {P : α → Prop} (hx : Sat x P) : x.isPanic = false := by
  cases x with
  | ok a => rfl
  | err m => rfl
  | panic m => exact hx.elim

theorem Sat.of_ok {α : Type} {x : Out α} {P : α → Prop} {a : α} (hx : Sat x P) (e : x = .ok a) : P a := by
  rw [e] at hx; exact hx

theorem Sat.and {α : Type} {x : Out α} {P Q : α → Prop} (h1 : Sat x P) (h2 : Sat x Q) :
    Sat x (fun a => P a ∧ Q a) := by
  cases x with
  | ok a => exact ⟨h1, h2⟩
  | err m => exact trivial
  | panic m => exact h1

/-- `if c then .err m` as a statement of a `do` block -/
theorem Sat.guard_err {c : Prop} [Decidable c] {m : String} :
    Sat (if c then Out.err (α := Unit) m else Pure.pure ()) (fun _ => ¬ c) := by
  split
  · exact trivial
  · assumption

/-- `if c then .panic m` as a statement of a `do` block, when `c` is false -/
theorem Sat.guard_panic {c : Prop} [Decidable c] {m : String} (h : ¬ c) :
    Sat (if c then Out.panic (α := Unit) m else Pure.pure ()) (fun _ => True) := by
  rw [if_neg h]; exact trivial

/-- invariant rule for `for a in l` -/
theorem Sat.forIn_list {α β : Type} (f : α → β → Out (ForInStep β)) (I : β → Prop) (l : List α) :
    ∀ (init : β), I init →
      (∀ a ∈ l, ∀ b, I b → Sat (f a b) (fun r => match r with | .yield b' => I b' | .done b' => I b')) →
      Sat (forIn l init f) I := by
  induction l with
  | nil => intro init h0 _; exact h0
  | cons a l ih =>
    intro init h0 hstep
    rw [List.forIn_cons]
    refine Sat.bind (hstep a (List.mem_cons_self ..) init h0) ?_
    intro r hr
    cases r with
    | done b' => exact hr
    | yield b' => exact ih b' hr (fun a' ha' => hstep a' (List.mem_cons_of_mem _ ha'))

/-- invariant rule for `for i in [:n]` -/
theorem Sat.forIn_range {β : Type} (f : Nat → β → Out (ForInStep β)) (I : β → Prop) (n : Nat)
    (init : β) (h0 : I init)
    (hstep : ∀ i, i < n → ∀ b, I b → Sat (f i b) (fun r => match r with | .yield b' => I b' | .done b' => I b')) :
    Sat (forIn [:n] init f) I := by
  have e : forIn [:n] init f = forIn (List.range' 0 n) init f := by
    simp only [Std.Legacy.Range.forIn_eq_forIn_range', Std.Legacy.Range.size]
    rw [show (n - 0 + 1 - 1) / 1 = n by simp]
  rw [e]
  refine Sat.forIn_list f I _ init h0 (fun i hi => hstep i ?_)
  simp only [List.mem_range'_1] at hi
  omega

end QRV.Lemmas.Dec
