import QRV.Lemmas.SymEncode
import QRV.Props.C14Complete
/-
The specification `Spec.Symbol.QR.IsSymbol` determines the symbol: the data codewords of the blocks
are fixed by the stream and the shapes, the error correction codewords by the Reed-Solomon codeword
condition (two codewords of the e-parity code that agree on the data part differ in at most e
positions, fewer than the minimum distance e + 1 of `C14.code_min_distance`).
-/
open QRV QRV.Model QRV.Model.Sym QRV.Props QRV.Spec.Bits QRV.Spec.Valid
open QRV.Lemmas.RT QRV.Spec.Symbol.QR
namespace QRV.Lemmas.SymUnique

theorem dist_append_le (a p p' : List Nat) : C14.dist (a ++ p) (a ++ p') ≤ p.length := by
  unfold C14.dist
  rw [List.zip_append rfl, List.filter_append, List.length_append]
  have h1 : ((a.zip a).filter fun q => q.1 != q.2) = [] := by
    rw [List.filter_eq_nil_iff]
    intro q hq
    have : q.1 = q.2 := by
      clear p p'
      induction a with
      | nil => simp at hq
      | cons x a ih =>
        rw [List.zip_cons_cons, List.mem_cons] at hq
        rcases hq with rfl | hq
        · rfl
        · exact ih hq
    simp [this]
  rw [h1]
  have h2 := List.length_filter_le (fun q : Nat × Nat => q.1 != q.2) (p.zip p')
  have h3 : (p.zip p').length ≤ p.length := by rw [List.length_zip]; omega
  simp only [List.length_nil, Nat.zero_add]
  omega

/-- the parity of a block is determined by its data and the codeword condition -/
theorem parity_unique (e : Nat) (h2 : 2 ≤ e) (h68 : e ≤ 68) (d p p' : List Nat)
    (hd : ∀ x ∈ d, x < 256) (hp : ∀ x ∈ p, x < 256) (hp' : ∀ x ∈ p', x < 256)
    (hl : p.length = e) (hl' : p'.length = e) (hL : d.length + e ≤ 255)
    (hz : ∀ i, i < e → Spec.RS.evalS (d ++ p) (Spec.GF.pow2 i) = 0)
    (hz' : ∀ i, i < e → Spec.RS.evalS (d ++ p') (Spec.GF.pow2 i) = 0) : p = p' := by
  have hb : C14.Bytes (d ++ p) := by
    intro x hx
    rcases List.mem_append.1 hx with h | h
    · exact hd x h
    · exact hp x h
  have hb' : C14.Bytes (d ++ p') := by
    intro x hx
    rcases List.mem_append.1 hx with h | h
    · exact hd x h
    · exact hp' x h
  have hcw : ∀ (w : List Nat), C14.Bytes w → (∀ i, i < e → Spec.RS.evalS w (Spec.GF.pow2 i) = 0) → C14.Codeword e w := by
    intro w hw hz i hi
    rw [Nat.mod_eq_of_lt (by omega), Lemmas.GF.exp_eq_pow2 i (by omega),
      ← Lemmas.RS.evalS_eq (Lemmas.RS.pow2_lt i) w hw]
    exact hz i hi
  by_cases hne : d ++ p = d ++ p'
  · exact List.append_cancel_left hne
  · exfalso
    have := C14.code_min_distance e (d ++ p) (d ++ p') (by omega) hb hb'
      (by rw [List.length_append, List.length_append, hl, hl'])
      (by rw [List.length_append, hl]; exact hL) (hcw _ hb hz) (hcw _ hb' hz') hne
    have := dist_append_le d p p'
    omega

/-- blocks with the same shapes, the same concatenated data and pairwise determined parity are equal -/
theorem blocks_eq : ∀ (blks blks' : List (List Nat × List Nat)),
    blks.map (fun b => (b.1.length, b.2.length)) = blks'.map (fun b => (b.1.length, b.2.length)) →
    blks.flatMap (·.1) = blks'.flatMap (·.1) →
    (∀ b ∈ blks, ∀ b' ∈ blks', b.1 = b'.1 → b.2.length = b'.2.length → b.2 = b'.2) →
    blks = blks' := by
  intro blks
  induction blks with
  | nil =>
    intro blks' hs _ _
    cases blks' with
    | nil => rfl
    | cons _ _ => simp at hs
  | cons b bs ih =>
    intro blks' hs hf hP
    cases blks' with
    | nil => simp at hs
    | cons b' bs' =>
      simp only [List.map_cons, List.cons.injEq, Prod.mk.injEq] at hs
      obtain ⟨⟨hl1, hl2⟩, hs'⟩ := hs
      simp only [List.flatMap_cons] at hf
      obtain ⟨hd, hrest⟩ := List.append_inj hf hl1
      have h2 := hP b (List.mem_cons_self ..) b' (List.mem_cons_self ..) hd hl2
      have hb : b = b' := Prod.ext hd h2
      rw [hb, ih bs' hs' hrest (fun c hc c' hc' => hP c (List.mem_cons_of_mem _ hc) c' (List.mem_cons_of_mem _ hc'))]

theorem unpack_inj (a b : List Nat) (ha : ∀ x ∈ a, x < 256) (hb : ∀ x ∈ b, x < 256) (h : unpack a = unpack b) : a = b := by
  rw [← Lemmas.Bits.pack_unpack a ha, ← Lemmas.Bits.pack_unpack b hb, h]

theorem symbol_unique (v l : Nat) (mask : Int) (segments : List Segment)
    (hv : QR.Valid { version := v, level := l, mask := mask, segments := segments }) (m : Nat) (px px' : Nat → Nat → Bool)
    (h : IsSymbol { version := v, level := l, mask := mask, segments := segments } m px)
    (h' : IsSymbol { version := v, level := l, mask := mask, segments := segments } m px') :
    ∀ x y, x < 17 + 4 * v → y < 17 + 4 * v → px x y = px' x y := by
  obtain ⟨⟨hv1, hv40⟩, ⟨hl0, hl4⟩, -, -, -⟩ := hv
  simp only at hv1 hv40 hl0 hl4
  have h1 : 1 ≤ v := by omega
  have h40 : v ≤ 40 := by omega
  have hl : l < 4 := by omega
  obtain ⟨cap, -, hcapTbl, -, -, hgroups⟩ := capAt_valid v l h1 h40 hl
  have hshapes := SymEncode.shapes_of_cap v l cap hgroups
  have hsz : Spec.Patterns.QR.size v = 17 + 4 * v := rfl
  simp only [IsSymbol, Int.toNat_natCast, hsz] at h h'
  obtain ⟨blks, hs, hb, hst, hrs, hpx⟩ := h
  obtain ⟨blks', hs', hb', hst', hrs', hpx'⟩ := h'
  have hflat : blks.flatMap (·.1) = blks'.flatMap (·.1) := by
    apply unpack_inj
    · intro x hx
      obtain ⟨b, hbm, hxb⟩ := List.mem_flatMap.1 hx
      exact (hb b hbm).1 x hxb
    · intro x hx
      obtain ⟨b, hbm, hxb⟩ := List.mem_flatMap.1 hx
      exact (hb' b hbm).1 x hxb
    · rw [hst, hst']
  have heq : blks = blks' := by
    refine blocks_eq blks blks' (by rw [hs, hs']) hflat ?_
    intro b hbm b' hbm' hd hl2
    have hmem : (b.1.length, b.2.length) ∈ sizesOf cap.blocks := by
      rw [hshapes, ← hs]; exact List.mem_map_of_mem (f := fun b => (b.1.length, b.2.length)) hbm
    obtain ⟨e2, e68, eL⟩ := SymEncode.shape_bounds v l h1 cap hcapTbl _ hmem
    simp only at e2 e68 eL
    refine parity_unique b.2.length e2 e68 b.1 b.2 b'.2 (hb b hbm).1 (hb b hbm).2 (hb' b' hbm').2 rfl hl2.symm eL
      (hrs b hbm) ?_
    intro i hi
    rw [hd]
    exact hrs' b' hbm' i (by omega)
  subst heq
  intro x y hx hy
  rw [hpx x y hx hy, hpx' x y hx hy]

end QRV.Lemmas.SymUnique
