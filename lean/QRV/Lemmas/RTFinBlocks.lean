import QRV.GenTypes
import QRV.Gen.QR
import QRV.Lemmas.Finite
/-
Kernel-evaluated facts about the block structure of the 160 rows of `Gen.QR.capacityTable`
(used by `QRV/Lemmas/RTBlocks.lean`): every row has one block group, or two groups where the
second has `total` and `data` exactly one larger than the first; 2 ≤ total - data ≤ 68; the
groups add up to the row's `data` / `total`.
-/
namespace QRV.Lemmas.RT
open QRV QRV.Lemmas

set_option maxRecDepth 1000000

/-- one block group is sane: at least one block, data ≤ total, 2 ≤ total - data ≤ 68 -/
def groupOK (b : Gen.GBlock) : Bool :=
  decide (1 ≤ b.num) && decide (b.data ≤ b.total) && decide (2 ≤ b.total - b.data) &&
    decide (b.total - b.data ≤ 68)

/-- the shape of the block list of a capacity row -/
def capShapeOK (c : Gen.GCap) : Bool :=
  match c.blocks with
  | [b] => groupOK b && b.num * b.data == c.data && b.num * b.total == c.total
  | [b1, b2] =>
    groupOK b1 && groupOK b2 && b2.total == b1.total + 1 && b2.data == b1.data + 1 &&
      b1.num * b1.data + b2.num * b2.data == c.data &&
      b1.num * b1.total + b2.num * b2.total == c.total
  | _ => false

def rowShapeOK (v l : Nat) : Bool :=
  match (Gen.QR.capacityTable[v]?.getD [])[l]? with
  | none => false
  | some c => capShapeOK c

theorem qr_block_shape_rows :
    (List.range 41).all (fun v => v == 0 || (List.range 4).all (rowShapeOK v)) = true := by
  decide +kernel

theorem qr_block_shape (v l : Nat) (h1 : 1 ≤ v) (h40 : v ≤ 40) (hl : l < 4) :
    rowShapeOK v l = true := by
  have h := forall_lt_of_all qr_block_shape_rows v (by omega)
  simp only [Bool.or_eq_true, beq_iff_eq] at h
  rcases h with h | h
  · omega
  · exact forall_lt_of_all h l hl

theorem cap_shape (v l : Nat) (h1 : 1 ≤ v) (h40 : v ≤ 40) (hl : l < 4) (cap : Gen.GCap)
    (hcap : (Gen.QR.capacityTable[v]?.getD [])[l]? = some cap) : capShapeOK cap = true := by
  have h := qr_block_shape v l h1 h40 hl
  unfold rowShapeOK at h
  rw [hcap] at h
  exact h

end QRV.Lemmas.RT
