import QRV.Props.C07Overfull
import QRV.Props.C07OverfullExt
import QRV.Lemmas.DecUtf8
/-
C06 — the bytes a decoder returns are fewer than the bitmap has modules.  Ingredients: every segment has at most as
many bytes as its standard bit length (a kanji-mode character is at most three bytes of UTF-8: `Dec.kanji_runes_ok`,
all 8,192 codes); the description exceeds the data codewords by less than one read group (C07Overfull); and the data
codewords plus one read group are fewer bits than the symbol has modules (kernel evaluation over the capacity tables:
160 QR pairs, 8 Micro QR pairs, 64 rMQR pairs).
-/
namespace QRV.Lemmas.DecOutput
open QRV QRV.Model QRV.Model.Sym QRV.Model.Bitmap QRV.Spec.Valid QRV.Lemmas.Kanji

set_option maxRecDepth 1000000

/-! ### bytes ≤ bits, per segment -/

/-- a kanji-mode character is at most three bytes of UTF-8 -/
theorem kanjiChar_len (r : Nat) (h : KanjiChar r) : (Utf8.encodeRune r).length ≤ 3 := by
  obtain ⟨h0, code, hc, rfl⟩ := h
  have hk := Dec.kanji_runes_ok code hc
  have hz : (refAt code == 0) = false := by simpa using h0
  rw [hz, Bool.false_or] at hk
  unfold Dec.runeOK at hk
  simp only [Bool.and_eq_true, Bool.or_eq_true, beq_iff_eq] at hk
  obtain ⟨_, ⟨hl, _⟩ | ⟨hl, _⟩⟩ := hk <;> omega

theorem flatMap_len_le (rs : List Nat) (h : ∀ r ∈ rs, KanjiChar r) :
    (rs.flatMap Utf8.encodeRune).length ≤ 3 * rs.length := by
  induction rs with
  | nil => simp
  | cons r rs ih =>
    have h1 := kanjiChar_len r (h r (List.mem_cons_self ..))
    have h2 := ih (fun x hx => h x (List.mem_cons_of_mem _ hx))
    rw [List.flatMap_cons, List.length_append, List.length_cons]
    omega

/-- valid data of any kind has at most as many bytes as its body has bits -/
theorem len_le_bodyBits (k : Nat) (data : List Nat) (hv : ValidData k data) :
    data.length ≤ bodyBits k (count k data) := by
  match k, hv with
  | 0, _ =>
    have e : count 0 data = data.length := rfl
    rw [e]
    show data.length ≤ 10 * (data.length / 3) + _
    split
    · omega
    · split <;> omega
  | 1, _ =>
    have e : count 1 data = data.length := rfl
    rw [e]
    show data.length ≤ 11 * (data.length / 2) + 6 * (data.length % 2)
    omega
  | 2, _ =>
    have e : count 2 data = data.length := rfl
    rw [e]
    show data.length ≤ 8 * data.length
    omega
  | 3, hv =>
    obtain ⟨_, hr, he⟩ := hv
    show data.length ≤ 13 * (Utf8.runes data).length
    have := flatMap_len_le _ hr
    rw [he] at this
    omega
  | k + 4, _ =>
    show data.length ≤ 13 * (if k + 4 = 3 then _ else data.length)
    rw [if_neg (by omega)]
    omega

theorem sum_map_le {α : Type} (f g : α → Nat) (l : List α) (h : ∀ x ∈ l, f x ≤ g x) :
    (l.map f).sum ≤ (l.map g).sum := by
  induction l with
  | nil => simp
  | cons a l ih =>
    have h1 := h a (List.mem_cons_self ..)
    have h2 := ih (fun x hx => h x (List.mem_cons_of_mem _ hx))
    simp only [List.map_cons, List.sum_cons]
    omega

theorem getLast?_none_nil {α : Type} (l : List α) (h : l.getLast? = none) : l = [] := by
  simpa using h

/-- width of a final character group -/
theorem finalGroupBits_le (k n : Nat) : Props.C07.finalGroupBits k n ≤ 13 := by
  unfold Props.C07.finalGroupBits
  split
  · split
    · omega
    · split <;> omega
  · split <;> omega
  · omega
  · omega

/-! ### QR -/

theorem qr_countBits_le (k v : Nat) : Spec.Valid.QR.countBits k v ≤ 16 := by
  unfold Spec.Valid.QR.countBits
  by_cases a : v < 10
  · match k with
    | 0 => simp [a]
    | 1 => simp [a]
    | 2 => simp [a]
    | _ + 3 => simp [a]
  · by_cases b : v < 27
    · match k with
      | 0 => simp [a, b]
      | 1 => simp [a, b]
      | 2 => simp [a, b]
      | _ + 3 => simp [a, b]
    · match k with
      | 0 => simp [a, b]
      | 1 => simp [a, b]
      | 2 => simp [a, b]
      | _ + 3 => simp [a, b]

theorem qr_lastGroupBits_le (s : Segment) (v : Nat) : Props.C07.lastGroupBits s v ≤ 16 := by
  unfold Props.C07.lastGroupBits
  cases Spec.Valid.QR.kindOf s.mode with
  | none => exact Nat.zero_le _
  | some k =>
    dsimp only
    split
    · exact qr_countBits_le k v
    · have := finalGroupBits_le k (count k s.data)
      exact Nat.le_trans this (by omega)

/-- the data codewords and one read group are fewer bits than the symbol has modules: all 160 (version, level) pairs -/
def qrFits (v l : Nat) : Bool :=
  decide (8 * Spec.Tables.dataCodewords v l + 16 < (17 + 4 * v) * (17 + 4 * v))

theorem qr_fits : ∀ v, v < 41 → ∀ l, l < 4 → qrFits v l = true :=
  forall_lt_of_all₂ (by decide +kernel)

theorem qr_output_bounded (img : Image) (hw : Props.C06.WellFormed img) (q : QRCode)
    (h : Model.QR.decodeBitmap img = .ok q) :
    (q.segments.map fun s => s.data.length).sum < img.dx.toNat * img.dy.toNat := by
  obtain ⟨wf, hx, hy⟩ := Props.C07.qr_decoded_wf img hw q h
  have hv := wf.version
  have hl := wf.level
  have ex : img.dx.toNat = 17 + 4 * q.version.toNat := by omega
  have ey : img.dy.toNat = 17 + 4 * q.version.toNat := by omega
  rw [ex, ey]
  have hfit := qr_fits q.version.toNat (by omega) q.level.toNat (by omega)
  unfold qrFits at hfit
  have hfit := of_decide_eq_true hfit
  cases hs : q.segments.getLast? with
  | none =>
    rw [getLast?_none_nil _ hs]
    show 0 < _
    omega
  | some s =>
    have hb := Props.C07.qr_decoded_overfull_within_last_group img hw q h s hs
    have hg := qr_lastGroupBits_le s q.version.toNat
    have hle := sum_map_le (fun s : Segment => s.data.length) (fun t => Spec.Valid.QR.segBits t q.version.toNat) q.segments
      (fun t ht => by
        obtain ⟨k, ek, hd, _⟩ := wf.segments t ht
        show t.data.length ≤ Spec.Valid.QR.segBits t q.version.toNat
        unfold Spec.Valid.QR.segBits
        rw [ek]
        have := len_le_bodyBits k t.data hd
        show _ ≤ 4 + _ + _
        omega)
    omega

/-! ### Micro QR -/

theorem micro_countBits_le (k v : Nat) : (Spec.Valid.Micro.countBits k v).getD 0 ≤ 13 := by
  unfold Spec.Valid.Micro.countBits
  split <;> simp

theorem micro_lastGroupBits_le (s : Segment) (v : Nat) : Props.C07.microLastGroupBits s v ≤ 13 := by
  unfold Props.C07.microLastGroupBits
  cases Spec.Valid.Micro.kindOf s.mode with
  | none => exact Nat.zero_le _
  | some k =>
    dsimp only
    split
    · exact micro_countBits_le k v
    · exact finalGroupBits_le k _

theorem lookup_mem {α β : Type} [BEq α] [LawfulBEq α] (l : List (α × β)) (k : α) (r : β)
    (h : l.lookup k = some r) : (k, r) ∈ l := by
  induction l with
  | nil => simp at h
  | cons a l ih =>
    obtain ⟨a1, a2⟩ := a
    rw [List.lookup_cons] at h
    by_cases e : k == a1
    · rw [e] at h
      have := eq_of_beq e
      simp only [Option.some.injEq] at h
      subst this; subst h
      exact List.mem_cons_self ..
    · have e' : (k == a1) = false := by simpa using e
      rw [e'] at h
      exact List.mem_cons_of_mem _ (ih h)

/-- the data codewords (final half codeword of M1 / M3 counted whole) and one read group are fewer bits than the symbol
has modules: all 8 (version, level) pairs of Micro QR -/
theorem micro_fits : Spec.Tables.micro.all (fun e =>
    decide (8 * ((e.2.2.2.2.1 + 7) / 8) + 13 < (9 + 2 * e.1.1) * (9 + 2 * e.1.1))) = true := by decide +kernel

theorem micro_fits' (v l : Nat) (h : (Spec.Valid.Micro.dataBits v l).isSome) :
    8 * (((Spec.Valid.Micro.dataBits v l).getD 0 + 7) / 8) + 13 < (9 + 2 * v) * (9 + 2 * v) := by
  unfold Spec.Valid.Micro.dataBits at h ⊢
  cases e : Spec.Tables.micro.lookup (v, l) with
  | none => rw [e] at h; simp at h
  | some r =>
    have hm := lookup_mem _ _ _ e
    have := List.all_eq_true.mp micro_fits _ hm
    simpa using this

theorem micro_output_bounded (img : Image) (hw : Props.C06.WellFormed img) (q : QRCode)
    (h : Model.Micro.decodeBitmap img = .ok q) :
    (q.segments.map fun s => s.data.length).sum < img.dx.toNat * img.dy.toNat := by
  obtain ⟨wf, hx, hy⟩ := Props.C06.micro_decoded_wf img hw q h
  have hv := wf.version
  have ex : img.dx.toNat = 9 + 2 * q.version.toNat := by omega
  have ey : img.dy.toNat = 9 + 2 * q.version.toNat := by omega
  rw [ex, ey]
  have hfit := micro_fits' q.version.toNat q.level.toNat wf.pair
  cases hs : q.segments.getLast? with
  | none =>
    rw [getLast?_none_nil _ hs]
    show 0 < _
    omega
  | some s =>
    have hb := Props.C07.micro_decoded_overfull_within_last_group img hw q h s hs
    have hg := micro_lastGroupBits_le s q.version.toNat
    have hle := sum_map_le (fun s : Segment => s.data.length) (fun t => Spec.Valid.Micro.segBits t q.version.toNat) q.segments
      (fun t ht => by
        obtain ⟨k, cb, ek, ec, hd, _⟩ := wf.segments t ht
        show t.data.length ≤ Spec.Valid.Micro.segBits t q.version.toNat
        unfold Spec.Valid.Micro.segBits
        rw [ek]
        dsimp only
        rw [ec]
        have := len_le_bodyBits k t.data hd
        show _ ≤ _ + _ + _
        omega)
    omega

/-! ### rMQR -/

/-- every (version, level) pair of rMQR has a capacity row; its count indicators are at most 13 bits wide, and its data
codewords and one read group are fewer bits than the symbol has modules: all 64 pairs -/
def rmqrFits (v l : Nat) : Bool :=
  match Spec.Valid.RMQR.row v l with
  | some c => (List.range 4).all (fun k => decide (Spec.Valid.RMQR.countBits k c ≤ 13)) &&
      decide (8 * c.data + 13 < Spec.Patterns.RMQR.width v * Spec.Patterns.RMQR.height v)
  | none => false

theorem rmqr_fits : ∀ v, v < 32 → ∀ l, l < 2 → rmqrFits v l = true :=
  forall_lt_of_all₂ (by decide +kernel)

theorem rmqr_kindOf_lt (m k : Nat) (h : Spec.Valid.RMQR.kindOf m = some k) : k < 4 := by
  unfold Spec.Valid.RMQR.kindOf at h
  split at h
  · simp only [Option.some.injEq] at h; omega
  · simp at h

theorem rmqr_lastGroupBits_le (s : Segment) (c : Gen.GCap) (hc : ∀ k, k < 4 → Spec.Valid.RMQR.countBits k c ≤ 13) :
    Props.C07.rmqrLastGroupBits s c ≤ 13 := by
  unfold Props.C07.rmqrLastGroupBits
  cases e : Spec.Valid.RMQR.kindOf s.mode with
  | none => exact Nat.zero_le _
  | some k =>
    dsimp only
    split
    · exact hc k (rmqr_kindOf_lt _ _ e)
    · exact finalGroupBits_le k _

theorem rmqr_output_bounded (img : Image) (hw : Props.C06.WellFormed img) (q : QRCode)
    (h : Model.RMQR.decodeBitmap img = .ok q) :
    (q.segments.map fun s => s.data.length).sum < img.dx.toNat * img.dy.toNat := by
  obtain ⟨wf, hx, hy⟩ := Props.C06.rmqr_decoded_wf img hw q h
  have hv := wf.version
  have hl := wf.level
  have ex : img.dx.toNat = Spec.Patterns.RMQR.width q.version.toNat := by omega
  have ey : img.dy.toNat = Spec.Patterns.RMQR.height q.version.toNat := by omega
  rw [ex, ey]
  have hfit := rmqr_fits q.version.toNat (by omega) q.level.toNat (by omega)
  unfold rmqrFits at hfit
  cases hc : Spec.Valid.RMQR.row q.version.toNat q.level.toNat with
  | none => rw [hc] at hfit; exact absurd hfit (by simp)
  | some c =>
    rw [hc] at hfit
    simp only [Bool.and_eq_true, List.all_eq_true, List.mem_range, decide_eq_true_eq] at hfit
    obtain ⟨hcb, hfit⟩ := hfit
    cases hs : q.segments.getLast? with
    | none =>
      rw [getLast?_none_nil _ hs]
      show 0 < _
      omega
    | some s =>
      have hb := Props.C07.rmqr_decoded_overfull_within_last_group img hw q h s hs c hc
      have hg := rmqr_lastGroupBits_le s c hcb
      have hle := sum_map_le (fun s : Segment => s.data.length) (fun t => Spec.Valid.RMQR.segBits t c) q.segments
        (fun t ht => by
          obtain ⟨k, ek, hd, _⟩ := wf.segments c hc t ht
          show t.data.length ≤ Spec.Valid.RMQR.segBits t c
          unfold Spec.Valid.RMQR.segBits
          rw [ek]
          have := len_le_bodyBits k t.data hd
          show _ ≤ 3 + _ + _
          omega)
      omega

end QRV.Lemmas.DecOutput
