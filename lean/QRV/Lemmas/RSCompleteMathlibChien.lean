import QRV.Lemmas.RSCompleteMathlibSynd
/-
Chien search finds exactly the error locators, Forney's formula gives the error values, and the
decoder restores the codeword.
-/
namespace QRV.Lemmas.RSC
open Polynomial QRV QRV.Model QRV.Model.GF QRV.Model.RS QRV.Lemmas.GF QRV.Lemmas.RS

set_option linter.unusedSectionVars false

theorem inv'_inv' {a : Nat} (ha : a < 256) (h0 : a ≠ 0) : inv' (inv' a) = a := by
  apply toF_inj (inv'_lt _) ha
  rw [toF_inv (inv_lt a ha) (inv_ne_zero a ha h0), toF_inv ha h0, inv_inv]

section
variable {c r sigma omega : List Nat} (hc : AllEl c) (hr : AllEl r) (hlen : c.length = r.length)
  (hL : c.length ≤ 255) (hsig : AllEl sigma) (hsigp : toPoly sigma = locPoly (errE c r) xs)
include hc hr hlen hL hsig hsigp

/-- the roots found by the Chien search are the locators of the error positions -/
theorem mem_locs_iff {x : Nat} :
    x ∈ (((List.range 255).filter fun k => Poly.eval sigma (k + 1) = 0).map fun k => inv' (k + 1)) ↔
      ∃ i ∈ errE c r, x = expT i := by
  have hx0 : ∀ i ∈ errE c r, xs i ≠ 0 := fun i hi => xs_ne_zero (by have := (mem_errE.mp hi).1; omega)
  have hroot : ∀ e, e < 256 → (Poly.eval sigma e = 0 ↔ ∃ i ∈ errE c r, toF e = (xs i)⁻¹) := by
    intro e he
    rw [← toF_eq_zero (eval_lt he hsig), toF_eval he hsig, hsigp]
    exact locPoly_root_iff _ _ hx0 _
  rw [mem_locs]
  constructor
  · rintro ⟨e, h1, h2, h0, rfl⟩
    obtain ⟨i, hi, hei⟩ := (hroot e h2).mp h0
    refine ⟨i, hi, toF_inj (inv'_lt _) (exp_lt i (by have := (mem_errE.mp hi).1; omega)) ?_⟩
    rw [toF_inv h2 (by omega), hei, inv_inv]; rfl
  · rintro ⟨i, hi, rfl⟩
    have hi' : i < 256 := by have := (mem_errE.mp hi).1; omega
    have hlt := exp_lt i hi'
    have hne := exp_ne_zero i hi'
    refine ⟨inv' (expT i), ?_, inv'_lt _, ?_, (inv'_inv' hlt hne).symm⟩
    · have := inv_ne_zero _ hlt hne; omega
    · rw [hroot _ (inv'_lt _)]
      exact ⟨i, hi, by rw [toF_inv hlt hne]; rfl⟩

end

/-- facts about the list of locations returned by the Chien search -/
structure LocsSpec (c r locs : List Nat) : Prop where
  el : ∀ i, (hi : i < locs.length) → locs[i] < 256 ∧ locs[i] ≠ 0
  mem : ∀ k, k ∈ locs.map logT ↔ k ∈ errE c r
  nodup : (locs.map logT).Nodup
  len : locs.length = (errE c r).card

theorem chien_complete {c r sigma : List Nat} (hc : AllEl c) (hr : AllEl r) (hlen : c.length = r.length)
    (hL : c.length ≤ 255) (hsig : AllEl sigma) (hsigp : toPoly sigma = locPoly (errE c r) xs) :
    ∃ locs, findErrorLocations sigma = .ok locs ∧ LocsSpec c r locs := by
  refine ⟨_, findErrorLocations_eq sigma, ?_⟩
  have hmem := @mem_locs_iff c r sigma hc hr hlen hL hsig hsigp
  obtain ⟨hnd, hel⟩ := (findErrorLocations_spec sigma).2 _ (findErrorLocations_eq sigma)
  generalize (((List.range 255).filter fun k => Poly.eval sigma (k + 1) = 0).map fun k => inv' (k + 1)) = locs
    at hmem hnd hel
  have hi255 : ∀ i ∈ errE c r, i < 255 := fun i hi => by have := (mem_errE.mp hi).1; omega
  have hmemk : ∀ k, k ∈ locs.map logT ↔ k ∈ errE c r := by
    intro k
    rw [List.mem_map]
    constructor
    · rintro ⟨x, hx, rfl⟩
      obtain ⟨i, hi, rfl⟩ := hmem.mp hx
      rw [log_exp i (hi255 i hi)]; exact hi
    · intro hk
      exact ⟨expT k, hmem.mpr ⟨k, hk, rfl⟩, log_exp k (hi255 k hk)⟩
  have hndk : (locs.map logT).Nodup := by
    apply List.Nodup.map_on _ hnd
    intro x hx y hy hxy
    obtain ⟨i, hi, rfl⟩ := hmem.mp hx
    obtain ⟨j, hj, rfl⟩ := hmem.mp hy
    rw [log_exp i (hi255 i hi), log_exp j (hi255 j hj)] at hxy
    rw [hxy]
  refine ⟨fun i hi => hel _ (List.getElem_mem hi), hmemk, hndk, ?_⟩
  have hperm : (locs.map logT).Perm (diffIdx c r) :=
    (List.perm_ext_iff_of_nodup hndk (diffIdx_nodup c r)).mpr fun k => by
      rw [hmemk k]; unfold errE; rw [List.mem_toFinset]
  have := hperm.length_eq
  rw [List.length_map] at this
  rw [this]; unfold errE
  rw [List.toFinset_card_of_nodup (diffIdx_nodup c r)]

/-! ### Forney -/

theorem toF_forneyDen_aux (locs : List Nat) (i : Nat) : ∀ m,
    let den := (List.range m).foldl (init := 1) fun den j =>
      if i ≠ j then mul den (add (mul (locs[j]?.getD 0) (inv' (locs[i]?.getD 0))) 1) else den
    den < 256 ∧ (AllEl locs → toF den = ∏ j ∈ Finset.range m,
      if i ≠ j then toF (locs[j]?.getD 0) * toF (inv' (locs[i]?.getD 0)) + 1 else 1)
  | 0 => ⟨(by show (1 : Nat) < 256; decide), fun _ => by simp⟩
  | m + 1 => by
    obtain ⟨h1, h2⟩ := toF_forneyDen_aux locs i m
    intro den
    have hden : den = (fun den j =>
        if i ≠ j then mul den (add (mul (locs[j]?.getD 0) (inv' (locs[i]?.getD 0))) 1) else den)
        ((List.range m).foldl (init := 1) fun den j =>
          if i ≠ j then mul den (add (mul (locs[j]?.getD 0) (inv' (locs[i]?.getD 0))) 1) else den) m := by
      show List.foldl _ _ (List.range (m + 1)) = _
      rw [List.range_succ, List.foldl_append, List.foldl_cons, List.foldl_nil]
    rw [hden]
    by_cases him : i ≠ m
    · simp only [if_pos him]
      refine ⟨mul_lt' _ _, fun hl => ?_⟩
      rw [Finset.prod_range_succ, if_pos him, ← h2 hl,
        toF_mul h1 (add_lt (mul_lt' _ _) (by decide)), toF_add (mul_lt' _ _) (by decide),
        toF_mul (getD_lt hl m) (inv'_lt _), toF_one]
    · simp only [if_neg him]
      refine ⟨h1, fun hl => ?_⟩
      rw [Finset.prod_range_succ, if_neg him, ← h2 hl, _root_.mul_one]

theorem getD_getElem {l : List Nat} {i : Nat} (hi : i < l.length) : l[i]?.getD 0 = l[i] := by
  rw [List.getElem?_eq_getElem hi]; rfl

section
variable {c r locs : List Nat} (hc : AllEl c) (hr : AllEl r) (hlen : c.length = r.length)
  (hL : c.length ≤ 255) (hs : LocsSpec c r locs)
include hc hr hlen hL hs

theorem locs_allEl : AllEl locs := by
  intro b hb
  obtain ⟨i, hi, rfl⟩ := List.mem_iff_getElem.mp hb
  exact (hs.el i hi).1

theorem locs_log_mem {i : Nat} (hi : i < locs.length) : logT locs[i] ∈ errE c r :=
  (hs.mem _).mp (List.mem_map.mpr ⟨_, List.getElem_mem hi, rfl⟩)

theorem toF_locs {i : Nat} (hi : i < locs.length) : toF locs[i] = xs (logT locs[i]) := by
  unfold xs
  rw [exp_log _ (hs.el i hi).1 (hs.el i hi).2]

theorem toF_forneyDen {i : Nat} (hi : i < locs.length) :
    toF (forneyDen locs i) =
      ∏ l ∈ (errE c r).erase (logT locs[i]), (1 + xs l * (xs (logT locs[i]))⁻¹) := by
  have hall := locs_allEl hc hr hlen hL hs
  unfold forneyDen
  rw [(toF_forneyDen_aux locs i locs.length).2 hall, ← Finset.prod_filter, getD_getElem hi,
    toF_inv (hs.el i hi).1 (hs.el i hi).2, toF_locs hc hr hlen hL hs hi]
  have hkj : ∀ j, (hj : j < locs.length) → (locs.map logT)[j]'(by simpa using hj) = logT locs[j] := by
    intro j hj; simp
  apply Finset.prod_nbij (fun j => logT (locs[j]?.getD 0))
  · intro j hj
    rw [Finset.mem_filter, Finset.mem_range] at hj
    rw [getD_getElem hj.1, Finset.mem_erase]
    refine ⟨fun heq => hj.2 ?_, locs_log_mem hc hr hlen hL hs hj.1⟩
    rw [← hkj j hj.1, ← hkj i hi] at heq
    exact ((List.getElem_inj hs.nodup).mp heq).symm
  · intro j hj j' hj' heq
    rw [Finset.mem_coe, Finset.mem_filter, Finset.mem_range] at hj hj'
    simp only at heq
    rw [getD_getElem hj.1, getD_getElem hj'.1, ← hkj j hj.1, ← hkj j' hj'.1] at heq
    exact (List.getElem_inj hs.nodup).mp heq
  · intro l hl
    rw [Finset.mem_coe, Finset.mem_erase] at hl
    obtain ⟨j, hj, hjl⟩ := List.mem_iff_getElem.mp ((hs.mem l).mpr hl.2)
    have hj' : j < locs.length := by simpa using hj
    refine ⟨j, ?_, ?_⟩
    · rw [Finset.mem_coe, Finset.mem_filter, Finset.mem_range]
      refine ⟨hj', fun hij => hl.1 ?_⟩
      subst hij
      rw [← hjl]; simp
    · simp only
      rw [getD_getElem hj', ← hjl]; simp
  · intro j hj
    rw [Finset.mem_filter, Finset.mem_range] at hj
    rw [getD_getElem hj.1, toF_locs hc hr hlen hL hs hj.1, _root_.add_comm]

theorem forneyDen_ne_zero {i : Nat} (hi : i < locs.length) : forneyDen locs i ≠ 0 := by
  intro h0
  have h := toF_forneyDen hc hr hlen hL hs hi
  rw [h0, toF_zero] at h
  have hk := locs_log_mem hc hr hlen hL hs hi
  exact forney_den_ne_zero (errE c r) xs (xs_injOn hL) _ hk
    (xs_ne_zero (by have := (mem_errE.mp hk).1; omega)) h.symm

theorem forneyMag_eq {omega : List Nat} (homg : AllEl omega)
    (homp : toPoly omega = evPoly (errE c r) xs (ys r c)) {i : Nat} (hi : i < locs.length) :
    forneyMag omega locs i =
      add (Poly.coefficient r (logT locs[i])) (Poly.coefficient c (logT locs[i])) := by
  have hk := locs_log_mem hc hr hlen hL hs hi
  have hk0 : xs (logT locs[i]) ≠ 0 := xs_ne_zero (by have := (mem_errE.mp hk).1; omega)
  apply toF_inj (mul_lt' _ _) (add_lt (coefficient_lt r hr _) (coefficient_lt c hc _))
  have hdlt : forneyDen locs i < 256 := (toF_forneyDen_aux locs i locs.length).1
  rw [toF_mul (eval_lt (inv'_lt _) homg) (inv'_lt _), toF_eval (inv'_lt _) homg, homp, getD_getElem hi,
    toF_inv (hs.el i hi).1 (hs.el i hi).2, toF_locs hc hr hlen hL hs hi,
    toF_inv hdlt (forneyDen_ne_zero hc hr hlen hL hs hi), toF_forneyDen hc hr hlen hL hs hi,
    evPoly_eval_inv _ _ _ _ hk hk0,
    mul_inv_cancel_right₀ (forney_den_ne_zero (errE c r) xs (xs_injOn hL) _ hk hk0),
    toF_add (coefficient_lt r hr _) (coefficient_lt c hc _)]
  rfl

end

/-! ### the decoder restores the codeword -/

theorem decodeTail_restores {c r : List Nat} {n : Nat} (hc : AllEl c) (hr : AllEl r)
    (hlen : c.length = r.length) (hL : c.length ≤ 255) (hn1 : n ≥ 1) (hn : n ≤ 255)
    (hcw : SyndZero n c) (hd : distL c r ≤ n / 2) : decodeTail r n = .ok c := by
  have hx0 : ∀ i ∈ errE c r, xs i ≠ 0 := fun i hi => xs_ne_zero (by have := (mem_errE.mp hi).1; omega)
  obtain ⟨sigma, omega, h1, hsig, homg, hsigp, homp⟩ := euclid_complete n hn1 (syndromes r n)
    (syndromes_allEl hr n) (syndromes_length r n) (errE c r) xs (ys r c)
    (toPoly_syndromes hc hr hlen hL hn hcw) (xs_injOn hL) hx0 (fun i hi => ys_ne_zero hc hr hi)
    (by rw [card_errE c r hlen]; omega)
  obtain ⟨locs, h2, hs⟩ := chien_complete hc hr hlen hL hsig hsigp
  have h3 : locs.length = Poly.degree sigma := by
    rw [← natDegree_toPoly hsig, hsigp, natDegree_locPoly _ _ hx0, hs.len]
  have h4 := findErrorMagnitudes_eq omega (locs := locs)
    (fun i hi => by rw [getD_getElem hi]; exact (hs.el i hi).2)
    (fun i hi => forneyDen_ne_zero hc hr hlen hL hs hi)
  obtain ⟨d, h5, hdc⟩ := corrLoop_complete (r := r) (c := c) (locs := locs)
    (mags := (List.range locs.length).map (forneyMag omega locs)) hlen
    (fun i hi => ⟨(hs.el i hi).2, by
      have := (mem_errE.mp (locs_log_mem hc hr hlen hL hs hi)).1; omega⟩)
    hs.nodup
    (fun i hi => by
      rw [List.getElem?_map, List.getElem?_range hi]
      exact forneyMag_eq hc hr hlen hL hs homg homp hi)
    (fun e he hne => (hs.mem e).mpr (mem_errE.mpr ⟨by omega, fun h => hne h.symm⟩))
  have := decodeTail_complete h1 h2 h3 h4 h5 (by rw [hdc]; exact hcw)
  rw [hdc] at this
  exact this

end QRV.Lemmas.RSC
