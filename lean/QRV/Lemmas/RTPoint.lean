import QRV.Props.C18
/-
`Image.point` (the mask penalty score) cannot fail on a `Regular` image.

A small "cannot fail" calculus for the `Out` monad (`IsOk` and its closure lemmas) and its
application to `finderPattern`, `longRunLengthCount`, `blockCount`, `pointOnesCount`, `point`.
-/
namespace QRV.Lemmas.RT
open QRV QRV.Model.Bitmap

/-- the computation returns a value (no error, no panic) -/
def IsOk {α : Type} (x : Out α) : Prop := ∃ a, x = .ok a

theorem IsOk.ok {α : Type} (a : α) : IsOk (Out.ok a) := ⟨a, rfl⟩

theorem IsOk.pure {α : Type} (a : α) : IsOk (Pure.pure a : Out α) := ⟨a, rfl⟩

theorem IsOk.bind {α β : Type} {x : Out α} {f : α → Out β}
    (hx : IsOk x) (hf : ∀ a, IsOk (f a)) : IsOk (x >>= f) := by
  obtain ⟨a, rfl⟩ := hx
  exact hf a

/-- sharper bind rule: the continuation only has to succeed on the value actually produced -/
theorem IsOk.bind_of_eq {α β : Type} {x : Out α} {f : α → Out β} {a : α}
    (hx : x = .ok a) (hf : IsOk (f a)) : IsOk (x >>= f) := by
  subst hx; exact hf

theorem IsOk.map {α β : Type} {x : Out α} (f : α → β) (hx : IsOk x) : IsOk (f <$> x) := by
  obtain ⟨a, rfl⟩ := hx
  exact ⟨f a, rfl⟩

theorem IsOk.ite {α : Type} {c : Prop} [Decidable c] {a b : Out α}
    (ha : IsOk a) (hb : IsOk b) : IsOk (if c then a else b) := by
  split <;> assumption

theorem IsOk.dite {α : Type} {c : Prop} [Decidable c] {a : c → Out α} {b : ¬ c → Out α}
    (ha : ∀ h, IsOk (a h)) (hb : ∀ h, IsOk (b h)) : IsOk (if h : c then a h else b h) := by
  split
  · exact ha _
  · exact hb _

theorem IsOk.cond {α : Type} {c : Bool} {a b : Out α}
    (ha : IsOk a) (hb : IsOk b) : IsOk (bif c then a else b) := by
  cases c <;> assumption

theorem IsOk.prod_match {α β γ : Type} {p : α × β} {f : α → β → Out γ}
    (hf : ∀ a b, IsOk (f a b)) : IsOk (match p with | (a, b) => f a b) := hf p.1 p.2

theorem IsOk.forInStep_match {α β : Type} {s : ForInStep α} {f g : α → Out β}
    (hf : ∀ a, IsOk (f a)) (hg : ∀ a, IsOk (g a)) :
    IsOk (match s with | .done a => f a | .yield a => g a) := by
  cases s
  · exact hf _
  · exact hg _

theorem IsOk.forIn_list {α β : Type} {f : α → β → Out (ForInStep β)}
    (hf : ∀ k b, IsOk (f k b)) (l : List α) (init : β) : IsOk (forIn l init f) := by
  induction l generalizing init with
  | nil => exact ⟨init, rfl⟩
  | cons k l ih =>
    rw [List.forIn_cons]
    refine IsOk.bind (hf k init) fun s => ?_
    cases s
    · exact ⟨_, rfl⟩
    · exact ih _

theorem IsOk.forIn_range {β : Type} {f : Nat → β → Out (ForInStep β)}
    (hf : ∀ k b, IsOk (f k b)) (r : Std.Legacy.Range) (init : β) : IsOk (forIn r init f) := by
  rw [Std.Legacy.Range.forIn_eq_forIn_range']
  exact IsOk.forIn_list hf _ _

theorem IsOk.binaryAt {i : Image} {w h : Nat} (hr : QRV.Props.C18.Regular i w h) (x y : Int) :
    IsOk (i.binaryAt x y) :=
  ⟨_, QRV.Props.C18.binaryAt_spec i w h hr x y⟩

theorem IsOk.onesCount {i : Image} {w h : Nat} (hr : QRV.Props.C18.Regular i w h) :
    IsOk i.onesCount :=
  ⟨_, QRV.Props.C18.onesCount_spec i w h hr⟩

/-- discharge an `IsOk` goal by structural descent; `$hr` proves `Regular i w h` -/
syntax "isok_steps" term : tactic
macro_rules
  | `(tactic| isok_steps $hr) => `(tactic|
      repeat (first
        | exact IsOk.binaryAt $hr _ _
        | exact IsOk.onesCount $hr
        | exact IsOk.pure _
        | exact IsOk.ok _
        | apply IsOk.forIn_range
        | apply IsOk.forIn_list
        | apply IsOk.bind
        | apply IsOk.ite
        | apply IsOk.dite
        | intro _
        | dsimp only))

theorem finderPattern_ok {i : Image} {w h : Nat} (hr : QRV.Props.C18.Regular i w h) :
    IsOk i.finderPattern := by
  unfold Image.finderPattern
  isok_steps hr

theorem longRunLengthCount_ok {i : Image} {w h : Nat} (hr : QRV.Props.C18.Regular i w h) :
    IsOk i.longRunLengthCount := by
  unfold Image.longRunLengthCount
  isok_steps hr

theorem blockCount_ok {i : Image} {w h : Nat} (hr : QRV.Props.C18.Regular i w h) :
    IsOk i.blockCount := by
  unfold Image.blockCount
  isok_steps hr

theorem pointOnesCount_ok {i : Image} {w h : Nat} (hr : QRV.Props.C18.Regular i w h) :
    IsOk i.pointOnesCount := by
  unfold Image.pointOnesCount
  isok_steps hr

open QRV QRV.Model.Bitmap in
theorem point_ok (i : Image) (w h : Nat) (hr : QRV.Props.C18.Regular i w h) : ∃ n, i.point = .ok n := by
  show IsOk i.point
  unfold Image.point
  exact IsOk.bind (finderPattern_ok hr) fun _ =>
    IsOk.bind (longRunLengthCount_ok hr) fun _ =>
    IsOk.bind (blockCount_ok hr) fun _ =>
    IsOk.bind (pointOnesCount_ok hr) fun _ => IsOk.pure _

end QRV.Lemmas.RT
