import QRV.Lemmas.RTDefs
import QRV.Props.C17
/-
Round trip C01 (QR), the data bit stream, encoder side: a declarative description of the stream
(`segStream`, `streamTail`) and the proof that `Model.QR.encodeSegments` writes exactly that
(`stream_layout`).  The decoder side is `RTParse.lean`.
-/
namespace QRV.Lemmas.RT
open QRV QRV.Model QRV.Model.Bits QRV.Model.Sym QRV.Model.Codec QRV.Spec.Bits QRV.Spec.Codec
open QRV.Spec.Valid QRV.Spec.Tables QRV.Lemmas.Bits QRV.Lemmas.Codec QRV.Lemmas.Kanji
open QRV.Props

/-! ### the stream, declaratively -/

/-- the 13-bit codes of kanji data: one per rune -/
def kanjiCodes (data : List Nat) : List Nat :=
  (Utf8.runes data).map fun r => (encodeKanjiRune r).getD 0

/-- the data part of a segment of kind `k` (0 numeric, 1 alphanumeric, 2 byte, 3 kanji) -/
def bodyStream (k : Nat) (data : List Nat) : List Bool :=
  match k with
  | 0 => numericBits data
  | 1 => alnumBits data
  | 2 => byteBits data
  | _ => kanjiBits (kanjiCodes data)

/-- one segment: 4 mode bits, the character count in the version's width, the data -/
def segStream (v : Nat) (s : Segment) : List Bool :=
  match QR.kindOf s.mode with
  | some k => bitsMSB s.mode 4 ++ bitsMSB (count k s.data) (Spec.Valid.QR.countBits k v) ++ bodyStream k s.data
  | none => []

/-- `n` pad codewords 0xEC, 0x11, 0xEC, … -/
def padBytes (n : Nat) : List Nat := (List.range n).map fun i => if i % 2 = 0 then 0xEC else 0x11

/-- number of terminator bits after `len` data bits in a symbol of `capBits` bits: the terminator
0000 is written only if MORE than four bits are free -/
def termBits (capBits len : Nat) : Nat := if capBits - len > 4 then 4 else 0

/-- zero bits up to the next byte boundary -/
def alignBits (len : Nat) : Nat := (8 - len % 8) % 8

/-- what follows the segments: terminator, alignment, pad codewords up to the capacity -/
def streamTail (capBits len : Nat) : List Bool :=
  let t := termBits capBits len
  let z := alignBits (len + t)
  List.replicate (t + z) false ++ unpack (padBytes ((capBits - (len + t + z)) / 8))

/-- what the segment loop of the decoder may meet after the last segment: the end of the data, fewer
than four bits all of them zero, or four zero bits (then anything) -/
def TailOK (tail : List Bool) : Prop := ∀ b ∈ tail.take 4, b = false

/-- validity of one segment, as in `QR.Valid.segments` -/
def SegOK (v : Nat) (s : Segment) : Prop :=
  ∃ k, QR.kindOf s.mode = some k ∧ ValidData k s.data ∧ count k s.data < 2 ^ Spec.Valid.QR.countBits k v

/-! ### small facts -/

theorem bitsMSB_zero (n : Nat) : bitsMSB 0 n = List.replicate n false := by
  induction n with
  | zero => rfl
  | succ n ih => rw [bitsMSB, ih, List.replicate_succ, Nat.zero_testBit]

theorem kindOf_cases {m k : Nat} (h : QR.kindOf m = some k) :
    (m = 1 ∧ k = 0) ∨ (m = 2 ∧ k = 1) ∨ (m = 4 ∧ k = 2) ∨ (m = 8 ∧ k = 3) := by
  unfold QR.kindOf at h
  split at h
  · left; exact ⟨‹_›, (Option.some.inj h).symm⟩
  split at h
  · right; left; exact ⟨‹_›, (Option.some.inj h).symm⟩
  split at h
  · right; right; left; exact ⟨‹_›, (Option.some.inj h).symm⟩
  split at h
  · right; right; right; exact ⟨‹_›, (Option.some.inj h).symm⟩
  · cases h

/-- the model's count-indicator width is the standard's -/
theorem countBits_eq {m k : Nat} (h : QR.kindOf m = some k) (n : Nat) (h1 : 1 ≤ n) (h40 : n ≤ 40) :
    Model.QR.countBits m (n : Int) = some (Spec.Valid.QR.countBits k n) := by
  unfold Model.QR.countBits Spec.Valid.QR.countBits
  rw [if_neg (by omega)]
  simp only [Model.QR.modeNumeric, Model.QR.modeAlphanumeric, Model.QR.modeBytes]
  by_cases h10 : n < 10
  · have : (n : Int) < 10 := by omega
    rcases kindOf_cases h with ⟨rfl, rfl⟩ | ⟨rfl, rfl⟩ | ⟨rfl, rfl⟩ | ⟨rfl, rfl⟩ <;> simp [h10, this]
  · have : ¬ (n : Int) < 10 := by omega
    by_cases h27 : n < 27
    · have : (n : Int) < 27 := by omega
      rcases kindOf_cases h with ⟨rfl, rfl⟩ | ⟨rfl, rfl⟩ | ⟨rfl, rfl⟩ | ⟨rfl, rfl⟩ <;> simp [*]
    · have : ¬ (n : Int) < 27 := by omega
      rcases kindOf_cases h with ⟨rfl, rfl⟩ | ⟨rfl, rfl⟩ | ⟨rfl, rfl⟩ | ⟨rfl, rfl⟩ <;> simp [*]

theorem countBits_le (k n : Nat) : Spec.Valid.QR.countBits k n ≤ 16 ∧ 8 ≤ Spec.Valid.QR.countBits k n := by
  unfold Spec.Valid.QR.countBits
  by_cases h10 : n < 10
  · match k with
    | 0 | 1 | 2 | _ + 3 => simp [h10]
  · by_cases h27 : n < 27
    · match k with
      | 0 | 1 | 2 | _ + 3 => simp [h10, h27]
    · match k with
      | 0 | 1 | 2 | _ + 3 => simp [h10, h27]

/-! ### lengths -/

theorem bodyBits_zero (n : Nat) :
    bodyBits 0 n = 10 * (n / 3) + (if n % 3 = 1 then 4 else if n % 3 = 2 then 7 else 0) := rfl
theorem bodyBits_one (n : Nat) : bodyBits 1 n = 11 * (n / 2) + 6 * (n % 2) := rfl
theorem bodyBits_two (n : Nat) : bodyBits 2 n = 8 * n := rfl
theorem bodyBits_three (n : Nat) : bodyBits 3 n = 13 * n := rfl

theorem numericBits_length (data : List Nat) : (numericBits data).length = bodyBits 0 data.length := by
  induction data using numericBits.induct with
  | case1 a b c rest ih =>
    rw [numericBits, List.length_append, length_bitsMSB, ih, bodyBits_zero, bodyBits_zero]
    simp only [List.length_cons]
    have e1 : (rest.length + 1 + 1 + 1) / 3 = rest.length / 3 + 1 := by omega
    have e2 : (rest.length + 1 + 1 + 1) % 3 = rest.length % 3 := by omega
    simp only [e1, e2]; omega
  | case2 a b => simp [numericBits, bodyBits]
  | case3 a => simp [numericBits, bodyBits]
  | case4 => simp [numericBits, bodyBits]

theorem alnumBits_length (data : List Nat) : (alnumBits data).length = bodyBits 1 data.length := by
  induction data using alnumBits.induct with
  | case1 a b rest ih =>
    rw [alnumBits, List.length_append, length_bitsMSB, ih, bodyBits_one, bodyBits_one]
    simp only [List.length_cons]
    omega
  | case2 a => simp [alnumBits, bodyBits]
  | case3 => simp [alnumBits, bodyBits]

theorem byteBits_length (data : List Nat) : (byteBits data).length = bodyBits 2 data.length := by
  induction data with
  | nil => rfl
  | cons a l ih =>
    rw [byteBits, List.length_append, length_bitsMSB, ih, bodyBits_two, bodyBits_two]
    simp only [List.length_cons]
    omega

theorem kanjiCodes_length (data : List Nat) : (kanjiCodes data).length = count 3 data := by
  simp [kanjiCodes, count]

theorem bodyStream_length {m k : Nat} (h : QR.kindOf m = some k) (data : List Nat) :
    (bodyStream k data).length = bodyBits k (count k data) := by
  rcases kindOf_cases h with ⟨rfl, rfl⟩ | ⟨rfl, rfl⟩ | ⟨rfl, rfl⟩ | ⟨rfl, rfl⟩
  · exact numericBits_length data
  · exact alnumBits_length data
  · exact byteBits_length data
  · show (kanjiBits (kanjiCodes data)).length = _
    rw [kanjiBits_length, kanjiCodes_length]
    rfl

/-- the stream of a segment has the length the standard assigns to it -/
theorem segStream_length (v : Nat) (s : Segment) : (segStream v s).length = QR.segBits s v := by
  unfold segStream QR.segBits
  cases h : QR.kindOf s.mode with
  | none => rfl
  | some k =>
    simp only [List.length_append, length_bitsMSB, bodyStream_length h]

theorem flatMap_segStream_length (v : Nat) (segs : List Segment) :
    (segs.flatMap (segStream v)).length = (segs.map fun s => QR.segBits s v).sum := by
  induction segs with
  | nil => rfl
  | cons s l ih => rw [List.flatMap_cons, List.length_append, ih, segStream_length, List.map_cons, List.sum_cons]

/-! ### what validity of the data means for the model's character classes -/

theorem valid_lt {k : Nat} {data : List Nat} (h : ValidData k data) : ∀ ch ∈ data, ch < 256 := h.1

theorem valid_numeric {data : List Nat} (h : ValidData 0 data) : ∀ ch ∈ data, isNumeric ch = true := by
  intro ch hch
  exact (C17.numeric_class ch (h.1 ch hch)).2 (h.2 ch hch)

theorem valid_alnum {data : List Nat} (h : ValidData 1 data) : ∀ ch ∈ data, isAlphanumeric ch = true := by
  intro ch hch
  unfold isAlphanumeric
  rw [C17.alnum_class ch (h.1 ch hch)]
  exact h.2 ch hch

/-- a character that kanji mode can represent has a code in the encoder's table -/
theorem kanjiChar_code {r : Nat} (h : KanjiChar r) :
    ∃ c, encodeKanjiRune r = some c ∧ c < 8192 ∧ refAt c = r ∧ refAt c ≠ 0 := by
  obtain ⟨h0, code, hc, href⟩ := h
  obtain ⟨h1, h2⟩ := C17.kanji_encode_is_least_inverse r
  cases he : encodeKanjiRune r with
  | none =>
    rcases h2 he code hc with h3 | h3
    · exact absurd href h3
    · exact absurd h3 h0
  | some c =>
    obtain ⟨hc1, hc2, hc3, -⟩ := h1 c he
    exact ⟨c, rfl, hc1, hc2, by rw [hc2]; exact hc3⟩

theorem valid_kanji {data : List Nat} (h : ValidData 3 data) :
    (∀ r ∈ Utf8.runes data, KanjiChar r) ∧ (Utf8.runes data).flatMap Utf8.encodeRune = data := h.2

theorem valid_isKanji {data : List Nat} (h : ValidData 3 data) : ∀ r ∈ Utf8.runes data, isKanji r = true := by
  intro r hr
  obtain ⟨c, hc, -⟩ := kanjiChar_code ((valid_kanji h).1 r hr)
  unfold isKanji
  rw [hc]; rfl

/-! ### one segment -/

theorem writeBits_int (b : Buffer) (h : C16.Inv b) (v n : Nat) (hn : n ≤ 64) :
    ∃ b', writeBitsLSB b v (n : Int) = .ok b' ∧ C16.Inv b' ∧ C16.abs b' = C16.abs b ++ bitsMSB v n ∧
      b'.offset = b.offset ∧ b'.read = b.read := C16.writeBitsLSB_refines b h v n hn

/-- the body encoders write `bodyStream` -/
theorem encodeBody_layout {m k : Nat} (hk : QR.kindOf m = some k) (data : List Nat) (hd : ValidData k data)
    (b : Buffer) (h : C16.Inv b) :
    ∃ b', (if m = Model.QR.modeNumeric then encodeNumeric b data
        else if m = Model.QR.modeAlphanumeric then encodeAlphanumeric b data
        else if m = Model.QR.modeBytes then encodeBytes b data
        else encodeKanji b data) = .ok b' ∧ C16.Inv b' ∧ C16.abs b' = C16.abs b ++ bodyStream k data ∧
      b'.offset = b.offset ∧ b'.read = b.read := by
  rcases kindOf_cases hk with ⟨rfl, rfl⟩ | ⟨rfl, rfl⟩ | ⟨rfl, rfl⟩ | ⟨rfl, rfl⟩
  · rw [if_pos (by decide)]
    exact C17.encodeNumeric_layout b h data (valid_numeric hd)
  · rw [if_neg (by decide), if_pos (by decide)]
    exact C17.encodeAlphanumeric_layout b h data (valid_alnum hd)
  · rw [if_neg (by decide), if_neg (by decide), if_pos (by decide)]
    exact C17.encodeBytes_layout b h data
  · rw [if_neg (by decide), if_neg (by decide), if_neg (by decide)]
    exact C17.encodeKanji_layout b h data (valid_isKanji hd)

/-- a valid segment is accepted and written as `segStream` -/
theorem segEncode_layout (n : Nat) (h1 : 1 ≤ n) (h40 : n ≤ 40) (s : Segment) (hs : SegOK n s)
    (b : Buffer) (h : C16.Inv b) :
    ∃ b', Model.QR.segEncode s (n : Int) b = .ok b' ∧ C16.Inv b' ∧
      C16.abs b' = C16.abs b ++ segStream n s ∧ b'.offset = b.offset ∧ b'.read = b.read := by
  obtain ⟨k, hk, hd, hc⟩ := hs
  have hmode : s.mode = Model.QR.modeNumeric ∨ s.mode = Model.QR.modeAlphanumeric ∨
      s.mode = Model.QR.modeBytes ∨ s.mode = Model.QR.modeKanji := by
    rcases kindOf_cases hk with ⟨e, -⟩ | ⟨e, -⟩ | ⟨e, -⟩ | ⟨e, -⟩ <;> rw [e] <;> decide
  have hcount : (if s.mode = Model.QR.modeKanji then Utf8.runeCount s.data else s.data.length) =
      count k s.data := by
    unfold count Utf8.runeCount
    rcases kindOf_cases hk with ⟨e, rfl⟩ | ⟨e, rfl⟩ | ⟨e, rfl⟩ | ⟨e, rfl⟩ <;> rw [e] <;> rfl
  have hcb := (countBits_le k n).1
  unfold Model.QR.segEncode
  rw [if_pos hmode, countBits_eq hk n h1 h40]
  simp only [hcount]
  rw [if_neg (by omega)]
  obtain ⟨b₁, e₁, i₁, a₁, o₁, r₁⟩ := writeBits_int b h s.mode 4 (by decide)
  obtain ⟨b₂, e₂, i₂, a₂, o₂, r₂⟩ := writeBits_int b₁ i₁ (count k s.data) (Spec.Valid.QR.countBits k n) (by omega)
  obtain ⟨b₃, e₃, i₃, a₃, o₃, r₃⟩ := encodeBody_layout hk s.data hd b₂ i₂
  refine ⟨b₃, ?_, i₃, ?_, by omega, by omega⟩
  · have e₁' : writeBitsLSB b s.mode 4 = .ok b₁ := e₁
    rw [e₁']
    simp only [Out.bind_ok]
    rw [e₂]
    simp only [Out.bind_ok]
    exact e₃
  · rw [a₃, a₂, a₁, segStream, hk]
    simp only [List.append_assoc]

/-! ### the segment loop of the encoder -/

theorem segsEncode_layout (n : Nat) (h1 : 1 ≤ n) (h40 : n ≤ 40) (segs : List Segment)
    (hs : ∀ s ∈ segs, SegOK n s) : ∀ (b : Buffer), C16.Inv b →
    ∃ b', forIn segs b (fun s (acc : Buffer) => do
          let buf ← Model.QR.segEncode s (n : Int) acc
          pure (ForInStep.yield buf)) = .ok b' ∧ C16.Inv b' ∧
      C16.abs b' = C16.abs b ++ segs.flatMap (segStream n) ∧ b'.offset = b.offset ∧ b'.read = b.read := by
  induction segs with
  | nil => intro b h; exact ⟨b, rfl, h, by simp, rfl, rfl⟩
  | cons s l ih =>
    intro b h
    obtain ⟨b₁, e₁, i₁, a₁, o₁, r₁⟩ := segEncode_layout n h1 h40 s (hs s (List.mem_cons_self ..)) b h
    obtain ⟨b₂, e₂, i₂, a₂, o₂, r₂⟩ := ih (fun x hx => hs x (List.mem_cons_of_mem _ hx)) b₁ i₁
    refine ⟨b₂, ?_, i₂, ?_, by omega, by omega⟩
    · rw [List.forIn_cons, e₁]
      exact e₂
    · rw [a₂, a₁, List.flatMap_cons, List.append_assoc]

/-! ### the pad loop -/

theorem padBytes_succ (k : Nat) : padBytes (k + 1) = padBytes k ++ [if k % 2 = 0 then 0xEC else 0x11] := by
  simp [padBytes, List.range_succ]

theorem padBytes_length (k : Nat) : (padBytes k).length = k := by simp [padBytes]

theorem padLoop_layout (cap8 npad : Nat) (b : Buffer) (h : C16.Inv b) (hlen : b.len + 8 * npad = cap8) :
    ∃ b', forIn (List.range' 0 npad) b (fun i (acc : Buffer) =>
          if acc.len < cap8 then do
            let buf ← writeBitsLSB acc (if i % 2 = 0 then 236 else 17) 8
            pure (ForInStep.yield buf)
          else pure (ForInStep.yield acc)) = .ok b' ∧ C16.Inv b' ∧
      C16.abs b' = C16.abs b ++ unpack (padBytes npad) ∧ b'.offset = b.offset ∧ b'.read = b.read := by
  have := Lemmas.Bitmap.forIn_range'_ok
    (fun i (acc : Buffer) =>
          if acc.len < cap8 then do
            let buf ← writeBitsLSB acc (if i % 2 = 0 then 236 else 17) 8
            pure (ForInStep.yield buf)
          else pure (ForInStep.yield acc))
    (fun k b' => C16.Inv b' ∧ C16.abs b' = C16.abs b ++ unpack (padBytes k) ∧ b'.offset = b.offset ∧
      b'.read = b.read) npad 0 b ⟨h, by simp [padBytes], rfl, rfl⟩
    (by
      rintro k c - hk ⟨ic, ac, oc, rc⟩
      have hl : c.len < cap8 := by
        rw [C16.len_eq c ic, ac, List.length_append, length_unpack, padBytes_length, ← C16.len_eq b h]
        omega
      obtain ⟨c₁, e₁, i₁, a₁, o₁, r₁⟩ := writeBits_int c ic (if k % 2 = 0 then 236 else 17) 8 (by decide)
      have e₁' : writeBitsLSB c (if k % 2 = 0 then 236 else 17) 8 = .ok c₁ := e₁
      refine ⟨c₁, ?_, i₁, ?_, by omega, by omega⟩
      · simp only [if_pos hl, e₁', Out.bind_ok]; rfl
      · rw [a₁, ac, padBytes_succ, unpack_concat, List.append_assoc])
  simpa using this

/-! ### `encodeSegments` in stages -/

/-- pad codewords up to `cap8` bits -/
def padStage (cap8 : Nat) (buf : Buffer) : Out Buffer :=
  forIn (List.range' 0 ((cap8 - buf.len + 7) / 8)) buf (fun i (acc : Buffer) =>
    if acc.len < cap8 then do
      let buf ← writeBitsLSB acc (if i % 2 = 0 then 236 else 17) 8
      pure (ForInStep.yield buf)
    else pure (ForInStep.yield acc)) >>= fun s => pure s

/-- zero bits up to the byte boundary, then padding -/
def alignStage (cap8 : Nat) (buf : Buffer) : Out Buffer :=
  if buf.len % 8 ≠ 0 then do
    let buf ← writeBitsLSB buf 0 ((8 - buf.len % 8 : Nat) : Int)
    padStage cap8 buf
  else padStage cap8 buf

/-- terminator if more than four bits are free, then alignment and padding -/
def termStage (cap8 : Nat) (buf : Buffer) : Out Buffer :=
  if cap8 - buf.len > 4 then do
    let buf ← writeBitsLSB buf 0 4
    alignStage cap8 buf
  else alignStage cap8 buf

theorem encodeSegments_eq (q : QRCode) (b : Buffer) :
    Model.QR.encodeSegments q b = (do
      let s ← forIn q.segments b (fun s (acc : Buffer) => do
          let buf ← Model.QR.segEncode s q.version acc
          pure (ForInStep.yield buf))
      let cap ← capAt Gen.QR.capacityTable q.version q.level
      if s.len > cap.data * 8 then Out.err "qrcode: data is too large"
      else termStage (cap.data * 8) s) := by
  unfold Model.QR.encodeSegments termStage alignStage padStage
  simp only [Std.Legacy.Range.forIn_eq_forIn_range', Std.Legacy.Range.size, Model.QR.modeTerminated,
    Out.bind_err, Nat.sub_zero, Nat.add_sub_cancel, Nat.div_one]

theorem padStage_layout (cap8 : Nat) (hcap : cap8 % 8 = 0) (b : Buffer) (h : C16.Inv b)
    (h8 : b.len % 8 = 0) (hle : b.len ≤ cap8) :
    ∃ b', padStage cap8 b = .ok b' ∧ C16.Inv b' ∧
      C16.abs b' = C16.abs b ++ unpack (padBytes ((cap8 - b.len) / 8)) ∧
      b'.offset = b.offset ∧ b'.read = b.read := by
  have e : (cap8 - b.len + 7) / 8 = (cap8 - b.len) / 8 := by omega
  obtain ⟨b', e', hb'⟩ := padLoop_layout cap8 ((cap8 - b.len) / 8) b h (by omega)
  refine ⟨b', ?_, hb'⟩
  unfold padStage
  rw [e, e']
  rfl

theorem alignStage_layout (cap8 : Nat) (hcap : cap8 % 8 = 0) (b : Buffer) (h : C16.Inv b)
    (hle : b.len ≤ cap8) :
    ∃ b', alignStage cap8 b = .ok b' ∧ C16.Inv b' ∧
      C16.abs b' = C16.abs b ++ (List.replicate (alignBits b.len) false ++
        unpack (padBytes ((cap8 - (b.len + alignBits b.len)) / 8))) ∧
      b'.offset = b.offset ∧ b'.read = b.read := by
  unfold alignStage
  by_cases h8 : b.len % 8 = 0
  · rw [if_neg (by omega)]
    have ha : alignBits b.len = 0 := by unfold alignBits; omega
    rw [ha]
    exact padStage_layout cap8 hcap b h h8 hle
  · rw [if_pos h8]
    have ha : alignBits b.len = 8 - b.len % 8 := by unfold alignBits; omega
    obtain ⟨b₁, e₁, i₁, a₁, o₁, r₁⟩ := writeBits_int b h 0 (8 - b.len % 8) (by omega)
    have hl₁ : b₁.len = b.len + (8 - b.len % 8) := by
      rw [C16.len_eq b₁ i₁, a₁, List.length_append, length_bitsMSB, ← C16.len_eq b h]
    obtain ⟨b₂, e₂, i₂, a₂, o₂, r₂⟩ := padStage_layout cap8 hcap b₁ i₁ (by omega) (by omega)
    refine ⟨b₂, ?_, i₂, ?_, by omega, by omega⟩
    · rw [e₁]; exact e₂
    · rw [a₂, a₁, hl₁, ha, bitsMSB_zero, List.append_assoc]

/-- after the segments: exactly `streamTail`, and the buffer is full -/
theorem termStage_layout (cap8 : Nat) (hcap : cap8 % 8 = 0) (b : Buffer) (h : C16.Inv b)
    (hle : b.len ≤ cap8) :
    ∃ b', termStage cap8 b = .ok b' ∧ C16.Inv b' ∧
      C16.abs b' = C16.abs b ++ streamTail cap8 b.len ∧ b'.offset = b.offset ∧ b'.read = b.read := by
  unfold termStage streamTail
  by_cases h4 : cap8 - b.len > 4
  · rw [if_pos h4]
    have ht : termBits cap8 b.len = 4 := by unfold termBits; rw [if_pos h4]
    obtain ⟨b₁, e₁, i₁, a₁, o₁, r₁⟩ := writeBits_int b h 0 4 (by decide)
    have e₁' : writeBitsLSB b 0 4 = .ok b₁ := e₁
    have hl₁ : b₁.len = b.len + 4 := by
      rw [C16.len_eq b₁ i₁, a₁, List.length_append, length_bitsMSB, ← C16.len_eq b h]
    obtain ⟨b₂, e₂, i₂, a₂, o₂, r₂⟩ := alignStage_layout cap8 hcap b₁ i₁ (by omega)
    refine ⟨b₂, ?_, i₂, ?_, by omega, by omega⟩
    · rw [e₁']; exact e₂
    · simp only [ht]
      rw [a₂, a₁, hl₁, bitsMSB_zero, ← List.replicate_append_replicate]
      simp only [List.append_assoc]
  · rw [if_neg h4]
    have ht : termBits cap8 b.len = 0 := by unfold termBits; rw [if_neg h4]
    simp only [ht, Nat.add_zero, Nat.zero_add]
    exact alignStage_layout cap8 hcap b h hle

theorem streamTail_length (cap8 len : Nat) (hcap : cap8 % 8 = 0) (hle : len ≤ cap8) :
    len + (streamTail cap8 len).length = cap8 := by
  unfold streamTail
  simp only [List.length_append, List.length_replicate, length_unpack, padBytes_length]
  unfold termBits alignBits
  split <;> omega

/-- the tail is something the decoder's segment loop stops at -/
theorem streamTail_ok (cap8 len : Nat) (hcap : cap8 % 8 = 0) (hle : len ≤ cap8) :
    TailOK (streamTail cap8 len) := by
  unfold TailOK streamTail
  intro x hx
  by_cases h4 : cap8 - len > 4
  · have ht : termBits cap8 len = 4 := by unfold termBits; rw [if_pos h4]
    simp only [ht] at hx
    rw [List.take_append_of_le_length (by simp)] at hx
    exact List.eq_of_mem_replicate (List.mem_of_mem_take hx)
  · have ht : termBits cap8 len = 0 := by unfold termBits; rw [if_neg h4]
    have hz : (cap8 - (len + 0 + alignBits (len + 0))) / 8 = 0 := by unfold alignBits; omega
    simp only [ht, hz] at hx
    simp only [padBytes, List.range_zero, List.map_nil, unpack_nil, List.append_nil] at hx
    exact List.eq_of_mem_replicate (List.mem_of_mem_take hx)

/-! ### the whole stream -/

theorem inv_len_mod (b : Buffer) (h : C16.Inv b) : b.len % 8 = b.wrote := by
  have h1 := h.wrote_lt
  have h2 := h.nonempty
  unfold Buffer.len
  by_cases hw : b.wrote = 0
  · simp only [hw, ne_eq, not_true_eq_false, if_false]; omega
  · have := h2 hw
    simp only [ne_eq, hw, not_false_eq_true, if_true]; omega

theorem valid_segOK (q : QRCode) (hv : QR.Valid q) : ∀ s ∈ q.segments, SegOK q.version.toNat s :=
  hv.segments

/-- `encodeSegments` accepts every valid description and writes the segment streams followed by
terminator, alignment and pad codewords up to exactly the data capacity of the symbol -/
theorem stream_layout (q : QRCode) (hv : QR.Valid q) :
    ∃ buf, Model.QR.encodeSegments q {} = .ok buf ∧ C16.Inv buf ∧
      buf.len = 8 * dataCodewords q.version.toNat q.level.toNat ∧
      C16.abs buf = q.segments.flatMap (segStream q.version.toNat) ++
        streamTail (8 * dataCodewords q.version.toNat q.level.toNat)
          (q.segments.flatMap (segStream q.version.toNat)).length ∧
      buf.wrote = 0 ∧ buf.offset = 0 ∧ buf.read = 0 := by
  obtain ⟨hv1, hv40⟩ := hv.version
  obtain ⟨hl0, hl4⟩ := hv.level
  have ev : q.version = (q.version.toNat : Int) := by omega
  have el : q.level = (q.level.toNat : Int) := by omega
  generalize hn : q.version.toNat = n at *
  generalize hl : q.level.toNat = l at *
  obtain ⟨cap, hcap, -, -, hdata, -⟩ := capAt_valid n l (by omega) (by omega) (by omega)
  obtain ⟨b₁, e₁, i₁, a₁, o₁, r₁⟩ := segsEncode_layout n (by omega) (by omega) q.segments
    (by rw [← hn]; exact hv.segments) {} C16.inv_empty
  rw [C16.abs_empty, List.nil_append] at a₁
  have hlen₁ : b₁.len = (q.segments.flatMap (segStream n)).length := by rw [C16.len_eq b₁ i₁, a₁]
  have hfit : b₁.len ≤ 8 * dataCodewords n l := by
    rw [hlen₁, flatMap_segStream_length]
    have := hv.fits
    rw [hn, hl] at this
    exact this
  obtain ⟨b₂, e₂, i₂, a₂, o₂, r₂⟩ := termStage_layout (8 * dataCodewords n l) (by omega) b₁ i₁ hfit
  have hlen₂ : b₂.len = 8 * dataCodewords n l := by
    rw [C16.len_eq b₂ i₂, a₂, List.length_append, ← C16.len_eq b₁ i₁]
    exact streamTail_length _ _ (by omega) hfit
  refine ⟨b₂, ?_, i₂, hlen₂, ?_, ?_, by rw [o₂, o₁], by rw [r₂, r₁]⟩
  · rw [encodeSegments_eq, ev, el, e₁]
    simp only [Out.bind_ok]
    rw [hcap]
    simp only [Out.bind_ok]
    rw [hdata, if_neg (by omega), Nat.mul_comm]
    exact e₂
  · rw [a₂, a₁, hlen₁]
  · have := inv_len_mod b₂ i₂
    omega

/-- the byte image of the encoded stream -/
theorem stream_bytes (buf : Buffer) (h : C16.Inv buf) (hw : buf.wrote = 0) :
    unpack buf.buf.toList = C16.abs buf ∧ buf.buf.size * 8 = buf.len ∧ ∀ x ∈ buf.buf.toList, x < 256 := by
  refine ⟨(content_zero buf hw).symm, ?_, h.bytes_lt⟩
  unfold Buffer.len
  simp [hw]

end QRV.Lemmas.RT
