import QRV.Lemmas.DecSeg
import QRV.Lemmas.DecBlocks
import QRV.Lemmas.RTDecode
/-
C06/C07 — the QR decoder on an arbitrary well-formed bitmap: after the size test the normalised
bitmap is a regular image of a valid version's size; format reading, table lookups, unmasking, the
module walk (fuel and length per version: `walk_version`), de-interleaving, error correction and the
segment loop never panic, and what is returned is a well-formed description.
-/
namespace QRV.Lemmas.Dec
open QRV QRV.Model QRV.Model.Bitmap QRV.Model.Sym QRV.Model.QR QRV.Props QRV.Props.C18 QRV.Lemmas.BCH QRV.Lemmas.RT

/-- what `bitmap.New(rect)` + `SetBinary` can build (the `WellFormed` of C06, as hypotheses) -/
structure WF (img : Image) : Prop where
  dx : 0 ≤ img.dx
  dy : 0 ≤ img.dy
  stride : img.stride = (img.dx + 7).tdiv 8
  size : (img.pix.size : Int) = img.stride * img.dy
  bytes : ∀ b ∈ img.pix.toList, b < 256

theorem normalise_regular_of_wf (img : Image) (h : WF img) :
    Regular (normalise img) img.dx.toNat img.dy.toNat := by
  obtain ⟨h1, h2, h3, h4, h5⟩ := h
  have hs : img.stride = (((img.dx.toNat + 7) / 8 : Nat) : Int) := by
    rw [h3, Int.tdiv_eq_ediv_of_nonneg (by omega)]; omega
  refine ⟨rfl, rfl, ?_, ?_, hs, ?_, h5⟩
  · show img.dx = _; omega
  · show img.dy = _; omega
  · show img.pix.size = _
    have : ((img.pix.size : Nat) : Int) = (((img.dx.toNat + 7) / 8 * img.dy.toNat : Nat) : Int) := by
      rw [h4, hs, Int.natCast_mul, Int.toNat_of_nonneg h2]
    exact Int.ofNat_inj.mp this

theorem Sat.ite {α : Type} {c : Prop} [Decidable c] {a b : Out α} {P : α → Prop}
    (ha : Sat a P) (hb : Sat b P) : Sat (if c then a else b) P := by
  split <;> assumption

theorem binaryAt_sat (img : Image) (w h : Nat) (hr : Regular img w h) (x y : Int) :
    Sat (img.binaryAt x y) (fun _ => True) := by
  rw [binaryAt_spec img w h hr]; exact trivial

/-- a `do` block made of `BinaryAt` reads of a readable image, `if`s and a final `pure` -/
macro "sat_reads " h:term : tactic =>
  `(tactic| repeat (first | exact Sat.pure trivial | apply Sat.ite | refine Sat.bind ($h _ _) (fun _ _ => ?_)))

theorem qrReadRaws_sat (img : Image) (w h : Nat) (hr : Regular img w h) :
    Sat (qrReadRaws img) (fun _ => True) := by
  unfold qrReadRaws
  refine Sat.bind (Sat.forIn_range _ (fun _ => True) 8 _ trivial ?_) (fun _ _ => trivial)
  intro i _ s _
  sat_reads (binaryAt_sat img w h hr)

theorem decodeFormat0_range (raw : Nat) (r : Int × Int) (h : decodeFormat0 raw = some r) :
    ∃ l m : Nat, l < 4 ∧ m < 8 ∧ r = ((l : Int), (m : Int)) := by
  rw [qr_decodeFormat0_eq] at h
  split at h
  · cases h
  · have inv := scanN_inv (dist Gen.QR.encodedFormat raw) Gen.QR.encodedFormat.length
    change ScanInv _ _ (scan Gen.QR.encodedFormat raw) at inv
    have hidx : (scan Gen.QR.encodedFormat raw).1 < 32 := by
      have := inv.idx
      rw [qr_format_length] at this
      omega
    generalize (scan Gen.QR.encodedFormat raw).1 = idx at h hidx
    refine ⟨idx >>> 3, idx &&& 7, ?_, ?_, (Option.some.inj h).symm⟩
    · rw [Nat.shiftRight_eq_div_pow]; omega
    · rw [show (7 : Nat) = 2 ^ 3 - 1 by decide, Nat.and_two_pow_sub_one_eq_mod]; omega

theorem decodeFormat_sat (img : Image) (w h : Nat) (hr : Regular img w h) :
    Sat (decodeFormat img) (fun r => ∃ l m : Nat, l < 4 ∧ m < 8 ∧ r = ((l : Int), (m : Int))) := by
  rw [qr_decodeFormat_factor]
  refine Sat.bind (qrReadRaws_sat img w h hr) (fun p _ => ?_)
  unfold twoCopy
  cases h1 : decodeFormat0 p.1 with
  | some r => exact decodeFormat0_range _ _ h1
  | none =>
    dsimp only
    show Sat ((Out.ok p.2) >>= _) _
    rw [Out.bind_ok]
    cases h2 : decodeFormat0 p.2 with
    | some r => exact decodeFormat0_range _ _ h2
    | none => exact trivial

theorem length_pack (bs : List Bool) : (Spec.Bits.pack bs).length = (bs.length + 7) / 8 := by
  simp [Spec.Bits.pack]

/-- the QR decoder on a well-formed bitmap: no panic, and a returned description is well-formed
for the version the bitmap's size stands for -/
theorem qr_decode_sat (img : Image) (hw : WF img) :
    Sat (decodeBitmapFull img) (fun p =>
      (1 ≤ p.1.version ∧ p.1.version ≤ 40) ∧ (0 ≤ p.1.level ∧ p.1.level < 4) ∧
      (0 ≤ p.1.mask ∧ p.1.mask ≤ 7) ∧ (∀ s ∈ p.1.segments, SegOK p.1.version.toNat s) ∧
      img.dx = 17 + 4 * p.1.version ∧ img.dy = img.dx) := by
  unfold decodeBitmapFull
  dsimp only
  split
  · exact trivial
  · rename_i hc
    have hdiv := Int.mul_tdiv_add_tmod (img.dx - 17) 4
    obtain ⟨v, hv⟩ : ∃ v : Nat, (img.dx - 17).tdiv 4 = (v : Int) := ⟨((img.dx - 17).tdiv 4).toNat, by omega⟩
    rw [hv] at hdiv ⊢
    have h1 : 1 ≤ v := by omega
    have h40 : v ≤ 40 := by omega
    have hdx : img.dx = ((17 + 4 * v : Nat) : Int) := by omega
    have hdy : img.dy = ((17 + 4 * v : Nat) : Int) := by omega
    have hreg : Regular (normalise img) (17 + 4 * v) (17 + 4 * v) := by
      have := normalise_regular_of_wf img hw
      rw [hdx, hdy, Int.toNat_natCast] at this
      exact this
    -- format information
    refine Sat.bind (decodeFormat_sat _ _ _ hreg) ?_
    rintro _ ⟨l, m, hl, hm, rfl⟩
    dsimp only
    -- tables
    obtain ⟨-, hused, -, hru, hbin⟩ := version_images v h1 h40
    obtain ⟨pat, hpat, hrp⟩ := mask_image m hm
    rw [hused, hpat]
    simp only [Out.bind_ok, deref]
    -- unmasking
    obtain ⟨bin, hmask, hrb⟩ := C18.mask_ok (normalise img) _ pat _ _ 184 177 (by omega) (by omega) hreg hru hrp
      (by omega) (by omega)
    rw [hmask, Out.bind_ok]
    -- the walk
    obtain ⟨cs, hwalk, hcs⟩ := walk_version v h1 h40
    obtain ⟨rbuf, hrl, hrinv, hrabs⟩ := readLoop_eq _ bin (usedFn v) _ hbin
      (fun x y => binaryAt_spec bin _ _ hrb x y) (16 + 4 * (v : Int)) _ _ cs {} hwalk C16.inv_empty
    unfold fuelOf start at hrl
    rw [hrl, Out.bind_ok]
    -- capacity row and its block structure
    obtain ⟨cap, hcap, hrow, htotal, -, -⟩ := capAt_valid v l h1 h40 hl
    rw [hcap, Out.bind_ok]
    obtain ⟨n1, n2, d, e, hs, hd, ht⟩ := shape_of_cap cap (cap_shape v l h1 h40 hl cap hrow)
    have hlen : cap.total ≤ rbuf.buf.toList.length := by
      rw [C16.bytes_are_packing rbuf hrinv, length_pack, hrabs, C16.abs_empty, List.nil_append,
        List.length_map, htotal]
      omega
    obtain ⟨blks, hde, -, hall⟩ := deinterleave_any cap.blocks n1 n2 d e hs cap.data cap.total hd.symm ht
      rbuf.buf.toList hrinv.bytes_lt hlen
    rw [hde, Out.bind_ok]
    -- error correction
    refine Sat.bind (rsLoop_sat blks hall) ?_
    intro result hres
    -- segments
    refine Sat.bind (segmentLoop_sat (v : Int) (by omega) (by omega) _ { buf := result } #[] (by show (0 : Nat) < 8; decide)
      (by unfold rem cur; simp; omega) (by simp)) ?_
    intro segs hsegs
    refine Sat.pure ⟨⟨by simp; omega, by simp; omega⟩, ⟨by simp, by simp; omega⟩, ⟨by simp, by simp; omega⟩, ?_, ?_, ?_⟩
    · simpa using hsegs
    · simp; omega
    · omega

theorem qr_decodeBitmap_sat (img : Image) (hw : WF img) :
    Sat (decodeBitmap img) (fun q =>
      (1 ≤ q.version ∧ q.version ≤ 40) ∧ (0 ≤ q.level ∧ q.level < 4) ∧
      (0 ≤ q.mask ∧ q.mask ≤ 7) ∧ (∀ s ∈ q.segments, SegOK q.version.toNat s) ∧
      img.dx = 17 + 4 * q.version ∧ img.dy = img.dx) := by
  unfold decodeBitmap
  exact Sat.bind (qr_decode_sat img hw) (fun p hp => hp)

/-- the first statement of `DecodeBitmap` is the size test -/
theorem qr_wrong_size (img : Image)
    (h : img.dx ≠ img.dy ∨ img.dx < 21 ∨ img.dx > 177 ∨ (img.dx - 17).tmod 4 ≠ 0) :
    ∃ m, decodeBitmap img = .err m := by
  unfold decodeBitmap decodeBitmapFull
  dsimp only
  rw [if_pos h]
  exact ⟨_, rfl⟩

end QRV.Lemmas.Dec
