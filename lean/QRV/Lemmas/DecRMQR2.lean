import QRV.Lemmas.DecRMQR
import QRV.Lemmas.DecRMQRFin
import QRV.Lemmas.DecRMQRSeg
/-
C06/C07 — rMQR: the decoder on an arbitrary well-formed bitmap.  After the format information has
been read and the bounds compared with the function map of the version it names, the bitmap has that
version's size; table lookups, unmasking, the module walk (fuel and length per version:
`checkR_all`), de-interleaving, error correction, the slice of the data codewords and the segment
loop never panic, and what is returned is a well-formed description.
-/
namespace QRV.Lemmas.DecR
open QRV QRV.Model QRV.Model.Bitmap QRV.Model.Sym QRV.Props QRV.Props.C18 QRV.Lemmas.BCH QRV.Lemmas.RT
open QRV.Lemmas.Dec
open QRV.Spec.Patterns

set_option maxRecDepth 100000

/-! ### format information: version and level -/

theorem decodeFormat0_range (raw : Nat) (r : Int × Int) (h : Model.RMQR.decodeFormat0 raw = some r) :
    ∃ v l : Nat, v < 32 ∧ l < 2 ∧ r = ((v : Int), (l : Int)) := by
  rw [rmqr_decodeFormat0_eq] at h
  split at h
  · cases h
  · refine ⟨(scan Gen.RMQR.encodedVersion raw).1 &&& 0x1f, (scan Gen.RMQR.encodedVersion raw).1 >>> 5 &&& 1,
      ?_, ?_, (Option.some.inj h).symm⟩
    · rw [show (0x1f : Nat) = 2 ^ 5 - 1 by decide, Nat.and_two_pow_sub_one_eq_mod]
      exact Nat.mod_lt _ (by decide)
    · rw [show (1 : Nat) = 2 ^ 1 - 1 by decide, Nat.and_two_pow_sub_one_eq_mod]
      exact Nat.mod_lt _ (by decide)

theorem decodeFormat_sat (img : Image) (w h : Nat) (hr : Regular img w h) :
    Sat (Model.RMQR.decodeFormat img) (fun r => ∃ v l : Nat, v < 32 ∧ l < 2 ∧ r = ((v : Int), (l : Int))) := by
  rw [rmqr_decodeFormat_factor]
  have hread := binaryAt_sat img w h hr
  refine Sat.bind (P := fun _ => True) ?_ ?_
  · unfold rmqrRead1
    refine Sat.bind (Sat.forIn_range _ (fun _ => True) 18 _ trivial ?_) (fun _ _ => trivial)
    intro i _ s _
    sat_reads hread
  · intro raw _
    unfold twoCopy
    cases h1 : Model.RMQR.decodeFormat0 (raw ^^^ Model.RMQR.fmtMask1) with
    | some r => exact decodeFormat0_range _ _ h1
    | none =>
      dsimp only
      refine Sat.bind (P := fun _ => True) ?_ ?_
      · refine Sat.bind (P := fun _ => True) ?_ (fun _ _ => trivial)
        unfold rmqrRead2
        dsimp only
        refine Sat.bind (Sat.forIn_range _ (fun _ => True) 15 _ trivial ?_) (fun _ _ => ?_)
        · intro i _ s _
          sat_reads hread
        · sat_reads hread
      · intro raw2 _
        cases h2 : Model.RMQR.decodeFormat0 raw2 with
        | some r => exact decodeFormat0_range _ _ h2
        | none => exact trivial

/-! ### tables -/

theorem sizes_bound : ∀ v, v < 32 →
    (decide (0 < RMQR.width v) && decide (RMQR.width v ≤ 144) && decide (0 < RMQR.height v) &&
      decide (RMQR.height v ≤ 17)) = true :=
  forall_lt_of_all (by decide +kernel)

/-- the function map of a version: a regular image of the version's size whose pixels are `usedFnR` -/
theorem used_image (v : Nat) (hv : v < 32) :
    ∃ used, imgAt Model.RMQR.usedList (v : Int) = .ok (some used) ∧
      Regular used (RMQR.width v) (RMQR.height v) ∧
      ∀ x y, used.binaryAt x y = .ok (usedFnR v x y) := by
  have hg := congrArg (·[v]?) (Lemmas.Pat.rmqr_geom.2.trans Lemmas.Pat.rmqr_geom.1)
  have hr := congrArg (·[v]?) Lemmas.Pat.rmqr_used
  simp only [List.getElem?_map, List.getElem?_range hv, Option.map_some] at hg hr
  cases hu : Gen.RMQR.usedList[v]? with
  | none => rw [hu] at hg; cases hg
  | some g =>
    rw [hu] at hg hr
    simp only [Option.map_some, Option.some.injEq, Prod.mk.injEq] at hg hr
    obtain ⟨g0, g1, g2, g3, g4⟩ := hg
    have hpos := sizes_bound v hv
    simp only [Bool.and_eq_true, decide_eq_true_eq] at hpos
    have hlen : g.rows.length = RMQR.height v := by rw [hr]; exact packRows_length ..
    have hne : g.rows ≠ [] := by
      intro h0
      rw [h0] at hlen
      simp at hlen
      omega
    have hug : usedGenR v = g := by unfold usedGenR; rw [hu]; rfl
    have hru : Regular (Image.ofGen g) (RMQR.width v) (RMQR.height v) :=
      ofGen_regular g _ _ g0 g1 g2 g3 g4 hlen
    refine ⟨Image.ofGen g, imgAt_ofGenList _ v g hu hne, hru, ?_⟩
    intro x y
    rw [binaryAt_spec _ _ _ hru]
    congr 1
    unfold usedFnR fnOfR
    rw [hug]
    by_cases hc : 0 ≤ x ∧ x < ((RMQR.width v : Nat) : Int) ∧ 0 ≤ y ∧ y < ((RMQR.height v : Nat) : Int)
    · rw [if_pos hc, decide_eq_true hc, Bool.true_and, ofGen_px]
      rw [g4]; omega
    · rw [if_neg hc, decide_eq_false hc, Bool.false_and]

theorem mask_geom : let g := Gen.RMQR.precomputedMask
    (g.minX, g.minY, g.maxX, g.maxY, g.stride, g.rows.length) = (0, 0, 144, 17, 18, 17) := by
  decide +kernel

/-- the mask canvas -/
theorem mask_regular : Regular Model.RMQR.precomputedMask 144 17 := by
  have h := mask_geom
  simp only [Prod.mk.injEq] at h
  obtain ⟨h0, h1, h2, h3, h4, h5⟩ := h
  exact ofGen_regular _ 144 17 h0 h1 h2 h3 (by rw [h4]) h5

/-- capacity row of a valid (version, level) -/
theorem capAt_row (v l : Nat) (hv : v < 32) (hl : l < 2) :
    ∃ cap, capAt Gen.RMQR.capacityTable (v : Int) (l : Int) = .ok cap ∧
      Spec.Valid.RMQR.row v l = some cap ∧ capShapeOK cap = true ∧ (∀ n ∈ cap.bitLength, n ≤ 16) ∧
      cap.total ∈ rowTotals v := by
  have h := rowOK_all v l hv hl
  unfold rowOK at h
  split at h
  · cases h
  · rename_i c hc
    simp only [Bool.and_eq_true, List.all_eq_true, decide_eq_true_eq] at h
    refine ⟨c, ?_, hc, h.1, h.2, ?_⟩
    · unfold capAt
      rw [if_neg (by omega)]
      simp only [Int.toNat_natCast]
      cases hrow : Gen.RMQR.capacityTable[v]? with
      | none => rw [hrow] at hc; simp at hc
      | some row =>
        rw [hrow] at hc
        simp only [Option.getD_some] at hc
        simp only [hc]
    · unfold rowTotals
      exact List.mem_map.mpr ⟨c, List.mem_of_getElem? hc, rfl⟩

/-! ### the error-correction loop -/

def rsStep (blk : List Nat × List Nat) (result : Array Nat) : Out (ForInStep (Array Nat)) := do
  let data ← RS.decode (blk.1 ++ blk.2) (Model.RMQR.RS_SYNDROMES blk.2.length)
  pure (ForInStep.yield (result ++ (data.take blk.1.length).toArray))

/-- never panics; what it returns has as many bytes as the data parts of the blocks together -/
theorem rsLoopR_sat (blks : List (List Nat × List Nat))
    (hall : ∀ b ∈ blks, (∀ x ∈ b.1, x < 256) ∧ ∀ x ∈ b.2, x < 256) :
    ∀ init : Array Nat, Sat (forIn blks init rsStep)
      (fun result => result.size = init.size + (blks.map (·.1.length)).sum) := by
  induction blks with
  | nil => intro init; exact Sat.pure (by simp)
  | cons blk blks ih =>
    intro init
    rw [List.forIn_cons]
    have hbytes : Props.C14.Bytes (blk.1 ++ blk.2) := by
      intro x hx
      rcases List.mem_append.mp hx with h | h
      · exact (hall blk (List.mem_cons_self ..)).1 x h
      · exact (hall blk (List.mem_cons_self ..)).2 x h
    have hnp := Props.C14.dec_no_panic (blk.1 ++ blk.2) hbytes blk.2.length
    unfold rsStep Model.RMQR.RS_SYNDROMES
    cases hdec : RS.decode (blk.1 ++ blk.2) (blk.2.length : Int) with
    | panic m => rw [hdec] at hnp; cases hnp
    | err m => exact trivial
    | ok data =>
      obtain ⟨hl, _, _⟩ := Props.C14.dec_sound _ data hbytes _ hdec
      simp only [Out.bind_ok]
      refine (ih (fun b hb => hall b (List.mem_cons_of_mem _ hb)) _).mono ?_
      intro result hres
      have ht : (List.take blk.1.length data).length = blk.1.length := by
        rw [List.length_take, hl, List.length_append]; omega
      have hsz : (init ++ (List.take blk.1.length data).toArray).size = init.size + blk.1.length := by
        simp [ht]
      rw [hres, hsz, List.map_cons, List.sum_cons]
      omega

theorem sum_data_of_shape (blocks : List Gen.GBlock) (n1 n2 d e : Nat) (hs : BlockShape blocks n1 n2 d e)
    (blks : List (List Nat × List Nat))
    (hsz : blks.map (fun b => (b.1.length, b.2.length)) = sizesOf blocks) :
    (blks.map (·.1.length)).sum = n1 * d + n2 * (d + 1) := by
  have : blks.map (·.1.length) = (blks.map (fun b => (b.1.length, b.2.length))).map (·.1) := by
    rw [List.map_map]; rfl
  rw [this, hsz, hs.sizes]
  simp [List.sum_replicate_nat]

/-! ### the decoder -/

/-- the rMQR decoder on a well-formed bitmap: no panic, and a returned description is well-formed
for the version whose size the bitmap has -/
theorem rmqr_decode_sat (img : Image) (hw : WF img) :
    Sat (Model.RMQR.decodeBitmapFull img) (fun p =>
      ∃ v l : Nat, v < 32 ∧ l < 2 ∧ p.1.version = (v : Int) ∧ p.1.level = (l : Int) ∧ p.1.mask = 0 ∧
        (∀ c, Spec.Valid.RMQR.row v l = some c → ∀ s ∈ p.1.segments, SegOKR c s) ∧
        img.dx = (RMQR.width v : Nat) ∧ img.dy = (RMQR.height v : Nat)) := by
  unfold Model.RMQR.decodeBitmapFull
  dsimp only
  have hreg := normalise_regular' img hw
  refine Sat.bind (decodeFormat_sat _ _ _ hreg) ?_
  rintro _ ⟨v, l, hv, hl, rfl⟩
  dsimp only
  obtain ⟨used, hused, hru, hbin⟩ := used_image v hv
  rw [hused]
  simp only [Out.bind_ok, deref]
  split
  · exact trivial
  rename_i hsb
  have hpos := sizes_bound v hv
  simp only [Bool.and_eq_true, decide_eq_true_eq] at hpos
  obtain ⟨⟨⟨hW0, hW⟩, hH0⟩, hH⟩ := hpos
  have hsize : img.dx = ((RMQR.width v : Nat) : Int) ∧ img.dy = ((RMQR.height v : Nat) : Int) := by
    simp only [Bool.not_eq_true', Bool.not_eq_false] at hsb
    unfold Model.RMQR.sameBounds Image.rectEq Image.rectEmpty at hsb
    simp only [hru.minX, hru.minY, hru.maxX, hru.maxY, Bool.or_eq_true, Bool.and_eq_true, beq_iff_eq,
      decide_eq_true_eq] at hsb
    omega
  obtain ⟨hdx, hdy⟩ := hsize
  generalize hW' : RMQR.width v = W at *
  generalize hH' : RMQR.height v = H at *
  have hidx : Image.dx { pix := img.pix, stride := img.stride, maxX := img.dx, maxY := img.dy } = (W : Int) := by
    show img.dx - 0 = _; omega
  have hidy : Image.dy { pix := img.pix, stride := img.stride, maxX := img.dx, maxY := img.dy } = (H : Int) := by
    show img.dy - 0 = _; omega
  rw [hidx, hidy]
  rw [show img.dx.toNat = W by omega, show img.dy.toNat = H by omega] at hreg
  -- unmasking
  obtain ⟨bin, hmask, hrb⟩ := C18.mask_ok _ used _ W H 144 17 hW0 hH0 hreg hru mask_regular hW hH
  rw [hmask, Out.bind_ok]
  -- the walk
  obtain ⟨cs, hwalk, hcs⟩ := walk_of_checkR v (checkR_all v hv)
  rw [hW', hH'] at hwalk
  obtain ⟨rbuf, hrl, hrinv, hrabs⟩ := readLoopR_eq used bin (usedFnR v) _ hbin
    (fun x y => binaryAt_spec bin _ _ hrb x y) ((H : Int) - 1) _ _ cs {} hwalk C16.inv_empty
  unfold fuelR startR at hrl
  rw [hrl, Out.bind_ok]
  -- capacity row and its block structure
  obtain ⟨cap, hcap, hrow, hshape, hbl, htot⟩ := capAt_row v l hv hl
  rw [hcap, Out.bind_ok]
  obtain ⟨n1, n2, d, e, hs, hd, ht⟩ := shape_of_cap cap hshape
  have hlen : cap.total ≤ rbuf.buf.toList.length := by
    rw [C16.bytes_are_packing rbuf hrinv, length_pack, hrabs, C16.abs_empty, List.nil_append,
      List.length_map]
    exact hcs _ htot
  obtain ⟨blks, hde, hsz, hall⟩ := deinterleave_any cap.blocks n1 n2 d e hs cap.data cap.total hd.symm ht
    rbuf.buf.toList hrinv.bytes_lt hlen
  rw [hde, Out.bind_ok]
  -- error correction
  refine Sat.bind (rsLoopR_sat blks hall #[]) ?_
  intro result hres
  have hsum := sum_data_of_shape cap.blocks n1 n2 d e hs blks hsz
  rw [hsum, hd] at hres
  have hres' : result.size = cap.data := by simpa using hres
  rw [if_neg (by omega)]
  -- segments
  refine Sat.bind (segmentLoopR_sat cap hbl _ { buf := result.extract 0 cap.data } #[]
    (by show (0 : Nat) < 8; decide) (by unfold rem cur; simp; omega) (by simp)) ?_
  intro segs hsegs
  refine Sat.pure ⟨v, l, hv, hl, rfl, rfl, rfl, ?_, by rw [hW']; exact hdx, by rw [hH']; exact hdy⟩
  intro c hc s hs
  rw [hrow] at hc
  cases hc
  exact hsegs s hs

theorem rmqr_decodeBitmap_sat (img : Image) (hw : WF img) :
    Sat (Model.RMQR.decodeBitmap img) (fun q =>
      ∃ v l : Nat, v < 32 ∧ l < 2 ∧ q.version = (v : Int) ∧ q.level = (l : Int) ∧ q.mask = 0 ∧
        (∀ c, Spec.Valid.RMQR.row v l = some c → ∀ s ∈ q.segments, SegOKR c s) ∧
        img.dx = (RMQR.width v : Nat) ∧ img.dy = (RMQR.height v : Nat)) := by
  unfold Model.RMQR.decodeBitmap
  exact Sat.bind (rmqr_decode_sat img hw) (fun p hp => hp)

end QRV.Lemmas.DecR
