import QRV.Lemmas.MicroRTWalk
import QRV.Lemmas.MicroRTParse
import QRV.Lemmas.MicroRTFormat
import QRV.Lemmas.RTPoint
import QRV.Lemmas.RTEncode
import QRV.Lemmas.EncScan
/-
The round trip of Micro QR M1-M4 assembled: stream (MicroRTStream/MicroRTParse), walk
(MicroRTWalk, MicroRTFin), format information (MicroRTFormat), masking (C18), the single
Reed-Solomon block (C13/C14), automatic masking (EncScan).
-/
namespace QRV.Lemmas.MRT
open QRV QRV.Model QRV.Model.Bitmap QRV.Model.Sym QRV.Props QRV.Props.C18 QRV.Model.Bits QRV.Spec.Bits
open QRV.Spec.Valid
open QRV.Lemmas.RT (applyWrites writes_spec IsOk parityOf parityOf_facts)

/-! ### `encodeToBitmap` in named steps -/

/-- explicit mask, or the automatic choice -/
def chooseMaskM (mask : Int) (img used : Image) : Out Int :=
  if mask = Gen.Micro.c_maskAuto then Model.Micro.autoMask img used else pure mask

/-- the last steps of `encodeToBitmap`: format information of (symbol number, mask), then masking -/
def finishM (format : Int) (used img : Image) (mask : Int) : Out Image := do
  if mask < 0 then Out.panic (α := Unit) "index out of range"
  let encoded ← natAt Gen.Micro.encodedFormat (((format * 4).toNat ||| mask.toNat : Nat) : Int)
  let img ← placeFormatM img encoded
  let pat ← deref (← imgAt Model.Micro.maskList mask)
  Image.mask img used pat

theorem encodeToBitmap_eq (q : QRCode) (f : Int) (h1 : ¬ (q.version < 1 ∨ q.version > 4))
    (h2 : ¬ (q.level < 0 ∨ q.level ≥ 4)) (hf : Model.Micro.formatAt q.version q.level = .ok f) (hf0 : ¬ f < 0)
    (hm : ¬ (q.mask ≠ Gen.Micro.c_maskAuto ∧ (q.mask < 0 ∨ q.mask ≥ Gen.Micro.c_maskMax))) :
    Model.Micro.encodeToBitmap q = (do
      let buf ← Model.Micro.encodeSegments q {}
      let img ← deref (← imgAt Model.Micro.baseList q.version)
      let used ← deref (← imgAt Model.Micro.usedList q.version)
      let cap ← capAt Gen.Micro.capacityTable q.version q.level
      let img ← Model.Micro.placeLoop used (8 + 2 * q.version) cap.dataBits
        ((8 + 2 * q.version + 3) * (8 + 2 * q.version + 3)).toNat
        { x := 8 + 2 * q.version, y := 8 + 2 * q.version, dy := -1 } buf img
      let m ← chooseMaskM q.mask img used
      finishM f used img m) := by
  unfold Model.Micro.encodeToBitmap
  simp only [if_neg h1, if_neg h2, hf, Out.bind_ok, if_neg hf0, if_neg hm]
  unfold chooseMaskM finishM placeFormatM
  by_cases hma : q.mask = Gen.Micro.c_maskAuto <;>
    simp only [hma, if_true, if_false, pure_bind, Std.Legacy.Range.forIn_eq_forIn_range',
      Std.Legacy.Range.size] <;> rfl

/-! ### the mask choice -/

theorem pointMicro_ok {i : Image} {w h : Nat} (hr : Regular i w h) : IsOk i.pointMicro := by
  unfold Image.pointMicro
  isok_steps hr

theorem maskScore_ok (v : Nat) (img used : Image) (hr : Regular img (9 + 2 * v) (9 + 2 * v))
    (hru : Regular used (9 + 2 * v) (9 + 2 * v)) (h4 : v ≤ 4) (k : Nat) (hk : k < 4) :
    ∃ p, Model.Micro.maskScore img used k = .ok p := by
  obtain ⟨pat, hpat, hrp⟩ := mask_image k hk
  obtain ⟨tmp, htmp, hrt⟩ := mask_ok img used pat _ _ 24 17 (by omega) (by omega) hr hru hrp (by omega) (by omega)
  obtain ⟨pt, hpt⟩ := pointMicro_ok hrt
  refine ⟨pt, ?_⟩
  unfold Model.Micro.maskScore
  simp only [hpat, Out.bind_ok, deref, htmp, hpt]

/-- the automatic choice yields a mask 0..3 on regular images -/
theorem autoMask_ok (v : Nat) (img used : Image) (hr : Regular img (9 + 2 * v) (9 + 2 * v))
    (hru : Regular used (9 + 2 * v) (9 + 2 * v)) (h4 : v ≤ 4) :
    ∃ m : Nat, Model.Micro.autoMask img used = .ok (m : Int) ∧ m < 4 := by
  have hok : ∃ s : Int × Int, (forIn (List.range' 0 4) ((-1 : Int), (0 : Int)) (fun (i : Nat) (s : Int × Int) => (do
        let point ← Model.Micro.maskScore img used i
        if (point : Int) > s.fst then pure (ForInStep.yield ((point : Int), (i : Int)))
        else pure (ForInStep.yield (s.fst, s.snd)) : Out (ForInStep (Int × Int))))) = .ok s := by
    obtain ⟨s, hs, -⟩ := QRV.Lemmas.RT.forIn_range'_inv (fun (_ : Int × Int) => True) 4 0 ((-1 : Int), (0 : Int))
      (fun (i : Nat) (s : Int × Int) => (do
        let point ← Model.Micro.maskScore img used i
        if (point : Int) > s.fst then pure (ForInStep.yield ((point : Int), (i : Int)))
        else pure (ForInStep.yield (s.fst, s.snd)) : Out (ForInStep (Int × Int)))) trivial (by
        intro k s _ hk _
        obtain ⟨p, hp⟩ := maskScore_ok v img used hr hru h4 k (by omega)
        simp only [hp, Out.bind_ok]
        split
        · exact ⟨_, rfl, trivial⟩
        · exact ⟨_, rfl, trivial⟩)
    exact ⟨s, hs⟩
  obtain ⟨s, hs⟩ := hok
  have hauto : Model.Micro.autoMask img used = .ok s.2 := by
    unfold Model.Micro.autoMask
    have h4' : Gen.Micro.c_maskMax.toNat = 4 := rfl
    simp only [Std.Legacy.Range.forIn_eq_forIn_range', Std.Legacy.Range.size, h4']
    have : (4 - 0 + 1 - 1) / 1 = 4 := rfl
    rw [this, hs]
    rfl
  obtain ⟨_, _, _, _, -, -, -, -, h0, h3, -⟩ := QRV.Lemmas.Enc.micro_auto_is_argmax img used s.2 hauto
  obtain ⟨m, hm⟩ := Int.eq_ofNat_of_zero_le h0
  exact ⟨m, by rw [hauto, hm], by omega⟩

theorem chooseMaskM_spec (v : Nat) (h4 : v ≤ 4) (mask : Int) (hm1 : -1 ≤ mask) (hm3 : mask ≤ 3) (img used : Image)
    (hr : Regular img (9 + 2 * v) (9 + 2 * v)) (hru : Regular used (9 + 2 * v) (9 + 2 * v)) :
    ∃ m : Nat, m < 4 ∧ chooseMaskM mask img used = .ok (m : Int) ∧ (0 ≤ mask → (m : Int) = mask) ∧
      (mask = -1 → Model.Micro.autoMask img used = .ok (m : Int)) := by
  unfold chooseMaskM
  have ha : Gen.Micro.c_maskAuto = -1 := rfl
  by_cases hm : mask = Gen.Micro.c_maskAuto
  · rw [if_pos hm]
    obtain ⟨m, hs, hm4⟩ := autoMask_ok v img used hr hru h4
    exact ⟨m, hm4, hs, fun h0 => by omega, fun _ => hs⟩
  · rw [if_neg hm]
    obtain ⟨m, rfl⟩ := Int.eq_ofNat_of_zero_le (show 0 ≤ mask by omega)
    exact ⟨m, by omega, rfl, fun _ => rfl, fun h => by omega⟩

/-! ### the final step -/

theorem finishM_spec (v f m : Nat) (h1 : 1 ≤ v) (h4 : v ≤ 4) (hf : f < 8) (hm : m < 4) (used img : Image)
    (hru : Regular used (9 + 2 * v) (9 + 2 * v)) (hr : Regular img (9 + 2 * v) (9 + 2 * v)) :
    ∃ c img3 pat img4, finishM (f : Int) used img (m : Int) = .ok img4 ∧
      Gen.Micro.encodedFormat[4 * f + m]? = some c ∧
      imgAt Model.Micro.maskList (m : Int) = .ok (some pat) ∧ Regular pat 24 17 ∧
      Regular img3 (9 + 2 * v) (9 + 2 * v) ∧ Regular img4 (9 + 2 * v) (9 + 2 * v) ∧
      Image.mask img3 used pat = .ok img4 ∧
      (∀ x y : Nat, x < 9 + 2 * v → y < 9 + 2 * v → usedFn v (x : Int) (y : Int) = false →
        px img3 x y = px img x y) ∧
      (∀ i : Nat, i < 8 → px img3 8 (i + 1) = c.testBit i ∧ px img3 (i + 1) 8 = c.testBit (14 - i)) := by
  obtain ⟨c, hc, hct⟩ := natAt_mformat f m hf hm
  obtain ⟨img3, h3, hr3, hpx, hfc⟩ := placeFormatM_spec v h1 h4 img hr c
  obtain ⟨pat, hpat, hrp⟩ := mask_image m hm
  obtain ⟨img4, h4', hr4⟩ := mask_ok img3 used pat _ _ 24 17 (by omega) (by omega) hr3 hru hrp (by omega) (by omega)
  refine ⟨c, img3, pat, img4, ?_, hct, hpat, hrp, hr3, hr4, h4', hpx, hfc⟩
  unfold finishM
  rw [if_neg (by omega)]
  simp only [hc, Out.bind_ok, h3, hpat, deref, h4']

/-! ### the placement -/

/-- the writes a slot list stands for -/
def writesOf (zs : List (Option (Int × Int) × Bool)) : List ((Int × Int) × Bool) :=
  zs.filterMap fun p => p.1.map fun c => (c, p.2)

theorem foldlM_slotSet (zs : List (Option (Int × Int) × Bool)) : ∀ img : Image,
    zs.foldlM slotSet img = applyWrites (writesOf zs) img := by
  induction zs with
  | nil => intro img; rfl
  | cons z zs ih =>
    intro img
    obtain ⟨o, b⟩ := z
    cases o with
    | none =>
      rw [List.foldlM_cons]
      show (pure img >>= fun im => zs.foldlM slotSet im) = _
      rw [pure_bind, ih]
      rfl
    | some c =>
      rw [List.foldlM_cons]
      show (img.setBinary c.1 c.2 b >>= fun im => zs.foldlM slotSet im) = _
      have : writesOf ((some c, b) :: zs) = (c, b) :: writesOf zs := rfl
      rw [this, applyWrites, List.foldlM_cons]
      congr 1
      funext im
      exact ih im

theorem mem_writesOf (sl : List (Option (Int × Int))) (bits : List Bool) (p : (Int × Int) × Bool) :
    p ∈ writesOf (sl.zip bits) ↔ ∃ j : Nat, sl[j]? = some (some p.1) ∧ bits[j]? = some p.2 := by
  unfold writesOf
  rw [List.mem_filterMap]
  constructor
  · rintro ⟨z, hz, he⟩
    obtain ⟨j, hj⟩ := List.mem_iff_getElem?.mp hz
    rw [List.getElem?_zip_eq_some] at hj
    obtain ⟨o, b⟩ := z
    cases o with
    | none => simp at he
    | some c =>
      simp only [Option.map_some, Option.some.injEq] at he
      subst he
      exact ⟨j, hj.1, hj.2⟩
  · rintro ⟨j, h1, h2⟩
    refine ⟨(some p.1, p.2), List.mem_iff_getElem?.mpr ⟨j, ?_⟩, rfl⟩
    rw [List.getElem?_zip_eq_some]
    exact ⟨h1, h2⟩

/-- the placement writes bit k of the stream at the module of slot k -/
theorem placement_spec (v l : Nat) (base used : Image) (sl : List (Option (Int × Int)))
    (hsl : slotsOf v l = some sl)
    (hinj : ∀ (i j : Nat) (c : Int × Int), sl[i]? = some (some c) → sl[j]? = some (some c) → i = j)
    (hrange : ∀ (k : Nat) (c : Int × Int), sl[k]? = some (some c) →
      0 ≤ c.1 ∧ c.1 ≤ 8 + 2 * (v : Int) ∧ 0 ≤ c.2 ∧ c.2 ≤ 8 + 2 * (v : Int))
    (hrb : Regular base (9 + 2 * v) (9 + 2 * v))
    (hbin : ∀ x y, used.binaryAt x y = .ok (usedFn v x y)) (fbuf : Buffer) (hinv : C16.Inv fbuf)
    (hoff : fbuf.offset = 0) (hread : fbuf.read = 0) (hlen : sl.length ≤ 8 * fbuf.buf.toList.length) :
    ∃ img1, Model.Micro.placeLoop used (8 + 2 * (v : Int)) (capOf v l).dataBits
        ((8 + 2 * (v : Int) + 3) * (8 + 2 * (v : Int) + 3)).toNat
        { x := 8 + 2 * (v : Int), y := 8 + 2 * (v : Int), dy := -1 } fbuf base = .ok img1 ∧
      Regular img1 (9 + 2 * v) (9 + 2 * v) ∧
      ∀ (k : Nat) (c : Int × Int) (b : Bool), sl[k]? = some (some c) → (unpack fbuf.buf.toList)[k]? = some b →
        px img1 c.1.toNat c.2.toNat = b := by
  have hun : C17.unread fbuf = unpack fbuf.buf.toList := by
    unfold C17.unread C17.cursor; rw [hoff, hread]; simp
  have hpl := placeLoop_eq used (usedFn v) hbin (8 + 2 * (v : Int)) (capOf v l).dataBits _
    { x := 8 + 2 * (v : Int), y := 8 + 2 * (v : Int), dy := -1 } 0 sl fbuf base hsl hinv (by omega)
    (by rw [hun, Lemmas.Bits.length_unpack]; exact hlen)
  rw [hun] at hpl
  unfold applySlots at hpl
  rw [foldlM_slotSet] at hpl
  obtain ⟨img1, he, hr1, hpx⟩ := writes_spec _ _ (writesOf (sl.zip (unpack fbuf.buf.toList))) base hrb
  refine ⟨img1, by rw [hpl]; exact he, hr1, ?_⟩
  intro k c b hk hb
  obtain ⟨hc1, hc2, hc3, hc4⟩ := hrange k c hk
  have hpos : (((c.1.toNat : Nat) : Int), ((c.2.toNat : Nat) : Int)) = c := by
    apply Prod.ext <;> simp <;> omega
  refine (hpx _ _ (by omega) (by omega)).2 b ?_ ?_
  · intro p hpm hpe
    rw [hpos] at hpe
    obtain ⟨j, h1, h2⟩ := (mem_writesOf ..).1 hpm
    rw [hpe] at h1
    have := hinj j k c h1 hk
    subst this
    rw [hb] at h2
    exact (Option.some.inj h2).symm
  · refine ⟨(c, b), (mem_writesOf ..).2 ⟨k, hk, hb⟩, ?_⟩
    rw [hpos]

/-! ### the decoder -/

theorem regular_normalised (img : Image) (n : Nat) (hr : Regular img n n) :
    ({ pix := img.pix, stride := img.stride, maxX := img.dx, maxY := img.dy } : Image) = img := by
  obtain ⟨h0, h1, h2, h3, _, _, _⟩ := hr
  cases img
  simp only [Image.dx, Image.dy] at *
  subst h0 h1 h2 h3
  simp

theorem decode_spec (v l f m : Nat) (h1 : 1 ≤ v) (h4 : v ≤ 4) (hf : f < 8) (hm : m < 4)
    (segments : List Segment) (img3 img4 used pat : Image) (c : Nat) (sl : List (Option (Int × Int)))
    (cw data : List Nat) (cap : Gen.GCap)
    (hr3 : Regular img3 (9 + 2 * v) (9 + 2 * v)) (hr4 : Regular img4 (9 + 2 * v) (9 + 2 * v))
    (hru : Regular used (9 + 2 * v) (9 + 2 * v)) (hrp : Regular pat 24 17)
    (hmask : Image.mask img3 used pat = .ok img4)
    (hused : imgAt Model.Micro.usedList (v : Int) = .ok (some used))
    (hpat : imgAt Model.Micro.maskList (m : Int) = .ok (some pat))
    (hbin : ∀ x y, used.binaryAt x y = .ok (usedFn v x y))
    (hfu : ∀ i, i < 8 → usedFn v ((8 : Nat) : Int) ((i + 1 : Nat) : Int) = true ∧
      usedFn v ((i + 1 : Nat) : Int) ((8 : Nat) : Int) = true)
    (hc : Gen.Micro.encodedFormat[4 * f + m]? = some c)
    (hraw : Gen.Micro.rawFormatTable[f]? = some ((v : Int), (l : Int)))
    (hfc : ∀ i : Nat, i < 8 → px img3 8 (i + 1) = c.testBit i ∧ px img3 (i + 1) 8 = c.testBit (14 - i))
    (hcap : capAt Gen.Micro.capacityTable (v : Int) (l : Int) = .ok cap)
    (hsl : mslots (usedFn v) (8 + 2 * (v : Int)) cap.dataBits ((8 + 2 * (v : Int) + 3) * (8 + 2 * (v : Int) + 3)).toNat
      { x := 8 + 2 * (v : Int), y := 8 + 2 * (v : Int), dy := -1 } 0 = some sl)
    (hlen : sl.length = 8 * cw.length) (hcwb : ∀ b ∈ cw, b < 256)
    (hrange : ∀ (k : Nat) (c : Int × Int), sl[k]? = some (some c) →
      0 ≤ c.1 ∧ c.1 ≤ 8 + 2 * (v : Int) ∧ 0 ≤ c.2 ∧ c.2 ≤ 8 + 2 * (v : Int))
    (hbits : ∀ (k : Nat) (c : Int × Int) (b : Bool), sl[k]? = some (some c) → (unpack cw)[k]? = some b →
      px img3 c.1.toNat c.2.toNat = b)
    (hnone : ∀ k : Nat, sl[k]? = some none → (unpack cw)[k]? = some false)
    (hrs : RS.decode cw (cap.correction : Int) = .ok cw) (hdata : cw.take cap.data = data)
    (hdl : cap.data ≤ cw.length)
    (hseg : Model.Micro.segmentLoop (v : Int) (cap.data * 8 + 8) { buf := data.toArray } #[] = .ok segments) :
    Model.Micro.decodeBitmap img4 = .ok { version := v, level := l, mask := m, segments := segments } := by
  unfold Model.Micro.decodeBitmap Model.Micro.decodeBitmapFull
  have hdx : img4.dx = ((9 + 2 * v : Nat) : Int) := by unfold Image.dx; rw [hr4.maxX, hr4.minX]; omega
  have hdy : img4.dy = ((9 + 2 * v : Nat) : Int) := by unfold Image.dy; rw [hr4.maxY, hr4.minY]; omega
  simp only [regular_normalised img4 _ hr4, Std.Legacy.Range.forIn_eq_forIn_range', Std.Legacy.Range.size,
    Nat.sub_zero, Nat.add_sub_cancel, Nat.div_one]
  -- format information
  have hfmt := decodeFormat_read img4 _ hr4 (by omega) f m c hf hm hc _ hraw ?_ ?_
  · obtain ⟨hloop, hdec⟩ := hfmt
    unfold readRawM at hloop
    have hinv := mask_involutive img3 used pat img4 _ _ 24 17 (by omega) (by omega) hr3 hru hrp (by omega) (by omega) hmask
    simp only [hloop, Out.bind_ok, hdec, hdx, hdy]
    rw [if_neg (by omega)]
    simp only [hused, hpat, deref, Out.bind_ok, hinv, hcap]
    -- reading
    obtain ⟨rbuf, hrl, hrinv, hrabs⟩ := readLoop_eq used img3 (usedFn v)
      (fun x y => if 0 ≤ x ∧ x < ((9 + 2 * v : Nat) : Int) ∧ 0 ≤ y ∧ y < ((9 + 2 * v : Nat) : Int) then px img3 x.toNat y.toNat else false)
      hbin (fun x y => binaryAt_spec img3 _ _ hr3 x y) (8 + 2 * (v : Int)) cap.dataBits _ _ 0 sl {} hsl C16.inv_empty rfl
    rw [C16.abs_empty, List.nil_append] at hrabs
    have hstream : rbuf.buf.toList = cw := by
      rw [C16.bytes_are_packing rbuf hrinv, hrabs]
      have : sl.map (slotVal fun x y => if 0 ≤ x ∧ x < ((9 + 2 * v : Nat) : Int) ∧ 0 ≤ y ∧ y < ((9 + 2 * v : Nat) : Int)
          then px img3 x.toNat y.toNat else false) = unpack cw := by
        apply List.ext_getElem?
        intro k
        rw [List.getElem?_map]
        cases hk : sl[k]? with
        | none =>
          have : sl.length ≤ k := by
            rcases Nat.lt_or_ge k sl.length with h | h
            · rw [List.getElem?_eq_getElem h] at hk; cases hk
            · exact h
          rw [List.getElem?_eq_none (by rw [Lemmas.Bits.length_unpack]; omega)]
          rfl
        | some o =>
          have hklt : k < sl.length := by
            rcases Nat.lt_or_ge k sl.length with h | h
            · exact h
            · rw [List.getElem?_eq_none h] at hk; cases hk
          have hku : k < (unpack cw).length := by rw [Lemmas.Bits.length_unpack]; omega
          cases o with
          | none =>
            rw [hnone k hk]
            rfl
          | some c' =>
            have hb := hbits k c' _ hk (List.getElem?_eq_getElem hku)
            obtain ⟨r1, r2, r3, r4⟩ := hrange k c' hk
            rw [List.getElem?_eq_getElem hku, ← hb]
            simp only [Option.map_some, slotVal]
            rw [if_pos (by omega)]
      rw [this]
      exact Lemmas.Bits.pack_unpack cw hcwb
    simp only [hrl, Out.bind_ok, hstream, Model.Micro.RS_SYNDROMES, hrs]
    rw [if_neg (by omega), if_neg (by omega)]
    simp only [pure_bind, hdata, hseg, Out.bind_ok]
    rfl
  · intro i hi
    rw [mask_spec img3 used pat img4 _ _ 24 17 (by omega) (by omega) hr3 hru hrp (by omega) (by omega) hmask
      8 (i + 1) (by omega) (by omega)]
    have hup : px used 8 (i + 1) = true := by
      have h := hbin ((8 : Nat) : Int) ((i + 1 : Nat) : Int)
      rw [binaryAt_spec _ _ _ hru, if_pos (by omega), (hfu i hi).1] at h
      simp only [Int.toNat_natCast] at h
      injection h
    rw [hup, (hfc i hi).1]
    simp
  · intro i hi
    rw [mask_spec img3 used pat img4 _ _ 24 17 (by omega) (by omega) hr3 hru hrp (by omega) (by omega) hmask
      (i + 1) 8 (by omega) (by omega)]
    have hup : px used (i + 1) 8 = true := by
      have h := hbin ((i + 1 : Nat) : Int) ((8 : Nat) : Int)
      rw [binaryAt_spec _ _ _ hru, if_pos (by omega), (hfu i hi).2] at h
      simp only [Int.toNat_natCast] at h
      injection h
    rw [hup, (hfc i hi).2]
    simp

/-! ### the encoder up to the mask choice -/

/-- the encoder of a valid description up to the mask choice: the codeword stream, the placement on
the base image, and what remains: the mask choice followed by format information + masking -/
theorem pipeline (v l : Nat) (segs : List Segment) (hp : (v, l) ∈ pairs) (hs : ∀ s ∈ segs, SegOK v s)
    (hfit : (segs.map fun s => Spec.Valid.Micro.segBits s v).sum ≤ (capOf v l).dataBits) :
    ∃ (f : Nat) (data : List Nat) (fbuf : Buffer) (sym : Image) (sl : List (Option (Int × Int))),
      f < 8 ∧ Gen.Micro.rawFormatTable[f]? = some ((v : Int), (l : Int)) ∧
      (∀ mask, Model.Micro.encodeSegments { version := v, level := l, mask := mask, segments := segs } {} = .ok fbuf) ∧
      fbuf.buf.toList = data ++ parityOf (capOf v l).correction data ∧
      data.length = (capOf v l).data ∧ (∀ x ∈ data, x < 256) ∧
      unpack data = segs.flatMap (segStream v) ++
        mtail (termLen v) (capOf v l).dataBits ((capOf v l).data * 8) (segs.flatMap (segStream v)).length ∧
      slotsOf v l = some sl ∧ sl.length = 8 * fbuf.buf.toList.length ∧
      Model.Micro.placeLoop (Image.ofGen (usedGen v)) (8 + 2 * (v : Int)) (capOf v l).dataBits
        ((8 + 2 * (v : Int) + 3) * (8 + 2 * (v : Int) + 3)).toNat
        { x := 8 + 2 * (v : Int), y := 8 + 2 * (v : Int), dy := -1 } fbuf (Image.ofGen (baseGen v)) = .ok sym ∧
      Regular sym (9 + 2 * v) (9 + 2 * v) ∧
      (∀ (k : Nat) (c : Int × Int) (b : Bool), sl[k]? = some (some c) → (unpack fbuf.buf.toList)[k]? = some b →
        px sym c.1.toNat c.2.toNat = b) ∧
      (∀ k : Nat, sl[k]? = some none → (unpack fbuf.buf.toList)[k]? = some false) ∧
      (∀ (k : Nat) (c : Int × Int), sl[k]? = some (some c) →
        0 ≤ c.1 ∧ c.1 ≤ 8 + 2 * (v : Int) ∧ 0 ≤ c.2 ∧ c.2 ≤ 8 + 2 * (v : Int) ∧ usedFn v c.1 c.2 = false) ∧
      ∀ mask : Int, -1 ≤ mask → mask ≤ 3 →
        Model.Micro.encodeToBitmap { version := v, level := l, mask := mask, segments := segs } =
          (chooseMaskM mask sym (Image.ofGen (usedGen v)) >>= finishM (f : Int) (Image.ofGen (usedGen v)) sym) := by
  obtain ⟨hv1, hv4, hl4, hcap, ⟨f, hfmt, hf8, hraw⟩, ⟨hD4, hDd, hd, h2, h68⟩, -, sl, hsl, hsllen, hinj, hslr⟩ :=
    pair_facts v l hp
  obtain ⟨hbase, hused, hrb, hru, hbin, hfu⟩ := version_images v hv1 hv4
  have hstream := fun mask => stream_layout v l mask segs (capOf v l) hcap hv1 hv4 hD4 hDd hd h2 h68 hs hfit
  obtain ⟨data, fbuf, hE, hinv, hw, ho, hrd, hbytes, hdl, hdb, hun⟩ := hstream 0
  obtain ⟨pl, pb, -, -⟩ := parityOf_facts (capOf v l).correction h2 h68 data hdb
  have hflen : fbuf.buf.toList.length = (capOf v l).data + (capOf v l).correction := by
    rw [hbytes, List.length_append, hdl, pl]
  have hrange : ∀ (k : Nat) (c : Int × Int), sl[k]? = some (some c) →
      0 ≤ c.1 ∧ c.1 ≤ 8 + 2 * (v : Int) ∧ 0 ≤ c.2 ∧ c.2 ≤ 8 + 2 * (v : Int) ∧ usedFn v c.1 c.2 = false :=
    fun k c hk => (hslr k).2 c hk
  obtain ⟨sym, hplace, hrs, hpx⟩ := placement_spec v l _ _ sl hsl hinj
    (fun k c hk => ⟨(hrange k c hk).1, (hrange k c hk).2.1, (hrange k c hk).2.2.1, (hrange k c hk).2.2.2.1⟩)
    hrb hbin fbuf hinv ho hrd (by rw [hsllen, hflen]; omega)
  have hE' : ∀ mask, Model.Micro.encodeSegments { version := v, level := l, mask := mask, segments := segs } {} = .ok fbuf :=
    fun mask => hE
  refine ⟨f, data, fbuf, sym, sl, hf8, hraw, hE', hbytes, hdl, hdb, hun, hsl, by rw [hsllen, hflen], hplace, hrs,
    hpx, ?_, hrange, ?_⟩
  · intro k hk
    obtain ⟨hk1, hk2⟩ := (hslr k).1 hk
    have hL : (segs.flatMap (segStream v)).length ≤ (capOf v l).dataBits := by
      rw [flatMap_segStream_length]; exact hfit
    have hlenu : (unpack data).length = 8 * (capOf v l).data := by rw [Lemmas.Bits.length_unpack, hdl]
    have hkd : k < (unpack data).length := by omega
    rw [hbytes, Lemmas.Bits.unpack_append, List.getElem?_append_left hkd, List.getElem?_eq_getElem hkd]
    congr 1
    have hmt := mtail_length (termLen v) (capOf v l).dataBits ((capOf v l).data * 8) (segs.flatMap (segStream v)).length
      hD4 (by omega) hDd hL
    have hidx : k - (segs.flatMap (segStream v)).length <
        (mtail (termLen v) (capOf v l).dataBits ((capOf v l).data * 8) (segs.flatMap (segStream v)).length).length := by
      omega
    have := mtail_high (termLen v) (capOf v l).dataBits ((capOf v l).data * 8) (segs.flatMap (segStream v)).length
      hD4 (k - (segs.flatMap (segStream v)).length) hidx (by omega)
    rw [← this]
    simp only [hun]
    rw [List.getElem_append_right (by omega)]
  · intro mask hm1 hm3
    rw [encodeToBitmap_eq _ (f : Int) (by simp only; omega) (by simp only; omega) hfmt (by omega)
      (by simp only [Gen.Micro.c_maskAuto, Gen.Micro.c_maskMax]; omega)]
    simp only [hE' mask, Out.bind_ok, hbase, hused, deref, hcap, hplace]

/-! ### the theorems -/

/-- the fields of a valid description as naturals, its pair, its segments -/
theorem valid_fields (q : QRCode) (hv : Micro.Valid q) :
    ∃ v l : Nat, q.version = (v : Int) ∧ q.level = (l : Int) ∧ (v, l) ∈ pairs ∧
      (∀ s ∈ q.segments, SegOK v s) ∧
      (q.segments.map fun s => Spec.Valid.Micro.segBits s v).sum ≤ (capOf v l).dataBits := by
  obtain ⟨hv1, hv4⟩ := hv.version
  have hp := valid_pair q hv
  refine ⟨q.version.toNat, q.level.toNat, by omega, by have := hv.level; omega, hp, hv.segments, ?_⟩
  have hdb := (pair_facts _ _ hp).2.2.2.2.2.2.1
  have := hv.fits
  rw [hdb] at this
  exact this

/-- every valid description is accepted -/
theorem accepted_core (q : QRCode) (hv : Micro.Valid q) : ∃ img, Model.Micro.encodeToBitmap q = .ok img := by
  obtain ⟨v, l, hqv, hql, hp, hs, hfit⟩ := valid_fields q hv
  obtain ⟨version, level, mask, segments⟩ := q
  simp only at hqv hql hs hfit
  subst hqv hql
  obtain ⟨hm1, hm3⟩ := hv.mask
  simp only at hm1 hm3
  obtain ⟨hv1, hv4, -⟩ := pair_facts v l hp
  obtain ⟨-, -, -, hru, -, -⟩ := version_images v hv1 hv4
  obtain ⟨f, data, fbuf, sym, sl, hf8, -, -, -, -, -, -, -, -, -, hrs, -, -, -, hall⟩ := pipeline v l segments hp hs hfit
  obtain ⟨m, hm4, hch, -, -⟩ := chooseMaskM_spec v hv4 mask hm1 hm3 sym _ hrs hru
  obtain ⟨c, img3, pat, img4, hfin, -⟩ := finishM_spec v f m hv1 hv4 hf8 hm4 _ sym hru hrs
  exact ⟨img4, by rw [hall mask hm1 hm3, hch]; exact hfin⟩

/-- the round trip -/
theorem roundtrip_core (q : QRCode) (hv : Micro.Valid q) (hne : NonEmptySegments q) :
    ∃ img m, Model.Micro.encodeToBitmap q = .ok img ∧ (0 ≤ q.mask → m = q.mask) ∧ 0 ≤ m ∧ m ≤ 3 ∧
      Model.Micro.decodeBitmap img = .ok { q with mask := m } := by
  obtain ⟨v, l, hqv, hql, hp, hs, hfit⟩ := valid_fields q hv
  obtain ⟨version, level, mask, segments⟩ := q
  simp only at hqv hql hs hfit
  subst hqv hql
  obtain ⟨hm1, hm3⟩ := hv.mask
  simp only at hm1 hm3
  have hne' : ∀ s ∈ segments, s.data ≠ [] := hne
  obtain ⟨hv1, hv4, hl4, hcap, -, ⟨hD4, hDd, hd, h2, h68⟩, -, -⟩ := pair_facts v l hp
  obtain ⟨hbase, hused, hrb, hru, hbin, hfu⟩ := version_images v hv1 hv4
  obtain ⟨f, data, fbuf, sym, sl, hf8, hraw, hE, hbytes, hdl, hdb, hun, hsl, hsllen, hplace, hrs, hpx, hnone,
    hrange, hall⟩ := pipeline v l segments hp hs hfit
  obtain ⟨m, hm4, hch, hmeq, -⟩ := chooseMaskM_spec v hv4 mask hm1 hm3 sym _ hrs hru
  obtain ⟨c, img3, pat, img4, hfin, hc, hpat, hrp, hr3, hr4, hmask, hpx3, hfc⟩ :=
    finishM_spec v f m hv1 hv4 hf8 hm4 _ sym hru hrs
  obtain ⟨pl, pb, -, hdec⟩ := parityOf_facts (capOf v l).correction h2 h68 data hdb
  refine ⟨img4, (m : Int), by rw [hall mask hm1 hm3, hch]; exact hfin, hmeq, by omega, by omega, ?_⟩
  have hL : (segments.flatMap (segStream v)).length ≤ (capOf v l).dataBits := by
    rw [flatMap_segStream_length]; exact hfit
  refine decode_spec v l f m hv1 hv4 hf8 hm4 segments img3 img4 _ pat c sl fbuf.buf.toList data (capOf v l)
    hr3 hr4 hru hrp hmask hused hpat hbin hfu hc hraw hfc hcap hsl hsllen ?_
    (fun k c hk => ⟨(hrange k c hk).1, (hrange k c hk).2.1, (hrange k c hk).2.2.1, (hrange k c hk).2.2.2.1⟩)
    ?_ hnone ?_ ?_ ?_ ?_
  · intro b hb
    rw [hbytes] at hb
    rcases List.mem_append.mp hb with hb | hb
    · exact hdb b hb
    · exact pb b hb
  · intro k c' b hk hb
    obtain ⟨r1, r2, r3, r4, r5⟩ := hrange k c' hk
    have hcast : ∀ z : Int, 0 ≤ z → ((z.toNat : Nat) : Int) = z := fun z hz => Int.toNat_of_nonneg hz
    rw [hpx3 _ _ (by omega) (by omega) (by rw [hcast _ r1, hcast _ r3]; exact r5)]
    exact hpx k c' b hk hb
  · rw [hbytes]; exact hdec
  · rw [hbytes, ← hdl, List.take_left' rfl]
  · rw [hbytes, List.length_append]; omega
  · have hp' := segments_parse v hv1 hv4 segments hs hne' _
      (mtail_ok (termLen v) (capOf v l).dataBits ((capOf v l).data * 8) (segments.flatMap (segStream v)).length)
      data hdb hun #[] ((capOf v l).data * 8 + 8) (by
        have := segs_length_le v segments hs
        omega)
    simpa using hp'

/-- automatic masking emits the symbol of the explicit pattern `autoMask` returns -/
theorem auto_core (q : QRCode) (hv : Micro.Valid q) (hauto : q.mask = -1) :
    ∃ (img used base sym : Image) (buf : Buffer) (cap : Gen.GCap) (m : Int),
      Model.Micro.encodeToBitmap q = .ok img ∧ 0 ≤ m ∧ m ≤ 3 ∧
      Model.Micro.encodeToBitmap { q with mask := m } = .ok img ∧
      imgAt Model.Micro.usedList q.version = .ok (some used) ∧
      imgAt Model.Micro.baseList q.version = .ok (some base) ∧
      capAt Gen.Micro.capacityTable q.version q.level = .ok cap ∧
      Model.Micro.encodeSegments q {} = .ok buf ∧
      Model.Micro.placeLoop used (8 + 2 * q.version) cap.dataBits
        ((8 + 2 * q.version + 3) * (8 + 2 * q.version + 3)).toNat
        { x := 8 + 2 * q.version, y := 8 + 2 * q.version, dy := -1 } buf base = .ok sym ∧
      Model.Micro.autoMask sym used = .ok m := by
  obtain ⟨v, l, hqv, hql, hp, hs, hfit⟩ := valid_fields q hv
  obtain ⟨version, level, mask, segments⟩ := q
  simp only at hqv hql hs hfit hauto
  subst hqv hql hauto
  obtain ⟨hv1, hv4, hl4, hcap, -⟩ := pair_facts v l hp
  obtain ⟨hbase, hused, hrb, hru, hbin, hfu⟩ := version_images v hv1 hv4
  obtain ⟨f, data, fbuf, sym, sl, hf8, -, hE, -, -, -, -, -, -, hplace, hrs, -, -, -, hall⟩ :=
    pipeline v l segments hp hs hfit
  obtain ⟨m, hm4, hch, -, hauto⟩ := chooseMaskM_spec v hv4 (-1) (by omega) (by omega) sym _ hrs hru
  obtain ⟨c, img3, pat, img4, hfin, -⟩ := finishM_spec v f m hv1 hv4 hf8 hm4 _ sym hru hrs
  refine ⟨img4, _, _, sym, fbuf, capOf v l, (m : Int), ?_, by omega, by omega, ?_, hused, hbase, hcap, hE (-1), hplace,
    hauto rfl⟩
  · rw [hall (-1) (by omega) (by omega), hch]; exact hfin
  · show Model.Micro.encodeToBitmap { version := v, level := l, mask := (m : Int), segments := segments } = _
    rw [hall (m : Int) (by omega) (by omega)]
    have : chooseMaskM (m : Int) sym (Image.ofGen (usedGen v)) = .ok (m : Int) := by
      unfold chooseMaskM
      rw [if_neg (by unfold Gen.Micro.c_maskAuto; omega)]
      rfl
    rw [this]
    exact hfin

end QRV.Lemmas.MRT
