import QRV.Lemmas.RTFinal
import QRV.Lemmas.EncScan
/-
C10 helpers: the automatic mask selection loop of `Model.QR.encodeToBitmap` returns the first
pattern attaining the minimum of the eight penalty scores, and the encoder with automatic masking
emits what it emits for that explicit pattern.
-/
namespace QRV.Lemmas.Enc
open QRV QRV.Model QRV.Model.Bitmap QRV.Model.Sym QRV.Model.QR QRV.Model.Bits QRV.Props QRV.Props.C18
open QRV.Lemmas.RT QRV.Spec.Valid

/-- the penalty the QR model computes for candidate pattern `i`: mask the symbol, place the format
information of (level, i) and the dark module, score (`Props.C10.qrScore`) -/
def score (level w : Int) (used img : Image) (i : Nat) : Out Nat := do
  let pat ← deref (← imgAt maskList i)
  let tmp ← Image.mask img used pat
  let format ← natAt Gen.QR.encodedFormat (level * 8 + i)
  let tmp ← placeFormat tmp w format
  tmp.point

/-- state update of the selection loop: (mask, minPoint, first) -/
def autoStep (s : Int × Nat × Bool) (i p : Nat) : Int × Nat × Bool :=
  if (!AUTO_MASK_INIT_ZERO && s.2.2 || decide (p < s.2.1)) = true then ((i : Int), p, false) else (s.1, s.2.1, false)

theorem autoLoop_eq (level w : Int) (used img : Image) :
    autoLoop level w used img = forIn (List.range' 0 8) ((0 : Int), (0 : Nat), true)
      (fun i s => score level w used img i >>= fun p => pure (ForInStep.yield (autoStep s i p))) := by
  unfold autoLoop score
  have h8 : Gen.QR.c_maskMax.toNat = 8 := rfl
  simp only [Std.Legacy.Range.forIn_eq_forIn_range', Std.Legacy.Range.size, h8, bind_assoc]
  congr 1
  funext i s
  have hite : ∀ p : Nat, (if (!AUTO_MASK_INIT_ZERO && s.snd.snd || decide (p < s.snd.fst)) = true then
          (pure (ForInStep.yield ((i : Int), p, false)) : Out (ForInStep (Int × Nat × Bool)))
        else pure (ForInStep.yield (s.fst, s.snd.fst, false))) = pure (ForInStep.yield (autoStep s i p)) := by
    intro p
    unfold autoStep
    split <;> rfl
  simp only [hite]

/-- a loop whose body computes a value and updates the state: if every computation succeeds the
loop is the fold of the update -/
theorem forIn_all_ok {σ α ι : Type} (g : ι → Out α) (f : ι → α) (st : σ → ι → α → σ) (l : List ι)
    (hg : ∀ i ∈ l, g i = .ok (f i)) : ∀ s : σ,
    forIn l s (fun i s => g i >>= fun p => pure (ForInStep.yield (st s i p))) =
      Out.ok (l.foldl (fun s i => st s i (f i)) s) := by
  induction l with
  | nil => intro s; rfl
  | cons i l ih =>
    intro s
    rw [List.forIn_cons, hg i (List.mem_cons_self ..)]
    exact ih (fun j hj => hg j (List.mem_cons_of_mem _ hj)) _

/-- what the selection loop holds after the first `k` candidates with scores `f` -/
def AutoInv (f : Nat → Nat) (k : Nat) (s : Int × Nat × Bool) : Prop :=
  (k = 0 ∧ s = ((0 : Int), (0 : Nat), true)) ∨
  (0 < k ∧ s.2.2 = false ∧ ∃ m : Nat, m < k ∧ s.1 = (m : Int) ∧ s.2.1 = f m ∧
    (∀ j, j < k → f m ≤ f j) ∧ ∀ j, j < m → f m < f j)

theorem auto_fold (f : Nat → Nat) (k : Nat) :
    AutoInv f k ((List.range k).foldl (fun s i => autoStep s i (f i)) ((0 : Int), (0 : Nat), true)) := by
  induction k with
  | zero => exact Or.inl ⟨rfl, rfl⟩
  | succ k ih =>
    rw [List.range_succ, List.foldl_append]
    simp only [List.foldl_cons, List.foldl_nil]
    generalize (List.range k).foldl (fun s i => autoStep s i (f i)) ((0 : Int), (0 : Nat), true) = s at ih
    right
    have hz : AUTO_MASK_INIT_ZERO = false := rfl
    unfold autoStep
    rw [hz]
    rcases ih with ⟨rfl, rfl⟩ | ⟨hk, hfirst, m, hmk, hm, hmin, hle, hlt⟩
    · simp only [Bool.not_false, Bool.true_and, Bool.true_or, if_true]
      exact ⟨by omega, trivial, 0, by omega, rfl, rfl, fun j hj => by
        have : j = 0 := by omega
        subst this; exact Nat.le_refl _, fun j hj => absurd hj (Nat.not_lt_zero j)⟩
    · rw [hfirst]
      simp only [Bool.not_false, Bool.and_false, Bool.false_or, decide_eq_true_eq]
      by_cases hc : f k < s.2.1
      · rw [if_pos hc]
        refine ⟨by omega, rfl, k, by omega, rfl, rfl, ?_, ?_⟩
        · intro j hj
          by_cases hjk : j = k
          · subst hjk; exact Nat.le_refl _
          · have := hle j (by omega); omega
        · intro j hj
          have := hle j hj; omega
      · rw [if_neg hc]
        refine ⟨by omega, rfl, m, by omega, hm, hmin, ?_, hlt⟩
        intro j hj
        by_cases hjk : j = k
        · subst hjk; omega
        · exact hle j (by omega)

/-- every candidate score exists on a regular symbol of a valid version -/
theorem score_ok (v l : Nat) (h1 : 1 ≤ v) (h40 : v ≤ 40) (hl : l < 4) (used img : Image)
    (hru : Regular used (17 + 4 * v) (17 + 4 * v)) (hr : Regular img (17 + 4 * v) (17 + 4 * v))
    (k : Nat) (hk : k < 8) : ∃ p, score (l : Int) (16 + 4 * (v : Int)) used img k = .ok p := by
  obtain ⟨pat, hpat, hrp⟩ := mask_image k hk
  obtain ⟨tmp, htmp, hrt⟩ := mask_ok img used pat _ _ 184 177 (by omega) (by omega) hr hru hrp (by omega) (by omega)
  obtain ⟨c, hc, _⟩ := natAt_format l k hl hk
  obtain ⟨tmp', htmp', hrt', _⟩ := placeFormat_spec v h1 h40 tmp hrt c
  obtain ⟨pt, hpt⟩ := point_ok tmp' _ _ hrt'
  refine ⟨pt, ?_⟩
  unfold score
  simp only [hpat, Out.bind_ok, deref, htmp, hc, htmp', hpt]

/-- the value of a score (0 if it does not exist) -/
def scoreVal (level w : Int) (used img : Image) (i : Nat) : Nat :=
  match score level w used img i with
  | .ok p => p
  | _ => 0

/-- the automatic mask choice: all eight scores exist, and the loop returns the first pattern
attaining their minimum -/
theorem chooseMask_argmin (v l : Nat) (h1 : 1 ≤ v) (h40 : v ≤ 40) (hl : l < 4) (used img : Image)
    (hru : Regular used (17 + 4 * v) (17 + 4 * v)) (hr : Regular img (17 + 4 * v) (17 + 4 * v)) :
    ∃ (sc : Nat → Nat) (m : Nat),
      (∀ j, j < 8 → score (l : Int) (16 + 4 * (v : Int)) used img j = .ok (sc j)) ∧ m < 8 ∧
      chooseMask (-1) (l : Int) (16 + 4 * (v : Int)) used img = .ok (m : Int) ∧
      (∀ j, j < 8 → sc m ≤ sc j) ∧ (∀ j, j < m → sc m < sc j) := by
  have hsc : ∀ j, j < 8 → score (l : Int) (16 + 4 * (v : Int)) used img j =
      .ok (scoreVal (l : Int) (16 + 4 * (v : Int)) used img j) := by
    intro j hj
    obtain ⟨p, hp⟩ := score_ok v l h1 h40 hl used img hru hr j hj
    unfold scoreVal
    rw [hp]
  have hloop := forIn_all_ok (score (l : Int) (16 + 4 * (v : Int)) used img)
    (scoreVal (l : Int) (16 + 4 * (v : Int)) used img) autoStep (List.range' 0 8)
    (fun i hi => hsc i (by have := List.mem_range'_1.mp hi; omega)) ((0 : Int), (0 : Nat), true)
  rw [← autoLoop_eq, ← List.range_eq_range'] at hloop
  have hinv := auto_fold (scoreVal (l : Int) (16 + 4 * (v : Int)) used img) 8
  generalize (List.range 8).foldl (fun s i => autoStep s i (scoreVal (l : Int) (16 + 4 * (v : Int)) used img i))
    ((0 : Int), (0 : Nat), true) = s at hloop hinv
  rcases hinv with ⟨h0, -⟩ | ⟨-, -, m, hm8, hm, -, hle, hlt⟩
  · cases h0
  · refine ⟨_, m, hsc, hm8, ?_, hle, hlt⟩
    unfold chooseMask
    rw [if_pos (show (-1 : Int) = Gen.QR.c_maskAuto from rfl), hloop, Out.bind_ok, hm]
    rfl

/-- the encoder of a valid description up to the mask choice: the interleaved codewords, the
function-pattern images, the placement and the version information all succeed, and what remains
is the mask choice followed by format information + masking -/
theorem encode_pipeline (q : QRCode) (hv : QR.Valid q) :
    ∃ (ibuf : Buffer) (base used img1 sym : Image),
      encodeToBits q {} = .ok ibuf ∧
      imgAt baseList q.version = .ok (some base) ∧ imgAt usedList q.version = .ok (some used) ∧
      placeLoop used (16 + 4 * q.version) ((16 + 4 * q.version + 3) * (16 + 4 * q.version + 3)).toNat
        { x := 16 + 4 * q.version, y := 16 + 4 * q.version, dy := -1 } ibuf base = .ok img1 ∧
      versionStep q.version (16 + 4 * q.version) img1 = .ok sym ∧
      Regular used (17 + 4 * q.version.toNat) (17 + 4 * q.version.toNat) ∧
      Regular sym (17 + 4 * q.version.toNat) (17 + 4 * q.version.toNat) ∧
      ∀ mask : Int, -1 ≤ mask → mask ≤ 7 →
        encodeToBitmap { q with mask := mask } =
          (chooseMask mask q.level (16 + 4 * q.version) used sym >>= finish q.level (16 + 4 * q.version) used sym) := by
  obtain ⟨ebuf, hE, hEsize, hEbytes, -⟩ := stream_roundtrip q hv
  obtain ⟨version, level, mask, segments⟩ := q
  obtain ⟨⟨hv1, hv40⟩, ⟨hl0, hl4⟩, -, -, -⟩ := hv
  simp only at hv1 hv40 hl0 hl4 hEsize
  obtain ⟨v, rfl⟩ := Int.eq_ofNat_of_zero_le (show 0 ≤ version by omega)
  obtain ⟨l, rfl⟩ := Int.eq_ofNat_of_zero_le hl0
  have h1 : 1 ≤ v := by omega
  have h40 : v ≤ 40 := by omega
  have hl : l < 4 := by omega
  simp only [Int.toNat_natCast] at hEsize ⊢
  obtain ⟨cap, hcapAt, hcapTbl, hct, hcd, -⟩ := capAt_valid v l h1 h40 hl
  obtain ⟨blks, ibuf, hsplit, hil, hiInv, hiw, hio, hir, hisz, -, -⟩ :=
    blocks_roundtrip v l h1 h40 hl cap hcapTbl ebuf.buf.toList (by rw [Array.length_toList, hEsize, hcd]) hEbytes
  have hbits : ∀ mask', encodeToBits { version := v, level := l, mask := mask', segments := segments } {} = .ok ibuf := by
    intro mask'
    have hE' : Model.QR.encodeSegments { version := v, level := l, mask := mask', segments := segments } {} = .ok ebuf := hE
    unfold encodeToBits
    simp only [hE', Out.bind_ok, hcapAt, hsplit, hil]
  obtain ⟨hbase, hused, hrb, hru, hbin⟩ := version_images v h1 h40
  obtain ⟨cs, hwalk, hlen⟩ := walk_version v h1 h40
  have hilen : ibuf.buf.toList.length = cap.total := by rw [Array.length_toList, hisz]
  have hlen' : 8 * ibuf.buf.toList.length ≤ cs.length := by rw [hilen, hct]; exact hlen
  obtain ⟨img1, hplace, hr1, -⟩ := placement_spec v _ _ hrb hbin ibuf hiInv hio hir cs hwalk hlen'
  obtain ⟨img2, hvers, hr2, -⟩ := versionStep_spec v h1 h40 img1 hr1
  refine ⟨ibuf, _, _, img1, img2, hbits mask, hbase, hused, hplace, hvers, hru, hr2, ?_⟩
  intro mask' hm1 hm7
  have e1 : versionIsValid (v : Int) = true := by
    unfold versionIsValid Gen.QR.c_versionMin Gen.QR.c_versionMax
    rw [Bool.and_eq_true, decide_eq_true_eq, decide_eq_true_eq]; omega
  have e2 : levelIsValid (l : Int) = true := by
    unfold levelIsValid Gen.QR.c_levelMin Gen.QR.c_levelMax
    rw [Bool.and_eq_true, decide_eq_true_eq, decide_eq_true_eq]; omega
  have e3 : (v : Int) ≠ 0 := by omega
  have e4 : maskIsValid mask' = true := by
    unfold maskIsValid Gen.QR.c_maskAuto Gen.QR.c_maskMin Gen.QR.c_maskMax
    rw [Bool.or_eq_true, Bool.and_eq_true, beq_iff_eq, decide_eq_true_eq, decide_eq_true_eq]; omega
  rw [encodeToBitmap_eq _ e1 e2 e3 e4]
  simp only [hbits mask', Out.bind_ok, hbase, hused, deref, hplace, hvers]

/-- QR, automatic masking: the mask `m` chosen by the loop is the first pattern attaining the
minimum of the eight penalty scores (all of which exist), and the emitted symbol is the one emitted
for the explicit pattern `m` -/
theorem auto_argmin (q : QRCode) (hv : QR.Valid q) (hauto : q.mask = -1) :
    ∃ (img used sym : Image) (m : Nat) (sc : Nat → Nat),
      encodeToBitmap q = .ok img ∧ m < 8 ∧ encodeToBitmap { q with mask := (m : Int) } = .ok img ∧
      imgAt usedList q.version = .ok (some used) ∧
      (∃ ibuf base img1, encodeToBits q {} = .ok ibuf ∧ imgAt baseList q.version = .ok (some base) ∧
        placeLoop used (16 + 4 * q.version) ((16 + 4 * q.version + 3) * (16 + 4 * q.version + 3)).toNat
          { x := 16 + 4 * q.version, y := 16 + 4 * q.version, dy := -1 } ibuf base = .ok img1 ∧
        versionStep q.version (16 + 4 * q.version) img1 = .ok sym) ∧
      chooseMask (-1) q.level (16 + 4 * q.version) used sym = .ok (m : Int) ∧
      finish q.level (16 + 4 * q.version) used sym (m : Int) = .ok img ∧
      (∀ j, j < 8 → score q.level (16 + 4 * q.version) used sym j = .ok (sc j)) ∧
      (∀ j, j < 8 → sc m ≤ sc j) ∧ (∀ j, j < m → sc m < sc j) := by
  obtain ⟨ibuf, base, used, img1, sym, hbits, hbase, hused, hplace, hvers, hru, hr, hall⟩ := encode_pipeline q hv
  obtain ⟨hv1, hv40⟩ := hv.version
  obtain ⟨hl0, hl4⟩ := hv.level
  have ev : q.version = (q.version.toNat : Int) := by omega
  have el : q.level = (q.level.toNat : Int) := by omega
  obtain ⟨sc, m, hsc, hm8, hch, hle, hlt⟩ :=
    chooseMask_argmin q.version.toNat q.level.toNat (by omega) (by omega) (by omega) used sym hru hr
  obtain ⟨c, img3, pat, img4, hfin, -⟩ :=
    finish_spec q.version.toNat q.level.toNat m (by omega) (by omega) (by omega) hm8 used sym hru hr
  rw [← ev, ← el] at hsc hch hfin
  refine ⟨img4, used, sym, m, sc, ?_, hm8, ?_, hused, ⟨ibuf, base, img1, hbits, hbase, hplace, hvers⟩, hch, hfin, hsc, hle, hlt⟩
  · have := hall (-1) (by omega) (by omega)
    have hq : ({ q with mask := -1 } : QRCode) = q := by rw [← hauto]
    rw [hq] at this
    rw [this, hch]
    exact hfin
  · rw [hall (m : Int) (by omega) (by omega)]
    have : chooseMask (m : Int) q.level (16 + 4 * q.version) used sym = .ok (m : Int) := by
      unfold chooseMask
      rw [if_neg (by unfold Gen.QR.c_maskAuto; omega)]
      rfl
    rw [this]
    exact hfin

end QRV.Lemmas.Enc
