import QRV.Model.Micro
import QRV.Model.RMQR
import QRV.Lemmas.Finite
/-
C08 helpers: the entry checks of the Micro QR and rMQR encoders.
-/
namespace QRV.Lemmas.Enc
open QRV QRV.Model QRV.Model.Sym QRV.Model.Bitmap

theorem micro_formatAt_ok (v l : Nat) (hv : v ≤ 4) (hl : l < 4) :
    ∃ f, Model.Micro.formatAt (v : Int) (l : Int) = .ok f := by
  have key : (List.range 5).all (fun v => (List.range 4).all (fun l =>
      (Model.Micro.formatAt (v : Int) (l : Int)).isOk)) = true := by decide +kernel
  have := forall_lt_of_all₂ key v (by omega) l hl
  cases e : Model.Micro.formatAt (v : Int) (l : Int) with
  | ok f => exact ⟨f, rfl⟩
  | err _ => rw [e] at this; cases this
  | panic _ => rw [e] at this; cases this

theorem micro_invalid_fields_error (q : QRCode)
    (h : q.version < 1 ∨ q.version > 4 ∨ q.level < 0 ∨ q.level ≥ 4 ∨ q.mask < -1 ∨ q.mask ≥ 4) :
    (Model.Micro.encodeToBitmap q).isErr = true := by
  unfold Model.Micro.encodeToBitmap
  by_cases hv : q.version < 1 ∨ q.version > 4
  · simp only [if_pos hv, Out.bind_err]; rfl
  by_cases hl : q.level < 0 ∨ q.level ≥ 4
  · simp only [if_neg hv, if_pos hl, Out.bind_err]; rfl
  obtain ⟨v, hv'⟩ := Int.eq_ofNat_of_zero_le (show 0 ≤ q.version by omega)
  obtain ⟨l, hl'⟩ := Int.eq_ofNat_of_zero_le (show 0 ≤ q.level by omega)
  obtain ⟨f, hf⟩ := micro_formatAt_ok v l (by omega) (by omega)
  rw [← hv', ← hl'] at hf
  simp only [if_neg hv, if_neg hl, hf, Out.bind_ok]
  by_cases hf0 : f < 0
  · simp only [if_pos hf0, Out.bind_err]; rfl
  have hm : q.mask ≠ Gen.Micro.c_maskAuto ∧ (q.mask < 0 ∨ q.mask ≥ Gen.Micro.c_maskMax) := by
    unfold Gen.Micro.c_maskAuto Gen.Micro.c_maskMax
    omega
  simp only [if_neg hf0, if_pos hm, Out.bind_err]; rfl

theorem rmqr_invalid_fields_error (q : QRCode)
    (h : q.version < 0 ∨ q.version ≥ 32 ∨ q.level < 0 ∨ q.level ≥ 2) :
    (Model.RMQR.encodeToBitmap q).isErr = true := by
  unfold Model.RMQR.encodeToBitmap
  by_cases hv : Model.RMQR.versionIsValid q.version = true
  · have hl : Model.RMQR.levelIsValid q.level = false := by
      unfold Model.RMQR.versionIsValid Gen.RMQR.c_minVersion Gen.RMQR.c_maxVersion at hv
      unfold Model.RMQR.levelIsValid Gen.RMQR.c_levelMax
      rw [Bool.and_eq_true, decide_eq_true_eq, decide_eq_true_eq] at hv
      rw [Bool.and_eq_false_iff, decide_eq_false_iff_not, decide_eq_false_iff_not]
      omega
    simp only [hv, hl, Bool.not_true, Bool.not_false, Bool.false_eq_true, if_false, if_true, Out.bind_err]; rfl
  · have hv' : Model.RMQR.versionIsValid q.version = false := by simpa using hv
    simp only [hv', Bool.not_false, if_true, Out.bind_err]; rfl

end QRV.Lemmas.Enc
