import QRV.Lemmas.RTEncode
import QRV.Lemmas.SymWalk
import QRV.Spec.Symbol
/-
Format and version information of the QR encoder, in full: after `placeFormat` every module of both
copies holds its bit of the word, the dark module is dark and every other module is untouched; after
the version-information loop both 6x3 blocks hold the 18-bit word.  Stated with the positions of the
specification (`Spec.Symbol.QR.formatPos`, `versionBitAt`).
-/
namespace QRV.Lemmas.SymFormat
open QRV QRV.Model QRV.Model.Bitmap QRV.Model.Sym QRV.Props QRV.Props.C18 QRV.Model.QR QRV.Lemmas.RT
open QRV.Lemmas.SymWalk (toI)
open QRV.Spec.Symbol.QR

theorem toI_inj {a b : Nat × Nat} (h : toI a = toI b) : a = b := by
  have h1 := congrArg Prod.fst h
  have h2 := congrArg Prod.snd h
  simp only [toI] at h1 h2
  apply Prod.ext <;> omega

/-! ### positions of the format information -/

def fp1 (i : Nat) : Nat × Nat := (formatPos 0 i).1
def fp2 (n i : Nat) : Nat × Nat := if i ≤ 7 then (n - 1 - i, 8) else (8, n - 15 + i)

theorem formatPos_eq (n i : Nat) : formatPos n i = (fp1 i, fp2 n i) := rfl

theorem fp1_lo : ∀ j, j < 8 → fp1 j = (8, sk j) := by decide
theorem fp1_hi : ∀ j, j < 8 → fp1 (14 - j) = (sk j, 8) := by decide
theorem fp1_le : ∀ i, i < 15 → (fp1 i).1 ≤ 8 ∧ (fp1 i).2 ≤ 8 := by decide
theorem fp1_inj : ∀ i, i < 15 → ∀ j, j < 15 → fp1 i = fp1 j → i = j := by decide

/-- the writes of `placeFormat` before the dark module -/
def fmtA (w : Int) (format : Nat) : List ((Int × Int) × Bool) :=
  (List.range 8).flatMap (fun (i : Nat) =>
    [(((8 : Int), skipTimingPattern (i : Int)), (format >>> i) &&& 1 != 0),
     ((skipTimingPattern (i : Int), (8 : Int)), (format >>> (14 - i)) &&& 1 != 0),
     ((w - (i : Int), (8 : Int)), (format >>> i) &&& 1 != 0),
     (((8 : Int), w - (i : Int)), (format >>> (14 - i)) &&& 1 != 0)])

theorem formatWrites_split (w : Int) (fmt : Nat) :
    formatWrites w fmt = fmtA w fmt ++ [(((8 : Int), w - 7), true)] := rfl

theorem mem_fmtA (w : Int) (fmt : Nat) (p : (Int × Int) × Bool) :
    p ∈ fmtA w fmt ↔
      ∃ j, j < 8 ∧ (p = (((8 : Int), ((sk j : Nat) : Int)), fmt.testBit j) ∨
        p = ((((sk j : Nat) : Int), (8 : Int)), fmt.testBit (14 - j)) ∨
        p = ((w - (j : Int), (8 : Int)), fmt.testBit j) ∨
        p = (((8 : Int), w - (j : Int)), fmt.testBit (14 - j))) := by
  simp only [fmtA, List.mem_flatMap, List.mem_range, List.mem_cons,
    List.not_mem_nil, or_false, skip_eq, Lemmas.Bitmap.bit_eq_testBit]

/-- every write before the dark module carries bit i of the word to one of the two modules of bit i
(the eighth write of the second copy goes to the dark module's place) -/
theorem fmtA_char (n : Nat) (hn : 21 ≤ n) (fmt : Nat) (p : (Int × Int) × Bool)
    (hp : p ∈ fmtA ((n : Int) - 1) fmt) :
    ∃ i, i < 15 ∧ p.2 = fmt.testBit i ∧ (p.1 = toI (fp1 i) ∨ p.1 = toI (fp2 n i) ∨ p.1 = toI (8, n - 8)) := by
  rw [mem_fmtA] at hp
  obtain ⟨j, hj, rfl | rfl | rfl | rfl⟩ := hp
  · exact ⟨j, by omega, rfl, Or.inl (by rw [fp1_lo j hj]; rfl)⟩
  · exact ⟨14 - j, by omega, rfl, Or.inl (by rw [fp1_hi j hj]; rfl)⟩
  · refine ⟨j, by omega, rfl, Or.inr (Or.inl ?_)⟩
    unfold fp2 toI
    rw [if_pos (by omega)]
    simp only [Prod.mk.injEq]
    omega
  · by_cases h7 : j = 7
    · refine ⟨14 - j, by omega, rfl, Or.inr (Or.inr ?_)⟩
      unfold toI
      simp only [Prod.mk.injEq]
      omega
    · refine ⟨14 - j, by omega, rfl, Or.inr (Or.inl ?_)⟩
      unfold fp2 toI
      rw [if_neg (by omega)]
      simp only [Prod.mk.injEq]
      omega

/-- the modules of different bits are different -/
theorem fpos_inj (n : Nat) (hn : 21 ≤ n) (i j : Nat) (hi : i < 15) (hj : j < 15) (q : Nat × Nat)
    (h1 : q = fp1 i ∨ q = fp2 n i) (h2 : q = fp1 j ∨ q = fp2 n j ∨ q = (8, n - 8)) : i = j := by
  have hi1 := fp1_le i hi
  have hj1 := fp1_le j hj
  rcases h1 with rfl | rfl
  · rcases h2 with h2 | h2 | h2
    · exact fp1_inj i hi j hj h2
    · exfalso
      rw [h2] at hi1
      unfold fp2 at hi1
      split at hi1 <;> simp only at hi1 <;> omega
    · exfalso
      rw [h2] at hi1
      simp only at hi1
      omega
  · rcases h2 with h2 | h2 | h2
    · exfalso
      rw [← h2] at hj1
      unfold fp2 at hj1
      split at hj1 <;> simp only at hj1 <;> omega
    · unfold fp2 at h2
      split at h2 <;> split at h2 <;> simp only [Prod.mk.injEq] at h2 <;> omega
    · exfalso
      unfold fp2 at h2
      split at h2 <;> simp only [Prod.mk.injEq] at h2 <;> omega

theorem fpos_lt (n : Nat) (hn : 21 ≤ n) (i : Nat) (hi : i < 15) :
    (fp1 i).1 < n ∧ (fp1 i).2 < n ∧ (fp2 n i).1 < n ∧ (fp2 n i).2 < n := by
  have := fp1_le i hi
  refine ⟨by omega, by omega, ?_, ?_⟩ <;> unfold fp2 <;> split <;> simp only <;> omega

/-- each module of bit i is written -/
theorem fmtA_ex (n : Nat) (hn : 21 ≤ n) (fmt : Nat) (i : Nat) (hi : i < 15) :
    (∃ p ∈ fmtA ((n : Int) - 1) fmt, p.1 = toI (fp1 i)) ∧ (∃ p ∈ fmtA ((n : Int) - 1) fmt, p.1 = toI (fp2 n i)) := by
  constructor
  · by_cases h7 : i ≤ 7
    · exact ⟨_, (mem_fmtA ..).2 ⟨i, by omega, Or.inl rfl⟩, by rw [fp1_lo i (by omega)]; rfl⟩
    · refine ⟨_, (mem_fmtA ..).2 ⟨14 - i, by omega, Or.inr (Or.inl rfl)⟩, ?_⟩
      have := fp1_hi (14 - i) (by omega)
      rw [show 14 - (14 - i) = i by omega] at this
      rw [this]; rfl
  · by_cases h7 : i ≤ 7
    · refine ⟨_, (mem_fmtA ..).2 ⟨i, by omega, Or.inr (Or.inr (Or.inl rfl))⟩, ?_⟩
      unfold fp2 toI
      rw [if_pos h7]
      simp only [Prod.mk.injEq]
      omega
    · refine ⟨_, (mem_fmtA ..).2 ⟨14 - i, by omega, Or.inr (Or.inr (Or.inr rfl))⟩, ?_⟩
      unfold fp2 toI
      rw [if_neg h7]
      simp only [Prod.mk.injEq]
      omega

/-- `placeFormat` in full -/
theorem placeFormat_full (n : Nat) (hn : 21 ≤ n) (img : Image) (hr : Regular img n n) (fmt : Nat) :
    ∃ img', placeFormat img ((n : Int) - 1) fmt = .ok img' ∧ Regular img' n n ∧
      px img' 8 (n - 8) = true ∧
      (∀ i, i < 15 → px img' (fp1 i).1 (fp1 i).2 = fmt.testBit i ∧ px img' (fp2 n i).1 (fp2 n i).2 = fmt.testBit i) ∧
      (∀ x y, x < n → y < n → (x, y) ≠ (8, n - 8) → (∀ i, i < 15 → fp1 i ≠ (x, y) ∧ fp2 n i ≠ (x, y)) →
        px img' x y = px img x y) := by
  rw [placeFormat_eq, formatWrites_split, applyWrites_append]
  obtain ⟨imgA, heA, hrA, hpA⟩ := writes_spec n n (fmtA ((n : Int) - 1) fmt) img hr
  obtain ⟨img', he', hr', hp'⟩ := writes_spec n n [(((8 : Int), (n : Int) - 1 - 7), true)] imgA hrA
  have hdarkI : (((8 : Int), (n : Int) - 1 - 7) : Int × Int) = toI (8, n - 8) := by
    unfold toI; simp only [Prod.mk.injEq]; omega
  refine ⟨img', by rw [heA]; exact he', hr', ?_, ?_, ?_⟩
  · refine (hp' 8 (n - 8) (by omega) (by omega)).2 true ?_ ?_
    · intro p hp _
      rw [List.mem_singleton] at hp
      rw [hp]
    · exact ⟨_, List.mem_singleton.2 rfl, hdarkI⟩
  · -- the two modules of bit i
    have key : ∀ i, i < 15 → ∀ q : Nat × Nat, (q = fp1 i ∨ q = fp2 n i) → q.1 < n → q.2 < n →
        px img' q.1 q.2 = fmt.testBit i := by
      intro i hi q hq hq1 hq2
      have hne : ∀ p ∈ [(((8 : Int), (n : Int) - 1 - 7), true)], p.1 ≠ ((q.1 : Int), (q.2 : Int)) := by
        intro p hp he
        rw [List.mem_singleton] at hp
        rw [hp] at he
        simp only at he
        rw [hdarkI] at he
        have hq' : q = (8, n - 8) := (toI_inj (b := q) he).symm
        -- q = (8, n-8) is not a module of bit i: it would be a module of every bit
        have h0 := fpos_inj n hn i 0 hi (by omega) q hq (Or.inr (Or.inr hq'))
        have h1 := fpos_inj n hn i 1 hi (by omega) q hq (Or.inr (Or.inr hq'))
        omega
      rw [(hp' q.1 q.2 hq1 hq2).1 hne]
      refine (hpA q.1 q.2 hq1 hq2).2 _ ?_ ?_
      · intro p hp he
        obtain ⟨j, hj, hbit, hpos⟩ := fmtA_char n hn fmt p hp
        rw [hbit]
        have he' : p.1 = toI q := he
        have : i = j := by
          refine fpos_inj n hn i j hi hj q hq ?_
          rcases hpos with h | h | h
          · exact Or.inl (toI_inj (by rw [← he', h]))
          · exact Or.inr (Or.inl (toI_inj (by rw [← he', h])))
          · exact Or.inr (Or.inr (toI_inj (by rw [← he', h])))
        rw [this]
      · obtain ⟨e1, e2⟩ := fmtA_ex n hn fmt i hi
        rcases hq with rfl | rfl
        · exact e1
        · exact e2
    intro i hi
    obtain ⟨a, b, c, d⟩ := fpos_lt n hn i hi
    exact ⟨key i hi _ (Or.inl rfl) a b, key i hi _ (Or.inr rfl) c d⟩
  · intro x y hx hy hdark hnone
    have hne : ∀ p ∈ [(((8 : Int), (n : Int) - 1 - 7), true)], p.1 ≠ ((x : Int), (y : Int)) := by
      intro p hp he
      rw [List.mem_singleton] at hp
      rw [hp] at he
      simp only at he
      rw [hdarkI] at he
      exact hdark (toI_inj (b := (x, y)) he).symm
    rw [(hp' x y hx hy).1 hne]
    refine (hpA x y hx hy).1 ?_
    intro p hp he
    obtain ⟨j, hj, -, hpos⟩ := fmtA_char n hn fmt p hp
    have he' : p.1 = toI (x, y) := he
    rcases hpos with h | h | h
    · exact (hnone j hj).1 (toI_inj (by rw [← h, he']))
    · exact (hnone j hj).2 (toI_inj (by rw [← h, he']))
    · exact hdark (toI_inj (by rw [← h, he'])).symm

/-! ### version information -/

def vp1 (n i : Nat) : Nat × Nat := (n - 11 + i % 3, i / 3)
def vp2 (n i : Nat) : Nat × Nat := (i / 3, n - 11 + i % 3)

theorem verW_char (n : Nat) (hn : 21 ≤ n) (ver : Nat) (p : (Int × Int) × Bool)
    (hp : p ∈ versionWrites ((n : Int) - 1) ver) :
    ∃ i, i < 18 ∧ p.2 = ver.testBit i ∧ (p.1 = toI (vp1 n i) ∨ p.1 = toI (vp2 n i)) := by
  rw [mem_versionWrites] at hp
  obtain ⟨j, hj, rfl | rfl⟩ := hp
  · refine ⟨j, hj, rfl, Or.inr ?_⟩
    unfold vp2 toI
    simp only [Prod.mk.injEq, true_and]
    omega
  · refine ⟨j, hj, rfl, Or.inl ?_⟩
    unfold vp1 toI
    simp only [Prod.mk.injEq, and_true]
    omega

theorem vpos_inj (n : Nat) (hn : 21 ≤ n) (i j : Nat) (_hi : i < 18) (hj : j < 18) (q : Nat × Nat)
    (h1 : q = vp1 n i ∨ q = vp2 n i) (h2 : q = vp1 n j ∨ q = vp2 n j) : i = j := by
  unfold vp1 vp2 at h1 h2
  rcases h1 with rfl | rfl <;> rcases h2 with h2 | h2 <;> simp only [Prod.mk.injEq] at h2 <;> omega

theorem versionWrites_full (n : Nat) (hn : 21 ≤ n) (img : Image) (hr : Regular img n n) (ver : Nat) :
    ∃ img', applyWrites (versionWrites ((n : Int) - 1) ver) img = .ok img' ∧ Regular img' n n ∧
      (∀ i, i < 18 → px img' (vp1 n i).1 (vp1 n i).2 = ver.testBit i ∧ px img' (vp2 n i).1 (vp2 n i).2 = ver.testBit i) ∧
      (∀ x y, x < n → y < n → (∀ i, i < 18 → vp1 n i ≠ (x, y) ∧ vp2 n i ≠ (x, y)) → px img' x y = px img x y) := by
  obtain ⟨img', he, hr', hp⟩ := writes_spec n n (versionWrites ((n : Int) - 1) ver) img hr
  refine ⟨img', he, hr', ?_, ?_⟩
  · have key : ∀ i, i < 18 → ∀ q : Nat × Nat, (q = vp1 n i ∨ q = vp2 n i) → q.1 < n → q.2 < n →
        px img' q.1 q.2 = ver.testBit i := by
      intro i hi q hq hq1 hq2
      refine (hp q.1 q.2 hq1 hq2).2 _ ?_ ?_
      · intro p hp he
        obtain ⟨j, hj, hbit, hpos⟩ := verW_char n hn ver p hp
        rw [hbit]
        have he' : p.1 = toI q := he
        have : i = j := by
          refine vpos_inj n hn i j hi hj q hq ?_
          rcases hpos with h | h
          · exact Or.inl (toI_inj (by rw [← he', h]))
          · exact Or.inr (toI_inj (by rw [← he', h]))
        rw [this]
      · rcases hq with rfl | rfl
        · refine ⟨_, (mem_versionWrites ..).2 ⟨i, hi, Or.inr rfl⟩, ?_⟩
          unfold vp1
          simp only [Prod.mk.injEq, and_true]
          omega
        · refine ⟨_, (mem_versionWrites ..).2 ⟨i, hi, Or.inl rfl⟩, ?_⟩
          unfold vp2
          simp only [Prod.mk.injEq, true_and]
          omega
    intro i hi
    exact ⟨key i hi _ (Or.inl rfl) (by unfold vp1; simp only; omega) (by unfold vp1; simp only; omega),
      key i hi _ (Or.inr rfl) (by unfold vp2; simp only; omega) (by unfold vp2; simp only; omega)⟩
  · intro x y hx hy hnone
    refine (hp x y hx hy).1 ?_
    intro p hp he
    obtain ⟨j, hj, -, hpos⟩ := verW_char n hn ver p hp
    have he' : p.1 = toI (x, y) := he
    rcases hpos with h | h
    · exact (hnone j hj).1 (toI_inj (by rw [← h, he']))
    · exact (hnone j hj).2 (toI_inj (by rw [← h, he']))

/-! ### the two steps against the specification's functions -/

/-- the version-information step writes the BCH(18,6) word of the version at `versionBitAt` -/
theorem versionStep_full (v : Nat) (h1 : 1 ≤ v) (h40 : v ≤ 40) (img : Image)
    (hr : Regular img (17 + 4 * v) (17 + 4 * v)) :
    ∃ img', versionStep (v : Int) (16 + 4 * (v : Int)) img = .ok img' ∧
      Regular img' (17 + 4 * v) (17 + 4 * v) ∧
      ∀ x y : Nat, x < 17 + 4 * v → y < 17 + 4 * v →
        px img' x y = match versionBitAt v x y with
          | some i => (Spec.BCH.bch18 v).testBit i
          | none => px img x y := by
  unfold versionStep
  by_cases h7 : (v : Int) ≥ 7
  · rw [if_pos h7]
    have hver := Props.C02.bch_words.2.1 v (by omega) h40
    have hnat : natAt Gen.QR.encodedVersion (v : Int) = .ok (Spec.BCH.bch18 v) := by
      unfold natAt
      rw [if_neg (by omega)]
      simp only [Int.toNat_natCast, hver]
    rw [hnat, Out.bind_ok, versionLoop_eq]
    have hw : (16 + 4 * (v : Int)) = ((17 + 4 * v : Nat) : Int) - 1 := by omega
    rw [hw]
    obtain ⟨img', he, hr', hA, hB⟩ := versionWrites_full (17 + 4 * v) (by omega) img hr (Spec.BCH.bch18 v)
    refine ⟨img', he, hr', ?_⟩
    intro x y hx hy
    unfold versionBitAt
    rw [if_neg (by omega)]
    have hsz : Spec.Patterns.QR.size v = 17 + 4 * v := rfl
    rw [hsz]
    cases hf : (List.range 18).find? (fun i =>
        ((17 + 4 * v - 11 + i % 3, i / 3) == (x, y)) || ((i / 3, 17 + 4 * v - 11 + i % 3) == (x, y))) with
    | some i =>
      simp only
      have hi : i < 18 := List.mem_range.1 (List.mem_of_find?_eq_some hf)
      have hp := List.find?_some hf
      simp only [Bool.or_eq_true, beq_iff_eq] at hp
      rcases hp with hp | hp
      · have := (hA i hi).1
        unfold vp1 at this
        rw [hp] at this
        exact this
      · have := (hA i hi).2
        unfold vp2 at this
        rw [hp] at this
        exact this
    | none =>
      simp only
      rw [List.find?_eq_none] at hf
      refine hB x y hx hy ?_
      intro i hi
      have := hf i (List.mem_range.2 hi)
      simp only [Bool.or_eq_true, beq_iff_eq, not_or] at this
      exact this
  · rw [if_neg h7]
    refine ⟨img, rfl, hr, ?_⟩
    intro x y _ _
    unfold versionBitAt
    rw [if_pos (by omega)]

/-- the format step writes the masked BCH(15,5) word of (level, mask) at `formatBitAt` and the dark
module -/
theorem formatStep_full (v l m : Nat) (h1 : 1 ≤ v) (h40 : v ≤ 40) (hl : l < 4) (hm : m < 8) (img : Image)
    (hr : Regular img (17 + 4 * v) (17 + 4 * v)) :
    ∃ img', (natAt Gen.QR.encodedFormat ((l : Int) * 8 + (m : Int)) >>= fun c => placeFormat img (16 + 4 * (v : Int)) c) = .ok img' ∧
      Regular img' (17 + 4 * v) (17 + 4 * v) ∧
      ∀ x y : Nat, x < 17 + 4 * v → y < 17 + 4 * v →
        px img' x y =
          if x = 8 ∧ y = 17 + 4 * v - 8 then true
          else match formatBitAt (17 + 4 * v) x y with
            | some i => (Spec.BCH.bch15 (l * 8 + m) ^^^ Spec.BCH.qrFormatMask).testBit i
            | none => px img x y := by
  obtain ⟨c, hc, hct⟩ := natAt_format l m hl hm
  have hcw := Props.C02.bch_words.1 (l * 8 + m) (by omega)
  rw [hct] at hcw
  injection hcw with hcw
  have hw : (16 + 4 * (v : Int)) = ((17 + 4 * v : Nat) : Int) - 1 := by omega
  rw [hc, Out.bind_ok, hw]
  obtain ⟨img', he, hr', hD, hA, hB⟩ := placeFormat_full (17 + 4 * v) (by omega) img hr c
  refine ⟨img', he, hr', ?_⟩
  intro x y hx hy
  by_cases hd : x = 8 ∧ y = 17 + 4 * v - 8
  · rw [if_pos hd, hd.1, hd.2]
    exact hD
  · rw [if_neg hd]
    unfold formatBitAt
    cases hf : (List.range 15).find? (fun i =>
        (formatPos (17 + 4 * v) i).1 == (x, y) || (formatPos (17 + 4 * v) i).2 == (x, y)) with
    | some i =>
      simp only
      have hi : i < 15 := List.mem_range.1 (List.mem_of_find?_eq_some hf)
      have hp := List.find?_some hf
      simp only [Bool.or_eq_true, beq_iff_eq, formatPos_eq] at hp
      have hq : Spec.BCH.qrFormatMask = 0x5412 := rfl
      rw [hq, ← hcw]
      rcases hp with hp | hp
      · have := (hA i hi).1
        rw [hp] at this
        exact this
      · have := (hA i hi).2
        rw [hp] at this
        exact this
    | none =>
      simp only
      rw [List.find?_eq_none] at hf
      refine hB x y hx hy ?_ ?_
      · intro he
        apply hd
        injection he with e1 e2
        exact ⟨e1, e2⟩
      · intro i hi
        have := hf i (List.mem_range.2 hi)
        simp only [Bool.or_eq_true, beq_iff_eq, not_or, formatPos_eq] at this
        exact this

end QRV.Lemmas.SymFormat
