import QRV.Lemmas.DecRMQRWalk
import QRV.Lemmas.RTFinBlocks
import QRV.Lemmas.Finite
/-
C06/C07 — rMQR: kernel-evaluated facts about the regenerated tables: for each of the 32 versions the
reading walk ends within the model's fuel and fills at least `Total` bytes (the last one possibly
partial: known finding D18); every capacity row has the two-group block shape and count indicator
widths of at most 16 bits.
-/
namespace QRV.Lemmas.DecR
open QRV QRV.Lemmas QRV.Lemmas.RT

set_option maxRecDepth 1000000

theorem checkR_rows : (List.range 32).all checkR = true := by decide +kernel

theorem checkR_all (v : Nat) (hv : v < 32) : checkR v = true := forall_lt_of_all checkR_rows v hv

/-- one capacity row: block shape, five count-indicator widths, none above 16 -/
def rowOK (v l : Nat) : Bool :=
  match (Gen.RMQR.capacityTable[v]?.getD [])[l]? with
  | none => false
  | some c => capShapeOK c && c.bitLength.all (fun n => decide (n ≤ 16))

theorem rowOK_rows : (List.range 32).all (fun v => (List.range 2).all (rowOK v)) = true := by decide +kernel

theorem rowOK_all (v l : Nat) (hv : v < 32) (hl : l < 2) : rowOK v l = true :=
  forall_lt_of_all₂ rowOK_rows v hv l hl

end QRV.Lemmas.DecR
