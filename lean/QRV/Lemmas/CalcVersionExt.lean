import QRV.Props.C05
/-
Helper lemmas for C05Ext: Micro QR and rMQR segment length against the standard's bit length,
Micro QR `calcVersion` (first fit over M1..M4 = least version), rMQR `calcVersion` with the height /
width priority (first fit over a sorted permutation = least height / width).
-/
namespace QRV.Lemmas.CalcVersionExt
open QRV QRV.Model QRV.Model.Sym QRV.Spec.Valid QRV.Lemmas.CalcVersion

/-! ### Micro QR: segment length -/

theorem micro_length_agrees (s : Segment) (v : Nat) (h1 : 1 ≤ v) (h4 : v ≤ 4) :
    Model.Micro.segLength s (v : Int) =
      (match Spec.Valid.Micro.kindOf s.mode with
       | some k => (Spec.Valid.Micro.countBits k v).map fun _ => Spec.Valid.Micro.segBits s v
       | none => none) := by
  obtain ⟨mode, data⟩ := s
  have hv : v = 1 ∨ v = 2 ∨ v = 3 ∨ v = 4 := by omega
  by_cases hm : mode < 4
  · have hmm : mode = 0 ∨ mode = 1 ∨ mode = 2 ∨ mode = 3 := by omega
    rcases hmm with rfl | rfl | rfl | rfl <;> rcases hv with rfl | rfl | rfl | rfl <;>
      simp [Model.Micro.segLength, Model.Micro.countBits, Model.Micro.modeBits, Model.Micro.modeNumeric,
        Model.Micro.modeAlphanumeric, Model.Micro.modeBytes, Model.Micro.modeKanji, Spec.Valid.Micro.kindOf,
        Spec.Valid.Micro.countBits, Spec.Valid.Micro.segBits, Spec.Valid.Micro.modeBits, count, bodyBits,
        Utf8.runeCount] <;> (try split) <;> omega
  · have e1 : Spec.Valid.Micro.kindOf mode = none := by unfold Spec.Valid.Micro.kindOf; rw [if_neg hm]
    have e2 : Model.Micro.countBits mode (v : Int) = none := by
      simp [Model.Micro.countBits, Model.Micro.modeNumeric, Model.Micro.modeAlphanumeric, Model.Micro.modeBytes,
        Model.Micro.modeKanji, show mode ≠ 0 by omega, show mode ≠ 1 by omega, show mode ≠ 2 by omega,
        show mode ≠ 3 by omega]
    simp only [Model.Micro.segLength, e1, e2]

/-- the two facts used below: the model's length exists exactly when the mode exists in the version,
and its value (0 when absent) is the standard's bit length -/
theorem micro_len (s : Segment) (v : Nat) (h1 : 1 ≤ v) (h4 : v ≤ 4) :
    ((Model.Micro.segLength s (v : Int)).isSome = true ↔
      ∃ k cb, Spec.Valid.Micro.kindOf s.mode = some k ∧ Spec.Valid.Micro.countBits k v = some cb) ∧
    (Model.Micro.segLength s (v : Int)).getD 0 = Spec.Valid.Micro.segBits s v := by
  rw [micro_length_agrees s v h1 h4]
  cases hk : Spec.Valid.Micro.kindOf s.mode with
  | none =>
    refine ⟨⟨fun h => (by simp at h), fun ⟨k, cb, h, _⟩ => (by cases h)⟩, ?_⟩
    simp [Spec.Valid.Micro.segBits, hk]
  | some k =>
    cases hc : Spec.Valid.Micro.countBits k v with
    | none =>
      refine ⟨⟨fun h => (by simp [hc] at h), fun ⟨k', cb, h, h'⟩ => (by cases h; rw [hc] at h'; cases h')⟩, ?_⟩
      simp [Spec.Valid.Micro.segBits, hk, hc]
    | some cb =>
      refine ⟨⟨fun _ => ⟨k, cb, rfl, hc⟩, fun _ => (by simp [hc])⟩, ?_⟩
      simp [Spec.Valid.Micro.segBits, hk, hc]

/-! ### Micro QR: `calcVersion` -/

def miInnerStep (version : Int) (capacity : Nat) (s : Segment) (st : Nat × Bool) : Out (ForInStep (Nat × Bool)) :=
  if (!st.2) = true then
    match Model.Micro.segLength s version with
    | none => pure (.yield (st.1, true))
    | some l => if st.1 + l > capacity then pure (.yield (st.1 + l, true)) else pure (.yield (st.1 + l, st.2))
  else pure (.yield (st.1, st.2))

def miBody (level : Int) (segs : List Segment) (vi : Nat) : Out (ForInStep (Option Int × Unit)) := do
  let f ← Model.Micro.formatAt (vi : Int) level
  if f ≥ 0 then do
    let cap ← capAt Gen.Micro.capacityTable (vi : Int) level
    let st ← forIn segs (0, false) (miInnerStep vi cap.dataBits)
    if (!st.2) = true ∧ st.1 ≤ cap.dataBits then pure (.done (some (vi : Int), ())) else pure (.yield (none, ()))
  else pure (.yield (none, ()))

theorem mi_calcVersion_eq (level : Int) (segs : List Segment) :
    Model.Micro.calcVersion level segs =
      (do
        let r ← forIn [1:5] ((none : Option Int), ()) (fun vi _ => miBody level segs vi)
        match r.1 with
        | some r => pure r
        | none => pure 0) := by
  unfold Model.Micro.calcVersion
  congr 1
  funext r
  cases r with
  | mk a b => cases a <;> rfl

theorem miInner_spec (version : Int) (cap : Nat) :
    ∀ (segs : List Segment) (a : Nat),
      ∃ st, forIn segs (a, false) (miInnerStep version cap) = .ok st ∧
        ((st.2 = false ∧ st.1 ≤ cap) ↔
          (∀ s ∈ segs, (Model.Micro.segLength s version).isSome = true) ∧
          a + (segs.map fun s => (Model.Micro.segLength s version).getD 0).sum ≤ cap) := by
  have hover : ∀ (segs : List Segment) (a : Nat),
      forIn segs (a, true) (miInnerStep version cap) = .ok (a, true) := by
    intro segs
    induction segs with
    | nil => intro a; rfl
    | cons s segs ih => intro a; rw [List.forIn_cons]; simp only [miInnerStep]; exact ih a
  intro segs
  induction segs with
  | nil => intro a; exact ⟨(a, false), rfl, by simp⟩
  | cons s segs ih =>
    intro a
    rw [List.forIn_cons]
    simp only [miInnerStep]
    cases hl : Model.Micro.segLength s version with
    | none =>
      refine ⟨(a, true), ?_, ?_⟩
      · simp only [Bool.not_false, if_true]
        exact hover segs _
      · simp [hl]
    | some l =>
      by_cases hgt : a + l > cap
      · refine ⟨(a + l, true), ?_, ?_⟩
        · simp only [Bool.not_false, if_true, hgt]
          exact hover segs _
        · simp [hl]; intro _; omega
      · obtain ⟨st, he, hiff⟩ := ih (a + l)
        refine ⟨st, ?_, ?_⟩
        · simp only [Bool.not_false, if_true, hgt, if_false]
          exact he
        · rw [hiff]; simp [hl, Nat.add_assoc]

/-- a version holds the segments at a level indicator value -/
def microFits (level : Nat) (segs : List Segment) (v : Nat) : Prop :=
  ∃ cap, Spec.Valid.Micro.dataBits v level = some cap ∧
    (∀ s ∈ segs, ∃ k cb, Spec.Valid.Micro.kindOf s.mode = some k ∧ Spec.Valid.Micro.countBits k v = some cb) ∧
    (segs.map fun s => Spec.Valid.Micro.segBits s v).sum ≤ cap

/-- the pairs (version, level) of the regenerated format table are the standard's, with its data bits -/
def microPairOK (v l : Nat) : Bool :=
  match Model.Micro.formatAt (v : Int) (l : Int) with
  | .ok f =>
    if f ≥ 0 then
      (match capAt Gen.Micro.capacityTable (v : Int) (l : Int) with
       | .ok c => Spec.Valid.Micro.dataBits v l == some c.dataBits
       | _ => false)
    else Spec.Valid.Micro.dataBits v l == none
  | _ => false

theorem micro_pairs : (List.range 5).all (fun v => v == 0 || (List.range 4).all (microPairOK v)) = true := by
  decide +kernel

theorem micro_pair (v l : Nat) (h1 : 1 ≤ v) (h4 : v ≤ 4) (hl : l < 4) :
    ∃ f, Model.Micro.formatAt (v : Int) (l : Int) = .ok f ∧
      ((f ≥ 0 ∧ ∃ c, capAt Gen.Micro.capacityTable (v : Int) (l : Int) = .ok c ∧
          Spec.Valid.Micro.dataBits v l = some c.dataBits) ∨
       (¬ f ≥ 0 ∧ Spec.Valid.Micro.dataBits v l = none)) := by
  have h := forall_lt_of_all micro_pairs v (by omega)
  simp only [Bool.or_eq_true, beq_iff_eq] at h
  rcases h with h | h
  · omega
  · have h' := forall_lt_of_all h l hl
    unfold microPairOK at h'
    split at h'
    · rename_i f hf
      refine ⟨f, hf, ?_⟩
      split at h'
      · rename_i hge
        split at h'
        · rename_i c hc
          exact .inl ⟨hge, c, hc, by simpa using h'⟩
        · cases h'
      · rename_i hge
        exact .inr ⟨hge, by simpa using h'⟩
    · cases h'

theorem miBody_spec (level : Nat) (hl : level < 4) (segs : List Segment) (vi : Nat) (h1 : 1 ≤ vi) (h4 : vi ≤ 4) :
    (microFits level segs vi ∧ miBody (level : Int) segs vi = .ok (.done (some (vi : Int), ()))) ∨
    (¬ microFits level segs vi ∧ miBody (level : Int) segs vi = .ok (.yield (none, ()))) := by
  obtain ⟨f, hf, hcase⟩ := micro_pair vi level h1 h4 hl
  unfold miBody
  simp only [hf, Out.bind_ok]
  rcases hcase with ⟨hge, c, hc, hd⟩ | ⟨hge, hd⟩
  · rw [if_pos hge]
    obtain ⟨st, hst, hiff⟩ := miInner_spec (vi : Int) c.dataBits segs 0
    simp only [hc, Out.bind_ok, hst]
    have hfit : microFits level segs vi ↔ (st.2 = false ∧ st.1 ≤ c.dataBits) := by
      rw [hiff, Nat.zero_add]
      unfold microFits
      rw [hd]
      have hmap : (segs.map fun s => (Model.Micro.segLength s (vi : Int)).getD 0) =
          segs.map fun s => Spec.Valid.Micro.segBits s vi :=
        List.map_congr_left (fun s _ => (micro_len s vi h1 h4).2)
      rw [hmap]
      constructor
      · rintro ⟨cap, hcap, hall, hsum⟩
        cases hcap
        exact ⟨fun s hs => (micro_len s vi h1 h4).1.2 (hall s hs), hsum⟩
      · rintro ⟨hall, hsum⟩
        exact ⟨_, rfl, fun s hs => (micro_len s vi h1 h4).1.1 (hall s hs), hsum⟩
    by_cases hfit' : microFits level segs vi
    · left
      refine ⟨hfit', ?_⟩
      have := hfit.1 hfit'
      rw [if_pos (by simpa using this)]; rfl
    · right
      refine ⟨hfit', ?_⟩
      have : ¬ (st.2 = false ∧ st.1 ≤ c.dataBits) := fun h => hfit' (hfit.2 h)
      rw [if_neg (by simpa using this)]; rfl
  · rw [if_neg hge]
    right
    refine ⟨?_, rfl⟩
    rintro ⟨cap, hcap, _⟩
    rw [hd] at hcap
    cases hcap

theorem micro_calcVersion_minimal (level : Nat) (hl : level < 4) (segs : List Segment) :
    ∃ v : Nat, Model.Micro.calcVersion (level : Int) segs = .ok (v : Int) ∧ v ≤ 4 ∧
      (v ≠ 0 → microFits level segs v ∧ ∀ v', 1 ≤ v' → v' < v → ¬ microFits level segs v') ∧
      (v = 0 → ∀ v', 1 ≤ v' → v' ≤ 4 → ¬ microFits level segs v') := by
  rw [mi_calcVersion_eq, Std.Legacy.Range.forIn_eq_forIn_range']
  simp only [Std.Legacy.Range.size]
  rw [show (5 - 1 + 1 - 1) / 1 = 4 from rfl]
  have hscan := scan_first (miBody (level : Int) segs) (fun vi => microFits level segs vi)
    (fun vi => (vi : Int)) (List.range' 1 4) (fun a ha => by
      rw [List.mem_range'_1] at ha
      exact miBody_spec level hl segs a ha.1 (by omega))
  rcases hscan with ⟨i, hi, he, hfit, hmin⟩ | ⟨he, hno⟩
  · rw [List.length_range'] at hi
    rw [List.getElem_range'] at he hfit
    refine ⟨1 + 1 * i, ?_, by omega, fun _ => ⟨hfit, ?_⟩, fun h => by omega⟩
    · rw [he]; rfl
    · intro v' h1 h2
      have := hmin (v' - 1) (by omega)
      rw [List.getElem_range'] at this
      rw [show 1 + 1 * (v' - 1) = v' by omega] at this
      exact this
  · refine ⟨0, ?_, by omega, fun h => absurd rfl h, fun _ v' h1 h2 => ?_⟩
    · rw [he]; rfl
    · exact hno v' (by rw [List.mem_range'_1]; omega)

/-! ### rMQR: segment length -/

theorem rm_close (len p A B : Nat) (h : A = B) :
    (if len ≥ p then Out.ok none else Out.ok (some A)) = Out.ok (if len < p then some B else none) := by
  subst h
  by_cases hh : len < p
  · rw [if_neg (by omega), if_pos hh]
  · rw [if_pos (by omega), if_neg hh]

theorem rm_rhs1 (data : List Nat) (c : Gen.GCap) :
    (match Spec.Valid.RMQR.kindOf ({ mode := 1, data := data } : Segment).mode with
     | some k => if count k data < 2 ^ Spec.Valid.RMQR.countBits k c
         then some (Spec.Valid.RMQR.segBits { mode := 1, data := data } c) else none
     | none => none) =
    if data.length < 2 ^ (c.bitLength[1]?.getD 0) then
      some (3 + c.bitLength[1]?.getD 0 +
        (10 * (data.length / 3) + (if data.length % 3 = 1 then 4 else if data.length % 3 = 2 then 7 else 0)))
    else none := rfl

theorem rm_rhs2 (data : List Nat) (c : Gen.GCap) :
    (match Spec.Valid.RMQR.kindOf ({ mode := 2, data := data } : Segment).mode with
     | some k => if count k data < 2 ^ Spec.Valid.RMQR.countBits k c
         then some (Spec.Valid.RMQR.segBits { mode := 2, data := data } c) else none
     | none => none) =
    if data.length < 2 ^ (c.bitLength[2]?.getD 0) then
      some (3 + c.bitLength[2]?.getD 0 + (11 * (data.length / 2) + 6 * (data.length % 2)))
    else none := rfl

theorem rm_rhs3 (data : List Nat) (c : Gen.GCap) :
    (match Spec.Valid.RMQR.kindOf ({ mode := 3, data := data } : Segment).mode with
     | some k => if count k data < 2 ^ Spec.Valid.RMQR.countBits k c
         then some (Spec.Valid.RMQR.segBits { mode := 3, data := data } c) else none
     | none => none) =
    if data.length < 2 ^ (c.bitLength[3]?.getD 0) then
      some (3 + c.bitLength[3]?.getD 0 + 8 * data.length)
    else none := rfl

theorem rm_rhs4 (data : List Nat) (c : Gen.GCap) :
    (match Spec.Valid.RMQR.kindOf ({ mode := 4, data := data } : Segment).mode with
     | some k => if count k data < 2 ^ Spec.Valid.RMQR.countBits k c
         then some (Spec.Valid.RMQR.segBits { mode := 4, data := data } c) else none
     | none => none) =
    if (Utf8.runes data).length < 2 ^ (c.bitLength[4]?.getD 0) then
      some (3 + c.bitLength[4]?.getD 0 + 13 * (Utf8.runes data).length)
    else none := rfl

theorem rmqr_length_agrees (s : Segment) (v level : Nat) (c : Gen.GCap) (hc : Spec.Valid.RMQR.row v level = some c) :
    Model.RMQR.segLength s (v : Int) (level : Int) = .ok
      (match Spec.Valid.RMQR.kindOf s.mode with
       | some k => if count k s.data < 2 ^ Spec.Valid.RMQR.countBits k c then some (Spec.Valid.RMQR.segBits s c) else none
       | none => none) := by
  obtain ⟨mode, data⟩ := s
  unfold Spec.Valid.RMQR.row at hc
  cases hrow : Gen.RMQR.capacityTable[v]? with
  | none => rw [hrow] at hc; simp at hc
  | some row =>
    rw [hrow] at hc
    simp only [Option.getD_some] at hc
    unfold Model.RMQR.segLength
    simp only [Int.toNat_natCast, hrow, hc]
    rw [if_neg (by omega), if_neg (by omega)]
    simp only [Model.RMQR.modeNumeric, Model.RMQR.modeAlphanumeric, Model.RMQR.modeBytes, Model.RMQR.modeKanji,
      Model.RMQR.KANJI_COUNTS_BYTES, Bool.false_eq_true, if_false, Utf8.runeCount]
    by_cases h1 : mode = 1
    · subst h1
      rw [if_pos rfl]
      exact (rm_close _ _ _ _ (by omega)).trans (congrArg Out.ok (rm_rhs1 data c).symm)
    rw [if_neg h1]
    by_cases h2 : mode = 2
    · subst h2
      rw [if_pos rfl]
      refine (rm_close _ _ _ _ ?_).trans (congrArg Out.ok (rm_rhs2 data c).symm)
      split <;> omega
    rw [if_neg h2]
    by_cases h3 : mode = 3
    · subst h3
      rw [if_pos rfl]
      exact (rm_close _ _ _ _ (by omega)).trans (congrArg Out.ok (rm_rhs3 data c).symm)
    rw [if_neg h3]
    by_cases h4 : mode = 4
    · subst h4
      rw [if_pos rfl]
      exact (rm_close _ _ _ _ (by omega)).trans (congrArg Out.ok (rm_rhs4 data c).symm)
    · rw [if_neg h4]
      have e : Spec.Valid.RMQR.kindOf mode = none := by unfold Spec.Valid.RMQR.kindOf; rw [if_neg (by omega)]
      simp only [e]

/-! ### rMQR: least height / width -/

open QRV.Props.C05 in
theorem sorted_chain (key : Nat → Nat) (l : List Int) (h : Lemmas.Tables.sortedBy key l = true) :
    l.length = 32 ∧ (∀ v : Nat, v < 32 → (v : Int) ∈ l) ∧
    ∀ i j : Nat, i ≤ j → j < 32 → key (l[i]?.getD 0).toNat ≤ key (l[j]?.getD 0).toNat := by
  unfold Lemmas.Tables.sortedBy at h
  simp only [Bool.and_eq_true, beq_iff_eq] at h
  obtain ⟨⟨h1, h2⟩, h3⟩ := h
  refine ⟨h1, fun v hv => ?_, ?_⟩
  · have := forall_lt_of_all h2 v hv
    simpa using this
  · intro i j hij hj
    induction j with
    | zero =>
      have : i = 0 := by omega
      subst this; exact Nat.le_refl _
    | succ j ih =>
      by_cases he : i = j + 1
      · subst he; exact Nat.le_refl _
      · have h' := forall_lt_of_all h3 j (by omega)
        have h'' : key (l[j]?.getD 0).toNat ≤ key (l[j + 1]?.getD 0).toNat := by simpa using h'
        exact Nat.le_trans (ih (by omega) (by omega)) h''

theorem rmqr_calcVersion_least (level prio : Nat) (hl : level < 2) (hp : prio = 1 ∨ prio = 2) (segs : List Segment)
    (v : Int) (h : Model.RMQR.calcVersion (level : Int) (prio : Int) segs = .ok (some v)) :
    QRV.Props.C05.rmFits level segs v ∧ ∀ v' : Nat, v' < 32 → QRV.Props.C05.rmFits level segs (v' : Int) →
      (if prio = 1 then Spec.Patterns.RMQR.height v.toNat ≤ Spec.Patterns.RMQR.height v'
       else Spec.Patterns.RMQR.width v.toNat ≤ Spec.Patterns.RMQR.width v') := by
  obtain ⟨r, hr, hsome, _⟩ := QRV.Props.C05.rmqr_calcVersion_first_fit level prio hl (by omega) segs
  rw [h] at hr
  cases hr
  obtain ⟨hfit, i, hi, hmin⟩ := hsome v rfl
  refine ⟨hfit, fun v' hv' hfit' => ?_⟩
  -- the chain property of the order list of this priority
  have hch : ∃ key : Nat → Nat, Lemmas.Tables.sortedBy key (QRV.Props.C05.rmOrder prio) = true ∧
      ((if prio = 1 then Spec.Patterns.RMQR.height v.toNat ≤ Spec.Patterns.RMQR.height v'
        else Spec.Patterns.RMQR.width v.toNat ≤ Spec.Patterns.RMQR.width v') ↔ key v.toNat ≤ key v') := by
    rcases hp with rfl | rfl
    · exact ⟨Spec.Patterns.RMQR.height, QRV.Props.C05.rmqr_orders_sorted.1, by simp⟩
    · exact ⟨Spec.Patterns.RMQR.width, QRV.Props.C05.rmqr_orders_sorted.2, by simp⟩
  obtain ⟨key, hs, hiff⟩ := hch
  rw [hiff]
  obtain ⟨hlen, hmem, hchain⟩ := sorted_chain key _ hs
  obtain ⟨j, hj, hjv⟩ := List.getElem_of_mem (hmem v' hv')
  have hj' : (QRV.Props.C05.rmOrder prio)[j]? = some (v' : Int) := by rw [List.getElem?_eq_getElem hj, hjv]
  have hij : i ≤ j := by
    apply Classical.byContradiction
    intro hlt
    exact hmin j (by omega) _ hj' hfit'
  have := hchain i j hij (by omega)
  rw [hi, hj'] at this
  simpa using this

end QRV.Lemmas.CalcVersionExt
